(* C16 — proofs over C16/Model.v: inductive invariants of [step] for arbitrary op sequences. *)
From Coq Require Import ZArith List Bool Arith Lia Permutation.
From GV Require Import C16.Model.
Import ListNotations.
Open Scope Z_scope.

(* ------------------------------------------------------------------ lists *)
Lemma mem_In : forall r l, mem r l = true <-> In r l.
Proof.
  induction l as [|x t IH]; simpl; [split; [discriminate|tauto]|].
  rewrite orb_true_iff, Nat.eqb_eq, IH. tauto.
Qed.

Lemma mem_false : forall r l, mem r l = false <-> ~ In r l.
Proof. intros. rewrite <- mem_In. destruct (mem r l); split; congruence. Qed.

Lemma remove1_In : forall x r l, In x (remove1 r l) <-> In x l /\ x <> r.
Proof.
  induction l as [|y t IH]; simpl; [tauto|].
  destruct (Nat.eqb_spec y r); simpl; rewrite IH; split; intros; intuition (subst; congruence).
Qed.

Lemma remove1_NoDup : forall r l, NoDup l -> NoDup (remove1 r l).
Proof.
  induction l as [|y t IH]; simpl; intros H; [constructor|]. inversion H; subst.
  destruct (Nat.eqb_spec y r); auto. constructor; auto. rewrite remove1_In. tauto.
Qed.

Lemma remove1_notin : forall r l, ~ In r l -> remove1 r l = l.
Proof.
  induction l as [|y t IH]; simpl; intros H; auto.
  destruct (Nat.eqb_spec y r); [subst; tauto|]. f_equal. apply IH. tauto.
Qed.

Lemma remove1_length : forall r l, NoDup l -> In r l -> S (length (remove1 r l)) = length l.
Proof.
  induction l as [|y t IH]; simpl; intros Hn Hi; [tauto|]. inversion Hn; subst.
  destruct (Nat.eqb_spec y r).
  - subst. rewrite remove1_notin; auto.
  - simpl. f_equal. apply IH; auto. destruct Hi; congruence.
Qed.

(* ------------------------------------------------------------------ objects *)
Lemma get_mapi_from : forall f l i r, get (mapi_from i f l) r = option_map (f (i + r)%nat) (get l r).
Proof.
  unfold get. induction l as [|x t IH]; intros i r; simpl.
  - destruct r; reflexivity.
  - destruct r; simpl; [rewrite Nat.add_0_r; reflexivity|]. rewrite IH. f_equal. f_equal. lia.
Qed.

Lemma get_mapi : forall f l r, get (mapi f l) r = option_map (f r) (get l r).
Proof. intros. unfold mapi. rewrite get_mapi_from. reflexivity. Qed.

Lemma length_mapi_from : forall f l i, length (mapi_from i f l) = length l.
Proof. induction l; simpl; intros; auto. Qed.

Lemma length_mapi : forall f l, length (mapi f l) = length l.
Proof. intros. apply length_mapi_from. Qed.

Lemma length_upd : forall l r f, length (upd l r f) = length l.
Proof. intros. apply length_mapi. Qed.

Lemma get_upd : forall l r f r', get (upd l r f) r' = if Nat.eqb r' r then option_map f (get l r') else get l r'.
Proof.
  intros. unfold upd. rewrite get_mapi. destruct (Nat.eqb r' r); destruct (get l r'); reflexivity.
Qed.

Lemma get_lt : forall l r o, get l r = Some o -> (r < length l)%nat.
Proof. unfold get. intros. apply nth_error_Some. congruence. Qed.

Lemma get_app_old : forall l x r, (r < length l)%nat -> get (l ++ [x]) r = get l r.
Proof. unfold get. intros. apply nth_error_app1. auto. Qed.

Lemma get_app_new : forall l x, get (l ++ [x]) (length l) = Some x.
Proof. unfold get. intros. rewrite nth_error_app2, Nat.sub_diag; auto. Qed.

Lemma get_app_inv : forall l x r o, get (l ++ [x]) r = Some o ->
  (r < length l /\ get l r = Some o)%nat \/ (r = length l /\ o = x).
Proof.
  intros l x r o H. destruct (Nat.lt_ge_cases r (length l)) as [Hl|Hg].
  - left. rewrite get_app_old in H; auto.
  - right. pose proof (get_lt _ _ _ H) as Hb. rewrite app_length in Hb. simpl in Hb.
    assert (r = length l) by lia. subst. rewrite get_app_new in H. split; congruence.
Qed.

Lemma is_stash_mapi : forall f l r, (forall i o, o_stash (f i o) = o_stash o) -> is_stash (mapi f l) r = is_stash l r.
Proof. intros. unfold is_stash. rewrite get_mapi. destruct (get l r); simpl; auto. Qed.

Lemma nstash_mapi : forall f l t, (forall i o, o_stash (f i o) = o_stash o) -> nstash (mapi f l) t = nstash l t.
Proof. induction t; simpl; intros; auto. rewrite is_stash_mapi, IHt; auto. Qed.

Lemma nstash_upd : forall l r f t, (forall o, o_stash (f o) = o_stash o) -> nstash (upd l r f) t = nstash l t.
Proof. intros. unfold upd. apply nstash_mapi. intros i o. destruct (Nat.eqb i r); auto. Qed.

Lemma is_stash_app_old : forall l x r, (r < length l)%nat -> is_stash (l ++ [x]) r = is_stash l r.
Proof. intros. unfold is_stash. rewrite get_app_old; auto. Qed.

Lemma nstash_app_objs : forall l x t, (forall r, In r t -> (r < length l)%nat) -> nstash (l ++ [x]) t = nstash l t.
Proof.
  induction t; simpl; intros H; auto. rewrite is_stash_app_old, IHt; auto.
Qed.

Lemma nstash_app : forall l t r, nstash l (t ++ [r]) = (nstash l t + (if is_stash l r then 1 else 0))%nat.
Proof. induction t; simpl; intros; [lia|]. rewrite IHt. lia. Qed.

Lemma nstash_remove1 : forall l r t, NoDup t -> In r t ->
  nstash l t = ((if is_stash l r then 1 else 0) + nstash l (remove1 r t))%nat.
Proof.
  induction t as [|y t IH]; simpl; intros Hn Hi; [tauto|]. inversion Hn; subst.
  destruct (Nat.eqb_spec y r).
  - subst. rewrite remove1_notin; auto.
  - simpl. rewrite IH; auto; [lia|]. destruct Hi; congruence.
Qed.

Lemma users_app : forall a b, users (a ++ b) = users a ++ users b.
Proof. induction a as [|m a IH]; simpl; intros; auto. destruct m; simpl; rewrite IH; auto. Qed.

Lemma seq_S_end : forall n, seq 0 (S n) = seq 0 n ++ [n].
Proof. intros. rewrite seq_S. reflexivity. Qed.

(* the setters keep the mode *)
Lemma stash_set_completed : forall k o, o_stash (set_completed k o) = o_stash o. Proof. reflexivity. Qed.
Lemma stash_set_cb : forall o, o_stash (set_cb o) = o_stash o. Proof. reflexivity. Qed.
Lemma stash_inc_calls : forall o, o_stash (inc_calls o) = o_stash o. Proof. reflexivity. Qed.
Lemma stash_set_cancelreq : forall o, o_stash (set_cancelreq o) = o_stash o. Proof. reflexivity. Qed.
Lemma stash_set_timer : forall t o, o_stash (set_timer t o) = o_stash o. Proof. reflexivity. Qed.
Lemma stash_stop_timer : forall o, o_stash (stop_timer o) = o_stash o.
Proof. intros. unfold stop_timer. destruct (o_timer o); reflexivity. Qed.
Lemma stash_cancel_one : forall o, o_stash (cancel_one o) = o_stash o.
Proof. intros. unfold cancel_one. destruct (o_completed o); reflexivity. Qed.
#[global] Hint Resolve stash_set_completed stash_set_cb stash_inc_calls stash_set_cancelreq stash_set_timer stash_stop_timer stash_cancel_one : c16.

Lemma filter_length_split : forall (f : nat -> bool) l,
  (length (filter f l) + length (filter (fun x => negb (f x)) l) = length l)%nat.
Proof. induction l as [|y t IH]; simpl; auto. destruct (f y); simpl; lia. Qed.

Lemma nstash_filter_split : forall ob (f : nat -> bool) t,
  (nstash ob (filter f t) + nstash ob (filter (fun x => negb (f x)) t) = nstash ob t)%nat.
Proof. induction t as [|y t IH]; simpl; auto. destruct (f y); simpl; lia. Qed.

Section Policy.
(* [z]: whether cancelInFlightRequests zeroes the counters after its loop (see Model.v) *)
Variable z : bool.
Local Notation step := (Model.step z).
Local Notation run := (Model.run z).

Definition runfrom (s : st) (ops : list op) : st := fold_left step ops s.

Definition reach (mx : Z) (s : st) : Prop := exists ops, s = run mx ops.

Lemma reach_ind_inv : forall (P : st -> Prop) mx,
  P (init mx) -> (forall s o, P s -> P (step s o)) -> forall s, reach mx s -> P s.
Proof.
  intros P mx H0 Hs s [ops ->]. unfold run.
  assert (G : forall ops s0, P s0 -> P (fold_left step ops s0)).
  { induction ops0 as [|o t IH]; simpl; intros; auto. }
  apply G. exact H0.
Qed.

Lemma reach_step : forall mx s o, reach mx s -> reach mx (step s o).
Proof. intros mx s o [ops ->]. exists (ops ++ [o]). unfold run. rewrite fold_left_app. reflexivity. Qed.

(* ------------------------------------------------------------------ WF: the table *)
Definition WF (s : st) : Prop :=
  NoDup (table s) /\ (forall r, In r (table s) -> (r < length (objs s))%nat).

Lemma wf_register : forall s st_ ar s', WF s -> register s st_ ar = Some s' -> WF s'.
Proof.
  unfold register. intros s b a s' [Hn Hb] H.
  destruct ((0 <? maxif s) && (maxif s <=? inflight s)); [discriminate|]. inversion H; subst; clear H.
  split; simpl.
  - apply Permutation_NoDup with (l := length (objs s) :: table s).
    + apply Permutation_cons_append.
    + constructor; auto. intros Hi. apply Hb in Hi. lia.
  - intros r Hi. rewrite app_length. simpl. apply in_app_or in Hi. destruct Hi as [Hi|[<-|[]]]; [apply Hb in Hi|]; lia.
Qed.

Lemma wf_deregister : forall s r, WF s -> WF (deregister s r).
Proof.
  unfold deregister. intros s r [Hn Hb].
  destruct (mem r (table s)); simpl; [|split; auto].
  assert (W : NoDup (remove1 r (table s)) /\ forall x, In x (remove1 r (table s)) -> (x < length (upd (objs s) r stop_timer))%nat).
  { split; [apply remove1_NoDup; auto|]. intros x Hx. rewrite length_upd. apply remove1_In in Hx. apply Hb. tauto. }
  destruct (is_stash (objs s) r); [destruct (blocking s - 1 =? 0)|]; exact W.
Qed.

Lemma objs_deregister_length : forall s r, length (objs (deregister s r)) = length (objs s).
Proof.
  unfold deregister. intros. destruct (mem r (table s)); simpl; auto.
  destruct (is_stash (objs s) r); [destruct (blocking s - 1 =? 0)|]; simpl; apply length_upd.
Qed.

Lemma wf_step : forall s o, WF s -> WF (step s o).
Proof.
  intros s o H. pose proof H as [Hn Hb].
  destruct o; simpl; auto.
  - destruct (ph s); auto.
  - destruct (ph s); auto.
  - destruct (get (objs s) r); auto. destruct (o_timer r0); auto; split; simpl; auto; intros; rewrite length_upd; auto.
  - destruct (get (objs s) r); auto. destruct (o_completed r0 || o_cancelreq r0); auto.
    split; simpl; auto; intros; rewrite length_upd; auto.
  - destruct (ph s); auto.
  - split; simpl.
    + unfold cancel_keep. apply NoDup_filter. auto.
    + intros r Hi. unfold cancel_keep in Hi. apply filter_In in Hi. unfold cancel_objs. rewrite length_mapi. apply Hb. tauto.
  - destruct (ph s); auto. split; simpl; [constructor|tauto].
  - destruct (ph s); auto.
  - destruct (turn s); auto. destruct (mbox s) as [|m rest]; auto. destruct m.
    + destruct (0 <? blocking s); split; simpl; auto.
    + destruct (mem r (table s)); [|split; simpl; auto].
      destruct (get (objs s) r); [|split; simpl; auto].
      destruct (o_completed r0); split; simpl; auto. intros; rewrite length_upd; auto.
  - destruct (turn s) as [|r c k]; auto.
    assert (W : WF (deregister (with_turn s TIdle) r)) by (apply wf_deregister; exact H).
    destruct c; auto. destruct W as [W1 W2]. split; simpl; auto. intros; rewrite length_upd; auto.
  - destruct (turn s); auto.
  - destruct (turn s); auto. destruct (ph s); auto.
    destruct (register s stash armed) eqn:E; auto. eapply wf_register; eauto.
  - destruct (turn s); auto. destruct (get (objs s) r); auto. destruct (o_cb r0); auto.
    destruct (o_completed r0); split; simpl; auto; intros; rewrite length_upd; auto.
Qed.

(* ------------------------------------------------------------------ per-request invariant *)
Definition mid_of (t : turnst) (r : nat) : option bool :=
  match t with TMid r' c _ => if Nat.eqb r' r then Some c else None | TIdle => None end.

Definition objinv (t : turnst) (r : nat) (intab : bool) (o : robj) : Prop :=
  (match mid_of t r with
   | Some c => o_completed o = true /\ o_calls o = O /\ c = o_cb o /\ o_dropped o = false
   | None => o_calls o = if o_completed o && o_cb o && negb (o_dropped o) then 1%nat else O
   end)
  /\ (o_dropped o = true -> o_completed o = true /\ o_cb o = true /\ o_outcome o = Some KShutdown)
  /\ (intab = true -> o_completed o = false \/ mid_of t r <> None)
  /\ (o_completed o = false -> intab = true)
  /\ (o_completed o = true <-> o_outcome o <> None).

Definition ObjInv (s : st) : Prop :=
  forall r o, get (objs s) r = Some o -> objinv (turn s) r (mem r (table s)) o.

Definition PhaseInv (s : st) : Prop :=
  ph s = PCancelled -> forall r, In r (table s) -> is_completed (objs s) r = true.

(* a change that leaves the fields of the invariant alone *)
Lemma objinv_ext : forall t r b o o',
  o_completed o' = o_completed o -> o_outcome o' = o_outcome o -> o_cb o' = o_cb o ->
  o_calls o' = o_calls o -> o_dropped o' = o_dropped o -> objinv t r b o -> objinv t r b o'.
Proof. unfold objinv. intros t r b o o' -> -> -> -> ->. auto. Qed.

Lemma objinv_set_timer : forall t r b o x, objinv t r b o -> objinv t r b (set_timer x o).
Proof. intros. eapply objinv_ext; eauto. Qed.
Lemma objinv_stop_timer : forall t r b o, objinv t r b o -> objinv t r b (stop_timer o).
Proof. intros. unfold stop_timer. destruct (o_timer o); auto using objinv_set_timer. Qed.
Lemma objinv_set_cancelreq : forall t r b o, objinv t r b o -> objinv t r b (set_cancelreq o).
Proof. intros. eapply objinv_ext; eauto. Qed.

Lemma mid_of_idle : forall r, mid_of TIdle r = None. Proof. reflexivity. Qed.

Ltac bools := repeat match goal with
  | b : bool |- _ => destruct b
  end.

Lemma objinv_then : forall r b o, o_cb o = false -> objinv TIdle r b o ->
  objinv TIdle r b (if o_completed o then inc_calls (set_cb o) else set_cb o).
Proof.
  unfold objinv. intros r b o Hcb H. simpl in *.
  destruct o as [ost ocomp oout ocb ocalls ocr otm odr]; simpl in *. subst ocb.
  destruct ocomp, odr; simpl in *; intuition (try congruence; try lia).
Qed.

Lemma objinv_complete : forall r b o k k0, o_completed o = false -> b = true -> objinv TIdle r b o ->
  objinv (TMid r (o_cb o) k0) r b (set_completed k o).
Proof.
  unfold objinv. intros r b o k k0 Hc Hb H. simpl in *. rewrite Nat.eqb_refl.
  destruct o as [ost ocomp oout ocb ocalls ocr otm odr]; simpl in *. subst ocomp.
  destruct ocb, odr; simpl in *; intuition (try congruence; try lia).
Qed.

Lemma objinv_other_turn : forall t t' r b o, mid_of t r = None -> mid_of t' r = None -> objinv t r b o -> objinv t' r b o.
Proof. unfold objinv. intros t t' r b o -> ->. auto. Qed.

Lemma objinv_finish : forall r c k o, objinv (TMid r c k) r true o \/ objinv (TMid r c k) r false o ->
  objinv TIdle r false (if c then inc_calls o else o).
Proof.
  unfold objinv. intros r c k o H. simpl in *. rewrite Nat.eqb_refl in H.
  destruct o as [ost ocomp oout ocb ocalls ocr otm odr]; simpl in *.
  destruct H as [H|H]; destruct c, ocomp, ocb, odr; simpl in *; intuition (try congruence; try lia).
Qed.

Lemma objinv_new : forall r st_ ar, objinv TIdle r true (new_obj st_ ar).
Proof. unfold objinv, new_obj. intros. simpl. intuition (try congruence). Qed.

Lemma objinv_cancel_won : forall t r o, o_completed o = false -> objinv t r true o -> objinv t r false (shutdown_complete o).
Proof.
  unfold objinv. intros t r o Hc H.
  destruct o as [ost ocomp oout ocb ocalls ocr otm odr]; simpl in *. subst ocomp.
  destruct (mid_of t r); destruct ocb, odr; simpl in *; intuition (try congruence; try lia).
Qed.

Lemma objinv_reset : forall t r b o, o_completed o = true -> objinv t r b o -> objinv t r false o.
Proof. unfold objinv. intros t r b o Hc H. intuition (try congruence). Qed.

Lemma mem_app_single : forall r t x, mem r (t ++ [x]) = mem r t || Nat.eqb x r.
Proof. induction t; simpl; intros; [rewrite orb_false_r; auto|]. rewrite IHt, orb_assoc. auto. Qed.

Lemma mem_remove1_other : forall r r0 t, r0 <> r -> mem r0 (remove1 r t) = mem r0 t.
Proof.
  intros. destruct (mem r0 t) eqn:E.
  - apply mem_In. apply remove1_In. split; auto. apply mem_In; auto.
  - apply mem_false. intros Hi. apply remove1_In in Hi. apply mem_false in E. tauto.
Qed.

Lemma mem_remove1_same : forall r t, mem r (remove1 r t) = false.
Proof. intros. apply mem_false. intros Hi. apply remove1_In in Hi. tauto. Qed.

Lemma mem_filter : forall (f : nat -> bool) r t, mem r (filter f t) = mem r t && f r.
Proof.
  intros. destruct (mem r (filter f t)) eqn:E.
  - apply mem_In in E. apply filter_In in E. destruct E as [E1 E2]. apply mem_In in E1. rewrite E1, E2. auto.
  - apply mem_false in E. destruct (mem r t) eqn:E1; auto. destruct (f r) eqn:E2; auto.
    exfalso. apply E. apply filter_In. split; auto. apply mem_In; auto.
Qed.

(* objs / table / turn of a deregistration *)
Lemma deregister_shape : forall s r,
  (mem r (table s) = false /\ deregister s r = s) \/
  (mem r (table s) = true /\ objs (deregister s r) = upd (objs s) r stop_timer /\
   table (deregister s r) = remove1 r (table s) /\ turn (deregister s r) = turn s /\ ph (deregister s r) = ph s /\
   inflight (deregister s r) = inflight s - 1 /\
   blocking (deregister s r) = (if is_stash (objs s) r then blocking s - 1 else blocking s) /\
   tainted (deregister s r) = tainted s /\ maxif (deregister s r) = maxif s).
Proof.
  intros. unfold deregister. destruct (mem r (table s)); simpl; [right|left; auto].
  destruct (is_stash (objs s) r); [destruct (blocking s - 1 =? 0)|]; simpl; intuition.
Qed.

Lemma objinv_step : forall s o, WF s -> ObjInv s -> PhaseInv s -> ObjInv (step s o).
Proof.
  intros s o [Hn Hb] HI HP. unfold ObjInv in *.
  assert (SAME : forall t, turn s = t -> forall r o, get (objs s) r = Some o -> objinv t r (mem r (table s)) o)
    by (intros t <-; exact HI).
  destruct o; simpl.
  - (* OArrive *) destruct (ph s); auto.
  - (* OReply *) destruct (ph s); auto.
  - (* OTimerFire *)
    destruct (get (objs s) r) eqn:G; auto.
    destruct (o_timer r0); auto; simpl; intros r1 o1; rewrite get_upd;
      destruct (Nat.eqb_spec r1 r); auto; subst; rewrite G; simpl; intros E; inversion E; subst;
      apply objinv_set_timer; auto.
  - (* OCancel *)
    destruct (get (objs s) r) eqn:G; auto. destruct (o_completed r0 || o_cancelreq r0); auto.
    simpl; intros r1 o1; rewrite get_upd; destruct (Nat.eqb_spec r1 r); auto; subst; rewrite G; simpl;
      intros E; inversion E; subst. apply objinv_set_cancelreq; auto.
  - (* OStop *) destruct (ph s); auto.
  - (* OCancelInFlight *)
    simpl. intros r o. unfold cancel_objs, cancel_keep. rewrite get_mapi, mem_filter.
    destruct (get (objs s) r) as [o0|] eqn:G; simpl; [|discriminate]. intros E; inversion E; subst; clear E.
    specialize (HI _ _ G). unfold is_completed. rewrite G.
    destruct (mem r (table s)) eqn:M; simpl; auto.
    unfold cancel_one. destruct (o_completed o0) eqn:C; auto.
    apply objinv_cancel_won; auto.
  - (* OReset *)
    destruct (ph s) eqn:P; auto. simpl. intros r o G. specialize (HI _ _ G).
    apply objinv_reset with (b := mem r (table s)); auto.
    destruct (o_completed o) eqn:C; auto. exfalso.
    destruct HI as (_ & _ & _ & H4 & _). specialize (H4 C). apply mem_In in H4.
    specialize (HP P _ H4). unfold is_completed in HP. rewrite G in HP. congruence.
  - (* ORestart *) destruct (ph s); auto.
  - (* ODispatch *)
    destruct (turn s) eqn:T; [|apply SAME; auto]. destruct (mbox s) as [|m rest]; [apply SAME; auto|]. destruct m.
    + destruct (0 <? blocking s); simpl; apply SAME; auto.
    + destruct (mem r (table s)) eqn:M; [|simpl; rewrite T; apply SAME; auto].
      destruct (get (objs s) r) as [o0|] eqn:G; [|simpl; rewrite T; apply SAME; auto].
      destruct (o_completed o0) eqn:C; [simpl; rewrite T; apply SAME; auto|].
      simpl. intros r1 o1. rewrite get_upd. destruct (Nat.eqb_spec r1 r).
      * subst. rewrite G. simpl. intros E; inversion E; subst. rewrite M.
        specialize (HI _ _ G). try rewrite T in HI; try rewrite M in HI.
        apply (objinv_complete r true o0 k k); auto.
      * intros G1. specialize (HI _ _ G1). try rewrite T in HI.
        eapply objinv_other_turn; [| |exact HI]; simpl; auto.
        destruct (Nat.eqb_spec r r1); auto. congruence.
  - (* OFinish *)
    destruct (turn s) as [|r c k] eqn:T; [apply SAME; auto|].
    assert (D := deregister_shape (with_turn s TIdle) r). simpl in D.
    set (s1 := deregister (with_turn s TIdle) r) in *.
    assert (K : forall r1 o1, get (objs s1) r1 = Some o1 ->
              if Nat.eqb r1 r then (objinv (TMid r c k) r true o1 \/ objinv (TMid r c k) r false o1) /\ mem r1 (table s1) = false /\ turn s1 = TIdle
              else objinv TIdle r1 (mem r1 (table s1)) o1 /\ turn s1 = TIdle).
    { intros r1 o1 G1. destruct D as [[M E]|(M & Eo & Et & Etu & _)].
      - rewrite E in *. simpl in *. specialize (HI _ _ G1). try rewrite T in HI.
        destruct (Nat.eqb_spec r1 r).
        + subst. rewrite M. rewrite M in HI. auto.
        + split; auto. eapply objinv_other_turn; [| |exact HI]; simpl; auto.
          destruct (Nat.eqb_spec r r1); auto. congruence.
      - rewrite Eo in G1. rewrite get_upd in G1. rewrite Et, Etu.
        destruct (Nat.eqb_spec r1 r).
        + subst. destruct (get (objs s) r) as [o0|] eqn:G; simpl in G1; [|discriminate]. inversion G1; subst.
          specialize (HI _ _ G). try rewrite T in HI; try rewrite M in HI. split; [left; apply objinv_stop_timer; auto|].
          split; auto. apply mem_remove1_same.
        + specialize (HI _ _ G1). try rewrite T in HI. rewrite mem_remove1_other; auto. split; auto.
          eapply objinv_other_turn; [| |exact HI]; simpl; auto.
          destruct (Nat.eqb_spec r r1); auto. congruence. }
    destruct c.
    + simpl. intros r1 o1. rewrite get_upd. destruct (Nat.eqb_spec r1 r).
      * subst. destruct (get (objs s1) r) as [o0|] eqn:G; simpl; [|discriminate]. intros E; inversion E; subst.
        specialize (K _ _ G). rewrite Nat.eqb_refl in K. destruct K as (K1 & K2 & K3). rewrite K2, K3.
        apply (objinv_finish r true k o0). auto.
      * intros G. specialize (K _ _ G). destruct (Nat.eqb_spec r1 r); [congruence|]. destruct K as [K1 K2]. rewrite K2. auto.
    + intros r1 o1 G. specialize (K _ _ G). destruct (Nat.eqb_spec r1 r).
      * subst. destruct K as (K1 & K2 & K3). rewrite K2, K3. apply (objinv_finish r false k o1). auto.
      * destruct K as [K1 K2]. rewrite K2. auto.
  - (* OCtl *)
    destruct (turn s) eqn:T; [|apply SAME; auto]. simpl. apply SAME; auto.
  - (* ORequest *)
    destruct (turn s) eqn:T; [|apply SAME; auto]. destruct (ph s); try (apply SAME; auto). unfold register.
    destruct ((0 <? maxif s) && (maxif s <=? inflight s)); [apply SAME; auto|]. simpl.
    intros r o G. rewrite T. rewrite mem_app_single. apply get_app_inv in G. destruct G as [[Hl G]|[-> ->]].
    + specialize (HI _ _ G). try rewrite T in HI. destruct (Nat.eqb_spec (length (objs s)) r); [lia|]. rewrite orb_false_r. auto.
    + rewrite Nat.eqb_refl, orb_true_r. apply objinv_new.
  - (* OThen *)
    destruct (turn s) eqn:T; [|apply SAME; auto]. destruct (get (objs s) r) as [o0|] eqn:G; [|apply SAME; auto].
    destruct (o_cb o0) eqn:Cb; [apply SAME; auto|].
    assert (K : forall r1 o1, get (upd (objs s) r (fun x => if o_completed x then inc_calls (set_cb x) else set_cb x)) r1 = Some o1 ->
                objinv TIdle r1 (mem r1 (table s)) o1).
    { intros r1 o1. rewrite get_upd. destruct (Nat.eqb_spec r1 r).
      - subst. rewrite G. simpl. intros E; inversion E; subst. specialize (HI _ _ G). try rewrite T in HI.
        apply objinv_then; auto.
      - intros G1. specialize (HI _ _ G1). try rewrite T in HI. auto. }
    destruct (o_completed o0) eqn:C; simpl; try rewrite T; intros r1 o1 G1; apply K; rewrite get_upd in G1; rewrite get_upd;
      (destruct (Nat.eqb_spec r1 r); [subst; rewrite G in *; simpl in *; rewrite C; exact G1 | exact G1]).
  - (* ORetune *) exact HI.
Qed.

(* ------------------------------------------------------------------ completion is monotone, first result wins *)
Lemma step_completed_mono : forall s o r ob, get (objs s) r = Some ob -> o_completed ob = true ->
  exists ob', get (objs (step s o)) r = Some ob' /\ o_completed ob' = true /\ o_outcome ob' = o_outcome ob.
Proof.
  intros s o r ob G C.
  assert (KEEP : exists ob', get (objs s) r = Some ob' /\ o_completed ob' = true /\ o_outcome ob' = o_outcome ob) by eauto.
  assert (UPD : forall r0 f, (forall x, o_completed x = true -> o_completed (f x) = true /\ o_outcome (f x) = o_outcome x) ->
            exists ob', get (upd (objs s) r0 f) r = Some ob' /\ o_completed ob' = true /\ o_outcome ob' = o_outcome ob).
  { intros r0 f Hf. rewrite get_upd. destruct (Nat.eqb r r0); eauto. rewrite G. simpl. destruct (Hf _ C). eauto. }
  destruct o; simpl; auto.
  - destruct (ph s); auto.
  - destruct (ph s); auto.
  - destruct (get (objs s) r0); auto. destruct (o_timer r1); auto; simpl; apply UPD; auto.
  - destruct (get (objs s) r0); auto. destruct (o_completed r1 || o_cancelreq r1); auto. simpl. apply UPD; auto.
  - destruct (ph s); auto.
  - unfold cancel_objs. rewrite get_mapi, G. simpl. destruct (mem r (table s)); eauto.
    unfold cancel_one. rewrite C. eauto.
  - destruct (ph s); auto.
  - destruct (ph s); auto.
  - destruct (turn s); auto. destruct (mbox s) as [|m rest]; auto. destruct m.
    + destruct (0 <? blocking s); auto.
    + destruct (mem r0 (table s)); auto. destruct (get (objs s) r0) as [o0|] eqn:G0; auto.
      destruct (o_completed o0) eqn:C0; auto. simpl. rewrite get_upd. destruct (Nat.eqb_spec r r0); eauto.
      subst. congruence.
  - destruct (turn s) as [|r0 c k]; auto.
    assert (D : exists ob', get (objs (deregister (with_turn s TIdle) r0)) r = Some ob' /\ o_completed ob' = true /\ o_outcome ob' = o_outcome ob).
    { destruct (deregister_shape (with_turn s TIdle) r0) as [[_ E]|(_ & E & _)]; rewrite E; simpl; auto.
      apply UPD. intros x Hx. unfold stop_timer. destruct (o_timer x); auto. }
    destruct c; auto. simpl. destruct D as (ob' & G' & C' & O'). rewrite get_upd. destruct (Nat.eqb r r0); eauto.
    rewrite G'. simpl. eauto.
  - destruct (turn s); auto.
  - destruct (turn s); auto. destruct (ph s); auto. unfold register.
    destruct ((0 <? maxif s) && (maxif s <=? inflight s)); auto. simpl. rewrite get_app_old; eauto using get_lt.
  - destruct (turn s); auto. destruct (get (objs s) r0) as [o0|]; auto. destruct (o_cb o0); auto.
    destruct (o_completed o0); simpl; apply UPD; auto.
Qed.

Lemma step_table_sub : forall s o r, In r (table (step s o)) -> In r (table s) \/ (ph s = PRun /\ ph (step s o) = PRun).
Proof.
  intros s o r. destruct o; simpl; auto.
  - destruct (ph s); auto.
  - destruct (ph s); auto.
  - destruct (get (objs s) r0); auto. destruct (o_timer r1); auto.
  - destruct (get (objs s) r0); auto. destruct (o_completed r1 || o_cancelreq r1); auto.
  - destruct (ph s); auto.
  - unfold cancel_keep. intros H. apply filter_In in H. tauto.
  - destruct (ph s); simpl; intuition.
  - destruct (ph s); auto.
  - destruct (turn s); auto. destruct (mbox s) as [|m rest]; auto. destruct m.
    + destruct (0 <? blocking s); auto.
    + destruct (mem r0 (table s)); auto. destruct (get (objs s) r0); auto. destruct (o_completed r1); auto.
  - destruct (turn s) as [|r0 c k]; auto.
    assert (D : In r (table (deregister (with_turn s TIdle) r0)) -> In r (table s)).
    { destruct (deregister_shape (with_turn s TIdle) r0) as [[_ E]|(_ & _ & E & _)]; rewrite E; simpl; auto.
      intros H. apply remove1_In in H. tauto. }
    destruct c; simpl; auto.
  - destruct (turn s); auto.
  - destruct (turn s); auto. destruct (ph s) eqn:P; auto. unfold register.
    destruct ((0 <? maxif s) && (maxif s <=? inflight s)); simpl; auto.
  - destruct (turn s); auto. destruct (get (objs s) r0); auto. destruct (o_cb r1); auto. destruct (o_completed r1); auto.
Qed.

Lemma phase_step : forall s o, PhaseInv s -> PhaseInv (step s o).
Proof.
  intros s o HP P r Hi.
  destruct (ph s) eqn:P0.
  - (* PRun: no op reaches PCancelled in one step *)
    exfalso. destruct o; simpl in P; rewrite ?P0 in P; simpl in P; try congruence.
    + destruct (get (objs s) r0); [destruct (o_timer r1)|]; simpl in P; congruence.
    + destruct (get (objs s) r0); [destruct (o_completed r1 || o_cancelreq r1)|]; simpl in P; congruence.
    + destruct (turn s); [destruct (mbox s) as [|m rest]; [|destruct m; [destruct (0 <? blocking s)|
        destruct (mem r0 (table s)); [destruct (get (objs s) r0); [destruct (o_completed r1)|]|]]]|]; simpl in P; congruence.
    + destruct (turn s) as [|r0 c k]; [congruence|].
      destruct (deregister_shape (with_turn s TIdle) r0) as [[_ E]|(_ & _ & _ & _ & E & _)]; destruct c; simpl in P; rewrite E in P; simpl in P; congruence.
    + destruct (turn s); simpl in P; congruence.
    + destruct (turn s); [unfold register in P; destruct ((0 <? maxif s) && (maxif s <=? inflight s))|]; simpl in P; congruence.
    + destruct (turn s); [destruct (get (objs s) r0); [destruct (o_cb r1); [|destruct (o_completed r1)]|]|]; simpl in P; congruence.
  - (* PStopping: only OCancelInFlight moves to PCancelled *)
    destruct o; simpl in P, Hi |- *; rewrite ?P0 in *; simpl in *; try congruence.
    + destruct (get (objs s) r0); [destruct (o_timer r1)|]; simpl in P; congruence.
    + destruct (get (objs s) r0); [destruct (o_completed r1 || o_cancelreq r1)|]; simpl in P; congruence.
    + unfold cancel_keep in Hi. apply filter_In in Hi. destruct Hi as [_ Hc].
      unfold is_completed, cancel_objs in *. rewrite get_mapi. destruct (get (objs s) r) as [o0|]; simpl in *; [|congruence].
      unfold cancel_one. destruct (mem r (table s)); auto. rewrite Hc. auto.
    + destruct (turn s); [destruct (mbox s) as [|m rest]; [|destruct m; [destruct (0 <? blocking s)|
        destruct (mem r0 (table s)); [destruct (get (objs s) r0); [destruct (o_completed r1)|]|]]]|]; simpl in P; congruence.
    + destruct (turn s) as [|r0 c k]; [congruence|].
      destruct (deregister_shape (with_turn s TIdle) r0) as [[_ E]|(_ & _ & _ & _ & E & _)]; destruct c; simpl in P; rewrite E in P; simpl in P; congruence.
    + destruct (turn s); simpl in P; congruence.
    + destruct (turn s); simpl in P; congruence.
    + destruct (turn s); [destruct (get (objs s) r0); [destruct (o_cb r1); [|destruct (o_completed r1)]|]|]; simpl in P; congruence.
  - (* PCancelled *)
    destruct (step_table_sub s o r Hi) as [Hi'|[Hc _]]; [|congruence].
    specialize (HP P0 r Hi'). unfold is_completed in *. destruct (get (objs s) r) as [ob|] eqn:G; [|congruence].
    destruct (step_completed_mono s o r ob G HP) as (ob' & G' & C' & _). rewrite G'. auto.
  - (* PStopped: no op reaches PCancelled *)
    exfalso. destruct o; simpl in P; rewrite ?P0 in P; simpl in P; try congruence.
    + destruct (get (objs s) r0); [destruct (o_timer r1)|]; simpl in P; congruence.
    + destruct (get (objs s) r0); [destruct (o_completed r1 || o_cancelreq r1)|]; simpl in P; congruence.
    + destruct (turn s); [destruct (mbox s) as [|m rest]; [|destruct m; [destruct (0 <? blocking s)|
        destruct (mem r0 (table s)); [destruct (get (objs s) r0); [destruct (o_completed r1)|]|]]]|]; simpl in P; congruence.
    + destruct (turn s) as [|r0 c k]; [congruence|].
      destruct (deregister_shape (with_turn s TIdle) r0) as [[_ E]|(_ & _ & _ & _ & E & _)]; destruct c; simpl in P; rewrite E in P; simpl in P; congruence.
    + destruct (turn s); simpl in P; congruence.
    + destruct (turn s); simpl in P; congruence.
    + destruct (turn s); [destruct (get (objs s) r0); [destruct (o_cb r1); [|destruct (o_completed r1)]|]|]; simpl in P; congruence.
Qed.

(* ------------------------------------------------------------------ counters *)
Definition CntInv (s : st) : Prop :=
  tainted s = false ->
  inflight s = Z.of_nat (length (table s)) /\ blocking s = Z.of_nat (nstash (objs s) (table s)).

Lemma filter_none : forall (f : nat -> bool) l, (forall x, In x l -> f x = false) -> filter f l = [].
Proof. induction l as [|y t IH]; simpl; intros H; auto. rewrite H; auto. Qed.

Lemma cnt_deregister : forall s r, WF s -> CntInv s -> CntInv (deregister s r).
Proof.
  intros s r [Hn Hb] HC. destruct (deregister_shape s r) as [[_ E]|(M & Eo & Et & _ & _ & Ei & Ebl & Eta & _)]; [rewrite E; auto|].
  intros Ht. rewrite Eta in Ht. destruct (HC Ht) as [H1 H2]. apply mem_In in M.
  rewrite Eo, Et, Ei, Ebl. rewrite nstash_upd by auto with c16.
  pose proof (remove1_length r (table s) Hn M). pose proof (nstash_remove1 (objs s) r (table s) Hn M).
  split; [lia|]. destruct (is_stash (objs s) r); lia.
Qed.

Lemma cnt_step : forall s o, WF s -> ObjInv s -> CntInv s -> CntInv (step s o).
Proof.
  intros s o HW HI HC. pose proof HW as [Hn Hb].
  assert (UPD : forall r f s', (forall x, o_stash (f x) = o_stash x) -> tainted s' = tainted s -> table s' = table s ->
            inflight s' = inflight s -> blocking s' = blocking s -> objs s' = upd (objs s) r f -> CntInv s').
  { intros r f s' Hf E1 E2 E3 E4 E5 Ht. rewrite E1 in Ht. destruct (HC Ht). rewrite E2, E3, E4, E5, nstash_upd; auto. }
  destruct o; simpl; auto.
  - destruct (ph s); auto.
  - destruct (ph s); auto.
  - destruct (get (objs s) r); auto. destruct (o_timer r0); auto; eapply UPD; simpl; eauto; auto with c16.
  - destruct (get (objs s) r); auto. destruct (o_completed r0 || o_cancelreq r0); auto. eapply UPD; simpl; eauto; auto with c16.
  - destruct (ph s); auto.
  - (* OCancelInFlight *)
    intros Ht. simpl in *. apply orb_false_iff in Ht. destruct Ht as [Ht1 Ht2].
    destruct z; simpl in Ht2; [|
      destruct (HC Ht1) as [H1 H2]; unfold cancel_keep, cancel_objs;
      rewrite nstash_mapi by (intros i o; destruct (mem i (table s)); auto with c16);
      pose proof (filter_length_split (is_completed (objs s)) (table s));
      pose proof (nstash_filter_split (objs s) (is_completed (objs s)) (table s)); split; lia].
    assert (K : cancel_keep (objs s) (table s) = []).
    { unfold cancel_keep. apply filter_none. intros x Hx. unfold is_completed.
      destruct (get (objs s) x) as [ox|] eqn:G; auto. destruct (o_completed ox) eqn:C; auto. exfalso.
      destruct (HI _ _ G) as (H1 & _ & H3 & _). apply mem_In in Hx. specialize (H3 Hx). destruct H3 as [H3|H3]; [congruence|].
      unfold turn_in_table in Ht2. unfold mid_of in H3. destruct (turn s) as [|r' c' k']; [congruence|].
      destruct (Nat.eqb_spec r' x); [subst; congruence|congruence]. }
    rewrite K. simpl. auto.
  - destruct (ph s); auto. intros _. simpl. auto.
  - destruct (ph s); auto.
  - destruct (turn s); auto. destruct (mbox s) as [|m rest]; auto. destruct m.
    + destruct (0 <? blocking s); auto.
    + destruct (mem r (table s)); auto. destruct (get (objs s) r); auto. destruct (o_completed r0); auto.
      eapply UPD; simpl; eauto; auto with c16.
  - destruct (turn s) as [|r c k]; auto.
    assert (D : CntInv (deregister (with_turn s TIdle) r)) by (apply cnt_deregister; auto).
    destruct c; auto. intros Ht. simpl in *. destruct (D Ht). rewrite nstash_upd; auto with c16.
  - destruct (turn s); auto.
  - destruct (turn s); auto. destruct (ph s); auto. unfold register.
    destruct ((0 <? maxif s) && (maxif s <=? inflight s)); auto. intros Ht. simpl in *. destruct (HC Ht) as [H1 H2].
    rewrite app_length, nstash_app, nstash_app_objs by auto. simpl.
    unfold is_stash. rewrite get_app_new. simpl. split; [lia|]. destruct stash; lia.
  - destruct (turn s); auto. destruct (get (objs s) r); auto. destruct (o_cb r0); auto.
    destruct (o_completed r0); eapply UPD; simpl; eauto; auto with c16.
Qed.

(* the admission check: the counter itself never exceeds the limit (whatever the taint) *)
Definition LimInv (s : st) : Prop := 0 < maxif s -> inflight s <= maxif s.

Lemma maxif_step : forall s o, maxif (step s o) = maxif s.
Proof.
  intros s o. destruct o; simpl; auto.
  - destruct (ph s); auto.
  - destruct (ph s); auto.
  - destruct (get (objs s) r); auto. destruct (o_timer r0); auto.
  - destruct (get (objs s) r); auto. destruct (o_completed r0 || o_cancelreq r0); auto.
  - destruct (ph s); auto.
  - destruct (ph s); auto.
  - destruct (ph s); auto.
  - destruct (turn s); auto. destruct (mbox s) as [|m rest]; auto. destruct m.
    + destruct (0 <? blocking s); auto.
    + destruct (mem r (table s)); auto. destruct (get (objs s) r); auto. destruct (o_completed r0); auto.
  - destruct (turn s) as [|r c k]; auto.
    destruct (deregister_shape (with_turn s TIdle) r) as [[_ E]|(_ & _ & _ & _ & _ & _ & _ & _ & E)]; destruct c; simpl; rewrite E; auto.
  - destruct (turn s); auto.
  - destruct (turn s); auto. destruct (ph s); auto. unfold register.
    destruct ((0 <? maxif s) && (maxif s <=? inflight s)); auto.
  - destruct (turn s); auto. destruct (get (objs s) r); auto. destruct (o_cb r0); auto. destruct (o_completed r0); auto.
Qed.

Lemma lim_step : forall s o, LimInv s -> LimInv (step s o).
Proof.
  intros s o HL. unfold LimInv. rewrite maxif_step. intros Hm. specialize (HL Hm).
  destruct o; simpl; auto; try (destruct z; lia).
  - destruct (ph s); auto.
  - destruct (ph s); auto.
  - destruct (get (objs s) r); auto. destruct (o_timer r0); auto.
  - destruct (get (objs s) r); auto. destruct (o_completed r0 || o_cancelreq r0); auto.
  - destruct (ph s); auto.
  - destruct (ph s); simpl; auto; lia.
  - destruct (ph s); auto.
  - destruct (turn s); auto. destruct (mbox s) as [|m rest]; auto. destruct m.
    + destruct (0 <? blocking s); auto.
    + destruct (mem r (table s)); auto. destruct (get (objs s) r); auto. destruct (o_completed r0); auto.
  - destruct (turn s) as [|r c k]; auto.
    destruct (deregister_shape (with_turn s TIdle) r) as [[_ E]|(_ & _ & _ & _ & _ & E & _)]; destruct c; simpl; rewrite E; simpl; lia.
  - destruct (turn s); auto.
  - destruct (turn s); auto. destruct (ph s); auto. unfold register.
    destruct ((0 <? maxif s) && (maxif s <=? inflight s)) eqn:E; auto. simpl.
    apply andb_false_iff in E. destruct E as [E|E]; [apply Z.ltb_ge in E|apply Z.leb_gt in E]; lia.
  - destruct (turn s); auto. destruct (get (objs s) r); auto. destruct (o_cb r0); auto. destruct (o_completed r0); auto.
Qed.

(* ------------------------------------------------------------------ ordinary messages: none lost, none duplicated, order *)
Definition pending (s : st) : list nat := users (stashq s ++ mbox s).

Definition MsgInv (s : st) : Prop :=
  Permutation (handled s ++ pending s) (seq 0 (nextu s)) /\
  (overtaken s = false -> handled s ++ pending s = seq 0 (nextu s)).

Lemma length_zero_nil : forall A (l : list A), Nat.eqb (length l) 0 = true -> l = [].
Proof. intros A l H. apply Nat.eqb_eq in H. destruct l; simpl in *; congruence. Qed.

Lemma msg_deregister : forall s r, MsgInv s -> MsgInv (deregister s r).
Proof.
  intros s r [HP HE]. unfold deregister. destruct (mem r (table s)); simpl; [|split; auto].
  destruct (is_stash (objs s) r); [destruct (blocking s - 1 =? 0)|]; unfold MsgInv, pending in *; simpl; auto.
  rewrite !users_app in *. split.
  - eapply Permutation_trans; [|exact HP]. apply Permutation_app_head. apply Permutation_app_comm.
  - intros Ho. apply orb_false_iff in Ho. destruct Ho as [Ho1 Ho2]. rewrite <- (HE Ho1). f_equal.
    apply andb_false_iff in Ho2. destruct Ho2 as [Ho2|Ho2]; apply negb_false_iff in Ho2; apply length_zero_nil in Ho2; rewrite Ho2;
      rewrite ?app_nil_r; reflexivity.
Qed.

Lemma msg_step : forall s o, MsgInv s -> MsgInv (step s o).
Proof.
  intros s o HM. pose proof HM as [HP HE].
  assert (RESP : forall s' x k, stashq s' = stashq s -> mbox s' = mbox s ++ [MResp x k] -> handled s' = handled s ->
            nextu s' = nextu s -> overtaken s' = overtaken s -> MsgInv s').
  { intros s' x k E1 E2 E3 E4 E5. unfold MsgInv, pending. rewrite E1, E2, E3, E4, E5.
    rewrite app_assoc, users_app. simpl. rewrite app_nil_r. exact HM. }
  destruct o; simpl; auto.
  - destruct (ph s); auto. unfold MsgInv, pending in *. cbn [handled stashq mbox nextu overtaken].
    rewrite app_assoc, users_app. cbn [users]. rewrite seq_S_end, app_assoc. split.
    + apply Permutation_app_tail. exact HP.
    + intros Ho. rewrite (HE Ho). reflexivity.
  - destruct (ph s); auto. eapply RESP; simpl; eauto.
  - destruct (get (objs s) r); auto. destruct (o_timer r0); auto; eapply RESP; simpl; eauto.
  - destruct (get (objs s) r); auto. destruct (o_completed r0 || o_cancelreq r0); auto. eapply RESP; simpl; eauto.
  - destruct (ph s); auto.
  - destruct (ph s); auto.
  - destruct (ph s); auto.
  - destruct (turn s); auto. destruct (mbox s) as [|m rest] eqn:Mb; auto. unfold MsgInv, pending in HM, HP, HE. rewrite Mb in HM, HP, HE.
    destruct m.
    + destruct (0 <? blocking s); unfold MsgInv, pending in *; simpl.
      * rewrite <- app_assoc. simpl. auto.
      * rewrite !users_app in *. simpl in *. split.
        -- eapply Permutation_trans; [|exact HP]. rewrite <- app_assoc. apply Permutation_app_head.
           simpl. apply Permutation_middle.
        -- intros Ho. apply orb_false_iff in Ho. destruct Ho as [Ho1 Ho2]. apply negb_false_iff in Ho2.
           apply length_zero_nil in Ho2. rewrite <- (HE Ho1). rewrite Ho2. simpl. rewrite <- app_assoc. reflexivity.
    + assert (K : forall s', stashq s' = stashq s -> mbox s' = rest -> handled s' = handled s -> nextu s' = nextu s ->
                overtaken s' = overtaken s -> MsgInv s').
      { intros s' E1 E2 E3 E4 E5. unfold MsgInv, pending in *. rewrite E1, E2, E3, E4, E5.
        rewrite !users_app in *. simpl in *. auto. }
      destruct (mem r (table s)); [|apply K; auto]. destruct (get (objs s) r); [|apply K; auto].
      destruct (o_completed r0); apply K; auto.
  - destruct (turn s) as [|r c k]; auto.
    assert (D : MsgInv (deregister (with_turn s TIdle) r)) by (apply msg_deregister; exact HM).
    destruct c; auto.
  - destruct (turn s); auto.
  - destruct (turn s); auto. destruct (ph s); auto. unfold register.
    destruct ((0 <? maxif s) && (maxif s <=? inflight s)); auto.
  - destruct (turn s); auto. destruct (get (objs s) r); auto. destruct (o_cb r0); auto. destruct (o_completed r0); auto.
Qed.

(* ------------------------------------------------------------------ everything together *)
Definition Inv (s : st) : Prop := WF s /\ ObjInv s /\ PhaseInv s /\ CntInv s /\ LimInv s /\ MsgInv s.

Lemma inv_init : forall mx, Inv (init mx).
Proof.
  intros mx. unfold Inv.
  split; [split; simpl; [constructor|tauto]|].
  split; [intros r o G; unfold get in G; simpl in G; destruct r; discriminate|].
  split; [intros P; simpl in P; discriminate|].
  split; [intros _; simpl; auto|].
  split; [unfold LimInv; simpl; lia|].
  split; simpl; auto.
Qed.

Lemma inv_step : forall s o, Inv s -> Inv (step s o).
Proof.
  intros s o (H1 & H2 & H3 & H4 & H5 & H6). unfold Inv.
  auto 10 using wf_step, objinv_step, phase_step, cnt_step, lim_step, msg_step.
Qed.

Lemma inv_reach : forall mx s, reach mx s -> Inv s.
Proof. intros mx. apply reach_ind_inv; [apply inv_init | intros; apply inv_step; auto]. Qed.

(* ------------------------------------------------------------------ continuation calls change only on the turn *)
Lemma step_calls : forall s o r ob, get (objs s) r = Some ob ->
  exists ob', get (objs (step s o)) r = Some ob' /\
    (o_calls ob' = o_calls ob \/ (is_turn_op o = true /\ o_calls ob' = S (o_calls ob))).
Proof.
  intros s o r ob G.
  assert (KEEP : exists ob', get (objs s) r = Some ob' /\ (o_calls ob' = o_calls ob \/ (is_turn_op o = true /\ o_calls ob' = S (o_calls ob)))) by eauto.
  assert (UPD : forall r0 f, (forall x, o_calls (f x) = o_calls x) ->
            exists ob', get (upd (objs s) r0 f) r = Some ob' /\ (o_calls ob' = o_calls ob \/ (is_turn_op o = true /\ o_calls ob' = S (o_calls ob)))).
  { intros r0 f Hf. rewrite get_upd. destruct (Nat.eqb r r0); eauto. rewrite G. simpl. eauto. }
  destruct o; simpl; auto.
  - destruct (ph s); auto.
  - destruct (ph s); auto.
  - destruct (get (objs s) r0); auto. destruct (o_timer r1); auto; simpl; apply UPD; auto.
  - destruct (get (objs s) r0); auto. destruct (o_completed r1 || o_cancelreq r1); auto. simpl. apply UPD; auto.
  - destruct (ph s); auto.
  - unfold cancel_objs. rewrite get_mapi, G. simpl. destruct (mem r (table s)); eauto.
    unfold cancel_one. destruct (o_completed ob); eauto.
  - destruct (ph s); auto.
  - destruct (ph s); auto.
  - destruct (turn s); auto. destruct (mbox s) as [|m rest]; auto. destruct m.
    + destruct (0 <? blocking s); auto.
    + destruct (mem r0 (table s)); auto. destruct (get (objs s) r0) as [o0|] eqn:G0; auto.
      destruct (o_completed o0) eqn:C0; auto. simpl. apply UPD; auto.
  - destruct (turn s) as [|r0 c k]; auto.
    assert (D : exists ob', get (objs (deregister (with_turn s TIdle) r0)) r = Some ob' /\ o_calls ob' = o_calls ob).
    { destruct (deregister_shape (with_turn s TIdle) r0) as [[_ E]|(_ & E & _)]; rewrite E; simpl; eauto.
      rewrite get_upd. destruct (Nat.eqb r r0); eauto. rewrite G. simpl. eexists; split; eauto.
      unfold stop_timer. destruct (o_timer ob); auto. }
    destruct D as (ob' & G' & C'). destruct c; simpl; eauto.
    rewrite get_upd. destruct (Nat.eqb r r0); eauto. rewrite G'. simpl. eexists; split; eauto; try (right; simpl; split; auto; congruence).
  - destruct (turn s); auto.
  - destruct (turn s); auto. destruct (ph s); auto. unfold register.
    destruct ((0 <? maxif s) && (maxif s <=? inflight s)); auto. simpl. rewrite get_app_old; eauto using get_lt.
  - destruct (turn s); auto. destruct (get (objs s) r0) as [o0|] eqn:G0; auto. destruct (o_cb o0); auto.
    destruct (o_completed o0); simpl; [|apply UPD; auto].
    rewrite get_upd. destruct (Nat.eqb r r0); eauto. rewrite G. simpl. eexists; split; eauto.
Qed.

Lemma nstash_le : forall l t, (nstash l t <= length t)%nat.
Proof. induction t; simpl; auto. destruct (is_stash l a); lia. Qed.

(* which steps let an ordinary message into the handler *)
Lemma handled_step : forall s o,
  handled (step s o) = handled s \/
  (o = ODispatch /\ exists n rest, turn s = TIdle /\ mbox s = MUser n :: rest /\ blocking s <= 0 /\
     handled (step s o) = handled s ++ [n] /\ stashq (step s o) = stashq s).
Proof.
  intros s o. destruct o; simpl; auto.
  - destruct (ph s); auto.
  - destruct (ph s); auto.
  - destruct (get (objs s) r); auto. destruct (o_timer r0); auto.
  - destruct (get (objs s) r); auto. destruct (o_completed r0 || o_cancelreq r0); auto.
  - destruct (ph s); auto.
  - destruct (ph s); auto.
  - destruct (ph s); auto.
  - destruct (turn s) eqn:T; auto. destruct (mbox s) as [|m rest]; auto. destruct m.
    + destruct (0 <? blocking s) eqn:B; auto. right. split; auto. exists n, rest. simpl. apply Z.ltb_ge in B. auto.
    + destruct (mem r (table s)); auto. destruct (get (objs s) r); auto. destruct (o_completed r0); auto.
  - destruct (turn s) as [|r c k]; auto. left.
    assert (D : handled (deregister (with_turn s TIdle) r) = handled s).
    { unfold deregister. simpl. destruct (mem r (table s)); simpl; auto.
      destruct (is_stash (objs s) r); [destruct (blocking s - 1 =? 0)|]; auto. }
    destruct c; auto.
  - destruct (turn s); auto.
  - destruct (turn s); auto. destruct (ph s); auto. unfold register.
    destruct ((0 <? maxif s) && (maxif s <=? inflight s)); auto.
  - destruct (turn s); auto. destruct (get (objs s) r); auto. destruct (o_cb r0); auto. destruct (o_completed r0); auto.
Qed.

(* ================================================================== headline theorems *)

Theorem complete_once : forall mx s, reach mx s ->
  (forall r ob, get (objs s) r = Some ob ->
      (o_calls ob <= 1)%nat /\
      (turn s = TIdle -> o_calls ob = if o_completed ob && o_cb ob && negb (o_dropped ob) then 1%nat else 0%nat) /\
      (o_dropped ob = true -> o_outcome ob = Some KShutdown) /\
      (o_completed ob = true <-> o_outcome ob <> None)) /\
  (forall o r ob, get (objs s) r = Some ob ->
      exists ob', get (objs (step s o)) r = Some ob' /\
        (o_completed ob = true -> o_completed ob' = true /\ o_outcome ob' = o_outcome ob) /\
        (o_calls ob' <> o_calls ob -> is_turn_op o = true /\ o_calls ob' = S (o_calls ob))) /\
  (turn s = TIdle -> table s = [] -> forall r ob, get (objs s) r = Some ob -> o_completed ob = true).
Proof.
  intros mx s R. destruct (inv_reach _ _ R) as (HW & HO & _).
  split; [|split].
  - intros r ob G. destruct (HO _ _ G) as (H1 & H2 & H3 & H4 & H5). split; [|split; [|split]]; auto.
    + destruct (mid_of (turn s) r); [destruct H1 as (_ & -> & _); lia|].
      rewrite H1. destruct (o_completed ob && o_cb ob && negb (o_dropped ob)); lia.
    + intros T. rewrite T in H1. simpl in H1. exact H1.
    + intros D. apply H2 in D. tauto.
  - intros o r ob G.
    destruct (step_calls s o r ob G) as (ob' & G' & C').
    exists ob'. split; auto. split.
    + intros C. destruct (step_completed_mono s o r ob G C) as (ob'' & G'' & K). rewrite G' in G''. inversion G''; subst. auto.
    + intros N. destruct C' as [C'|C']; [congruence|auto].
  - intros T E r ob G. destruct (HO _ _ G) as (_ & _ & _ & H4 & _). rewrite E in H4. simpl in H4.
    destruct (o_completed ob) eqn:C; auto.
Qed.

Theorem counters_exact_partial : forall mx s, reach mx s -> tainted s = false ->
  inflight s = Z.of_nat (length (table s)) /\
  blocking s = Z.of_nat (nstash (objs s) (table s)) /\
  0 <= blocking s <= inflight s /\
  (0 < mx -> inflight s <= mx) /\
  (table s = [] -> inflight s = 0 /\ blocking s = 0) /\
  NoDup (table s).
Proof.
  intros mx s R T. destruct (inv_reach _ _ R) as ((HN & _) & _ & _ & HC & HL & _).
  destruct (HC T) as [H1 H2]. pose proof (nstash_le (objs s) (table s)).
  assert (M : maxif s = mx).
  { clear - R. revert s R. apply reach_ind_inv; [reflexivity|]. intros s o IH. rewrite maxif_step. auto. }
  unfold LimInv in HL. rewrite M in HL.
  split; [exact H1|]. split; [exact H2|]. split; [lia|]. split; [exact HL|]. split; [|exact HN].
  intros E. rewrite E in *. simpl in *. lia.
Qed.

(* whatever happened before, a reset re-establishes exactness *)
Theorem counters_zero_after_reset : forall mx s, reach mx s -> ph s = PCancelled ->
  let s' := step s OReset in
  tainted s' = false /\ table s' = [] /\ inflight s' = 0 /\ blocking s' = 0.
Proof. intros mx s R P. simpl. rewrite P. simpl. auto. Qed.

Theorem stash_mode_isolation_partial : forall mx s, reach mx s -> tainted s = false ->
  (* an ordinary message enters the handler only by a dispatch step and only when no stash-mode request is in flight *)
  (forall o, handled (step s o) <> handled s ->
     o = ODispatch /\ nstash (objs s) (table s) = O /\
     exists n rest, mbox s = MUser n :: rest /\ handled (step s o) = handled s ++ [n]) /\
  (* while one is in flight the dispatched ordinary message is held, in arrival order, and nothing else changes hands *)
  (forall n rest, (0 < nstash (objs s) (table s))%nat -> turn s = TIdle -> mbox s = MUser n :: rest ->
     stashq (step s ODispatch) = stashq s ++ [MUser n] /\ mbox (step s ODispatch) = rest /\
     handled (step s ODispatch) = handled s) /\
  (* responses and control messages pass the gate whatever the counters say *)
  (forall r k rest, turn s = TIdle -> mbox s = MResp r k :: rest ->
     stashq (step s ODispatch) = stashq s /\ mbox (step s ODispatch) = rest) /\
  (turn s = TIdle -> ctls (step s OCtl) = S (ctls s)).
Proof.
  intros mx s R T. destruct (inv_reach _ _ R) as (_ & _ & _ & HC & _). destruct (HC T) as [H1 H2].
  split; [|split; [|split]].
  - intros o N. destruct (handled_step s o) as [E|(-> & n & rest & Tu & Mb & B & E & _)]; [congruence|].
    split; auto. split; [lia|]. eauto.
  - intros n rest Hn Tu Mb. simpl. rewrite Tu, Mb.
    assert (B : 0 <? blocking s = true) by (apply Z.ltb_lt; lia). rewrite B. simpl. auto.
  - intros r k rest Tu Mb. simpl. rewrite Tu, Mb.
    destruct (mem r (table s)); auto. destruct (get (objs s) r); auto. destruct (o_completed r0); auto.
  - intros Tu. simpl. rewrite Tu. reflexivity.
Qed.

Theorem stash_order_partial : forall mx s, reach mx s ->
  Permutation (handled s ++ pending s) (seq 0 (nextu s)) /\
  (overtaken s = false -> handled s ++ pending s = seq 0 (nextu s)).
Proof. intros mx s R. destruct (inv_reach _ _ R) as (_ & _ & _ & _ & _ & HM). exact HM. Qed.

(* a release keeps the held messages in the order in which they were held *)
Theorem release_keeps_order : forall s r,
  stashq (deregister s r) = stashq s /\ mbox (deregister s r) = mbox s \/
  stashq (deregister s r) = [] /\ mbox (deregister s r) = mbox s ++ stashq s.
Proof.
  intros. unfold deregister. destruct (mem r (table s)); simpl; auto.
  destruct (is_stash (objs s) r); [destruct (blocking s - 1 =? 0)|]; simpl; auto.
Qed.

End Policy.

(* ------------------------------------------------------------------ with the repair (no zeroing) nothing is ever tainted *)
Lemma never_tainted : forall mx s, reach false mx s -> tainted s = false.
Proof.
  intros mx. apply reach_ind_inv; [reflexivity|]. intros s o IH.
  destruct o; simpl; auto.
  - destruct (ph s); auto.
  - destruct (ph s); auto.
  - destruct (get (objs s) r); auto. destruct (o_timer r0); auto.
  - destruct (get (objs s) r); auto. destruct (o_completed r0 || o_cancelreq r0); auto.
  - destruct (ph s); auto.
  - rewrite IH. reflexivity.
  - destruct (ph s); auto.
  - destruct (ph s); auto.
  - destruct (turn s); auto. destruct (mbox s) as [|m rest]; auto. destruct m.
    + destruct (0 <? blocking s); auto.
    + destruct (mem r (table s)); auto. destruct (get (objs s) r); auto. destruct (o_completed r0); auto.
  - destruct (turn s) as [|r c k]; auto.
    destruct (deregister_shape (with_turn s TIdle) r) as [[_ E]|(_ & _ & _ & _ & _ & _ & _ & E & _)]; destruct c; simpl; rewrite E; auto.
  - destruct (turn s); auto.
  - destruct (turn s); auto. destruct (ph s); auto. unfold register.
    destruct ((0 <? maxif s) && (maxif s <=? inflight s)); auto.
  - destruct (turn s); auto. destruct (get (objs s) r); auto. destruct (o_cb r0); auto. destruct (o_completed r0); auto.
Qed.

Theorem counters_exact_repaired : forall mx s, reach false mx s ->
  inflight s = Z.of_nat (length (table s)) /\
  blocking s = Z.of_nat (nstash (objs s) (table s)) /\
  0 <= blocking s <= inflight s /\
  (0 < mx -> inflight s <= mx) /\
  (table s = [] -> inflight s = 0 /\ blocking s = 0) /\
  NoDup (table s).
Proof. intros mx s R. apply (counters_exact_partial false mx s R). eapply never_tainted; eauto. Qed.

Theorem stash_mode_isolation_repaired : forall mx s, reach false mx s ->
  forall o, handled (step false s o) <> handled s ->
     o = ODispatch /\ nstash (objs s) (table s) = O /\
     exists n rest, mbox s = MUser n :: rest /\ handled (step false s o) = handled s ++ [n].
Proof.
  intros mx s R. apply (stash_mode_isolation_partial false mx s R). eapply never_tainted; eauto.
Qed.

(* ------------------------------------------------------------------ refutations of the literal clauses (witness histories) *)
Local Notation run := (Model.run true).
Local Notation step := (Model.step true).

(* cancelInFlightRequests (restartSubtree calls it on a running actor; doStop calls it off turn) between
   requestState.complete and deregisterRequestState of an on-turn completion: the counters are zeroed
   and then decremented *)
Definition w_taint : list op :=
  [ORequest true false; OReply 0 KReply; ODispatch; OCancelInFlight; OFinish].

Theorem counters_exact_refuted :
  exists ops, let s := run 1 ops in
    inflight s = -1 /\ blocking s = -1 /\ table s = [] /\ turn s = TIdle /\ ph s = PRun.
Proof. exists w_taint. vm_compute. repeat split. Qed.

Theorem inflight_limit_refuted :
  exists ops, let s := run 1 ops in
    maxif s = 1 /\ length (table s) = 2%nat /\ (forall r, In r (table s) -> is_completed (objs s) r = false).
Proof.
  exists (w_taint ++ [ORequest true false; ORequest false false]). vm_compute.
  repeat split. intros r [<-|[<-|[]]]; reflexivity.
Qed.

Theorem stash_mode_isolation_refuted :
  exists ops, let s := run 1 ops in
    nstash (objs s) (table s) = 1%nat /\ (forall r, In r (table s) -> is_completed (objs s) r = false) /\
    handled (step s ODispatch) = handled s ++ [O].
Proof.
  exists (w_taint ++ [ORequest true false; OArrive]). vm_compute.
  repeat split. intros r [<-|[]]; reflexivity.
Qed.

(* two stash rounds: held messages 1 and 3 sit in the stash together in the order [3;1] and are handled in that order *)
Definition w_order_a : list op :=
  [OArrive; ODispatch; ORequest true false; OArrive; OReply 0 KReply; OArrive; OArrive;
   ODispatch; ODispatch; OFinish; ODispatch; ORequest true false; ODispatch; ODispatch].
Definition w_order_b : list op :=
  [OReply 1 KReply; ODispatch; OFinish; ODispatch; ORequest true false; ODispatch; OReply 2 KReply; ODispatch; OFinish; ODispatch].

Theorem stash_order_refuted :
  exists ops1 ops2,
    stashq (run 0 ops1) = [MUser 3; MUser 1] /\ tainted (run 0 (ops1 ++ ops2)) = false /\
    handled (run 0 (ops1 ++ ops2)) = [0; 2; 3; 1]%nat.
Proof. exists w_order_a, w_order_b. vm_compute. repeat split. Qed.

(* ------------------------------------------------------------------ the hypotheses are satisfiable by non-trivial states *)
Definition ex_ops : list op :=
  [OArrive; ODispatch; ORequest true true; ORequest false false; OThen 0; OThen 1; OArrive; OArrive; ODispatch;
   OCancel 1; OTimerFire 0; ODispatch; ODispatch; OFinish].

Example ex_reach_untainted :
  let s := run 2 ex_ops in
  reach true 2 s /\ tainted s = false /\ overtaken s = false /\ table s = [O] /\ inflight s = 1 /\ blocking s = 1 /\
  stashq s = [MUser 1; MUser 2] /\ handled s = [O] /\
  option_map o_calls (get (objs s) 1) = Some 1%nat /\ option_map o_outcome (get (objs s) 1) = Some (Some KCancel).
Proof. split; [exists ex_ops; reflexivity|]. vm_compute. repeat split. Qed.

Example ex_reset_reachable :
  let s := run 1 (w_taint ++ [OStop; OCancelInFlight]) in reach true 1 s /\ ph s = PCancelled /\ tainted s = true.
Proof. split; [eexists; reflexivity|]. vm_compute. auto. Qed.

(* the witness history of the refutations is harmless once the counters are no longer zeroed *)
Example ex_repaired_witness :
  let s := Model.run false 1 (w_taint ++ [ORequest true false; ORequest false false]) in
  reach false 1 s /\ inflight s = 1 /\ blocking s = 1 /\ table s = [1%nat] /\ tainted s = false.
Proof. split; [eexists; reflexivity|]. vm_compute. auto. Qed.
