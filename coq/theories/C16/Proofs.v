(* C16 — proofs over C16/Model.v: inductive invariants of [step] for arbitrary op sequences. *)
From Coq Require Import ZArith List Bool Arith Lia Permutation.
From GV Require Import C16.Model.
Import ListNotations.
Open Scope Z_scope.

(* ------------------------------------------------------------------ lists *)
Lemma mem_In : forall r l, mem r l = true <-> In r l.
Proof.
  induction l as [|x t IH]; simpl; [split; [discriminate|tauto]|].
  rewrite orb_true_iff, Nat.eqb_eq, IH. tauto.
Qed.

Lemma mem_false : forall r l, mem r l = false <-> ~ In r l.
Proof. intros. rewrite <- mem_In. destruct (mem r l); split; congruence. Qed.

Lemma remove1_In : forall x r l, In x (remove1 r l) <-> In x l /\ x <> r.
Proof.
  induction l as [|y t IH]; simpl; [tauto|].
  destruct (Nat.eqb_spec y r); simpl; rewrite IH; split; intros; intuition (subst; congruence).
Qed.

Lemma remove1_NoDup : forall r l, NoDup l -> NoDup (remove1 r l).
Proof.
  induction l as [|y t IH]; simpl; intros H; [constructor|]. inversion H; subst.
  destruct (Nat.eqb_spec y r); auto. constructor; auto. rewrite remove1_In. tauto.
Qed.

Lemma remove1_notin : forall r l, ~ In r l -> remove1 r l = l.
Proof.
  induction l as [|y t IH]; simpl; intros H; auto.
  destruct (Nat.eqb_spec y r); [subst; tauto|]. f_equal. apply IH. tauto.
Qed.

Lemma remove1_length : forall r l, NoDup l -> In r l -> S (length (remove1 r l)) = length l.
Proof.
  induction l as [|y t IH]; simpl; intros Hn Hi; [tauto|]. inversion Hn; subst.
  destruct (Nat.eqb_spec y r).
  - subst. rewrite remove1_notin; auto.
  - simpl. f_equal. apply IH; auto. destruct Hi; congruence.
Qed.

(* ------------------------------------------------------------------ objects *)
Lemma get_mapi_from : forall f l i r, get (mapi_from i f l) r = option_map (f (i + r)%nat) (get l r).
Proof.
  unfold get. induction l as [|x t IH]; intros i r; simpl.
  - destruct r; reflexivity.
  - destruct r; simpl; [rewrite Nat.add_0_r; reflexivity|]. rewrite IH. f_equal. f_equal. lia.
Qed.

Lemma get_mapi : forall f l r, get (mapi f l) r = option_map (f r) (get l r).
Proof. intros. unfold mapi. rewrite get_mapi_from. reflexivity. Qed.

Lemma length_mapi_from : forall f l i, length (mapi_from i f l) = length l.
Proof. induction l; simpl; intros; auto. Qed.

Lemma length_mapi : forall f l, length (mapi f l) = length l.
Proof. intros. apply length_mapi_from. Qed.

Lemma length_upd : forall l r f, length (upd l r f) = length l.
Proof. intros. apply length_mapi. Qed.

Lemma get_upd : forall l r f r', get (upd l r f) r' = if Nat.eqb r' r then option_map f (get l r') else get l r'.
Proof.
  intros. unfold upd. rewrite get_mapi. destruct (Nat.eqb r' r); destruct (get l r'); reflexivity.
Qed.

Lemma get_lt : forall l r o, get l r = Some o -> (r < length l)%nat.
Proof. unfold get. intros. apply nth_error_Some. congruence. Qed.

Lemma get_app_old : forall l x r, (r < length l)%nat -> get (l ++ [x]) r = get l r.
Proof. unfold get. intros. apply nth_error_app1. auto. Qed.

Lemma get_app_new : forall l x, get (l ++ [x]) (length l) = Some x.
Proof. unfold get. intros. rewrite nth_error_app2, Nat.sub_diag; auto. Qed.

Lemma get_app_inv : forall l x r o, get (l ++ [x]) r = Some o ->
  (r < length l /\ get l r = Some o)%nat \/ (r = length l /\ o = x).
Proof.
  intros l x r o H. destruct (Nat.lt_ge_cases r (length l)) as [Hl|Hg].
  - left. rewrite get_app_old in H; auto.
  - right. pose proof (get_lt _ _ _ H) as Hb. rewrite app_length in Hb. simpl in Hb.
    assert (r = length l) by lia. subst. rewrite get_app_new in H. split; congruence.
Qed.

Lemma is_stash_mapi : forall f l r, (forall i o, o_stash (f i o) = o_stash o) -> is_stash (mapi f l) r = is_stash l r.
Proof. intros. unfold is_stash. rewrite get_mapi. destruct (get l r); simpl; auto. Qed.

Lemma nstash_mapi : forall f l t, (forall i o, o_stash (f i o) = o_stash o) -> nstash (mapi f l) t = nstash l t.
Proof. induction t; simpl; intros; auto. rewrite is_stash_mapi, IHt; auto. Qed.

Lemma nstash_upd : forall l r f t, (forall o, o_stash (f o) = o_stash o) -> nstash (upd l r f) t = nstash l t.
Proof. intros. unfold upd. apply nstash_mapi. intros i o. destruct (Nat.eqb i r); auto. Qed.

Lemma is_stash_app_old : forall l x r, (r < length l)%nat -> is_stash (l ++ [x]) r = is_stash l r.
Proof. intros. unfold is_stash. rewrite get_app_old; auto. Qed.

Lemma nstash_app_objs : forall l x t, (forall r, In r t -> (r < length l)%nat) -> nstash (l ++ [x]) t = nstash l t.
Proof.
  induction t; simpl; intros H; auto. rewrite is_stash_app_old, IHt; auto.
Qed.

Lemma nstash_app : forall l t r, nstash l (t ++ [r]) = (nstash l t + (if is_stash l r then 1 else 0))%nat.
Proof. induction t; simpl; intros; [lia|]. rewrite IHt. lia. Qed.

Lemma nstash_remove1 : forall l r t, NoDup t -> In r t ->
  nstash l t = ((if is_stash l r then 1 else 0) + nstash l (remove1 r t))%nat.
Proof.
  induction t as [|y t IH]; simpl; intros Hn Hi; [tauto|]. inversion Hn; subst.
  destruct (Nat.eqb_spec y r).
  - subst. rewrite remove1_notin; auto.
  - simpl. rewrite IH; auto; [lia|]. destruct Hi; congruence.
Qed.

Lemma users_app : forall a b, users (a ++ b) = users a ++ users b.
Proof. induction a as [|m a IH]; simpl; intros; auto. destruct m; simpl; rewrite IH; auto. Qed.

Lemma seq_S_end : forall n, seq 0 (S n) = seq 0 n ++ [n].
Proof. intros. rewrite seq_S. reflexivity. Qed.

(* the setters keep the mode *)
Lemma stash_set_completed : forall k o, o_stash (set_completed k o) = o_stash o. Proof. reflexivity. Qed.
Lemma stash_set_cb : forall o, o_stash (set_cb o) = o_stash o. Proof. reflexivity. Qed.
Lemma stash_inc_calls : forall o, o_stash (inc_calls o) = o_stash o. Proof. reflexivity. Qed.
Lemma stash_set_cancelreq : forall o, o_stash (set_cancelreq o) = o_stash o. Proof. reflexivity. Qed.
Lemma stash_set_timer : forall t o, o_stash (set_timer t o) = o_stash o. Proof. reflexivity. Qed.
Lemma stash_stop_timer : forall o, o_stash (stop_timer o) = o_stash o.
Proof. intros. unfold stop_timer. destruct (o_timer o); reflexivity. Qed.
Lemma stash_cancel_one : forall o, o_stash (cancel_one o) = o_stash o.
Proof. intros. unfold cancel_one. destruct (o_completed o); reflexivity. Qed.
#[global] Hint Resolve stash_set_completed stash_set_cb stash_inc_calls stash_set_cancelreq stash_set_timer stash_stop_timer stash_cancel_one : c16.

Definition runfrom (s : st) (ops : list op) : st := fold_left step ops s.

Definition reach (mx : Z) (s : st) : Prop := exists ops, s = run mx ops.

Lemma reach_ind_inv : forall (P : st -> Prop) mx,
  P (init mx) -> (forall s o, P s -> P (step s o)) -> forall s, reach mx s -> P s.
Proof.
  intros P mx H0 Hs s [ops ->]. unfold run.
  assert (G : forall ops s0, P s0 -> P (fold_left step ops s0)).
  { induction ops0 as [|o t IH]; simpl; intros; auto. }
  apply G. exact H0.
Qed.

Lemma reach_step : forall mx s o, reach mx s -> reach mx (step s o).
Proof. intros mx s o [ops ->]. exists (ops ++ [o]). unfold run. rewrite fold_left_app. reflexivity. Qed.

(* ------------------------------------------------------------------ WF: the table *)
Definition WF (s : st) : Prop :=
  NoDup (table s) /\ (forall r, In r (table s) -> (r < length (objs s))%nat).

Lemma wf_register : forall s st_ ar s', WF s -> register s st_ ar = Some s' -> WF s'.
Proof.
  unfold register. intros s b a s' [Hn Hb] H.
  destruct ((0 <? maxif s) && (maxif s <=? inflight s)); [discriminate|]. inversion H; subst; clear H.
  split; simpl.
  - apply Permutation_NoDup with (l := length (objs s) :: table s).
    + apply Permutation_cons_append.
    + constructor; auto. intros Hi. apply Hb in Hi. lia.
  - intros r Hi. rewrite app_length. simpl. apply in_app_or in Hi. destruct Hi as [Hi|[<-|[]]]; [apply Hb in Hi|]; lia.
Qed.

Lemma wf_deregister : forall s r, WF s -> WF (deregister s r).
Proof.
  unfold deregister. intros s r [Hn Hb].
  destruct (mem r (table s)); simpl; [|split; auto].
  assert (W : NoDup (remove1 r (table s)) /\ forall x, In x (remove1 r (table s)) -> (x < length (upd (objs s) r stop_timer))%nat).
  { split; [apply remove1_NoDup; auto|]. intros x Hx. rewrite length_upd. apply remove1_In in Hx. apply Hb. tauto. }
  destruct (is_stash (objs s) r); [destruct (blocking s - 1 =? 0)|]; exact W.
Qed.

Lemma objs_deregister_length : forall s r, length (objs (deregister s r)) = length (objs s).
Proof.
  unfold deregister. intros. destruct (mem r (table s)); simpl; auto.
  destruct (is_stash (objs s) r); [destruct (blocking s - 1 =? 0)|]; simpl; apply length_upd.
Qed.

Lemma wf_step : forall s o, WF s -> WF (step s o).
Proof.
  intros s o H. pose proof H as [Hn Hb].
  destruct o; simpl; auto.
  - destruct (ph s); auto.
  - destruct (ph s); auto.
  - destruct (get (objs s) r); auto. destruct (o_timer r0); auto; split; simpl; auto; intros; rewrite length_upd; auto.
  - destruct (get (objs s) r); auto. destruct (o_completed r0 || o_cancelreq r0); auto.
    split; simpl; auto; intros; rewrite length_upd; auto.
  - destruct (ph s); auto.
  - split; simpl.
    + unfold cancel_keep. apply NoDup_filter. auto.
    + intros r Hi. unfold cancel_keep in Hi. apply filter_In in Hi. unfold cancel_objs. rewrite length_mapi. apply Hb. tauto.
  - destruct (ph s); auto. split; simpl; [constructor|tauto].
  - destruct (ph s); auto.
  - destruct (turn s); auto. destruct (mbox s) as [|m rest]; auto. destruct m.
    + destruct (0 <? blocking s); split; simpl; auto.
    + destruct (mem r (table s)); [|split; simpl; auto].
      destruct (get (objs s) r); [|split; simpl; auto].
      destruct (o_completed r0); split; simpl; auto. intros; rewrite length_upd; auto.
  - destruct (turn s) as [|r c k]; auto.
    assert (W : WF (deregister (with_turn s TIdle) r)) by (apply wf_deregister; exact H).
    destruct c; auto. destruct W as [W1 W2]. split; simpl; auto. intros; rewrite length_upd; auto.
  - destruct (turn s); auto.
  - destruct (turn s); auto. destruct (ph s); auto.
    destruct (register s stash armed) eqn:E; auto. eapply wf_register; eauto.
  - destruct (turn s); auto. destruct (get (objs s) r); auto. destruct (o_cb r0); auto.
    destruct (o_completed r0); split; simpl; auto; intros; rewrite length_upd; auto.
Qed.
