(* C16 — functional lemmas about one completion, on top of the invariants of C16/Proofs.v. *)
From Coq Require Import ZArith List Bool Arith Lia.
From GV Require Import C16.Model C16.Proofs.
Import ListNotations.
Open Scope Z_scope.

Section Policy.
Variable z : bool.
Local Notation step := (Model.step z).

(* A response envelope at the head of the mailbox whose request is still in flight completes it:
   the outcome is the one the envelope carries (reply, error, timeout or cancellation), the request
   leaves requestStates, the in-flight counter drops by one and the continuation — if one was
   registered — has run exactly once when the turn is idle again.  A second envelope for the same
   request finds nothing to complete. *)
Theorem response_completes : forall mx s r k rest ob,
  reach z mx s -> turn s = TIdle -> mbox s = MResp r k :: rest ->
  In r (table s) -> get (objs s) r = Some ob -> o_completed ob = false ->
  let s' := step (step s ODispatch) OFinish in
  exists ob', get (objs s') r = Some ob' /\
    o_completed ob' = true /\ o_outcome ob' = Some k /\ o_calls ob' = (if o_cb ob then 1%nat else O) /\
    ~ In r (table s') /\ inflight s' = inflight s - 1 /\ turn s' = TIdle /\
    (forall k2, mbox s' = MResp r k2 :: tl (mbox s') ->
       objs (step (step s' ODispatch) OFinish) = objs s' /\ table (step (step s' ODispatch) OFinish) = table s').
Proof.
  intros mx s r k rest ob R T Mb Hin G C s'0. subst s'0.
  destruct (inv_reach z _ _ R) as ((HN & HB) & HO & _).
  assert (M : mem r (table s) = true) by (apply mem_In; exact Hin).
  destruct (HO _ _ G) as (H1 & H2 & _).
  rewrite T in H1. simpl in H1. rewrite C in H1. simpl in H1.
  assert (Hd : o_dropped ob = false).
  { destruct (o_dropped ob) eqn:D; auto. destruct (H2 eq_refl) as [X _]. congruence. }
  (* first half *)
  assert (E1 : step s ODispatch =
     with_turn (with_objs (with_mbox s rest) (upd (objs s) r (set_completed k))) (TMid r (o_cb ob) k)).
  { simpl. rewrite T, Mb, M, G, C. reflexivity. }
  rewrite E1. clear E1.
  set (s1 := with_turn (with_objs (with_mbox s rest) (upd (objs s) r (set_completed k))) (TMid r (o_cb ob) k)).
  assert (M1 : mem r (table (with_turn s1 TIdle)) = true) by exact M.
  destruct (deregister_shape (with_turn s1 TIdle) r) as [[X _]|(_ & Eo & Et & Etu & _ & Ei & _)]; [congruence|].
  assert (G1 : get (objs (deregister (with_turn s1 TIdle) r)) r = Some (stop_timer (set_completed k ob))).
  { rewrite Eo. simpl. rewrite !get_upd, Nat.eqb_refl, G. reflexivity. }
  assert (NI : ~ In r (remove1 r (table s))) by (intros X; apply remove1_In in X; tauto).
  assert (STC : forall o0, o_completed (stop_timer o0) = o_completed o0 /\ o_outcome (stop_timer o0) = o_outcome o0 /\
                           o_calls (stop_timer o0) = o_calls o0 /\ o_cb (stop_timer o0) = o_cb o0).
  { intros o0. unfold stop_timer. destruct (o_timer o0); auto. }
  destruct (STC (set_completed k ob)) as (S1 & S2 & S3 & S4).
  (* the state after OFinish *)
  assert (SHAPE : exists s', step s1 OFinish = s' /\
            get (objs s') r = Some (if o_cb ob then inc_calls (stop_timer (set_completed k ob)) else stop_timer (set_completed k ob)) /\
            table s' = remove1 r (table s) /\ inflight s' = inflight s - 1 /\ turn s' = TIdle).
  { eexists. split; [reflexivity|]. simpl. destruct (o_cb ob) eqn:Cb; simpl.
    - rewrite get_upd, Nat.eqb_refl, G1. simpl. rewrite Et, Ei. simpl. rewrite Etu. auto.
    - rewrite G1, Et, Ei, Etu. simpl. auto. }
  destruct SHAPE as (s' & Es' & Gs' & Ts' & Is' & Tus'). rewrite Es'.
  eexists. split; [exact Gs'|].
  split; [destruct (o_cb ob); simpl; rewrite ?S1; reflexivity|].
  split; [destruct (o_cb ob); simpl; rewrite ?S2; reflexivity|].
  split; [destruct (o_cb ob); simpl; rewrite ?S3; simpl; rewrite H1; reflexivity|].
  split; [rewrite Ts'; exact NI|].
  split; [exact Is'|]. split; [exact Tus'|].
  intros k2 Mb2.
  assert (M2 : mem r (table s') = false) by (rewrite Ts'; apply mem_remove1_same).
  assert (E2 : step s' ODispatch = with_mbox s' (tl (mbox s'))).
  { simpl. rewrite Tus', Mb2. simpl. rewrite M2. reflexivity. }
  rewrite E2. simpl. rewrite Tus'. simpl. auto.
Qed.

End Policy.

Example ex_response_completes_hyps :
  let s := Model.run true 0 [ORequest true true; OThen 0; OArrive; OTimerFire 0; OReply 0 KReply] in
  reach true 0 s /\ turn s = TIdle /\ mbox s = MUser 0 :: MResp 0 KTimeout :: [MResp 0 KReply] /\
  In O (table s) /\ option_map o_completed (get (objs s) 0) = Some false /\
  let s2 := Model.step true s ODispatch in
  turn s2 = TIdle /\ mbox s2 = MResp 0 KTimeout :: [MResp 0 KReply] /\ stashq s2 = [MUser 0] /\ In O (table s2).
Proof. split; [eexists; reflexivity|]. vm_compute. intuition. Qed.
