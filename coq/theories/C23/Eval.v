(* C23 — evaluation support for the generated cases (NOT part of the proofs' closure).
   Byte strings arrive packed seven bytes per primitive 63-bit integer (cheap to parse); the
   functions here unpack them, instantiate the model's protobuf/registry parameters from the probe
   table recorded on the real library, run the model and compare with what the real code returned. *)
From Coq Require Import NArith ZArith List Bool Uint63.
From GV Require Import Lib.Bytes Lib.BytesPack C23.Model.
Import ListNotations.
Open Scope N_scope.

Definition sub (lo hi : N) (d : bytes) : bytes := firstn (N.to_nat (hi - lo)) (skipn (N.to_nat lo) d).

(* probe table: (name_lo, name_hi, payload_lo, payload_hi, Some id | None) over the case's own bytes *)
Definition probe := (N * N * N * N * option N)%type.
Definition missing_id : N := 4294967295.

Fixpoint pb_lookup (tbl : list (bytes * bytes * option N)) (n p : bytes) : option N :=
  match tbl with
  | [] => Some missing_id
  | (n', p', r) :: t => if beq n n' && beq p p' then r else pb_lookup t n p
  end.
Definition mk_tbl (d : bytes) (ps : list probe) : list (bytes * bytes * option N) :=
  map (fun '(a, b, c, e, r) => (sub a b d, sub c e d, r)) ps.

Definition known_in (names : list bytes) (n : bytes) : bool := existsb (beq n) names.

(* ---- canonical form of a header map: last value wins, sorted by key (bytewise) *)
Fixpoint bcmp (a b : bytes) : comparison :=
  match a, b with
  | [], [] => Eq
  | [], _ => Lt
  | _, [] => Gt
  | x :: a', y :: b' => match N.compare x y with Eq => bcmp a' b' | c => c end
  end.
Fixpoint ins (kv : bytes * bytes) (l : list (bytes * bytes)) : list (bytes * bytes) :=
  match l with
  | [] => [kv]
  | h :: t => match bcmp (fst kv) (fst h) with Gt => h :: ins kv t | _ => kv :: l end
  end.
Definition canon_hdrs (h : list (bytes * bytes)) : list (bytes * bytes) := fold_right ins [] (hdr_map h).

Fixpoint hdrs_eq (a b : list (bytes * bytes)) : bool :=
  match a, b with
  | [], [] => true
  | (k, v) :: a', (k', v') :: b' => beq k k' && beq v v' && hdrs_eq a' b'
  | _, _ => false
  end.

(* expected result as observed on the real code *)
Record expect := {
  x_dec : N;                       (* 1 unmarshal 2 unmarshal_md 3 client 4 server 5 metadata *)
  x_class : N;                     (* 0 ok 1 len 2 unknown 3 meta 4 pb 5 panic 6 other 9 closed *)
  x_name : list seg;
  x_id : N;
  x_md : option (list (list seg * list seg) * Z * Z * Z)  (* sorted headers, deadline, clock lo, clock hi *)
}.

Record ecase := { e_data : list seg; e_probes : list probe; e_exp : list expect }.

Definition class_of {A} (r : res A) : N :=
  match r with
  | Panic => 5 | Err ErrLen => 1 | Err ErrUnknown => 2 | Err ErrMeta => 3 | Err ErrPb => 4 | Ok _ => 0
  end.

(* model run with now = 0: the decoded m_deadline is then the wire's remaining time r, and the real
   deadline d must satisfy d = 0 (r = 0) or lo <= wrap64 (d - r) <= hi *)
Definition md_matches (m : option meta) (x : option (list (list seg * list seg) * Z * Z * Z)) : bool :=
  match m, x with
  | None, None => true
  | Some m, Some (h, d, lo, hi) =>
      hdrs_eq (canon_hdrs (m_hdrs m)) (map (fun kv => (unpack (fst kv), unpack (snd kv))) h)
      && (if (m_deadline m =? 0)%Z then (d =? 0)%Z
          else let n := wrap64 (d - m_deadline m) in (lo <=? n)%Z && (n <=? hi)%Z)
  | _, _ => false
  end.

Definition srv_max : N := 1048576.

Section Run.
  Variable names : list bytes.

  Definition run_one (d : bytes) (tbl : list (bytes * bytes * option N)) (x : expect) : bool * N :=
    let kn := known_in names in
    let pb := pb_lookup tbl in
    let full (r : res (bytes * N * option meta)) : bool * N :=
      (match r with
       | Ok (n, id, m) => (x_class x =? 0) && beq n (unpack (x_name x)) && (id =? x_id x) && md_matches m (x_md x)
       | _ => class_of r =? x_class x
       end, class_of r) in
    match x_dec x with
    | 1 => full (legacy kn N pb d)
    | 2 => full (unmarshal_md kn N pb 0 d)
    | 3 => full (client_detect kn N pb 0 d)
    | 4 => match serve kn N pb 1 srv_max 0 d with
           | r :: _ => full (Ok r)
           | [] => (x_class x =? 9, 9)
           end
    | 5 => let r := md_unmarshal 0 d in
           (match r with
            | Ok m => (x_class x =? 0) && md_matches (Some m) (x_md x)
            | _ => class_of r =? x_class x
            end, class_of r)
    | _ => (false, 99)
    end.

  (* mismatches of a case: (decoder, model class, observed class) *)
  Definition run_case (c : ecase) : list (N * N * N) :=
    let d := unpack (e_data c) in
    let tbl := mk_tbl d (e_probes c) in
    flat_map (fun x => let '(ok, mc) := run_one d tbl x in if ok then [] else [(x_dec x, mc, x_class x)]) (e_exp c).

  Fixpoint run_cases (i : N) (cs : list ecase) : list (N * list (N * N * N)) :=
    match cs with
    | [] => []
    | c :: t => match run_case c with [] => run_cases (i + 1) t | l => (i, l) :: run_cases (i + 1) t end
    end.

  (* ---- streams *)
  Record scase := {
    s_data : list seg; s_max : N; s_probes : list probe;
    s_frames : list N;     (* lengths of the frames readProtoFrame returned *)
    s_end : N;             (* 0 EOF 1 unexpected EOF 2 ErrLen 3 TooLarge 4 panic 5 other *)
    s_served : list expect
  }.

  Definition end_code (e : rf) (remaining : N) : N :=
    match e with
    | RF_EOF => 0
    | RF_Short => if remaining =? 4 then 0 else 1   (* io.ReadFull reports io.EOF when the body is entirely missing *)
    | RF_ErrLen => 2
    | RF_TooLarge => 3
    | RF_Panic => 4
    | RF_Frame _ _ => 5
    end.

  Fixpoint served_ok (rs : list (bytes * N * option meta)) (xs : list expect) : bool :=
    match rs, xs with
    | [], [] => true
    | (n, id, m) :: rs', x :: xs' =>
        beq n (unpack (x_name x)) && (id =? x_id x) && md_matches m (x_md x) && served_ok rs' xs'
    | _, _ => false
    end.

  Fixpoint neq_list (a b : list N) : bool :=
    match a, b with
    | [], [] => false
    | x :: a', y :: b' => negb (x =? y) || neq_list a' b'
    | _, _ => true
    end.

  (* result: (frames differ, end differs, served differs) flags + the model's view *)
  Definition run_stream (c : scase) : option (bool * bool * bool * list N * N * N) :=
    let d := unpack (s_data c) in
    let tbl := mk_tbl d (s_probes c) in
    let fuel := S (length (s_frames c) + 8) in
    let '(fs, e) := read_all fuel (s_max c) d in
    let lens := map blen fs in
    let consumed := fold_left N.add lens 0 in
    let ec := end_code e (blen d - consumed) in
    let sv := serve (known_in names) N (pb_lookup tbl) fuel (s_max c) 0 d in
    let b1 := neq_list lens (s_frames c) in
    let b2 := negb (ec =? s_end c) in
    let b3 := negb (served_ok sv (s_served c)) in
    if b1 || b2 || b3 then Some (b1, b2, b3, lens, ec, N.of_nat (length sv)) else None.

  Fixpoint run_streams (i : N) (cs : list scase) : list (N * (bool * bool * bool * list N * N * N)) :=
    match cs with
    | [] => []
    | c :: t => match run_stream c with None => run_streams (i + 1) t | Some r => (i, r) :: run_streams (i + 1) t end
    end.
End Run.
