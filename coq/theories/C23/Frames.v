(* C23 — proofs about frames: round trip, robustness, truncation, format detection, stream splitting. *)
From Coq Require Import NArith ZArith List Bool Lia.
From GV Require Import Lib.Bytes C23.Model C23.Proofs.
Import ListNotations.
Open Scope N_scope.

Section FrameProofs.
  Variable known : bytes -> bool.
  Variable M : Type.
  Variable pb_dec : bytes -> bytes -> option M.

  Notation unmarshal := (unmarshal known M pb_dec).
  Notation unmarshal_md := (unmarshal_md known M pb_dec).
  Notation legacy := (legacy known M pb_dec).
  Notation client_detect := (client_detect known M pb_dec).
  Notation server_detect := (server_detect known M pb_dec).

  (* the byte string MarshalBinaryTo produces *)
  Definition frame (name payload : bytes) : bytes :=
    be32 (4 + 4 + blen name + blen payload) ++ be32 (blen name) ++ name ++ payload.
  (* the byte string MarshalBinaryWithMetadataTo produces, mb = serialized metadata ([] for nil) *)
  Definition frame_md (name mb payload : bytes) : bytes :=
    be32 (4 + 4 + blen name + 4 + blen mb + blen payload) ++ be32 (blen name) ++ be32 (blen mb) ++ name ++ mb ++ payload.

  Lemma marshal_eq name payload : 0 < blen name -> marshal name payload = Ok (frame name payload).
  Proof. intros H. unfold marshal. destruct (N.eqb_spec (blen name) 0); [lia|reflexivity]. Qed.
  Lemma marshal_md_eq now name payload md :
    0 < blen name -> marshal_md now name payload md = Ok (frame_md name (meta_bytes now md) payload).
  Proof. intros H. unfold marshal_md. destruct (N.eqb_spec (blen name) 0); [lia|reflexivity]. Qed.
  Lemma marshal_noname payload : marshal [] payload = Err ErrUnknown.
  Proof. reflexivity. Qed.

  Lemma blen_frame name payload : blen (frame name payload) = 8 + blen name + blen payload.
  Proof. unfold frame. rewrite !blen_app, !blen_be32. lia. Qed.
  Lemma blen_frame_md name mb payload : blen (frame_md name mb payload) = 12 + blen name + blen mb + blen payload.
  Proof. unfold frame_md. rewrite !blen_app, !blen_be32. lia. Qed.

  (* ---------------------------------------------------------------- round trip, legacy layout *)
  Lemma unmarshal_frame_gen name payload extra :
    8 + blen name + blen payload < 4294967296 ->
    unmarshal (frame name payload ++ extra) =
      if negb (known name) then Err ErrUnknown else
      match pb_dec name payload with None => Err ErrPb | Some m => Ok (name, m) end.
  Proof.
    intros Hsz. unfold Model.unmarshal.
    set (T := 4 + 4 + blen name + blen payload).
    unfold frame. fold T. rewrite <- !app_assoc.
    set (data := be32 T ++ be32 (blen name) ++ name ++ payload ++ extra).
    assert (Hl : blen data = T + blen extra) by (unfold data, T; rewrite !blen_app, !blen_be32; lia).
    rewrite Hl. rewrite ltb_false by (unfold T; lia).
    assert (R0 : rd32_at 0 data = Some T) by (unfold data; apply rd32_at_0; unfold T; lia).
    rewrite R0. rewrite (ltb_false _ T) by lia. rewrite (ltb_false T 8) by (unfold T; lia). cbn [orb].
    assert (R4 : rd32_at 4 data = Some (blen name)).
    { unfold data. apply rd32_at_app; rewrite ?blen_be32; lia. }
    rewrite R4. rewrite ltb_false by (unfold T; lia).
    assert (E1 : slice 8 (8 + blen name) data = Some name).
    { unfold data. rewrite (app_assoc (be32 T) (be32 (blen name))). apply slice_at; rewrite ?blen_app, ?blen_be32; lia. }
    rewrite E1. destruct (known name); cbn [negb]; [|reflexivity].
    assert (E2 : slice (8 + blen name) T data = Some payload).
    { unfold data. rewrite (app_assoc (be32 T) (be32 (blen name))). rewrite (app_assoc (be32 T ++ be32 (blen name)) name).
      apply slice_at; rewrite ?blen_app, ?blen_be32; unfold T; lia. }
    rewrite E2. reflexivity.
  Qed.

  Theorem unmarshal_marshal name payload m :
    0 < blen name -> 8 + blen name + blen payload < 4294967296 ->
    known name = true -> pb_dec name payload = Some m ->
    exists f, marshal name payload = Ok f /\ unmarshal f = Ok (name, m).
  Proof.
    intros Hn Hsz Hk Hp. exists (frame name payload). split; [apply marshal_eq; assumption|].
    rewrite <- (app_nil_r (frame name payload)). rewrite unmarshal_frame_gen by assumption.
    rewrite Hk, Hp. reflexivity.
  Qed.

  (* ---------------------------------------------------------------- round trip, metadata layout *)
  Definition md_section (now : Z) (mb : bytes) : res (option meta) :=
    if 0 <? blen mb then
      match md_unmarshal now mb with Panic => Panic | Err e => Err e | Ok m => Ok (Some m) end
    else Ok None.

  Lemma unmarshal_md_frame_gen now name mb payload extra :
    12 + blen name + blen mb + blen payload < 4294967296 ->
    unmarshal_md now (frame_md name mb payload ++ extra) =
      if negb (known name) then Err ErrUnknown else
      match md_section now mb with
      | Panic => Panic | Err e => Err e
      | Ok md => match pb_dec name payload with None => Err ErrPb | Some m => Ok (name, m, md) end
      end.
  Proof.
    intros Hsz. unfold Model.unmarshal_md, md_section.
    set (T := 4 + 4 + blen name + 4 + blen mb + blen payload).
    assert (HT : T = 12 + blen name + blen mb + blen payload) by (unfold T; lia).
    unfold frame_md. fold T. rewrite <- !app_assoc.
    set (data := be32 T ++ be32 (blen name) ++ be32 (blen mb) ++ name ++ mb ++ payload ++ extra).
    assert (Hl : blen data = T + blen extra) by (unfold data; rewrite !blen_app, !blen_be32; lia).
    rewrite Hl. rewrite ltb_false by lia.
    assert (R0 : rd32_at 0 data = Some T) by (unfold data; apply rd32_at_0; lia).
    rewrite R0. rewrite (ltb_false _ T) by lia. rewrite (ltb_false T 12) by lia. cbn [orb].
    assert (R4 : rd32_at 4 data = Some (blen name)).
    { unfold data. apply rd32_at_app; rewrite ?blen_be32; lia. }
    assert (R8 : rd32_at 8 data = Some (blen mb)).
    { unfold data. rewrite (app_assoc (be32 T) (be32 (blen name))).
      apply rd32_at_app; rewrite ?blen_app, ?blen_be32; lia. }
    rewrite R4, R8. rewrite ltb_false by lia.
    assert (E1 : slice 12 (12 + blen name) data = Some name).
    { unfold data. rewrite (app_assoc (be32 T) (be32 (blen name))).
      rewrite (app_assoc (be32 T ++ be32 (blen name)) (be32 (blen mb))).
      apply slice_at; rewrite ?blen_app, ?blen_be32; lia. }
    rewrite E1. destruct (known name); cbn [negb]; [|reflexivity].
    assert (E2 : slice (12 + blen name) (12 + blen name + blen mb) data = Some mb).
    { unfold data. rewrite (app_assoc (be32 T) (be32 (blen name))).
      rewrite (app_assoc (be32 T ++ be32 (blen name)) (be32 (blen mb))).
      rewrite (app_assoc ((be32 T ++ be32 (blen name)) ++ be32 (blen mb)) name).
      apply slice_at; rewrite ?blen_app, ?blen_be32; lia. }
    rewrite E2.
    assert (E3 : slice (12 + blen name + blen mb) T data = Some payload).
    { unfold data. rewrite (app_assoc (be32 T) (be32 (blen name))).
      rewrite (app_assoc (be32 T ++ be32 (blen name)) (be32 (blen mb))).
      rewrite (app_assoc ((be32 T ++ be32 (blen name)) ++ be32 (blen mb)) name).
      rewrite (app_assoc (((be32 T ++ be32 (blen name)) ++ be32 (blen mb)) ++ name) mb).
      apply slice_at; rewrite ?blen_app, ?blen_be32; lia. }
    rewrite E3. reflexivity.
  Qed.

  Lemma blen_md_wire h r : blen (md_wire h r) = 10 + blen (enc_hdrs h).
  Proof. unfold md_wire. rewrite !blen_app, blen_be16, blen_be64. lia. Qed.

  Definition md_ok (md : option meta) : Prop :=
    match md with None => True | Some m => N.of_nat (length (m_hdrs m)) < 65536 /\ Forall kv_ok (m_hdrs m) end.
  Definition md_received (now now' : Z) (md : option meta) : option meta :=
    match md with
    | None => None
    | Some m => Some {| m_hdrs := m_hdrs m; m_deadline := deadline_of now' (remaining_of now (m_deadline m)) |}
    end.

  Lemma md_section_meta_bytes now now' md :
    md_ok md -> md_section now' (meta_bytes now md) = Ok (md_received now now' md).
  Proof.
    destruct md as [m|]; cbn [meta_bytes md_ok md_received]; intros H.
    - destruct H as [H1 H2]. unfold md_section. unfold md_marshal at 1. rewrite blen_md_wire.
      rewrite ltb_true by lia. rewrite md_roundtrip by assumption. reflexivity.
    - reflexivity.
  Qed.

  Theorem unmarshal_md_marshal_md now now' name payload md m :
    0 < blen name -> md_ok md ->
    12 + blen name + blen (meta_bytes now md) + blen payload < 4294967296 ->
    known name = true -> pb_dec name payload = Some m ->
    exists f, marshal_md now name payload md = Ok f /\
              unmarshal_md now' f = Ok (name, m, md_received now now' md).
  Proof.
    intros Hn Hmd Hsz Hk Hp. exists (frame_md name (meta_bytes now md) payload).
    split; [apply marshal_md_eq; assumption|].
    rewrite <- (app_nil_r (frame_md _ _ _)). rewrite unmarshal_md_frame_gen by assumption.
    rewrite Hk. cbn [negb]. rewrite (md_section_meta_bytes now now') by assumption. rewrite Hp. reflexivity.
  Qed.

  (* ---------------------------------------------------------------- robustness: no decoder can panic *)
  Theorem unmarshal_no_panic data : unmarshal data <> Panic.
  Proof.
    unfold Model.unmarshal.
    destruct (N.ltb_spec (blen data) 8); [discriminate|].
    destruct (rd32_at_some 0 data ltac:(lia)) as [ml E0]. rewrite E0.
    destruct (N.ltb_spec (blen data) ml); cbn [orb]; [discriminate|].
    destruct (N.ltb_spec ml 8); [discriminate|].
    destruct (rd32_at_some 4 data ltac:(lia)) as [nl E4]. rewrite E4.
    destruct (N.ltb_spec ml (8 + nl)); [discriminate|].
    destruct (slice_in_range 8 (8 + nl) data ltac:(lia) ltac:(lia)) as [name [E1 _]]. rewrite E1.
    destruct (known name); cbn [negb]; [|discriminate].
    destruct (slice_in_range (8 + nl) ml data ltac:(lia) ltac:(lia)) as [p [E2 _]]. rewrite E2.
    destruct (pb_dec name p); discriminate.
  Qed.

  Theorem unmarshal_md_no_panic now data : unmarshal_md now data <> Panic.
  Proof.
    unfold Model.unmarshal_md.
    destruct (N.ltb_spec (blen data) 12); [discriminate|].
    destruct (rd32_at_some 0 data ltac:(lia)) as [ml E0]. rewrite E0.
    destruct (N.ltb_spec (blen data) ml); cbn [orb]; [discriminate|].
    destruct (N.ltb_spec ml 12); [discriminate|].
    destruct (rd32_at_some 4 data ltac:(lia)) as [nl E4]. rewrite E4.
    destruct (rd32_at_some 8 data ltac:(lia)) as [mdl E8]. rewrite E8.
    destruct (N.ltb_spec ml (12 + nl + mdl)); [discriminate|].
    destruct (slice_in_range 12 (12 + nl) data ltac:(lia) ltac:(lia)) as [name [E1 _]]. rewrite E1.
    destruct (known name); cbn [negb]; [|discriminate].
    destruct (slice_in_range (12 + nl) (12 + nl + mdl) data ltac:(lia) ltac:(lia)) as [mb [E2 _]]. rewrite E2.
    destruct (slice_in_range (12 + nl + mdl) ml data ltac:(lia) ltac:(lia)) as [p [E3 _]]. rewrite E3.
    destruct (0 <? mdl).
    - pose proof (md_unmarshal_no_panic now mb) as Hn.
      destruct (md_unmarshal now mb); [congruence | discriminate | destruct (pb_dec name p); discriminate].
    - destruct (pb_dec name p); discriminate.
  Qed.

  Lemma legacy_no_panic data : legacy data <> Panic.
  Proof.
    unfold Model.legacy. pose proof (unmarshal_no_panic data).
    destruct (unmarshal data) as [| e | [n m]]; [congruence | discriminate | discriminate].
  Qed.

  Theorem client_detect_no_panic now data : client_detect now data <> Panic.
  Proof.
    unfold Model.client_detect.
    destruct (N.ltb_spec (blen data) 12); [apply legacy_no_panic|].
    destruct (rd32_at_some 0 data ltac:(lia)) as [t E0]. rewrite E0.
    destruct (rd32_at_some 4 data ltac:(lia)) as [nl E4]. rewrite E4.
    destruct (rd32_at_some 8 data ltac:(lia)) as [pml E8]. rewrite E8.
    destruct ((0 <? nl) && (nl <? 256) && (12 + nl + pml <=? t)); [|apply legacy_no_panic].
    pose proof (unmarshal_md_no_panic now data).
    destruct (unmarshal_md now data); [congruence | apply legacy_no_panic | discriminate].
  Qed.

  Theorem server_detect_no_panic now data : server_detect now data <> Panic.
  Proof.
    unfold Model.server_detect.
    destruct (12 <=? blen data); [|apply legacy_no_panic].
    pose proof (unmarshal_md_no_panic now data).
    destruct (unmarshal_md now data) as [| [] |]; try congruence; try discriminate. apply legacy_no_panic.
  Qed.
End FrameProofs.
