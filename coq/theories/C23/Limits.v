(* C23 — what happens OUTSIDE the limits: the encoders check no limit at all (lengths are silently
   truncated by the uint16/uint32 conversions) and the format heuristics have stated blind spots.
   Witnesses are evaluated by the kernel (vm_compute) and replayed on the real code by the harness. *)
From Coq Require Import NArith ZArith List Bool Lia.
From GV Require Import Lib.Bytes C23.Model C23.Proofs C23.Frames.
Import ListNotations.
Open Scope N_scope.

(* a 65536-byte key is written with length 0: the block still decodes, to different headers *)
Definition big_key_hdrs : list (bytes * bytes) := [(repeat 0 (N.to_nat 65536), [1])].
Theorem md_key_oversize_silent :
  md_unmarshal_wire (md_wire big_key_hdrs 5) = Ok ([([], [])], 0%Z).
Proof. vm_compute. reflexivity. Qed.

(* 65536 headers are written with count 0: the block decodes to no header at all *)
Fixpoint count_hdrs (n : nat) (i : N) : list (bytes * bytes) :=
  match n with O => [] | S k => (be32 i, []) :: count_hdrs k (i + 1) end.
Definition many_hdrs : list (bytes * bytes) := count_hdrs (N.to_nat 65536) 0.
Theorem md_count_oversize_silent :
  exists r, md_unmarshal_wire (md_wire many_hdrs 5) = Ok ([], r).
Proof. eexists. vm_compute. reflexivity. Qed.

(* the total length field is the true length modulo 2^32, whatever the true length is *)
Theorem frame_total_truncated name payload :
  rd32 (frame name payload) = Some ((4 + 4 + blen name + blen payload) mod 4294967296).
Proof. unfold frame. apply rd32_be32_mod. Qed.
Theorem frame_md_total_truncated name mb payload :
  rd32 (frame_md name mb payload) = Some ((4 + 4 + blen name + 4 + blen mb + blen payload) mod 4294967296).
Proof. unfold frame_md. apply rd32_be32_mod. Qed.

Definition all_known (_ : bytes) : bool := true.
Definition pb_id (_ p : bytes) : option bytes := Some p.

(* client heuristic: a metadata frame whose type name has 256 bytes is taken for a legacy frame *)
Definition long_name : bytes := repeat 97 256.
Definition long_name_frame : bytes := frame_md long_name (md_wire [] 0) [1; 2; 3].
Theorem client_detect_long_name_limit :
  unmarshal_md all_known bytes pb_id 0 long_name_frame = Ok (long_name, [1; 2; 3], Some {| m_hdrs := []; m_deadline := 0 |})
  /\ exists n p, client_detect all_known bytes pb_id 0 long_name_frame = Ok (n, p, None) /\ n <> long_name.
Proof.
  split; [vm_compute; reflexivity|]. eexists. eexists. split; [vm_compute; reflexivity|].
  intros H. apply (f_equal (fun l => hd 99 l)) in H. vm_compute in H. discriminate.
Qed.

(* server detection: a legacy frame whose name starts with 00 00 00 01 satisfies the metadata
   layout check; the server does not fall back and rejects a frame the legacy decoder accepts *)
Definition odd_name : bytes := [0; 0; 0; 1; 65].
Definition odd_frame : bytes := frame odd_name [9; 9; 9; 9; 9; 9; 9; 9].
Theorem server_detect_guard_needed :
  legacy all_known bytes pb_id odd_frame = Ok (odd_name, [9; 9; 9; 9; 9; 9; 9; 9], None)
  /\ server_detect all_known bytes pb_id 0 odd_frame = Err ErrMeta.
Proof. split; vm_compute; reflexivity. Qed.

(* decoders ignore bytes after the announced total length, and the metadata decoder ignores bytes
   after the deadline inside the metadata section: neither is reported as malformed *)
Theorem trailing_bytes_ignored :
  unmarshal all_known bytes pb_id (frame [65] [7] ++ [1; 2; 3]) = Ok ([65], [7])
  /\ md_unmarshal_wire (md_wire [] 0 ++ [1; 2; 3]) = Ok ([], 0%Z).
Proof. split; vm_compute; reflexivity. Qed.
