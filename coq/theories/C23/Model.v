(* C23 — executable byte-level model of goakt's wire frames (internal/net).
   Mirrors, statement by statement:
     metadata.go          Metadata.MarshalBinary / UnmarshalBinary
     proto_serializer.go  MarshalBinary[WithMetadata]To, UnmarshalBinary[WithMetadata]
     client.go            readProtoFrame, unmarshalProtoResponse (format heuristic)
     proto_server.go      handleConn (read loop + format detection)
   Every Go slice expression data[lo:hi] is the PARTIAL [slice]; an out-of-range one makes the model
   return [Panic].  Protobuf and the type registry are parameters: [known name] (FindMessageType
   succeeds) and [pb_dec name payload] (proto.Unmarshal into a fresh message of that type).
   Go's int is 64 bit (the arithmetic 12+nameLen+metaLen cannot wrap); lengths are N.          *)
From Coq Require Import NArith ZArith List Bool.
From GV Require Import Lib.Bytes.
Import ListNotations.
Open Scope N_scope.

Inductive err := ErrLen | ErrUnknown | ErrMeta | ErrPb.
Inductive res (A : Type) := Panic | Err (e : err) | Ok (a : A).
Arguments Panic {A}. Arguments Err {A} e. Arguments Ok {A} a.

(* ---------------------------------------------------------------- int64 <-> uint64 *)
Definition wrap64 (z : Z) : Z := ((z + 9223372036854775808) mod 18446744073709551616 - 9223372036854775808)%Z.
Definition u64_of_i64 (z : Z) : N := Z.to_N (z mod 18446744073709551616)%Z.
Definition i64_of_u64 (n : N) : Z := wrap64 (Z.of_N n).

(* remaining time written by MarshalBinary; deadline rebuilt by UnmarshalBinary *)
Definition remaining_of (now d : Z) : Z :=
  if (d =? 0)%Z then 0%Z else let r := wrap64 (d - now) in if (r =? 0)%Z then (-1)%Z else r.
Definition deadline_of (now r : Z) : Z := if (r =? 0)%Z then 0%Z else wrap64 (now + r).

(* ---------------------------------------------------------------- metadata *)
(* headers: the Go map enumerated in the order the runtime iterates it (environment choice) *)
Record meta := { m_hdrs : list (bytes * bytes); m_deadline : Z }.

Definition enc_kv (kv : bytes * bytes) : bytes :=
  be16 (blen (fst kv)) ++ fst kv ++ be16 (blen (snd kv)) ++ snd kv.
Definition enc_hdrs (h : list (bytes * bytes)) : bytes := concat (map enc_kv h).

(* wire form with the remaining time already computed *)
Definition md_wire (h : list (bytes * bytes)) (remaining : Z) : bytes :=
  be16 (N.of_nat (length h)) ++ enc_hdrs h ++ be64 (u64_of_i64 remaining).

Definition md_marshal (now : Z) (m : meta) : bytes :=
  md_wire (m_hdrs m) (remaining_of now (m_deadline m)).

(* one iteration of the header loop of UnmarshalBinary; [pos] is the Go variable *)
Definition md_entry (data : bytes) (pos : N) : res (N * (bytes * bytes)) :=
  if blen data <? pos + 2 then Err ErrMeta else
  match slice_from pos data with None => Panic | Some s1 =>
  match rd16 s1 with None => Panic | Some keyLen =>
  let pos := pos + 2 in
  if blen data <? pos + keyLen then Err ErrMeta else
  match slice pos (pos + keyLen) data with None => Panic | Some key =>
  let pos := pos + keyLen in
  if blen data <? pos + 2 then Err ErrMeta else
  match slice_from pos data with None => Panic | Some s2 =>
  match rd16 s2 with None => Panic | Some valLen =>
  let pos := pos + 2 in
  if blen data <? pos + valLen then Err ErrMeta else
  match slice pos (pos + valLen) data with None => Panic | Some val =>
  Ok (pos + valLen, (key, val))
  end end end end end end.

Fixpoint md_loop (count : nat) (data : bytes) (pos : N) : res (N * list (bytes * bytes)) :=
  match count with
  | O => Ok (pos, [])
  | S c =>
      match md_entry data pos with
      | Panic => Panic
      | Err e => Err e
      | Ok (pos', kv) =>
          match md_loop c data pos' with
          | Panic => Panic
          | Err e => Err e
          | Ok (p, l) => Ok (p, kv :: l)
          end
      end
  end.

(* result: headers in wire order (the Go map is the last-wins image of this list, see hdr_map) and
   the remaining time; the deadline is [deadline_of now remaining] *)
Definition md_unmarshal_wire (data : bytes) : res (list (bytes * bytes) * Z) :=
  if blen data <? 10 then Err ErrMeta else
  match slice_from 0 data with None => Panic | Some s0 =>
  match rd16 s0 with None => Panic | Some count =>
  (* every header needs at least 4 bytes: an impossible count is rejected before the map is sized *)
  if (blen data - 10) / 4 <? count then Err ErrMeta else
  match md_loop (N.to_nat count) data 2 with
  | Panic => Panic
  | Err e => Err e
  | Ok (pos, hs) =>
      if blen data <? pos + 8 then Err ErrMeta else
      match slice_from pos data with None => Panic | Some s =>
      match rd64 s with None => Panic | Some r => Ok (hs, i64_of_u64 r) end end
  end end end.

Definition md_unmarshal (now : Z) (data : bytes) : res meta :=
  match md_unmarshal_wire data with
  | Panic => Panic | Err e => Err e
  | Ok (hs, r) => Ok {| m_hdrs := hs; m_deadline := deadline_of now r |}
  end.

(* map[string]string built by successive assignment: last value wins, first position kept *)
Fixpoint hdr_set (k v : bytes) (m : list (bytes * bytes)) : list (bytes * bytes) :=
  match m with
  | [] => [(k, v)]
  | (k', v') :: r => if beq k k' then (k, v) :: r else (k', v') :: hdr_set k v r
  end.
Definition hdr_map (h : list (bytes * bytes)) : list (bytes * bytes) :=
  fold_left (fun m kv => hdr_set (fst kv) (snd kv) m) h [].

(* the capacity hint of make(map[string]string, count) — the only allocation whose size is read
   from the wire inside the metadata decoder; 0 when the decoder returns before allocating *)
Definition md_map_hint (data : bytes) : N :=
  if blen data <? 10 then 0 else
  match rd16 data with
  | Some c => if (blen data - 10) / 4 <? c then 0 else c
  | None => 0
  end.

(* ---------------------------------------------------------------- frames *)
Section Frame.
  Variable known : bytes -> bool.              (* FindMessageType(name) succeeds *)
  Variable M : Type.
  Variable pb_dec : bytes -> bytes -> option M. (* proto.Unmarshal(payload) into a new message of type name *)

  (* MarshalBinaryTo: the caller supplies name = proto.MessageName(message) and payload = its proto bytes *)
  Definition marshal (name payload : bytes) : res bytes :=
    if blen name =? 0 then Err ErrUnknown else
    Ok (be32 (4 + 4 + blen name + blen payload) ++ be32 (blen name) ++ name ++ payload).

  (* MarshalBinaryWithMetadataTo; md = None is the nil *Metadata *)
  Definition meta_bytes (now : Z) (md : option meta) : bytes :=
    match md with None => [] | Some m => md_marshal now m end.
  Definition marshal_md (now : Z) (name payload : bytes) (md : option meta) : res bytes :=
    if blen name =? 0 then Err ErrUnknown else
    let mb := meta_bytes now md in
    Ok (be32 (4 + 4 + blen name + 4 + blen mb + blen payload)
        ++ be32 (blen name) ++ be32 (blen mb) ++ name ++ mb ++ payload).

  Definition rd32_at (lo : N) (data : bytes) : option N :=
    match slice lo (lo + 4) data with Some s => rd32 s | None => None end.

  (* UnmarshalBinary *)
  Definition unmarshal (data : bytes) : res (bytes * M) :=
    if blen data <? 8 then Err ErrLen else
    match rd32_at 0 data with None => Panic | Some ml =>
    if (blen data <? ml) || (ml <? 8) then Err ErrLen else
    match rd32_at 4 data with None => Panic | Some nl =>
    if ml <? 8 + nl then Err ErrLen else
    match slice 8 (8 + nl) data with None => Panic | Some name =>
    if negb (known name) then Err ErrUnknown else
    match slice (8 + nl) ml data with None => Panic | Some payload =>
    match pb_dec name payload with None => Err ErrPb | Some m => Ok (name, m) end
    end end end end.

  (* UnmarshalBinaryWithMetadata *)
  Definition unmarshal_md (now : Z) (data : bytes) : res (bytes * M * option meta) :=
    if blen data <? 12 then Err ErrLen else
    match rd32_at 0 data with None => Panic | Some ml =>
    if (blen data <? ml) || (ml <? 12) then Err ErrLen else
    match rd32_at 4 data with None => Panic | Some nl =>
    match rd32_at 8 data with None => Panic | Some mdl =>
    if ml <? 12 + nl + mdl then Err ErrLen else
    match slice 12 (12 + nl) data with None => Panic | Some name =>
    if negb (known name) then Err ErrUnknown else
    let mdr : res (option meta) :=
      if 0 <? mdl then
        match slice (12 + nl) (12 + nl + mdl) data with
        | None => Panic
        | Some mb => match md_unmarshal now mb with Panic => Panic | Err e => Err e | Ok m => Ok (Some m) end
        end
      else Ok None in
    match mdr with Panic => Panic | Err e => Err e | Ok md =>
    match slice (12 + nl + mdl) ml data with None => Panic | Some payload =>
    match pb_dec name payload with None => Err ErrPb | Some m => Ok (name, m, md) end
    end end end end end end.

  Definition legacy (data : bytes) : res (bytes * M * option meta) :=
    match unmarshal data with Panic => Panic | Err e => Err e | Ok (n, m) => Ok (n, m, None) end.

  (* Client.unmarshalProtoResponse *)
  Definition client_detect (now : Z) (frame : bytes) : res (bytes * M * option meta) :=
    if blen frame <? 12 then legacy frame else
    match rd32_at 0 frame, rd32_at 4 frame, rd32_at 8 frame with
    | Some total, Some nl, Some pml =>
        if (0 <? nl) && (nl <? 256) && (12 + nl + pml <=? total) then
          match unmarshal_md now frame with
          | Ok r => Ok r
          | Panic => Panic
          | Err _ => legacy frame
          end
        else legacy frame
    | _, _, _ => Panic
    end.

  (* the format detection inside ProtoServer.handleConn *)
  Definition server_detect (now : Z) (frame : bytes) : res (bytes * M * option meta) :=
    if 12 <=? blen frame then
      match unmarshal_md now frame with
      | Err ErrLen => legacy frame
      | r => r
      end
    else legacy frame.

  (* ------------------------------------------------------------ readProtoFrame *)
  Inductive rf :=
  | RF_EOF                      (* no byte available for the header: io.EOF *)
  | RF_Short                    (* stream ends inside header or body *)
  | RF_ErrLen                   (* totalLen < 8 *)
  | RF_TooLarge                 (* totalLen > maxFrameSize *)
  | RF_Panic
  | RF_Frame (frame rest : bytes).

  Definition read_frame (maxsz : N) (stream : bytes) : rf :=
    match stream with [] => RF_EOF | _ =>
    match slice 0 4 stream with None => RF_Short | Some hdr =>
    match rd32 hdr with None => RF_Panic | Some total =>
    if total <? 8 then RF_ErrLen else
    if maxsz <? total then RF_TooLarge else
    match slice 0 total stream, slice_from total stream with
    | Some f, Some r => RF_Frame f r
    | _, _ => RF_Short
    end end end end.

  (* bytes requested from the allocator / pool by readProtoFrame for this stream *)
  Definition read_frame_alloc (maxsz : N) (stream : bytes) : N :=
    match slice 0 4 stream with None => 0 | Some hdr =>
    match rd32 hdr with None => 0 | Some total =>
    if total <? 8 then 0 else if maxsz <? total then 0 else total end end.

  (* capacity FramePool.Get really hands out for a request of n bytes *)
  Fixpoint pow2_ge (fuel : nat) (p n : N) : N :=
    match fuel with O => p | S f => if n <=? p then p else pow2_ge f (2 * p) n end.
  Definition pool_cap (n : N) : N :=
    if n <=? 4194304 then pow2_ge 22 256 n else n.

  (* read every frame of a stream, stopping at the first failure *)
  Fixpoint read_all (fuel : nat) (maxsz : N) (stream : bytes) : list bytes * rf :=
    match fuel with
    | O => ([], RF_Panic)
    | S f =>
        match read_frame maxsz stream with
        | RF_Frame fr rest => let '(l, e) := read_all f maxsz rest in (fr :: l, e)
        | e => ([], e)
        end
    end.

  (* handleConn: read, detect, hand to the handler; any failure closes the connection *)
  Fixpoint serve (fuel : nat) (maxsz : N) (now : Z) (stream : bytes) : list (bytes * M * option meta) :=
    match fuel with
    | O => []
    | S f =>
        match read_frame maxsz stream with
        | RF_Frame fr rest =>
            match server_detect now fr with
            | Ok r => r :: serve f maxsz now rest
            | _ => []
            end
        | _ => []
        end
    end.
End Frame.

