(* C23 — truncation, format detection, frame reader / stream splitting, allocation bound. *)
From Coq Require Import NArith ZArith List Bool Lia.
From GV Require Import Lib.Bytes C23.Model C23.Proofs C23.Frames.
Import ListNotations.
Open Scope N_scope.

Lemma firstn_app_ge {A} k (x y : list A) : (length x <= k)%nat -> firstn k (x ++ y) = x ++ firstn (k - length x) y.
Proof. intros H. rewrite firstn_app. rewrite firstn_all2 by assumption. reflexivity. Qed.

Lemma slice_some_len lo hi l s : slice lo hi l = Some s -> blen s = hi - lo /\ hi <= blen l /\ lo <= hi.
Proof.
  intros H. destruct (N.le_gt_cases lo hi) as [H1|H1]; [destruct (N.le_gt_cases hi (blen l)) as [H2|H2]|].
  - destruct (slice_in_range lo hi l H1 H2) as [s' [E L]]. rewrite E in H. injection H as <-. auto.
  - exfalso. assert (slice lo hi l = None) by (apply slice_none_iff; lia). congruence.
  - exfalso. assert (slice lo hi l = None) by (apply slice_none_iff; lia). congruence.
Qed.

Section StreamProofs.
  Variable known : bytes -> bool.
  Variable M : Type.
  Variable pb_dec : bytes -> bytes -> option M.

  Notation unmarshal := (unmarshal known M pb_dec).
  Notation unmarshal_md := (unmarshal_md known M pb_dec).
  Notation legacy := (legacy known M pb_dec).
  Notation client_detect := (client_detect known M pb_dec).
  Notation server_detect := (server_detect known M pb_dec).
  Notation serve := (serve known M pb_dec).

  (* ---------------------------------------------------------------- truncation *)
  (* any byte string that starts with a u32 length t and is shorter than t is rejected *)
  Lemma unmarshal_short t rest : t < 4294967296 -> blen (be32 t ++ rest) < t -> unmarshal (be32 t ++ rest) = Err ErrLen.
  Proof.
    intros Ht Hl. unfold Model.unmarshal.
    destruct (N.ltb_spec (blen (be32 t ++ rest)) 8); [reflexivity|].
    rewrite rd32_at_0 by assumption. rewrite (ltb_true _ t) by assumption. reflexivity.
  Qed.
  Lemma unmarshal_md_short now t rest :
    t < 4294967296 -> blen (be32 t ++ rest) < t -> unmarshal_md now (be32 t ++ rest) = Err ErrLen.
  Proof.
    intros Ht Hl. unfold Model.unmarshal_md.
    destruct (N.ltb_spec (blen (be32 t ++ rest)) 12); [reflexivity|].
    rewrite rd32_at_0 by assumption. rewrite (ltb_true _ t) by assumption. reflexivity.
  Qed.

  Lemma unmarshal_tiny data : blen data < 8 -> unmarshal data = Err ErrLen.
  Proof. intros H. unfold Model.unmarshal. rewrite ltb_true by assumption. reflexivity. Qed.
  Lemma unmarshal_md_tiny now data : blen data < 12 -> unmarshal_md now data = Err ErrLen.
  Proof. intros H. unfold Model.unmarshal_md. rewrite ltb_true by assumption. reflexivity. Qed.

  Lemma firstn_be32_app k t rest : (4 <= k)%nat -> firstn k (be32 t ++ rest) = be32 t ++ firstn (k - 4) rest.
  Proof. intros H. apply (firstn_app_ge k (be32 t) rest). rewrite length_be32. assumption. Qed.

  (* every strict prefix of an encoded frame is rejected with ErrInvalidMessageLength *)
  Theorem truncated_frame_rejected name payload k :
    8 + blen name + blen payload < 4294967296 ->
    N.of_nat k < blen (frame name payload) ->
    unmarshal (firstn k (frame name payload)) = Err ErrLen.
  Proof.
    intros Hsz Hk.
    assert (Hl : blen (firstn k (frame name payload)) = N.of_nat k) by (apply blen_firstn; lia).
    destruct (Nat.lt_ge_cases k 8) as [Hk8|Hk8]; [apply unmarshal_tiny; lia|].
    rewrite blen_frame in Hk. unfold frame in *. rewrite firstn_be32_app in * by lia.
    apply unmarshal_short; lia.
  Qed.

  Theorem truncated_frame_md_rejected now name mb payload k :
    12 + blen name + blen mb + blen payload < 4294967296 ->
    N.of_nat k < blen (frame_md name mb payload) ->
    unmarshal_md now (firstn k (frame_md name mb payload)) = Err ErrLen.
  Proof.
    intros Hsz Hk.
    assert (Hl : blen (firstn k (frame_md name mb payload)) = N.of_nat k) by (apply blen_firstn; lia).
    destruct (Nat.lt_ge_cases k 12) as [Hk8|Hk8]; [apply unmarshal_md_tiny; lia|].
    rewrite blen_frame_md in Hk. unfold frame_md in *. rewrite firstn_be32_app in * by lia.
    apply unmarshal_md_short; lia.
  Qed.

  (* ---------------------------------------------------------------- format detection *)
  (* bytes 8..12 of a legacy frame, read as the metadata length, must overshoot the frame *)
  Definition legacy_guard (name payload : bytes) : Prop :=
    forall g, rd32 (name ++ payload) = Some g -> blen payload < 4 + g.

  Lemma rd32_at_8_frame name payload :
    4 <= blen name + blen payload ->
    rd32_at 8 (frame name payload) = rd32 (name ++ payload).
  Proof.
    intros H. unfold rd32_at, frame. rewrite <- blen_app in H.
    generalize dependent (name ++ payload). intros l H.
    destruct l as [|a [|b [|c [|d r]]]]; rewrite ?blen_cons, ?blen_nil in H; try lia.
    rewrite (app_assoc (be32 _) (be32 _)).
    change (a :: b :: c :: d :: r) with ([a; b; c; d] ++ r).
    rewrite (slice_at _ [a; b; c; d] r 8 (8 + 4)); [reflexivity | rewrite blen_app, !blen_be32; lia | reflexivity].
  Qed.

  Lemma unmarshal_md_legacy_frame now name payload :
    8 + blen name + blen payload < 4294967296 -> legacy_guard name payload ->
    unmarshal_md now (frame name payload) = Err ErrLen.
  Proof.
    intros Hsz Hg. unfold Model.unmarshal_md. rewrite blen_frame.
    destruct (N.ltb_spec (8 + blen name + blen payload) 12); [reflexivity|].
    assert (R0 : rd32_at 0 (frame name payload) = Some (4 + 4 + blen name + blen payload)) by (apply rd32_at_0; lia).
    rewrite R0. rewrite (ltb_false _ (4 + 4 + blen name + blen payload)) by lia.
    rewrite (ltb_false _ 12) by lia. cbn [orb].
    assert (R4 : rd32_at 4 (frame name payload) = Some (blen name)).
    { unfold frame. apply rd32_at_app; rewrite ?blen_be32; lia. }
    rewrite R4. rewrite rd32_at_8_frame by lia.
    destruct (rd32 (name ++ payload)) as [g|] eqn:Eg.
    - specialize (Hg g Eg). rewrite ltb_true by lia. reflexivity.
    - exfalso. destruct (rd32_some (name ++ payload) ltac:(rewrite blen_app; lia)) as [v Hv]. congruence.
  Qed.

  (* server: a legacy frame is decoded by the legacy decoder *)
  Theorem server_detect_legacy now name payload :
    8 + blen name + blen payload < 4294967296 -> legacy_guard name payload ->
    server_detect now (frame name payload) = legacy (frame name payload).
  Proof.
    intros Hsz Hg. unfold Model.server_detect.
    destruct (12 <=? blen (frame name payload)); [|reflexivity].
    rewrite unmarshal_md_legacy_frame by assumption. reflexivity.
  Qed.

  (* server: a frame the metadata decoder accepts is delivered as decoded *)
  Theorem server_detect_md now f r :
    unmarshal_md now f = Ok r -> server_detect now f = Ok r.
  Proof.
    intros H. unfold Model.server_detect.
    destruct (N.leb_spec 12 (blen f)); [rewrite H; reflexivity|].
    rewrite unmarshal_md_tiny in H by assumption. discriminate.
  Qed.

  (* client: legacy frame under the guard *)
  Theorem client_detect_legacy now name payload :
    8 + blen name + blen payload < 4294967296 -> legacy_guard name payload ->
    client_detect now (frame name payload) = legacy (frame name payload).
  Proof.
    intros Hsz Hg. unfold Model.client_detect. rewrite blen_frame.
    destruct (N.ltb_spec (8 + blen name + blen payload) 12); [reflexivity|].
    assert (R0 : rd32_at 0 (frame name payload) = Some (4 + 4 + blen name + blen payload)) by (apply rd32_at_0; lia).
    assert (R4 : rd32_at 4 (frame name payload) = Some (blen name)).
    { unfold frame. apply rd32_at_app; rewrite ?blen_be32; lia. }
    rewrite R0, R4. rewrite rd32_at_8_frame by lia.
    destruct (rd32 (name ++ payload)) as [g|] eqn:Eg.
    - specialize (Hg g Eg).
      destruct (N.leb_spec (12 + blen name + g) (4 + 4 + blen name + blen payload)); [lia|].
      rewrite andb_false_r. reflexivity.
    - exfalso. destruct (rd32_some (name ++ payload) ltac:(rewrite blen_app; lia)) as [v Hv]. congruence.
  Qed.

  (* client: a metadata frame with a type name of 1..255 bytes that the metadata decoder accepts *)
  Theorem client_detect_md now name mb payload r :
    0 < blen name < 256 -> 12 + blen name + blen mb + blen payload < 4294967296 ->
    unmarshal_md now (frame_md name mb payload) = Ok r ->
    client_detect now (frame_md name mb payload) = Ok r.
  Proof.
    intros Hn Hsz H. unfold Model.client_detect. rewrite blen_frame_md.
    rewrite ltb_false by lia.
    set (T := 4 + 4 + blen name + 4 + blen mb + blen payload).
    assert (R0 : rd32_at 0 (frame_md name mb payload) = Some T) by (apply rd32_at_0; unfold T; lia).
    assert (R4 : rd32_at 4 (frame_md name mb payload) = Some (blen name)).
    { unfold frame_md. apply rd32_at_app; rewrite ?blen_be32; lia. }
    assert (R8 : rd32_at 8 (frame_md name mb payload) = Some (blen mb)).
    { unfold frame_md. rewrite (app_assoc (be32 _) (be32 (blen name))).
      apply rd32_at_app; rewrite ?blen_app, ?blen_be32; lia. }
    rewrite R0, R4, R8.
    rewrite (ltb_true 0) by lia. rewrite (ltb_true (blen name)) by lia.
    destruct (N.leb_spec (12 + blen name + blen mb) T); [|unfold T in *; lia]. cbn [andb].
    rewrite H. reflexivity.
  Qed.

  (* a sufficient, checkable condition for the guard: at least four name bytes, the first one
     non-zero, and a frame of at most 16 MiB (the default maxFrameSize) *)
  Lemma legacy_guard_ascii a b c d rest payload :
    1 <= a -> 8 + blen (a :: b :: c :: d :: rest) + blen payload <= 16777216 ->
    legacy_guard (a :: b :: c :: d :: rest) payload.
  Proof.
    intros Ha Hsz g Hg. cbn [app rd32] in Hg. injection Hg as <-.
    rewrite !blen_cons in Hsz. lia.
  Qed.

  (* ---------------------------------------------------------------- readProtoFrame *)
  Definition frame_shaped (maxsz : N) (f : bytes) : Prop :=
    exists t rest, f = be32 t ++ rest /\ blen f = t /\ 8 <= t /\ t <= maxsz /\ t < 4294967296.

  Lemma frame_is_shaped maxsz name payload :
    8 + blen name + blen payload <= maxsz -> 8 + blen name + blen payload < 4294967296 ->
    frame_shaped maxsz (frame name payload).
  Proof.
    intros H1 H2. exists (4 + 4 + blen name + blen payload), (be32 (blen name) ++ name ++ payload).
    split; [reflexivity|]. rewrite blen_frame. lia.
  Qed.
  Lemma frame_md_is_shaped maxsz name mb payload :
    12 + blen name + blen mb + blen payload <= maxsz -> 12 + blen name + blen mb + blen payload < 4294967296 ->
    frame_shaped maxsz (frame_md name mb payload).
  Proof.
    intros H1 H2. exists (4 + 4 + blen name + 4 + blen mb + blen payload), (be32 (blen name) ++ be32 (blen mb) ++ name ++ mb ++ payload).
    split; [reflexivity|]. rewrite blen_frame_md. lia.
  Qed.

  Lemma read_frame_shaped maxsz f s : frame_shaped maxsz f -> read_frame maxsz (f ++ s) = RF_Frame f s.
  Proof.
    intros (t & rest & Hf & Hl & H8 & Hmax & H32). unfold read_frame.
    destruct (f ++ s) as [|x xs] eqn:Efs.
    { exfalso. assert (blen (f ++ s) = 0) by (rewrite Efs; reflexivity). rewrite blen_app in *. lia. }
    rewrite <- Efs.
    assert (E1 : slice 0 4 (f ++ s) = Some (be32 t)).
    { rewrite Hf. rewrite <- app_assoc. apply (slice_at [] (be32 t) (rest ++ s)); reflexivity. }
    rewrite E1. rewrite rd32_be32' by assumption.
    rewrite ltb_false by lia. rewrite ltb_false by lia.
    assert (E2 : slice 0 t (f ++ s) = Some f) by (apply (slice_at [] f s); [reflexivity | lia]).
    assert (E3 : slice_from t (f ++ s) = Some s) by (apply slice_from_app; lia).
    rewrite E2, E3. reflexivity.
  Qed.

  Lemma read_frame_nil maxsz : read_frame maxsz [] = RF_EOF.
  Proof. reflexivity. Qed.

  (* concatenated frames are read back one by one, in order, and the reader ends with a clean EOF *)
  Theorem read_all_concat maxsz fs : forall fuel,
    Forall (frame_shaped maxsz) fs -> (length fs < fuel)%nat ->
    read_all fuel maxsz (concat fs) = (fs, RF_EOF).
  Proof.
    induction fs as [|f fs IH]; intros fuel Hok Hfuel.
    - destruct fuel; [lia|]. reflexivity.
    - destruct fuel; [cbn in Hfuel; lia|]. inversion Hok; subst. cbn [concat read_all].
      rewrite read_frame_shaped by assumption. rewrite IH; [reflexivity | assumption | cbn in Hfuel; lia].
  Qed.

  (* the same with arbitrary trailing bytes: the frames before them are unaffected *)
  Theorem read_all_concat_then maxsz fs tail : forall fuel,
    Forall (frame_shaped maxsz) fs -> (length fs <= fuel)%nat ->
    read_all fuel maxsz (concat fs ++ tail) =
      (fs ++ fst (read_all (fuel - length fs) maxsz tail), snd (read_all (fuel - length fs) maxsz tail)).
  Proof.
    induction fs as [|f fs IH]; intros fuel Hok Hfuel.
    - cbn [concat app length]. rewrite Nat.sub_0_r. destruct (read_all fuel maxsz tail); reflexivity.
    - destruct fuel; [cbn in Hfuel; lia|]. inversion Hok; subst. cbn [concat read_all length].
      rewrite <- app_assoc. rewrite read_frame_shaped by assumption.
      rewrite IH by (try assumption; cbn in Hfuel; lia). cbn [Nat.sub]. reflexivity.
  Qed.

  (* the server loop hands every frame of a well-formed stream to its handler, in order *)
  Theorem serve_concat maxsz now : forall fs rs fuel,
    Forall2 (fun f r => frame_shaped maxsz f /\ server_detect now f = Ok r) fs rs ->
    (length fs < fuel)%nat ->
    serve fuel maxsz now (concat fs) = rs.
  Proof.
    induction fs as [|f fs IH]; intros rs fuel H Hfuel; inversion H; subst.
    - destruct fuel; [lia|]. reflexivity.
    - destruct fuel; [cbn in Hfuel; lia|]. cbn [concat Model.serve].
      destruct H2 as [Hs Hd]. rewrite read_frame_shaped by assumption. rewrite Hd.
      f_equal. apply IH; [assumption | cbn in Hfuel; lia].
  Qed.

  (* ---------------------------------------------------------------- rejections and allocation *)
  Lemma read_frame_hdr maxsz t rest :
    t < 4294967296 ->
    read_frame maxsz (be32 t ++ rest) =
      if t <? 8 then RF_ErrLen else if maxsz <? t then RF_TooLarge else
      match slice 0 t (be32 t ++ rest), slice_from t (be32 t ++ rest) with
      | Some f, Some r => RF_Frame f r
      | _, _ => RF_Short
      end.
  Proof.
    intros H32. unfold read_frame. destruct (be32 t ++ rest) as [|x xs] eqn:E; [discriminate E|].
    rewrite <- E. assert (E1 : slice 0 4 (be32 t ++ rest) = Some (be32 t)) by (apply (slice_at [] (be32 t) rest); reflexivity).
    rewrite E1. rewrite rd32_be32' by assumption. reflexivity.
  Qed.

  Theorem read_frame_oversize maxsz t rest :
    t < 4294967296 -> maxsz < t -> 8 <= t -> read_frame maxsz (be32 t ++ rest) = RF_TooLarge.
  Proof.
    intros H32 Hm H8. rewrite read_frame_hdr by assumption.
    rewrite ltb_false by lia. rewrite ltb_true by lia. reflexivity.
  Qed.

  Theorem read_frame_undersize maxsz t rest :
    t < 8 -> read_frame maxsz (be32 t ++ rest) = RF_ErrLen.
  Proof.
    intros H8. rewrite read_frame_hdr by lia. rewrite ltb_true by lia. reflexivity.
  Qed.

  (* a stream that ends inside a frame yields an error, never a frame *)
  Theorem read_frame_truncated maxsz t rest :
    t < 4294967296 -> blen (be32 t ++ rest) < t ->
    exists e, read_frame maxsz (be32 t ++ rest) = e /\ (e = RF_ErrLen \/ e = RF_TooLarge \/ e = RF_Short).
  Proof.
    intros H32 Hl. rewrite read_frame_hdr by assumption.
    destruct (t <? 8); [eexists; split; [reflexivity|auto]|].
    destruct (maxsz <? t); [eexists; split; [reflexivity|auto]|].
    assert (E : slice 0 t (be32 t ++ rest) = None) by (apply slice_none_iff; lia).
    rewrite E. eexists; split; [reflexivity|auto].
  Qed.

  (* for EVERY stream, the buffer readProtoFrame requests is at most maxFrameSize bytes *)
  Theorem read_frame_alloc_bound maxsz stream : read_frame_alloc maxsz stream <= maxsz.
  Proof.
    unfold read_frame_alloc. destruct (slice 0 4 stream); [|lia]. destruct (rd32 b); [|lia].
    destruct (n <? 8); [lia|]. destruct (N.ltb_spec maxsz n); lia.
  Qed.

  (* and a frame is only returned when the allocation was requested for exactly its length *)
  Theorem read_frame_len maxsz stream f r : read_frame maxsz stream = RF_Frame f r -> blen f <= maxsz /\ 8 <= blen f.
  Proof.
    unfold read_frame. destruct stream as [|x xs]; [discriminate|].
    destruct (slice 0 4 (x :: xs)); [|discriminate]. destruct (rd32 b) as [t|]; [|discriminate].
    destruct (N.ltb_spec t 8); [discriminate|]. destruct (N.ltb_spec maxsz t); [discriminate|].
    destruct (slice 0 t (x :: xs)) as [f'|] eqn:E; [|discriminate].
    destruct (slice_from t (x :: xs)); [|discriminate]. intros Hf. injection Hf as <- <-.
    apply slice_some_len in E. lia.
  Qed.

  (* read_frame never panics *)
  Theorem read_frame_no_panic maxsz stream : read_frame maxsz stream <> RF_Panic.
  Proof.
    unfold read_frame. destruct stream as [|x xs]; [discriminate|].
    destruct (slice 0 4 (x :: xs)) as [h|] eqn:E; [|discriminate].
    assert (Hh : 4 <= blen h) by (apply slice_some_len in E; lia).
    destruct (rd32_some h Hh) as [t Et]. rewrite Et.
    destruct (t <? 8); [discriminate|]. destruct (maxsz <? t); [discriminate|].
    destruct (slice 0 t (x :: xs)); [|discriminate]. destruct (slice_from t (x :: xs)); discriminate.
  Qed.

  (* FramePool.Get rounds small requests up to a power of two: less than twice the request (or 256) *)
  Lemma pow2_ge_bound fuel : forall p n, p <= N.max 256 (2 * n) -> pow2_ge fuel p n <= N.max 256 (2 * n).
  Proof.
    induction fuel as [|f IH]; intros p n Hp; cbn [pow2_ge]; [assumption|].
    destruct (N.leb_spec n p); [assumption|]. apply IH. lia.
  Qed.
  Theorem pool_cap_bound n : pool_cap n <= N.max 256 (2 * n).
  Proof.
    unfold pool_cap. destruct (n <=? 4194304); [apply pow2_ge_bound|]; lia.
  Qed.
End StreamProofs.
