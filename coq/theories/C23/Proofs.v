(* C23 — proofs about the wire-frame model (C23/Model.v). *)
From Coq Require Import NArith ZArith List Bool Lia.
From GV Require Import Lib.Bytes C23.Model.
Import ListNotations.
Open Scope N_scope.

(* ------------------------------------------------------------------ small tools *)
Lemma ltb_false a b : b <= a -> (a <? b) = false.
Proof. intros. apply N.ltb_ge. assumption. Qed.
Lemma ltb_true a b : a < b -> (a <? b) = true.
Proof. intros. apply N.ltb_lt. assumption. Qed.

Lemma slice_at x y z lo hi : blen x = lo -> lo + blen y = hi -> slice lo hi (x ++ y ++ z) = Some y.
Proof. intros <- <-. apply slice_app_mid; reflexivity. Qed.

Lemma slice_at_end x y lo hi : blen x = lo -> lo + blen y = hi -> slice lo hi (x ++ y) = Some y.
Proof. intros H1 H2. rewrite <- (app_nil_r y) at 1. apply slice_at; assumption. Qed.

Lemma rd32_be32' n : n < 4294967296 -> rd32 (be32 n) = Some n.
Proof. intros H. rewrite <- (app_nil_r (be32 n)). apply rd32_be32. assumption. Qed.

Lemma rd32_at_app x n r lo : blen x = lo -> n < 4294967296 -> rd32_at lo (x ++ be32 n ++ r) = Some n.
Proof.
  intros Hx Hn. unfold rd32_at. rewrite (slice_at x (be32 n) r lo (lo + 4)); auto. apply rd32_be32'; assumption.
Qed.

Lemma rd32_at_0 n r : n < 4294967296 -> rd32_at 0 (be32 n ++ r) = Some n.
Proof. intros. apply (rd32_at_app [] n r 0); auto. Qed.

Lemma rd32_at_some lo data : lo + 4 <= blen data -> exists v, rd32_at lo data = Some v.
Proof.
  intros H. unfold rd32_at. destruct (slice_in_range lo (lo + 4) data ltac:(lia) H) as [s [Hs Hl]].
  rewrite Hs. apply rd32_some. lia.
Qed.

Lemma blen_firstn k (l : bytes) : N.of_nat k <= blen l -> blen (firstn k l) = N.of_nat k.
Proof. unfold blen. intros H. rewrite firstn_length. lia. Qed.

(* ------------------------------------------------------------------ int64 *)
Definition in_i64 (z : Z) : Prop := (-9223372036854775808 <= z <= 9223372036854775807)%Z.

Lemma wrap64_id z : in_i64 z -> wrap64 z = z.
Proof. unfold in_i64, wrap64. intros H. rewrite Z.mod_small; lia. Qed.

Lemma wrap64_range z : in_i64 (wrap64 z).
Proof.
  unfold in_i64, wrap64.
  pose proof (Z.mod_pos_bound (z + 9223372036854775808) 18446744073709551616 ltac:(lia)). lia.
Qed.

Lemma i64_u64_roundtrip z : in_i64 z -> i64_of_u64 (u64_of_i64 z) = z.
Proof.
  unfold in_i64, i64_of_u64, u64_of_i64, wrap64. intros H.
  pose proof (Z.mod_pos_bound z 18446744073709551616 ltac:(lia)).
  rewrite Z2N.id by lia.
  destruct (Z_lt_le_dec z 0).
  - replace (z mod 18446744073709551616)%Z with (z + 18446744073709551616)%Z.
    2:{ apply (Z.mod_unique _ _ (-1)); lia. }
    replace (z + 18446744073709551616 + 9223372036854775808)%Z with (z + 9223372036854775808 + 1 * 18446744073709551616)%Z by lia.
    rewrite Z.mod_add by lia. rewrite Z.mod_small; lia.
  - rewrite (Z.mod_small z) by lia. rewrite Z.mod_small; lia.
Qed.

Lemma u64_of_i64_bound z : u64_of_i64 z < 18446744073709551616.
Proof.
  unfold u64_of_i64. pose proof (Z.mod_pos_bound z 18446744073709551616 ltac:(lia)). lia.
Qed.

Lemma remaining_in_i64 now d : in_i64 (remaining_of now d).
Proof.
  unfold remaining_of. destruct (d =? 0)%Z; [unfold in_i64; lia|].
  cbv zeta. destruct (wrap64 (d - now) =? 0)%Z; [unfold in_i64; lia|]. apply wrap64_range.
Qed.

(* the deadline a receiver reconstructs: shifted by the two clock readings, one nanosecond earlier
   in the single case where the sender read exactly the deadline instant *)
Lemma deadline_roundtrip now now' d :
  in_i64 (d - now) -> in_i64 (d + (now' - now) - 1) -> in_i64 (d + (now' - now)) ->
  deadline_of now' (remaining_of now d) =
    if (d =? 0)%Z then 0%Z else if (d =? now)%Z then (d + (now' - now) - 1)%Z else (d + (now' - now))%Z.
Proof.
  intros H1 H2 H3. unfold remaining_of, deadline_of.
  destruct (Z.eqb_spec d 0) as [->|Hd]; [reflexivity|]. cbv zeta.
  rewrite (wrap64_id (d - now)) by assumption.
  destruct (Z.eqb_spec (d - now) 0) as [E|E]; destruct (Z.eqb_spec d now) as [E'|E']; try lia.
  - cbn. subst. replace (now' + -1)%Z with (now + (now' - now) - 1)%Z by lia. apply wrap64_id. assumption.
  - destruct (Z.eqb_spec (d - now) 0); [lia|]. replace (now' + (d - now))%Z with (d + (now' - now))%Z by lia.
    apply wrap64_id. assumption.
Qed.

(* ------------------------------------------------------------------ metadata round trip *)
Definition kv_ok (kv : bytes * bytes) : Prop := blen (fst kv) < 65536 /\ blen (snd kv) < 65536.

Lemma blen_enc_kv kv : blen (enc_kv kv) = 4 + blen (fst kv) + blen (snd kv).
Proof. unfold enc_kv. rewrite !blen_app, !blen_be16. lia. Qed.

Lemma slice_from_0 data : slice_from 0 data = Some data.
Proof. unfold slice_from. destruct (N.leb_spec 0 (blen data)); [reflexivity|lia]. Qed.

Lemma md_entry_enc pre kv rest :
  kv_ok kv ->
  md_entry (pre ++ enc_kv kv ++ rest) (blen pre) = Ok (blen pre + blen (enc_kv kv), kv).
Proof.
  destruct kv as [k v]. intros [Hk Hv]. cbn [fst snd] in *.
  set (data := pre ++ enc_kv (k, v) ++ rest).
  assert (Hlen : blen data = blen pre + (4 + blen k + blen v) + blen rest).
  { unfold data. rewrite !blen_app, blen_enc_kv. cbn [fst snd]. lia. }
  unfold md_entry. rewrite ltb_false by lia.
  assert (E1 : slice_from (blen pre) data = Some (be16 (blen k) ++ k ++ be16 (blen v) ++ v ++ rest)).
  { unfold data, enc_kv. cbn [fst snd]. rewrite <- !app_assoc. apply slice_from_app. reflexivity. }
  rewrite E1. rewrite rd16_be16 by assumption. cbv zeta.
  rewrite ltb_false by lia.
  assert (E2 : slice (blen pre + 2) (blen pre + 2 + blen k) data = Some k).
  { unfold data, enc_kv. cbn [fst snd]. rewrite <- !app_assoc.
    rewrite (app_assoc pre (be16 (blen k))). apply slice_at; rewrite ?blen_app, ?blen_be16; lia. }
  rewrite E2. rewrite ltb_false by lia.
  assert (E3 : slice_from (blen pre + 2 + blen k) data = Some (be16 (blen v) ++ v ++ rest)).
  { unfold data, enc_kv. cbn [fst snd]. rewrite <- !app_assoc.
    rewrite (app_assoc pre (be16 (blen k))). rewrite (app_assoc (pre ++ be16 (blen k)) k).
    apply slice_from_app. rewrite !blen_app, blen_be16. lia. }
  rewrite E3. rewrite rd16_be16 by assumption. rewrite ltb_false by lia.
  assert (E4 : slice (blen pre + 2 + blen k + 2) (blen pre + 2 + blen k + 2 + blen v) data = Some v).
  { unfold data, enc_kv. cbn [fst snd]. rewrite <- !app_assoc.
    rewrite (app_assoc pre (be16 (blen k))). rewrite (app_assoc (pre ++ be16 (blen k)) k).
    rewrite (app_assoc ((pre ++ be16 (blen k)) ++ k) (be16 (blen v))).
    apply slice_at; rewrite ?blen_app, ?blen_be16; lia. }
  rewrite E4. f_equal. f_equal. rewrite blen_enc_kv. cbn [fst snd]. lia.
Qed.

Lemma blen_enc_hdrs_cons kv h : enc_hdrs (kv :: h) = enc_kv kv ++ enc_hdrs h.
Proof. reflexivity. Qed.

Lemma md_loop_enc h : forall pre rest,
  Forall kv_ok h ->
  md_loop (length h) (pre ++ enc_hdrs h ++ rest) (blen pre) = Ok (blen pre + blen (enc_hdrs h), h).
Proof.
  induction h as [|kv h IH]; intros pre rest Hok.
  - cbn. rewrite N.add_0_r. reflexivity.
  - inversion Hok as [|? ? Hkv Hrest]; subst. cbn [length md_loop].
    rewrite blen_enc_hdrs_cons. rewrite <- app_assoc.
    rewrite md_entry_enc by assumption.
    rewrite (app_assoc pre (enc_kv kv)).
    replace (blen pre + blen (enc_kv kv)) with (blen (pre ++ enc_kv kv)) by (rewrite blen_app; reflexivity).
    rewrite IH by assumption. rewrite !blen_app. f_equal. f_equal. lia.
Qed.

Lemma blen_enc_hdrs_ge h : Forall kv_ok h -> 4 * N.of_nat (length h) <= blen (enc_hdrs h).
Proof.
  induction h as [|kv h IH]; intros Hok; [cbn; lia|].
  inversion Hok; subst. rewrite blen_enc_hdrs_cons, blen_app, blen_enc_kv. cbn [length].
  specialize (IH H2). lia.
Qed.

Theorem md_roundtrip_wire h r :
  N.of_nat (length h) < 65536 -> Forall kv_ok h -> in_i64 r ->
  md_unmarshal_wire (md_wire h r) = Ok (h, r).
Proof.
  intros Hn Hok Hr. unfold md_unmarshal_wire, md_wire.
  set (n := N.of_nat (length h)) in *. set (u := u64_of_i64 r).
  assert (Hlen : blen (be16 n ++ enc_hdrs h ++ be64 u) = 2 + blen (enc_hdrs h) + 8).
  { rewrite !blen_app, blen_be16, blen_be64. lia. }
  rewrite ltb_false by lia. rewrite slice_from_0. rewrite rd16_be16 by assumption.
  rewrite Hlen. pose proof (blen_enc_hdrs_ge h Hok) as Hge. fold n in Hge.
  rewrite (ltb_false _ n) by (apply N.div_le_lower_bound; lia).
  replace (N.to_nat n) with (length h) by (unfold n; lia).
  change 2 with (blen (be16 n)) at 1.
  rewrite md_loop_enc by assumption.
  rewrite blen_be16. rewrite ltb_false by lia.
  assert (E : slice_from (2 + blen (enc_hdrs h)) (be16 n ++ enc_hdrs h ++ be64 u) = Some (be64 u)).
  { rewrite app_assoc. apply slice_from_app. rewrite blen_app, blen_be16. reflexivity. }
  rewrite E. rewrite <- (app_nil_r (be64 u)). rewrite rd64_be64 by apply u64_of_i64_bound.
  unfold u. rewrite i64_u64_roundtrip by assumption. reflexivity.
Qed.

Theorem md_roundtrip now now' m :
  N.of_nat (length (m_hdrs m)) < 65536 -> Forall kv_ok (m_hdrs m) ->
  md_unmarshal now' (md_marshal now m) =
    Ok {| m_hdrs := m_hdrs m; m_deadline := deadline_of now' (remaining_of now (m_deadline m)) |}.
Proof.
  intros H1 H2. unfold md_unmarshal, md_marshal.
  rewrite md_roundtrip_wire by (auto using remaining_in_i64). reflexivity.
Qed.

(* a Go map has distinct keys; enumerated in any order and decoded, assignment-by-assignment rebuilding
   gives back exactly that enumeration, i.e. the same map *)
Lemma hdr_set_fresh k v m : ~ In k (map fst m) -> hdr_set k v m = m ++ [(k, v)].
Proof.
  induction m as [|[k' v'] m IH]; cbn; intros H; [reflexivity|].
  destruct (beq k k') eqn:E.
  - apply beq_spec in E. subst. exfalso. apply H. left. reflexivity.
  - rewrite IH; [reflexivity|]. intros Hin. apply H. right. assumption.
Qed.

Lemma hdr_map_nodup_aux h : forall acc,
  NoDup (map fst (acc ++ h)) ->
  fold_left (fun m kv => hdr_set (fst kv) (snd kv) m) h acc = acc ++ h.
Proof.
  induction h as [|[k v] h IH]; intros acc Hnd; cbn [fold_left].
  - rewrite app_nil_r. reflexivity.
  - cbn [fst snd]. rewrite hdr_set_fresh.
    + rewrite IH; rewrite <- app_assoc; cbn [app]; [reflexivity | assumption].
    + rewrite map_app in Hnd. cbn [map fst] in Hnd. apply NoDup_remove_2 in Hnd.
      intros Hin. apply Hnd. apply in_or_app. left. assumption.
Qed.

Lemma hdr_map_nodup h : NoDup (map fst h) -> hdr_map h = h.
Proof. intros H. unfold hdr_map. apply (hdr_map_nodup_aux h []). assumption. Qed.

(* ------------------------------------------------------------------ metadata decoder: total robustness *)
Lemma slice_from_some lo data : lo <= blen data -> exists s, slice_from lo data = Some s /\ blen s = blen data - lo.
Proof. apply slice_from_in_range. Qed.

Lemma md_entry_no_panic data pos : md_entry data pos <> Panic.
Proof.
  unfold md_entry.
  destruct (N.ltb_spec (blen data) (pos + 2)); [discriminate|].
  destruct (slice_from_some pos data ltac:(lia)) as [s1 [E1 L1]]. rewrite E1.
  destruct (rd16_some s1 ltac:(lia)) as [kl Ekl]. rewrite Ekl. cbv zeta.
  destruct (N.ltb_spec (blen data) (pos + 2 + kl)); [discriminate|].
  destruct (slice_in_range (pos + 2) (pos + 2 + kl) data ltac:(lia) ltac:(lia)) as [key [E2 _]]. rewrite E2.
  destruct (N.ltb_spec (blen data) (pos + 2 + kl + 2)); [discriminate|].
  destruct (slice_from_some (pos + 2 + kl) data ltac:(lia)) as [s2 [E3 L3]]. rewrite E3.
  destruct (rd16_some s2 ltac:(lia)) as [vl Evl]. rewrite Evl.
  destruct (N.ltb_spec (blen data) (pos + 2 + kl + 2 + vl)); [discriminate|].
  destruct (slice_in_range (pos + 2 + kl + 2) (pos + 2 + kl + 2 + vl) data ltac:(lia) ltac:(lia)) as [val [E4 _]].
  rewrite E4. discriminate.
Qed.

Lemma md_loop_no_panic count : forall data pos, md_loop count data pos <> Panic.
Proof.
  induction count as [|c IH]; intros data pos; cbn [md_loop]; [discriminate|].
  pose proof (md_entry_no_panic data pos) as Hn.
  destruct (md_entry data pos) as [| e | [pos' kv]]; [congruence | discriminate |].
  pose proof (IH data pos') as Hn'.
  destruct (md_loop c data pos') as [| e | [p l]]; [congruence | discriminate | discriminate].
Qed.

Theorem md_unmarshal_wire_no_panic data : md_unmarshal_wire data <> Panic.
Proof.
  unfold md_unmarshal_wire.
  destruct (N.ltb_spec (blen data) 10); [discriminate|].
  rewrite slice_from_0. destruct (rd16_some data ltac:(lia)) as [c Ec]. rewrite Ec.
  destruct ((blen data - 10) / 4 <? c); [discriminate|].
  pose proof (md_loop_no_panic (N.to_nat c) data 2) as Hn.
  destruct (md_loop (N.to_nat c) data 2) as [| e | [pos hs]]; [congruence | discriminate |].
  destruct (N.ltb_spec (blen data) (pos + 8)); [discriminate|].
  destruct (slice_from_some pos data ltac:(lia)) as [s [E L]]. rewrite E.
  destruct (rd64_some s ltac:(lia)) as [r Er]. rewrite Er. discriminate.
Qed.

Theorem md_unmarshal_no_panic now data : md_unmarshal now data <> Panic.
Proof.
  unfold md_unmarshal. pose proof (md_unmarshal_wire_no_panic data).
  destruct (md_unmarshal_wire data) as [| e | [hs r]]; [congruence | discriminate | discriminate].
Qed.

(* the map capacity hint taken from the wire is proportional to the input: four bytes per entry *)
Theorem md_map_hint_bound data : 10 + 4 * md_map_hint data <= N.max 10 (blen data).
Proof.
  unfold md_map_hint. destruct (N.ltb_spec (blen data) 10); [lia|].
  destruct (rd16 data) as [c|]; [|lia].
  destruct (N.ltb_spec ((blen data - 10) / 4) c); [lia|].
  pose proof (N.mul_div_le (blen data - 10) 4 ltac:(lia)). nia.
Qed.

(* strict prefixes of a metadata block are rejected *)
Lemma md_short_rejected data : blen data < 10 -> md_unmarshal_wire data = Err ErrMeta.
Proof. intros H. unfold md_unmarshal_wire. rewrite ltb_true by assumption. reflexivity. Qed.
