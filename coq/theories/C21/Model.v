(* C21 model: the router's routing strategies as executable functions.
   Round robin uses the index / next-cursor definitions that goq regenerates from
   actor/router.go routeByStrategy (Gen/C21.v).  Routees and ring members are abstract
   identifiers (nat); the hasher is a function argument (any hasher). *)
From Coq Require Import ZArith List Bool.
From GV Require Import Lib.GoInt Gen.C21.
Import ListNotations.
Open Scope Z_scope.

(* ---------- round robin: field roundRobinNext; the routees slice is handed in per message ---------- *)
Inductive rt_op :=
| RtRoute (routees : list nat)   (* routeByStrategy(ctx, msg, routees) under RoundRobinRouting *)
| RtPreset (c : Z).              (* harness only: the cursor field holds an arbitrary uint32 *)

(* one routed message: new cursor and the routee told (None: the Go code panics, nothing is sent) *)
Definition rt_route (cursor : Z) (routees : list nat) : Z * option nat :=
  let n := Z.of_nat (length routees) in
  let idx := router_rr_index n cursor in
  let c' := router_rr_next n cursor in
  if (0 <=? idx) && (idx <? n) then (c', nth_error routees (Z.to_nat idx)) else (c', None).

Definition rt_step (cursor : Z) (op : rt_op) : Z * option (option nat) :=
  match op with
  | RtRoute rs => let (c', o) := rt_route cursor rs in (c', Some o)
  | RtPreset c => (c, None)
  end.

(* trace: per op the routees slice in force, who was told, the cursor afterwards *)
Fixpoint rt_run (cursor : Z) (ops : list rt_op) : list (list nat * option (option nat) * Z) :=
  match ops with
  | [] => []
  | op :: ops' =>
      let (c', o) := rt_step cursor op in
      (match op with RtRoute rs => rs | RtPreset _ => [] end, o, c') :: rt_run c' ops'
  end.

(* k messages through a fixed slice *)
Fixpoint rt_routes (cursor : Z) (routees : list nat) (k : nat) : Z * list (option nat) :=
  match k with
  | O => (cursor, [])
  | S k' => let (c1, outs) := rt_routes cursor routees k' in
            let (c2, o) := rt_route c1 routees in (c2, outs ++ [o])
  end.

(* ---------- fan-out: `for _, routee := range routees { go sender.Tell(routee, msg) }` ---------- *)
Definition fanout (routees : list nat) : list nat := map (fun r => r) routees.

(* availableRoutees: iterate routeesMap (Go map order = the oracle `order`, a permutation of the
   entries); a routee that is not running is deleted from the map and skipped
   (fixes/C21-dead-routee.diff), and the hash ring is rebuilt from the routees that are left. *)
Definition available (order : list (nat * bool)) : list nat * list (nat * bool) :=
  let live := filter (fun e => snd e) order in (map fst live, live).

(* before the repair the routee just deleted was still appended to the slice handed out *)
Definition available_unrepaired (order : list (nat * bool)) : list nat * list (nat * bool) :=
  (map fst order, filter (fun e => snd e) order).

(* ---------- the routee pool under failures ----------
   Each routee actor is running, suspended (it failed and waits for the router's decision) or stopped.
   The router's routeesMap is pruned by availableRoutees on every Broadcast (every routee that is not
   running is dropped) and updated when the router handles a routee's failure signal:
   restart / resume put the routee back (handleRestartRoutee, handleResumeRoutee as repaired by
   fixes/C21-resumed-routee.diff), stop removes it.  Every op is one turn of the router actor or one
   step of a routee, so a history is any interleaving of them. *)
Inductive rstatus := RRunning | RSuspended | RStopped.
Inductive directive := DRestart | DResume | DStop | DResumeUnrepaired.
Inductive pool_op :=
| PFail (r : nat)                       (* routee r fails: it suspends itself, the signal is on its way *)
| PStopOutside (r : nat)                (* routee r is stopped from outside the router *)
| PBroadcast                            (* the router handles a Broadcast: availableRoutees, then fan-out *)
| PSignal (r : nat) (d : directive).    (* the router handles r's failure signal under directive d *)

Record pool := mkPool { p_status : nat -> rstatus; p_map : list nat }.

Definition is_running (st : nat -> rstatus) (r : nat) : bool :=
  match st r with RRunning => true | _ => false end.
Definition set_status (st : nat -> rstatus) (r : nat) (v : rstatus) : nat -> rstatus :=
  fun x => if Nat.eqb x r then v else st x.
Definition map_add (r : nat) (m : list nat) : list nat := if existsb (Nat.eqb r) m then m else r :: m.
Definition map_del (r : nat) (m : list nat) : list nat := filter (fun x => negb (Nat.eqb x r)) m.

(* new pool and, for a Broadcast, the routees the message is told to *)
Definition pool_step (p : pool) (op : pool_op) : pool * option (list nat) :=
  match op with
  | PFail r => (mkPool (if is_running (p_status p) r then set_status (p_status p) r RSuspended else p_status p) (p_map p), None)
  | PStopOutside r => (mkPool (set_status (p_status p) r RStopped) (p_map p), None)
  | PBroadcast => let live := filter (is_running (p_status p)) (p_map p) in (mkPool (p_status p) live, Some (fanout live))
  | PSignal r DRestart | PSignal r DResume =>
      (match p_status p r with
       | RSuspended => mkPool (set_status (p_status p) r RRunning) (map_add r (p_map p))
       | _ => p
       end, None)
  | PSignal r DResumeUnrepaired =>
      (match p_status p r with
       | RSuspended => mkPool (set_status (p_status p) r RRunning) (p_map p)
       | _ => p
       end, None)
  | PSignal r DStop => (mkPool (set_status (p_status p) r RStopped) (map_del r (p_map p)), None)
  end.

Fixpoint pool_run (p : pool) (ops : list pool_op) : pool :=
  match ops with [] => p | op :: ops' => pool_run (fst (pool_step p op)) ops' end.

Definition pool_init (children : list nat) : pool := mkPool (fun _ => RRunning) children.

(* ---------- consistent-hash ring ---------- *)
Section Ring.
  Variable hv : nat -> nat -> Z.     (* hv m i = hasher.HashCode("<member m>#<i>") *)
  Variable vn : nat.                 (* virtual nodes per member *)

  (* the (hash, member) pairs in the order `set` inserts them *)
  Definition ring_entries (members : list nat) : list (Z * nat) :=
    flat_map (fun m => map (fun i => (hv m i, m)) (seq 0 vn)) members.

  Fixpoint insert_sorted (x : Z) (l : list Z) : list Z :=
    match l with
    | [] => [x]
    | y :: l' => if x <=? y then x :: y :: l' else y :: insert_sorted x l'
    end.
  Fixpoint sortZ (l : list Z) : list Z :=
    match l with [] => [] | x :: l' => insert_sorted x (sortZ l') end.

  Record ring_state := mkRing { ring_keys : list Z; ring_map : list (Z * nat) }.

  (* set(members): r.ring[h] = member for every vnode in order (a later write wins), keys sorted *)
  Definition ring_set (members : list nat) : ring_state :=
    let es := ring_entries members in mkRing (sortZ (map fst es)) es.

  (* r.ring[k]: the last write to k *)
  Definition ring_get (es : list (Z * nat)) (k : Z) : option nat :=
    match find (fun e => fst e =? k) (rev es) with Some e => Some (snd e) | None => None end.

  (* lookup(key) with h = hasher.HashCode(key): idx = sort.Search(len, keys[i] >= h) — the first key
     >= h since keys is sorted — wrapping to index 0; then r.ring[keys[idx]].  None = "" (empty ring) *)
  Definition ring_lookup (r : ring_state) (h : Z) : option nat :=
    match ring_keys r with
    | [] => None
    | k0 :: _ =>
        let k := match find (fun k => h <=? k) (ring_keys r) with Some k => k | None => k0 end in
        ring_get (ring_map r) k
    end.
End Ring.

(* routeByConsistentHash: the ring's owner when it is a running routee of the map, otherwise the
   routee the random fallback picks (rnd is the value rand.IntN(len(routees)) returned) *)
Definition ch_route (owner : option nat) (running : nat -> bool) (routees : list nat) (rnd : nat) : option nat :=
  match owner with
  | Some o => if running o then Some o else nth_error routees rnd
  | None => nth_error routees rnd
  end.
