(* C21 proofs, part 1: round robin (over the goq-generated definitions) and fan-out. *)
From Coq Require Import ZArith Lia List Bool Permutation.
From GV Require Import Lib.GoInt Lib.RRCursor Gen.C21 C21.Model.
Import ListNotations.
Open Scope Z_scope.

(* ------------------------------------------------------------------ generated definitions *)
Lemma rem_is_mod a b : 0 <= a -> 0 < b -> go_rem a b = a mod b.
Proof. intros. unfold go_rem. apply Z.rem_mod_nonneg; lia. Qed.

Lemma u32_small x n : 0 <= x <= n -> n <= max_u32 -> u32 x = x.
Proof. intros. apply u32_id. unfold in_u32. lia. Qed.

Lemma router_rr_index_char n c : pool_size_ok n -> in_u32 c -> router_rr_index n c = c mod n.
Proof.
  intros [Hn0 Hn1] Hc. unfold router_rr_index. cbv zeta.
  rewrite (u32_small n n) by lia.
  assert (0 <= c) by (unfold in_u32 in Hc; lia).
  rewrite (rem_is_mod c n) by lia.
  pose proof (Z.mod_pos_bound c n Hn0).
  apply (u32_small _ n); lia.
Qed.

Lemma router_rr_next_char n c : pool_size_ok n -> in_u32 c -> router_rr_next n c = (c mod n + 1) mod n.
Proof.
  intros [Hn0 Hn1] Hc. unfold router_rr_next. cbv zeta.
  rewrite (u32_small n n) by lia.
  assert (0 <= c) by (unfold in_u32 in Hc; lia).
  rewrite (rem_is_mod c n) by lia.
  pose proof (Z.mod_pos_bound c n Hn0).
  rewrite (u32_small (c mod n) n) by lia.
  rewrite (u32_small (c mod n + 1) n) by lia.
  rewrite (rem_is_mod (c mod n + 1) n) by lia.
  pose proof (Z.mod_pos_bound (c mod n + 1) n Hn0).
  apply (u32_small _ n); lia.
Qed.

Definition rrun := run router_rr_next.

Lemma router_index_in_range n c : pool_size_ok n -> in_u32 c -> 0 <= router_rr_index n c < n.
Proof. apply (index_in_range _ router_rr_index_char). Qed.

Lemma router_next_in_range n c : pool_size_ok n -> in_u32 c -> 0 <= router_rr_next n c < n.
Proof. apply (next_in_range _ router_rr_next_char). Qed.

Lemma router_kth_call n k : pool_size_ok n -> (1 <= k)%nat ->
  router_rr_index n (rrun n (k - 1) 0) = (Z.of_nat k - 1) mod n.
Proof. apply (kth_call _ _ router_rr_index_char router_rr_next_char). Qed.

Lemma router_index_after n k c : pool_size_ok n -> in_u32 c ->
  router_rr_index n (rrun n k c) = (c + Z.of_nat k) mod n.
Proof. apply (index_after _ _ router_rr_index_char router_rr_next_char). Qed.

Lemma router_sizes_in_range ns c : Forall pool_size_ok ns -> in_u32 c ->
  Forall2 (fun n i => 0 <= i < n) ns (fst (run_sizes router_rr_index router_rr_next ns c)).
Proof. intros H1 H2. apply (run_sizes_in_range _ _ router_rr_index_char router_rr_next_char ns c H1 H2). Qed.

Lemma router_window n c r : pool_size_ok n -> in_u32 c -> 0 <= r < n ->
  exists j : nat, Z.of_nat j < n /\ router_rr_index n (rrun n j c) = r /\
    forall j' : nat, Z.of_nat j' < n -> router_rr_index n (rrun n j' c) = r -> j' = j.
Proof. apply (window_hits_each_once _ _ router_rr_index_char router_rr_next_char). Qed.

(* ------------------------------------------------------------------ the router over message histories *)
Definition routees_ok (rs : list nat) : Prop := rs <> [] /\ Z.of_nat (length rs) <= max_u32.
Definition rt_op_ok (op : rt_op) : Prop :=
  match op with RtRoute rs => routees_ok rs | RtPreset c => in_u32 c end.

Lemma routees_ok_pool rs : routees_ok rs -> pool_size_ok (Z.of_nat (length rs)).
Proof. intros [H1 H2]. split; [|assumption]. destruct rs; [contradiction|simpl; lia]. Qed.

Lemma rt_route_spec c rs : routees_ok rs -> in_u32 c ->
  let n := Z.of_nat (length rs) in
  exists v, rt_route c rs = ((c mod n + 1) mod n, Some v) /\ nth_error rs (Z.to_nat (c mod n)) = Some v.
Proof.
  intros Hrs Hc n. pose proof (routees_ok_pool _ Hrs) as Hp. fold n in Hp.
  unfold rt_route. fold n.
  rewrite router_rr_index_char, router_rr_next_char by assumption.
  pose proof (Z.mod_pos_bound c n ltac:(unfold pool_size_ok in Hp; lia)) as Hb.
  destruct ((0 <=? c mod n) && (c mod n <? n)) eqn:Er; [|lia].
  destruct (nth_error rs (Z.to_nat (c mod n))) eqn:En.
  - exists n0. split; reflexivity.
  - apply nth_error_None in En. subst n. lia.
Qed.

Lemma rt_route_cursor_ok c rs : routees_ok rs -> in_u32 c -> in_u32 (fst (rt_route c rs)).
Proof.
  intros Hrs Hc. destruct (rt_route_spec c rs Hrs Hc) as [v [E _]]. rewrite E. cbn [fst].
  pose proof (routees_ok_pool _ Hrs) as [Hp0 Hp1]. set (n := Z.of_nat (length rs)) in *.
  pose proof (Z.mod_pos_bound (c mod n + 1) n Hp0). unfold in_u32. lia.
Qed.

(* every message of every history (any slices, any sizes, arbitrary cursor contents) is told to
   exactly one routee, a member of the slice it was routed over: nothing is dropped *)
Definition rt_entry_ok (e : list nat * option (option nat) * Z) : Prop :=
  match e with
  | (rs, Some o, _) => exists v, o = Some v /\ In v rs
  | (_, None, _) => True
  end.

Lemma rt_never_drops ops : forall c, in_u32 c -> Forall rt_op_ok ops -> Forall rt_entry_ok (rt_run c ops).
Proof.
  induction ops as [|op ops IH]; intros c Hc Hops; cbn [rt_run]; [constructor|].
  inversion Hops as [|? ? Hop Hops']; subst.
  destruct op as [rs|c0]; cbn [rt_step].
  - cbn [rt_op_ok] in Hop. destruct (rt_route_spec c rs Hop Hc) as [v [E1 E2]].
    pose proof (rt_route_cursor_ok c rs Hop Hc) as Hc'. rewrite E1 in *. cbn [fst] in Hc'.
    constructor; [|apply IH; assumption].
    cbn [rt_entry_ok]. exists v. split; [reflexivity|]. eapply nth_error_In; eauto.
  - constructor; [exact I|]. apply IH; assumption.
Qed.

Lemma rt_routes_spec rs c k : routees_ok rs -> in_u32 c ->
  let n := Z.of_nat (length rs) in
  in_u32 (fst (rt_routes c rs k)) /\
  (fst (rt_routes c rs k)) mod n = (c + Z.of_nat k) mod n /\
  length (snd (rt_routes c rs k)) = k /\
  forall j, (j < k)%nat ->
    nth_error (snd (rt_routes c rs k)) j = Some (nth_error rs (Z.to_nat ((c + Z.of_nat j) mod n))).
Proof.
  intros Hrs Hc n. pose proof (routees_ok_pool _ Hrs) as Hp. fold n in Hp.
  assert (Hn0 : 0 < n) by (unfold pool_size_ok in Hp; lia).
  induction k.
  - cbn [rt_routes fst snd]. split; [|split; [|split]].
    + assumption.
    + f_equal. lia.
    + reflexivity.
    + intros j Hj. lia.
  - cbn [rt_routes]. destruct (rt_routes c rs k) as [c1 outs] eqn:E1. cbn [fst snd] in IHk.
    destruct IHk as [Hc1 [Hm1 [Hl1 Hout1]]].
    destruct (rt_route_spec c1 rs Hrs Hc1) as [v [E2 E3]]. fold n in E2, E3.
    rewrite E2. cbn [fst snd]. split; [|split; [|split]].
    + pose proof (Z.mod_pos_bound (c1 mod n + 1) n Hn0). unfold in_u32. unfold pool_size_ok in Hp. lia.
    + rewrite Z.mod_mod by lia. rewrite Hm1. rewrite Zplus_mod_idemp_l. f_equal. lia.
    + rewrite app_length. cbn [length]. lia.
    + intros j Hj. destruct (Nat.eq_dec j k) as [->|Hne].
      * rewrite nth_error_app2 by lia. rewrite Hl1, Nat.sub_diag. cbn [nth_error].
        rewrite <- Hm1. rewrite E3. reflexivity.
      * rewrite nth_error_app1 by lia. apply Hout1. lia.
Qed.

(* the k-th routed message of a fresh router goes to routees[(k-1) mod n], for every k *)
Lemma rt_kth_message rs k : routees_ok rs -> (1 <= k)%nat ->
  nth_error (snd (rt_routes 0 rs k)) (k - 1) =
  Some (nth_error rs (Z.to_nat ((Z.of_nat k - 1) mod Z.of_nat (length rs)))).
Proof.
  intros Hrs Hk.
  destruct (rt_routes_spec rs 0 k Hrs ltac:(unfold in_u32, max_u32; lia)) as [_ [_ [_ H]]].
  rewrite H by lia. replace (0 + Z.of_nat (k - 1)) with (Z.of_nat k - 1) by lia. reflexivity.
Qed.

(* ------------------------------------------------------------------ fan-out *)
Lemma fanout_each_once routees r : count_occ Nat.eq_dec (fanout routees) r = count_occ Nat.eq_dec routees r.
Proof. unfold fanout. rewrite map_id. reflexivity. Qed.

Lemma count_occ_map_fst_NoDup (m : list (nat * bool)) r :
  NoDup (map fst m) -> In r (map fst m) -> count_occ Nat.eq_dec (map fst m) r = 1%nat.
Proof.
  intros Hnd Hin. apply NoDup_count_occ' with (decA := Nat.eq_dec) in Hin; assumption.
Qed.

Lemma filter_perm {A} (f : A -> bool) l l' : Permutation l l' -> Permutation (filter f l) (filter f l').
Proof.
  induction 1; simpl.
  - constructor.
  - destruct (f x); [constructor|]; assumption.
  - destruct (f x); destruct (f y); try reflexivity. apply perm_swap.
  - etransitivity; eassumption.
Qed.

Lemma nodup_map_fst_filter (f : nat * bool -> bool) m : NoDup (map fst m) -> NoDup (map fst (filter f m)).
Proof.
  induction m as [|e m IH]; simpl; intros H; [constructor|]. inversion H as [|? ? Hnin Hnd]; subst.
  destruct (f e); [|apply IH; assumption]. simpl. constructor; [|apply IH; assumption].
  intros Hc. apply Hnin. apply in_map_iff in Hc. destruct Hc as [e' [E Hin]]. apply filter_In in Hin.
  apply in_map_iff. exists e'. tauto.
Qed.

(* the routees handed out are exactly the running routees of the map *)
Lemma available_running (m order : list (nat * bool)) r : Permutation order m ->
  In r (fst (available order)) <-> In (r, true) m.
Proof.
  intros Hp. unfold available. cbn [fst]. rewrite in_map_iff. split.
  - intros [[r' b] [E Hin]]. simpl in E. subst r'. apply filter_In in Hin. destruct Hin as [Hin Hb]. simpl in Hb. subst b.
    eapply Permutation_in; eauto.
  - intros Hin. exists (r, true). split; [reflexivity|]. apply filter_In. split; [|reflexivity].
    eapply Permutation_in; [apply Permutation_sym; exact Hp|assumption].
Qed.

(* whatever order the map iteration produces, a broadcast reaches every running routee of the map
   exactly once, and nobody else (in particular no routee that has stopped) *)
Lemma fanout_over_map (m order : list (nat * bool)) r :
  NoDup (map fst m) -> Permutation order m ->
  count_occ Nat.eq_dec (fanout (fst (available order))) r =
    if in_dec Nat.eq_dec r (map fst (filter (fun e => snd e) m)) then 1%nat else 0%nat.
Proof.
  intros Hnd Hp. rewrite fanout_each_once. unfold available. cbn [fst].
  assert (Hp' : Permutation (map fst (filter (fun e => snd e) order)) (map fst (filter (fun e => snd e) m)))
    by (apply Permutation_map; apply filter_perm; assumption).
  rewrite (Permutation_count_occ Nat.eq_dec) in Hp'. rewrite Hp'.
  destruct (in_dec Nat.eq_dec r (map fst (filter (fun e => snd e) m))) as [Hin|Hnin].
  - apply count_occ_map_fst_NoDup; [apply nodup_map_fst_filter|]; assumption.
  - apply count_occ_not_In. assumption.
Qed.

(* the unrepaired loop handed out a routee that is not running *)
Example available_unrepaired_hands_out_stopped :
  In 1%nat (fst (available_unrepaired [(0%nat, true); (1%nat, false)])) /\
  ~ In 1%nat (fst (available [(0%nat, true); (1%nat, false)])).
Proof. split; [right; left; reflexivity|simpl; intros [H|[]]; discriminate]. Qed.

(* ------------------------------------------------------------------ the routee pool under failures *)
(* failure signals come from children of the router; the unrepaired resume handler is excluded *)
Definition pool_op_ok (children : list nat) (op : pool_op) : Prop :=
  match op with
  | PSignal _ DResumeUnrepaired => False
  | PSignal r _ => In r children
  | _ => True
  end.

(* the router's map has no duplicates, holds only children, and holds every running child *)
Definition pool_inv (children : list nat) (p : pool) : Prop :=
  NoDup (p_map p) /\ (forall r, In r (p_map p) -> In r children) /\
  (forall r, In r children -> p_status p r = RRunning -> In r (p_map p)).

Lemma map_add_in r m x : In x (map_add r m) <-> x = r \/ In x m.
Proof.
  unfold map_add. destruct (existsb (Nat.eqb r) m) eqn:E.
  - split; [intros H; right; assumption|intros [->|H]; [|assumption]].
    apply existsb_exists in E. destruct E as [y [Hy E]]. apply Nat.eqb_eq in E. subst. assumption.
  - simpl. split; intros [H|H]; auto.
Qed.

Lemma map_add_nodup r m : NoDup m -> NoDup (map_add r m).
Proof.
  intros H. unfold map_add. destruct (existsb (Nat.eqb r) m) eqn:E; [assumption|].
  constructor; [|assumption]. intros Hin. assert (existsb (Nat.eqb r) m = true); [|congruence].
  apply existsb_exists. exists r. split; [assumption|apply Nat.eqb_refl].
Qed.

Lemma set_status_eq st r v : set_status st r v r = v.
Proof. unfold set_status. rewrite Nat.eqb_refl. reflexivity. Qed.

Lemma set_status_neq st r v x : x <> r -> set_status st r v x = st x.
Proof. intros H. unfold set_status. destruct (Nat.eqb_spec x r); [contradiction|reflexivity]. Qed.

Lemma inv_after_down children p r v : v <> RRunning -> pool_inv children p ->
  pool_inv children (mkPool (set_status (p_status p) r v) (p_map p)).
Proof.
  intros Hv [Hnd [Hsub Hrun]]. repeat split; cbn [p_map p_status]; try assumption.
  intros x Hx Hs. destruct (Nat.eq_dec x r) as [->|Hne].
  - rewrite set_status_eq in Hs. contradiction.
  - rewrite set_status_neq in Hs by assumption. apply Hrun; assumption.
Qed.

Lemma inv_after_back children p r : In r children -> pool_inv children p ->
  pool_inv children (mkPool (set_status (p_status p) r RRunning) (map_add r (p_map p))).
Proof.
  intros Hc [Hnd [Hsub Hrun]]. repeat split; cbn [p_map p_status].
  - apply map_add_nodup. assumption.
  - intros x Hx. apply map_add_in in Hx. destruct Hx as [->|Hx]; [assumption|apply Hsub; assumption].
  - intros x Hx Hs. apply map_add_in. destruct (Nat.eq_dec x r) as [->|Hne]; [left; reflexivity|right].
    rewrite set_status_neq in Hs by assumption. apply Hrun; assumption.
Qed.

Lemma pool_step_inv children p op : pool_op_ok children op -> pool_inv children p ->
  pool_inv children (fst (pool_step p op)).
Proof.
  intros Hop Hinv. destruct op as [r|r| |r d]; cbn [pool_step fst].
  - destruct (is_running (p_status p) r); [apply inv_after_down; [discriminate|assumption]|destruct p; assumption].
  - apply inv_after_down; [discriminate|assumption].
  - destruct Hinv as [Hnd [Hsub Hrun]]. repeat split; cbn [p_map p_status].
    + apply NoDup_filter. assumption.
    + intros x Hx. apply filter_In in Hx. apply Hsub. tauto.
    + intros x Hx Hs. apply filter_In. split; [apply Hrun; assumption|]. unfold is_running. rewrite Hs. reflexivity.
  - destruct d; cbn [pool_op_ok] in Hop; try contradiction.
    + destruct (p_status p r); try assumption. apply inv_after_back; assumption.
    + destruct (p_status p r); try assumption. apply inv_after_back; assumption.
    + destruct Hinv as [Hnd [Hsub Hrun]]. cbn [fst]. repeat split; cbn [p_map p_status].
      * apply NoDup_filter. assumption.
      * intros x Hx. apply filter_In in Hx. apply Hsub. tauto.
      * intros x Hx Hs. unfold set_status in Hs. destruct (Nat.eqb_spec x r) as [Heq|Hne]; [discriminate|].
        apply filter_In. split; [apply Hrun; assumption|].
        destruct (Nat.eqb_spec x r); [contradiction|reflexivity].
Qed.

Lemma pool_run_inv children ops : forall p, Forall (pool_op_ok children) ops -> pool_inv children p ->
  pool_inv children (pool_run p ops).
Proof.
  induction ops as [|op ops IH]; intros p Hops Hinv; cbn [pool_run]; [assumption|].
  inversion Hops; subst. apply IH; [assumption|]. apply pool_step_inv; assumption.
Qed.

Lemma pool_init_inv children : NoDup children -> pool_inv children (pool_init children).
Proof. intros H. unfold pool_init. repeat split; cbn [p_map p_status]; auto. Qed.

(* after ANY history of routee failures, outside stops, Broadcasts and handled failure signals (restart,
   resume, stop; any interleaving), a Broadcast is told exactly once to every running routee of the
   router and to nobody else *)
Lemma fanout_after_failures children ops r : NoDup children -> Forall (pool_op_ok children) ops ->
  let p := pool_run (pool_init children) ops in
  forall told, snd (pool_step p PBroadcast) = Some told ->
  count_occ Nat.eq_dec told r = if (if in_dec Nat.eq_dec r children then is_running (p_status p) r else false) then 1%nat else 0%nat.
Proof.
  intros Hnd Hops p told E. pose proof (pool_run_inv children ops _ Hops (pool_init_inv children Hnd)) as [Hn [Hsub Hrun]].
  fold p in Hn, Hsub, Hrun. cbn [pool_step snd] in E. inversion E; subst told. rewrite fanout_each_once.
  destruct (in_dec Nat.eq_dec r children) as [Hc|Hc].
  - destruct (is_running (p_status p) r) eqn:Er.
    + apply NoDup_count_occ'; [apply NoDup_filter; assumption|]. apply filter_In. split; [|assumption].
      apply Hrun; [assumption|]. unfold is_running in Er. destruct (p_status p r); try discriminate; reflexivity.
    + apply count_occ_not_In. intros Hin. apply filter_In in Hin. destruct Hin as [_ Hin]. congruence.
  - apply count_occ_not_In. intros Hin. apply filter_In in Hin. apply Hc. apply Hsub. tauto.
Qed.

(* the unrepaired resume handler: routee 0 fails, a Broadcast is handled before its signal, the routee is
   resumed — and the next Broadcast skips it although it runs *)
Example resume_unrepaired_skips_live_routee :
  let p := pool_run (pool_init [0;1;2]%nat) [PFail 0%nat; PBroadcast; PSignal 0%nat DResumeUnrepaired] in
  is_running (p_status p) 0%nat = true /\ snd (pool_step p PBroadcast) = Some [1;2]%nat.
Proof. split; reflexivity. Qed.

Example resume_repaired_reaches_live_routee :
  let p := pool_run (pool_init [0;1;2]%nat) [PFail 0%nat; PBroadcast; PSignal 0%nat DResume] in
  snd (pool_step p PBroadcast) = Some [0;1;2]%nat.
Proof. reflexivity. Qed.

(* ------------------------------------------------------------------ non-vacuity *)
Example rt_example :
  map (fun e => snd (fst e)) (rt_run 0 [RtRoute [10;11;12]%nat; RtRoute [10;11;12]%nat; RtRoute [10;11;12]%nat;
      RtRoute [10;11;12]%nat; RtPreset 4294967295; RtRoute [10;11;12]%nat; RtRoute [10;11;12]%nat; RtRoute [7;8]%nat])
  = [Some (Some 10); Some (Some 11); Some (Some 12); Some (Some 10); None; Some (Some 10); Some (Some 11); Some (Some 7)]%nat.
Proof. vm_compute. reflexivity. Qed.
