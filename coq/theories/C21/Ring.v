(* C21 proofs, part 2: the consistent-hash ring (set / lookup) over an arbitrary hasher. *)
From Coq Require Import ZArith Lia List Bool Permutation Sorted.
From GV Require Import C21.Model.
Import ListNotations.
Open Scope Z_scope.

(* ------------------------------------------------------------------ sorting (slices.Sort contract) *)
Lemma insert_sorted_perm x l : Permutation (insert_sorted x l) (x :: l).
Proof.
  induction l as [|y l IH]; simpl; [reflexivity|].
  destruct (x <=? y); [reflexivity|]. rewrite IH. apply perm_swap.
Qed.

Lemma sortZ_perm l : Permutation (sortZ l) l.
Proof. induction l; simpl; [reflexivity|]. rewrite insert_sorted_perm. constructor. assumption. Qed.

Lemma insert_sorted_sorted x l : Sorted Z.le l -> Sorted Z.le (insert_sorted x l).
Proof.
  induction l as [|y l IH]; intros Hs; simpl.
  - repeat constructor.
  - destruct (Z.leb_spec x y).
    + constructor; [assumption|constructor; assumption].
    + inversion Hs as [|? ? Hs' Hhd]; subst. constructor; [apply IH; assumption|].
      destruct l as [|z l]; simpl.
      * constructor. lia.
      * destruct (Z.leb_spec x z); constructor; try lia. inversion Hhd; subst. assumption.
Qed.

Lemma sortZ_sorted l : StronglySorted Z.le (sortZ l).
Proof.
  apply Sorted_StronglySorted; [intros a b c; lia|].
  induction l; simpl; [constructor|]. apply insert_sorted_sorted. assumption.
Qed.

(* sort.Search(len, keys[i] >= h) on a sorted slice: the predicate is monotone, so the result is the
   first key >= h (this is the fact that licenses modelling the binary search by [find]) *)
Lemma search_predicate_monotone keys h i j d : StronglySorted Z.le keys ->
  (i <= j < length keys)%nat -> h <= nth i keys d -> h <= nth j keys d.
Proof.
  intros Hs. revert i j. induction Hs as [|k keys Hs IH Hall]; intros i j Hij Hi; [simpl in Hij; lia|].
  destruct i as [|i]; destruct j as [|j]; simpl in *; try lia.
  - rewrite Forall_forall in Hall. assert (In (nth j keys d) keys) by (apply nth_In; lia).
    specialize (Hall _ H). lia.
  - apply (IH i j); [lia|assumption].
Qed.

Lemma find_first_ge keys h k : StronglySorted Z.le keys ->
  find (fun k => h <=? k) keys = Some k ->
  In k keys /\ h <= k /\ forall k', In k' keys -> h <= k' -> k <= k'.
Proof.
  intros Hs. induction Hs as [|k0 keys Hs IH Hall]; intros E; simpl in E; [discriminate|].
  destruct (Z.leb_spec h k0).
  - inversion E; subst k0. split; [left; reflexivity|]. split; [assumption|].
    intros k' [->|Hin] _; [lia|]. rewrite Forall_forall in Hall. apply Hall. assumption.
  - destruct (IH E) as [H1 [H2 H3]]. split; [right; assumption|]. split; [assumption|].
    intros k' [<-|Hin] Hk'; [lia|]. apply H3; assumption.
Qed.

Lemma find_none_all_lt keys h : find (fun k => h <=? k) keys = None -> forall k', In k' keys -> k' < h.
Proof.
  intros E k' Hin. pose proof (find_none _ _ E k' Hin) as H. simpl in H. lia.
Qed.

Lemma head_is_min k0 keys : StronglySorted Z.le (k0 :: keys) -> forall k', In k' (k0 :: keys) -> k0 <= k'.
Proof.
  intros Hs k' [<-|Hin]; [lia|]. inversion Hs as [|? ? _ Hall]; subst.
  rewrite Forall_forall in Hall. apply Hall. assumption.
Qed.

(* ------------------------------------------------------------------ the map r.ring *)
Lemma nodup_keys_unique (l : list (Z * nat)) k o o' :
  NoDup (map fst l) -> In (k, o) l -> In (k, o') l -> o = o'.
Proof.
  induction l as [|[k1 o1] l IH]; intros Hnd H1 H2; [destruct H1|].
  simpl in Hnd. inversion Hnd as [|? ? Hnin Hnd']; subst.
  destruct H1 as [E1|H1]; destruct H2 as [E2|H2].
  - congruence.
  - inversion E1; subst. exfalso. apply Hnin. apply in_map_iff. exists (k, o'). split; [reflexivity|assumption].
  - inversion E2; subst. exfalso. apply Hnin. apply in_map_iff. exists (k, o). split; [reflexivity|assumption].
  - apply IH; assumption.
Qed.

Lemma ring_get_unique es k o : NoDup (map fst es) -> In (k, o) es -> ring_get es k = Some o.
Proof.
  intros Hnd Hin. unfold ring_get.
  destruct (find (fun e => fst e =? k) (rev es)) as [[k1 o1]|] eqn:E.
  - apply find_some in E. destruct E as [E1 E2]. simpl in E2. apply Z.eqb_eq in E2. subst k1.
    apply in_rev in E1. simpl. f_equal. eapply nodup_keys_unique; eauto.
  - pose proof (find_none _ _ E (k, o)) as H. simpl in H.
    rewrite <- in_rev in H. specialize (H Hin). rewrite Z.eqb_refl in H. discriminate.
Qed.

(* ------------------------------------------------------------------ ownership on the circle *)
(* o owns hash h among the points P: it holds the smallest point >= h, or, when no point is >= h,
   the smallest point of all (wrap-around) *)
Definition owner_spec (P : list (Z * nat)) (h : Z) (o : nat) : Prop :=
  exists k, In (k, o) P /\
    ((h <= k /\ forall k' o', In (k', o') P -> h <= k' -> k <= k') \/
     ((forall k' o', In (k', o') P -> k' < h) /\ forall k' o', In (k', o') P -> k <= k')).

Lemma owner_spec_unique P h o o' : NoDup (map fst P) -> owner_spec P h o -> owner_spec P h o' -> o = o'.
Proof.
  intros Hnd [k [Hin [[H1 H2]|[H1 H2]]]] [k' [Hin' [[H1' H2']|[H1' H2']]]].
  - assert (k = k') by (specialize (H2 _ _ Hin' H1'); specialize (H2' _ _ Hin H1); lia).
    subst. eapply nodup_keys_unique; eauto.
  - specialize (H1' _ _ Hin). lia.
  - specialize (H1 _ _ Hin'). lia.
  - assert (k = k') by (specialize (H2 _ _ Hin'); specialize (H2' _ _ Hin); lia).
    subst. eapply nodup_keys_unique; eauto.
Qed.

Lemma owner_spec_same_points P P' h o : (forall p, In p P <-> In p P') -> owner_spec P h o -> owner_spec P' h o.
Proof.
  intros Heq [k [Hin Hc]]. exists k. split; [apply Heq; assumption|].
  destruct Hc as [[H1 H2]|[H1 H2]]; [left|right]; split; try assumption; intros k' o' Hin'; apply Heq in Hin'; eauto.
Qed.

(* ownership survives the removal of points that belong to others *)
Lemma owner_spec_subset P P' h o : (forall p, In p P' -> In p P) ->
  (forall k, In (k, o) P -> In (k, o) P') -> owner_spec P h o -> owner_spec P' h o.
Proof.
  intros Hsub Hkeep [k [Hin Hc]]. exists k. split; [apply Hkeep; assumption|].
  destruct Hc as [[H1 H2]|[H1 H2]]; [left|right]; split; try assumption; intros k' o' Hin'; apply Hsub in Hin'; eauto.
Qed.

Section RingProofs.
  Variable hv : nat -> nat -> Z.
  Variable vn : nat.

  Notation entries := (ring_entries hv vn).
  Notation rset := (ring_set hv vn).

  (* no two virtual nodes of the member set hash to the same point *)
  Definition no_collision (members : list nat) : Prop := NoDup (map fst (entries members)).

  Lemma in_entries k o ms : In (k, o) (entries ms) <-> In o ms /\ exists i, (i < vn)%nat /\ k = hv o i.
  Proof.
    unfold ring_entries. rewrite in_flat_map. split.
    - intros [m [Hm Hin]]. apply in_map_iff in Hin. destruct Hin as [i [E Hi]]. inversion E; subst.
      apply in_seq in Hi. split; [assumption|]. exists i. split; [lia|reflexivity].
    - intros [Ho [i [Hi ->]]]. exists o. split; [assumption|]. apply in_map_iff. exists i.
      split; [reflexivity|]. apply in_seq. lia.
  Qed.

  Lemma lookup_sound ms h : no_collision ms -> entries ms <> [] ->
    exists o, ring_lookup (rset ms) h = Some o /\ owner_spec (entries ms) h o.
  Proof.
    intros Hnc Hne. unfold ring_lookup, ring_set. cbn [ring_keys ring_map].
    pose proof (sortZ_perm (map fst (entries ms))) as Hp.
    pose proof (sortZ_sorted (map fst (entries ms))) as Hs.
    assert (Hkey : forall k, In k (sortZ (map fst (entries ms))) -> exists o, In (k, o) (entries ms)).
    { intros k Hk. apply (Permutation_in _ Hp) in Hk. apply in_map_iff in Hk.
      destruct Hk as [[k1 o1] [E Hin]]. simpl in E. subst. exists o1. assumption. }
    assert (Hkey' : forall k o, In (k, o) (entries ms) -> In k (sortZ (map fst (entries ms)))).
    { intros k o Hin. apply (Permutation_in _ (Permutation_sym Hp)). apply in_map_iff. exists (k, o). split; [reflexivity|assumption]. }
    destruct (sortZ (map fst (entries ms))) as [|k0 keys] eqn:Ek.
    - apply Permutation_nil in Hp. destruct (entries ms); [contradiction|discriminate].
    - rewrite <- Ek in *. destruct (find (fun k => h <=? k) (sortZ (map fst (entries ms)))) as [k|] eqn:Ef.
      + destruct (find_first_ge _ _ _ Hs Ef) as [H1 [H2 H3]]. destruct (Hkey k H1) as [o Ho].
        exists o. split; [apply ring_get_unique; assumption|].
        exists k. split; [assumption|]. left. split; [assumption|].
        intros k' o' Hin' Hk'. apply H3; [eapply Hkey'; eauto|assumption].
      + assert (H0 : In k0 (sortZ (map fst (entries ms)))) by (rewrite Ek; left; reflexivity).
        destruct (Hkey k0 H0) as [o Ho]. exists o. split; [apply ring_get_unique; assumption|].
        exists k0. split; [assumption|]. right. split.
        * intros k' o' Hin'. eapply find_none_all_lt; eauto.
        * intros k' o' Hin'. rewrite Ek in Hs. apply (head_is_min k0 keys Hs). rewrite <- Ek. eapply Hkey'; eauto.
  Qed.

  Lemma lookup_complete ms h o : no_collision ms -> owner_spec (entries ms) h o -> ring_lookup (rset ms) h = Some o.
  Proof.
    intros Hnc Hspec. assert (Hne : entries ms <> []) by (destruct Hspec as [k [Hin _]]; destruct (entries ms); [destruct Hin|discriminate]).
    destruct (lookup_sound ms h Hnc Hne) as [o' [E Hs']]. rewrite E. f_equal. eapply owner_spec_unique; eauto.
  Qed.

  (* the routee returned is a member; a non-empty member set with at least one virtual node always yields one *)
  Lemma lookup_member ms h : no_collision ms -> ms <> [] -> (0 < vn)%nat ->
    exists o, ring_lookup (rset ms) h = Some o /\ In o ms.
  Proof.
    intros Hnc Hne Hvn. assert (He : entries ms <> []).
    { destruct ms as [|m ms]; [contradiction|]. intros Hc.
      assert (Hin : In (hv m 0%nat, m) (entries (m :: ms))) by (apply in_entries; split; [left; reflexivity|exists 0%nat; split; [lia|reflexivity]]).
      rewrite Hc in Hin. destruct Hin. }
    destruct (lookup_sound ms h Hnc He) as [o [E [k [Hin _]]]]. exists o. split; [assumption|].
    apply in_entries in Hin. tauto.
  Qed.

  (* same membership, any insertion order (Go map iteration): same owner for every hash *)
  Lemma lookup_order_independent ms ms' h : no_collision ms -> Permutation ms ms' ->
    ring_lookup (rset ms') h = ring_lookup (rset ms) h.
  Proof.
    intros Hnc Hp.
    assert (Hpe : Permutation (entries ms) (entries ms')) by (unfold ring_entries; apply Permutation_flat_map; assumption).
    assert (Hnc' : no_collision ms') by (unfold no_collision; eapply Permutation_NoDup; [apply Permutation_map; exact Hpe|assumption]).
    destruct (entries ms) as [|e es] eqn:Ee.
    - apply Permutation_nil in Hpe. unfold ring_lookup, ring_set. cbn [ring_keys]. rewrite Hpe, Ee. reflexivity.
    - assert (Hne : entries ms <> []) by (rewrite Ee; discriminate).
      destruct (lookup_sound ms h Hnc Hne) as [o [E Hs]]. rewrite E. apply lookup_complete; [assumption|].
      eapply owner_spec_same_points; [|exact Hs]. intros p. rewrite <- Ee in Hpe. split; intros Hin.
      + eapply Permutation_in; eauto.
      + eapply Permutation_in; [apply Permutation_sym; exact Hpe|assumption].
  Qed.

  Lemma nodup_app_r (a b : list Z) : NoDup (a ++ b) -> NoDup b.
  Proof. induction a as [|x a IH]; simpl; intros H; [assumption|]. inversion H; subst. apply IH. assumption. Qed.

  Lemma nodup_app_incl (a b b' : list Z) : NoDup (a ++ b) -> NoDup b' -> incl b' b -> NoDup (a ++ b').
  Proof.
    induction a as [|x a IH]; intros H1 H2 H3; simpl in *; [assumption|].
    inversion H1 as [|? ? Hnin Hnd]; subst. constructor; [|apply IH; assumption].
    intros Hc. apply Hnin. apply in_app_iff in Hc. apply in_app_iff. destruct Hc; [left; assumption|right; apply H3; assumption].
  Qed.

  Lemma no_collision_remove m ms : no_collision ms -> no_collision (remove Nat.eq_dec m ms).
  Proof.
    unfold no_collision, ring_entries. induction ms as [|x ms IH]; intros H; simpl in *; [assumption|].
    rewrite map_app in H.
    assert (Hb : NoDup (map fst (flat_map (fun m0 => map (fun i => (hv m0 i, m0)) (seq 0 vn)) ms))) by (eapply nodup_app_r; eauto).
    destruct (Nat.eq_dec m x).
    - apply IH. assumption.
    - simpl. rewrite map_app. eapply nodup_app_incl; [exact H|apply IH; assumption|].
      intros k Hk. apply in_map_iff in Hk. destruct Hk as [[k1 o1] [E Hin]]. simpl in E. subst k1.
      apply in_map_iff. exists (k, o1). split; [reflexivity|].
      apply in_flat_map in Hin. destruct Hin as [m0 [Hm0 Hin]]. apply in_flat_map. exists m0. split; [|assumption].
      apply in_remove in Hm0. tauto.
  Qed.

  (* removing member m only moves the hashes m owned: every hash owned by another member keeps its owner *)
  Lemma remove_minimal m ms h o : no_collision ms ->
    ring_lookup (rset ms) h = Some o -> o <> m ->
    ring_lookup (rset (remove Nat.eq_dec m ms)) h = Some o.
  Proof.
    intros Hnc E Hne.
    assert (He : entries ms <> []).
    { intros Hc. unfold ring_lookup, ring_set in E. cbn [ring_keys] in E. rewrite Hc in E. simpl in E. discriminate. }
    destruct (lookup_sound ms h Hnc He) as [o' [E' Hs]]. rewrite E in E'. inversion E'; subst o'.
    apply lookup_complete; [apply no_collision_remove; assumption|].
    eapply owner_spec_subset; [| |exact Hs].
    - intros [k1 o1] Hin. apply in_entries in Hin. apply in_entries. destruct Hin as [Hin Hi]. split; [|assumption].
      apply in_remove in Hin. tauto.
    - intros k Hin. apply in_entries in Hin. apply in_entries. destruct Hin as [Hin Hi]. split; [|assumption].
      apply in_in_remove; [assumption|assumption].
  Qed.

  (* the statement in the property's words: if removing m changed the routee of a hash, m owned it *)
  Lemma remove_only_moves_owned m ms h : no_collision ms ->
    ring_lookup (rset (remove Nat.eq_dec m ms)) h <> ring_lookup (rset ms) h ->
    ring_lookup (rset ms) h = Some m \/ ring_lookup (rset ms) h = None.
  Proof.
    intros Hnc Hd. destruct (ring_lookup (rset ms) h) as [o|] eqn:E; [|right; reflexivity].
    destruct (Nat.eq_dec o m) as [->|Hne]; [left; reflexivity|].
    exfalso. apply Hd. apply remove_minimal; assumption.
  Qed.

  (* adding a member only takes hashes over for the new member *)
  Lemma add_minimal m ms h o : no_collision (m :: ms) -> ~ In m ms ->
    ring_lookup (rset (m :: ms)) h = Some o -> o <> m -> ring_lookup (rset ms) h = Some o.
  Proof.
    intros Hnc Hnin E Hne. pose proof (remove_minimal m (m :: ms) h o Hnc E Hne) as H.
    simpl in H. destruct (Nat.eq_dec m m); [|contradiction]. rewrite notin_remove in H by assumption. assumption.
  Qed.
End RingProofs.

(* router level: with every ring owner a running routee of the map, the routee chosen for a key
   is the ring owner — independent of the random fallback and of the routees slice order *)
Lemma ch_route_owner o running routees rnd : running o = true -> ch_route (Some o) running routees rnd = Some o.
Proof. intros H. unfold ch_route. rewrite H. reflexivity. Qed.

(* ------------------------------------------------------------------ non-vacuity *)
Definition ex_hv (m i : nat) : Z := Z.of_nat ((m * 37 + i * 101 + m * i * 7) mod 251).
Example ring_example :
  no_collision ex_hv 3 [0;1;2]%nat /\
  ring_keys (ring_set ex_hv 3 [0;1;2]%nat) = [0; 2; 37; 53; 74; 101; 145; 189; 202] /\
  map (ring_lookup (ring_set ex_hv 3 [0;1;2]%nat)) [0; 1; 38; 150; 240; 300] = map Some [0; 1; 2; 2; 0; 0]%nat /\
  map (ring_lookup (ring_set ex_hv 3 (remove Nat.eq_dec 1%nat [0;1;2]%nat))) [0; 1; 38; 150; 240; 300] = map Some [0; 2; 2; 2; 0; 0]%nat.
Proof.
  split; [|split; [|split]]; try (vm_compute; reflexivity).
  unfold no_collision. vm_compute. repeat (constructor; [simpl; intuition discriminate|]). constructor.
Qed.
