(* C01: mutual exclusion of the actor turn, for every reachable state of M-DISPATCH
   (any number of producers / workers / restarters, any interleaving, any budget, any mailbox). *)
From Coq Require Import List Arith Bool Lia.
From GV Require Import C01.Model.
Import ListNotations.

Lemma cnt_app f l a : cnt f (l ++ [a]) = cnt f l + f a.
Proof. induction l; simpl; lia. Qed.

Lemma cnt_upd f l : forall i a b, nth_error l i = Some a -> cnt f (upd l i b) + f a = cnt f l + f b.
Proof.
  induction l as [|x r IH]; intros [|i] a b H; simpl in *; try discriminate.
  - inversion H; subst. lia.
  - specialize (IH _ _ b H). lia.
Qed.

Lemma cnt_le f g l : (forall p, f p <= g p) -> cnt f l <= cnt g l.
Proof. intros H. induction l; simpl; [lia|]. specialize (H a). lia. Qed.

Lemma cnt_pos_nth f l : cnt f l > 0 -> exists i p, nth_error l i = Some p /\ f p > 0.
Proof.
  induction l as [|x r IH]; simpl; [lia|]. intros H.
  destruct (f x) eqn:E.
  - destruct IH as (i & p & Hn & Hp); [lia|]. exists (S i), p. auto.
  - exists 0, x. simpl. split; [reflexivity|lia].
Qed.

Lemma nth_cnt_pos f l i p : nth_error l i = Some p -> f p <= cnt f l.
Proof.
  revert i. induction l as [|x r IH]; intros [|i] H; simpl in *; try discriminate.
  - inversion H; subst. lia.
  - specialize (IH _ H). lia.
Qed.

(* two distinct threads both counted by f => count >= 2 *)
Lemma nth_cnt_two f l : forall i j p q, i <> j -> nth_error l i = Some p -> nth_error l j = Some q ->
  f p + f q <= cnt f l.
Proof.
  induction l as [|x r IH]; intros [|i] [|j] p q Hij Hi Hj; simpl in *; try discriminate; try congruence.
  - inversion Hi; subst. pose proof (nth_cnt_pos f _ _ _ Hj). lia.
  - inversion Hj; subst. pose proof (nth_cnt_pos f _ _ _ Hi). lia.
  - assert (i <> j) by congruence. specialize (IH _ _ _ _ H Hi Hj). lia.
Qed.

Definition procN (v : sched) : nat := match v with Processing => 1 | _ => 0 end.
Definition schedN (v : sched) : nat := match v with Scheduled => 1 | _ => 0 end.

Section Proofs.
  Variables MBs MBu : mbox.
  Notation state := (state MBs MBu).
  Notation step := (step MBs MBu).
  Notation reach := (reach MBs MBu).

  (* The ticket invariant: the state word counts exactly the turn owners and the tickets.
     It is guarded by "no off-turn reset has been executed". *)
  Definition TicketInv (s : state) : Prop :=
    offresets s = 0 ->
    cnt owns (ths s) = procN (st s) /\ tickets s + cnt holds_ticket (ths s) = schedN (st s).

  Ltac upd_facts Hn :=
    match goal with
    | |- context [upd ?th ?i ?p] =>
        pose proof (cnt_upd owns th i _ p Hn); pose proof (cnt_upd holds_ticket th i _ p Hn)
    end.

  Ltac fin HI Hn :=
    let H0 := fresh "H0" in
    simpl; intros H0; try (specialize (HI H0)); try upd_facts Hn; simpl in *;
    repeat match goal with
           | |- context [loop ?n] => destruct n; simpl in *
           | H : context [loop ?n] |- _ => destruct n; simpl in *
           end;
    try lia.

  Lemma step_TicketInv c s l s' : TicketInv s -> step c s l = Some s' -> TicketInv s'.
  Proof.
    intros HI Hs. destruct s as [v tk sq uq pa th nid acc hd off].
    unfold TicketInv in *; simpl in *.
    destruct l as [k | i b | i | i b]; simpl in Hs.
    - inversion Hs; subst; simpl. intros H0; specialize (HI H0). rewrite !cnt_app.
      destruct k; simpl; lia.
    - destruct (nth_error th i) as [p|] eqn:Hn; [|discriminate]. destruct p; try discriminate.
      destruct b.
      + destruct (mb_reserve MBs sq nid); inversion Hs; subst; fin HI Hn.
      + destruct (mb_reserve MBu uq nid); inversion Hs; subst; fin HI Hn.
    - destruct (nth_error th i) as [p|] eqn:Hn; [|discriminate].
      destruct p; simpl in Hs; unfold set_pc, set_st, set_tickets, set_sysq, set_usrq, add_handled, inc_offresets in Hs; simpl in Hs.
      + discriminate.
      + destruct tosys; inversion Hs; subst; fin HI Hn.
      + destruct v; simpl in Hs; inversion Hs; subst; fin HI Hn.
      + destruct v; simpl in Hs; inversion Hs; subst; fin HI Hn.
      + inversion Hs; subst; fin HI Hn.
      + destruct tk; [discriminate|]. inversion Hs; subst; fin HI Hn.
      + destruct v; simpl in Hs; inversion Hs; subst; fin HI Hn.
      + destruct (mb_deq MBs sq) as [[x|] q]; inversion Hs; subst; [fin HI Hn|].
        destruct (grain c && pa); fin HI Hn.
      + destruct (mb_deq MBu uq) as [[x|] q]; inversion Hs; subst; fin HI Hn.
      + inversion Hs; subst; fin HI Hn.
      + inversion Hs; subst. destruct (grain c); fin HI Hn; destruct v; simpl in *; lia.
      + destruct (mb_empty MBu uq); inversion Hs; subst; [destruct (grain c)|]; fin HI Hn.
      + destruct (mb_empty MBs sq); inversion Hs; subst; [destruct (grain c)|]; fin HI Hn.
      + inversion Hs; subst. destruct pa; fin HI Hn.
      + destruct v; simpl in Hs; inversion Hs; subst; fin HI Hn.
      + destruct v; simpl in Hs; inversion Hs; subst; fin HI Hn.
      + destruct v; simpl in Hs; inversion Hs; subst; fin HI Hn.
      + inversion Hs; subst; fin HI Hn; destruct v; simpl in *; lia.
      + inversion Hs; subst; fin HI Hn.
      + destruct v; simpl in Hs; inversion Hs; subst; fin HI Hn.
      + inversion Hs; subst; fin HI Hn.
      + destruct (restart_resets c); inversion Hs; subst; [simpl; intros; discriminate | fin HI Hn].
      + discriminate.
    - destruct (nth_error th i) as [p|] eqn:Hn; [|discriminate]. destruct p; try discriminate.
      destruct (grain c); inversion Hs; subst; simpl. exact HI.
  Qed.

  Lemma init_TicketInv : TicketInv (init_state MBs MBu).
  Proof. intros _. simpl. auto. Qed.

  Theorem reach_TicketInv c s : reach c s -> TicketInv s.
  Proof. induction 1; [apply init_TicketInv | eapply step_TicketInv; eauto]. Qed.

  (* offresets stays 0 when the code does not reset off-turn *)
  Lemma step_offresets c s l s' : restart_resets c = false -> step c s l = Some s' -> offresets s' = offresets s.
  Proof.
    intros Hc Hs. destruct s as [v tk sq uq pa th nid acc hd off]. simpl.
    destruct l as [k | i b | i | i b]; simpl in Hs.
    - inversion Hs; reflexivity.
    - destruct (nth_error th i) as [p|]; [|discriminate]. destruct p; try discriminate.
      destruct b; [destruct (mb_reserve MBs sq nid)|destruct (mb_reserve MBu uq nid)]; inversion Hs; reflexivity.
    - destruct (nth_error th i) as [p|]; [|discriminate].
      destruct p; simpl in Hs; try discriminate;
        repeat match type of Hs with
               | context [match ?x with _ => _ end] => destruct x; simpl in Hs
               end; try discriminate; try (inversion Hs; reflexivity).
    - destruct (nth_error th i) as [p|]; [|discriminate]. destruct p; try discriminate.
      destruct (grain c); inversion Hs; reflexivity.
  Qed.

  Lemma reach_offresets c s : restart_resets c = false -> reach c s -> offresets s = 0.
  Proof.
    intros Hc. induction 1; [reflexivity|]. erewrite step_offresets; eauto.
  Qed.

  (* ---- the property *)
  Definition at_most_one_in_handler (s : state) : Prop :=
    forall i j x n y m, nth_error (ths s) i = Some (WHandler x n) -> nth_error (ths s) j = Some (WHandler y m) -> i = j.
  Definition at_most_one_turn_owner (s : state) : Prop :=
    forall i j p q, nth_error (ths s) i = Some p -> nth_error (ths s) j = Some q -> owns p = 1 -> owns q = 1 -> i = j.

  Lemma inv_one_owner s : offresets s = 0 -> TicketInv s -> at_most_one_turn_owner s.
  Proof.
    intros H0 HI i j p q Hi Hj Hp Hq. destruct (HI H0) as [Ho _].
    destruct (Nat.eq_dec i j) as [|Hne]; [assumption|exfalso].
    pose proof (nth_cnt_two owns _ _ _ _ _ Hne Hi Hj). destruct (st s); simpl in *; lia.
  Qed.

  Lemma owner_handler s : at_most_one_turn_owner s -> at_most_one_in_handler s.
  Proof. intros H i j x n y m Hi Hj. eapply H; eauto. Qed.

  (* mutual exclusion on every execution on which restartSubtree has not (yet) reset the state off-turn *)
  Theorem mutex_partial c s : reach c s -> offresets s = 0 ->
    at_most_one_turn_owner s /\ at_most_one_in_handler s.
  Proof.
    intros Hr H0. pose proof (inv_one_owner s H0 (reach_TicketInv c s Hr)) as H.
    split; [exact H | apply owner_handler; exact H].
  Qed.

  (* full strength for the protocol without the off-turn reset *)
  Theorem mutex c s : restart_resets c = false -> reach c s ->
    at_most_one_turn_owner s /\ at_most_one_in_handler s.
  Proof. intros Hc Hr. apply (mutex_partial c s Hr). eapply reach_offresets; eauto. Qed.

  (* the state word tells the truth: Processing <-> some thread owns the turn; a handler runs only in Processing *)
  Theorem handler_implies_processing c s i x n : restart_resets c = false -> reach c s ->
    nth_error (ths s) i = Some (WHandler x n) -> st s = Processing.
  Proof.
    intros Hc Hr Hi. destruct (reach_TicketInv c s Hr (reach_offresets c s Hc Hr)) as [Ho _].
    pose proof (nth_cnt_pos owns _ _ _ Hi). simpl in *. destruct (st s); simpl in *; try lia. reflexivity.
  Qed.

  (* exactly one ticket exists while Scheduled, none otherwise: a worker that took a ticket always wins its CAS *)
  Theorem ticket_unique c s : restart_resets c = false -> reach c s ->
    tickets s + cnt holds_ticket (ths s) = schedN (st s).
  Proof. intros Hc Hr. exact (proj2 (reach_TicketInv c s Hr (reach_offresets c s Hc Hr))). Qed.

  Lemma run_reach c : forall ls s s', reach c s -> run MBs MBu c s ls = Some s' -> reach c s'.
  Proof.
    induction ls as [|l r IH]; intros s s' Hr H; simpl in H.
    - inversion H; subst; exact Hr.
    - destruct (step c s l) as [s1|] eqn:E; [|discriminate]. eapply IH; [|exact H]. eapply reach_step; eauto.
  Qed.
End Proofs.

(* ------------------------------------------------------------------------------------------
   Refutation for the code as it stands with the off-turn reset in restartSubtree:
   restart passes its spin loop (state Idle), a message is accepted after init, worker 1 takes
   the turn and is inside the handler, restartSubtree then stores Idle, a second message is
   scheduled and worker 2 takes the turn too. *)

Theorem restart_refuted : forall g, exists s,
  reach F F (cfg_reset g) s /\ two_in_handler s = true /\
  nth_error (ths s) 2 = Some (WHandler 0 31) /\ nth_error (ths s) 3 = Some (WHandler 1 31).
Proof.
  intros g.
  destruct (run F F (cfg_reset g) (init_state F F) witness_restart) as [s|] eqn:E.
  - exists s. split; [eapply run_reach; [apply reach_init | exact E]|].
    destruct g; vm_compute in E; inversion E; subst; vm_compute; auto.
  - destruct g; vm_compute in E; discriminate.
Qed.

(* The hypotheses of [mutex] are met by non-trivial states: a state with a thread in the handler,
   a queued message, a mid-enqueue producer and a second worker holding nothing. *)
Definition cfg_ok (g : bool) := MkCfg 2 g false.
Definition sample_run : list label :=
  [ LSpawn KProducer; LSpawn KProducer; LSpawn KWorker; LSpawn KWorker; LSpawn KRestarter;
    LSend 0 false; LStep 0; LStep 0; LStep 0; LStep 0;
    LStep 2; LStep 2; LStep 2; LStep 2;
    LSend 1 false; LStep 1; LSend 0 true; LStep 4; LStep 4 ].

Example mutex_hypotheses_satisfiable :
  exists s, reach F F (cfg_ok false) s /\ cnt in_handler (ths s) = 1 /\ st s = Processing /\
            mb_pend F (usrq s) = [1] /\ mb_pend F (sysq s) = [2] /\ nth_error (ths s) 4 = Some RSpin.
Proof.
  destruct (run F F (cfg_ok false) (init_state F F) sample_run) as [s|] eqn:E.
  - exists s. split; [eapply run_reach; [apply reach_init | exact E]|].
    vm_compute in E; inversion E; subst; vm_compute; auto 10.
  - vm_compute in E; discriminate.
Qed.
