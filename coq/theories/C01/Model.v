(* M-DISPATCH: executable model of GoAkt's per-actor dispatch protocol.

   Mirrors, at the granularity of one shared-memory operation per step:
     actor/dispatch_state.go   dispatchState {Load, TrySchedule, TakeForProcessing, YieldToScheduled, reset}
     actor/pid.go              doReceive, runTurn, finishOrReclaim, restartSubtree (spin / init / reset)
     actor/grain_pid.go        receive, runTurn (responses queue, paused), finishOrReclaim/hasPendingWork
     actor/worker.go           run (take ; runTurn), reschedule
     actor/dispatcher.go       schedule (push a ticket)

   One actor is modelled; the ready queue is abstracted to the number of tickets it holds for
   this actor (C05 proves the queue neither loses nor duplicates tickets).  The thread pool is a
   list of program counters of ANY length: [LSpawn] may add a producer, a worker or a restarter at
   any step.  No proofs in this file. *)
From Coq Require Import List Arith Bool.
Import ListNotations.

Definition msg := nat.

(* ------------------------------------------------------------------ dispatch_state.go *)
Inductive sched := Idle | Scheduled | Processing.

Definition sched_eqb (a b : sched) : bool :=
  match a, b with
  | Idle, Idle | Scheduled, Scheduled | Processing, Processing => true
  | _, _ => false
  end.

(* atomic.Uint32 primitives *)
Definition a_cas (v old new : sched) : sched * bool :=
  if sched_eqb v old then (new, true) else (v, false).

(* The methods, executed without interference (= the composition of their atomic steps).
   These are what the sequential conformance harness compares with the Go methods. *)
Inductive dsop := OpLoad | OpTrySchedule | OpTakeForProcessing | OpYield | OpReset.

Definition ds_apply (v : sched) (o : dsop) : sched * option bool :=
  match o with
  | OpLoad => (v, None)
  | OpTrySchedule =>
      if negb (sched_eqb v Idle) then (v, Some false)
      else let (v', ok) := a_cas v Idle Scheduled in (v', Some ok)
  | OpTakeForProcessing => let (v', ok) := a_cas v Scheduled Processing in (v', Some ok)
  | OpYield => (Scheduled, None)
  | OpReset => (Idle, None)
  end.

Fixpoint ds_run (v : sched) (ops : list dsop) : list (sched * option bool) :=
  match ops with
  | [] => []
  | o :: r => let (v', out) := ds_apply v o in (v', out) :: ds_run v' r
  end.

(* ------------------------------------------------------------------ mailbox interface *)
(* What the dispatch protocol needs from a mailbox.  An enqueue is two steps: [reserve]
   (position fixed / slot claimed: the message is accepted) and [publish] (link / sequence
   store: the message becomes reachable).  [mb_pend] and [mb_unpub] are ghost observations:
   accepted-and-not-yet-dequeued, and reserved-but-not-yet-published. *)
Record mbox := MkMbox {
  mb_t : Type;
  mb_init : mb_t;
  mb_reserve : mb_t -> msg -> option mb_t;   (* None: rejected (bounded mailbox full) *)
  mb_publish : mb_t -> msg -> mb_t;
  mb_deq : mb_t -> option msg * mb_t;
  mb_empty : mb_t -> bool;
  mb_pend : mb_t -> list msg;
  mb_unpub : mb_t -> list msg;
}.

(* Concrete instance: a FIFO whose slots are published individually (Vyukov style: a slot is
   reachable only when every earlier slot has been published).  [cap = 0] means unbounded. *)
Definition fifo_t := list (msg * bool).

Fixpoint fifo_publish (m : fifo_t) (x : msg) : fifo_t :=
  match m with
  | [] => []
  | (y, p) :: r => if (Nat.eqb x y) && negb p then (y, true) :: r else (y, p) :: fifo_publish r x
  end.

Definition fifo2 (cap : nat) : mbox := {|
  mb_t := fifo_t;
  mb_init := [];
  mb_reserve := fun m x => if (negb (Nat.eqb cap 0)) && (cap <=? length m) then None else Some (m ++ [(x, false)]);
  mb_publish := fifo_publish;
  mb_deq := fun m => match m with (x, true) :: r => (Some x, r) | _ => (None, m) end;
  mb_empty := fun m => match m with (_, true) :: _ => false | _ => true end;
  mb_pend := fun m => map fst m;
  mb_unpub := fun m => map fst (filter (fun e => negb (snd e)) m);
|}.

(* ------------------------------------------------------------------ threads *)
Inductive kind := KProducer | KWorker | KRestarter.

Inductive pc :=
(* producer: PID.doReceive / grainPID.receive *)
| PIdle                      (* not inside doReceive *)
| PReserved (tosys : bool) (x : msg)   (* Enqueue: slot reserved, not yet published *)
| PPublished                 (* Enqueue returned nil; next: TrySchedule's Load *)
| PCas                       (* TrySchedule: Load saw Idle; next: CAS Idle->Scheduled *)
| PPush                      (* CAS won; next: dispatcher.schedule (push ticket) *)
(* worker: worker.run / runTurn / finishOrReclaim; n = budget iterations left after this one *)
| WIdle                      (* in readyQueue.take *)
| WTaken                     (* holds a ticket; next: TakeForProcessing *)
| WDeqSys (n : nat)          (* next: systemMailbox.Dequeue / responses.Dequeue *)
| WDeqUsr (n : nat)          (* next: mailbox.Dequeue *)
| WHandler (x : msg) (n : nat)  (* inside dispatchOne: the user handler runs *)
| WReset (n : nat)           (* finishOrReclaim: next: schedState.reset() *)
| WChkUsr (n : nat)          (* next: mailbox.IsEmpty *)
| WChkSys (n : nat)          (* next: systemMailbox.IsEmpty / responses.IsEmpty *)
| WChkPaused (n : nat)       (* grain only: next: paused() *)
| WRecLoad (n : nat)         (* TrySchedule's Load *)
| WRecCas (n : nat)          (* TrySchedule's CAS *)
| WRecTake (n : nat)         (* TakeForProcessing after a won reclaim *)
| WYield                     (* budget exhausted; next: YieldToScheduled (Store) *)
| WRepush                    (* next: worker.reschedule (pushLocal) *)
(* restartSubtree *)
| RSpin                      (* for schedState.Load() == Processing { Gosched } *)
| RInit                      (* resetBehavior; init; tree; children restart *)
| RReset                     (* pid.schedState.reset() (only when the code has it) *)
| RDone.

Definition init_pc (k : kind) : pc :=
  match k with KProducer => PIdle | KWorker => WIdle | KRestarter => RSpin end.

Record cfg := MkCfg {
  budget : nat;            (* dispatcher.throughput *)
  grain : bool;            (* false: PID (pid.go), true: grainPID (grain_pid.go) *)
  restart_resets : bool;   (* restartSubtree executes schedState.reset() off-turn *)
}.

Inductive label :=
| LSpawn (k : kind)
| LSend (i : nat) (tosys : bool)   (* thread i enters doReceive; control message -> system mailbox *)
| LStep (i : nat)                  (* thread i executes its next atomic operation *)
| LPause (i : nat) (b : bool).     (* thread i, inside the handler, sets the grain's paused flag *)

Fixpoint upd {A} (l : list A) (i : nat) (a : A) : list A :=
  match l, i with
  | [], _ => []
  | _ :: r, O => a :: r
  | x :: r, S j => x :: upd r j a
  end.

(* head of the turn loop: [for range budget] *)
Definition loop (n : nat) : pc := match n with O => WYield | S k => WDeqSys k end.

(* operation kinds, for the source-order tie: the kind of shared operation a pc is about to execute *)
Inductive opk :=
| KEnqReserve | KEnqPublish | KStLoad | KCasIdleSched | KPushTicket | KTake | KCasSchedProc
| KDeqSys | KDeqUsr | KHandlerExit | KStoreIdle | KEmptyUsr | KEmptySys | KRdPaused
| KStoreSched | KRepush | KSpinLoad | KInit | KOffTurnStoreIdle | KNone.

Definition pc_op (p : pc) : opk :=
  match p with
  | PIdle => KEnqReserve | PReserved _ _ => KEnqPublish | PPublished => KStLoad | PCas => KCasIdleSched
  | PPush => KPushTicket | WIdle => KTake | WTaken => KCasSchedProc | WDeqSys _ => KDeqSys
  | WDeqUsr _ => KDeqUsr | WHandler _ _ => KHandlerExit | WReset _ => KStoreIdle | WChkUsr _ => KEmptyUsr
  | WChkSys _ => KEmptySys | WChkPaused _ => KRdPaused | WRecLoad _ => KStLoad | WRecCas _ => KCasIdleSched
  | WRecTake _ => KCasSchedProc | WYield => KStoreSched | WRepush => KRepush | RSpin => KSpinLoad
  | RInit => KInit | RReset => KOffTurnStoreIdle | RDone => KNone
  end.

(* program inventories: the pcs (hence shared operations) of each thread program, for the source tie *)
Definition prog_producer : list pc := [PIdle; PReserved false 0; PPublished; PCas; PPush].
Definition prog_worker (g : bool) : list pc :=
  [WIdle; WTaken; WDeqSys 0; WDeqUsr 0; WHandler 0 0; WReset 0; WChkUsr 0; WChkSys 0]
  ++ (if g then [WChkPaused 0] else []) ++ [WRecLoad 0; WRecCas 0; WRecTake 0; WYield; WRepush].
Definition prog_restarter (r : bool) : list pc := [RSpin; RInit] ++ (if r then [RReset] else []).

Section Dispatch.
  Variables MBs MBu : mbox.

  Record state := MkState {
    st : sched;               (* PID.schedState / grainPID.schedState *)
    tickets : nat;            (* entries of the ready queue that refer to this actor *)
    sysq : mb_t MBs;          (* systemMailbox / responses *)
    usrq : mb_t MBu;          (* mailbox *)
    paused : bool;            (* grain: blockingCount > 0 *)
    ths : list pc;
    nextid : msg;             (* ghost: fresh message ids *)
    accepted : list msg;      (* ghost: messages whose Enqueue was accepted *)
    handled : list msg;       (* ghost: messages handed to the handler, in order *)
    offresets : nat;          (* ghost: number of off-turn reset() executed by restartSubtree *)
  }.

  Definition init_state : state :=
    MkState Idle 0 (mb_init MBs) (mb_init MBu) false [] 0 [] [] 0.

  Definition set_pc (s : state) (i : nat) (p : pc) : state :=
    MkState (st s) (tickets s) (sysq s) (usrq s) (paused s) (upd (ths s) i p)
            (nextid s) (accepted s) (handled s) (offresets s).
  Definition set_st (s : state) (v : sched) : state :=
    MkState v (tickets s) (sysq s) (usrq s) (paused s) (ths s) (nextid s) (accepted s) (handled s) (offresets s).
  Definition set_tickets (s : state) (n : nat) : state :=
    MkState (st s) n (sysq s) (usrq s) (paused s) (ths s) (nextid s) (accepted s) (handled s) (offresets s).
  Definition set_sysq (s : state) (q : mb_t MBs) : state :=
    MkState (st s) (tickets s) q (usrq s) (paused s) (ths s) (nextid s) (accepted s) (handled s) (offresets s).
  Definition set_usrq (s : state) (q : mb_t MBu) : state :=
    MkState (st s) (tickets s) (sysq s) q (paused s) (ths s) (nextid s) (accepted s) (handled s) (offresets s).
  Definition set_paused (s : state) (b : bool) : state :=
    MkState (st s) (tickets s) (sysq s) (usrq s) b (ths s) (nextid s) (accepted s) (handled s) (offresets s).
  Definition add_accepted (s : state) (x : msg) : state :=
    MkState (st s) (tickets s) (sysq s) (usrq s) (paused s) (ths s) (S (nextid s)) (accepted s ++ [x]) (handled s) (offresets s).
  Definition skip_id (s : state) : state :=
    MkState (st s) (tickets s) (sysq s) (usrq s) (paused s) (ths s) (S (nextid s)) (accepted s) (handled s) (offresets s).
  Definition add_handled (s : state) (x : msg) : state :=
    MkState (st s) (tickets s) (sysq s) (usrq s) (paused s) (ths s) (nextid s) (accepted s) (handled s ++ [x]) (offresets s).
  Definition inc_offresets (s : state) : state :=
    MkState (st s) (tickets s) (sysq s) (usrq s) (paused s) (ths s) (nextid s) (accepted s) (handled s) (S (offresets s)).

  (* one atomic operation of thread i whose program counter is p *)
  Definition step_pc (c : cfg) (s : state) (i : nat) (p : pc) : option state :=
    match p with
    | PIdle => None                       (* entering doReceive is LSend *)
    | PReserved true x => Some (set_pc (set_sysq s (mb_publish MBs (sysq s) x)) i PPublished)
    | PReserved false x => Some (set_pc (set_usrq s (mb_publish MBu (usrq s) x)) i PPublished)
    | PPublished =>                       (* TrySchedule: if s.v.Load() != dispatchIdle { return false } *)
        if sched_eqb (st s) Idle then Some (set_pc s i PCas) else Some (set_pc s i PIdle)
    | PCas =>                             (* return s.v.CompareAndSwap(dispatchIdle, dispatchScheduled) *)
        let (v, ok) := a_cas (st s) Idle Scheduled in
        Some (set_pc (set_st s v) i (if ok then PPush else PIdle))
    | PPush => Some (set_pc (set_tickets s (S (tickets s))) i PIdle)
    | WIdle =>                            (* readyQueue.take: enabled when a ticket of this actor is queued *)
        match tickets s with
        | O => None
        | S t => Some (set_pc (set_tickets s t) i WTaken)
        end
    | WTaken =>                           (* if !TakeForProcessing() { return } *)
        let (v, ok) := a_cas (st s) Scheduled Processing in
        Some (set_pc (set_st s v) i (if ok then loop (budget c) else WIdle))
    | WDeqSys n =>
        match mb_deq MBs (sysq s) with
        | (Some x, q) => Some (set_pc (add_handled (set_sysq s q) x) i (WHandler x n))
        | (None, q) =>
            Some (set_pc (set_sysq s q) i (if grain c && paused s then WReset n else WDeqUsr n))
        end
    | WDeqUsr n =>
        match mb_deq MBu (usrq s) with
        | (Some x, q) => Some (set_pc (add_handled (set_usrq s q) x) i (WHandler x n))
        | (None, q) => Some (set_pc (set_usrq s q) i (WReset n))
        end
    | WHandler _ n => Some (set_pc s i (loop n))
    | WReset n => Some (set_pc (set_st s Idle) i (if grain c then WChkSys n else WChkUsr n))
    | WChkUsr n =>
        if mb_empty MBu (usrq s)
        then Some (set_pc s i (if grain c then WIdle else WChkSys n))
        else Some (set_pc s i (WRecLoad n))
    | WChkSys n =>
        if mb_empty MBs (sysq s)
        then Some (set_pc s i (if grain c then WChkPaused n else WIdle))
        else Some (set_pc s i (WRecLoad n))
    | WChkPaused n => Some (set_pc s i (if paused s then WIdle else WChkUsr n))
    | WRecLoad n =>
        if sched_eqb (st s) Idle then Some (set_pc s i (WRecCas n)) else Some (set_pc s i WIdle)
    | WRecCas n =>
        let (v, ok) := a_cas (st s) Idle Scheduled in
        Some (set_pc (set_st s v) i (if ok then WRecTake n else WIdle))
    | WRecTake n =>
        let (v, ok) := a_cas (st s) Scheduled Processing in
        Some (set_pc (set_st s v) i (if ok then loop n else WIdle))
    | WYield => Some (set_pc (set_st s Scheduled) i WRepush)
    | WRepush => Some (set_pc (set_tickets s (S (tickets s))) i WIdle)
    | RSpin => if sched_eqb (st s) Processing then Some s else Some (set_pc s i RInit)
    | RInit => Some (set_pc s i RReset)
    | RReset =>
        if restart_resets c then Some (set_pc (inc_offresets (set_st s Idle)) i RDone)
        else Some (set_pc s i RDone)
    | RDone => None
    end.

  Definition step (c : cfg) (s : state) (l : label) : option state :=
    match l with
    | LSpawn k =>
        Some (MkState (st s) (tickets s) (sysq s) (usrq s) (paused s) (ths s ++ [init_pc k])
                      (nextid s) (accepted s) (handled s) (offresets s))
    | LSend i tosys =>
        match nth_error (ths s) i with
        | Some PIdle =>
            let x := nextid s in
            if tosys then
              match mb_reserve MBs (sysq s) x with
              | Some q => Some (set_pc (add_accepted (set_sysq s q) x) i (PReserved true x))
              | None => Some (skip_id s)     (* rejected: handleReceivedError, no TrySchedule *)
              end
            else
              match mb_reserve MBu (usrq s) x with
              | Some q => Some (set_pc (add_accepted (set_usrq s q) x) i (PReserved false x))
              | None => Some (skip_id s)
              end
        | _ => None
        end
    | LStep i =>
        match nth_error (ths s) i with
        | Some p => step_pc c s i p
        | None => None
        end
    | LPause i b =>
        match nth_error (ths s) i with
        | Some (WHandler _ _) => if grain c then Some (set_paused s b) else None
        | _ => None
        end
    end.

  Fixpoint run (c : cfg) (s : state) (ls : list label) : option state :=
    match ls with
    | [] => Some s
    | l :: r => match step c s l with Some s' => run c s' r | None => None end
    end.

  Inductive reach (c : cfg) : state -> Prop :=
  | reach_init : reach c init_state
  | reach_step : forall s l s', reach c s -> step c s l = Some s' -> reach c s'.

  (* observations *)
  Definition in_handler (p : pc) : nat := match p with WHandler _ _ => 1 | _ => 0 end.
  (* holds the turn: between a won Scheduled->Processing CAS and the store that gives it up *)
  Definition owns (p : pc) : nat :=
    match p with WDeqSys _ | WDeqUsr _ | WHandler _ _ | WReset _ | WYield => 1 | _ => 0 end.
  (* holds a ticket outside the ready queue *)
  Definition holds_ticket (p : pc) : nat :=
    match p with PPush | WTaken | WRecTake _ | WRepush => 1 | _ => 0 end.

  Definition cnt (f : pc -> nat) (l : list pc) : nat := fold_right (fun p a => f p + a) 0 l.

  (* the op kinds executed along a label sequence (for the source-order tie) *)
  Fixpoint trace_ops (c : cfg) (s : state) (ls : list label) : list opk :=
    match ls with
    | [] => []
    | l :: r =>
        let o := match l with
                 | LStep i | LSend i _ => match nth_error (ths s) i with Some p => [pc_op p] | None => [] end
                 | _ => []
                 end in
        match step c s l with Some s' => o ++ trace_ops c s' r | None => o end
    end.
End Dispatch.

Arguments st {MBs MBu}. Arguments tickets {MBs MBu}. Arguments sysq {MBs MBu}. Arguments usrq {MBs MBu}.
Arguments paused {MBs MBu}. Arguments ths {MBs MBu}. Arguments nextid {MBs MBu}. Arguments accepted {MBs MBu}.
Arguments handled {MBs MBu}. Arguments offresets {MBs MBu}.

(* ---- the restart witness (used by C01/Proofs.v and replayed on the real actors) *)
Definition F := fifo2 0.
Definition cfg_reset (g : bool) := MkCfg 32 g true.

(* threads: 0 producer, 1 producer, 2 worker, 3 worker, 4 restarter *)
Definition witness_restart : list label :=
  [ LSpawn KProducer; LSpawn KProducer; LSpawn KWorker; LSpawn KWorker; LSpawn KRestarter;
    LStep 4;                                   (* spin: state is Idle, leaves the loop *)
    LStep 4;                                   (* init: the actor is running again *)
    LSend 0 false; LStep 0; LStep 0; LStep 0; LStep 0;   (* Tell m0: enqueue, Load, CAS, push *)
    LStep 2; LStep 2; LStep 2; LStep 2;        (* W1: take, TakeForProcessing, sys deq nil, user deq m0 -> handler *)
    LStep 4;                                   (* restartSubtree: schedState.reset() *)
    LSend 1 false; LStep 1; LStep 1; LStep 1; LStep 1;   (* Tell m1 *)
    LStep 3; LStep 3; LStep 3; LStep 3 ].      (* W2: take, TakeForProcessing, sys deq nil, user deq m1 -> handler *)

Definition two_in_handler {A B} (s : state A B) : bool := 2 <=? cnt in_handler (ths s).
