(* C42/C43 — the joint inductive invariant of the two controllers and the faulty network, for every
   schedule of legitimate ops (any loss / duplication / reordering / delay of controller traffic, any
   timer firing, any behaviour of the two endpoints), and the safety theorems that follow from it. *)
From Coq Require Import ZArith List Bool Lia ZifyBool.
From GV Require Import C42.Model C42.Lemmas C42.InvP C42.InvC.
Import ListNotations.
Open Scope Z_scope.

Section Joint.
Variable sess : Z.
Variable W : Z.
Hypothesis sess_nz : sess <> 0.
Hypothesis W_pos : 1 <= W.

Notation okP := (okP sess).
Notation okC := (okC sess W).
Notation PInv := (PInv sess).
Notation CInv := (CInv sess W).

Record Inv (s : sys) : Prop := {
  iP : PInv (sP s);
  iC : CInv (sC s);
  iR : CRest (sC s);
  iJ : CJ (p_log (sP s)) (sC s);
  i_netCC : Forall (okP (p_log (sP s)) (c_sess (sC s) = 0)) (netCC s);
  i_netPC : Forall (okC (c_conf (sC s)) (c_upto (sC s))) (netPC s);
  iE : PEnv (sP s) (c_conf (sC s)) (c_upto (sC s));
  i_handed : handed_ok (p_log (sP s)) (toCons s) (K (sC s))
}.

Lemma Inv_init notify fx : Inv (sys_init sess notify W fx).
Proof.
  constructor; cbn.
  - apply PInv_init.
  - constructor; cbn; auto; try lia; intros; try discriminate; try contradiction.
  - intros e He. contradiction.
  - constructor; cbn; intros; try discriminate; try contradiction; lia.
  - constructor.
  - constructor; [exact I|constructor].
  - constructor; cbn; try lia. intros; discriminate.
  - constructor.
Qed.

Lemma okP_mono log l (U U' : Prop) m : (U' -> U) -> okP log U m -> okP (log ++ l) U' m.
Proof. intros HU. destruct m; cbn; [intuition|]. intros [? ?]. split; [assumption|apply logat_app; assumption]. Qed.

Lemma CJ_app log l c : CJ log c -> CJ (log ++ l) c.
Proof.
  intros [J1 J2 J3]. constructor; [intros; apply logat_app; auto|intros; apply logat_app; auto|].
  rewrite app_length. lia.
Qed.

(* a producer-side step *)
Lemma sys_p_inv s i :
  Inv s -> match i with PFromCC true m => okC (c_conf (sC s)) (c_upto (sC s)) m | _ => True end ->
  Inv (fst (sys_p s i)).
Proof.
  intros [I1 I2 I3 I4 I5 I6 I7 I8] Hin. unfold sys_p.
  destruct (pc_step (sP s) i) as [p' o] eqn:Hst. cbn [fst].
  assert (HU : c_sess (sC s) = 0 -> c_conf (sC s) = 0).
  { intros Hz. destruct (ci_unadopted _ _ _ I2 Hz) as (_ & ? & _). assumption. }
  pose proof (pc_step_post sess W (sP s) i p' o _ _ _ I1 I7 HU Hin Hst) as [Q1 [l Q2] Q3 Q4 Q5 Q6].
  constructor; cbn; auto.
  - rewrite Q2. apply CJ_app. assumption.
  - apply Forall_app. split; [|assumption]. rewrite Q2.
    eapply Forall_impl; [|exact I5]. intros m. apply okP_mono. auto.
  - rewrite Q2. apply handed_ok_app. assumption.
Qed.

(* a consumer-side step *)
Lemma sys_c_inv s i :
  Inv s -> match i with CFromPC true _ m => okP (p_log (sP s)) (c_sess (sC s) = 0) m | _ => True end ->
  Inv (fst (sys_c s i)).
Proof.
  intros [I1 I2 I3 I4 I5 I6 I7 I8] Hin. unfold sys_c.
  destruct (cc_step (sC s) i) as [c' o] eqn:Hst. cbn [fst].
  destruct (cc_step_post sess W sess_nz W_pos (p_log (sP s)) (sC s) i c' o I2 I3 I4 Hin Hst) as [[Q1 Q2 Q3 Q4 Q5 Q6 Q7 Q8] R].
  constructor; cbn; auto.
  - eapply Forall_impl; [|exact I5]. intros m Hm. rewrite <- (app_nil_r (p_log (sP s))).
    eapply okP_mono; [|exact Hm]. exact Q6.
  - apply Forall_app. split; [|assumption].
    eapply Forall_impl; [|exact I6]. intros m. apply okC_mono; assumption.
  - destruct I7 as [E1 E2 E3 E4]. destruct Q2 as [_ _ Q2c]. destruct I1 as [_ _ Pc _ _].
    constructor; try lia. intros Hh. specialize (E4 Hh). lia.
Qed.

Lemma nth_error_Forall {A} (P : A -> Prop) l i x : Forall P l -> nth_error l i = Some x -> P x.
Proof. intros H Hn. rewrite Forall_forall in H. apply H. eapply nth_error_In. exact Hn. Qed.

Lemma step_inv s o : Inv s -> legit o = true -> Inv (sys_step s o).
Proof.
  intros I Hl. unfold sys_step, sys_step_out.
  destruct o; try discriminate.
  - destruct (nth_error (netPC s) i) eqn:Hn; [|exact I].
    apply sys_p_inv; [exact I|]. eapply nth_error_Forall; [apply (i_netPC s I)|exact Hn].
  - destruct (nth_error (netCC s) i) eqn:Hn; [|exact I].
    apply sys_c_inv; [exact I|]. eapply nth_error_Forall; [apply (i_netCC s I)|exact Hn].
  - apply sys_p_inv; [exact I|exact Logic.I].
  - apply sys_c_inv; [exact I|exact Logic.I].
  - apply sys_p_inv; [exact I|exact Logic.I].
  - apply sys_p_inv; [exact I|exact Logic.I].
  - apply sys_c_inv; [exact I|exact Logic.I].
Qed.

Lemma run_inv s ops : Inv s -> forallb legit ops = true -> Inv (run s ops).
Proof.
  revert s. induction ops as [|o ops IH]; intros s I Hl; [exact I|].
  cbn in Hl. apply andb_true_iff in Hl. destruct Hl as [H1 H2].
  cbn [run fold_left]. apply IH; [apply step_inv; assumption|assumption].
Qed.

Theorem reach_inv notify fx ops : forallb legit ops = true -> Inv (run (sys_init sess notify W fx) ops).
Proof. intros. apply run_inv; [apply Inv_init|assumption]. Qed.


(* ------------------------------------------------------------------ consequences *)

(* C42: the Delivery sequence, read front to back *)
Fixpoint in_order (log : list Z) (prev : Z) (h : list consmsg) : Prop :=
  match h with
  | [] => True
  | Delivery _ m q :: t => (q = prev \/ q = prev + 1) /\ logat log q m /\ in_order log q t
  end.

Definition last_seq (prev : Z) (h : list consmsg) : Z :=
  match rev h with [] => prev | Delivery _ _ q :: _ => q end.

Lemma last_seq_snoc prev h s m q : last_seq prev (h ++ [Delivery s m q]) = q.
Proof. unfold last_seq. rewrite rev_app_distr. reflexivity. Qed.

Lemma last_seq_cons prev d h : last_seq prev (d :: h) = last_seq (match d with Delivery _ _ q => q end) h.
Proof.
  unfold last_seq. cbn [rev]. destruct (rev h) as [|x l] eqn:Hr; cbn; [destruct d; reflexivity|reflexivity].
Qed.

Lemma in_order_snoc log prev h s m q :
  in_order log prev h -> (q = last_seq prev h \/ q = last_seq prev h + 1) -> logat log q m ->
  in_order log prev (h ++ [Delivery s m q]).
Proof.
  revert prev. induction h as [|[s0 m0 q0] h IH]; intros prev H Hq Hl; cbn [app in_order].
  - unfold last_seq in Hq. cbn in Hq. auto.
  - cbn [in_order] in H. destruct H as (H1 & H2 & H3). splits; auto.
    apply IH; auto. rewrite last_seq_cons in Hq. exact Hq.
Qed.

Lemma handed_in_order log h k : handed_ok log h k -> in_order log 0 h /\ last_seq 0 h = k.
Proof.
  induction 1 as [|h k s m H [IH1 IH2] Hl|h k s m H [IH1 IH2] Hl].
  - split; [exact I|reflexivity].
  - split; [apply in_order_snoc; auto; rewrite IH2; auto|apply last_seq_snoc].
  - split; [apply in_order_snoc; auto; rewrite IH2; auto|apply last_seq_snoc].
Qed.

Theorem deliveries_in_order s : Inv s -> in_order (p_log (sP s)) 0 (toCons s).
Proof. intros I. apply (handed_in_order _ _ _ (i_handed s I)). Qed.

(* the chain confirmed <= delivered <= stored, and the shape of the unconfirmed buffer *)
Theorem chain s : Inv s ->
  p_conf (sP s) <= c_conf (sC s) /\ c_conf (sC s) <= K (sC s) /\ K (sC s) <= p_cur (sP s) /\
  p_cur (sP s) = Z.of_nat (length (p_log (sP s))) /\
  p_unconf (sP s) = number (p_conf (sP s)) (skipn (Z.to_nat (p_conf (sP s))) (p_log (sP s))).
Proof.
  intros [I1 I2 I3 I4 I5 I6 I7 I8]. destruct I1 as [P1 P2 P3 P4 P5]. destruct I7 as [E1 E2 E3 E4].
  destruct I2 as [C1 C2 C3 C4 C5 C6 C7 C8 C9 C10 C11]. destruct I4 as [J1 J2 J3].
  splits; auto; try lia; unfold K; destruct (c_infl (sC s)) as [e|] eqn:Hi; try lia.
  specialize (J2 e eq_refl). apply logat_le in J2. specialize (C7 e eq_refl). lia.
Qed.

(* a step of the consumer side: every Delivery it hands over is the unconfirmed one in flight afterwards,
   and the confirmation watermark never goes back *)
Lemma sys_c_fresh s i :
  Inv s -> match i with CFromPC true _ m => okP (p_log (sP s)) (c_sess (sC s) = 0) m | _ => True end ->
  Forall (fresh_delivery sess (sC (fst (sys_c s i)))) (outs_toCons (snd (snd (sys_c s i)))) /\
  c_conf (sC s) <= c_conf (sC (fst (sys_c s i))) /\ c_upto (sC s) <= c_upto (sC (fst (sys_c s i))).
Proof.
  intros [I1 I2 I3 I4 I5 I6 I7 I8] Hin. unfold sys_c.
  destruct (cc_step (sC s) i) as [c' o] eqn:Hst. cbn [fst snd sC].
  destruct (cc_step_post sess W sess_nz W_pos (p_log (sP s)) (sC s) i c' o I2 I3 I4 Hin Hst) as [[Q1 Q2 Q3 Q4 Q5 Q6 Q7 Q8] R].
  auto.
Qed.

Theorem represented_only_in_flight s o : Inv s -> legit o = true ->
  Forall (fresh_delivery sess (sC (sys_step s o))) (outs_toCons (snd (snd (sys_step_out s o)))) /\
  c_conf (sC s) <= c_conf (sC (sys_step s o)) /\ c_upto (sC s) <= c_upto (sC (sys_step s o)).
Proof.
  intros I Hl. unfold sys_step, sys_step_out.
  assert (Hp : forall i, Forall (fresh_delivery sess (sC (fst (sys_p s i)))) (outs_toCons (snd (snd (sys_p s i)))) /\
                         c_conf (sC s) <= c_conf (sC (fst (sys_p s i))) /\ c_upto (sC s) <= c_upto (sC (fst (sys_p s i)))).
  { intros i. unfold sys_p. destruct (pc_step (sP s) i). cbn. splits; [constructor|lia|lia]. }
  destruct o; try discriminate; try (apply Hp).
  - destruct (nth_error (netPC s) i); [apply Hp|cbn; splits; [constructor|lia|lia]].
  - destruct (nth_error (netCC s) i) eqn:Hn; [|cbn; splits; [constructor|lia|lia]].
    apply sys_c_fresh; [exact I|]. eapply nth_error_Forall; [apply (i_netCC s I)|exact Hn].
  - apply sys_c_fresh; [exact I|exact Logic.I].
  - apply sys_c_fresh; [exact I|exact Logic.I].
Qed.

(* C43: what was ever sent stays within the highest request; the receive buffer stays below the window *)
Theorem sent_within_requested s : Inv s ->
  p_demand (sP s) <= c_upto (sC s) /\ p_cur (sP s) <= c_upto (sC s) /\ c_upto (sC s) <= c_conf (sC s) + W /\
  forall se m q, In (SeqMsg se m q) (netCC s) -> 1 <= q <= p_cur (sP s) /\ q <= c_upto (sC s).
Proof.
  intros [I1 I2 I3 I4 I5 I6 I7 I8]. destruct I7 as [E1 E2 E3 E4]. destruct I1 as [P1 P2 P3 P4 P5].
  splits; auto; [apply (ci_upto _ _ _ I2)|].
  intros se m q Hin. rewrite Forall_forall in I5. specialize (I5 _ Hin). destruct I5 as [_ Hl].
  pose proof (logat_le _ _ _ Hl). destruct Hl. lia.
Qed.

Theorem buffer_below_window s : Inv s ->
  Z.of_nat (length (c_buf (sC s))) <= W - 1 /\
  lb_sorted (c_exp (sC s)) (c_buf (sC s)) /\ (forall e, In e (c_buf (sC s)) -> snd e <= c_upto (sC s)).
Proof.
  intros [I1 I2 I3 I4 I5 I6 I7 I8].
  pose proof (rest_sorted sess W (sC s) I2 I3) as Hs. destruct I2 as [C1 C2 C3 C4 C5 C6 C7 C8 C9 C10 C11].
  splits; auto. pose proof (lb_sorted_length _ _ _ Hs C6). lia.
Qed.

(* the emission-time form: a sequenced message leaves the producer controller only at or below its
   current demand, which is itself at or below the highest request of the consumer controller *)
Theorem emitted_within_demand s o : Inv s -> legit o = true ->
  Forall (seq_within (p_demand (sP (sys_step s o)))) (outs_toCC (fst (snd (sys_step_out s o)))) /\
  p_demand (sP (sys_step s o)) <= c_upto (sC (sys_step s o)).
Proof.
  intros I Hl. pose proof (step_inv s o I Hl) as I'. split; [|apply (pe_dem _ _ _ (iE _ I'))].
  unfold sys_step, sys_step_out.
  assert (Hc : forall i, Forall (seq_within (p_demand (sP (fst (sys_c s i))))) (outs_toCC (fst (snd (sys_c s i))))).
  { intros i. unfold sys_c. destruct (cc_step (sC s) i). cbn. constructor. }
  assert (Hp : forall i, match i with PFromCC true m => okC (c_conf (sC s)) (c_upto (sC s)) m | _ => True end ->
                         Forall (seq_within (p_demand (sP (fst (sys_p s i))))) (outs_toCC (fst (snd (sys_p s i))))).
  { intros i Hin. destruct I as [I1 I2 I3 I4 I5 I6 I7 I8]. unfold sys_p.
    destruct (pc_step (sP s) i) as [p' po] eqn:Hst. cbn [fst snd sP].
    assert (HU : c_sess (sC s) = 0 -> c_conf (sC s) = 0).
    { intros Hz. destruct (ci_unadopted _ _ _ I2 Hz) as (_ & ? & _). assumption. }
    apply (pp_dem _ _ _ _ _ _ _ (pc_step_post sess W (sP s) i p' po _ _ _ I1 I7 HU Hin Hst)). }
  destruct o; try discriminate; try (apply Hc); try (apply Hp; exact Logic.I).
  - destruct (nth_error (netPC s) i) eqn:Hn; [|constructor].
    apply Hp. eapply nth_error_Forall; [apply (i_netPC s I)|exact Hn].
  - destruct (nth_error (netCC s) i); [apply Hc|constructor].
Qed.

End Joint.
