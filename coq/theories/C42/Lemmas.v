(* C42/C43 — list and arithmetic lemmas used by the invariant proofs. *)
From Coq Require Import ZArith List Bool Lia ZifyBool.
From GV Require Import C42.Model.
Import ListNotations.
Open Scope Z_scope.

(* seq k of the stream is the k-th stored message id *)
Definition logat (log : list Z) (q m : Z) : Prop :=
  1 <= q /\ nth_error log (Z.to_nat (q - 1)) = Some m.

Lemma logat_app log l q m : logat log q m -> logat (log ++ l) q m.
Proof.
  intros [H1 H2]. split; [exact H1|].
  rewrite nth_error_app1; [exact H2|]. apply nth_error_Some. congruence.
Qed.

Lemma logat_le log q m : logat log q m -> q <= Z.of_nat (length log).
Proof.
  intros [H1 H2]. assert (Z.to_nat (q - 1) < length log)%nat by (apply nth_error_Some; congruence). lia.
Qed.

Lemma logat_last log m : logat (log ++ [m]) (Z.of_nat (length log) + 1) m.
Proof.
  split; [lia|]. replace (Z.to_nat (Z.of_nat (length log) + 1 - 1)) with (length log) by lia.
  rewrite nth_error_app2 by lia. rewrite Nat.sub_diag. reflexivity.
Qed.

Lemma logat_fun log q m m' : logat log q m -> logat log q m' -> m = m'.
Proof. intros [_ H] [_ H']. congruence. Qed.

(* the unconfirmed list is the numbered tail of the log *)
Fixpoint number (k : Z) (l : list Z) : list (Z * Z) :=
  match l with [] => [] | m :: t => (m, k + 1) :: number (k + 1) t end.

Lemma number_app k l m : number k (l ++ [m]) = number k l ++ [(m, k + Z.of_nat (length l) + 1)].
Proof.
  revert k. induction l as [|a l IH]; intros k; cbn [number app length].
  - f_equal. f_equal. lia.
  - rewrite IH. cbn [app]. replace (k + 1 + Z.of_nat (length l) + 1) with (k + Z.of_nat (S (length l)) + 1) by lia. reflexivity.
Qed.

Lemma number_length k l : length (number k l) = length l.
Proof. revert k. induction l; intros; cbn; auto. Qed.

Lemma number_in k l m q : In (m, q) (number k l) -> k < q <= k + Z.of_nat (length l) /\ nth_error l (Z.to_nat (q - k - 1)) = Some m.
Proof.
  revert k. induction l as [|a l IH]; intros k H; cbn [number In] in H; [contradiction|].
  destruct H as [H|H].
  - inversion H; subst. cbn [length]. split; [lia|]. replace (Z.to_nat (k + 1 - k - 1)) with 0%nat by lia. reflexivity.
  - apply IH in H. destruct H as [H1 H2]. cbn [length]. split; [lia|].
    replace (Z.to_nat (q - k - 1)) with (S (Z.to_nat (q - (k + 1) - 1))) by lia. exact H2.
Qed.

Lemma drop_le_number c k l : k <= c ->
  drop_le c (number k l) = number (Z.min c (k + Z.of_nat (length l))) (skipn (Z.to_nat (c - k)) l).
Proof.
  revert k. induction l as [|a l IH]; intros k H; cbn [number drop_le length].
  - rewrite skipn_nil. reflexivity.
  - cbn [snd]. destruct (Z.leb_spec (k + 1) c).
    + rewrite IH by lia. replace (Z.to_nat (c - k)) with (S (Z.to_nat (c - (k + 1)))) by lia.
      cbn [skipn]. f_equal. lia.
    + assert (c = k) by lia. subst c. replace (Z.to_nat (k - k)) with 0%nat by lia. cbn [skipn number].
      replace (Z.min k (k + Z.of_nat (S (length l)))) with k by lia. reflexivity.
Qed.

Lemma take_le_incl c l : incl (take_le c l) l.
Proof.
  induction l as [|a l IH]; cbn [take_le]; [apply incl_refl|].
  destruct (snd a <=? c); [|apply incl_nil_l].
  intros x [Hx|Hx]; [left; exact Hx|right; apply IH; exact Hx].
Qed.

Lemma take_le_bound c l e : In e (take_le c l) -> snd e <= c.
Proof.
  induction l as [|a l IH]; cbn [take_le]; [contradiction|].
  destruct (Z.leb_spec (snd a) c); [|contradiction].
  intros [Hx|Hx]; [subst; assumption|auto].
Qed.

Lemma take_le_number_all c k l : k + Z.of_nat (length l) <= c -> take_le c (number k l) = number k l.
Proof.
  revert k. induction l as [|a l IH]; intros k H; cbn [number take_le]; [reflexivity|].
  cbn [length snd] in *. destruct (Z.leb_spec (k + 1) c); [|lia]. f_equal. apply IH. lia.
Qed.

(* strictly ascending with a strict lower bound *)
Fixpoint lb_sorted (lo : Z) (l : list (Z * Z)) : Prop :=
  match l with [] => True | e :: t => lo < snd e /\ lb_sorted (snd e) t end.

Lemma lb_sorted_weaken lo lo' l : lo' <= lo -> lb_sorted lo l -> lb_sorted lo' l.
Proof. destruct l; cbn; [auto|]. intros ? [? ?]; split; [lia|assumption]. Qed.

Lemma lb_sorted_in lo l e : lb_sorted lo l -> In e l -> lo < snd e.
Proof.
  revert lo. induction l as [|a l IH]; intros lo H Hin; [contradiction|].
  destruct H as [H1 H2]. destruct Hin as [->|Hin]; [assumption|]. specialize (IH _ H2 Hin). lia.
Qed.

Lemma buf_mem_false q l : buf_mem q l = false -> forall e, In e l -> snd e <> q.
Proof.
  induction l as [|a l IH]; intros H e Hin; [contradiction|].
  cbn [buf_mem] in H. apply orb_false_iff in H. destruct H as [H1 H2].
  destruct Hin as [->|Hin]; [lia|auto].
Qed.

Lemma buf_insert_sorted lo e l : lo < snd e -> buf_mem (snd e) l = false -> lb_sorted lo l -> lb_sorted lo (buf_insert e l).
Proof.
  revert lo. induction l as [|a l IH]; intros lo He Hm Hs; cbn [buf_insert].
  - cbn. auto.
  - cbn [buf_mem] in Hm. apply orb_false_iff in Hm. destruct Hm as [Hm1 Hm2].
    destruct Hs as [Hs1 Hs2]. destruct (Z.ltb_spec (snd e) (snd a)).
    + cbn. auto.
    + cbn [lb_sorted]. split; [assumption|]. apply IH; [lia|assumption|assumption].
Qed.

Lemma buf_insert_in e l x : In x (buf_insert e l) -> x = e \/ In x l.
Proof.
  induction l as [|a l IH]; cbn [buf_insert]; intros H.
  - destruct H as [H|[]]; auto.
  - destruct (snd e <? snd a).
    + destruct H as [H|H]; auto.
    + destruct H as [H|H]; [right; left; exact H|]. apply IH in H. destruct H; [auto|right; right; assumption].
Qed.

Lemma buf_insert_length e l : length (buf_insert e l) = S (length l).
Proof. induction l as [|a l IH]; cbn [buf_insert]; [reflexivity|]. destruct (snd e <? snd a); cbn; auto. Qed.

Lemma drop_lt_incl x l : incl (drop_lt x l) l.
Proof.
  induction l as [|a l IH]; cbn [drop_lt]; [apply incl_refl|].
  destruct (snd a <? x); [apply incl_tl; exact IH|apply incl_refl].
Qed.

Lemma drop_lt_sorted x lo l : lb_sorted lo l -> lb_sorted (Z.max lo (x - 1)) (drop_lt x l).
Proof.
  revert lo. induction l as [|a l IH]; intros lo H; cbn [drop_lt]; [exact I|].
  destruct H as [H1 H2]. destruct (Z.ltb_spec (snd a) x).
  - specialize (IH _ H2). eapply lb_sorted_weaken; [|exact IH]. lia.
  - cbn [lb_sorted]. split; [lia|assumption].
Qed.

Lemma lb_sorted_length lo hi l : lb_sorted lo l -> (forall e, In e l -> snd e <= hi) -> Z.of_nat (length l) <= Z.max 0 (hi - lo).
Proof.
  revert lo. induction l as [|a l IH]; intros lo H Hhi; cbn [length]; [lia|].
  destruct H as [H1 H2]. specialize (IH _ H2 (fun e He => Hhi e (or_intror He))).
  pose proof (Hhi a (or_introl eq_refl)). lia.
Qed.

Lemma in_flat_map_single {A B} (f : A -> list B) l y : In y (flat_map f l) -> exists x, In x l /\ In y (f x).
Proof. apply in_flat_map. Qed.

Lemma nth_error_skipn' {A} (a b : nat) (l : list A) : nth_error (skipn a l) b = nth_error l (a + b).
Proof. revert l. induction a; intros l; [reflexivity|]. destruct l; cbn [skipn]; [destruct b; reflexivity|]. apply IHa. Qed.

Lemma skipn_skipn' {A} (a b : nat) (l : list A) : skipn a (skipn b l) = skipn (b + a) l.
Proof. revert l. induction b; intros l; [reflexivity|]. destruct l; cbn [skipn Nat.add]; [apply skipn_nil|]. apply IHb. Qed.
