(* C42/C43 — executable model of the reliable point-to-point delivery controllers
   (actor/reliable_delivery_producer_controller.go, reliable_delivery_consumer_controller.go),
   volatile (no durable queue), non-chunked core, one incarnation of each controller.

   Each controller is an actor: its Receive is a sequential function of (state, message). The model
   mirrors the handlers one to one:  pc_step / cc_step : state -> input -> state * list output.
   Identifiers (session, nonce, token, message id) are integers, 0 = the blank string; fresh uuids
   are a counter in the state (the harness numbers real uuids by first appearance).
   The network between the controllers is the monotone list of everything ever sent; a schedule
   step may deliver any element of it (any number of times, in any order) or never.             *)
From Coq Require Import ZArith List Bool.
Import ListNotations.
Open Scope Z_scope.

Definition maxWindowCap : Z := 10000.             (* MaxReliableFlowControlWindow *)
Definition maxI64 : Z := 9223372036854775807.

(* ---------------------------------------------------------------- messages *)
Inductive cmsg :=                                  (* consumer controller -> producer controller *)
| Register (nonce : Z)
| Request (sess nonce conf upTo : Z) (viaTimeout : bool)
| AckM (sess nonce conf : Z).

Inductive pmsg :=                                  (* producer controller -> consumer controller *)
| RegAck (sess nextSeq nonce : Z)
| SeqMsg (sess mid seq : Z).

Inductive prodmsg :=                               (* producer controller -> producer endpoint *)
| RequestNext (sess tok : Z)
| Stored (sess tok mid seq : Z)
| DeliveryConfirmed (sess mid seq : Z).

Inductive consmsg := Delivery (sess mid seq : Z).  (* consumer controller -> consumer endpoint *)

Inductive pout := ToCC (m : pmsg) | ToProd (m : prodmsg) | PShutdown.
Inductive cout := ToPC (m : cmsg) | ToCons (m : consmsg) | CShutdown.

(* inputs of the producer controller's Receive *)
Inductive pin :=
| PFromCC (authentic : bool) (m : cmsg)            (* authentic: sender is the consumer endpoint's resolved companion *)
| PProduced (authentic : bool) (sess tok mid : Z)  (* authentic: sender is the bound producer endpoint *)
| PStoredAck (authentic : bool) (sess tok mid : Z)
| PTick (stale : bool).                            (* stale: generation of a previous incarnation *)

(* inputs of the consumer controller's Receive; gapok is the clock oracle of sendGapRequest:
   true iff now - lastGapRequest >= resendInterval *)
Inductive cin :=
| CFromPC (authentic : bool) (gapok : bool) (m : pmsg)
| CConfirmed (authentic : bool) (sess mid seq : Z)
| CTick (stale : bool) (gapok : bool).

(* ---------------------------------------------------------------- producer controller *)
Inductive hsphase := HsIdle | HsCredit | HsStore | HsStoredAck | HsAccept.
Definition hs_eqb (a b : hsphase) : bool :=
  match a, b with
  | HsIdle, HsIdle | HsCredit, HsCredit | HsStore, HsStore | HsStoredAck, HsStoredAck | HsAccept, HsAccept => true
  | _, _ => false
  end.

Record pstate := mkP {
  p_sess : Z;                       (* sessionID of this incarnation *)
  p_notify : bool;                  (* deliveryConfirmation *)
  p_fix : bool;                     (* registration rule: true = demandUpTo := min(demandUpTo, currentSeq) (fixes/C43-*.diff), false = currentSeq *)
  p_cur : Z;                        (* currentSeq *)
  p_conf : Z;                       (* confirmedSeq *)
  p_unconf : list (Z * Z);          (* unconfirmed: (messageID, seq) ascending *)
  p_reg : bool;                     (* consumerController != nil *)
  p_nonce : Z;                      (* registrationNonce *)
  p_demand : Z;                     (* demandUpTo *)
  p_span : Z;                       (* windowSpan *)
  p_hs : hsphase;                   (* handshake *)
  p_tok : Z;                        (* token *)
  p_pmid : Z;                       (* pendingMessageID *)
  p_pseq : Z;                       (* pendingSeq *)
  p_stored : bool;                  (* storedMessage != nil (it is Stored sess tok pmid pseq) *)
  p_ltok : Z;                       (* lastCompletedToken *)
  p_lmid : Z;                       (* lastCompletedMessageID *)
  p_failed : bool;
  p_ntok : Z;                       (* next fresh token (uuid supply) *)
  p_log : list Z                    (* ghost: message ids in storage order; seq k is the k-th *)
}.

Definition p_init (sess : Z) (notify fx : bool) : pstate :=
  mkP sess notify fx 0 0 [] false 0 0 0 HsIdle 0 0 0 false 0 0 false 1 [].

Definition set_failed (s : pstate) : pstate :=
  mkP (p_sess s) (p_notify s) (p_fix s) (p_cur s) (p_conf s) (p_unconf s) (p_reg s) (p_nonce s) (p_demand s) (p_span s)
      (p_hs s) (p_tok s) (p_pmid s) (p_pseq s) (p_stored s) (p_ltok s) (p_lmid s) true (p_ntok s) (p_log s).

(* terminate: publish once, Shutdown *)
Definition p_terminate (s : pstate) : pstate * list pout :=
  if p_failed s then (s, []) else (set_failed s, [PShutdown]).

(* emitSequenced *)
Definition p_emit (s : pstate) (e : Z * Z) : list pout :=
  if negb (p_reg s) || (snd e >? p_demand s) then [] else [ToCC (SeqMsg (p_sess s) (fst e) (snd e))].

Fixpoint take_le (c : Z) (l : list (Z * Z)) : list (Z * Z) :=
  match l with
  | e :: t => if snd e <=? c then e :: take_le c t else []
  | [] => []
  end.
Fixpoint drop_le (c : Z) (l : list (Z * Z)) : list (Z * Z) :=
  match l with
  | e :: t => if snd e <=? c then drop_le c t else l
  | [] => []
  end.

(* advanceConfirmed (+ sendConfirmation) *)
Definition p_advance (s : pstate) (c : Z) : pstate * list pout :=
  if c <=? p_conf s then (s, [])
  else
    let cutl := take_le c (p_unconf s) in
    let notes := if p_notify s
                 then map (fun e => ToProd (DeliveryConfirmed (p_sess s) (fst e) (snd e))) cutl else [] in
    (mkP (p_sess s) (p_notify s) (p_fix s) (p_cur s) c (drop_le c (p_unconf s)) (p_reg s) (p_nonce s) (p_demand s) (p_span s)
         (p_hs s) (p_tok s) (p_pmid s) (p_pseq s) (p_stored s) (p_ltok s) (p_lmid s) (p_failed s) (p_ntok s) (p_log s),
     notes).

(* resendUnconfirmed *)
Definition p_resend (s : pstate) : list pout :=
  flat_map (p_emit s) (take_le (Z.min (p_cur s) (p_demand s)) (p_unconf s)).

(* allowNextRequest (+ sendRequestNext) *)
Definition p_allow (s : pstate) : pstate * list pout :=
  if negb (hs_eqb (p_hs s) HsIdle) || (p_cur s >=? p_demand s) then (s, [])
  else if p_cur s >=? maxI64 - 1 then p_terminate s
  else
    (mkP (p_sess s) (p_notify s) (p_fix s) (p_cur s) (p_conf s) (p_unconf s) (p_reg s) (p_nonce s) (p_demand s) (p_span s)
         HsCredit (p_ntok s) (p_pmid s) (p_pseq s) (p_stored s) (p_ltok s) (p_lmid s) (p_failed s) (p_ntok s + 1) (p_log s),
     [ToProd (RequestNext (p_sess s) (p_ntok s))]).

Definition p_set_demand (s : pstate) (d span : Z) : pstate :=
  mkP (p_sess s) (p_notify s) (p_fix s) (p_cur s) (p_conf s) (p_unconf s) (p_reg s) (p_nonce s) d span
      (p_hs s) (p_tok s) (p_pmid s) (p_pseq s) (p_stored s) (p_ltok s) (p_lmid s) (p_failed s) (p_ntok s) (p_log s).

(* handleRegisterConsumer *)
Definition p_register (s : pstate) (nonce : Z) : pstate * list pout :=
  let s1 := if negb (p_reg s) || negb (nonce =? p_nonce s)
            then mkP (p_sess s) (p_notify s) (p_fix s) (p_cur s) (p_conf s) (p_unconf s) true nonce
                     (if p_fix s then Z.min (p_demand s) (p_cur s) else p_cur s) (p_span s)
                     (p_hs s) (p_tok s) (p_pmid s) (p_pseq s) (p_stored s) (p_ltok s) (p_lmid s) (p_failed s) (p_ntok s) (p_log s)
            else s in
  (* NewRegistrationAck rejects a blank session/nonce and nextSeq <= 0 *)
  if (p_sess s1 =? 0) || (p_conf s1 + 1 <=? 0) || (p_nonce s1 =? 0) then p_terminate s1
  else (s1, [ToCC (RegAck (p_sess s1) (p_conf s1 + 1) (p_nonce s1))]).

Definition p_from_registered (s : pstate) (sess nonce : Z) : bool :=
  p_reg s && (sess =? p_sess s) && (nonce =? p_nonce s).

(* handleRequest *)
Definition p_request (s : pstate) (sess nonce c u : Z) (via : bool) : pstate * list pout :=
  if negb (p_from_registered s sess nonce) then (s, [])
  else if (c <? 0) || (c >? p_cur s) || (u <? c) || (u >? c + maxWindowCap) then p_terminate s
  else
    let '(s1, o1) := p_advance s c in
    let s2 := p_set_demand s1 u (u - c) in
    let o2 := if via then p_resend s2 else [] in
    let '(s3, o3) := p_allow s2 in
    (s3, o1 ++ o2 ++ o3).

(* handleAck *)
Definition p_ack (s : pstate) (sess nonce c : Z) : pstate * list pout :=
  if negb (p_from_registered s sess nonce) then (s, [])
  else if (c <? 0) || (c >? p_cur s) then p_terminate s
  else p_advance s c.

(* handleProduced, volatile whole-payload path: startStore -> completeStore -> replyStored *)
Definition p_produced (s : pstate) (sess tok mid : Z) : pstate * list pout :=
  if negb (sess =? p_sess s) then (s, [])
  else if negb (hs_eqb (p_hs s) HsIdle) && negb (hs_eqb (p_hs s) HsCredit) && (tok =? p_tok s) && (mid =? p_pmid s)
  then (s, [])
  else if (tok =? p_ltok s) && (mid =? p_lmid s) then (s, [])
  else if negb (hs_eqb (p_hs s) HsCredit) then p_terminate s
  else if negb (tok =? p_tok s) then p_terminate s
  else
    let seq := p_cur s + 1 in
    if (mid =? 0) || (seq <=? 0) then
      (* NewUnconfirmedMessage / NewStoreResult reject: terminal, handshake left in the store phase *)
      p_terminate (mkP (p_sess s) (p_notify s) (p_fix s) (p_cur s) (p_conf s) (p_unconf s) (p_reg s) (p_nonce s) (p_demand s) (p_span s)
                       HsStore (p_tok s) mid (if seq <=? 0 then p_pseq s else seq) (p_stored s) (p_ltok s) (p_lmid s)
                       (p_failed s) (p_ntok s) (p_log s))
    else
      (mkP (p_sess s) (p_notify s) (p_fix s) seq (p_conf s) (p_unconf s ++ [(mid, seq)]) (p_reg s) (p_nonce s) (p_demand s) (p_span s)
           HsStoredAck (p_tok s) mid seq true (p_ltok s) (p_lmid s) (p_failed s) (p_ntok s) (p_log s ++ [mid]),
       [ToProd (Stored (p_sess s) (p_tok s) mid seq)]).

(* handleStoredAck, volatile: startAccept -> completeAccept *)
Definition p_storedack (s : pstate) (sess tok mid : Z) : pstate * list pout :=
  if negb (sess =? p_sess s) then (s, [])
  else if hs_eqb (p_hs s) HsStoredAck && (tok =? p_tok s) && (mid =? p_pmid s) then
    let o1 := p_emit s (p_pmid s, p_pseq s) in
    let s1 := mkP (p_sess s) (p_notify s) (p_fix s) (p_cur s) (p_conf s) (p_unconf s) (p_reg s) (p_nonce s) (p_demand s) (p_span s)
                  HsIdle 0 0 0 false (p_tok s) (p_pmid s) (p_failed s) (p_ntok s) (p_log s) in
    let '(s2, o2) := p_allow s1 in
    (s2, o1 ++ o2)
  else if hs_eqb (p_hs s) HsAccept && (tok =? p_tok s) && (mid =? p_pmid s) then (s, [])
  else if (tok =? p_ltok s) && (mid =? p_lmid s) then (s, [])
  else p_terminate s.

(* handleTick *)
Definition p_tick (s : pstate) : list pout :=
  match p_hs s with
  | HsCredit => [ToProd (RequestNext (p_sess s) (p_tok s))]
  | HsStoredAck => if p_stored s then [ToProd (Stored (p_sess s) (p_tok s) (p_pmid s) (p_pseq s))] else []
  | _ => []
  end.

(* Receive. A controller that terminated has asked for its own shutdown: nothing further is processed. *)
Definition pc_step (s : pstate) (i : pin) : pstate * list pout :=
  if p_failed s then (s, []) else
  match i with
  | PFromCC false _ => (s, [])
  | PFromCC true (Register n) => p_register s n
  | PFromCC true (Request se n c u via) => p_request s se n c u via
  | PFromCC true (AckM se n c) => p_ack s se n c
  | PProduced false _ _ _ => (s, [])
  | PProduced true se t m => p_produced s se t m
  | PStoredAck false _ _ _ => (s, [])
  | PStoredAck true se t m => p_storedack s se t m
  | PTick true => (s, [])
  | PTick false => (s, p_tick s)
  end.

(* ---------------------------------------------------------------- consumer controller *)
Record cstate := mkC {
  c_window : Z;                     (* window *)
  c_res : bool;                     (* producerController != nil *)
  c_sess : Z;                       (* adopted sessionID, 0 until adopted *)
  c_nonce : Z;                      (* registrationNonce *)
  c_exp : Z;                        (* expectedSeq *)
  c_conf : Z;                       (* confirmedSeq *)
  c_upto : Z;                       (* requestUpToSeq *)
  c_buf : list (Z * Z);             (* buffer: (messageID, seq) ascending by seq *)
  c_infl : option (Z * Z);          (* inFlight: (messageID, seq) *)
  c_saw : bool;                     (* sawValidTraffic *)
  c_failed : bool;
  c_nnonce : Z                      (* next fresh nonce (uuid supply) *)
}.

Definition c_upd (s : cstate) res sess nonce exp conf upto buf infl saw nn : cstate :=
  mkC (c_window s) res sess nonce exp conf upto buf infl saw (c_failed s) nn.

(* state right after PreStart *)
Definition c_prestart (window : Z) : cstate := mkC window false 0 0 1 0 0 [] None false false 1.

(* register: the producer endpoint's companion always resolves in the harness topology *)
Definition c_register (s : cstate) : cstate * list cout :=
  (c_upd s true (c_sess s) (c_nnonce s) (c_exp s) (c_conf s) (c_upto s) (c_buf s) (c_infl s) (c_saw s) (c_nnonce s + 1),
   [ToPC (Register (c_nnonce s))]).

(* the state after PostStart was processed *)
Definition c_init (window : Z) : cstate := fst (c_register (c_prestart window)).
Definition c_init_out (window : Z) : list cout := snd (c_register (c_prestart window)).

(* sendRequest. NewRequest's impossible-value guard (blank nonce, negative watermark) is unreachable:
   a resolved controller with an adopted session always holds the nonce of its latest register. *)
Definition c_send_request (s : cstate) (via : bool) : cstate * list cout :=
  if negb (c_res s) || (c_sess s =? 0) then (s, [])
  else
    let upTo := c_conf s + c_window s in
    (c_upd s (c_res s) (c_sess s) (c_nonce s) (c_exp s) (c_conf s) upTo (c_buf s) (c_infl s) (c_saw s) (c_nnonce s),
     [ToPC (Request (c_sess s) (c_nonce s) (c_conf s) upTo via)]).

(* sendAck *)
Definition c_send_ack (s : cstate) : list cout :=
  if negb (c_res s) || (c_sess s =? 0) then []
  else [ToPC (AckM (c_sess s) (c_nonce s) (c_conf s))].

(* gapOpen, non-chunked buffer *)
Definition c_gap_open (s : cstate) : bool :=
  match c_buf s with
  | [] => false
  | h :: _ =>
    let nextMissing := match c_infl s with Some e => snd e + 1 | None => c_exp s end in
    snd h >? nextMissing
  end.

(* sendGapRequest with the clock oracle; solicitGapRequest is c_send_request s true *)
Definition c_gap_request (s : cstate) (gapok : bool) : cstate * list cout :=
  if gapok then c_send_request s true else (s, []).

(* deliver / deliverFrame *)
Definition c_deliver (s : cstate) (e : Z * Z) : cstate * list cout :=
  (c_upd s (c_res s) (c_sess s) (c_nonce s) (c_exp s) (c_conf s) (c_upto s) (c_buf s) (Some e) (c_saw s) (c_nnonce s),
   [ToCons (Delivery (c_sess s) (fst e) (snd e))]).

Fixpoint buf_mem (q : Z) (l : list (Z * Z)) : bool :=
  match l with [] => false | e :: t => (snd e =? q) || buf_mem q t end.
Fixpoint buf_insert (e : Z * Z) (l : list (Z * Z)) : list (Z * Z) :=
  match l with
  | [] => [e]
  | h :: t => if snd e <? snd h then e :: l else h :: buf_insert e t
  end.

(* bufferMessage *)
Definition c_buffer (s : cstate) (gapok : bool) (e : Z * Z) : cstate * list cout :=
  let b := if buf_mem (snd e) (c_buf s) then c_buf s
           else if Z.of_nat (length (c_buf s)) >=? c_window s then c_buf s
           else buf_insert e (c_buf s) in
  let s1 := c_upd s (c_res s) (c_sess s) (c_nonce s) (c_exp s) (c_conf s) (c_upto s) b (c_infl s) (c_saw s) (c_nnonce s) in
  if c_gap_open s1 then c_gap_request s1 gapok else (s1, []).

(* drain, non-chunked buffer *)
Definition c_drain (s : cstate) : cstate * list cout :=
  match c_infl s, c_buf s with
  | None, h :: t =>
    if snd h =? c_exp s then
      c_deliver (c_upd s (c_res s) (c_sess s) (c_nonce s) (c_exp s) (c_conf s) (c_upto s) t (c_infl s) (c_saw s) (c_nnonce s)) h
    else (s, [])
  | _, _ => (s, [])
  end.

Definition c_set_saw (s : cstate) (b : bool) : cstate :=
  c_upd s (c_res s) (c_sess s) (c_nonce s) (c_exp s) (c_conf s) (c_upto s) (c_buf s) (c_infl s) b (c_nnonce s).

(* handleRegistrationAck *)
Definition c_regack (s : cstate) (sess nextSeq nonce : Z) : cstate * list cout :=
  if negb (c_res s) then (s, [])
  else if negb (nonce =? c_nonce s) then (s, [])
  else
    let s1 := c_set_saw s true in
    let s2 := if negb (sess =? c_sess s1)
              then c_upd s1 (c_res s1) sess (c_nonce s1) nextSeq (nextSeq - 1) (c_upto s1) [] None (c_saw s1) (c_nnonce s1)
              else s1 in
    c_send_request s2 true.

(* handleSequencedMessage, whole (non-chunked) messages *)
Definition c_seqmsg (s : cstate) (gapok : bool) (sess mid seq : Z) : cstate * list cout :=
  if negb (c_res s) then (s, [])
  else if (c_sess s =? 0) || negb (sess =? c_sess s) then (s, [])
  else
    let s1 := c_set_saw s true in
    if (seq <? 1) || (seq >? c_upto s1) then (s1, [])
    else if seq <? c_exp s1 then (s1, c_send_ack s1)
    else if (seq =? c_exp s1) && (match c_infl s1 with None => true | Some _ => false end) then c_deliver s1 (mid, seq)
    else if (match c_infl s1 with Some e => seq =? snd e | None => false end) then (s1, [])
    else
      let '(s2, o2) := c_buffer s1 gapok (mid, seq) in
      let '(s3, o3) := c_drain s2 in
      (s3, o2 ++ o3).

Fixpoint drop_lt (x : Z) (l : list (Z * Z)) : list (Z * Z) :=
  match l with
  | e :: t => if snd e <? x then drop_lt x t else l
  | [] => []
  end.

(* batchConfirmation *)
Definition c_batch (s : cstate) : cstate * list cout :=
  if c_upto s - c_conf s <=? c_window s / 2 then c_send_request s false
  else if (match c_buf s with [] => true | _ => false end) && (match c_infl s with None => true | Some _ => false end)
  then (s, c_send_ack s)
  else (s, []).

(* handleConfirmed *)
Definition c_confirmed (s : cstate) (sess mid seq : Z) : cstate * list cout :=
  match c_infl s with
  | None => (s, [])
  | Some e =>
    if negb (sess =? c_sess s) || negb (mid =? fst e) || negb (seq =? snd e) then (s, [])
    else
      let s1 := c_upd s (c_res s) (c_sess s) (c_nonce s) (snd e + 1) (snd e) (c_upto s)
                      (drop_lt (snd e + 1) (c_buf s)) None (c_saw s) (c_nnonce s) in
      let '(s2, o2) := c_batch s1 in
      let '(s3, o3) := c_drain s2 in
      let '(s4, o4) := if c_gap_open s3 then c_send_request s3 true else (s3, []) in
      (s4, o2 ++ o3 ++ o4)
  end.

(* handleTick *)
Definition c_tick (s : cstate) (gapok : bool) : cstate * list cout :=
  let '(s1, o1) :=
    if (c_sess s =? 0) || negb (c_saw s) then c_register s
    else match c_infl s with
         | Some e => (s, [ToCons (Delivery (c_sess s) (fst e) (snd e))])
         | None => if c_gap_open s then c_gap_request s gapok else (s, [])
         end in
  (c_set_saw s1 false, o1).

Definition cc_step (s : cstate) (i : cin) : cstate * list cout :=
  if c_failed s then (s, []) else
  match i with
  | CFromPC false _ _ => (s, [])
  | CFromPC true _ (RegAck se n no) => c_regack s se n no
  | CFromPC true g (SeqMsg se m q) => c_seqmsg s g se m q
  | CConfirmed false _ _ _ => (s, [])
  | CConfirmed true se m q => c_confirmed s se m q
  | CTick true _ => (s, [])
  | CTick false g => c_tick s g
  end.

(* ---------------------------------------------------------------- the two controllers and the faulty network *)
Record sys := mkS {
  sP : pstate;
  sC : cstate;
  netPC : list cmsg;        (* everything the consumer controller ever sent to the producer controller *)
  netCC : list pmsg;        (* everything the producer controller ever sent to the consumer controller *)
  toProd : list prodmsg;    (* everything told to the producer endpoint *)
  toCons : list consmsg     (* everything told to the consumer endpoint: the Delivery sequence *)
}.

Inductive op :=
| DeliverPC (i : nat)                       (* the i-th message ever sent towards the producer controller is delivered now *)
| DeliverCC (i : nat) (gapok : bool)        (* the i-th message ever sent towards the consumer controller is delivered now *)
| TickPC
| TickCC (gapok : bool)
| Produced (sess tok mid : Z)               (* the producer endpoint: any answer, contract-abiding or not *)
| StoredAck (sess tok mid : Z)
| Confirmed (sess mid seq : Z)              (* the consumer endpoint: any confirmation, matching or stale *)
| RawPC (i : pin)                           (* tie only: arbitrary input, including forged controller traffic *)
| RawCC (i : cin).

(* the fault model of the property: loss, duplication, reordering of real traffic; no forgery *)
Definition legit (o : op) : bool :=
  match o with RawPC _ | RawCC _ => false | _ => true end.

Definition outs_toCC (o : list pout) : list pmsg :=
  flat_map (fun x => match x with ToCC m => [m] | _ => [] end) o.
Definition outs_toProd (o : list pout) : list prodmsg :=
  flat_map (fun x => match x with ToProd m => [m] | _ => [] end) o.
Definition outs_toPC (o : list cout) : list cmsg :=
  flat_map (fun x => match x with ToPC m => [m] | _ => [] end) o.
Definition outs_toCons (o : list cout) : list consmsg :=
  flat_map (fun x => match x with ToCons m => [m] | _ => [] end) o.

Definition sys_p (s : sys) (i : pin) : sys * (list pout * list cout) :=
  let '(p', o) := pc_step (sP s) i in
  (mkS p' (sC s) (netPC s) (netCC s ++ outs_toCC o) (toProd s ++ outs_toProd o) (toCons s), (o, [])).
Definition sys_c (s : sys) (i : cin) : sys * (list pout * list cout) :=
  let '(c', o) := cc_step (sC s) i in
  (mkS (sP s) c' (netPC s ++ outs_toPC o) (netCC s) (toProd s) (toCons s ++ outs_toCons o), ([], o)).

Definition sys_step_out (s : sys) (o : op) : sys * (list pout * list cout) :=
  match o with
  | DeliverPC i => match nth_error (netPC s) i with Some m => sys_p s (PFromCC true m) | None => (s, ([], [])) end
  | DeliverCC i g => match nth_error (netCC s) i with Some m => sys_c s (CFromPC true g m) | None => (s, ([], [])) end
  | TickPC => sys_p s (PTick false)
  | TickCC g => sys_c s (CTick false g)
  | Produced se t m => sys_p s (PProduced true se t m)
  | StoredAck se t m => sys_p s (PStoredAck true se t m)
  | Confirmed se m q => sys_c s (CConfirmed true se m q)
  | RawPC i => sys_p s i
  | RawCC i => sys_c s i
  end.

Definition sys_step (s : sys) (o : op) : sys := fst (sys_step_out s o).

Definition sys_init (sess : Z) (notify : bool) (window : Z) (fx : bool) : sys :=
  mkS (p_init sess notify fx) (c_init window) (outs_toPC (c_init_out window)) [] [] [].

Definition run (s : sys) (ops : list op) : sys := fold_left sys_step ops s.

(* ---------------------------------------------------------------- canonical observation encoding (tie) *)
Definition b2z (b : bool) : Z := if b then 1 else 0.
Definition enc_pmsg (m : pmsg) : list Z :=
  match m with RegAck s n no => [1; s; n; no] | SeqMsg s m q => [2; s; m; q] end.
Definition enc_prodmsg (m : prodmsg) : list Z :=
  match m with
  | RequestNext s t => [3; s; t]
  | Stored s t m q => [4; s; t; m; q]
  | DeliveryConfirmed s m q => [5; s; m; q]
  end.
Definition enc_cmsg (m : cmsg) : list Z :=
  match m with
  | Register n => [11; n]
  | Request s n c u v => [12; s; n; c; u; b2z v]
  | AckM s n c => [13; s; n; c]
  end.
Definition enc_consmsg (m : consmsg) : list Z := match m with Delivery s m q => [14; s; m; q] end.
Definition enc_pairs (l : list (Z * Z)) : list Z :=
  Z.of_nat (length l) :: flat_map (fun e => [fst e; snd e]) l.
Definition hs_z (h : hsphase) : Z :=
  match h with HsIdle => 0 | HsCredit => 1 | HsStore => 2 | HsStoredAck => 3 | HsAccept => 4 end.

(* outputs grouped by recipient (order within one recipient is what a mailbox observes) *)
Definition enc_pouts (o : list pout) : list Z :=
  [100] ++ flat_map enc_pmsg (outs_toCC o) ++ [101] ++ flat_map enc_prodmsg (outs_toProd o)
  ++ [102; b2z (existsb (fun x => match x with PShutdown => true | _ => false end) o)].
Definition enc_couts (o : list cout) : list Z :=
  [110] ++ flat_map enc_cmsg (outs_toPC o) ++ [111] ++ flat_map enc_consmsg (outs_toCons o)
  ++ [112; b2z (existsb (fun x => match x with CShutdown => true | _ => false end) o)].

Definition enc_pstate (s : pstate) : list Z :=
  [200; p_cur s; p_conf s] ++ enc_pairs (p_unconf s)
  ++ [b2z (p_reg s); p_nonce s; p_demand s; p_span s; hs_z (p_hs s); p_tok s; p_pmid s; p_pseq s; b2z (p_stored s);
      p_ltok s; p_lmid s; b2z (p_failed s)].
Definition enc_cstate (s : cstate) : list Z :=
  [210; b2z (c_res s); c_sess s; c_nonce s; c_exp s; c_conf s; c_upto s] ++ enc_pairs (c_buf s)
  ++ match c_infl s with Some e => [1; fst e; snd e] | None => [0; 0; 0] end
  ++ [b2z (c_saw s); b2z (c_failed s)].

Definition enc_obs (s : sys) (o : list pout * list cout) : list Z :=
  enc_pouts (fst o) ++ enc_couts (snd o) ++ enc_pstate (sP s) ++ enc_cstate (sC s).

Fixpoint trace (s : sys) (ops : list op) : list (list Z) :=
  match ops with
  | [] => []
  | o :: t => let '(s', out) := sys_step_out s o in enc_obs s' out :: trace s' t
  end.

Fixpoint zlist_eqb (a b : list Z) : bool :=
  match a, b with
  | [], [] => true
  | x :: a', y :: b' => (x =? y) && zlist_eqb a' b'
  | _, _ => false
  end.

(* index of the first step whose observation differs (None: the whole trace agrees) *)
Fixpoint first_diff (k : nat) (m o : list (list Z)) : option (nat * list Z) :=
  match m, o with
  | [], [] => None
  | x :: m', y :: o' => if zlist_eqb x y then first_diff (S k) m' o' else Some (k, x)
  | x :: _, [] => Some (k, x)
  | [], _ :: _ => Some (k, [])
  end.

Definition full_trace (sess : Z) (notify : bool) (window : Z) (fx : bool) (ops : list op) : list (list Z) :=
  enc_obs (sys_init sess notify window fx) ([], c_init_out window) :: trace (sys_init sess notify window fx) ops.

(* observed: the implementation's observation of the initial state followed by one observation per op *)
Definition check_case (sess : Z) (notify : bool) (window : Z) (fx : bool) (ops : list op) (observed : list (list Z)) : option (nat * list Z) :=
  first_diff 0 (full_trace sess notify window fx ops) observed.
