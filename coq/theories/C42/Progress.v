(* C42 — progress: from every reachable, non-failed state in which something is unconfirmed there is a
   fault-free continuation (two consumer ticks, loss-free in-order delivery of the newest controller
   messages, the consumer endpoint confirming what it is handed) after which the producer's
   confirmedSeq is strictly larger. The continuation is computed from the state: [recover]. *)
From Coq Require Import ZArith List Bool Lia ZifyBool.
From GV Require Import C42.Model C42.Lemmas C42.InvP C42.InvC C42.Proofs.
Import ListNotations.
Open Scope Z_scope.

Definition lastPC (s : sys) : op := DeliverPC (length (netPC s) - 1).
Definition lastCC (s : sys) : op := DeliverCC (length (netCC s) - 1) true.

(* the consumer endpoint confirms exactly the delivery it currently holds *)
Definition confirm_op (s : sys) : option op :=
  match c_infl (sC s) with
  | Some e => Some (Confirmed (c_sess (sC s)) (fst e) (snd e))
  | None => None
  end.

(* confirm what is in flight until the consumer controller reports; then let the report reach the producer *)
Fixpoint confirm_loop (fuel : nat) (s : sys) : list op :=
  match fuel with
  | O => []
  | S f =>
    match confirm_op s with
    | None => []
    | Some o =>
      let s1 := sys_step s o in
      if (length (netPC s) <? length (netPC s1))%nat then [o; lastPC s1]
      else o :: confirm_loop f s1
    end
  end.

Definition recover (s : sys) : list op :=
  let o1 := TickCC true in let s1 := sys_step s o1 in
  let o2 := TickCC true in let s2 := sys_step s1 o2 in
  let o3 := lastPC s2 in let s3 := sys_step s2 o3 in          (* the fresh RegisterConsumer reaches the producer controller *)
  let o4 := lastCC s3 in let s4 := sys_step s3 o4 in          (* its RegistrationAck reaches the consumer controller: timeout Request *)
  let o5 := lastPC s4 in let s5 := sys_step s4 o5 in          (* the Request reaches the producer controller: confirm, resend *)
  if p_conf (sP s) <? p_conf (sP s5) then [o1; o2; o3; o4; o5]
  else
    let o6 := DeliverCC (length (netCC s4)) true in let s6 := sys_step s5 o6 in   (* the first resent message *)
    [o1; o2; o3; o4; o5; o6] ++ confirm_loop (S (length (c_buf (sC s6)))) s6.

(* ------------------------------------------------------------------ fresh nonces are non-blank *)
Ltac inv_pair H := injection H as <- <-.

Lemma nn_send_request c v c' o : c_send_request c v = (c', o) -> c_nnonce c' = c_nnonce c /\ c_nonce c' = c_nonce c.
Proof. unfold c_send_request. destruct (negb (c_res c) || (c_sess c =? 0)); intros H; inv_pair H; auto. Qed.
Lemma nn_gap c g c' o : c_gap_request c g = (c', o) -> c_nnonce c' = c_nnonce c /\ c_nonce c' = c_nonce c.
Proof. unfold c_gap_request. destruct g; [apply nn_send_request|intros H; inv_pair H; auto]. Qed.
Lemma nn_deliver c e c' o : c_deliver c e = (c', o) -> c_nnonce c' = c_nnonce c /\ c_nonce c' = c_nonce c.
Proof. unfold c_deliver. intros H; inv_pair H; auto. Qed.
Lemma nn_drain c c' o : c_drain c = (c', o) -> c_nnonce c' = c_nnonce c /\ c_nonce c' = c_nonce c.
Proof.
  unfold c_drain. destruct (c_infl c); [intros H; inv_pair H; auto|]. destruct (c_buf c); [intros H; inv_pair H; auto|].
  destruct (snd p =? c_exp c); [intros H; apply nn_deliver in H; cbn in H; auto|intros H; inv_pair H; auto].
Qed.
Lemma nn_buffer c g e c' o : c_buffer c g e = (c', o) -> c_nnonce c' = c_nnonce c /\ c_nonce c' = c_nonce c.
Proof.
  unfold c_buffer. match goal with |- context [c_gap_open ?s1] => destruct (c_gap_open s1) end;
    [intros H; apply nn_gap in H; cbn in H; auto|intros H; inv_pair H; auto].
Qed.
Lemma nn_batch c c' o : c_batch c = (c', o) -> c_nnonce c' = c_nnonce c /\ c_nonce c' = c_nonce c.
Proof.
  unfold c_batch. destruct (c_upto c - c_conf c <=? c_window c / 2); [apply nn_send_request|].
  match goal with |- context [if ?b then _ else _] => destruct b end; intros H; inv_pair H; auto.
Qed.

Lemma nn_step c i c' o : cc_step c i = (c', o) -> 1 <= c_nnonce c -> 1 <= c_nnonce c'.
Proof.
  intros H Hn. unfold cc_step in H. destruct (c_failed c); [inv_pair H; assumption|].
  destruct i as [[|] g m|[|] se m q|[|] g]; try (inv_pair H; assumption).
  - destruct m as [se n no|se m q].
    + unfold c_regack in H. destruct (negb (c_res c)); [inv_pair H; assumption|].
      destruct (negb (no =? c_nonce c)); [inv_pair H; assumption|].
      apply nn_send_request in H. destruct H as [H _]. rewrite H.
      match goal with |- context [if ?b then _ else _] => destruct b end; cbn; assumption.
    + unfold c_seqmsg in H. destruct (negb (c_res c)); [inv_pair H; assumption|].
      destruct ((c_sess c =? 0) || negb (se =? c_sess c)); [inv_pair H; assumption|].
      cbv zeta in H.
      repeat match type of H with (if ?b then _ else _) = _ => destruct b end; try (inv_pair H; cbn; assumption);
        try (apply nn_deliver in H; destruct H as [H _]; rewrite H; cbn; assumption).
      destruct (c_buffer (c_set_saw c true) g (m, q)) as [s2 o2] eqn:Hb. destruct (c_drain s2) as [s3 o3] eqn:Hd. inv_pair H.
      apply nn_buffer in Hb. apply nn_drain in Hd. destruct Hb as [Hb _], Hd as [Hd _]. rewrite Hd, Hb. cbn. assumption.
  - unfold c_confirmed in H. destruct (c_infl c) as [e|]; [|inv_pair H; assumption].
    match type of H with (if ?b then _ else _) = _ => destruct b end; [inv_pair H; assumption|].
    match type of H with (let '(_, _) := c_batch ?s1 in _) = _ => destruct (c_batch s1) as [s2 o2] eqn:Hb end.
    destruct (c_drain s2) as [s3 o3] eqn:Hd.
    apply nn_batch in Hb. apply nn_drain in Hd. destruct Hb as [Hb _], Hd as [Hd _].
    destruct (c_gap_open s3).
    + destruct (c_send_request s3 true) as [s4 o4] eqn:Hr. inv_pair H. apply nn_send_request in Hr. destruct Hr as [Hr _].
      rewrite Hr, Hd, Hb. cbn. assumption.
    + inv_pair H. rewrite Hd, Hb. cbn. assumption.
  - unfold c_tick in H.
    match type of H with (let '(_, _) := ?X in _) = _ => destruct X as [s1 o1] eqn:Hx end. inv_pair H. cbn.
    destruct ((c_sess c =? 0) || negb (c_saw c)).
    + unfold c_register in Hx. inv_pair Hx. cbn. lia.
    + destruct (c_infl c); [inv_pair Hx; assumption|]. destruct (c_gap_open c); [apply nn_gap in Hx; destruct Hx as [Hx _]; rewrite Hx; assumption|inv_pair Hx; assumption].
Qed.

Lemma nn_sys_step s o : 1 <= c_nnonce (sC s) -> 1 <= c_nnonce (sC (sys_step s o)).
Proof.
  intros Hn. unfold sys_step, sys_step_out.
  assert (Hp : forall i, 1 <= c_nnonce (sC (fst (sys_p s i)))) by (intros i; unfold sys_p; destruct (pc_step (sP s) i); cbn; assumption).
  assert (Hc : forall i, 1 <= c_nnonce (sC (fst (sys_c s i)))).
  { intros i. unfold sys_c. destruct (cc_step (sC s) i) as [c' o'] eqn:H. cbn. eapply nn_step; eassumption. }
  destruct o; auto.
  - destruct (nth_error (netPC s) i); [apply Hp|assumption].
  - destruct (nth_error (netCC s) i); [apply Hc|assumption].
Qed.

Lemma nn_run s ops : 1 <= c_nnonce (sC s) -> 1 <= c_nnonce (sC (run s ops)).
Proof. revert s. induction ops as [|o ops IH]; intros s H; [assumption|]. cbn. apply IH. apply nn_sys_step. assumption. Qed.

Lemma nn_reach sess notify W fx ops : 1 <= c_nnonce (sC (run (sys_init sess notify W fx) ops)).
Proof. apply nn_run. cbn. lia. Qed.

(* ------------------------------------------------------------------ exact effect of the steps of the continuation *)
Ltac splits := repeat match goal with |- _ /\ _ => split end.

Definition same_delivery (c c' : cstate) : Prop :=
  c_conf c' = c_conf c /\ c_exp c' = c_exp c /\ c_infl c' = c_infl c /\ c_buf c' = c_buf c /\
  c_sess c' = c_sess c /\ c_window c' = c_window c /\ c_failed c' = c_failed c.

Lemma send_request_same c v c' o : c_send_request c v = (c', o) ->
  same_delivery c c' /\ c_nonce c' = c_nonce c /\ c_res c' = c_res c /\ c_saw c' = c_saw c.
Proof. unfold c_send_request. destruct (negb (c_res c) || (c_sess c =? 0)); intros H; inv_pair H; unfold same_delivery; cbn; splits; auto. Qed.

(* a consumer tick never touches the delivery state and leaves the controller "silent" *)
Lemma tick_exact c g c' o : c_failed c = false -> cc_step c (CTick false g) = (c', o) ->
  same_delivery c c' /\ c_saw c' = false /\
  (c_saw c = false -> c_nonce c' = c_nnonce c /\ c_res c' = true /\ outs_toPC o = [Register (c_nnonce c)]).
Proof.
  intros Hf H. unfold cc_step in H. rewrite Hf in H. unfold c_tick in H.
  match type of H with (let '(_, _) := ?X in _) = _ => destruct X as [s1 o1] eqn:Hx end. inv_pair H.
  destruct ((c_sess c =? 0) || negb (c_saw c)) eqn:Hc.
  - unfold c_register in Hx. inv_pair Hx. unfold same_delivery. cbn. splits; auto.
  - destruct (c_infl c) as [e|] eqn:Hi.
    + inv_pair Hx. unfold same_delivery. cbn. splits; auto. intros Hs. rewrite Hs in Hc. cbn in Hc. lia.
    + destruct (c_gap_open c).
      * unfold c_gap_request in Hx. destruct g.
        -- apply send_request_same in Hx. destruct Hx as ((A1 & A2 & A3 & A4 & A5 & A6 & A7) & A8 & A9 & A10).
           unfold same_delivery. cbn. splits; auto; try congruence. intros Hs. rewrite Hs in Hc. cbn in Hc. lia.
        -- inv_pair Hx. unfold same_delivery. cbn. splits; auto. intros Hs. rewrite Hs in Hc. cbn in Hc. lia.
      * inv_pair Hx. unfold same_delivery. cbn. splits; auto. intros Hs. rewrite Hs in Hc. cbn in Hc. lia.
Qed.

(* the producer controller receives a RegisterConsumer with a non-blank nonce *)
Lemma p_register_exact p n : p_failed p = false -> p_sess p <> 0 -> 0 <= p_conf p -> n <> 0 ->
  exists p', pc_step p (PFromCC true (Register n)) = (p', [ToCC (RegAck (p_sess p) (p_conf p + 1) n)]) /\
    p_reg p' = true /\ p_nonce p' = n /\ p_conf p' = p_conf p /\ p_cur p' = p_cur p /\ p_unconf p' = p_unconf p /\
    p_log p' = p_log p /\ p_failed p' = false /\ p_sess p' = p_sess p.
Proof.
  intros Hf Hs Hc Hn. unfold pc_step. rewrite Hf. unfold p_register.
  destruct (negb (p_reg p) || negb (n =? p_nonce p)) eqn:Hd; cbn [p_sess p_conf p_nonce].
  - destruct ((p_sess p =? 0) || (p_conf p + 1 <=? 0) || (n =? 0)) eqn:Hg; [lia|].
    eexists. split; [reflexivity|]. cbn. splits; auto.
  - destruct ((p_sess p =? 0) || (p_conf p + 1 <=? 0) || (p_nonce p =? 0)) eqn:Hg; [lia|].
    assert (n = p_nonce p) by lia. subst n. eexists. split; [reflexivity|]. splits; auto. lia.
Qed.

(* the consumer controller receives the RegistrationAck of its latest registration *)
Lemma c_regack_exact c g se n :
  c_failed c = false -> c_res c = true -> se <> 0 -> (c_sess c = 0 \/ c_sess c = se) ->
  (c_sess c = 0 -> n = 1 /\ c_conf c = 0 /\ c_exp c = 1 /\ c_buf c = [] /\ c_infl c = None) ->
  exists c', cc_step c (CFromPC true g (RegAck se n (c_nonce c))) =
             (c', [ToPC (Request se (c_nonce c) (c_conf c) (c_conf c + c_window c) true)]) /\
    c_sess c' = se /\ c_nonce c' = c_nonce c /\ c_conf c' = c_conf c /\ c_upto c' = c_conf c + c_window c /\
    c_exp c' = c_exp c /\ c_infl c' = c_infl c /\ c_buf c' = c_buf c /\ c_res c' = true /\ c_window c' = c_window c /\
    c_failed c' = false.
Proof.
  intros Hf Hr Hse Hs Hun. unfold cc_step. rewrite Hf. unfold c_regack. rewrite Hr. cbn [negb]. rewrite Z.eqb_refl. cbn [negb].
  destruct Hs as [Hz|Hz].
  - destruct (Hun Hz) as (-> & U2 & U3 & U4 & U5).
    cbn [c_sess c_set_saw c_upd]. rewrite Hz. destruct (Z.eqb_spec se 0); [contradiction|]. cbn [negb].
    unfold c_send_request. cbn. rewrite Hr. cbn. destruct (Z.eqb_spec se 0); [contradiction|].
    eexists. split; [rewrite U2; reflexivity|]. cbn. rewrite U2, U3, U4, U5. splits; auto.
  - cbn [c_sess c_set_saw c_upd]. rewrite Hz, Z.eqb_refl. cbn [negb].
    unfold c_send_request. cbn. rewrite Hr, Hz. cbn. destruct (Z.eqb_spec se 0); [contradiction|].
    eexists. split; [reflexivity|]. cbn. splits; auto.
Qed.

Lemma p_terminate_conf p p' o : p_terminate p = (p', o) -> p_conf p' = p_conf p.
Proof. unfold p_terminate. destruct (p_failed p); intros H; inv_pair H; reflexivity. Qed.

Lemma p_allow_conf p p' o : p_allow p = (p', o) -> p_conf p' = p_conf p.
Proof.
  unfold p_allow. destruct (negb (hs_eqb (p_hs p) HsIdle) || (p_cur p >=? p_demand p)); [intros H; inv_pair H; reflexivity|].
  destruct (p_cur p >=? maxI64 - 1); [apply p_terminate_conf|intros H; inv_pair H; reflexivity].
Qed.

(* a report (Request or Ack) from the registered consumer controller with a higher, in-range watermark is adopted *)
Lemma p_report_conf p m c :
  p_failed p = false -> p_reg p = true ->
  (exists u v, m = Request (p_sess p) (p_nonce p) c u v /\ c <= u <= c + maxWindowCap) \/ m = AckM (p_sess p) (p_nonce p) c ->
  p_conf p < c <= p_cur p -> 0 <= c ->
  p_conf (fst (pc_step p (PFromCC true m))) = c.
Proof.
  intros Hf Hr Hm Hc Hc0. unfold pc_step. rewrite Hf.
  assert (Hfr : p_from_registered p (p_sess p) (p_nonce p) = true) by (unfold p_from_registered; rewrite Hr, !Z.eqb_refl; reflexivity).
  assert (Hadv : forall p1 o1, p_advance p c = (p1, o1) -> p_conf p1 = c).
  { unfold p_advance. destruct (Z.leb_spec c (p_conf p)); [lia|]. intros p1 o1 Hq; inv_pair Hq. reflexivity. }
  destruct Hm as [(u & v & -> & Hu)| ->].
  - unfold p_request. rewrite Hfr. cbn [negb].
    destruct ((c <? 0) || (c >? p_cur p) || (u <? c) || (u >? c + maxWindowCap)) eqn:Hg; [lia|].
    destruct (p_advance p c) as [p1 o1] eqn:Ha. specialize (Hadv _ _ eq_refl).
    destruct (p_allow (p_set_demand p1 u (u - c))) as [p3 o3] eqn:Hal. cbn. apply p_allow_conf in Hal. cbn in Hal. congruence.
  - unfold p_ack. rewrite Hfr. cbn [negb]. destruct ((c <? 0) || (c >? p_cur p)) eqn:Hg; [lia|].
    destruct (p_advance p c) as [p1 o1] eqn:Ha. cbn. apply (Hadv _ _ eq_refl).
Qed.

(* the timeout Request at an unchanged watermark: demand is granted and the first unconfirmed message is resent *)
Lemma p_request_resend p c W :
  PInv (p_sess p) p -> p_failed p = false -> p_reg p = true -> c = p_conf p -> p_conf p < p_cur p -> 1 <= W <= maxWindowCap ->
  p_cur p < maxI64 - 1 ->
  exists p' o m1, pc_step p (PFromCC true (Request (p_sess p) (p_nonce p) c (c + W) true)) = (p', o) /\
    (exists rest, outs_toCC o = SeqMsg (p_sess p) m1 (c + 1) :: rest) /\
    p_conf p' = p_conf p /\ p_cur p' = p_cur p /\ p_reg p' = true /\ p_nonce p' = p_nonce p /\ p_failed p' = false /\
    p_sess p' = p_sess p.
Proof.
  intros I Hf Hr -> Hlt HW Hmax. unfold pc_step. rewrite Hf.
  assert (Hfr : p_from_registered p (p_sess p) (p_nonce p) = true) by (unfold p_from_registered; rewrite Hr, !Z.eqb_refl; reflexivity).
  unfold p_request. rewrite Hfr. cbn [negb]. destruct I as [I1 I2 I3 I4 I5].
  destruct ((p_conf p <? 0) || (p_conf p >? p_cur p) || (p_conf p + W <? p_conf p) || (p_conf p + W >? p_conf p + maxWindowCap)) eqn:Hg; [lia|].
  unfold p_advance. destruct (Z.leb_spec (p_conf p) (p_conf p)); [|lia].
  set (s2 := p_set_demand p (p_conf p + W) (p_conf p + W - p_conf p)).
  (* the unconfirmed buffer starts with seq confirmed+1 *)
  assert (Hun : exists m1 rest, p_unconf p = (m1, p_conf p + 1) :: rest).
  { rewrite I4. destruct (skipn (Z.to_nat (p_conf p)) (p_log p)) as [|m1 l] eqn:Hs.
    - exfalso. assert (length (skipn (Z.to_nat (p_conf p)) (p_log p)) = 0%nat) by (rewrite Hs; reflexivity).
      rewrite skipn_length in H0. lia.
    - exists m1, (number (p_conf p + 1) l). reflexivity. }
  destruct Hun as (m1 & rest & Hun).
  assert (Hres : exists r, outs_toCC (p_resend s2) = SeqMsg (p_sess p) m1 (p_conf p + 1) :: r).
  { unfold p_resend. cbn [p_cur p_demand p_unconf s2 p_set_demand]. rewrite Hun. cbn [take_le snd].
    destruct (Z.leb_spec (p_conf p + 1) (Z.min (p_cur p) (p_conf p + W))); [|lia].
    cbn [flat_map]. unfold p_emit at 1. cbn [p_reg p_demand s2 p_set_demand snd fst p_sess]. rewrite Hr. cbn [negb orb].
    destruct (Z.gtb_spec (p_conf p + 1) (p_conf p + W)); [lia|]. cbn [app outs_toCC flat_map]. eexists. reflexivity. }
  destruct Hres as [r Hres].
  destruct (p_allow s2) as [p3 o3] eqn:Hal.
  exists p3, ([] ++ p_resend s2 ++ o3), m1. split; [reflexivity|].
  assert (Hal' : p_conf p3 = p_conf p /\ p_cur p3 = p_cur p /\ p_reg p3 = true /\ p_nonce p3 = p_nonce p /\ p_failed p3 = false /\ p_sess p3 = p_sess p /\ outs_toCC o3 = []).
  { unfold p_allow in Hal. destruct (negb (hs_eqb (p_hs s2) HsIdle) || (p_cur s2 >=? p_demand s2)); [inv_pair Hal; cbn; splits; auto|].
    cbn [p_cur s2 p_set_demand] in Hal. destruct (Z.geb_spec (p_cur p) (maxI64 - 1)); [lia|]. inv_pair Hal. cbn. splits; auto. }
  destruct Hal' as (A1 & A2 & A3 & A4 & A5 & A6 & A7).
  splits; auto. cbn [app]. rewrite outs_toCC_app, A7, app_nil_r, Hres. eexists. reflexivity.
Qed.

(* the consumer controller receives the message it expects *)
Lemma c_seqmsg_expected c g se m q :
  c_failed c = false -> c_res c = true -> c_sess c = se -> se <> 0 -> q = c_exp c -> 1 <= q <= c_upto c ->
  (forall e, c_infl c = Some e -> snd e = q) ->
  exists c' o, cc_step c (CFromPC true g (SeqMsg se m q)) = (c', o) /\ outs_toPC o = [] /\
    (exists e, c_infl c' = Some e /\ snd e = q) /\
    c_conf c' = c_conf c /\ c_exp c' = c_exp c /\ c_upto c' = c_upto c /\ c_nonce c' = c_nonce c /\ c_sess c' = c_sess c /\
    c_window c' = c_window c /\ c_res c' = true /\ c_buf c' = c_buf c /\ c_failed c' = false.
Proof.
  intros Hf Hr Hs Hse -> Hq Hi. unfold cc_step. rewrite Hf. unfold c_seqmsg. rewrite Hr. cbn [negb]. rewrite Hs.
  destruct (Z.eqb_spec se 0); [contradiction|]. rewrite Z.eqb_refl. cbn [negb orb].
  cbv zeta. cbn [c_upto c_exp c_infl c_set_saw c_upd].
  destruct ((c_exp c <? 1) || (c_exp c >? c_upto c)) eqn:Hw; [lia|].
  destruct (Z.ltb_spec (c_exp c) (c_exp c)); [lia|]. rewrite Z.eqb_refl. cbn [andb].
  destruct (c_infl c) as [e|] eqn:Hie.
  - specialize (Hi e eq_refl). rewrite Hi, Z.eqb_refl.
    eexists _, _. split; [reflexivity|]. cbn. rewrite Hie. splits; eauto.
  - unfold c_deliver. eexists _, _. split; [reflexivity|]. cbn. splits; eauto.
Qed.

Lemma drop_lt_length x l : (length (drop_lt x l) <= length l)%nat.
Proof. induction l as [|a l IH]; cbn; [lia|]. destruct (snd a <? x); cbn; lia. Qed.

(* the consumer endpoint confirms the delivery in flight *)
Lemma c_confirmed_exact c e W :
  CInv (c_sess c) W c -> c_sess c <> 0 -> c_infl c = Some e ->
  exists c' o, cc_step c (CConfirmed true (c_sess c) (fst e) (snd e)) = (c', o) /\
    c_conf c' = snd e /\ c_nonce c' = c_nonce c /\ c_sess c' = c_sess c /\ c_res c' = c_res c /\ c_failed c' = false /\
    ((exists l r, outs_toPC o = l ++ [r] /\
        ((exists u v, r = Request (c_sess c) (c_nonce c) (snd e) u v /\ u = snd e + W) \/ r = AckM (c_sess c) (c_nonce c) (snd e)))
     \/ (outs_toPC o = [] /\ (exists e', c_infl c' = Some e') /\ (length (c_buf c') < length (c_buf c))%nat)).
Proof.
  intros I Hs Hi. pose proof I as [I1 I2 I3 I4 I5 I6 I7 I8 I9 I10 I11].
  unfold cc_step. rewrite I11. unfold c_confirmed. rewrite Hi. rewrite !Z.eqb_refl. cbn [negb orb].
  set (q := snd e).
  set (s1 := c_upd c (c_res c) (c_sess c) (c_nonce c) (q + 1) q (c_upto c) (drop_lt (q + 1) (c_buf c)) None (c_saw c) (c_nnonce c)).
  assert (Hsr : forall v, c_send_request s1 v =
            (c_upd s1 (c_res c) (c_sess c) (c_nonce c) (q + 1) q (q + W) (c_buf s1) None (c_saw c) (c_nnonce c),
             [ToPC (Request (c_sess c) (c_nonce c) q (q + W) v)])).
  { intros v. unfold c_send_request. cbn. rewrite I2. cbn. destruct (Z.eqb_spec (c_sess c) 0); [contradiction|]. rewrite I1. reflexivity. }
  assert (Hsorted : lb_sorted q (c_buf s1)).
  { cbn. pose proof (drop_lt_sorted (q + 1) (c_exp c - 1) (c_buf c) I5) as X. eapply lb_sorted_weaken; [|exact X]. lia. }
  assert (Hlen : (length (c_buf s1) <= length (c_buf c))%nat).
  { cbn. apply drop_lt_length. }
  (* batchConfirmation *)
  unfold c_batch. cbn [c_upto c_conf c_window s1 c_upd].
  destruct (c_upto c - q <=? c_window c / 2).
  { (* top-up Request *)
    rewrite Hsr. set (s2 := c_upd s1 _ _ _ _ _ _ _ _ _ _).
    destruct (c_drain s2) as [s3 o3] eqn:Hd.
    assert (Hd' : outs_toPC o3 = [] /\ c_conf s3 = q /\ c_nonce s3 = c_nonce c /\ c_sess s3 = c_sess c /\ c_res s3 = c_res c /\ c_failed s3 = false /\ c_window s3 = c_window c).
    { unfold c_drain in Hd. cbn in Hd. destruct (drop_lt (q + 1) (c_buf c)) as [|h t]; [inv_pair Hd; cbn; splits; auto|].
      destruct (snd h =? q + 1); [unfold c_deliver in Hd|]; inv_pair Hd; cbn; splits; auto. }
    destruct Hd' as (D1 & D2 & D3 & D4 & D5 & D6 & D7).
    destruct (c_gap_open s3).
    - destruct (c_send_request s3 true) as [s4 o4] eqn:Hr4.
      pose proof (send_request_same _ _ _ _ Hr4) as ((A1 & A2 & A3 & A4 & A5 & A6 & A7) & A8 & A9 & A10).
      assert (Ho4 : outs_toPC o4 = [Request (c_sess c) (c_nonce c) q (q + W) true]).
      { unfold c_send_request in Hr4. rewrite D5, I2, D4 in Hr4. cbn in Hr4. destruct (Z.eqb_spec (c_sess c) 0); [contradiction|].
        inv_pair Hr4. cbn. rewrite D2, D3, D7, I1. reflexivity. }
      eexists _, _. split; [reflexivity|]. splits; try congruence.
      left. exists (outs_toPC ([ToPC (Request (c_sess c) (c_nonce c) q (q + W) false)] ++ o3)), (Request (c_sess c) (c_nonce c) q (q + W) true).
      split; [rewrite !outs_toPC_app, Ho4; rewrite <- app_assoc; reflexivity|]. left. eauto.
    - eexists _, _. split; [reflexivity|]. splits; try congruence.
      left. exists [], (Request (c_sess c) (c_nonce c) q (q + W) false).
      split; [rewrite !outs_toPC_app, D1; cbn; reflexivity|]. left. eauto. }
  cbn [c_buf c_infl s1 c_upd].
  destruct (drop_lt (q + 1) (c_buf c)) as [|h t] eqn:Hb.
  { (* drained stream: Ack *)
    cbn [andb]. assert (Hack : c_send_ack s1 = [ToPC (AckM (c_sess c) (c_nonce c) q)]).
    { unfold c_send_ack. cbn. rewrite I2. cbn. destruct (Z.eqb_spec (c_sess c) 0); [contradiction|reflexivity]. }
    rewrite Hack. assert (Hd : c_drain s1 = (s1, [])) by reflexivity. rewrite Hd.
    assert (Hg : c_gap_open s1 = false) by reflexivity. rewrite Hg.
    eexists _, _. split; [reflexivity|]. cbn. splits; auto.
    left. exists [], (AckM (c_sess c) (c_nonce c) q). split; [reflexivity|]. right. reflexivity. }
  (* deferred: the buffer is not empty *)
  cbn [andb]. unfold c_drain. cbn [c_infl c_buf s1 c_upd]. cbn [c_exp s1 c_upd].
  assert (Hh : q < snd h) by (cbn in Hsorted; lia).
  destruct (Z.eqb_spec (snd h) (q + 1)) as [Heq|Hne].
  - (* the next message was buffered: it is handed over, nothing is reported yet *)
    unfold c_deliver. cbn [c_upd].
    match goal with |- context [c_gap_open ?S] => set (s3 := S) end.
    destruct (c_gap_open s3) eqn:Hg3.
    + destruct (c_send_request s3 true) as [s4 o4] eqn:Hr4.
      pose proof (send_request_same _ _ _ _ Hr4) as ((A1 & A2 & A3 & A4 & A5 & A6 & A7) & A8 & A9 & A10).
      assert (Ho4 : outs_toPC o4 = [Request (c_sess c) (c_nonce c) q (q + W) true]).
      { unfold c_send_request in Hr4. cbn in Hr4. rewrite I2 in Hr4. cbn in Hr4. destruct (Z.eqb_spec (c_sess c) 0); [contradiction|].
        inv_pair Hr4. cbn. rewrite I1. reflexivity. }
      eexists _, _. split; [reflexivity|]. splits; try (cbn in *; congruence).
      left. exists [], (Request (c_sess c) (c_nonce c) q (q + W) true). split; [rewrite !outs_toPC_app, Ho4; reflexivity|]. left. eauto.
    + eexists _, _. split; [reflexivity|]. cbn. splits; auto.
      right. splits; [reflexivity|eexists; reflexivity|]. cbn in Hlen. lia.
  - (* a gap right behind the confirmed message: solicit immediately *)
    assert (Hg : c_gap_open s1 = true).
    { unfold c_gap_open. cbn. lia. }
    rewrite Hg. rewrite Hsr.
    eexists _, _. split; [reflexivity|]. cbn. splits; auto.
    left. exists [], (Request (c_sess c) (c_nonce c) q (q + W) true). split; [reflexivity|]. left. eauto.
Qed.

(* ------------------------------------------------------------------ system-level views of single steps *)
Lemma sys_c_view s i c' o : cc_step (sC s) i = (c', o) ->
  fst (sys_c s i) = mkS (sP s) c' (netPC s ++ outs_toPC o) (netCC s) (toProd s) (toCons s ++ outs_toCons o).
Proof. intros H. unfold sys_c. rewrite H. reflexivity. Qed.

Lemma sys_p_view s i p' o : pc_step (sP s) i = (p', o) ->
  fst (sys_p s i) = mkS p' (sC s) (netPC s) (netCC s ++ outs_toCC o) (toProd s ++ outs_toProd o) (toCons s).
Proof. intros H. unfold sys_p. rewrite H. reflexivity. Qed.

Lemma nth_last {A} (l : list A) x : nth_error (l ++ [x]) (length (l ++ [x]) - 1) = Some x.
Proof. rewrite app_length. cbn. rewrite nth_error_app2 by lia. replace (length l + 1 - 1 - length l)%nat with 0%nat by lia. reflexivity. Qed.

Lemma step_tick s g : sys_step s (TickCC g) = fst (sys_c s (CTick false g)).
Proof. reflexivity. Qed.
Lemma step_deliverPC s i m : nth_error (netPC s) i = Some m -> sys_step s (DeliverPC i) = fst (sys_p s (PFromCC true m)).
Proof. intros H. unfold sys_step, sys_step_out. rewrite H. reflexivity. Qed.
Lemma step_deliverCC s i g m : nth_error (netCC s) i = Some m -> sys_step s (DeliverCC i g) = fst (sys_c s (CFromPC true g m)).
Proof. intros H. unfold sys_step, sys_step_out. rewrite H. reflexivity. Qed.
Lemma step_confirmed s se m q : sys_step s (Confirmed se m q) = fst (sys_c s (CConfirmed true se m q)).
Proof. reflexivity. Qed.

Section Progress.
Variable sess : Z.
Variable W : Z.
Hypothesis sess_nz : sess <> 0.
Hypothesis W_pos : 1 <= W.
Hypothesis W_cap : W <= maxWindowCap.

Notation Inv := (Inv sess W).

(* the loop invariant of the confirmation phase *)
Record Sync (P0 : Z) (s : sys) : Prop := {
  sy_inv : Inv s;
  sy_alive : p_failed (sP s) = false;
  sy_reg : p_reg (sP s) = true;
  sy_nonce : p_nonce (sP s) = c_nonce (sC s);
  sy_sess : c_sess (sC s) = sess;
  sy_conf : p_conf (sP s) = P0;
  sy_infl : exists e, c_infl (sC s) = Some e
}.

Lemma confirm_loop_progress fuel : forall P0 s,
  Sync P0 s -> (length (c_buf (sC s)) < fuel)%nat -> P0 < p_conf (sP (run s (confirm_loop fuel s))).
Proof.
  induction fuel as [|f IH]; intros P0 s [I Ha Hr Hn Hs Hc [e He]] Hlen; [lia|].
  cbn [confirm_loop]. unfold confirm_op. rewrite He.
  set (o := Confirmed (c_sess (sC s)) (fst e) (snd e)).
  pose proof (iC _ _ _ I) as CI. pose proof (iP _ _ _ I) as PI.
  assert (CI' : CInv (c_sess (sC s)) W (sC s)) by (rewrite Hs; exact CI).
  destruct (c_confirmed_exact (sC s) e W CI' ltac:(rewrite Hs; exact sess_nz) He) as (c' & oc & Hst & K1 & K2 & K3 & K4 & K5 & K6).
  assert (Hs1 : sys_step s o = mkS (sP s) c' (netPC s ++ outs_toPC oc) (netCC s) (toProd s) (toCons s ++ outs_toCons oc)).
  { unfold o. rewrite step_confirmed. apply sys_c_view. exact Hst. }
  assert (I1 : Inv (sys_step s o)) by (apply step_inv; auto).
  rewrite Hs1 in *. cbn [netPC].
  destruct K6 as [(l & r & Hout & Hr')|(Hout & [e' He'] & Hshort)].
  - (* the consumer controller reported: deliver the report *)
    rewrite Hout. rewrite app_length. destruct (Nat.ltb_spec (length (netPC s)) (length (netPC s) + length (l ++ [r]))).
    2:{ rewrite app_length in H. cbn in H. lia. }
    cbn [run fold_left]. rewrite Hs1. rewrite Hout in *.
    set (s1 := mkS (sP s) c' (netPC s ++ l ++ [r]) (netCC s) (toProd s) (toCons s ++ outs_toCons oc)) in *.
    assert (Hlast : nth_error (netPC s1) (length (netPC s1) - 1) = Some r).
    { cbn [netPC s1]. rewrite app_assoc. apply nth_last. }
    unfold lastPC. rewrite (step_deliverPC s1 _ r Hlast). unfold sys_p. cbn [sP s1].
    pose proof (pe_chain _ _ _ (iE _ _ _ I1)) as Hchain. cbn [sP sC s1] in Hchain. rewrite K1 in Hchain.
    pose proof (ci_infl _ _ _ CI e He) as Hq. pose proof (ci_exp _ _ _ CI) as Hexp.
    pose proof (pe_chain _ _ _ (iE _ _ _ I)) as Hchain0.
    assert (Hrep : p_conf (fst (pc_step (sP s) (PFromCC true r))) = snd e).
    { apply p_report_conf; auto; try lia.
      - rewrite (pi_sess _ _ PI), Hn. rewrite Hs in Hr'. destruct Hr' as [(u & v & -> & Hu)| ->]; [left; exists u, v; split; [reflexivity|lia]|right; reflexivity].
      - pose proof (ci_conf _ _ _ CI). lia. }
    destruct (pc_step (sP s) (PFromCC true r)) as [p' po]. cbn [fst sP] in *. lia.
  - (* nothing reported yet: the next buffered message is in flight, the buffer got shorter *)
    rewrite Hout, app_nil_r. rewrite Nat.ltb_irrefl.
    cbn [run fold_left]. rewrite Hs1. rewrite Hout, app_nil_r.
    apply IH.
    + constructor; cbn; auto; try congruence.
      * rewrite Hout, app_nil_r in I1. exact I1.
      * eauto.
    + cbn. lia.
Qed.

Lemma confirm_loop_legit fuel : forall s, forallb legit (confirm_loop fuel s) = true.
Proof.
  induction fuel as [|f IH]; intros s; [reflexivity|]. cbn [confirm_loop]. unfold confirm_op.
  destruct (c_infl (sC s)); [|reflexivity].
  match goal with |- context [if ?b then _ else _] => destruct b end; cbn; [reflexivity|apply IH].
Qed.
End Progress.

Section Progress2.
Variable sess : Z.
Variable W : Z.
Hypothesis sess_nz : sess <> 0.
Hypothesis W_pos : 1 <= W.
Hypothesis W_cap : W <= maxWindowCap.

Notation Inv := (Inv sess W).

(* phase 1: two consumer ticks; the second one is silent, so it re-registers under a fresh non-blank nonce *)
Lemma phase_ticks s :
  Inv s -> 1 <= c_nnonce (sC s) ->
  let s2 := sys_step (sys_step s (TickCC true)) (TickCC true) in
  Inv s2 /\ sP s2 = sP s /\ netCC s2 = netCC s /\
  (exists l n2, netPC s2 = l ++ [Register n2] /\ n2 <> 0 /\ c_nonce (sC s2) = n2) /\
  c_res (sC s2) = true /\ same_delivery (sC s) (sC s2).
Proof.
  intros I0 Hnn. cbv zeta.
  pose proof (iC _ _ _ I0) as C0.
  destruct (cc_step (sC s) (CTick false true)) as [c1 o1] eqn:H1.
  destruct (tick_exact _ _ _ _ (ci_failed _ _ _ C0) H1) as (S1 & Hsaw1 & _).
  assert (I1 : Inv (sys_step s (TickCC true))) by (apply step_inv; auto).
  assert (Hnn1 : 1 <= c_nnonce c1) by (eapply nn_step; eassumption).
  assert (E1 : sys_step s (TickCC true) = mkS (sP s) c1 (netPC s ++ outs_toPC o1) (netCC s) (toProd s) (toCons s ++ outs_toCons o1))
    by (rewrite step_tick; apply sys_c_view; exact H1).
  set (s1 := sys_step s (TickCC true)) in *.
  assert (Hc1 : sC s1 = c1) by (rewrite E1; reflexivity).
  pose proof (iC _ _ _ I1) as C1. rewrite Hc1 in C1.
  destruct (cc_step c1 (CTick false true)) as [c2 o2] eqn:H2.
  destruct (tick_exact _ _ _ _ (ci_failed _ _ _ C1) H2) as (S2 & Hsaw2 & Hreg2). destruct (Hreg2 Hsaw1) as (N2 & R2 & O2).
  assert (I2 : Inv (sys_step s1 (TickCC true))) by (apply step_inv; auto).
  assert (E2 : sys_step s1 (TickCC true) = mkS (sP s1) c2 (netPC s1 ++ [Register (c_nnonce c1)]) (netCC s1) (toProd s1) (toCons s1 ++ outs_toCons o2)).
  { rewrite step_tick. rewrite <- Hc1 in H2. rewrite (sys_c_view s1 _ c2 o2 H2). rewrite O2. reflexivity. }
  assert (F1 : sP s1 = sP s) by (rewrite E1; reflexivity).
  assert (F2 : netCC s1 = netCC s) by (rewrite E1; reflexivity).
  rewrite E2 in *. cbn [sP sC netCC netPC].
  splits; auto.
  - exists (netPC s1), (c_nnonce c1). splits; auto. lia.
  - destruct S1 as (T1 & T2 & T3 & T4 & T5 & T6 & T7). destruct S2 as (U1 & U2 & U3 & U4 & U5 & U6 & U7).
    unfold same_delivery. splits; congruence.
Qed.

(* phase 2: the registration reaches the producer controller *)
Lemma phase_register s2 l n2 :
  Inv s2 -> p_failed (sP s2) = false -> netPC s2 = l ++ [Register n2] -> n2 <> 0 ->
  let s3 := sys_step s2 (lastPC s2) in
  Inv s3 /\ sC s3 = sC s2 /\ netPC s3 = netPC s2 /\
  netCC s3 = netCC s2 ++ [RegAck sess (p_conf (sP s2) + 1) n2] /\
  p_reg (sP s3) = true /\ p_nonce (sP s3) = n2 /\ p_conf (sP s3) = p_conf (sP s2) /\ p_cur (sP s3) = p_cur (sP s2) /\
  p_failed (sP s3) = false.
Proof.
  intros I2 Ha Hnet Hn. cbv zeta.
  pose proof (iP _ _ _ I2) as P2.
  destruct (p_register_exact (sP s2) n2 Ha ltac:(rewrite (pi_sess _ _ P2); exact sess_nz) ltac:(destruct (pi_range _ _ P2); assumption) Hn)
    as (p3 & H3 & G1 & G2 & G3 & G4 & G5 & G6 & G7 & G8).
  assert (I3 : Inv (sys_step s2 (lastPC s2))) by (apply step_inv; auto).
  assert (E3 : sys_step s2 (lastPC s2) = mkS p3 (sC s2) (netPC s2) (netCC s2 ++ [RegAck (p_sess (sP s2)) (p_conf (sP s2) + 1) n2]) (toProd s2 ++ []) (toCons s2)).
  { unfold lastPC. rewrite (step_deliverPC s2 _ (Register n2)); [|rewrite Hnet; apply nth_last]. rewrite (sys_p_view s2 _ p3 _ H3). reflexivity. }
  rewrite E3 in *. cbn [sP sC netPC netCC]. pose proof (pi_sess _ _ P2) as Hse. rewrite Hse in *. splits; auto.
Qed.

(* phase 3: its acknowledgement reaches the consumer controller, which answers with a timeout Request *)
Lemma phase_ack s3 l pc :
  Inv s3 -> netCC s3 = l ++ [RegAck sess (pc + 1) (c_nonce (sC s3))] -> pc = p_conf (sP s3) -> c_res (sC s3) = true ->
  let s4 := sys_step s3 (lastCC s3) in
  let cc := c_conf (sC s3) in
  Inv s4 /\ sP s4 = sP s3 /\ netCC s4 = netCC s3 /\
  netPC s4 = netPC s3 ++ [Request sess (c_nonce (sC s3)) cc (cc + W) true] /\
  c_sess (sC s4) = sess /\ c_nonce (sC s4) = c_nonce (sC s3) /\ c_conf (sC s4) = cc /\ c_upto (sC s4) = cc + W /\
  c_res (sC s4) = true.
Proof.
  intros I3 Hnet -> Hres. cbv zeta.
  pose proof (iC _ _ _ I3) as C3. pose proof (iP _ _ _ I3) as P3.
  pose proof (pe_chain _ _ _ (iE _ _ _ I3)) as Hch.
  destruct (c_regack_exact (sC s3) true sess (p_conf (sP s3) + 1) (ci_failed _ _ _ C3) Hres sess_nz (ci_sess _ _ _ C3))
    as (c4 & H4 & V1 & V2 & V3 & V4 & V5 & V6 & V7 & V8 & V9 & V10).
  { intros Hz. destruct (ci_unadopted _ _ _ C3 Hz) as (Z1 & Z2 & Z3 & Z4). pose proof (ci_exp _ _ _ C3).
    destruct (pi_range _ _ P3). splits; auto; lia. }
  assert (I4 : Inv (sys_step s3 (lastCC s3))) by (apply step_inv; auto).
  assert (E4 : sys_step s3 (lastCC s3) = mkS (sP s3) c4 (netPC s3 ++ [Request sess (c_nonce (sC s3)) (c_conf (sC s3)) (c_conf (sC s3) + c_window (sC s3)) true]) (netCC s3) (toProd s3) (toCons s3 ++ [])).
  { unfold lastCC. rewrite (step_deliverCC s3 _ true (RegAck sess (p_conf (sP s3) + 1) (c_nonce (sC s3)))); [|rewrite Hnet; apply nth_last].
    rewrite (sys_c_view s3 _ c4 _ H4). reflexivity. }
  rewrite E4 in *. cbn [sP sC netPC netCC]. rewrite (ci_w _ _ _ C3) in *. splits; auto.
Qed.

(* phase 4: the Request reaches the producer controller *)
Lemma phase_request s4 l cc :
  Inv s4 -> p_failed (sP s4) = false -> p_reg (sP s4) = true -> p_nonce (sP s4) = c_nonce (sC s4) ->
  netPC s4 = l ++ [Request sess (c_nonce (sC s4)) cc (cc + W) true] -> cc = c_conf (sC s4) ->
  p_cur (sP s4) < maxI64 - 1 -> p_conf (sP s4) < p_cur (sP s4) ->
  let s5 := sys_step s4 (lastPC s4) in
  (p_conf (sP s4) < cc /\ p_conf (sP s5) = cc) \/
  (cc = p_conf (sP s4) /\ Inv s5 /\ sC s5 = sC s4 /\ netPC s5 = netPC s4 /\
   (exists m1 rest, netCC s5 = netCC s4 ++ SeqMsg sess m1 (cc + 1) :: rest) /\
   p_conf (sP s5) = p_conf (sP s4) /\ p_reg (sP s5) = true /\ p_nonce (sP s5) = p_nonce (sP s4) /\ p_failed (sP s5) = false).
Proof.
  intros I4 Ha Hr Hn Hnet Hcc Hmax Hlt. cbv zeta.
  pose proof (iP _ _ _ I4) as P4. pose proof (iC _ _ _ I4) as C4.
  pose proof (pe_chain _ _ _ (iE _ _ _ I4)) as Hch.
  set (req := Request sess (c_nonce (sC s4)) cc (cc + W) true) in *.
  assert (L5 : nth_error (netPC s4) (length (netPC s4) - 1) = Some req) by (rewrite Hnet; apply nth_last).
  assert (E5 : sys_step s4 (lastPC s4) = fst (sys_p s4 (PFromCC true req))) by (unfold lastPC; apply step_deliverPC; exact L5).
  assert (Hreq : req = Request (p_sess (sP s4)) (p_nonce (sP s4)) cc (cc + W) true) by (unfold req; rewrite (pi_sess _ _ P4), Hn; reflexivity).
  destruct (Z_lt_le_dec (p_conf (sP s4)) cc) as [Hgt|Hle].
  - left. split; [exact Hgt|]. rewrite E5. unfold sys_p.
    assert (Hrep : p_conf (fst (pc_step (sP s4) (PFromCC true req))) = cc).
    { apply (p_report_conf (sP s4) req cc Ha Hr).
      - left. exists (cc + W), true. split; [exact Hreq|lia].
      - lia.
      - pose proof (ci_conf _ _ _ C4). lia. }
    destruct (pc_step (sP s4) (PFromCC true req)). exact Hrep.
  - right. assert (Hcceq : cc = p_conf (sP s4)) by lia. split; [exact Hcceq|].
    assert (P4' : PInv (p_sess (sP s4)) (sP s4)) by (rewrite (pi_sess _ _ P4); exact P4).
    destruct (p_request_resend (sP s4) cc W P4' Ha Hr Hcceq Hlt ltac:(lia) Hmax)
      as (p5 & o5 & m1 & H5 & [rest Hres] & Q1 & Q2 & Q3 & Q4 & Q5 & Q6).
    rewrite <- Hreq in H5.
    assert (I5 : Inv (sys_step s4 (lastPC s4))) by (apply step_inv; auto).
    rewrite E5 in *. rewrite (sys_p_view s4 _ p5 o5 H5) in *. cbn [sP sC netPC netCC]. pose proof (pi_sess _ _ P4) as Hse. rewrite Hres, Hse in *.
    splits; auto. eauto.
Qed.

(* phase 5: the first resent message reaches the consumer controller; the confirmation loop can start *)
Lemma phase_resent s5 k m1 P0 :
  Inv s5 -> p_failed (sP s5) = false -> p_reg (sP s5) = true -> p_nonce (sP s5) = c_nonce (sC s5) -> c_sess (sC s5) = sess ->
  c_res (sC s5) = true -> p_conf (sP s5) = P0 -> c_conf (sC s5) = P0 -> c_upto (sC s5) = P0 + W ->
  nth_error (netCC s5) k = Some (SeqMsg sess m1 (P0 + 1)) ->
  Sync sess W P0 (sys_step s5 (DeliverCC k true)).
Proof.
  intros I5 Ha Hr Hn Hs Hres Hp Hc Hu Hnth.
  pose proof (iC _ _ _ I5) as C5.
  destruct (c_seqmsg_expected (sC s5) true sess m1 (P0 + 1) (ci_failed _ _ _ C5) Hres Hs sess_nz)
    as (c6 & o6 & H6 & O6 & [e6 [F1 F2]] & F3 & F4 & F5 & F6 & F7 & F8 & F9 & F10 & F11).
  { pose proof (ci_exp _ _ _ C5). lia. }
  { pose proof (ci_conf _ _ _ C5). lia. }
  { intros e He. pose proof (ci_infl _ _ _ C5 e He). pose proof (ci_exp _ _ _ C5). lia. }
  assert (I6 : Inv (sys_step s5 (DeliverCC k true))) by (apply step_inv; auto).
  rewrite (step_deliverCC s5 _ true _ Hnth) in *. rewrite (sys_c_view s5 _ c6 o6 H6) in *.
  constructor; cbn [sP sC]; auto; try congruence. eauto.
Qed.

Theorem recover_progress s :
  Inv s -> p_failed (sP s) = false -> 1 <= c_nnonce (sC s) -> p_cur (sP s) < maxI64 - 1 ->
  p_conf (sP s) < p_cur (sP s) ->
  p_conf (sP s) < p_conf (sP (run s (recover s))).
Proof.
  intros I0 Ha Hnn Hmax Hlt. unfold recover.
  destruct (phase_ticks s I0 Hnn) as (I2 & A1 & A2 & (l2 & n2 & A3 & A4 & A5) & A6 & A7).
  set (s2 := sys_step (sys_step s (TickCC true)) (TickCC true)) in *.
  destruct (phase_register s2 l2 n2 I2 ltac:(rewrite A1; exact Ha) A3 A4) as (I3 & B1 & B2 & B3 & B4 & B5 & B6 & B7 & B8).
  set (s3 := sys_step s2 (lastPC s2)) in *.
  destruct (phase_ack s3 (netCC s2) (p_conf (sP s2))) as (I4 & D1 & D2 & D3 & D4 & D5 & D6 & D7 & D8); auto.
  { rewrite B3, B1, A5. reflexivity. }
  { rewrite B1. exact A6. }
  set (s4 := sys_step s3 (lastCC s3)) in *.
  destruct A7 as (T1 & T2 & T3 & T4 & T5 & T6 & T7).
  assert (Hpc4 : p_conf (sP s4) = p_conf (sP s)) by (rewrite D1, B6, A1; reflexivity).
  assert (Hcur4 : p_cur (sP s4) = p_cur (sP s)) by (rewrite D1, B7, A1; reflexivity).
  destruct (phase_request s4 (netPC s3) (c_conf (sC s3))) as [[E1 E2]|(E1 & I5 & E3 & E4 & (m1 & rest & E5) & E6 & E7 & E8 & E9)]; auto.
  { rewrite D1. exact B8. } { rewrite D1. exact B4. } { rewrite D1, B5, D5, B1. symmetry. exact A5. }
  { rewrite D3, D5. reflexivity. } { rewrite Hcur4. exact Hmax. } { rewrite Hpc4, Hcur4. exact Hlt. }
  - (* the Request itself advanced the watermark *)
    fold s2 s3 s4. rewrite E2. rewrite Hpc4 in E1.
    destruct (Z.ltb_spec (p_conf (sP s)) (c_conf (sC s3))); [|lia].
    cbn [run fold_left]. fold s2 s3 s4. rewrite E2. exact E1.
  - fold s2 s3 s4. set (s5 := sys_step s4 (lastPC s4)) in *.
    rewrite E6, Hpc4, Z.ltb_irrefl.
    cbn [run fold_left app]. fold s2 s3 s4 s5.
    set (s6 := sys_step s5 (DeliverCC (length (netCC s4)) true)).
    change (fold_left sys_step (confirm_loop (S (length (c_buf (sC s6)))) s6) s6) with (run s6 (confirm_loop (S (length (c_buf (sC s6)))) s6)).
    apply (confirm_loop_progress sess W sess_nz W_pos W_cap); [|lia].
    apply (phase_resent s5 (length (netCC s4)) m1 (p_conf (sP s))); auto; try congruence.
    rewrite E5. rewrite nth_error_app2 by lia. rewrite Nat.sub_diag. rewrite <- Hpc4, <- E1. reflexivity.
Qed.

Lemma recover_legit s : forallb legit (recover s) = true.
Proof.
  unfold recover. match goal with |- context [if ?b then _ else _] => destruct b end; [reflexivity|].
  cbn [app forallb legit andb]. apply confirm_loop_legit.
Qed.

End Progress2.
