(* C42 — the confirmation notices (DeliveryConfirmed) told to the producer endpoint: with the endpoint option on,
   they are exactly the stored messages 1 .. confirmedSeq, each once, in sequence order; without it there are none. *)
From Coq Require Import ZArith List Bool Lia ZifyBool.
From GV Require Import C42.Model C42.Lemmas C42.InvP C42.InvC C42.Proofs.
Import ListNotations.
Open Scope Z_scope.

Definition dc_of (l : list prodmsg) : list (Z * Z) :=
  flat_map (fun m => match m with DeliveryConfirmed _ mid q => [(mid, q)] | _ => [] end) l.

Lemma dc_of_app a b : dc_of (a ++ b) = dc_of a ++ dc_of b.
Proof. unfold dc_of. apply flat_map_app. Qed.

Lemma outs_toProd_app a b : outs_toProd (a ++ b) = outs_toProd a ++ outs_toProd b.
Proof. unfold outs_toProd. apply flat_map_app. Qed.

Lemma take_le_number c k l : k <= c ->
  take_le c (number k l) = number k (firstn (Z.to_nat (c - k)) l).
Proof.
  revert k. induction l as [|a l IH]; intros k H; cbn [number take_le].
  - rewrite firstn_nil. reflexivity.
  - cbn [snd]. destruct (Z.leb_spec (k + 1) c).
    + replace (Z.to_nat (c - k)) with (S (Z.to_nat (c - (k + 1)))) by lia. cbn [firstn number].
      rewrite IH by lia. reflexivity.
    + replace (Z.to_nat (c - k)) with 0%nat by lia. reflexivity.
Qed.

Lemma number_app_gen k a b : number k (a ++ b) = number k a ++ number (k + Z.of_nat (length a)) b.
Proof.
  revert k. induction a as [|x a IH]; intros k; cbn [app number length].
  - replace (k + Z.of_nat 0) with k by lia. reflexivity.
  - rewrite IH. replace (k + 1 + Z.of_nat (length a)) with (k + Z.of_nat (S (length a))) by lia. reflexivity.
Qed.

Lemma firstn_split_skip {A} (n m : nat) (l : list A) : (n <= m)%nat -> firstn m l = firstn n l ++ firstn (m - n) (skipn n l).
Proof.
  revert m l. induction n as [|n IH]; intros m l H; cbn [firstn skipn app]; [rewrite Nat.sub_0_r; reflexivity|].
  destruct m as [|m]; [lia|]. destruct l as [|x l]; cbn [firstn skipn]; [rewrite firstn_nil; reflexivity|].
  cbn [app]. f_equal. apply IH. lia.
Qed.

Definition notice_list (p : pstate) : list (Z * Z) :=
  if p_notify p then number 0 (firstn (Z.to_nat (p_conf p)) (p_log p)) else [].

Section Notices.
Variable sess : Z.

Lemma p_terminate_dc p p' o : p_terminate p = (p', o) -> dc_of (outs_toProd o) = [] /\ notice_list p' = notice_list p.
Proof. unfold p_terminate. destruct (p_failed p); intros [= <- <-]; auto. Qed.

Lemma p_allow_dc p p' o : p_allow p = (p', o) -> dc_of (outs_toProd o) = [] /\ notice_list p' = notice_list p.
Proof.
  unfold p_allow. destruct (negb (hs_eqb (p_hs p) HsIdle) || (p_cur p >=? p_demand p)); [intros [= <- <-]; auto|].
  destruct (p_cur p >=? maxI64 - 1); [apply p_terminate_dc|intros [= <- <-]; auto].
Qed.

Lemma resend_dc p : dc_of (outs_toProd (p_resend p)) = [].
Proof.
  unfold p_resend. induction (take_le (Z.min (p_cur p) (p_demand p)) (p_unconf p)) as [|a l IH]; [reflexivity|].
  cbn [flat_map]. rewrite outs_toProd_app, dc_of_app, IH. unfold p_emit. destruct (negb (p_reg p) || (snd a >? p_demand p)); reflexivity.
Qed.

(* advanceConfirmed appends exactly the notices of the newly confirmed run *)
Lemma p_advance_dc p c p' o :
  PInv sess p -> 0 <= c <= p_cur p -> p_advance p c = (p', o) ->
  notice_list p' = notice_list p ++ dc_of (outs_toProd o).
Proof.
  intros I Hc H. unfold p_advance in H. destruct (Z.leb_spec c (p_conf p)).
  { injection H as <- <-. cbn. rewrite app_nil_r. reflexivity. }
  injection H as <- <-. destruct I as [I1 I2 I3 I4 I5]. unfold notice_list. cbn [p_notify p_conf p_log].
  destruct (p_notify p); [|reflexivity].
  assert (Hdc : forall l, dc_of (outs_toProd (map (fun e => ToProd (DeliveryConfirmed (p_sess p) (fst e) (snd e))) l)) = l).
  { induction l as [|[m q] l IH]; [reflexivity|]. cbn. f_equal. exact IH. }
  rewrite Hdc. rewrite I4. rewrite take_le_number by lia.
  rewrite (firstn_split_skip (Z.to_nat (p_conf p)) (Z.to_nat c) (p_log p)) by lia.
  rewrite number_app_gen. f_equal. rewrite firstn_length, Nat.min_l by lia.
  f_equal; [lia|]. f_equal. lia.
Qed.

Lemma pc_step_dc p i p' o :
  PInv sess p -> pc_step p i = (p', o) -> notice_list p' = notice_list p ++ dc_of (outs_toProd o).
Proof.
  intros I H. unfold pc_step in H.
  destruct (p_failed p); [injection H as <- <-; cbn; rewrite app_nil_r; reflexivity|].
  assert (Hsame : forall q oo, dc_of (outs_toProd oo) = [] /\ notice_list q = notice_list p -> notice_list q = notice_list p ++ dc_of (outs_toProd oo)).
  { intros q oo [A B]. rewrite A, app_nil_r. exact B. }
  destruct i as [[|] m|[|] se t m|[|] se t m|[|]]; try (injection H as <- <-; cbn; rewrite app_nil_r; reflexivity).
  - destruct m as [n|se n c u via|se n c].
    + unfold p_register in H.
      match type of H with (if ?b then _ else _) = _ => destruct b end.
      * apply Hsame. apply p_terminate_dc in H. destruct H as [A B]. split; [exact A|]. rewrite B.
        destruct (negb (p_reg p) || negb (n =? p_nonce p)); reflexivity.
      * injection H as <- <-. apply Hsame. split; [reflexivity|]. destruct (negb (p_reg p) || negb (n =? p_nonce p)); reflexivity.
    + unfold p_request in H. destruct (negb (p_from_registered p se n)); [injection H as <- <-; cbn; rewrite app_nil_r; reflexivity|].
      destruct ((c <? 0) || (c >? p_cur p) || (u <? c) || (u >? c + maxWindowCap)) eqn:Hr; [apply Hsame; eapply p_terminate_dc; exact H|].
      destruct (p_advance p c) as [s1 o1] eqn:Ha.
      pose proof (p_advance_dc p c s1 o1 I ltac:(lia) Ha) as Hadv.
      destruct (p_allow (p_set_demand s1 u (u - c))) as [s3 o3] eqn:Hal. injection H as <- <-.
      apply p_allow_dc in Hal. destruct Hal as [A B].
      rewrite !outs_toProd_app, !dc_of_app, A, app_nil_r. rewrite B.
      replace (notice_list (p_set_demand s1 u (u - c))) with (notice_list s1) by reflexivity.
      destruct via; [rewrite resend_dc|cbn [outs_toProd flat_map dc_of]]; rewrite app_nil_r; exact Hadv.
    + unfold p_ack in H. destruct (negb (p_from_registered p se n)); [injection H as <- <-; cbn; rewrite app_nil_r; reflexivity|].
      destruct ((c <? 0) || (c >? p_cur p)) eqn:Hr; [apply Hsame; eapply p_terminate_dc; exact H|].
      apply (p_advance_dc p c p' o I); [lia|exact H].
  - unfold p_produced in H.
    repeat match type of H with (if ?b then _ else _) = _ => destruct b end;
      try (injection H as <- <-; cbn; rewrite app_nil_r; reflexivity);
      try (apply Hsame; eapply p_terminate_dc; exact H).
    + apply Hsame. apply p_terminate_dc in H. destruct H as [A B]. split; [exact A|]. rewrite B. reflexivity.
    + injection H as <- <-. apply Hsame. split; [reflexivity|]. unfold notice_list. cbn. destruct (p_notify p); [|reflexivity].
      destruct I as [I1 I2 I3 I4 I5]. rewrite firstn_app. replace (Z.to_nat (p_conf p) - length (p_log p))%nat with 0%nat by lia.
      cbn [firstn]. rewrite app_nil_r. reflexivity.
  - unfold p_storedack in H.
    destruct (negb (se =? p_sess p)); [injection H as <- <-; cbn; rewrite app_nil_r; reflexivity|].
    destruct (hs_eqb (p_hs p) HsStoredAck && (t =? p_tok p) && (m =? p_pmid p)).
    + match type of H with (let '(_, _) := p_allow ?S1 in _) = _ => destruct (p_allow S1) as [s2 o2] eqn:Hal end.
      injection H as <- <-. apply p_allow_dc in Hal. destruct Hal as [A B].
      rewrite outs_toProd_app, dc_of_app, A, app_nil_r. rewrite B.
      unfold p_emit. destruct (negb (p_reg p) || (snd (p_pmid p, p_pseq p) >? p_demand p)); cbn; rewrite app_nil_r; reflexivity.
    + destruct (hs_eqb (p_hs p) HsAccept && (t =? p_tok p) && (m =? p_pmid p)); [injection H as <- <-; cbn; rewrite app_nil_r; reflexivity|].
      destruct ((t =? p_ltok p) && (m =? p_lmid p)); [injection H as <- <-; cbn; rewrite app_nil_r; reflexivity|].
      apply Hsame. eapply p_terminate_dc. exact H.
  - injection H as <- <-. apply Hsame. split; [|reflexivity]. unfold p_tick. destruct (p_hs p); try reflexivity. destruct (p_stored p); reflexivity.
Qed.

End Notices.

Section NoticesSys.
Variable sess : Z.
Variable W : Z.
Hypothesis sess_nz : sess <> 0.
Hypothesis W_pos : 1 <= W.

Definition notices_ok (s : sys) : Prop := dc_of (toProd s) = notice_list (sP s).

Lemma step_notices s o : Inv sess W s -> notices_ok s -> notices_ok (sys_step s o).
Proof.
  intros I N. unfold sys_step, sys_step_out.
  assert (Hp : forall i, notices_ok (fst (sys_p s i))).
  { intros i. unfold sys_p. destruct (pc_step (sP s) i) as [p' po] eqn:Hst. unfold notices_ok. cbn.
    rewrite dc_of_app. rewrite N. symmetry. apply (pc_step_dc sess (sP s) i p' po (iP _ _ _ I) Hst). }
  assert (Hc : forall i, notices_ok (fst (sys_c s i))).
  { intros i. unfold sys_c. destruct (cc_step (sC s) i). exact N. }
  destruct o; auto.
  - destruct (nth_error (netPC s) i); [apply Hp|exact N].
  - destruct (nth_error (netCC s) i); [apply Hc|exact N].
Qed.

Theorem reach_notices notify fx ops : forallb legit ops = true ->
  notices_ok (run (sys_init sess notify W fx) ops).
Proof.
  intros Hl.
  assert (G : forall s, Inv sess W s -> notices_ok s -> forallb legit ops = true -> notices_ok (run s ops)).
  { induction ops as [|o l IH]; intros s I N H; [exact N|]. cbn in H. apply andb_true_iff in H. destruct H as [H1 H2].
    cbn [run fold_left]. apply (IH H2); [apply step_inv; auto|apply step_notices; auto|exact H2]. }
  apply G; [apply Inv_init; assumption| |exact Hl].
  unfold notices_ok, notice_list. cbn. destruct notify; reflexivity.
Qed.

End NoticesSys.
