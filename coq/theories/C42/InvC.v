(* C42/C43 — the consumer controller's step: invariant, what it may send, and the shape of the
   Delivery sequence it hands to the consumer endpoint. *)
From Coq Require Import ZArith List Bool Lia ZifyBool.
From GV Require Import C42.Model C42.Lemmas C42.InvP.
Import ListNotations.
Open Scope Z_scope.

(* The Delivery sequence: the first is seq 1, each next one repeats the previous seq or is the next
   seq, and the Delivery of seq q carries the q-th stored message. k is the highest seq handed so far. *)
Inductive handed_ok (log : list Z) : list consmsg -> Z -> Prop :=
| h_nil : handed_ok log [] 0
| h_again : forall h k s m, handed_ok log h k -> logat log k m -> handed_ok log (h ++ [Delivery s m k]) k
| h_next : forall h k s m, handed_ok log h k -> logat log (k + 1) m -> handed_ok log (h ++ [Delivery s m (k + 1)]) (k + 1).

Lemma handed_ok_app log l h k : handed_ok log h k -> handed_ok (log ++ l) h k.
Proof. induction 1; [constructor|apply h_again|apply h_next]; auto using logat_app. Qed.

Section InvC.
Variable sess : Z.
Variable W : Z.
Hypothesis sess_nz : sess <> 0.
Hypothesis W_pos : 1 <= W.

Notation okP := (okP sess).
Notation okC := (okC sess W).

Record CInv (c : cstate) : Prop := {
  ci_w : c_window c = W;
  ci_res : c_res c = true;
  ci_exp : c_exp c = c_conf c + 1;
  ci_conf : 0 <= c_conf c;
  ci_sorted : lb_sorted (c_exp c - 1) (c_buf c);
  ci_bufhi : forall e, In e (c_buf c) -> snd e <= c_upto c;
  ci_infl : forall e, c_infl c = Some e -> snd e = c_exp c;
  ci_upto : c_upto c <= c_conf c + W;
  ci_sess : c_sess c = 0 \/ c_sess c = sess;
  ci_unadopted : c_sess c = 0 -> c_upto c = 0 /\ c_conf c = 0 /\ c_buf c = [] /\ c_infl c = None;
  ci_failed : c_failed c = false
}.

(* between two steps the buffer never holds the expected sequence itself *)
Definition CRest (c : cstate) : Prop := forall e, In e (c_buf c) -> snd e <> c_exp c.

(* joint facts with the producer's log *)
Record CJ (log : list Z) (c : cstate) : Prop := {
  cj_buf : forall e, In e (c_buf c) -> logat log (snd e) (fst e);
  cj_infl : forall e, c_infl c = Some e -> logat log (snd e) (fst e);
  cj_conf : c_conf c <= Z.of_nat (length log)
}.

Definition K (c : cstate) : Z := match c_infl c with Some _ => c_exp c | None => c_conf c end.

Definition fresh_delivery (c' : cstate) (d : consmsg) : Prop :=
  match d with Delivery s m q => s = sess /\ c_infl c' = Some (m, q) /\ c_conf c' + 1 = q end.

Record CPost (log : list Z) (c c' : cstate) (o : list cout) : Prop := {
  cp_inv : CInv c';
  cp_j : CJ log c';
  cp_conf : c_conf c <= c_conf c';
  cp_upto : c_upto c <= c_upto c';
  cp_out : Forall (okC (c_conf c') (c_upto c')) (outs_toPC o);
  cp_sess : c_sess c' = 0 -> c_sess c = 0;
  cp_handed : forall h, handed_ok log h (K c) -> handed_ok log (h ++ outs_toCons o) (K c');
  cp_fresh : Forall (fresh_delivery c') (outs_toCons o)
}.

Lemma outs_toPC_app a b : outs_toPC (a ++ b) = outs_toPC a ++ outs_toPC b.
Proof. unfold outs_toPC. apply flat_map_app. Qed.
Lemma outs_toCons_app a b : outs_toCons (a ++ b) = outs_toCons a ++ outs_toCons b.
Proof. unfold outs_toCons. apply flat_map_app. Qed.

Lemma okC_mono c u c' u' m : c <= c' -> u <= u' -> okC c u m -> okC c' u' m.
Proof. intros Hc Hu. destruct m; cbn; intuition lia. Qed.

Lemma CPost_refl log c : CInv c -> CJ log c -> CPost log c c [].
Proof. intros I J. constructor; auto; try lia; cbn; try constructor. intros h Hh. rewrite app_nil_r. exact Hh. Qed.

Lemma CPost_trans log c c1 c2 o1 o2 :
  CPost log c c1 o1 -> CPost log c1 c2 o2 ->
  (outs_toCons o1 = [] \/ (c_infl c2 = c_infl c1 /\ c_conf c2 = c_conf c1)) ->
  CPost log c c2 (o1 ++ o2).
Proof.
  intros A B Hk. destruct A as [A1 A2 A3 A4 A5 A6 A7 A8]. destruct B as [B1 B2 B3 B4 B5 B6 B7 B8].
  constructor; auto; try lia.
  - rewrite outs_toPC_app. apply Forall_app. split; [|assumption].
    eapply Forall_impl; [|exact A5]. intros m. apply okC_mono; lia.
  - rewrite outs_toCons_app. intros h Hh. rewrite app_assoc. apply B7. apply A7. exact Hh.
  - rewrite outs_toCons_app. apply Forall_app. split; [|assumption].
    destruct Hk as [Hk|[Hk1 Hk2]]; [rewrite Hk; constructor|].
    eapply Forall_impl; [|exact A8]. intros [s m q]. unfold fresh_delivery. rewrite Hk1, Hk2. auto.
Qed.

Ltac cfin := cbn; try (intros; discriminate); try lia; auto.

(* sendRequest *)
Lemma c_send_request_post log c via c' o :
  CInv c -> CJ log c -> c_send_request c via = (c', o) ->
  CPost log c c' o /\ outs_toCons o = [] /\ c_infl c' = c_infl c /\ c_conf c' = c_conf c /\ c_buf c' = c_buf c /\
  c_exp c' = c_exp c /\ c_sess c' = c_sess c.
Proof.
  intros I J H. unfold c_send_request in H.
  destruct (negb (c_res c) || (c_sess c =? 0)) eqn:Hc; inv_pair H.
  { splits; auto. apply CPost_refl; assumption. }
  destruct I as [I1 I2 I3 I4 I5 I6 I7 I8 I9 I10 I11]. destruct J as [J1 J2 J3].
  assert (Hs : c_sess c = sess) by (destruct I9; [lia|assumption]).
  splits; try reflexivity. constructor; cbn; auto; try lia.
  - constructor; cfin. intros e He. specialize (I6 e He). lia.
  - constructor; cfin.
  - constructor; [|constructor]. cbn. rewrite I1. lia.
  - intros h Hh. rewrite app_nil_r. exact Hh.
Qed.

Lemma c_send_ack_ok c : CInv c -> Forall (okC (c_conf c) (c_upto c)) (outs_toPC (c_send_ack c)) /\ outs_toCons (c_send_ack c) = [].
Proof.
  intros I. unfold c_send_ack. destruct (negb (c_res c) || (c_sess c =? 0)) eqn:Hc; cbn; [split; [constructor|reflexivity]|].
  destruct I. split; [|reflexivity]. constructor; [|constructor]. cbn. destruct ci_sess0; lia.
Qed.

Lemma CPost_same log c o : CInv c -> CJ log c -> Forall (okC (c_conf c) (c_upto c)) (outs_toPC o) -> outs_toCons o = [] -> CPost log c c o.
Proof.
  intros I J Ho Hc. constructor; auto; try lia; rewrite Hc; [|constructor].
  intros h Hh. rewrite app_nil_r. exact Hh.
Qed.

(* deliver *)
Lemma c_deliver_post log c e c' o :
  CInv c -> CJ log c -> c_infl c = None -> snd e = c_exp c -> logat log (snd e) (fst e) -> c_sess c = sess ->
  lb_sorted (c_exp c) (c_buf c) ->
  c_deliver c e = (c', o) ->
  CPost log c c' o /\ CRest c'.
Proof.
  intros I J Hn He Hl Hs Hsrt H. unfold c_deliver in H. inv_pair H.
  destruct I as [I1 I2 I3 I4 I5 I6 I7 I8 I9 I10 I11]. destruct J as [J1 J2 J3].
  split.
  - constructor; cbn; auto; try lia.
    + constructor; cfin. intros e0 He0. inversion He0; subst. assumption.
    + constructor; cfin. intros e0 He0. inversion He0; subst. assumption.
    + intros h Hh. unfold K in *. cbn. rewrite Hn in Hh. rewrite He, I3. apply h_next; [exact Hh|].
      rewrite <- I3, <- He. exact Hl.
    + constructor; [|constructor]. destruct e as [m q]. cbn in *. splits; auto. lia.
  - intros e0 He0. cbn in *. pose proof (lb_sorted_in _ _ _ Hsrt He0). lia.
Qed.

(* drain *)
Lemma c_drain_post log c c' o :
  CInv c -> CJ log c -> (c_infl c = None -> c_sess c = sess) -> (c_infl c <> None -> CRest c) -> c_drain c = (c', o) ->
  CPost log c c' o /\ CRest c' /\ outs_toPC o = [].
Proof.
  intros I J Hs Hr H. unfold c_drain in H.
  destruct (c_infl c) eqn:Hi.
  { inv_pair H. splits; [apply CPost_refl; assumption|apply Hr; discriminate|reflexivity]. }
  destruct (c_buf c) as [|hd tl] eqn:Hb.
  { inv_pair H. splits; [apply CPost_refl; assumption| |reflexivity]. intros e He. rewrite Hb in He. contradiction. }
  destruct (Z.eqb_spec (snd hd) (c_exp c)).
  - set (c1 := c_upd c _ _ _ _ _ _ tl _ _ _) in H.
    pose proof I as I0. destruct I as [I1 I2 I3 I4 I5 I6 I7 I8 I9 I10 I11]. pose proof J as J0. destruct J as [J1 J2 J3].
    rewrite Hb in I5, I6, J1. cbn [lb_sorted] in I5. destruct I5 as [I5a I5b].
    assert (I' : CInv c1).
    { constructor; cfin.
      - eapply lb_sorted_weaken; [|exact I5b]. lia.
      - intros x Hx. apply I6. right. exact Hx.
      - intros Hz. destruct (I10 Hz) as (_ & _ & Habs & _). rewrite Hb in Habs. discriminate. }
    assert (J' : CJ log c1).
    { constructor; cfin. intros x Hx. apply J1. right. exact Hx. }
    assert (Hsrt : lb_sorted (c_exp c1) (c_buf c1)) by (cbn; rewrite <- e; exact I5b).
    destruct (c_deliver_post log c1 hd c' o I' J' eq_refl e (J1 hd (or_introl eq_refl)) (Hs eq_refl) Hsrt H) as [P R].
    splits; [|exact R|unfold c_deliver in H; inv_pair H; reflexivity].
    destruct P as [P1 P2 P3 P4 P5 P6 P7 P8]. constructor; auto.
    unfold K in *. rewrite Hi. subst c1. cbn in P7. exact P7.
  - inv_pair H. splits; [apply CPost_refl; assumption| |reflexivity].
    destruct I. rewrite Hb in ci_sorted0. cbn in ci_sorted0. destruct ci_sorted0 as [S1 S2].
    intros x Hx. rewrite Hb in Hx. destruct Hx as [<-|Hx]; [assumption|].
    pose proof (lb_sorted_in _ _ _ S2 Hx). lia.
Qed.

End InvC.
