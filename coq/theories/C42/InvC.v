(* C42/C43 — the consumer controller's step: invariant, what it may send, and the shape of the
   Delivery sequence it hands to the consumer endpoint. *)
From Coq Require Import ZArith List Bool Lia ZifyBool.
From GV Require Import C42.Model C42.Lemmas C42.InvP.
Import ListNotations.
Open Scope Z_scope.

(* The Delivery sequence: the first is seq 1, each next one repeats the previous seq or is the next
   seq, and the Delivery of seq q carries the q-th stored message. k is the highest seq handed so far. *)
Inductive handed_ok (log : list Z) : list consmsg -> Z -> Prop :=
| h_nil : handed_ok log [] 0
| h_again : forall h k s m, handed_ok log h k -> logat log k m -> handed_ok log (h ++ [Delivery s m k]) k
| h_next : forall h k s m, handed_ok log h k -> logat log (k + 1) m -> handed_ok log (h ++ [Delivery s m (k + 1)]) (k + 1).

Lemma handed_ok_app log l h k : handed_ok log h k -> handed_ok (log ++ l) h k.
Proof. induction 1; [constructor|apply h_again|apply h_next]; auto using logat_app. Qed.

Section InvC.
Variable sess : Z.
Variable W : Z.
Hypothesis sess_nz : sess <> 0.
Hypothesis W_pos : 1 <= W.

Notation okP := (okP sess).
Notation okC := (okC sess W).

Record CInv (c : cstate) : Prop := {
  ci_w : c_window c = W;
  ci_res : c_res c = true;
  ci_exp : c_exp c = c_conf c + 1;
  ci_conf : 0 <= c_conf c;
  ci_sorted : lb_sorted (c_exp c - 1) (c_buf c);
  ci_bufhi : forall e, In e (c_buf c) -> snd e <= c_upto c;
  ci_infl : forall e, c_infl c = Some e -> snd e = c_exp c;
  ci_upto : c_upto c <= c_conf c + W;
  ci_sess : c_sess c = 0 \/ c_sess c = sess;
  ci_unadopted : c_sess c = 0 -> c_upto c = 0 /\ c_conf c = 0 /\ c_buf c = [] /\ c_infl c = None;
  ci_failed : c_failed c = false
}.

(* between two steps the buffer never holds the expected sequence itself *)
Definition CRest (c : cstate) : Prop := forall e, In e (c_buf c) -> snd e <> c_exp c.

(* joint facts with the producer's log *)
Record CJ (log : list Z) (c : cstate) : Prop := {
  cj_buf : forall e, In e (c_buf c) -> logat log (snd e) (fst e);
  cj_infl : forall e, c_infl c = Some e -> logat log (snd e) (fst e);
  cj_conf : c_conf c <= Z.of_nat (length log)
}.

Definition K (c : cstate) : Z := match c_infl c with Some _ => c_exp c | None => c_conf c end.

Definition fresh_delivery (c' : cstate) (d : consmsg) : Prop :=
  match d with Delivery s m q => s = sess /\ c_infl c' = Some (m, q) /\ c_conf c' + 1 = q end.

Record CPost (log : list Z) (c c' : cstate) (o : list cout) : Prop := {
  cp_inv : CInv c';
  cp_j : CJ log c';
  cp_conf : c_conf c <= c_conf c';
  cp_upto : c_upto c <= c_upto c';
  cp_out : Forall (okC (c_conf c') (c_upto c')) (outs_toPC o);
  cp_sess : c_sess c' = 0 -> c_sess c = 0;
  cp_handed : forall h, handed_ok log h (K c) -> handed_ok log (h ++ outs_toCons o) (K c');
  cp_fresh : Forall (fresh_delivery c') (outs_toCons o)
}.

Lemma outs_toPC_app a b : outs_toPC (a ++ b) = outs_toPC a ++ outs_toPC b.
Proof. unfold outs_toPC. apply flat_map_app. Qed.
Lemma outs_toCons_app a b : outs_toCons (a ++ b) = outs_toCons a ++ outs_toCons b.
Proof. unfold outs_toCons. apply flat_map_app. Qed.

Lemma okC_mono c u c' u' m : c <= c' -> u <= u' -> okC c u m -> okC c' u' m.
Proof. intros Hc Hu. destruct m; cbn; intuition lia. Qed.

Lemma CPost_refl log c : CInv c -> CJ log c -> CPost log c c [].
Proof. intros I J. constructor; auto; try lia; cbn; try constructor. intros h Hh. rewrite app_nil_r. exact Hh. Qed.

Lemma CPost_trans log c c1 c2 o1 o2 :
  CPost log c c1 o1 -> CPost log c1 c2 o2 ->
  (outs_toCons o1 = [] \/ (c_infl c2 = c_infl c1 /\ c_conf c2 = c_conf c1)) ->
  CPost log c c2 (o1 ++ o2).
Proof.
  intros A B Hk. destruct A as [A1 A2 A3 A4 A5 A6 A7 A8]. destruct B as [B1 B2 B3 B4 B5 B6 B7 B8].
  constructor; auto; try lia.
  - rewrite outs_toPC_app. apply Forall_app. split; [|assumption].
    eapply Forall_impl; [|exact A5]. intros m. apply okC_mono; lia.
  - rewrite outs_toCons_app. intros h Hh. rewrite app_assoc. apply B7. apply A7. exact Hh.
  - rewrite outs_toCons_app. apply Forall_app. split; [|assumption].
    destruct Hk as [Hk|[Hk1 Hk2]]; [rewrite Hk; constructor|].
    eapply Forall_impl; [|exact A8]. intros [s m q]. unfold fresh_delivery. rewrite Hk1, Hk2. auto.
Qed.

Ltac cfin := cbn; try (intros; discriminate); try lia; auto.

(* sendRequest *)
Lemma c_send_request_post log c via c' o :
  CInv c -> CJ log c -> c_send_request c via = (c', o) ->
  CPost log c c' o /\ outs_toCons o = [] /\ c_infl c' = c_infl c /\ c_conf c' = c_conf c /\ c_buf c' = c_buf c /\
  c_exp c' = c_exp c /\ c_sess c' = c_sess c.
Proof.
  intros I J H. unfold c_send_request in H.
  destruct (negb (c_res c) || (c_sess c =? 0)) eqn:Hc; inv_pair H.
  { splits; auto. apply CPost_refl; assumption. }
  destruct I as [I1 I2 I3 I4 I5 I6 I7 I8 I9 I10 I11]. destruct J as [J1 J2 J3].
  assert (Hs : c_sess c = sess) by (destruct I9; [lia|assumption]).
  splits; try reflexivity. constructor; cbn; auto; try lia.
  - constructor; cfin. intros e He. specialize (I6 e He). lia.
  - constructor; cfin.
  - constructor; [|constructor]. cbn. rewrite I1. lia.
  - intros h Hh. rewrite app_nil_r. exact Hh.
Qed.

Lemma c_send_ack_ok c : CInv c -> Forall (okC (c_conf c) (c_upto c)) (outs_toPC (c_send_ack c)) /\ outs_toCons (c_send_ack c) = [].
Proof.
  intros I. unfold c_send_ack. destruct (negb (c_res c) || (c_sess c =? 0)) eqn:Hc; cbn; [split; [constructor|reflexivity]|].
  destruct I. split; [|reflexivity]. constructor; [|constructor]. cbn. destruct ci_sess0; lia.
Qed.

Lemma CPost_same log c o : CInv c -> CJ log c -> Forall (okC (c_conf c) (c_upto c)) (outs_toPC o) -> outs_toCons o = [] -> CPost log c c o.
Proof.
  intros I J Ho Hc. constructor; auto; try lia; rewrite Hc; [|constructor].
  intros h Hh. rewrite app_nil_r. exact Hh.
Qed.

(* deliver *)
Lemma c_deliver_post log c e c' o :
  CInv c -> CJ log c -> c_infl c = None -> snd e = c_exp c -> logat log (snd e) (fst e) -> c_sess c = sess ->
  lb_sorted (c_exp c) (c_buf c) ->
  c_deliver c e = (c', o) ->
  CPost log c c' o /\ CRest c'.
Proof.
  intros I J Hn He Hl Hs Hsrt H. unfold c_deliver in H. inv_pair H.
  destruct I as [I1 I2 I3 I4 I5 I6 I7 I8 I9 I10 I11]. destruct J as [J1 J2 J3].
  split.
  - constructor; cbn; auto; try lia.
    + constructor; cfin. intros e0 He0. inversion He0; subst. assumption.
    + constructor; cfin. intros e0 He0. inversion He0; subst. assumption.
    + intros h Hh. unfold K in *. cbn. rewrite Hn in Hh. rewrite He, I3. apply h_next; [exact Hh|].
      rewrite <- I3, <- He. exact Hl.
    + constructor; [|constructor]. destruct e as [m q]. cbn in *. splits; auto. lia.
  - intros e0 He0. cbn in *. pose proof (lb_sorted_in _ _ _ Hsrt He0). lia.
Qed.

(* drain *)
Lemma c_drain_post log c c' o :
  CInv c -> CJ log c -> (c_infl c = None -> c_sess c = sess) -> (c_infl c <> None -> CRest c) -> c_drain c = (c', o) ->
  CPost log c c' o /\ CRest c' /\ outs_toPC o = [].
Proof.
  intros I J Hs Hr H. unfold c_drain in H.
  destruct (c_infl c) eqn:Hi.
  { inv_pair H. splits; [apply CPost_refl; assumption|apply Hr; discriminate|reflexivity]. }
  destruct (c_buf c) as [|hd tl] eqn:Hb.
  { inv_pair H. splits; [apply CPost_refl; assumption| |reflexivity]. intros e He. rewrite Hb in He. contradiction. }
  destruct (Z.eqb_spec (snd hd) (c_exp c)).
  - set (c1 := c_upd c _ _ _ _ _ _ tl _ _ _) in H.
    pose proof I as I0. destruct I as [I1 I2 I3 I4 I5 I6 I7 I8 I9 I10 I11]. pose proof J as J0. destruct J as [J1 J2 J3].
    rewrite Hb in I5, I6, J1. cbn [lb_sorted] in I5. destruct I5 as [I5a I5b].
    assert (I' : CInv c1).
    { constructor; cfin.
      - eapply lb_sorted_weaken; [|exact I5b]. lia.
      - intros x Hx. apply I6. right. exact Hx.
      - intros Hz. destruct (I10 Hz) as (_ & _ & Habs & _). rewrite Hb in Habs. discriminate. }
    assert (J' : CJ log c1).
    { constructor; cfin. intros x Hx. apply J1. right. exact Hx. }
    assert (Hsrt : lb_sorted (c_exp c1) (c_buf c1)) by (cbn; rewrite <- e; exact I5b).
    destruct (c_deliver_post log c1 hd c' o I' J' eq_refl e (J1 hd (or_introl eq_refl)) (Hs eq_refl) Hsrt H) as [P R].
    splits; [|exact R|unfold c_deliver in H; inv_pair H; reflexivity].
    destruct P as [P1 P2 P3 P4 P5 P6 P7 P8]. constructor; auto.
    unfold K in *. rewrite Hi. subst c1. cbn in P7. exact P7.
  - inv_pair H. splits; [apply CPost_refl; assumption| |reflexivity].
    destruct I. rewrite Hb in ci_sorted0. cbn in ci_sorted0. destruct ci_sorted0 as [S1 S2].
    intros x Hx. rewrite Hb in Hx. destruct Hx as [<-|Hx]; [assumption|].
    pose proof (lb_sorted_in _ _ _ S2 Hx). lia.
Qed.


Lemma rest_sorted c : CInv c -> CRest c -> lb_sorted (c_exp c) (c_buf c).
Proof.
  intros I R. destruct I. unfold CRest in R. destruct (c_buf c) as [|hd tl]; [exact I|].
  cbn in *. destruct ci_sorted0 as [S1 S2]. split; [|assumption].
  specialize (R hd (or_introl eq_refl)). lia.
Qed.

Lemma saw_inv c b : CInv c -> CInv (c_set_saw c b).
Proof. intros []. constructor; cfin. Qed.
Lemma saw_j log c b : CJ log c -> CJ log (c_set_saw c b).
Proof. intros []. constructor; cfin. Qed.

Lemma CPost_saw log c c' o b : CPost log c c' o -> CPost log c (c_set_saw c' b) o.
Proof.
  intros [P1 P2 P3 P4 P5 P6 P7 P8]. constructor; cfin; [apply saw_inv; assumption|apply saw_j; assumption].
Qed.

Lemma CPost_saw_l log c c' o b : CInv c -> CPost log (c_set_saw c b) c' o -> CPost log c c' o.
Proof. intros I [P1 P2 P3 P4 P5 P6 P7 P8]. constructor; cfin. Qed.

(* sendGapRequest under the clock oracle *)
Lemma c_gap_request_post log c g c' o :
  CInv c -> CJ log c -> c_gap_request c g = (c', o) ->
  CPost log c c' o /\ outs_toCons o = [] /\ c_infl c' = c_infl c /\ c_conf c' = c_conf c /\ c_buf c' = c_buf c /\
  c_exp c' = c_exp c /\ c_sess c' = c_sess c.
Proof.
  intros I J H. unfold c_gap_request in H. destruct g; [eapply c_send_request_post; eassumption|].
  inv_pair H. splits; auto. apply CPost_refl; assumption.
Qed.

(* bufferMessage *)
Lemma c_buffer_post log c g e c' o :
  CInv c -> CRest c -> CJ log c -> c_sess c = sess -> c_exp c < snd e <= c_upto c -> logat log (snd e) (fst e) ->
  c_buffer c g e = (c', o) ->
  CPost log c c' o /\ CRest c' /\ outs_toCons o = [] /\ c_infl c' = c_infl c /\ c_sess c' = c_sess c.
Proof.
  intros I R J Hs He Hl H. unfold c_buffer in H.
  set (b := if buf_mem (snd e) (c_buf c) then _ else _) in H.
  set (s1 := c_upd c _ _ _ _ _ _ b _ _ _) in H.
  pose proof I as I0. destruct I as [I1 I2 I3 I4 I5 I6 I7 I8 I9 I10 I11]. pose proof J as J0. destruct J as [J1 J2 J3].
  assert (Hb : lb_sorted (c_exp c - 1) b /\ (forall x, In x b -> x = e \/ In x (c_buf c))).
  { subst b. destruct (buf_mem (snd e) (c_buf c)) eqn:Hm; [split; auto|].
    destruct (Z.of_nat (length (c_buf c)) >=? c_window c); [split; auto|].
    split; [apply buf_insert_sorted; auto; lia|apply buf_insert_in]. }
  destruct Hb as [Hb1 Hb2].
  assert (I' : CInv s1).
  { constructor; cfin.
    intros x Hx. destruct (Hb2 x Hx) as [->|Hx']; [lia|auto]. }
  assert (J' : CJ log s1).
  { constructor; cfin. intros x Hx. destruct (Hb2 x Hx) as [->|Hx']; auto. }
  assert (R' : CRest s1).
  { intros x Hx. cbn in *. destruct (Hb2 x Hx) as [->|Hx']; [lia|auto]. }
  assert (P1 : CPost log c s1 []).
  { constructor; cfin; try constructor. intros h Hh. rewrite app_nil_r. exact Hh. }
  destruct (c_gap_open s1).
  - destruct (c_gap_request_post log s1 g c' o I' J' H) as (P2 & O2 & F2 & C2 & B2 & E2 & S2).
    splits; auto.
    + change o with ([] ++ o). eapply CPost_trans; [exact P1|exact P2|left; reflexivity].
    + intros x Hx. rewrite B2 in Hx. rewrite E2. apply R'. exact Hx.
  - inv_pair H. splits; auto.
Qed.

(* batchConfirmation *)
Lemma c_batch_post log c c' o :
  CInv c -> CJ log c -> c_batch c = (c', o) ->
  CPost log c c' o /\ outs_toCons o = [] /\ c_infl c' = c_infl c /\ c_conf c' = c_conf c /\ c_buf c' = c_buf c /\
  c_exp c' = c_exp c /\ c_sess c' = c_sess c.
Proof.
  intros I J H. unfold c_batch in H.
  destruct (c_upto c - c_conf c <=? c_window c / 2); [eapply c_send_request_post; eassumption|].
  destruct ((match c_buf c with [] => true | _ => false end) && (match c_infl c with None => true | Some _ => false end)); inv_pair H.
  - destruct (c_send_ack_ok c I) as [A1 A2]. splits; auto. apply CPost_same; assumption.
  - splits; auto. apply CPost_refl; assumption.
Qed.

(* handleRegistrationAck *)
Lemma c_regack_post log c se n no c' o :
  CInv c -> CRest c -> CJ log c -> okP log (c_sess c = 0) (RegAck se n no) ->
  c_regack c se n no = (c', o) -> CPost log c c' o /\ CRest c'.
Proof.
  intros I R J Hin H. unfold c_regack in H. destruct Hin as (Hse & Hn & Hun).
  destruct (negb (c_res c)); [inv_pair H; split; [apply CPost_refl|]; assumption|].
  destruct (negb (no =? c_nonce c)); [inv_pair H; split; [apply CPost_refl|]; assumption|].
  set (s1 := c_set_saw c true) in H.
  set (s2 := if negb (se =? c_sess s1) then _ else s1) in H.
  pose proof I as I0. destruct I as [I1 I2 I3 I4 I5 I6 I7 I8 I9 I10 I11]. pose proof J as J0. destruct J as [J1 J2 J3].
  assert (Q : CInv s2 /\ CJ log s2 /\ CRest s2 /\ CPost log c s2 []).
  { subst s2. destruct (Z.eqb_spec se (c_sess s1)) as [Heq|Hne]; cbn [negb].
    - splits; [apply saw_inv|apply saw_j|exact R|apply CPost_saw; apply CPost_refl]; assumption.
    - cbn in Hne. assert (Hz : c_sess c = 0) by (destruct I9; congruence).
      destruct (I10 Hz) as (U1 & U2 & U3 & U4). specialize (Hun Hz). subst n.
      splits.
      + constructor; cfin; try (right; assumption).
      + constructor; cfin.
      + intros x Hx. cbn in Hx. contradiction.
      + constructor; cfin.
        * constructor; cfin; try (right; assumption).
        * constructor; cfin.
        * unfold K. cbn. rewrite U4, U2. intros h Hh. rewrite app_nil_r. exact Hh. }
  destruct Q as (I2' & J2' & R2' & P2').
  destruct (c_send_request_post log s2 true c' o I2' J2' H) as (P3 & O3 & F3 & C3 & B3 & E3 & S3).
  split.
  - change o with ([] ++ o). eapply CPost_trans; [exact P2'|exact P3|left; reflexivity].
  - intros x Hx. rewrite B3 in Hx. rewrite E3. apply R2'. exact Hx.
Qed.

(* handleSequencedMessage *)
Lemma c_seqmsg_post log c g se mid q c' o :
  CInv c -> CRest c -> CJ log c -> okP log (c_sess c = 0) (SeqMsg se mid q) ->
  c_seqmsg c g se mid q = (c', o) -> CPost log c c' o /\ CRest c'.
Proof.
  intros I R J Hin H. unfold c_seqmsg in H. destruct Hin as (Hse & Hl).
  destruct (negb (c_res c)); [inv_pair H; split; [apply CPost_refl|]; assumption|].
  destruct ((c_sess c =? 0) || negb (se =? c_sess c)) eqn:Hsess; [inv_pair H; split; [apply CPost_refl|]; assumption|].
  assert (Hs : c_sess c = sess) by lia.
  set (s1 := c_set_saw c true) in H.
  assert (I1 : CInv s1) by (apply saw_inv; assumption).
  assert (J1 : CJ log s1) by (apply saw_j; assumption).
  assert (R1 : CRest s1) by exact R.
  assert (P1 : CPost log c s1 []) by (apply CPost_saw; apply CPost_refl; assumption).
  destruct ((q <? 1) || (q >? c_upto s1)) eqn:Hwin; [inv_pair H; split; assumption|].
  destruct (q <? c_exp s1) eqn:Hlt.
  { inv_pair H. split; [|assumption]. destruct (c_send_ack_ok s1 I1) as [A1 A2].
    change (c_send_ack s1) with ([] ++ c_send_ack s1). eapply CPost_trans; [exact P1|apply CPost_same; eassumption|left; reflexivity]. }
  destruct ((q =? c_exp s1) && (match c_infl s1 with None => true | Some _ => false end)) eqn:Hd.
  { assert (Hn : c_infl s1 = None) by (destruct (c_infl s1); [lia|reflexivity]).
    destruct (c_deliver_post log s1 (mid, q) c' o I1 J1 Hn ltac:(cbn [snd]; lia) Hl Hs (rest_sorted s1 I1 R1) H) as [P2 R2].
    split; [|exact R2]. change o with ([] ++ o). eapply CPost_trans; [exact P1|exact P2|left; reflexivity]. }
  destruct (match c_infl s1 with Some e => q =? snd e | None => false end) eqn:Hdup; [inv_pair H; split; assumption|].
  destruct (c_buffer s1 g (mid, q)) as [s2 o2] eqn:Hb. destruct (c_drain s2) as [s3 o3] eqn:Hdr. inv_pair H.
  assert (Hq : c_exp s1 < q).
  { destruct (c_infl s1) as [e|] eqn:Hi; [|lia]. destruct I1 as [_ _ _ _ _ _ X _ _ _ _]. specialize (X e Hi). lia. }
  destruct (c_buffer_post log s1 g (mid, q) s2 o2 I1 R1 J1 Hs ltac:(cbn [snd]; lia) Hl Hb) as (P2 & R2 & O2 & F2 & S2).
  pose proof P2 as P2w. destruct P2 as [P2i P2j P2c P2u P2o P2s P2h P2f].
  destruct (c_drain_post log s2 s3 o3 P2i P2j ltac:(intros _; rewrite S2; exact Hs) ltac:(intros _; exact R2) Hdr) as (P3 & R3 & O3).
  split; [|exact R3].
  change (o2 ++ o3) with ([] ++ (o2 ++ o3)). eapply CPost_trans; [exact P1| |left; reflexivity].
  eapply CPost_trans; [exact P2w|exact P3|left; exact O2].
Qed.

(* handleConfirmed *)
Lemma c_confirmed_post log c se mid q c' o :
  CInv c -> CRest c -> CJ log c -> c_confirmed c se mid q = (c', o) -> CPost log c c' o /\ CRest c'.
Proof.
  intros I R J H. unfold c_confirmed in H.
  destruct (c_infl c) as [e|] eqn:Hi; [|inv_pair H; split; [apply CPost_refl|]; assumption].
  destruct (negb (se =? c_sess c) || negb (mid =? fst e) || negb (q =? snd e)); [inv_pair H; split; [apply CPost_refl|]; assumption|].
  set (s1 := c_upd c _ _ _ (snd e + 1) (snd e) _ (drop_lt (snd e + 1) (c_buf c)) None _ _) in H.
  pose proof I as I0. destruct I as [I1 I2 I3 I4 I5 I6 I7 I8 I9 I10 I11]. pose proof J as J0. destruct J as [J1 J2 J3].
  pose proof (I7 e Hi) as He. pose proof (J2 e Hi) as Hle.
  assert (Hs : c_sess c = sess).
  { destruct I9 as [Hz|]; [|assumption]. destruct (I10 Hz) as (_ & _ & _ & Habs). congruence. }
  assert (I' : CInv s1).
  { constructor; cfin.
    - pose proof (drop_lt_sorted (snd e + 1) (c_exp c - 1) (c_buf c) I5) as X.
      eapply lb_sorted_weaken; [|exact X]. lia.
    - intros x Hx. apply I6. eapply drop_lt_incl. exact Hx. }
  assert (J' : CJ log s1).
  { constructor; cfin.
    - intros x Hx. apply J1. eapply drop_lt_incl. exact Hx.
    - apply logat_le in Hle. lia. }
  assert (P1 : CPost log c s1 []).
  { constructor; cfin; try constructor.
    unfold K. cbn. rewrite Hi. intros h Hh. rewrite app_nil_r. rewrite He. exact Hh. }
  destruct (c_batch s1) as [s2 o2] eqn:Hb. destruct (c_drain s2) as [s3 o3] eqn:Hdr.
  destruct (c_batch_post log s1 s2 o2 I' J' Hb) as (P2 & O2 & F2 & C2 & B2 & E2 & S2).
  pose proof P2 as P2w. destruct P2 as [P2i P2j P2c P2u P2o P2s P2h P2f].
  destruct (c_drain_post log s2 s3 o3 P2i P2j ltac:(intros _; rewrite S2; exact Hs) ltac:(intros X; rewrite F2 in X; cbn in X; congruence) Hdr) as (P3 & R3 & O3).
  pose proof P3 as P3w. destruct P3 as [P3i P3j P3c P3u P3o P3s P3h P3f].
  assert (P12 : CPost log c s3 (o2 ++ o3)).
  { change (o2 ++ o3) with ([] ++ (o2 ++ o3)). eapply CPost_trans; [exact P1| |left; reflexivity].
    eapply CPost_trans; [exact P2w|exact P3w|left; exact O2]. }
  destruct (c_gap_open s3).
  - destruct (c_send_request s3 true) as [s4 o4] eqn:Hr. inv_pair H.
    destruct (c_send_request_post log s3 true s4 o4 P3i P3j Hr) as (P4 & O4 & F4 & C4 & B4 & E4 & S4).
    split.
    + rewrite app_assoc. eapply CPost_trans; [exact P12|exact P4|right; split; assumption].
    + intros x Hx. rewrite B4 in Hx. rewrite E4. apply R3. exact Hx.
  - inv_pair H. rewrite app_nil_r. split; assumption.
Qed.

(* handleTick *)
Lemma c_tick_post log c g c' o :
  CInv c -> CRest c -> CJ log c -> c_tick c g = (c', o) -> CPost log c c' o /\ CRest c'.
Proof.
  intros I R J H. unfold c_tick in H.
  match type of H with (let '(s1, o1) := ?X in _) = _ => destruct X as [s1 o1] eqn:Hx end.
  inv_pair H.
  assert (Q : CPost log c s1 o1 /\ CRest s1).
  { destruct ((c_sess c =? 0) || negb (c_saw c)).
    - unfold c_register in Hx. inv_pair Hx.
      pose proof I as I0. destruct I as [I1 I2 I3 I4 I5 I6 I7 I8 I9 I10 I11]. pose proof J as J0. destruct J as [J1 J2 J3].
      split; [|exact R]. constructor; cfin.
      + constructor; cfin.
      + constructor; cfin.
      + constructor; [exact Logic.I|constructor].
      + intros h Hh. rewrite app_nil_r. exact Hh.
    - destruct (c_infl c) as [e|] eqn:Hi.
      + inv_pair Hx. split; [|exact R].
        pose proof I as I0. destruct I as [I1 I2 I3 I4 I5 I6 I7 I8 I9 I10 I11]. pose proof J as J0. destruct J as [J1 J2 J3].
        assert (Hs : c_sess c = sess).
        { destruct I9 as [Hz|]; [|assumption]. destruct (I10 Hz) as (_ & _ & _ & Habs). congruence. }
        constructor; cfin.
        * unfold K. rewrite Hi. intros h Hh. rewrite <- (I7 e Hi). apply h_again; [rewrite (I7 e Hi); exact Hh|apply J2; exact Hi].
        * constructor; [|constructor]. cbn. splits; auto. { rewrite Hi. destruct e; reflexivity. } rewrite (I7 e Hi). lia.
      + destruct (c_gap_open c).
        * destruct (c_gap_request_post log c g s1 o1 I J Hx) as (P2 & O2 & F2 & C2 & B2 & E2 & S2).
          split; [exact P2|]. intros x Hxx. rewrite B2 in Hxx. rewrite E2. apply R. exact Hxx.
        * inv_pair Hx. split; [apply CPost_refl; assumption|exact R]. }
  destruct Q as [Q1 Q2]. split; [apply CPost_saw; exact Q1|exact Q2].
Qed.

Lemma cc_step_post log c i c' o :
  CInv c -> CRest c -> CJ log c ->
  match i with CFromPC true _ m => okP log (c_sess c = 0) m | _ => True end ->
  cc_step c i = (c', o) -> CPost log c c' o /\ CRest c'.
Proof.
  intros I R J Hin H. unfold cc_step in H.
  destruct (c_failed c); [inv_pair H; split; [apply CPost_refl|]; assumption|].
  destruct i as [[|] g m|[|] se m q|[|] g]; try (inv_pair H; split; [apply CPost_refl|]; assumption).
  - destruct m as [se n no|se m q]; [eapply c_regack_post|eapply c_seqmsg_post]; eassumption.
  - eapply c_confirmed_post; eassumption.
  - eapply c_tick_post; eassumption.
Qed.

End InvC.
