(* C42/C43 — the producer controller's step preserves its invariant and only emits what the
   joint invariant allows (whatever the input: any authentic controller message that satisfies the
   network invariant, any endpoint message, any tick). *)
From Coq Require Import ZArith List Bool Lia ZifyBool.
From GV Require Import C42.Model C42.Lemmas.
Import ListNotations.
Open Scope Z_scope.

Ltac inv_pair H := injection H as <- <-.
Ltac splits := repeat match goal with |- _ /\ _ => split end.
Ltac fin := cbn; try (intros; discriminate); try lia; auto.

Section InvP.
Variable sess : Z.
Variable W : Z.
Hypothesis sess_nz : sess <> 0.
Hypothesis W_pos : 1 <= W.

(* what may travel towards the consumer controller *)
Definition okP (log : list Z) (unadopted : Prop) (m : pmsg) : Prop :=
  match m with
  | SeqMsg s mid q => s = sess /\ logat log q mid
  | RegAck s n no => s = sess /\ 1 <= n /\ (unadopted -> n = 1)
  end.

(* what may travel towards the producer controller *)
Definition okC (cconf cupto : Z) (m : cmsg) : Prop :=
  match m with
  | Register n => True
  | Request s n c u v => s = sess /\ 0 <= c <= cconf /\ u = c + W /\ u <= cupto
  | AckM s n c => s = sess /\ 0 <= c <= cconf
  end.

Record PInv (p : pstate) : Prop := {
  pi_sess : p_sess p = sess;
  pi_range : 0 <= p_conf p <= p_cur p;
  pi_cur : p_cur p = Z.of_nat (length (p_log p));
  pi_unconf : p_unconf p = number (p_conf p) (skipn (Z.to_nat (p_conf p)) (p_log p));
  pi_hs : p_failed p = false -> p_hs p = HsIdle \/ p_hs p = HsCredit \/ (p_hs p = HsStoredAck /\ logat (p_log p) (p_pseq p) (p_pmid p))
}.

Lemma PInv_init notify fx : PInv (p_init sess notify fx).
Proof. constructor; fin; lia. Qed.

Lemma unconf_logat p e : PInv p -> In e (p_unconf p) -> logat (p_log p) (snd e) (fst e) /\ p_conf p < snd e.
Proof.
  intros I Hin. destruct I as [_ Hr Hc Hu _]. rewrite Hu in Hin. destruct e as [m q].
  apply number_in in Hin. destruct Hin as [H1 H2]. cbn [fst snd].
  rewrite nth_error_skipn' in H2. split; [|lia]. split; [lia|].
  replace (Z.to_nat (q - 1)) with (Z.to_nat (p_conf p) + Z.to_nat (q - p_conf p - 1))%nat by lia. exact H2.
Qed.

(* the facts a producer step needs about the rest of the system, and guarantees back *)
Record PEnv (p : pstate) (cconf cupto : Z) : Prop := {
  pe_chain : p_conf p <= cconf <= p_cur p;
  pe_dem : p_demand p <= cupto;
  pe_cur : p_cur p <= cupto;
  pe_credit : p_hs p = HsCredit -> p_cur p < cupto
}.

Definition seq_within (d : Z) (m : pmsg) : Prop :=
  match m with SeqMsg _ _ q => q <= d | RegAck _ _ _ => True end.

Record PPost (p p' : pstate) (o : list pout) (cconf cupto : Z) (U : Prop) : Prop := {
  pp_inv : PInv p';
  pp_log : exists l, p_log p' = p_log p ++ l;
  pp_env : PEnv p' cconf cupto;
  pp_out : Forall (okP (p_log p') U) (outs_toCC o);
  pp_dem : Forall (seq_within (p_demand p')) (outs_toCC o);
  pp_mono : p_conf p <= p_conf p' /\ p_cur p <= p_cur p'
}.


Lemma p_terminate_post p p' o cconf cupto U :
  PInv p -> PEnv p cconf cupto -> p_terminate p = (p', o) -> PPost p p' o cconf cupto U.
Proof.
  intros I E H. unfold p_terminate in H. destruct (p_failed p); inv_pair H.
  - constructor; auto; [exists []; rewrite app_nil_r; reflexivity|constructor|constructor|lia].
  - destruct I, E. constructor; cbn; [constructor; fin|exists []; rewrite app_nil_r; reflexivity|constructor; fin|constructor|constructor|lia].
Qed.

Lemma emit_ok p e U : PInv p -> logat (p_log p) (snd e) (fst e) ->
  Forall (okP (p_log p) U) (outs_toCC (p_emit p e)) /\ Forall (seq_within (p_demand p)) (outs_toCC (p_emit p e)).
Proof.
  intros I H. unfold p_emit. destruct (negb (p_reg p) || (snd e >? p_demand p)) eqn:Hc; cbn; [split; constructor|].
  split; constructor; try constructor; cbn; [destruct I; auto|assumption|lia].
Qed.

Lemma outs_toCC_app a b : outs_toCC (a ++ b) = outs_toCC a ++ outs_toCC b.
Proof. unfold outs_toCC. apply flat_map_app. Qed.

Lemma resend_ok p U : PInv p ->
  Forall (okP (p_log p) U) (outs_toCC (p_resend p)) /\ Forall (seq_within (p_demand p)) (outs_toCC (p_resend p)).
Proof.
  intros I. unfold p_resend.
  assert (Hin : forall e, In e (take_le (Z.min (p_cur p) (p_demand p)) (p_unconf p)) -> logat (p_log p) (snd e) (fst e)).
  { intros e He. apply take_le_incl in He. apply (unconf_logat p e I He). }
  induction (take_le (Z.min (p_cur p) (p_demand p)) (p_unconf p)) as [|a l IH]; cbn [flat_map]; [split; constructor|].
  rewrite outs_toCC_app. destruct (emit_ok p a U I (Hin a (or_introl eq_refl))) as [H1 H2].
  destruct IH as [H3 H4]; [intros e He; apply Hin; right; exact He|].
  split; apply Forall_app; split; assumption.
Qed.

Lemma notes_toCC p l : outs_toCC (map (fun e => ToProd (DeliveryConfirmed (p_sess p) (fst e) (snd e))) l) = [].
Proof. induction l; cbn; auto. Qed.

(* advanceConfirmed *)
Lemma p_advance_post p c p' o cconf cupto :
  PInv p -> PEnv p cconf cupto -> 0 <= c <= cconf -> c <= p_cur p -> p_advance p c = (p', o) ->
  PInv p' /\ PEnv p' cconf cupto /\ p_log p' = p_log p /\ outs_toCC o = [] /\ p_conf p <= p_conf p' /\
  p_cur p' = p_cur p /\ p_demand p' = p_demand p /\ p_hs p' = p_hs p /\ p_reg p' = p_reg p /\ p_sess p' = p_sess p
  /\ p_failed p' = p_failed p.
Proof.
  intros I E Hc Hcur H. unfold p_advance in H. destruct (Z.leb_spec c (p_conf p)); inv_pair H.
  - splits; auto; lia.
  - destruct I as [I1 I2 I3 I4 I5]. destruct E as [E1 E2 E3 E4]. cbn.
    splits; fin.
    + constructor; fin.
      rewrite I4. rewrite drop_le_number by lia. rewrite skipn_length, skipn_skipn'.
      replace (Z.min c (p_conf p + Z.of_nat (length (p_log p) - Z.to_nat (p_conf p)))) with c by lia.
      f_equal. f_equal. lia.
    + constructor; fin.
    + destruct (p_notify p); [apply notes_toCC|reflexivity].
Qed.

(* allowNextRequest *)
Lemma p_allow_post p p' o cconf cupto :
  PInv p -> PEnv p cconf cupto -> p_demand p <= cupto -> p_allow p = (p', o) ->
  PInv p' /\ PEnv p' cconf cupto /\ p_log p' = p_log p /\ outs_toCC o = [] /\ p_conf p' = p_conf p /\
  p_cur p' = p_cur p /\ p_demand p' = p_demand p.
Proof.
  intros I E Hd H. unfold p_allow in H.
  destruct (negb (hs_eqb (p_hs p) HsIdle) || (p_cur p >=? p_demand p)) eqn:Hc.
  { inv_pair H. splits; auto. }
  destruct (p_cur p >=? maxI64 - 1).
  { unfold p_terminate in H. destruct (p_failed p) eqn:Hf; inv_pair H; [splits; auto|].
    destruct I, E. splits; try reflexivity; constructor; fin. }
  inv_pair H. destruct I as [I1 I2 I3 I4 I5]. destruct E as [E1 E2 E3 E4].
  splits; try reflexivity; constructor; fin.
Qed.

Lemma post_of (p p' : pstate) o cconf cupto U :
  PInv p' -> PEnv p' cconf cupto -> p_log p' = p_log p -> outs_toCC o = [] ->
  p_conf p <= p_conf p' -> p_cur p <= p_cur p' -> PPost p p' o cconf cupto U.
Proof.
  intros. constructor; auto; [exists []; rewrite app_nil_r; assumption|rewrite H2; constructor|rewrite H2; constructor].
Qed.

Lemma pc_step_post p i p' o cconf cupto (U : Prop) :
  PInv p -> PEnv p cconf cupto -> (U -> cconf = 0) ->
  match i with PFromCC true m => okC cconf cupto m | _ => True end ->
  pc_step p i = (p', o) -> PPost p p' o cconf cupto U.
Proof.
  intros I E HU Hin H. unfold pc_step in H.
  destruct (p_failed p) eqn:Hf.
  { inv_pair H. apply post_of; auto; lia. }
  destruct i as [[|] m|[|] se t m|[|] se t m|[|]]; try (inv_pair H; apply post_of; auto; lia).
  - (* controller traffic *)
    destruct m as [n|se n c u via|se n c].
    + (* Register *)
      unfold p_register in H.
      set (s1 := if negb (p_reg p) || negb (n =? p_nonce p) then _ else p) in H.
      assert (I1 : PInv s1) by (subst s1; destruct (negb (p_reg p) || negb (n =? p_nonce p)); [destruct I; constructor; fin|exact I]).
      assert (E1 : PEnv s1 cconf cupto).
      { subst s1; destruct (negb (p_reg p) || negb (n =? p_nonce p)); [|exact E]. destruct E. constructor; fin; destruct (p_fix p); lia. }
      assert (L1 : p_log s1 = p_log p) by (subst s1; destruct (negb (p_reg p) || negb (n =? p_nonce p)); reflexivity).
      assert (C1 : p_conf s1 = p_conf p /\ p_cur s1 = p_cur p) by (subst s1; destruct (negb (p_reg p) || negb (n =? p_nonce p)); split; reflexivity).
      destruct ((p_sess s1 =? 0) || (p_conf s1 + 1 <=? 0) || (p_nonce s1 =? 0)).
      * pose proof (p_terminate_post s1 p' o cconf cupto U I1 E1 H) as [Q1 [l Q2] Q3 Q4 Q5 Q6].
        constructor; auto; [exists l; congruence|lia].
      * inv_pair H. constructor; auto; [exists []; rewrite app_nil_r; assumption| |repeat constructor|lia].
        cbn. constructor; [|constructor]. cbn. destruct I1 as [Is Ir _ _ _]. destruct E1 as [Ec _ _ _].
        split; [assumption|]. split; [lia|]. intros HUU. apply HU in HUU. lia.
    + (* Request *)
      unfold p_request in H. destruct (negb (p_from_registered p se n)) eqn:Hreg; [inv_pair H; apply post_of; auto; lia|].
      destruct ((c <? 0) || (c >? p_cur p) || (u <? c) || (u >? c + maxWindowCap)) eqn:Hrng.
      { apply p_terminate_post; assumption. }
      destruct (p_advance p c) as [s1 o1] eqn:Ha.
      destruct Hin as (Hs & Hc & Hu & Hup).
      destruct (p_advance_post p c s1 o1 cconf cupto I E Hc ltac:(lia) Ha) as (I1 & E1 & L1 & O1 & M1 & C1 & D1 & HS1 & R1 & S1 & F1).
      set (s2 := p_set_demand s1 u (u - c)) in H.
      assert (I2 : PInv s2) by (destruct I1; constructor; fin).
      assert (E2 : PEnv s2 cconf cupto) by (destruct E1; constructor; fin).
      destruct (p_allow s2) as [s3 o3] eqn:Hal. inv_pair H.
      destruct (p_allow_post s2 s3 o3 cconf cupto I2 E2 ltac:(cbn; lia) Hal) as (I3 & E3 & L3 & O3 & C3 & CU3 & D3).
      destruct (resend_ok s2 U I2) as [R2a R2b].
      constructor; auto.
      * exists []. rewrite app_nil_r. rewrite L3. cbn. exact L1.
      * rewrite !outs_toCC_app, O1, O3, app_nil_r. cbn [app]. destruct via; [|constructor].
        rewrite L3. exact R2a.
      * rewrite !outs_toCC_app, O1, O3, app_nil_r. cbn [app]. destruct via; [|constructor].
        rewrite D3. exact R2b.
      * rewrite C3, CU3. cbn. lia.
    + (* Ack *)
      unfold p_ack in H. destruct (negb (p_from_registered p se n)); [inv_pair H; apply post_of; auto; lia|].
      destruct ((c <? 0) || (c >? p_cur p)) eqn:Hrng.
      { apply p_terminate_post; assumption. }
      destruct Hin as (Hs & Hc).
      destruct (p_advance_post p c p' o cconf cupto I E Hc ltac:(lia) H) as (I1 & E1 & L1 & O1 & M1 & C1 & D1 & _).
      apply post_of; auto; lia.
  - (* Produced *)
    unfold p_produced in H.
    destruct (negb (se =? p_sess p)); [inv_pair H; apply post_of; auto; lia|].
    destruct (negb (hs_eqb (p_hs p) HsIdle) && negb (hs_eqb (p_hs p) HsCredit) && (t =? p_tok p) && (m =? p_pmid p));
      [inv_pair H; apply post_of; auto; lia|].
    destruct ((t =? p_ltok p) && (m =? p_lmid p)); [inv_pair H; apply post_of; auto; lia|].
    destruct (negb (hs_eqb (p_hs p) HsCredit)) eqn:Hcr; [apply p_terminate_post; assumption|].
    destruct (negb (t =? p_tok p)); [apply p_terminate_post; assumption|].
    assert (Hhs : p_hs p = HsCredit) by (destruct (p_hs p); cbn in Hcr; congruence).
    destruct ((m =? 0) || (p_cur p + 1 <=? 0)) eqn:Hbad.
    + (* terminal guard: the state keeps the log, only handshake bookkeeping changes *)
      unfold p_terminate in H. cbn [p_failed] in H. rewrite Hf in H. inv_pair H.
      destruct I as [I1 I2 I3 I4 I5]. destruct E as [E1 E2 E3 E4].
      apply post_of; cbn; try lia; try reflexivity; constructor; fin.
    + inv_pair H. destruct I as [I1 I2 I3 I4 I5]. destruct E as [E1 E2 E3 E4]. specialize (E4 Hhs).
      constructor; cbn.
      * constructor; fin; try lia.
        -- rewrite app_length. cbn. lia.
        -- rewrite I4. rewrite skipn_app. replace (Z.to_nat (p_conf p) - length (p_log p))%nat with 0%nat by lia.
           cbn [skipn]. rewrite number_app. rewrite skipn_length. do 3 f_equal. lia.
        -- intros _. right; right. split; [reflexivity|]. rewrite I3. apply logat_last.
      * exists [m]. reflexivity.
      * constructor; fin.
      * constructor.
      * constructor.
      * lia.
  - (* StoredAck *)
    unfold p_storedack in H.
    destruct (negb (se =? p_sess p)); [inv_pair H; apply post_of; auto; lia|].
    destruct (hs_eqb (p_hs p) HsStoredAck && (t =? p_tok p) && (m =? p_pmid p)) eqn:Hm.
    + assert (Hhs : p_hs p = HsStoredAck) by (destruct (p_hs p); cbn in Hm; congruence).
      set (s1 := mkP _ _ _ _ _ _ _ _ _ _ HsIdle 0 0 0 false _ _ _ _ _) in H.
      destruct (p_allow s1) as [s2 o2] eqn:Hal. inv_pair H.
      assert (Hlog : logat (p_log p) (p_pseq p) (p_pmid p)).
      { destruct I as [_ _ _ _ Hx]. destruct (Hx Hf) as [Hy|[Hy|[_ Hy]]]; [congruence|congruence|exact Hy]. }
      assert (I1 : PInv s1) by (destruct I; constructor; fin).
      assert (E1 : PEnv s1 cconf cupto) by (destruct E; constructor; fin; intros Habs; discriminate Habs).
      destruct (p_allow_post s1 s2 o2 cconf cupto I1 E1 ltac:(destruct E; cbn; lia) Hal) as (I2 & E2 & L2 & O2 & C2 & CU2 & D2).
      destruct (emit_ok p (p_pmid p, p_pseq p) U I Hlog) as [Em1 Em2].
      constructor; auto.
      * exists []. rewrite app_nil_r. rewrite L2. reflexivity.
      * rewrite outs_toCC_app, O2, app_nil_r. rewrite L2. exact Em1.
      * rewrite outs_toCC_app, O2, app_nil_r. rewrite D2. exact Em2.
      * rewrite C2, CU2. cbn. lia.
    + destruct (hs_eqb (p_hs p) HsAccept && (t =? p_tok p) && (m =? p_pmid p)); [inv_pair H; apply post_of; auto; lia|].
      destruct ((t =? p_ltok p) && (m =? p_lmid p)); [inv_pair H; apply post_of; auto; lia|].
      apply p_terminate_post; assumption.
  - (* Tick *)
    inv_pair H. apply post_of; auto; try lia.
    unfold p_tick. destruct (p_hs p); try reflexivity. destruct (p_stored p); reflexivity.
Qed.

End InvP.
