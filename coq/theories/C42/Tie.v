(* C42/C43 tie only (not in the closure of the property files): compares the model's trace with the
   implementation's through a 63-bit digest of each observation row, so the generated cases file stays
   small and evaluates fast (primitive machine integers under vm_compute). *)
From Coq Require Import ZArith List Uint63.
From GV Require Import C42.Model.
Import ListNotations.

Definition row_hash (r : list Z) : int :=
  fold_left (fun acc x => (acc * 1000003 + of_Z x + 17)%uint63) r 7%uint63.

Fixpoint first_diff_h (k : nat) (m : list (list Z)) (o : list int) : option (nat * list Z) :=
  match m, o with
  | [], [] => None
  | x :: m', y :: o' => if Uint63.eqb (row_hash x) y then first_diff_h (S k) m' o' else Some (k, x)
  | x :: _, [] => Some (k, x)
  | [], _ :: _ => Some (k, [])
  end.

Definition check_case_h (sess : Z) (notify : bool) (window : Z) (fx : bool) (ops : list op) (digests : list int) : option (nat * list Z) :=
  first_diff_h 0 (full_trace sess notify window fx ops) digests.
