(* C42/C43 — the hypotheses of the theorems are met by non-trivial concrete histories (computed). *)
From Coq Require Import ZArith List Bool.
From GV Require Import C42.Model C42.Progress.
Import ListNotations.
Open Scope Z_scope.

(* window 3: registration, demand, two messages stored; the second arrives first (buffered, gap request),
   then the first; a tick re-presents the unconfirmed first; both are confirmed. *)
Definition ex_ops : list op :=
  [DeliverPC 0; DeliverCC 0 true; DeliverPC 1; Produced 1 1 101; StoredAck 1 1 101; Produced 1 2 102; StoredAck 1 2 102;
   DeliverCC 2 true; DeliverCC 1 true; DeliverCC 1 false; TickCC true; Confirmed 1 101 1; Confirmed 1 102 2].

Example ex_legit : forallb legit ex_ops = true.
Proof. reflexivity. Qed.

Example ex_deliveries :
  toCons (run (sys_init 1 true 3 false) ex_ops) = [Delivery 1 101 1; Delivery 1 101 1; Delivery 1 102 2].
Proof. vm_compute. reflexivity. Qed.

Example ex_state :
  let s := run (sys_init 1 true 3 false) ex_ops in
  p_log (sP s) = [101; 102] /\ p_cur (sP s) = 2 /\ p_conf (sP s) = 0 /\ c_conf (sC s) = 2 /\ c_upto (sC s) = 5 /\
  p_failed (sP s) = false.
Proof. vm_compute. repeat split; reflexivity. Qed.

(* the producer has not yet heard of the confirmations; the computed continuation brings its watermark forward *)
Example ex_recover :
  let s := run (sys_init 1 true 3 false) ex_ops in
  p_conf (sP (run s (recover s))) = 2 /\ forallb legit (recover s) = true.
Proof. vm_compute. split; reflexivity. Qed.
