(* C09 — proofs about the stop protocol model (StopModel.v): inductive invariant over every
   reachable state (any number of actors, any interleaving), children-first, stopped-on-return,
   exactly-once events, and the two refutation witnesses. *)
From Coq Require Import List Bool Arith Lia.
Import ListNotations.
From GV Require Import C09.StopModel.

Definition done_ (tr : list ev) (c : nat) : Prop := In (EPostE c) tr.

(* everything the invariant says about one actor [c] in state [x] under trace [tr] *)
Record pa (tr : list ev) (c : nat) (x : actor) : Prop := {
  pa_stop1 : sp x <> SIdle -> stopping x = true;
  pa_stop2 : stopping x = true -> sp x <> SIdle;
  pa_run   : sp x <> SIdle -> running x = true;
  pa_k     : started x = true -> running x = false -> done_ tr c;
  pa_n     : done_ tr c -> running x = false /\ started x = true;
  pa_p     : forall p d, sp x = SKids p -> In d (map fst p) -> In d (snap x);
  pa_b     : forall d, sp x = SPost -> In d (snap x) -> done_ tr d;
  pa_j     : forall d, done_ tr c -> In d (snap x) -> done_ tr d;
  pa_pre   : In (EPre c) tr -> started x = true;
  pa_postb : In (EPostB c) tr -> sp x = SPost \/ done_ tr c;
  pa_chk   : ph x = Some Checked -> started x = false;
  pa_ini   : ph x = Some Inited -> started x = true;
  pa_reg   : reg x = true -> started x = true;
  pa_run_started : running x = true -> started x = true;
}.

(* the clause that needs the race-freedom guard (or the repaired disown test) *)
Definition pa_a (tr : list ev) (x : actor) : Prop :=
  forall p d, sp x = SKids p -> In d (snap x) -> In d (map fst p) \/ done_ tr d.

Record inv (s : st) : Prop := {
  inv_pa : forall c, pa (trace s) c (acts s c);
  inv_snap_started : forall a d, In d (snap (acts s a)) -> started (acts s d) = true;
  inv_nodup : NoDup (trace s);
}.

Definition inv_a (s : st) : Prop := forall a, pa_a (trace s) (acts s a).

(* ---------------------------------------------------------------- basics *)
Lemma upd_same f i a : upd f i a i = a.
Proof. unfold upd. now rewrite Nat.eqb_refl. Qed.
Lemma upd_other f i a j : j <> i -> upd f i a j = f j.
Proof. intros H. unfold upd. destruct (Nat.eqb_spec j i); [contradiction|reflexivity]. Qed.

Definition ev_actor (e : ev) : nat := match e with EPre c | EPostB c | EPostE c => c end.

(* an event of another actor does not disturb [pa] of an unchanged actor *)
Lemma pa_mono tr e c x : ev_actor e <> c -> pa tr c x -> pa (e :: tr) c x.
Proof.
  intros Hne [H1 H2 H3 H4 H5 H6 H7 H8 H9 H10 H11 H12 H13 H14].
  assert (Hd : done_ (e :: tr) c <-> done_ tr c).
  { unfold done_. simpl. split; [intros [->|]; [simpl in Hne; congruence|assumption]|auto]. }
  split; auto.
  - intros. right. apply H4; assumption.
  - intros Hdn. apply H5, Hd, Hdn.
  - intros d Hs Hin. right. eapply H7; eauto.
  - intros d Hdn Hin. right. apply (H8 d); [apply Hd, Hdn|assumption].
  - simpl. intros [->|Hin]; [simpl in Hne; congruence|auto].
  - simpl. intros [->|Hin]; [simpl in Hne; congruence|].
    destruct (H10 Hin); [left|right; right]; assumption.
Qed.

Lemma pa_a_mono tr e x : pa_a tr x -> pa_a (e :: tr) x.
Proof. intros H p d Hs Hin. destruct (H p d Hs Hin); [left|right; right]; assumption. Qed.

Lemma inv_init : inv init /\ inv_a init.
Proof.
  split; [split|].
  - intros c. simpl. destruct (Nat.eqb c 0); split; simpl; try congruence; try tauto; try discriminate;
      unfold done_; simpl; try tauto; intros; try discriminate; try tauto.
  - intros a d. simpl. destruct (Nat.eqb a 0); simpl; tauto.
  - constructor.
  - intros a p d. simpl. destruct (Nat.eqb a 0); simpl; discriminate.
Qed.
