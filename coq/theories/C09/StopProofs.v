(* C09 — proofs about the stop protocol model (StopModel.v): inductive invariant over every
   reachable state (any number of actors, any interleaving), children-first, stopped-on-return,
   exactly-once events, and the two refutation witnesses. *)
From Coq Require Import List Bool Arith Lia.
Import ListNotations.
From GV Require Import C09.StopModel.

Definition done_ (tr : list ev) (c : nat) : Prop := In (EPostE c) tr.

(* everything the unguarded invariant says about one actor [c] in state [x] under trace [tr] *)
Record pa (tr : list ev) (c : nat) (x : actor) : Prop := {
  pa_stop1 : sp x <> SIdle -> stopping x = true;
  pa_stop2 : stopping x = true -> sp x <> SIdle;
  pa_run   : sp x <> SIdle -> running x = true;
  pa_k     : started x = true -> running x = false -> done_ tr c;
  pa_n     : done_ tr c -> running x = false /\ started x = true;
  pa_p     : forall p d, sp x = SKids p -> In d (map fst p) -> In d (snap x);
  pa_pre   : In (EPre c) tr -> started x = true;
  pa_postb : In (EPostB c) tr -> sp x = SPost \/ done_ tr c;
  pa_chk   : ph x = Some Checked -> started x = false;
  pa_ini   : ph x = Some Inited -> started x = true;
  pa_reg   : reg x = true -> started x = true;
  pa_run_started : running x = true -> started x = true;
}.

(* the clauses that need the race-freedom guard (or the repaired disown test) *)
Record pg (tr : list ev) (c : nat) (x : actor) : Prop := {
  pg_a : forall p d, sp x = SKids p -> In d (snap x) -> In d (map fst p) \/ done_ tr d;
  pg_b : forall d, sp x = SPost -> In d (snap x) -> done_ tr d;
  pg_j : forall d, done_ tr c -> In d (snap x) -> done_ tr d;
}.

Record inv (s : st) : Prop := {
  inv_pa : forall c, pa (trace s) c (acts s c);
  inv_snap_started : forall a d, In d (snap (acts s a)) -> started (acts s d) = true;
  inv_nodup : NoDup (trace s);
}.

Definition inv_g (s : st) : Prop := forall a, pg (trace s) a (acts s a).

(* ---------------------------------------------------------------- basics *)
Lemma upd_same f i a : upd f i a i = a.
Proof. unfold upd. now rewrite Nat.eqb_refl. Qed.
Lemma upd_other f i a j : j <> i -> upd f i a j = f j.
Proof. intros H. unfold upd. destruct (Nat.eqb_spec j i); [contradiction|reflexivity]. Qed.

Definition ev_actor (e : ev) : nat := match e with EPre c | EPostB c | EPostE c => c end.

Lemma done_mono tr e c : ev_actor e <> c -> (done_ (e :: tr) c <-> done_ tr c).
Proof. intros Hne. unfold done_. simpl. split; [intros [->|]; [simpl in Hne; congruence|assumption]|auto]. Qed.

(* an event of another actor does not disturb [pa]/[pg] of an unchanged actor *)
Lemma pa_mono tr e c x : ev_actor e <> c -> pa tr c x -> pa (e :: tr) c x.
Proof.
  intros Hne [H1 H2 H3 H4 H5 H6 H9 H10 H11 H12 H13 H14].
  pose proof (done_mono tr e c Hne) as Hd.
  split; auto.
  - intros. right. apply H4; assumption.
  - intros Hdn. apply H5, Hd, Hdn.
  - simpl. intros [->|Hin]; [simpl in Hne; congruence|auto].
  - simpl. intros [->|Hin]; [simpl in Hne; congruence|].
    destruct (H10 Hin); [left|right; right]; assumption.
Qed.

Lemma pg_mono tr e c x : ev_actor e <> c -> pg tr c x -> pg (e :: tr) c x.
Proof.
  intros Hne [Ha Hb Hj]. pose proof (done_mono tr e c Hne) as Hd. split.
  - intros p d Hs Hin. destruct (Ha p d Hs Hin); [left|right; right]; assumption.
  - intros d Hs Hin. right. eapply Hb; eauto.
  - intros d Hdn Hin. right. apply (Hj d); [apply Hd, Hdn|assumption].
Qed.

Lemma inv_init : inv init /\ inv_g init.
Proof.
  split; [split|].
  - intros c. simpl. destruct (Nat.eqb c 0); split; simpl; try congruence; try tauto; try discriminate;
      unfold done_; simpl; try tauto; intros; try discriminate; try tauto.
  - intros a d. simpl. destruct (Nat.eqb a 0); simpl; tauto.
  - constructor.
  - intros a. simpl. destruct (Nat.eqb a 0); split; simpl; try discriminate; try tauto.
Qed.

(* ---------------------------------------------------------------- update helpers *)
Lemma inv_upd1 s a x' tm :
  inv s -> pa (trace s) a x' ->
  (started (acts s a) = true -> started x' = true) ->
  (forall d, In d (snap x') -> In d (snap (acts s a)) \/ started (acts s d) = true) ->
  inv (St (upd (acts s) a x') (trace s) tm).
Proof.
  intros [Hpa Hsn Hnd] Hx Hst Hsnap. split; simpl.
  - intros c. destruct (Nat.eq_dec c a) as [->|Hne]; [now rewrite upd_same|rewrite upd_other by assumption; apply Hpa].
  - intros a0 d Hin.
    assert (Hd : started (acts s d) = true).
    { destruct (Nat.eq_dec a0 a) as [->|Hne].
      - rewrite upd_same in Hin. destruct (Hsnap d Hin) as [H|H]; [eapply Hsn; eauto|assumption].
      - rewrite upd_other in Hin by assumption. eapply Hsn; eauto. }
    destruct (Nat.eq_dec d a) as [->|Hne]; [rewrite upd_same; auto|now rewrite upd_other by assumption].
  - assumption.
Qed.

Lemma inv_upd1_ev s a x' e tm :
  inv s -> ev_actor e = a -> ~ In e (trace s) -> pa (e :: trace s) a x' ->
  (started (acts s a) = true -> started x' = true) ->
  (forall d, In d (snap x') -> In d (snap (acts s a)) \/ started (acts s d) = true) ->
  inv (St (upd (acts s) a x') (e :: trace s) tm).
Proof.
  intros [Hpa Hsn Hnd] He Hnin Hx Hst Hsnap. split; simpl.
  - intros c. destruct (Nat.eq_dec c a) as [->|Hne]; [now rewrite upd_same|].
    rewrite upd_other by assumption. apply pa_mono; [congruence|apply Hpa].
  - intros a0 d Hin.
    assert (Hd : started (acts s d) = true).
    { destruct (Nat.eq_dec a0 a) as [->|Hne].
      - rewrite upd_same in Hin. destruct (Hsnap d Hin) as [H|H]; [eapply Hsn; eauto|assumption].
      - rewrite upd_other in Hin by assumption. eapply Hsn; eauto. }
    destruct (Nat.eq_dec d a) as [->|Hne]; [rewrite upd_same; auto|now rewrite upd_other by assumption].
  - constructor; assumption.
Qed.

Lemma inv_g_upd1 s a x' tm :
  inv_g s -> pg (trace s) a x' -> inv_g (St (upd (acts s) a x') (trace s) tm).
Proof.
  intros H Hx a0. simpl. destruct (Nat.eq_dec a0 a) as [->|Hne]; [now rewrite upd_same|].
  rewrite upd_other by assumption. apply H.
Qed.

Lemma inv_g_upd1_ev s a x' e tm :
  inv_g s -> ev_actor e = a -> pg (e :: trace s) a x' -> inv_g (St (upd (acts s) a x') (e :: trace s) tm).
Proof.
  intros H He Hx a0. simpl. destruct (Nat.eq_dec a0 a) as [->|Hne]; [now rewrite upd_same|].
  rewrite upd_other by assumption. apply pg_mono; [congruence|apply H].
Qed.

(* fields the invariant looks at *)
Definition same_core (x y : actor) : Prop :=
  running y = running x /\ stopping y = stopping x /\ started y = started x /\ sp y = sp x /\
  ph y = ph x /\ snap y = snap x /\ (reg y = true -> reg x = true).

Lemma same_core_refl x : same_core x x.
Proof. unfold same_core; tauto. Qed.
Lemma same_core_trans x y z : same_core x y -> same_core y z -> same_core x z.
Proof. unfold same_core; intros (?&?&?&?&?&?&?) (?&?&?&?&?&?&?); repeat split; try congruence; auto. Qed.

Lemma pa_core tr c x y : same_core x y -> pa tr c x -> pa tr c y.
Proof.
  intros (Hr & Hs & Hst & Hsp & Hph & Hsn & Hreg) [H1 H2 H3 H4 H5 H6 H9 H10 H11 H12 H13 H14].
  split; rewrite ?Hr, ?Hs, ?Hst, ?Hsp, ?Hph, ?Hsn; auto.
Qed.
Lemma pg_core tr c x y : same_core x y -> pg tr c x -> pg tr c y.
Proof.
  intros (Hr & Hs & Hst & Hsp & Hph & Hsn & Hreg) [Ha Hb Hj].
  split; rewrite ?Hsp, ?Hsn; auto.
Qed.

Lemma inv_core s A' tm :
  inv s -> (forall c, same_core (acts s c) (A' c)) -> inv (St A' (trace s) tm).
Proof.
  intros [Hpa Hsn Hnd] Hc. split; simpl.
  - intros c. eapply pa_core; [apply Hc|apply Hpa].
  - intros a d Hin. destruct (Hc a) as (_&_&_&_&_&Hs&_). destruct (Hc d) as (_&_&Hst&_).
    rewrite Hst. rewrite Hs in Hin. eapply Hsn; eauto.
  - assumption.
Qed.
Lemma inv_g_core s A' tm :
  inv_g s -> (forall c, same_core (acts s c) (A' c)) -> inv_g (St A' (trace s) tm).
Proof. intros H Hc a. simpl. eapply pg_core; [apply Hc|apply H]. Qed.

Lemma unreg_all_core l : forall f c, same_core (f c) (unreg_all f l c).
Proof.
  induction l as [|i l IH]; intros f c; simpl; [apply same_core_refl|].
  eapply same_core_trans; [|apply IH].
  unfold upd. destruct (Nat.eqb c i) eqn:E; [|apply same_core_refl].
  apply Nat.eqb_eq in E. subst. unfold same_core, unreg; simpl. repeat split; auto; discriminate.
Qed.

(* ---------------------------------------------------------------- pending lists *)
Lemma pend_get_in c p x : pend_get c p = Some x -> In c (map fst p).
Proof.
  induction p as [|[d y] p IH]; simpl; [discriminate|].
  destruct (Nat.eqb_spec d c); [auto|]. intros H. right. auto.
Qed.
Lemma pend_set_keys c x p : map fst (pend_set c x p) = map fst p.
Proof.
  unfold pend_set. rewrite map_map. apply map_ext_in. intros [d y] _. simpl.
  destruct (Nat.eqb_spec d c); simpl; congruence.
Qed.
Lemma pend_remove_keys c p d : In d (map fst (pend_remove c p)) <-> In d (map fst p) /\ d <> c.
Proof.
  unfold pend_remove. rewrite !in_map_iff. split.
  - intros ([d' y] & <- & Hin). apply filter_In in Hin as [Hin Hne]. simpl in *.
    split; [exists (d', y); auto|]. destruct (Nat.eqb_spec d' c); [discriminate|assumption].
  - intros (([d' y] & <- & Hin) & Hne). exists (d', y). split; [reflexivity|].
    apply filter_In. split; [assumption|]. simpl in *. destruct (Nat.eqb_spec d' c); [contradiction|reflexivity].
Qed.
Lemma todo_keys cs : map fst (map (fun c : nat => (c, PTodo)) cs) = cs.
Proof. rewrite map_map. simpl. apply map_id. Qed.

Lemma sp_idle_dec x : {sp x = SIdle} + {sp x <> SIdle}.
Proof. destruct (sp x); [left; reflexivity|right; discriminate..]. Qed.

(* the only guard the invariant needs: the disown goroutine does not meet a child whose stop is in flight *)
Definition disown_ok (s : st) (l : label) : bool :=
  match l with
  | LDisownTest a c => match sp (acts s c) with SIdle => true | _ => false end
  | _ => true
  end.

(* ---------------------------------------------------------------- one case per label *)
Section Steps.
Variable ws : bool.

Ltac old H := destruct H as [O1 O2 O3 O4 O5 O6 O7 O8 O9 O10 O11 O12].

Lemma step_StopBegin s a s' :
  inv s -> inv_g s -> step ws s (LStopBegin a) = Some s' -> inv s' /\ inv_g s'.
Proof.
  intros I G. unfold step. destruct (sp (acts s a)) eqn:Esp; try discriminate.
  destruct (running (acts s a)) eqn:Er; [|discriminate]. intros [= <-].
  pose proof (inv_pa _ I a) as Pa. old Pa.
  assert (Hnd : ~ done_ (trace s) a) by (intros Hd; apply O5 in Hd; destruct Hd; congruence).
  split.
  - apply inv_upd1; simpl; auto. split; simpl; intros; try discriminate; try congruence; auto; try contradiction.
    destruct (O8 H) as [?|?]; [congruence|contradiction].

  - apply inv_g_upd1; auto. split; simpl; intros; try discriminate; try contradiction.
Qed.

Lemma step_StopNoop s a s' :
  inv s -> inv_g s -> step ws s (LStopNoop a) = Some s' -> inv s' /\ inv_g s'.
Proof.
  intros I G. unfold step. destruct (sp (acts s a)); try discriminate.
  destruct (running (acts s a)); [discriminate|]. intros [= <-]. auto.
Qed.

Lemma step_Snapshot s a s' :
  inv s -> inv_g s -> step ws s (LSnapshot a) = Some s' -> inv s' /\ inv_g s'.
Proof.
  intros I G. unfold step. destruct (sp (acts s a)) eqn:Esp; try discriminate. intros [= <-].
  pose proof (inv_pa _ I a) as Pa. old Pa.
  assert (Hr : running (acts s a) = true) by (apply O3; congruence).
  assert (Hnd : ~ done_ (trace s) a) by (intros Hd; apply O5 in Hd; destruct Hd; congruence).
  split.
  - apply inv_upd1; simpl; auto.
    + split; simpl; intros; try discriminate; try congruence; auto; try contradiction.
      * apply O1; congruence.
      * injection H as <-. now rewrite todo_keys in H0.
      * destruct (O8 H) as [?|?]; [congruence|contradiction].
    + intros d Hin. right. unfold children in Hin. apply filter_In in Hin as [_ Hreg].
      apply (pa_reg _ _ _ (inv_pa _ I d)), Hreg.
  - apply inv_g_upd1; auto. split; simpl; intros; try discriminate; try contradiction.
    injection H as <-. left. now rewrite todo_keys.
Qed.

Lemma step_DisownTest s a c s' :
  inv s -> inv_g s -> ws = true \/ disown_ok s (LDisownTest a c) = true ->
  step ws s (LDisownTest a c) = Some s' -> inv s' /\ inv_g s'.
Proof.
  intros I G Hguard. unfold step. destruct (sp (acts s a)) as [| |p|] eqn:Esp; try discriminate.
  destruct (pend_get c p) as [[|]|] eqn:Eg; try discriminate. intros [= <-].
  pose proof (inv_pa _ I a) as Pa. old Pa.
  pose proof (pend_get_in _ _ _ Eg) as Hcp.
  set (call := is_running (acts s c) || ws && stopping (acts s c)).
  set (p' := if call then pend_set c PWait p else pend_remove c p).
  assert (Hkeys : forall d, In d (map fst p') -> In d (map fst p)).
  { intros d. unfold p'. destruct call; [now rewrite pend_set_keys|]. intros H. now apply pend_remove_keys in H. }
  split.
  - apply inv_upd1; simpl; auto.
    split; simpl; intros; try discriminate; auto.
    + apply O1; congruence.
    + apply O3; congruence.
    + injection H as <-. eapply O6; eauto.
    + destruct (O8 H) as [?|?]; [congruence|auto].
  - apply inv_g_upd1; auto. pose proof (G a) as [Ga Gb Gj].
    split; simpl; intros; try discriminate.
    + injection H as <-. destruct (Ga p d Esp H0) as [Hin|Hd]; [|auto].
      unfold p'. destruct call eqn:Ecall; [left; now rewrite pend_set_keys|].
      destruct (Nat.eq_dec d c) as [->|Hne]; [|left; apply pend_remove_keys; auto].
      right.
      (* the child was not called: it is not running and its stop is not in flight *)
      pose proof (inv_pa _ I c) as Pc.
      assert (Hst : started (acts s c) = true) by (eapply inv_snap_started; eauto).
      unfold call, is_running in Ecall.
      apply orb_false_iff in Ecall as [E1 E2].
      assert (Hidle : sp (acts s c) = SIdle).
      { destruct Hguard as [->|Hok].
        - simpl in E2. destruct (sp_idle_dec (acts s c)) as [|Hn]; [assumption|].
          rewrite (pa_stop1 _ _ _ Pc Hn) in E2. discriminate.
        - simpl in Hok. destruct (sp (acts s c)); congruence. }
      assert (Hns : stopping (acts s c) = false).
      { destruct (stopping (acts s c)) eqn:Es; [|reflexivity]. exfalso. apply (pa_stop2 _ _ _ Pc); auto. }
      rewrite Hns in E1. simpl in E1. rewrite andb_true_r in E1.
      apply (pa_k _ _ _ Pc); assumption.
    + apply (Gj d); assumption.
Qed.

Lemma step_DisownDone s a c s' :
  inv s -> inv_g s -> step ws s (LDisownDone a c) = Some s' -> inv s' /\ inv_g s'.
Proof.
  intros I G. unfold step. destruct (sp (acts s a)) as [| |p|] eqn:Esp; try discriminate.
  destruct (pend_get c p) as [[|]|] eqn:Eg; try discriminate.
  destruct (sp (acts s c)) eqn:Espc; try discriminate.
  destruct (running (acts s c)) eqn:Erc; [discriminate|]. intros [= <-].
  pose proof (inv_pa _ I a) as Pa. old Pa.
  pose proof (pend_get_in _ _ _ Eg) as Hcp.
  split.
  - apply inv_upd1; simpl; auto.
    split; simpl; intros; try discriminate; auto.
    + apply O1; congruence.
    + apply O3; congruence.
    + injection H as <-. apply pend_remove_keys in H0 as [H0 _]. eapply O6; eauto.
    + destruct (O8 H) as [?|?]; [congruence|auto].
  - apply inv_g_upd1; auto. pose proof (G a) as [Ga Gb Gj].
    split; simpl; intros; try discriminate.
    + injection H as <-. destruct (Ga p d Esp H0) as [Hin|Hd]; [|auto].
      destruct (Nat.eq_dec d c) as [->|Hne]; [|left; apply pend_remove_keys; auto].
      right. pose proof (inv_pa _ I c) as Pc.
      apply (pa_k _ _ _ Pc); [eapply inv_snap_started; eauto|assumption].
    + apply (Gj d); assumption.
Qed.

Lemma step_PostBegin s a s' :
  inv s -> inv_g s -> step ws s (LPostBegin a) = Some s' -> inv s' /\ inv_g s'.
Proof.
  intros I G. unfold step. destruct (sp (acts s a)) as [| |[|]|] eqn:Esp; try discriminate. intros [= <-].
  pose proof (inv_pa _ I a) as Pa. old Pa.
  assert (Hr : running (acts s a) = true) by (apply O3; congruence).
  assert (Hnd : ~ done_ (trace s) a) by (intros Hd; apply O5 in Hd; destruct Hd; congruence).
  assert (Hnb : ~ In (EPostB a) (trace s)) by (intros Hb; destruct (O8 Hb); [congruence|contradiction]).
  assert (Hnd' : ~ done_ (EPostB a :: trace s) a) by (unfold done_; simpl; intros [?|?]; [discriminate|contradiction]).
  split.
  - apply inv_upd1_ev; simpl; auto.
    split; simpl; intros; try discriminate; try contradiction; auto.
    + apply O1; congruence.
    + congruence.
  - apply inv_g_upd1_ev; auto. pose proof (G a) as [Ga Gb Gj].
    split; simpl; intros; try discriminate; try contradiction.
    destruct (Ga [] d Esp H0) as [[]|Hd]. right. exact Hd.
Qed.

Lemma step_PostEnd s a s' :
  inv s -> inv_g s -> step ws s (LPostEnd a) = Some s' -> inv s' /\ inv_g s'.
Proof.
  intros I G. unfold step. destruct (sp (acts s a)) eqn:Esp; try discriminate. intros [= <-].
  pose proof (inv_pa _ I a) as Pa. old Pa.
  assert (Hr : running (acts s a) = true) by (apply O3; congruence).
  assert (Hnd : ~ done_ (trace s) a) by (intros Hd; apply O5 in Hd; destruct Hd; congruence).
  assert (Hd' : done_ (EPostE a :: trace s) a) by (left; reflexivity).
  split.
  - apply inv_upd1_ev; simpl; auto.
    split; simpl; intros; try discriminate; try congruence; auto.
  - apply inv_g_upd1_ev; auto. pose proof (G a) as [Ga Gb Gj].
    split; simpl; intros; try discriminate.
    right. apply Gb; assumption.
Qed.

Lemma step_SpawnCheck s p c s' :
  inv s -> inv_g s -> step ws s (LSpawnCheck p c) = Some s' -> inv s' /\ inv_g s'.
Proof.
  intros I G. unfold step. destruct (par (acts s c)) eqn:Epar; try discriminate.
  destruct (ph (acts s c)) eqn:Eph; try discriminate.
  destruct (is_running (acts s p) && negb (started (acts s c)) && negb (c =? 0) && negb (c =? p) && match StopModel.ph (acts s p) with None => true | Some _ => false end) eqn:E; [|discriminate]. apply andb_true_iff in E as [E Ephp].
  intros [= <-].
  apply andb_true_iff in E as [E Ecp]. apply andb_true_iff in E as [E Ec0]. apply andb_true_iff in E as [Erp Est].
  apply negb_true_iff in Est. apply negb_true_iff, Nat.eqb_neq in Ecp.
  pose proof (inv_pa _ I c) as Pc. old Pc.
  assert (Hnd : ~ done_ (trace s) c) by (intros Hd; apply O5 in Hd; destruct Hd; congruence).
  set (xc := Actor false false false SIdle (Some p) (Some Checked) [] false [] []).
  set (s1 := St (upd (acts s) c xc) (trace s) (term s)).
  assert (I1 : inv s1).
  { apply inv_upd1; simpl; auto; [|congruence].
    split; simpl; intros; try discriminate; try congruence; try contradiction; auto.
    + apply O7 in H; congruence.
    + destruct (O8 H) as [Hs|?]; [|contradiction].
      assert (running (acts s c) = true) by (apply O3; congruence). rewrite O12 in Est; congruence. }
  assert (G1 : inv_g s1).
  { apply inv_g_upd1; auto. split; simpl; intros; try discriminate; try contradiction. }
  assert (Hcore : forall c0, same_core (acts s1 c0) (upd (upd (acts s) c xc) p (set_spawning (acts s p) (c :: spawning (acts s p))) c0)).
  { intros c0. simpl. destruct (Nat.eq_dec c0 p) as [->|Hne].
    - rewrite upd_same, upd_other by auto. unfold same_core; simpl; tauto.
    - rewrite (upd_other _ p) by assumption. apply same_core_refl. }
  split; [apply (inv_core s1 _ _ I1 Hcore)|apply (inv_g_core s1 _ _ G1 Hcore)].
Qed.

Lemma step_SpawnInit s c s' :
  inv s -> inv_g s -> step ws s (LSpawnInit c) = Some s' -> inv s' /\ inv_g s'.
Proof.
  intros I G. unfold step. destruct (ph (acts s c)) as [[|]|] eqn:Eph; try discriminate. intros [= <-].
  pose proof (inv_pa _ I c) as Pc. old Pc.
  assert (Est : started (acts s c) = false) by auto.
  assert (Hnd : ~ done_ (trace s) c) by (intros Hd; apply O5 in Hd; destruct Hd; congruence).
  assert (Hnp : ~ In (EPre c) (trace s)) by (intros Hp; apply O7 in Hp; congruence).
  assert (Hnd' : ~ done_ (EPre c :: trace s) c) by (unfold done_; simpl; intros [?|?]; [discriminate|contradiction]).
  split.
  - apply inv_upd1_ev; simpl; auto.
    split; simpl; intros; try discriminate; try congruence; try contradiction; auto.

    destruct H as [?|H]; [discriminate|]. destruct (O8 H) as [Hs|?]; [|contradiction].
    assert (running (acts s c) = true) by (apply O3; congruence). rewrite O12 in Est; congruence.
  - apply inv_g_upd1_ev; auto. split; simpl; intros; try discriminate; try contradiction.
Qed.

Lemma step_SpawnAdd s c s' :
  inv s -> inv_g s -> step ws s (LSpawnAdd c) = Some s' -> inv s' /\ inv_g s'.
Proof.
  intros I G. unfold step. destruct (ph (acts s c)) as [[|]|] eqn:Eph; try discriminate.
  destruct (par (acts s c)) as [p|] eqn:Epar; try discriminate. intros [= <-].
  pose proof (inv_pa _ I c) as Pc. old Pc. cbv zeta. rewrite ?Epar.
  set (xc := Actor (running (acts s c)) (stopping (acts s c)) (started (acts s c)) (sp (acts s c)) (Some p) None
                   (spawning (acts s c)) (reg (acts s p)) (kids (acts s c)) (snap (acts s c))).
  set (s1 := St (upd (acts s) c xc) (trace s) (term s)).
  assert (I1 : inv s1).
  { apply inv_upd1; simpl; auto. split; simpl; intros; try discriminate; eauto. }
  assert (G1 : inv_g s1).
  { apply inv_g_upd1; auto. pose proof (G c) as [Ga Gb Gj]. split; simpl; auto. }
  match goal with |- inv (St ?A _ _) /\ _ => assert (Hcore : forall c0, same_core (acts s1 c0) (A c0)) end.
  { intros c0. simpl. destruct (Nat.eq_dec c0 p) as [->|Hne].
    - rewrite upd_same. unfold same_core; simpl; repeat split; auto.
    - rewrite (upd_other _ p) by assumption. apply same_core_refl. }
  split; [apply (inv_core s1 _ _ I1 Hcore)|apply (inv_g_core s1 _ _ G1 Hcore)].
Qed.

Lemma step_Reap s a s' :
  inv s -> inv_g s -> step ws s (LReap a) = Some s' -> inv s' /\ inv_g s'.
Proof.
  intros I G. unfold step. destruct (term s) as [|a' rest]; [discriminate|].
  destruct (a =? a'); [|discriminate]. intros [= <-].
  match goal with |- inv (St ?A _ _) /\ _ => assert (Hcore : forall c0, same_core (acts s c0) (A c0)) end.
  { intros c0. destruct (reg (acts s a)); [|apply same_core_refl].
    set (A1 := unreg_all (acts s) _).
    assert (H1 : same_core (acts s c0) (A1 c0)) by apply unreg_all_core.
    destruct (par (acts s a)) as [p|]; [|exact H1].
    destruct (Nat.eq_dec c0 p) as [->|Hne].
    - rewrite upd_same. eapply same_core_trans; [exact H1|]. unfold same_core; simpl; tauto.
    - now rewrite upd_other by assumption. }
  split; [apply (inv_core s _ _ I Hcore)|apply (inv_g_core s _ _ G Hcore)].
Qed.

Lemma inv_step s l s' :
  inv s -> inv_g s -> ws = true \/ disown_ok s l = true -> step ws s l = Some s' -> inv s' /\ inv_g s'.
Proof.
  intros I G Hg H. destruct l.
  - eapply step_StopBegin; eauto.
  - eapply step_StopNoop; eauto.
  - eapply step_Snapshot; eauto.
  - eapply step_DisownTest; eauto.
  - eapply step_DisownDone; eauto.
  - eapply step_PostBegin; eauto.
  - eapply step_PostEnd; eauto.
  - eapply step_SpawnCheck; eauto.
  - eapply step_SpawnInit; eauto.
  - eapply step_SpawnAdd; eauto.
  - eapply step_Reap; eauto.
Qed.
(* ---- the same cases for the unguarded part alone (no race-freedom hypothesis) *)
Lemma step_StopBegin_u s a s' :
  inv s -> step ws s (LStopBegin a) = Some s' -> inv s'.
Proof.
  intros I. unfold step. destruct (sp (acts s a)) eqn:Esp; try discriminate.
  destruct (running (acts s a)) eqn:Er; [|discriminate]. intros [= <-].
  pose proof (inv_pa _ I a) as Pa. old Pa.
  assert (Hnd : ~ done_ (trace s) a) by (intros Hd; apply O5 in Hd; destruct Hd; congruence).
    apply inv_upd1; simpl; auto. split; simpl; intros; try discriminate; try congruence; auto; try contradiction.
    destruct (O8 H) as [?|?]; [congruence|contradiction].

Qed.

Lemma step_StopNoop_u s a s' :
  inv s -> step ws s (LStopNoop a) = Some s' -> inv s'.
Proof.
  intros I. unfold step. destruct (sp (acts s a)); try discriminate.
  destruct (running (acts s a)); [discriminate|]. intros [= <-]. auto.
Qed.

Lemma step_Snapshot_u s a s' :
  inv s -> step ws s (LSnapshot a) = Some s' -> inv s'.
Proof.
  intros I. unfold step. destruct (sp (acts s a)) eqn:Esp; try discriminate. intros [= <-].
  pose proof (inv_pa _ I a) as Pa. old Pa.
  assert (Hr : running (acts s a) = true) by (apply O3; congruence).
  assert (Hnd : ~ done_ (trace s) a) by (intros Hd; apply O5 in Hd; destruct Hd; congruence).
    apply inv_upd1; simpl; auto.
    + split; simpl; intros; try discriminate; try congruence; auto; try contradiction.
      * apply O1; congruence.
      * injection H as <-. now rewrite todo_keys in H0.
      * destruct (O8 H) as [?|?]; [congruence|contradiction].
    + intros d Hin. right. unfold children in Hin. apply filter_In in Hin as [_ Hreg].
      apply (pa_reg _ _ _ (inv_pa _ I d)), Hreg.
Qed.

Lemma step_DisownTest_u s a c s' :
  inv s -> step ws s (LDisownTest a c) = Some s' -> inv s'.
Proof.
  intros I. unfold step. destruct (sp (acts s a)) as [| |p|] eqn:Esp; try discriminate.
  destruct (pend_get c p) as [[|]|] eqn:Eg; try discriminate. intros [= <-].
  pose proof (inv_pa _ I a) as Pa. old Pa.
  pose proof (pend_get_in _ _ _ Eg) as Hcp.
  set (call := is_running (acts s c) || ws && stopping (acts s c)).
  set (p' := if call then pend_set c PWait p else pend_remove c p).
  assert (Hkeys : forall d, In d (map fst p') -> In d (map fst p)).
  { intros d. unfold p'. destruct call; [now rewrite pend_set_keys|]. intros H. now apply pend_remove_keys in H. }
    apply inv_upd1; simpl; auto.
    split; simpl; intros; try discriminate; auto.
    + apply O1; congruence.
    + apply O3; congruence.
    + injection H as <-. eapply O6; eauto.
    + destruct (O8 H) as [?|?]; [congruence|auto].
Qed.

Lemma step_DisownDone_u s a c s' :
  inv s -> step ws s (LDisownDone a c) = Some s' -> inv s'.
Proof.
  intros I. unfold step. destruct (sp (acts s a)) as [| |p|] eqn:Esp; try discriminate.
  destruct (pend_get c p) as [[|]|] eqn:Eg; try discriminate.
  destruct (sp (acts s c)) eqn:Espc; try discriminate.
  destruct (running (acts s c)) eqn:Erc; [discriminate|]. intros [= <-].
  pose proof (inv_pa _ I a) as Pa. old Pa.
  pose proof (pend_get_in _ _ _ Eg) as Hcp.
    apply inv_upd1; simpl; auto.
    split; simpl; intros; try discriminate; auto.
    + apply O1; congruence.
    + apply O3; congruence.
    + injection H as <-. apply pend_remove_keys in H0 as [H0 _]. eapply O6; eauto.
    + destruct (O8 H) as [?|?]; [congruence|auto].
Qed.

Lemma step_PostBegin_u s a s' :
  inv s -> step ws s (LPostBegin a) = Some s' -> inv s'.
Proof.
  intros I. unfold step. destruct (sp (acts s a)) as [| |[|]|] eqn:Esp; try discriminate. intros [= <-].
  pose proof (inv_pa _ I a) as Pa. old Pa.
  assert (Hr : running (acts s a) = true) by (apply O3; congruence).
  assert (Hnd : ~ done_ (trace s) a) by (intros Hd; apply O5 in Hd; destruct Hd; congruence).
  assert (Hnb : ~ In (EPostB a) (trace s)) by (intros Hb; destruct (O8 Hb); [congruence|contradiction]).
  assert (Hnd' : ~ done_ (EPostB a :: trace s) a) by (unfold done_; simpl; intros [?|?]; [discriminate|contradiction]).
    apply inv_upd1_ev; simpl; auto.
    split; simpl; intros; try discriminate; try contradiction; auto.
    + apply O1; congruence.
    + congruence.
Qed.

Lemma step_PostEnd_u s a s' :
  inv s -> step ws s (LPostEnd a) = Some s' -> inv s'.
Proof.
  intros I. unfold step. destruct (sp (acts s a)) eqn:Esp; try discriminate. intros [= <-].
  pose proof (inv_pa _ I a) as Pa. old Pa.
  assert (Hr : running (acts s a) = true) by (apply O3; congruence).
  assert (Hnd : ~ done_ (trace s) a) by (intros Hd; apply O5 in Hd; destruct Hd; congruence).
  assert (Hd' : done_ (EPostE a :: trace s) a) by (left; reflexivity).
    apply inv_upd1_ev; simpl; auto.
    split; simpl; intros; try discriminate; try congruence; auto.
Qed.

Lemma step_SpawnCheck_u s p c s' :
  inv s -> step ws s (LSpawnCheck p c) = Some s' -> inv s'.
Proof.
  intros I. unfold step. destruct (par (acts s c)) eqn:Epar; try discriminate.
  destruct (ph (acts s c)) eqn:Eph; try discriminate.
  destruct (is_running (acts s p) && negb (started (acts s c)) && negb (c =? 0) && negb (c =? p) && match StopModel.ph (acts s p) with None => true | Some _ => false end) eqn:E; [|discriminate]. apply andb_true_iff in E as [E Ephp].
  intros [= <-].
  apply andb_true_iff in E as [E Ecp]. apply andb_true_iff in E as [E Ec0]. apply andb_true_iff in E as [Erp Est].
  apply negb_true_iff in Est. apply negb_true_iff, Nat.eqb_neq in Ecp.
  pose proof (inv_pa _ I c) as Pc. old Pc.
  assert (Hnd : ~ done_ (trace s) c) by (intros Hd; apply O5 in Hd; destruct Hd; congruence).
  set (xc := Actor false false false SIdle (Some p) (Some Checked) [] false [] []).
  set (s1 := St (upd (acts s) c xc) (trace s) (term s)).
  assert (I1 : inv s1).
  { apply inv_upd1; simpl; auto; [|congruence].
    split; simpl; intros; try discriminate; try congruence; try contradiction; auto.
    + apply O7 in H; congruence.
    + destruct (O8 H) as [Hs|?]; [|contradiction].
      assert (running (acts s c) = true) by (apply O3; congruence). rewrite O12 in Est; congruence. }
  assert (Hcore : forall c0, same_core (acts s1 c0) (upd (upd (acts s) c xc) p (set_spawning (acts s p) (c :: spawning (acts s p))) c0)).
  { intros c0. simpl. destruct (Nat.eq_dec c0 p) as [->|Hne].
    - rewrite upd_same, upd_other by auto. unfold same_core; simpl; tauto.
    - rewrite (upd_other _ p) by assumption. apply same_core_refl. }
  apply (inv_core s1 _ _ I1 Hcore).
Qed.

Lemma step_SpawnInit_u s c s' :
  inv s -> step ws s (LSpawnInit c) = Some s' -> inv s'.
Proof.
  intros I. unfold step. destruct (ph (acts s c)) as [[|]|] eqn:Eph; try discriminate. intros [= <-].
  pose proof (inv_pa _ I c) as Pc. old Pc.
  assert (Est : started (acts s c) = false) by auto.
  assert (Hnd : ~ done_ (trace s) c) by (intros Hd; apply O5 in Hd; destruct Hd; congruence).
  assert (Hnp : ~ In (EPre c) (trace s)) by (intros Hp; apply O7 in Hp; congruence).
  assert (Hnd' : ~ done_ (EPre c :: trace s) c) by (unfold done_; simpl; intros [?|?]; [discriminate|contradiction]).
    apply inv_upd1_ev; simpl; auto.
    split; simpl; intros; try discriminate; try congruence; try contradiction; auto.

    destruct H as [?|H]; [discriminate|]. destruct (O8 H) as [Hs|?]; [|contradiction].
    assert (running (acts s c) = true) by (apply O3; congruence). rewrite O12 in Est; congruence.
Qed.

Lemma step_SpawnAdd_u s c s' :
  inv s -> step ws s (LSpawnAdd c) = Some s' -> inv s'.
Proof.
  intros I. unfold step. destruct (ph (acts s c)) as [[|]|] eqn:Eph; try discriminate.
  destruct (par (acts s c)) as [p|] eqn:Epar; try discriminate. intros [= <-].
  pose proof (inv_pa _ I c) as Pc. old Pc. cbv zeta. rewrite ?Epar.
  set (xc := Actor (running (acts s c)) (stopping (acts s c)) (started (acts s c)) (sp (acts s c)) (Some p) None
                   (spawning (acts s c)) (reg (acts s p)) (kids (acts s c)) (snap (acts s c))).
  set (s1 := St (upd (acts s) c xc) (trace s) (term s)).
  assert (I1 : inv s1).
  { apply inv_upd1; simpl; auto. split; simpl; intros; try discriminate; eauto. }
  match goal with |- inv (St ?A _ _) => assert (Hcore : forall c0, same_core (acts s1 c0) (A c0)) end.
  { intros c0. simpl. destruct (Nat.eq_dec c0 p) as [->|Hne].
    - rewrite upd_same. unfold same_core; simpl; repeat split; auto.
    - rewrite (upd_other _ p) by assumption. apply same_core_refl. }
  apply (inv_core s1 _ _ I1 Hcore).
Qed.

Lemma step_Reap_u s a s' :
  inv s -> step ws s (LReap a) = Some s' -> inv s'.
Proof.
  intros I. unfold step. destruct (term s) as [|a' rest]; [discriminate|].
  destruct (a =? a'); [|discriminate]. intros [= <-].
  match goal with |- inv (St ?A _ _) => assert (Hcore : forall c0, same_core (acts s c0) (A c0)) end.
  { intros c0. destruct (reg (acts s a)); [|apply same_core_refl].
    set (A1 := unreg_all (acts s) _).
    assert (H1 : same_core (acts s c0) (A1 c0)) by apply unreg_all_core.
    destruct (par (acts s a)) as [p|]; [|exact H1].
    destruct (Nat.eq_dec c0 p) as [->|Hne].
    - rewrite upd_same. eapply same_core_trans; [exact H1|]. unfold same_core; simpl; tauto.
    - now rewrite upd_other by assumption. }
  apply (inv_core s _ _ I Hcore).
Qed.

Lemma inv_step_u s l s' : inv s -> step ws s l = Some s' -> inv s'.
Proof.
  intros I H. destruct l.
  - eapply step_StopBegin_u; eauto.
  - eapply step_StopNoop_u; eauto.
  - eapply step_Snapshot_u; eauto.
  - eapply step_DisownTest_u; eauto.
  - eapply step_DisownDone_u; eauto.
  - eapply step_PostBegin_u; eauto.
  - eapply step_PostEnd_u; eauto.
  - eapply step_SpawnCheck_u; eauto.
  - eapply step_SpawnInit_u; eauto.
  - eapply step_SpawnAdd_u; eauto.
  - eapply step_Reap_u; eauto.
Qed.
End Steps.

(* ---------------------------------------------------------------- reachability *)
(* guarded reachability: every step is race-free, or the disown test is the repaired one *)
Inductive reach_g (ws : bool) : st -> Prop :=
| reach_g_init : reach_g ws init
| reach_g_step s l s' : reach_g ws s -> (ws = true \/ disown_ok s l = true) -> step ws s l = Some s' -> reach_g ws s'.

Lemma step_ok_disown s l : step_ok s l = true -> disown_ok s l = true.
Proof. destruct l; simpl; auto. Qed.

Lemma reach_rf_g ws s : reach_rf ws s -> reach_g ws s.
Proof. induction 1; [constructor|econstructor; eauto using step_ok_disown]. Qed.
Lemma reach_fixed_g s : reach true s -> reach_g true s.
Proof. induction 1; [constructor|econstructor; eauto]. Qed.

Lemma reach_inv ws s : reach ws s -> inv s.
Proof. induction 1; [apply inv_init|eapply inv_step_u; eauto]. Qed.
Lemma reach_g_inv ws s : reach_g ws s -> inv s /\ inv_g s.
Proof.
  induction 1; [apply inv_init|]. destruct IHreach_g. eapply inv_step; eauto.
Qed.

(* ---------------------------------------------------------------- theorems *)

(* Exactly-once: in every reachable state (no guard, any interleaving) no lifecycle event
   occurs twice: PreStart, PostStop-begin and PostStop-end happen at most once per actor. *)
Theorem events_at_most_once ws s : reach ws s -> NoDup (trace s).
Proof. intros H. apply (inv_nodup _ (reach_inv _ _ H)). Qed.

(* A stopped actor is never running again, and PostStop-end implies PostStop ran for a started actor *)
Theorem poststop_means_stopped ws s c : reach ws s -> In (EPostE c) (trace s) ->
  running (acts s c) = false /\ started (acts s c) = true.
Proof. intros H. apply (pa_n _ _ _ (inv_pa _ (reach_inv _ _ H) c)). Qed.

(* every started actor that is not running had its PostStop completed (no actor is dropped
   without its hook) *)
Theorem stopped_means_poststop ws s c : reach ws s ->
  started (acts s c) = true -> running (acts s c) = false -> In (EPostE c) (trace s).
Proof. intros H. apply (pa_k _ _ _ (inv_pa _ (reach_inv _ _ H) c)). Qed.

(* children first: at the moment PostStop of [a] begins, PostStop of every child that
   freeChildren read has completed *)
Theorem children_first_g ws s a s' : reach_g ws s -> step ws s (LPostBegin a) = Some s' ->
  forall c, In c (snap (acts s a)) -> In (EPostE c) (trace s).
Proof.
  intros H Hs c Hin. destruct (reach_g_inv _ _ H) as [I G].
  unfold step in Hs. destruct (sp (acts s a)) as [| |[|]|] eqn:Esp; try discriminate.
  destruct (pg_a _ _ _ (G a) [] c Esp Hin) as [[]|Hd]. exact Hd.
Qed.

Lemma chain_done s a d : inv_g s -> done_ (trace s) a -> chain s a d -> done_ (trace s) d.
Proof.
  intros G Ha Hc. induction Hc as [a d Hin|a c d Hin Hc IH].
  - apply (pg_j _ _ _ (G a) d Ha Hin).
  - apply IH. apply (pg_j _ _ _ (G a) c Ha Hin).
Qed.

(* ... and of every descendant along the snapshot chain *)
Theorem descendants_first_g ws s a s' : reach_g ws s -> step ws s (LPostBegin a) = Some s' ->
  forall d, chain s a d -> In (EPostE d) (trace s).
Proof.
  intros H Hs d Hc. destruct (reach_g_inv _ _ H) as [I G].
  pose proof (children_first_g _ _ _ _ H Hs) as Hcf.
  destruct Hc as [a d Hin|a c d Hin Hc]; [auto|].
  eapply chain_done; eauto. apply Hcf, Hin.
Qed.

(* stopped on return: right after PostStop of [a] ended (Shutdown returns nil immediately
   after), a and every descendant along the snapshot chain are not running and stay so *)
Theorem stopped_on_return_g ws s a s' : reach_g ws s -> step ws s (LPostEnd a) = Some s' ->
  running (acts s' a) = false /\
  forall d, chain s' a d -> running (acts s' d) = false /\ In (EPostE d) (trace s').
Proof.
  intros H Hs.
  assert (H' : reach_g ws s') by (apply (reach_g_step ws s (LPostEnd a) s' H); [right; reflexivity|exact Hs]).
  destruct (reach_g_inv _ _ H') as [I' G'].
  assert (Hda : done_ (trace s') a).
  { unfold step in Hs. destruct (sp (acts s a)); try discriminate. injection Hs as <-. left. reflexivity. }
  split; [apply (pa_n _ _ _ (inv_pa _ I' a) Hda)|].
  intros d Hc. pose proof (chain_done _ _ _ G' Hda Hc) as Hd.
  split; [apply (pa_n _ _ _ (inv_pa _ I' d) Hd)|exact Hd].
Qed.

(* the order among the events themselves: PostStop-end of a snapshot child is older in the
   trace than PostStop-begin of its parent *)
Fixpoint older (x y : ev) (tr : list ev) : Prop :=   (* x happened before y; trace is newest first *)
  match tr with
  | [] => False
  | e :: tr' => (e = y /\ In x tr') \/ older x y tr'
  end.

Lemma older_cons x y e tr : older x y tr -> older x y (e :: tr).
Proof. simpl. auto. Qed.

Definition order_ok (s : st) : Prop :=
  forall a c, In (EPostB a) (trace s) -> In c (snap (acts s a)) -> older (EPostE c) (EPostB a) (trace s).

(* the snapshot of an actor whose PostStop began does not change any more *)
Lemma postb_snap_stable ws s l s' a :
  inv s -> step ws s l = Some s' -> In (EPostB a) (trace s) -> snap (acts s' a) = snap (acts s a).
Proof.
  intros I Hs Hb. pose proof (inv_pa _ I a) as Pa.
  assert (Hsp : sp (acts s a) = SPost \/ (running (acts s a) = false /\ started (acts s a) = true)).
  { destruct (pa_postb _ _ _ Pa Hb) as [?|Hd]; [auto|right; apply (pa_n _ _ _ Pa Hd)]. }
  destruct l; unfold step in Hs; simpl in Hs.
  - destruct (sp (acts s a0)) eqn:E; try discriminate. destruct (running (acts s a0)) eqn:Er; [|discriminate].
    injection Hs as <-. simpl. destruct (Nat.eq_dec a a0) as [->|]; [now rewrite upd_same|now rewrite upd_other].
  - destruct (sp (acts s a0)); try discriminate. destruct (running (acts s a0)); [discriminate|]. now injection Hs as <-.
  - destruct (sp (acts s a0)) eqn:E; try discriminate. injection Hs as <-. simpl.
    destruct (Nat.eq_dec a a0) as [->|]; [|now rewrite upd_other].
    exfalso. destruct Hsp as [?|[Hr _]]; [congruence|].
    rewrite (pa_run _ _ _ Pa) in Hr; congruence.
  - destruct (sp (acts s a0)) eqn:E; try discriminate. destruct (pend_get c p) as [[|]|]; try discriminate.
    injection Hs as <-. simpl. destruct (Nat.eq_dec a a0) as [->|]; [now rewrite upd_same|now rewrite upd_other].
  - destruct (sp (acts s a0)) eqn:E; try discriminate. destruct (pend_get c p) as [[|]|]; try discriminate.
    destruct (sp (acts s c)); try discriminate. destruct (running (acts s c)); [discriminate|].
    injection Hs as <-. simpl. destruct (Nat.eq_dec a a0) as [->|]; [now rewrite upd_same|now rewrite upd_other].
  - destruct (sp (acts s a0)) as [| |[|]|] eqn:E; try discriminate.
    injection Hs as <-. simpl. destruct (Nat.eq_dec a a0) as [->|]; [now rewrite upd_same|now rewrite upd_other].
  - destruct (sp (acts s a0)) eqn:E; try discriminate.
    injection Hs as <-. simpl. destruct (Nat.eq_dec a a0) as [->|]; [now rewrite upd_same|now rewrite upd_other].
  - destruct (par (acts s c)) eqn:Ep; try discriminate. destruct (ph (acts s c)) eqn:Eh; try discriminate.
    destruct (is_running (acts s p) && negb (started (acts s c)) && negb (c =? 0) && negb (c =? p) && match StopModel.ph (acts s p) with None => true | Some _ => false end) eqn:E; [|discriminate]. apply andb_true_iff in E as [E Ephp].
    injection Hs as <-. simpl.
    apply andb_true_iff in E as [E _]. apply andb_true_iff in E as [E _]. apply andb_true_iff in E as [_ Est].
    apply negb_true_iff in Est.
    assert (a <> c).
    { intros ->. destruct Hsp as [Hp|[_ ?]]; [|congruence].
      assert (running (acts s c) = true) by (apply (pa_run _ _ _ Pa); congruence).
      rewrite (pa_run_started _ _ _ Pa) in Est; congruence. }
    destruct (Nat.eq_dec a p) as [->|]; [rewrite upd_same; reflexivity|].
    rewrite upd_other, upd_other; auto.
  - destruct (ph (acts s c)) as [[|]|] eqn:Eh; try discriminate. injection Hs as <-. simpl.
    destruct (Nat.eq_dec a c) as [->|]; [|now rewrite upd_other].
    exfalso. pose proof (pa_chk _ _ _ Pa Eh) as Est.
    destruct Hsp as [Hp|[_ ?]]; [|congruence].
    assert (running (acts s c) = true) by (apply (pa_run _ _ _ Pa); congruence).
    rewrite (pa_run_started _ _ _ Pa) in Est; congruence.
  - destruct (ph (acts s c)) as [[|]|] eqn:Eh; try discriminate.
    destruct (par (acts s c)) as [p|] eqn:Ep; try discriminate. injection Hs as <-. simpl.
    destruct (Nat.eq_dec a p) as [->|].
    + rewrite upd_same. simpl. destruct (Nat.eq_dec p c) as [->|]; [now rewrite upd_same|now rewrite upd_other].
    + rewrite upd_other by assumption. destruct (Nat.eq_dec a c) as [->|]; [now rewrite upd_same|now rewrite upd_other].
  - destruct (term s) as [|a' rest]; [discriminate|]. destruct (a0 =? a'); [|discriminate]. injection Hs as <-. simpl.
    destruct (reg (acts s a0)); [|reflexivity].
    set (A1 := unreg_all (acts s) _).
    assert (H1 : snap (A1 a) = snap (acts s a)) by (destruct (unreg_all_core (subtree (length (kids (acts s a0)) + 64) (acts s) a0) (acts s) a) as (_&_&_&_&_&?&_); assumption).
    destruct (par (acts s a0)) as [p|]; [|exact H1].
    destruct (Nat.eq_dec a p) as [->|]; [rewrite upd_same; exact H1|now rewrite upd_other].
Qed.

Lemma trace_grows ws s l s' e : step ws s l = Some s' -> In e (trace s) -> In e (trace s').
Proof.
  intros Hs Hin. destruct l; unfold step in Hs; simpl in Hs;
  repeat match type of Hs with
  | match ?x with _ => _ end = Some _ => destruct x eqn:?; try discriminate
  | (if ?x then _ else _) = Some _ => destruct x eqn:?; try discriminate
  end; injection Hs as <-; simpl; auto.
Qed.

Lemma trace_step ws s l s' : step ws s l = Some s' ->
  trace s' = trace s \/ exists e, trace s' = e :: trace s.
Proof.
  intros Hs. destruct l; unfold step in Hs; simpl in Hs;
  repeat match type of Hs with
  | match ?x with _ => _ end = Some _ => destruct x eqn:?; try discriminate
  | (if ?x then _ else _) = Some _ => destruct x eqn:?; try discriminate
  end; injection Hs as <-; simpl; eauto.
Qed.

Theorem order_g ws s : reach_g ws s -> order_ok s.
Proof.
  induction 1 as [|s l s' Hr IH Hg Hs].
  - intros a c []. 
  - destruct (reach_g_inv _ _ Hr) as [I G].
    intros a c Hb Hin.
    destruct (trace_step _ _ _ _ Hs) as [Et|[e Et]].
    + rewrite Et in *. rewrite (postb_snap_stable _ _ _ _ _ I Hs Hb) in Hin. apply IH; assumption.
    + rewrite Et in *. destruct Hb as [->|Hb].
      * (* this step is PostBegin a *)
        assert (l = LPostBegin a) as ->.
        { destruct l; unfold step in Hs; simpl in Hs;
          repeat match type of Hs with
          | match ?x with _ => _ end = Some _ => destruct x eqn:?; try discriminate
          | (if ?x then _ else _) = Some _ => destruct x eqn:?; try discriminate
          end; injection Hs as <-; simpl in Et; try (exfalso; revert Et; clear; intros Et; induction (trace s); congruence);
          injection Et as ?; congruence. }
        simpl. left. split; [reflexivity|].
        assert (Hsn : snap (acts s' a) = snap (acts s a)).
        { unfold step in Hs. destruct (sp (acts s a)) as [| |[|]|]; try discriminate. injection Hs as <-. simpl. now rewrite upd_same. }
        rewrite Hsn in Hin. eapply children_first_g; eauto.
      * rewrite (postb_snap_stable _ _ _ _ _ I Hs Hb) in Hin. apply older_cons. apply IH; assumption.
Qed.

(* ---------------------------------------------------------------- executable runs *)
Fixpoint run_ok (ws : bool) (s : st) (ls : list label) : option st :=
  match ls with
  | [] => Some s
  | l :: ls' => if step_ok s l then match step ws s l with Some s' => run_ok ws s' ls' | None => None end else None
  end.

Lemma run_reach ws ls : forall s s', reach ws s -> run ws s ls = Some s' -> reach ws s'.
Proof.
  induction ls as [|l ls IH]; simpl; intros s s' Hr H; [now injection H as <-|].
  destruct (step ws s l) eqn:E; [|discriminate]. eapply IH; [|exact H]. econstructor; eauto.
Qed.
Lemma run_ok_reach_rf ws ls : forall s s', reach_rf ws s -> run_ok ws s ls = Some s' -> reach_rf ws s'.
Proof.
  induction ls as [|l ls IH]; simpl; intros s s' Hr H; [now injection H as <-|].
  destruct (step_ok s l) eqn:Eo; [|discriminate].
  destruct (step ws s l) eqn:E; [|discriminate]. eapply IH; [|exact H]. econstructor; eauto.
Qed.

Definition spawn (p c : nat) : list label := [LSpawnCheck p c; LSpawnInit c; LSpawnAdd c].
(* Shutdown of a leaf up to (not including) the end of its PostStop *)
Definition stop_leaf_begin (a : nat) : list label := [LStopBegin a; LSnapshot a; LPostBegin a].

Definition bmem (e : ev) (tr : list ev) : bool :=
  existsb (fun x => match x, e with
                    | EPre a, EPre b | EPostB a, EPostB b | EPostE a, EPostE b => Nat.eqb a b
                    | _, _ => false end) tr.
Lemma bmem_false e tr : bmem e tr = false -> ~ In e tr.
Proof.
  unfold bmem. intros H Hin. assert (existsb (fun x => match x, e with
                    | EPre a, EPre b | EPostB a, EPostB b | EPostE a, EPostE b => Nat.eqb a b
                    | _, _ => false end) tr = true); [|congruence].
  apply existsb_exists. exists e. split; [assumption|]. destruct e; apply Nat.eqb_refl.
Qed.

(* WITNESS 1 (code as it is, ws = false): Kill(child) is inside the child's PostStop when the
   parent is shut down; the parent's disown goroutine sees IsRunning(child) = false, skips it, and
   the parent's PostStop begins (and Shutdown(parent) returns) while the child's PostStop has not
   completed. *)
Definition witness_concurrent_stop : list label :=
  spawn 0 1 ++ spawn 1 2 ++ stop_leaf_begin 2 ++
  [LStopBegin 1; LSnapshot 1; LDisownTest 1 2; LPostBegin 1; LPostEnd 1].

Theorem concurrent_stop_refuted :
  exists s, run false init witness_concurrent_stop = Some s /\ reach false s /\
    In 2 (snap (acts s 1)) /\ In (EPostB 1) (trace s) /\ In (EPostE 1) (trace s) /\
    running (acts s 1) = false /\          (* Shutdown(parent) has returned *)
    ~ In (EPostE 2) (trace s) /\ sp (acts s 2) = SPost.   (* the child's PostStop is still running *)
Proof.
  destruct (run false init witness_concurrent_stop) as [s|] eqn:E; [|vm_compute in E; discriminate].
  exists s. split; [reflexivity|]. split; [eapply run_reach; [constructor|exact E]|].
  vm_compute in E. injection E as <-. simpl.
  repeat split; auto; try tauto. intuition discriminate.
Qed.

(* the same labels are not a run of the repaired disown test: the goroutine waits for the child *)
Example concurrent_stop_blocked_when_repaired : run true init witness_concurrent_stop = None.
Proof. vm_compute. reflexivity. Qed.

(* WITNESS 2 (either variant): SpawnChild tested IsRunning(parent) before the parent's Shutdown
   took its children snapshot, the child's PreStart finishes afterwards: the child runs under a
   stopped parent (and, the death watch having removed the parent, is not even in the tree). *)
Definition witness_spawn_race : list label :=
  spawn 0 1 ++ [LSpawnCheck 1 2; LSpawnInit 2; LStopBegin 1; LSnapshot 1; LPostBegin 1; LPostEnd 1; LReap 1; LSpawnAdd 2].

Theorem spawn_race_refuted : forall ws,
  exists s, run ws init witness_spawn_race = Some s /\ reach ws s /\
    par (acts s 2) = Some 1 /\ running (acts s 2) = true /\ stopping (acts s 2) = false /\
    started (acts s 1) = true /\ running (acts s 1) = false /\ In (EPostE 1) (trace s) /\
    reg (acts s 2) = false.
Proof.
  intros ws.
  destruct (run ws init witness_spawn_race) as [s|] eqn:E; [|destruct ws; vm_compute in E; discriminate].
  exists s. split; [reflexivity|]. split; [eapply run_reach; [constructor|exact E]|].
  destruct ws; vm_compute in E; injection E as <-; simpl; repeat split; auto.
Qed.

(* the witness is exactly the guarded case: it is not race-free *)
Example spawn_race_not_race_free : run_ok false init witness_spawn_race = None.
Proof. vm_compute. reflexivity. Qed.
Example concurrent_stop_not_race_free : run_ok false init witness_concurrent_stop = None.
Proof. vm_compute. reflexivity. Qed.

(* EXAMPLE: the hypotheses of the guarded theorems are met by a non-trivial race-free run:
   a three-level tree 0 - 1 - {2,3}, 3 - 4, Shutdown(1) driven to the point where PostStop of 1
   is about to begin with a non-empty snapshot, children and grandchild stopped first. *)
Definition stop_leaf (a : nat) : list label := stop_leaf_begin a ++ [LPostEnd a].
Definition example_run : list label :=
  spawn 0 1 ++ spawn 1 2 ++ spawn 1 3 ++ spawn 3 4 ++
  [LStopBegin 1; LSnapshot 1; LDisownTest 1 2; LDisownTest 1 3] ++
  stop_leaf 2 ++ [LDisownDone 1 2] ++
  [LStopBegin 3; LSnapshot 3; LDisownTest 3 4] ++ stop_leaf 4 ++ [LDisownDone 3 4; LPostBegin 3; LPostEnd 3; LDisownDone 1 3].

Example example_race_free :
  exists s s', run_ok false init example_run = Some s /\ reach_rf false s /\
    snap (acts s 1) = [2; 3] /\ chain s 1 4 /\ step false s (LPostBegin 1) = Some s'.
Proof.
  destruct (run_ok false init example_run) as [s|] eqn:E; [|vm_compute in E; discriminate].
  destruct (step false s (LPostBegin 1)) as [s'|] eqn:E'.
  - exists s, s'. split; [reflexivity|]. split; [eapply run_ok_reach_rf; [constructor|exact E]|].
    vm_compute in E. injection E as <-. split; [reflexivity|]. split; [|exact E'].
    apply chain_more with (c := 3); simpl; [auto|]. apply chain_one. simpl. auto.
  - vm_compute in E. injection E as <-. vm_compute in E'. discriminate.
Qed.

(* ---------------------------------------------------------------- the driver level stays inside the small-step system *)
Lemma first_some_spec {A B} (f : A -> option B) l y : first_some f l = Some y -> exists x, In x l /\ f x = Some y.
Proof.
  induction l as [|a l IH]; simpl; [discriminate|]. destruct (f a) eqn:E.
  - intros [= <-]. exists a. auto.
  - intros H. destruct (IH H) as (x & Hin & Hx). exists x. auto.
Qed.

Lemma internal_step_reach ws gated n s s' : reach ws s -> internal_step ws gated n s = Some s' -> reach ws s'.
Proof.
  intros R. unfold internal_step.
  destruct (first_some (fun a => try_labels ws s (internal_labels gated s a)) (seq 0 n)) as [s1|] eqn:E.
  - intros [= <-]. apply first_some_spec in E as (a & _ & E). unfold try_labels in E.
    apply first_some_spec in E as (l & _ & E). econstructor; eauto.
  - destruct (term s) as [|a rest]; [discriminate|]. intros H. econstructor; eauto.
Qed.

Lemma quiesce_reach ws gated n fuel : forall s, reach ws s -> reach ws (quiesce ws gated n fuel s).
Proof.
  induction fuel as [|f IH]; intros s R; simpl; [assumption|].
  destruct (internal_step ws gated n s) as [s'|] eqn:E; [|assumption].
  apply IH. eapply internal_step_reach; eauto.
Qed.

Theorem drive_reach ws gated n s d : reach ws s -> reach ws (fst (drive ws gated n s d)).
Proof.
  intros R. unfold drive. destruct d; try (cbn [fst]; exact R);
    (destruct (drive1 ws s _) as [s'|] eqn:E; cbn [fst]; [|assumption]; apply quiesce_reach; cbn [drive1] in E).
  - eapply run_reach; eauto.
  - econstructor; eauto.
  - eapply run_reach; eauto.
  - destruct (step ws s (LStopBegin a)) eqn:E2; injection E as <-; [econstructor; eauto|assumption].
  - econstructor; eauto.
Qed.
