(* C09 — M-TREE: the consistency invariant [tree_wf] is preserved by every tree operation, hence
   holds after every finite sequence of operations from the empty tree. *)
From stdpp Require Import gmap list.
From Coq Require Import ZArith Lia.
From GV Require Import C09.Model.

(* ---------------------------------------------------------------- generic map facts *)
Lemma map_size_alter {A} (f : A → A) (i : nat) (m : gmap nat A) : size (alter f i m) = size m.
Proof.
  destruct (m !! i) as [x|] eqn:E.
  - assert (alter f i m = <[i := f x]> m) as ->.
    { apply map_eq. intros j. destruct (decide (i = j)) as [->|].
      - by rewrite lookup_alter, lookup_insert, E.
      - by rewrite lookup_alter_ne, lookup_insert_ne. }
    rewrite map_size_insert_Some; eauto.
  - assert (alter f i m = m) as ->; [|done].
    apply map_eq. intros j. destruct (decide (i = j)) as [->|].
    + by rewrite lookup_alter, E.
    + by rewrite lookup_alter_ne.
Qed.

Lemma lookup_foldr_alter {A} (f : A → A) (l : list nat) (m : gmap nat A) (k : nat) :
  (∀ x, f (f x) = f x) →
  foldr (λ w m, alter f w m) m l !! k = if decide (k ∈ l) then f <$> m !! k else m !! k.
Proof.
  intros Hf. induction l as [|a l IH]; simpl.
  - destruct (decide (k ∈ [])) as [H|]; [by apply elem_of_nil in H|done].
  - destruct (decide (a = k)) as [->|Hne].
    + rewrite lookup_alter, IH. destruct (decide (k ∈ k :: l)) as [_|H]; [|exfalso; apply H; left].
      destruct (decide (k ∈ l)); [|done].
      destruct (m !! k); simpl; [by rewrite Hf|done].
    + rewrite lookup_alter_ne, IH by done.
      destruct (decide (k ∈ l)), (decide (k ∈ a :: l)) as [H|H]; try done.
      * exfalso; apply H; by right.
      * apply elem_of_cons in H as [->|]; done.
Qed.

Lemma size_foldr_alter {A} (f : A → A) (l : list nat) (m : gmap nat A) :
  size (foldr (λ w m, alter f w m) m l) = size m.
Proof. induction l; simpl; [done|]. by rewrite map_size_alter. Qed.

(* ---------------------------------------------------------------- list-set helpers *)
Lemma elem_of_ladd x y l : x ∈ ladd y l ↔ x = y ∨ x ∈ l.
Proof.
  unfold ladd. destruct (decide (y ∈ l)).
  - split; [by right|]. intros [->|]; done.
  - rewrite elem_of_app, elem_of_list_singleton. tauto.
Qed.
Lemma elem_of_ldel x y l : x ∈ ldel y l ↔ x ≠ y ∧ x ∈ l.
Proof. unfold ldel. by rewrite elem_of_list_filter. Qed.
Lemma ldel_idemp x l : ldel x (ldel x l) = ldel x l.
Proof.
  unfold ldel. induction l as [|a l IH]; [done|].
  rewrite filter_cons. destruct (decide (a ≠ x)); [|done].
  rewrite filter_cons. destruct (decide (a ≠ x)); [|done]. by rewrite IH.
Qed.

(* ---------------------------------------------------------------- the invariant *)
Record tree_wf (t : tree) : Prop := {
  wf_count : t_count t = Z.of_nat (size (t_pids t));
  wf_names : ∀ nm i g, t_names t !! nm = Some (i, g) →
             ∃ n, t_pids t !! i = Some n ∧ n_gen n = g ∧ n_name n = nm;
  wf_watchers : ∀ a na w, t_pids t !! a = Some na → w ∈ n_watchers na →
             ∃ nw, t_pids t !! w = Some nw ∧ a ∈ n_watchees nw;
  wf_watchees : ∀ a na e, t_pids t !! a = Some na → e ∈ n_watchees na →
             ∃ ne, t_pids t !! e = Some ne ∧ a ∈ n_watchers ne;
  wf_gen : ∀ i n, t_pids t !! i = Some n → n_gen n < t_next t;
  wf_root : ∀ r, t_root t = RootSet r → is_Some (t_pids t !! r);
}.

Ltac empty_map :=
  repeat match goal with H : (∅ : gmap _ _) !! _ = Some _ |- _ => by rewrite lookup_empty in H end.

Lemma wf_empty : tree_wf empty_tree.
Proof. split; simpl; intros; empty_map; try done. Qed.

Lemma wf_reset t : tree_wf (reset_tree t).
Proof. split; simpl; intros; empty_map; try done. Qed.

Lemma wf_add_root t i nm : tree_wf t → tree_wf (add_root t i nm).1.
Proof.
  intros W. unfold add_root. destruct (t_root t) eqn:Er; try done.
  destruct (t_pids t !! i) as [n0|] eqn:Ei; [done|]. simpl.
  split; simpl.
  - rewrite map_size_insert_None by done. rewrite (wf_count _ W). lia.
  - intros nm' i' g H. destruct (decide (nm = nm')) as [->|]; simplify_map_eq; [eauto|].
    destruct (wf_names _ W _ _ _ H) as (n1 & Hn & ? & ?).
    exists n1. split; [|done]. rewrite lookup_insert_ne; [done|]. intros ->. congruence.
  - intros a na w Ha Hw. destruct (decide (i = a)) as [->|]; simplify_map_eq.
    + by apply elem_of_nil in Hw.
    + destruct (wf_watchers _ W _ _ _ Ha Hw) as (nw & Hnw & ?).
      exists nw. split; [|done]. rewrite lookup_insert_ne; [done|]. intros ->. congruence.
  - intros a na e Ha He. destruct (decide (i = a)) as [->|]; simplify_map_eq.
    + by apply elem_of_nil in He.
    + destruct (wf_watchees _ W _ _ _ Ha He) as (ne & Hne & ?).
      exists ne. split; [|done]. rewrite lookup_insert_ne; [done|]. intros ->. congruence.
  - intros j n1 Hj. destruct (decide (i = j)) as [->|]; simplify_map_eq.
    + lia.
    + pose proof (wf_gen _ W _ _ Hj). lia.
  - intros r [= <-]. rewrite lookup_insert. eauto.
Qed.

Ltac setsolve :=
  simpl in *; rewrite ?elem_of_ladd, ?elem_of_ldel in *; simpl in *;
  try done; try naive_solver.

Ltac fin := simplify_map_eq; try (eexists; split; [done|]); setsolve.

Lemma wf_add_node t p c nm : tree_wf t → tree_wf (add_node t p c nm).1.
Proof.
  intros W. unfold add_node.
  destruct (t_pids t !! c) as [n0|] eqn:Ec; [done|].
  destruct (t_pids t !! p) as [np|] eqn:Ep; [|done]. simpl.
  assert (p ≠ c) as Hpc by (intros ->; congruence).
  split; simpl.
  - rewrite map_size_insert_None by (by rewrite lookup_insert_ne).
    rewrite map_size_insert_Some by eauto. rewrite (wf_count _ W). lia.
  - intros nm' i g H. destruct (decide (nm = nm')) as [->|]; simplify_map_eq; [eauto|].
    destruct (wf_names _ W _ _ _ H) as (n1 & Hn & ? & ?).
    destruct (decide (i = c)); [congruence|]. destruct (decide (i = p)); simplify_map_eq; eauto.
  - intros a na w Ha Hw.
    destruct (decide (a = c)); [|destruct (decide (a = p))]; simplify_map_eq.
    + apply elem_of_list_singleton in Hw as ->. fin.
    + destruct (wf_watchers _ W _ _ _ Ep Hw) as (nw & Hnw & ?).
      destruct (decide (w = c)); [congruence|]. destruct (decide (w = p)); fin.
    + destruct (wf_watchers _ W _ _ _ Ha Hw) as (nw & Hnw & ?).
      destruct (decide (w = c)); [congruence|]. destruct (decide (w = p)); fin.
  - intros a na e Ha He.
    destruct (decide (a = c)); [|destruct (decide (a = p))]; simplify_map_eq.
    + by apply elem_of_nil in He.
    + apply elem_of_ladd in He as [->|He]; simplify_map_eq.
      * eexists; split; [done|]. simpl. by apply elem_of_list_singleton.
      * destruct (wf_watchees _ W _ _ _ Ep He) as (ne & Hne & ?).
        destruct (decide (e = c)); [congruence|]. destruct (decide (e = p)); fin.
    + destruct (wf_watchees _ W _ _ _ Ha He) as (ne & Hne & ?).
      destruct (decide (e = c)); [congruence|]. destruct (decide (e = p)); fin.
  - intros j n1 Hj. destruct (decide (j = c)); [|destruct (decide (j = p))]; simplify_map_eq.
    + lia.
    + pose proof (wf_gen _ W _ _ Ep). lia.
    + pose proof (wf_gen _ W _ _ Hj). lia.
  - intros r Hr. destruct (wf_root _ W _ Hr) as [nr Hnr].
    destruct (decide (r = c)); [congruence|]. destruct (decide (r = p)); simplify_map_eq; eauto.
Qed.

Lemma subtree_in_head f m i : i ∈ subtree_in f m i.
Proof. destruct f; simpl; left. Qed.

Lemma wf_attach_node t p c : tree_wf t → tree_wf (attach_node t p c).1.
Proof.
  intros W. unfold attach_node.
  destruct (t_pids t !! p) as [np|] eqn:Ep; [|done].
  destruct (t_pids t !! c) as [nc|] eqn:Ec; [|done].
  destruct (decide (p ∈ _)) as [|Hnin]; [done|]. simpl.
  assert (p ≠ c) as Hpc by (intros ->; apply Hnin, subtree_in_head).
  split; simpl.
  - rewrite !map_size_insert_Some; [apply (wf_count _ W)|eauto|].
    rewrite lookup_insert_ne by done. eauto.
  - intros nm' i g H. destruct (wf_names _ W _ _ _ H) as (n1 & Hn & ? & ?).
    destruct (decide (i = c)); [|destruct (decide (i = p))]; simplify_map_eq; eauto.
  - intros a na w Ha Hw.
    destruct (decide (a = c)); [|destruct (decide (a = p))]; simplify_map_eq.
    + apply elem_of_ladd in Hw as [->|Hw]; [fin|].
      destruct (wf_watchers _ W _ _ _ Ec Hw) as (nw & Hnw & ?).
      destruct (decide (w = c)); [|destruct (decide (w = p))]; fin.
    + destruct (wf_watchers _ W _ _ _ Ep Hw) as (nw & Hnw & ?).
      destruct (decide (w = c)); [|destruct (decide (w = p))]; fin.
    + destruct (wf_watchers _ W _ _ _ Ha Hw) as (nw & Hnw & ?).
      destruct (decide (w = c)); [|destruct (decide (w = p))]; fin.
  - intros a na e Ha He.
    destruct (decide (a = c)); [|destruct (decide (a = p))]; simplify_map_eq.
    + destruct (wf_watchees _ W _ _ _ Ec He) as (ne & Hne & ?).
      destruct (decide (e = c)); [|destruct (decide (e = p))]; fin.
    + apply elem_of_ladd in He as [->|He]; [fin|].
      destruct (wf_watchees _ W _ _ _ Ep He) as (ne & Hne & ?).
      destruct (decide (e = c)); [|destruct (decide (e = p))]; fin.
    + destruct (wf_watchees _ W _ _ _ Ha He) as (ne & Hne & ?).
      destruct (decide (e = c)); [|destruct (decide (e = p))]; fin.
  - intros j n1 Hj. destruct (decide (j = c)); [|destruct (decide (j = p))]; simplify_map_eq.
    + apply (wf_gen _ W _ _ Ec).
    + apply (wf_gen _ W _ _ Ep).
    + apply (wf_gen _ W _ _ Hj).
  - intros r Hr. destruct (wf_root _ W _ Hr) as [nr Hnr].
    destruct (decide (r = c)); [|destruct (decide (r = p))]; simplify_map_eq; eauto.
Qed.

Lemma wf_add_or_attach t p c nm : tree_wf t → tree_wf (add_or_attach t p c nm).1.
Proof.
  intros W. unfold add_or_attach. destruct (t_pids t !! c); [by apply wf_attach_node|by apply wf_add_node].
Qed.

(* A generic preservation lemma: the new node map is obtained pointwise by [g] (which may only
   shrink watcher/watchee sets and keeps generation and name), optionally dropping one node [di]. *)
Lemma wf_pointwise t (g : nat → node → node) (di : option nat) m' names' count' root' :
  tree_wf t →
  (∀ k, m' !! k = if decide (Some k = di) then None else g k <$> t_pids t !! k) →
  count' = Z.of_nat (size m') →
  (∀ nm i0 g0, names' !! nm = Some (i0, g0) → t_names t !! nm = Some (i0, g0) ∧ Some i0 ≠ di) →
  (∀ r, root' = RootSet r → t_root t = RootSet r ∧ Some r ≠ di) →
  (∀ k n, n_gen (g k n) = n_gen n ∧ n_name (g k n) = n_name n) →
  (∀ k n x, x ∈ n_watchers (g k n) → x ∈ n_watchers n) →
  (∀ k n x, x ∈ n_watchees (g k n) → x ∈ n_watchees n) →
  (∀ k n x, t_pids t !! k = Some n → Some k ≠ di → Some x = di → x ∉ n_watchers (g k n) ∧ x ∉ n_watchees (g k n)) →
  (∀ a na w nw, Some a ≠ di → Some w ≠ di → t_pids t !! a = Some na → t_pids t !! w = Some nw →
      w ∈ n_watchers (g a na) → a ∈ n_watchees nw → a ∈ n_watchees (g w nw)) →
  (∀ a na e ne, Some a ≠ di → Some e ≠ di → t_pids t !! a = Some na → t_pids t !! e = Some ne →
      e ∈ n_watchees (g a na) → a ∈ n_watchers ne → a ∈ n_watchers (g e ne)) →
  tree_wf (Tree m' names' (t_next t) count' root').
Proof.
  intros W Hm Hc Hnm Hr Hgn Hws Hwe Hiso Hcl1 Hcl2.
  assert (Hlk : ∀ k n', m' !! k = Some n' → Some k ≠ di ∧ ∃ n, t_pids t !! k = Some n ∧ n' = g k n).
  { intros k n' H. rewrite Hm in H. destruct (decide (Some k = di)); [done|].
    destruct (t_pids t !! k) as [n1|]; [|done]. injection H as <-. eauto. }
  assert (Hlk2 : ∀ k n, t_pids t !! k = Some n → Some k ≠ di → m' !! k = Some (g k n)).
  { intros k n H Hd. rewrite Hm. destruct (decide (Some k = di)); [done|]. by rewrite H. }
  split; simpl.
  - done.
  - intros nm i0 g0 H. destruct (Hnm _ _ _ H) as [H0 Hd].
    destruct (wf_names _ W _ _ _ H0) as (n & Hn & <- & <-).
    exists (g i0 n). split; [by apply Hlk2|]. destruct (Hgn i0 n). done.
  - intros a na' w Ha Hw. destruct (Hlk _ _ Ha) as (Hda & na & Hna & ->).
    destruct (wf_watchers _ W _ _ _ Hna (Hws _ _ _ Hw)) as (nw & Hnw & Hin).
    assert (Some w ≠ di) as Hdw.
    { intros Hd. destruct (Hiso _ _ _ Hna Hda Hd) as [H1 _]. done. }
    exists (g w nw). split; [by apply Hlk2|]. eapply Hcl1; eauto.
  - intros a na' e Ha He. destruct (Hlk _ _ Ha) as (Hda & na & Hna & ->).
    destruct (wf_watchees _ W _ _ _ Hna (Hwe _ _ _ He)) as (ne & Hne & Hin).
    assert (Some e ≠ di) as Hde.
    { intros Hd. destruct (Hiso _ _ _ Hna Hda Hd) as [_ H1]. done. }
    exists (g e ne). split; [by apply Hlk2|]. eapply Hcl2; eauto.
  - intros k n' H. destruct (Hlk _ _ H) as (_ & n & Hn & ->). destruct (Hgn k n) as [-> _].
    apply (wf_gen _ W _ _ Hn).
  - intros r H. destruct (Hr _ H) as [H0 Hd]. destruct (wf_root _ W _ H0) as [n Hn].
    exists (g r n). by apply Hlk2.
Qed.

Lemma size_pointwise (m m' : gmap nat node) (g : nat → node → node) :
  (∀ k, m' !! k = g k <$> m !! k) → size m' = size m.
Proof.
  intros H. rewrite <- (size_dom (D:=gset nat) m), <- (size_dom (D:=gset nat) m'). f_equal.
  apply set_eq. intros k. rewrite !elem_of_dom, H. destruct (m !! k); simpl; split; intros [? ?]; eauto; done.
Qed.

Lemma wf_remove_watcher t a w : tree_wf t → tree_wf (remove_watcher t a w).
Proof.
  intros W. unfold remove_watcher.
  set (g := λ (k : nat) (n : node),
     (if decide (k = a) then with_watchers (ldel w) else (λ x : node, x))
       ((if decide (k = w) then with_watchees (ldel a) else (λ x : node, x)) n)).
  assert (Hm : ∀ k, alter (with_watchers (ldel w)) a (alter (with_watchees (ldel a)) w (t_pids t)) !! k
                    = g k <$> t_pids t !! k).
  { intros k. unfold g. repeat case_decide; subst;
      repeat (rewrite lookup_alter || rewrite lookup_alter_ne by done); destruct (t_pids t !! _); done. }
  apply (wf_pointwise t g None); [done| | | | | | | | | |].
  - intros k. rewrite Hm. destruct (decide (Some k = None)); done.
  - rewrite (wf_count _ W). f_equal. symmetry. by apply (size_pointwise _ _ g).
  - intros nm i0 g0 H; split; done.
  - intros r H; split; done.
  - intros k n. unfold g. repeat case_decide; done.
  - intros k n x. unfold g. repeat case_decide; setsolve.
  - intros k n x. unfold g. repeat case_decide; setsolve.
  - intros k n x _ _ H; done.
  - intros a0 na w0 nw _ _ _ _. unfold g. repeat case_decide; subst; setsolve.
  - intros a0 na e ne _ _ _ _. unfold g. repeat case_decide; subst; setsolve.
Qed.

Lemma wf_remove_descendant t p c : tree_wf t → tree_wf (remove_descendant t p c).
Proof.
  intros W. unfold remove_descendant.
  set (g := λ (k : nat) (n : node), if decide (k = p) then with_desc (ddel c) n else n).
  assert (Hm : ∀ k, alter (with_desc (ddel c)) p (t_pids t) !! k = g k <$> t_pids t !! k).
  { intros k. unfold g. repeat case_decide; subst;
      repeat (rewrite lookup_alter || rewrite lookup_alter_ne by done); destruct (t_pids t !! _); done. }
  apply (wf_pointwise t g None); [done| | | | | | | | | |].
  - intros k. rewrite Hm. destruct (decide (Some k = None)); done.
  - rewrite (wf_count _ W). f_equal. symmetry. by apply (size_pointwise _ _ g).
  - intros nm i0 g0 H; split; done.
  - intros r H; split; done.
  - intros k n. unfold g. repeat case_decide; done.
  - intros k n x. unfold g. repeat case_decide; setsolve.
  - intros k n x. unfold g. repeat case_decide; setsolve.
  - intros k n x _ _ H; done.
  - intros a0 na w0 nw _ _ _ _. unfold g. repeat case_decide; subst; setsolve.
  - intros a0 na e ne _ _ _ _. unfold g. repeat case_decide; subst; setsolve.
Qed.

Lemma lookup_alter2 (f1 f2 : node → node) (a w : nat) (m : gmap nat node) (k : nat) :
  alter f2 w (alter f1 a m) !! k =
  (λ n, (if decide (k = w) then f2 else (λ x : node, x)) ((if decide (k = a) then f1 else (λ x : node, x)) n)) <$> m !! k.
Proof.
  repeat case_decide; subst;
    repeat (rewrite lookup_alter || rewrite lookup_alter_ne by done); destruct (m !! _); done.
Qed.

Lemma wf_add_watcher t a w : tree_wf t → tree_wf (add_watcher t a w).
Proof.
  intros W. unfold add_watcher.
  destruct (t_pids t !! a) as [na0|] eqn:Ea; [|done].
  destruct (t_pids t !! w) as [nw0|] eqn:Ew; [|done].
  set (g := λ (k : nat) (n : node),
     (if decide (k = w) then with_watchees (ladd a) else (λ x : node, x))
       ((if decide (k = a) then with_watchers (ladd w) else (λ x : node, x)) n)).
  assert (Hm : ∀ k, alter (with_watchees (ladd a)) w (alter (with_watchers (ladd w)) a (t_pids t)) !! k
                    = g k <$> t_pids t !! k).
  { intros k. apply lookup_alter2. }
  assert (Hlk : ∀ k n', alter (with_watchees (ladd a)) w (alter (with_watchers (ladd w)) a (t_pids t)) !! k = Some n' →
                ∃ n, t_pids t !! k = Some n ∧ n' = g k n).
  { intros k n' H. rewrite Hm in H. destruct (t_pids t !! k) as [n1|]; [|done]. injection H as <-. eauto. }
  assert (Hlk2 : ∀ k n, t_pids t !! k = Some n →
                 alter (with_watchees (ladd a)) w (alter (with_watchers (ladd w)) a (t_pids t)) !! k = Some (g k n)).
  { intros k n H. by rewrite Hm, H. }
  split; simpl.
  - rewrite (wf_count _ W). f_equal. symmetry. by apply (size_pointwise _ _ g).
  - intros nm i0 g0 H. destruct (wf_names _ W _ _ _ H) as (n & Hn & <- & <-).
    exists (g i0 n). split; [by apply Hlk2|]. unfold g. repeat case_decide; done.
  - intros a1 na' w1 Ha Hw. destruct (Hlk _ _ Ha) as (na & Hna & ->).
    assert (w1 ∈ n_watchers na ∨ (a1 = a ∧ w1 = w)) as [Hin|[-> ->]].
    { revert Hw. unfold g. repeat case_decide; setsolve. }
    + destruct (wf_watchers _ W _ _ _ Hna Hin) as (nw & Hnw & Hin2).
      exists (g w1 nw). split; [by apply Hlk2|]. unfold g. repeat case_decide; setsolve.
    + exists (g w nw0). split; [by apply Hlk2|]. unfold g. repeat case_decide; setsolve.
  - intros a1 na' e1 Ha He. destruct (Hlk _ _ Ha) as (na & Hna & ->).
    assert (e1 ∈ n_watchees na ∨ (a1 = w ∧ e1 = a)) as [Hin|[-> ->]].
    { revert He. unfold g. repeat case_decide; setsolve. }
    + destruct (wf_watchees _ W _ _ _ Hna Hin) as (ne & Hne & Hin2).
      exists (g e1 ne). split; [by apply Hlk2|]. unfold g. repeat case_decide; setsolve.
    + exists (g a na0). split; [by apply Hlk2|]. unfold g. repeat case_decide; setsolve.
  - intros k n' H. destruct (Hlk _ _ H) as (n & Hn & ->).
    pose proof (wf_gen _ W _ _ Hn). unfold g. repeat case_decide; done.
  - intros r H. destruct (wf_root _ W _ H) as [n Hn]. exists (g r n). by apply Hlk2.
Qed.

Lemma with_watchees_ldel_idemp i x : with_watchees (ldel i) (with_watchees (ldel i) x) = with_watchees (ldel i) x.
Proof. destruct x; unfold with_watchees; simpl; f_equal; apply ldel_idemp. Qed.
Lemma with_watchers_ldel_idemp i x : with_watchers (ldel i) (with_watchers (ldel i) x) = with_watchers (ldel i) x.
Proof. destruct x; unfold with_watchers; simpl; f_equal; apply ldel_idemp. Qed.

Lemma wf_delete_one t i : tree_wf t → tree_wf (delete_one t i).
Proof.
  intros W. unfold delete_one. destruct (t_pids t !! i) as [n|] eqn:Ei; [|done].
  set (m1 := foldr (λ w m, alter (with_watchees (ldel i)) w m) (t_pids t) (n_watchers n)).
  set (m2 := foldr (λ e m, alter (with_watchers (ldel i)) e m) m1 (n_watchees n)).
  set (pb := match n_parent n with Some (p, g0) => if live_in m2 (p, g0) then Some p else None | None => None end).
  set (m3 := match n_parent n with
             | Some (p, g0) => if live_in m2 (p, g0) then alter (λ np, with_watchees (ldel i) (with_desc (ddel i) np)) p m2 else m2
             | None => m2 end).
  set (g := λ (k : nat) (x : node),
     (if decide (Some k = pb) then (λ np, with_watchees (ldel i) (with_desc (ddel i) np)) else (λ x : node, x))
       ((if decide (k ∈ n_watchees n) then with_watchers (ldel i) else (λ x : node, x))
          ((if decide (k ∈ n_watchers n) then with_watchees (ldel i) else (λ x : node, x)) x))).
  assert (Hm3 : ∀ k, m3 !! k = g k <$> t_pids t !! k).
  { intros k.
    assert (Hm2 : m2 !! k = (λ x, (if decide (k ∈ n_watchees n) then with_watchers (ldel i) else (λ x : node, x))
          ((if decide (k ∈ n_watchers n) then with_watchees (ldel i) else (λ x : node, x)) x)) <$> t_pids t !! k).
    { unfold m2, m1. rewrite !lookup_foldr_alter by (intros; apply with_watchers_ldel_idemp || apply with_watchees_ldel_idemp).
      repeat case_decide; destruct (t_pids t !! k); done. }
    unfold m3, g, pb. destruct (n_parent n) as [[p g0]|].
    - destruct (live_in m2 (p, g0)).
      + destruct (decide (k = p)) as [->|].
        * rewrite lookup_alter, Hm2. destruct (decide (Some p = Some p)); [|done]. destruct (t_pids t !! p); done.
        * rewrite lookup_alter_ne, Hm2 by done. destruct (decide (Some k = Some p)); [congruence|done].
      + rewrite Hm2. destruct (decide (Some k = None)); done.
    - rewrite Hm2. destruct (decide (Some k = None)); done. }
  assert (Hsz : size m3 = size (t_pids t)) by (by apply (size_pointwise _ _ g)).
  fold m1. fold m2. fold m3.
  apply (wf_pointwise t g (Some i)); [done| | | | | | | | | |].
  - intros k. destruct (decide (Some k = Some i)) as [[= ->]|Hne].
    + apply lookup_delete.
    + rewrite lookup_delete_ne by congruence. apply Hm3.
  - rewrite map_size_delete_Some by (rewrite Hm3, Ei; eauto).
    rewrite Hsz, (wf_count _ W).
    assert (size (t_pids t) ≠ 0).
    { intros H0. apply map_size_empty_inv in H0. rewrite H0 in Ei. done. }
    lia.
  - intros nm i0 g0 H.
    assert (t_names t !! nm = Some (i0, g0) ∧ (i0 = i → False)) as [H1 H2]; [|split; [done|congruence]].
    destruct (t_names t !! n_name n) as [[i' g']|] eqn:En.
    + destruct (decide (i' = i ∧ g' = n_gen n)) as [[-> ->]|Hnot].
      * destruct (decide (nm = n_name n)) as [->|]; [by rewrite lookup_delete in H|].
        rewrite lookup_delete_ne in H by done. split; [done|]. intros ->.
        destruct (wf_names _ W _ _ _ H) as (n1 & Hn1 & ? & ?). congruence.
      * split; [done|]. intros ->.
        destruct (wf_names _ W _ _ _ H) as (n1 & Hn1 & Hg & Hn). rewrite Ei in Hn1. injection Hn1 as <-.
        subst nm g0. rewrite En in H. injection H as -> ->. by apply Hnot.
    + split; [done|]. intros ->.
      destruct (wf_names _ W _ _ _ H) as (n1 & Hn1 & Hg & Hn). rewrite Ei in Hn1. injection Hn1 as <-.
      subst nm. rewrite En in H. done.
  - intros r H. destruct (t_root t) as [|r0|] eqn:Er; try done.
    destruct (decide (r0 = i)); [done|]. injection H as <-. split; [done|congruence].
  - intros k x. unfold g. repeat case_decide; done.
  - intros k x y. unfold g. repeat case_decide; setsolve.
  - intros k x y. unfold g. repeat case_decide; setsolve.
  - intros k x y Hk Hki [= ->]. split.
    + intros Hin. assert (i ∈ n_watchers x) as Hin0.
      { revert Hin. unfold g. repeat case_decide; setsolve. }
      destruct (wf_watchers _ W _ _ _ Hk Hin0) as (ni & Hni & Hkin). simplify_eq.
      revert Hin. unfold g. repeat case_decide; setsolve.
    + intros Hin. assert (i ∈ n_watchees x) as Hin0.
      { revert Hin. unfold g. repeat case_decide; setsolve. }
      destruct (wf_watchees _ W _ _ _ Hk Hin0) as (ni & Hni & Hkin). simplify_eq.
      revert Hin. unfold g. repeat case_decide; setsolve.
  - intros a na w nw Ha _ _ _ _ Hin. assert (a ≠ i) by congruence.
    unfold g. repeat case_decide; setsolve.
  - intros a na e ne Ha _ _ _ _ Hin. assert (a ≠ i) by congruence.
    unfold g. repeat case_decide; setsolve.
Qed.

Lemma wf_foldl_delete_one l t : tree_wf t → tree_wf (foldl delete_one t l).
Proof. revert t. induction l as [|i l IH]; simpl; intros t W; [done|]. apply IH. by apply wf_delete_one. Qed.

Lemma wf_delete_node t i : tree_wf t → tree_wf (delete_node t i).
Proof. intros W. unfold delete_node. destruct (t_pids t !! i); [|done]. by apply wf_foldl_delete_one. Qed.

Lemma wf_step t o : tree_wf t → tree_wf (step t o).1.
Proof.
  intros W. destruct o; simpl.
  - by apply wf_add_root.
  - by apply wf_add_node.
  - by apply wf_add_or_attach.
  - by apply wf_remove_watcher.
  - by apply wf_remove_descendant.
  - by apply wf_add_watcher.
  - by apply wf_delete_node.
  - apply wf_reset.
Qed.

Lemma wf_run_from ops t : tree_wf t → tree_wf (run ops t).
Proof.
  revert t. induction ops as [|o ops IH]; intros t W; [done|].
  unfold run. simpl. apply IH. by apply wf_step.
Qed.

(* the invariant holds after ANY finite sequence of tree operations *)
Theorem tree_wf_all_ops ops : tree_wf (run ops empty_tree).
Proof. apply wf_run_from, wf_empty. Qed.

(* ---- what the invariant means for the Go accessors *)
Lemma wf_obs_count t : tree_wf t → obs_count t = Z.of_nat (size (t_pids t)).
Proof. intros W. apply (wf_count _ W). Qed.

Lemma wf_obs_by_name t nm i : tree_wf t → obs_by_name t nm = Some i →
  obs_registered t i = true ∧ ∃ n, t_pids t !! i = Some n ∧ n_name n = nm.
Proof.
  intros W. unfold obs_by_name, obs_registered. destruct (t_names t !! nm) as [[i0 g0]|] eqn:E; simpl; [|done].
  destruct (live t (i0, g0)); [|done]. intros [= <-].
  destruct (wf_names _ W _ _ _ E) as (n & Hn & _ & Hnm). split; [|eauto].
  apply bool_decide_eq_true. eauto.
Qed.

Lemma wf_obs_watch_inverse t a w : tree_wf t →
  obs_registered t a = true → w ∈ obs_watchers t a →
  obs_registered t w = true ∧ a ∈ obs_watchees t w.
Proof.
  intros W. unfold obs_registered, obs_watchers, obs_watchees. rewrite !bool_decide_eq_true.
  intros [na Ha]. rewrite Ha. intros Hw. destruct (wf_watchers _ W _ _ _ Ha Hw) as (nw & Hnw & Hin).
  rewrite Hnw. eauto.
Qed.

Lemma wf_obs_watch_inverse' t a e : tree_wf t →
  obs_registered t a = true → e ∈ obs_watchees t a →
  obs_registered t e = true ∧ a ∈ obs_watchers t e.
Proof.
  intros W. unfold obs_registered, obs_watchers, obs_watchees. rewrite !bool_decide_eq_true.
  intros [na Ha]. rewrite Ha. intros He. destruct (wf_watchees _ W _ _ _ Ha He) as (ne & Hne & Hin).
  rewrite Hne. eauto.
Qed.

(* by construction of the accessors: whatever parent()/children() report is registered *)
Lemma obs_parent_registered t i p : obs_parent t i = Some p → obs_registered t p = true.
Proof.
  unfold obs_parent, obs_registered. destruct (t_pids t !! i) as [n|]; simpl; [|done].
  destruct (n_parent n) as [[p0 g0]|]; simpl; [|done].
  unfold live, live_in. simpl. destruct (t_pids t !! p0) eqn:E; [|done].
  case_bool_decide; [|done]. intros [= <-]. apply bool_decide_eq_true. rewrite E. eauto.
Qed.

Lemma obs_children_registered t i c : c ∈ obs_children t i → obs_registered t c = true.
Proof.
  unfold obs_children, children_in, obs_registered. destruct (t_pids t !! i) as [n|]; [|by intros ?%elem_of_nil].
  intros ([c0 g0] & -> & Hin)%elem_of_list_fmap. apply elem_of_list_filter in Hin as [Hl _].
  unfold live_in in Hl. simpl in *. destruct (t_pids t !! c0) eqn:E; [|done].
  apply bool_decide_eq_true. rewrite ?E. eauto.
Qed.

(* after deleteNode the node is no longer registered *)
Lemma delete_one_unregisters t i : t_pids (delete_one t i) !! i = None.
Proof.
  unfold delete_one. destruct (t_pids t !! i) eqn:E; [|done]. simpl. apply lookup_delete.
Qed.
