(* C09 — executable small-step model of the stop protocol of actor/pid.go
   (Shutdown / doStop / freeChildren), SpawnChild (spawnChildLocal + completeSpawn/addNode) and the
   death watch (handleTerminated -> deleteNode).  No proofs in this file.

   One [label] = one atomic step of some goroutine.  Any number of actors; goroutines are anonymous:
   a step is enabled by the state alone, so every interleaving of any number of concurrent
   Shutdown callers, spawners and the death watch is a label sequence.

   Per actor the stop procedure is serialised by [stopLocker]; its progress is [sp]:
     SIdle                      lock free
     SLocked                    Shutdown holds the lock, saw running, set stopping
     SKids pend                 freeChildren: children snapshot taken, one goroutine per child
                                (PTodo: has not yet tested the child; PWait: inside child.Shutdown)
     SPost                      inside actor.PostStop
   doStop's order is mirrored: (freeWatchees) ; freeChildren [errgroup wait] ; PostStop ;
   freeWatchers [Terminated to the death watch] ; running:=false ; reset ; unlock.
   Not modelled (stated in the check): PostStop returning an error, restarts, suspension,
   passivation (C06 covers the per-actor view of those). *)
From Coq Require Import List Bool Arith Lia.
Import ListNotations.

Inductive pend := PTodo | PWait.
Inductive sproc := SIdle | SLocked | SKids (p : list (nat * pend)) | SPost.
Inductive phase := Checked | Inited.

Inductive ev := EPre (c : nat) | EPostB (a : nat) | EPostE (a : nat).

Record actor := Actor {
  running  : bool;          (* runningState bit *)
  stopping : bool;          (* stoppingState bit *)
  started  : bool;          (* PreStart has run (ghost) *)
  sp       : sproc;
  par      : option nat;    (* who spawns / spawned it (ghost) *)
  ph       : option phase;  (* position of the SpawnChild call creating it, None once addNode ran *)
  spawning : list nat;      (* ghost: children whose SpawnChild by THIS actor is between the IsRunning test and addNode *)
  reg      : bool;          (* has a node in the tree *)
  kids     : list nat;      (* ids in the node's descendants map *)
  snap     : list nat;      (* ghost: the children freeChildren read *)
}.

Record st := St {
  acts  : nat -> actor;
  trace : list ev;          (* newest first *)
  term  : list nat;         (* Terminated messages queued at the death watch *)
}.

Definition fresh : actor := Actor false false false SIdle None None [] false [] [].
Definition root_actor : actor := Actor true false true SIdle None None [] true [] [].
(* actor 0 plays the user guardian: running and registered *)
Definition init : st := St (fun i => if Nat.eqb i 0 then root_actor else fresh) [] [].

Definition upd (f : nat -> actor) (i : nat) (a : actor) : nat -> actor :=
  fun j => if Nat.eqb j i then a else f j.

Definition set_sp (a : actor) (s : sproc) :=
  Actor (running a) (stopping a) (started a) s (par a) (ph a) (spawning a) (reg a) (kids a) (snap a).
Definition set_kids (a : actor) (k : list nat) :=
  Actor (running a) (stopping a) (started a) (sp a) (par a) (ph a) (spawning a) (reg a) k (snap a).
Definition set_spawning (a : actor) (n : list nat) :=
  Actor (running a) (stopping a) (started a) (sp a) (par a) (ph a) n (reg a) (kids a) (snap a).

(* PID.IsRunning: running and not stopping (suspension/passivation not modelled) *)
Definition is_running (a : actor) : bool := running a && negb (stopping a).

Definition remove_nat (x : nat) (l : list nat) : list nat := filter (fun y => negb (Nat.eqb y x)) l.

Fixpoint pend_get (c : nat) (p : list (nat * pend)) : option pend :=
  match p with
  | [] => None
  | (d, x) :: p' => if Nat.eqb d c then Some x else pend_get c p'
  end.
Definition pend_remove (c : nat) (p : list (nat * pend)) := filter (fun e => negb (Nat.eqb (fst e) c)) p.
Definition pend_set (c : nat) (x : pend) (p : list (nat * pend)) :=
  map (fun e => if Nat.eqb (fst e) c then (c, x) else e) p.

(* tree.children(a): registered children *)
Definition children (s : st) (a : nat) : list nat :=
  filter (fun c => reg (acts s c)) (kids (acts s a)).

(* deleteNode(a): a and everything reachable through live descendants *)
Fixpoint subtree (fuel : nat) (f : nat -> actor) (a : nat) : list nat :=
  match fuel with
  | O => [a]
  | S n => a :: flat_map (subtree n f) (filter (fun c => reg (f c)) (kids (f a)))
  end.
Definition unreg (a : actor) :=
  Actor (running a) (stopping a) (started a) (sp a) (par a) (ph a) (spawning a) false [] (snap a).
Definition unreg_all (f : nat -> actor) (l : list nat) : nat -> actor :=
  fold_left (fun f i => upd f i (unreg (f i))) l f.

Inductive label :=
| LStopBegin (a : nat)          (* Shutdown(a): lock; running? ; stopping:=true *)
| LStopNoop (a : nat)           (* Shutdown(a) on an actor that is not running: lock; unlock; return nil *)
| LSnapshot (a : nat)           (* freeChildren: tree.children(a) *)
| LDisownTest (a c : nat)       (* goroutine for child c: UnWatch; removeDescendant; IsSuspended||IsRunning ? *)
| LDisownDone (a c : nat)       (* child.Shutdown(ctx) returned *)
| LPostBegin (a : nat)          (* eg.Wait returned; actor.PostStop begins *)
| LPostEnd (a : nat)            (* PostStop returned; freeWatchers; running:=false; reset; unlock *)
| LSpawnCheck (p c : nat)       (* spawnChildLocal: pid.IsRunning() *)
| LSpawnInit (c : nat)          (* newPID -> init -> PreStart; running:=true *)
| LSpawnAdd (c : nat)           (* completeSpawn -> tree.addNode(parent, child) (error ignored) *)
| LReap (a : nat).              (* death watch: Terminated(a) -> deleteNode *)

(* [ws]: does the disown goroutine also call Shutdown on a child that is already stopping
   (false = the code as it is: `if child.IsSuspended() || child.IsRunning()`;
    true  = the proposed repair `|| child.IsStopping()`) *)
Definition step (ws : bool) (s : st) (l : label) : option st :=
  let A := acts s in
  match l with
  | LStopBegin a =>
    match sp (A a) with
    | SIdle => if running (A a)
               then Some (St (upd A a (Actor true true (started (A a)) SLocked (par (A a)) (ph (A a)) (spawning (A a)) (reg (A a)) (kids (A a)) (snap (A a))))
                             (trace s) (term s))
               else None
    | _ => None
    end
  | LStopNoop a =>
    match sp (A a) with
    | SIdle => if running (A a) then None else Some s
    | _ => None
    end
  | LSnapshot a =>
    match sp (A a) with
    | SLocked =>
      let cs := children s a in
      Some (St (upd A a (Actor (running (A a)) (stopping (A a)) (started (A a)) (SKids (map (fun c => (c, PTodo)) cs))
                               (par (A a)) (ph (A a)) (spawning (A a)) (reg (A a)) (kids (A a)) cs))
               (trace s) (term s))
    | _ => None
    end
  | LDisownTest a c =>
    match sp (A a) with
    | SKids p =>
      match pend_get c p with
      | Some PTodo =>
        let call := is_running (A c) || (ws && stopping (A c)) in
        let p' := if call then pend_set c PWait p else pend_remove c p in
        Some (St (upd A a (set_sp (set_kids (A a) (remove_nat c (kids (A a)))) (SKids p')))
                 (trace s) (term s))
      | _ => None
      end
    | _ => None
    end
  | LDisownDone a c =>
    match sp (A a) with
    | SKids p =>
      match pend_get c p, sp (A c) with
      | Some PWait, SIdle =>
        if running (A c) then None
        else Some (St (upd A a (set_sp (A a) (SKids (pend_remove c p)))) (trace s) (term s))
      | _, _ => None
      end
    | _ => None
    end
  | LPostBegin a =>
    match sp (A a) with
    | SKids [] => Some (St (upd A a (set_sp (A a) SPost)) (EPostB a :: trace s) (term s))
    | _ => None
    end
  | LPostEnd a =>
    match sp (A a) with
    | SPost =>
      Some (St (upd A a (Actor false false (started (A a)) SIdle (par (A a)) (ph (A a)) (spawning (A a)) (reg (A a)) (kids (A a)) (snap (A a))))
               (EPostE a :: trace s) (term s ++ [a]))
    | _ => None
    end
  | LSpawnCheck p c =>
    match par (A c), ph (A c) with
    | None, None =>
      (* [ph (A p) = None]: a PID is published only when its own spawn has returned *)
      if is_running (A p) && negb (started (A c)) && negb (Nat.eqb c 0) && negb (Nat.eqb c p)
         && match ph (A p) with None => true | Some _ => false end
      then Some (St (upd (upd A c (Actor false false false SIdle (Some p) (Some Checked) [] false [] []))
                         p (set_spawning (A p) (c :: spawning (A p))))
                    (trace s) (term s))
      else None
    | _, _ => None
    end
  | LSpawnInit c =>
    match ph (A c) with
    | Some Checked =>
      Some (St (upd A c (Actor true false true SIdle (par (A c)) (Some Inited) [] false [] []))
               (EPre c :: trace s) (term s))
    | _ => None
    end
  | LSpawnAdd c =>
    match ph (A c), par (A c) with
    | Some Inited, Some p =>
      let Ac := A c in
      let A1 := upd A c (Actor (running Ac) (stopping Ac) (started Ac) (sp Ac) (par Ac) None (spawning Ac)
                               (reg (A p)) (kids Ac) (snap Ac)) in
      let Ap := A1 p in
      let A2 := upd A1 p (Actor (running Ap) (stopping Ap) (started Ap) (sp Ap) (par Ap) (ph Ap) (remove_nat c (spawning Ap))
                                (reg Ap) (if reg Ap then kids Ap ++ [c] else kids Ap) (snap Ap)) in
      Some (St A2 (trace s) (term s))
    | _, _ => None
    end
  | LReap a =>
    match term s with
    | a' :: rest =>
      if Nat.eqb a a' then
        let A' := if reg (A a) then
                    let A1 := unreg_all A (subtree (length (kids (A a)) + 64) A a) in
                    match par (A a) with
                    | Some p => upd A1 p (set_kids (A1 p) (remove_nat a (kids (A1 p))))
                    | None => A1
                    end
                  else A in
        Some (St A' (trace s) rest)
      else None
    | [] => None
    end
  end.

Fixpoint run (ws : bool) (s : st) (ls : list label) : option st :=
  match ls with
  | [] => Some s
  | l :: ls' => match step ws s l with Some s' => run ws s' ls' | None => None end
  end.

Inductive reach (ws : bool) : st -> Prop :=
| reach_init : reach ws init
| reach_step s l s' : reach ws s -> step ws s l = Some s' -> reach ws s'.

(* race-free steps: the disown goroutine never meets a child whose stop is in flight, and a
   children snapshot is never taken while a SpawnChild of that actor is in flight *)
Definition step_ok (s : st) (l : label) : bool :=
  match l with
  | LDisownTest a c => match sp (acts s c) with SIdle => true | _ => false end
  | LSnapshot a => match spawning (acts s a) with [] => true | _ => false end
  | _ => true
  end.

Inductive reach_rf (ws : bool) : st -> Prop :=
| reach_rf_init : reach_rf ws init
| reach_rf_step s l s' : reach_rf ws s -> step_ok s l = true -> step ws s l = Some s' -> reach_rf ws s'.

(* snapshot chain: d was read as a child by a, or by somebody in a's chain *)
Inductive chain (s : st) : nat -> nat -> Prop :=
| chain_one a d : In d (snap (acts s a)) -> chain s a d
| chain_more a c d : In c (snap (acts s a)) -> chain s c d -> chain s a d.

(* ------------------------------------------------------------------------------------------
   Driver level (used by the tie): what the Go harness does is a sequence of driver actions;
   after each one the real system runs on its own until every goroutine is blocked at a gate the
   harness controls (a gated PostStop or PreStart).  [quiesce] runs the internal labels of the
   small-step system the same way: every state it passes through is reached by [step]. *)
Inductive daction :=
| DSpawn (p c : nat)          (* parent.SpawnChild(c), ungated: returns when done *)
| DSpawnGated (p c : nat)     (* go parent.SpawnChild(c); the child's PreStart blocks at the gate *)
| DSpawnRelease (c : nat)     (* let the child's PreStart return *)
| DStop (a : nat)             (* go a.Shutdown() *)
| DRelease (a : nat)          (* let a's PostStop return *)
| DRestart (a : nat)          (* a.Restart() of a running actor while nothing else is going on *)
| DSuspend (a : nat).         (* a goes into suspension (a fault its supervisor has no directive for) *)

Fixpoint first_some {A B} (f : A -> option B) (l : list A) : option B :=
  match l with
  | [] => None
  | x :: l' => match f x with Some y => Some y | None => first_some f l' end
  end.

(* internal labels possibly enabled for actor a (n = number of actors, gated = PostStop gates) *)
Definition internal_labels (gated : list nat) (s : st) (a : nat) : list label :=
  match sp (acts s a) with
  | SLocked => [LSnapshot a]
  | SKids [] => [LPostBegin a]
  | SKids p =>
    flat_map (fun e => match snd e with
                       | PTodo => [LDisownTest a (fst e)]
                       | PWait => [LDisownDone a (fst e); LStopBegin (fst e)]
                       end) p
  | SPost => if existsb (Nat.eqb a) gated then [] else [LPostEnd a]
  | SIdle => []
  end.

Definition try_labels (ws : bool) (s : st) (ls : list label) : option st :=
  first_some (step ws s) ls.

Definition internal_step (ws : bool) (gated : list nat) (n : nat) (s : st) : option st :=
  match first_some (fun a => try_labels ws s (internal_labels gated s a)) (seq 0 n) with
  | Some s' => Some s'
  | None => match term s with a :: _ => step ws s (LReap a) | [] => None end
  end.

Fixpoint quiesce (ws : bool) (gated : list nat) (n : nat) (fuel : nat) (s : st) : st :=
  match fuel with
  | O => s
  | S f => match internal_step ws gated n s with Some s' => quiesce ws gated n f s' | None => s end
  end.

Definition drive1 (ws : bool) (s : st) (d : daction) : option st :=
  match d with
  | DSpawn p c => run ws s [LSpawnCheck p c; LSpawnInit c; LSpawnAdd c]
  | DSpawnGated p c => step ws s (LSpawnCheck p c)
  | DSpawnRelease c => run ws s [LSpawnInit c; LSpawnAdd c]
  | DStop a => match step ws s (LStopBegin a) with
               | Some s' => Some s'
               | None => Some s      (* not running: returns at once; stop in flight: the caller blocks on stopLocker *)
               end
  | DRelease a => step ws s (LPostEnd a)
  | DRestart _ => None
  | DSuspend _ => None
  end.

(* None result of drive1 = the action is refused by the implementation too (SpawnChild on a
   non-running parent returns ErrDead): state unchanged, flag 1 *)
(* Restart of a running actor at a quiet point (no stop or SpawnChild in flight anywhere, the death
   watch has nothing queued, no running actor's PostStop is gated): the subtree is stopped children
   first, reaped, re-initialised and re-registered under the same identities.  What the harness can
   see afterwards is what it saw before, so at this level a restart is the identity; the later
   stops and reaps of the restarted actors must behave exactly as for first incarnations. *)
Definition quiet_actor (x : actor) : bool :=
  match sp x, spawning x with SIdle, [] => negb (stopping x) | _, _ => false end.
Definition restart_ok (gated : list nat) (n : nat) (s : st) (a : nat) : bool :=
  is_running (acts s a) && reg (acts s a)
  && forallb (fun b => quiet_actor (acts s b) && negb (is_running (acts s b) && existsb (Nat.eqb b) gated)) (seq 0 n)
  && match term s with [] => true | _ => false end.

Definition drive (ws : bool) (gated : list nat) (n : nat) (s : st) (d : daction) : st * nat :=
  match d with
  | DRestart a => (s, if restart_ok gated n s a then 0 else 1)
  (* suspension does not exist for the stop protocol: a suspended actor still has its running bit,
     Shutdown and freeChildren treat it exactly like a running one, so what the harness observes
     ("alive" = running bit set and not stopping) is unchanged, now and in every later stop *)
  | DSuspend a => (s, if is_running (acts s a) && quiet_actor (acts s a) then 0 else 1)
  | _ =>
    match drive1 ws s d with
    | Some s' => (quiesce ws gated n (64 * S n) s', 0)
    | None => (s, 1)
    end
  end.

(* what the harness can see after quiescence, per actor 0..n-1:
   [in PostStop gate; IsRunning; PostStop completed; registered] then its registered children *)
Definition sp_is_post (x : sproc) : bool := match x with SPost => true | _ => false end.
Definition ev_postE_in (a : nat) (tr : list ev) : bool :=
  existsb (fun e => match e with EPostE b => Nat.eqb a b | _ => false end) tr.
Definition b2n (b : bool) : nat := if b then 1 else 0.
Fixpoint ins_sorted (x : nat) (l : list nat) : list nat :=
  match l with [] => [x] | y :: l' => if Nat.leb x y then x :: l else y :: ins_sorted x l' end.
Definition sort_nats (l : list nat) : list nat := fold_right ins_sorted [] l.

Definition observe (n : nat) (s : st) : list (list nat) :=
  flat_map (fun a => [ [b2n (sp_is_post (sp (acts s a))); b2n (is_running (acts s a));
                        b2n (ev_postE_in a (trace s)); b2n (reg (acts s a))];
                       sort_nats (children s a) ]) (seq 0 n).

Fixpoint drive_obs (ws : bool) (gated : list nat) (n : nat) (s : st) (ds : list daction)
  : list (nat * list (list nat)) :=
  match ds with
  | [] => []
  | d :: ds' => let '(s', flag) := drive ws gated n s d in (flag, observe n s') :: drive_obs ws gated n s' ds'
  end.

Fixpoint obs_eqb (a b : list (list nat)) : bool :=
  match a, b with
  | [], [] => true
  | x :: a', y :: b' => (fix leq (u v : list nat) : bool :=
                           match u, v with
                           | [], [] => true
                           | p :: u', q :: v' => Nat.eqb p q && leq u' v'
                           | _, _ => false
                           end) x y && obs_eqb a' b'
  | _, _ => false
  end.
Fixpoint first_obs_diff (i : nat) (xs ys : list (nat * list (list nat))) : option nat :=
  match xs, ys with
  | [], [] => None
  | x :: xs', y :: ys' => if Nat.eqb (fst x) (fst y) && obs_eqb (snd x) (snd y) then first_obs_diff (S i) xs' ys' else Some i
  | _, _ => Some i
  end.
Definition scenario_diff (ws : bool) (c : list nat * nat * list daction * list (nat * list (list nat))) : option nat :=
  let '(gated, n, ds, expected) := c in first_obs_diff 0 (drive_obs ws gated n init ds) expected.
