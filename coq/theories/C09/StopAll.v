(* C09 — "stopping an actor stops EVERY descendant": beyond the children snapshots (StopProofs.v),
   every actor spawned below a — whose SpawnChild has returned — has completed PostStop when
   Shutdown(a) returns, provided no SpawnChild of a stopping actor is in flight when that actor
   takes its children snapshot (the spawn race of C09_spawn_race_refuted) and, for the previous
   freeChildren, no stop of a child is in flight when its parent tests it. *)
From Coq Require Import List Bool Arith Lia.
Import ListNotations.
From GV Require Import C09.StopModel C09.StopProofs.

Definition complete (x : actor) : Prop := started x = true /\ StopModel.ph x = None.

(* no SpawnChild of [a] is between its IsRunning test and addNode *)
Definition snap_ok (s : st) (a : nat) : Prop := forall c, par (acts s c) = Some a -> StopModel.ph (acts s c) = None.

Definition step_ok2 (ws : bool) (s : st) (l : label) : Prop :=
  match l with
  | LSnapshot a => snap_ok s a
  | LDisownTest a c => ws = true \/ sp (acts s c) = SIdle
  | _ => True
  end.

Inductive reach_s (ws : bool) : st -> Prop :=
| reach_s_init : reach_s ws init
| reach_s_step s l s' : reach_s ws s -> step_ok2 ws s l -> step ws s l = Some s' -> reach_s ws s'.

Lemma reach_s_g ws s : reach_s ws s -> reach_g ws s.
Proof.
  induction 1 as [|s l s' R IH Ok Hs]; [constructor|].
  apply (reach_g_step ws s l s' IH); [|exact Hs].
  destruct l; simpl in *; auto. destruct Ok as [->|Hi]; [auto|]. right. now rewrite Hi.
Qed.

Definition busy (x : sproc) : Prop := x <> SIdle /\ x <> SLocked.

Record jinv (s : st) : Prop := {
  j_kids : forall a c, In c (kids (acts s a)) -> par (acts s c) = Some a /\ complete (acts s c);
  j_snap : forall a c, In c (snap (acts s a)) -> par (acts s c) = Some a /\ complete (acts s c);
  j_flight : forall c p, StopModel.ph (acts s c) <> None -> par (acts s c) = Some p ->
     running (acts s p) = true /\ (sp (acts s p) = SIdle \/ sp (acts s p) = SLocked) /\ complete (acts s p) /\ reg (acts s p) = true;
  j_reg : forall a, running (acts s a) = true -> complete (acts s a) -> reg (acts s a) = true;
  j_done : forall a c, done_ (trace s) a -> par (acts s c) = Some a -> complete (acts s c) -> running (acts s c) = false;
  j_child : forall a c, par (acts s c) = Some a -> complete (acts s c) ->
     running (acts s c) = false \/
     (In c (kids (acts s a)) /\ reg (acts s c) = true /\ (sp (acts s a) = SIdle \/ sp (acts s a) = SLocked) /\ running (acts s a) = true) \/
     (In c (snap (acts s a)) /\ busy (sp (acts s a)));
  j_root : par (acts s 0) = None;
  j_par_ne : forall c, par (acts s c) <> Some c;
  j_parent : forall d c, par (acts s d) = Some c -> complete (acts s c);
}.

Lemma jinv_init : jinv init.
Proof.
  split; simpl; intros.
  - destruct (a =? 0); simpl in H; contradiction.
  - destruct (a =? 0); simpl in H; contradiction.
  - destruct (c =? 0); simpl in *; congruence.
  - destruct (a =? 0); simpl in *; [reflexivity|discriminate].
  - destruct (c =? 0); simpl in *; discriminate.
  - destruct (c =? 0); simpl in *; discriminate.
  - reflexivity.
  - destruct (c =? 0); simpl; discriminate.
  - destruct (d =? 0); simpl in *; discriminate.
Qed.

(* ---------------------------------------------------------------- helpers *)
Ltac upd_cases i a :=
  destruct (Nat.eq_dec i a) as [?|?]; [subst; rewrite ?upd_same in *|rewrite ?(upd_other _ a _ i) in * by assumption].

Lemma busy_kids p : busy (SKids p).
Proof. split; discriminate. Qed.
Lemma busy_post : busy SPost.
Proof. split; discriminate. Qed.

(* an update of actor [a] that keeps par, ph, started, reg, kids, snap *)
Lemma jinv_control s a x' tr' tm :
  jinv s ->
  par x' = par (acts s a) -> StopModel.ph x' = StopModel.ph (acts s a) -> started x' = started (acts s a) ->
  reg x' = reg (acts s a) -> kids x' = kids (acts s a) -> snap x' = snap (acts s a) ->
  (* its own state as a parent of in-flight spawns *)
  ((exists c, StopModel.ph (acts s c) <> None /\ par (acts s c) = Some a) -> running x' = true /\ (sp x' = SIdle \/ sp x' = SLocked)) ->
  (* registration of a running complete actor *)
  (running x' = true -> running (acts s a) = true) ->
  (* done parents: children stay stopped; a itself *)
  (forall b, done_ tr' b -> done_ (trace s) b) ->
  (forall b, done_ (trace s) b -> par (acts s a) = Some b -> complete (acts s a) -> running x' = false) ->
  (* children bookkeeping, a as a child *)
  (running x' = false -> running (acts s a) = false \/ done_ tr' a) ->
  (* a as a parent: the phase of its stop procedure *)
  ((sp (acts s a) = SIdle \/ sp (acts s a) = SLocked) /\ running (acts s a) = true ->
     ((sp x' = SIdle \/ sp x' = SLocked) /\ running x' = true)) ->
  (busy (sp (acts s a)) -> busy (sp x')) ->
  jinv (St (upd (acts s) a x') tr' tm).
Proof.
  intros [J1 J2 J3 J4 J5 J6 J7 J8 J9] Hpar Hph Hst Hreg Hkids Hsnap Hfl Hrun Hdone Hdc Hchild Hphase Hbusy.
  assert (Hc : forall i, complete (upd (acts s) a x' i) <-> complete (acts s i)).
  { intros i. unfold complete. upd_cases i a; [rewrite Hst, Hph|]; tauto. }
  assert (Hp : forall i, par (upd (acts s) a x' i) = par (acts s i)).
  { intros i. upd_cases i a; auto. }
  split; simpl.
  - intros a0 c Hin. rewrite Hp, Hc. apply (J1 a0). upd_cases a0 a; [now rewrite Hkids in Hin|assumption].
  - intros a0 c Hin. rewrite Hp, Hc. apply (J2 a0). upd_cases a0 a; [now rewrite Hsnap in Hin|assumption].
  - intros c p Hn Hpp. rewrite Hp in Hpp.
    assert (Hn' : StopModel.ph (acts s c) <> None) by (upd_cases c a; [now rewrite Hph in Hn|assumption]).
    destruct (J3 c p Hn' Hpp) as (R1 & R2 & R3 & R4). rewrite Hc.
    upd_cases p a; [|auto]. destruct (Hfl (ex_intro _ c (conj Hn' Hpp))) as [H1 H2]. rewrite Hreg. auto.
  - intros a0 Hr Hco. apply Hc in Hco. upd_cases a0 a; [rewrite Hreg; apply J4; auto|apply J4; auto].
  - intros a0 c Hd Hpp Hco. rewrite Hp in Hpp. apply Hc in Hco. apply Hdone in Hd.
    upd_cases c a; [eapply Hdc; eauto|eapply J5; eauto].
  - intros a0 c Hpp Hco. rewrite Hp in Hpp. apply Hc in Hco.
    destruct (J6 a0 c Hpp Hco) as [D1|[(D1 & D2 & D3 & D4)|(D1 & D2)]].
    + left. upd_cases c a; [|assumption].
      (* c = a was already stopped: x' must not resurrect it *)
      destruct (running x') eqn:Er; [|reflexivity]. rewrite (Hrun eq_refl) in D1. discriminate.
    + assert (a0 <> c) by (intros ->; apply (J8 c); assumption).
      right. left. upd_cases a0 a.
      * rewrite Hkids. destruct (Hphase (conj D3 D4)) as [P1 P2]. upd_cases c a; [contradiction|]. auto.
      * upd_cases c a; [rewrite Hreg|]; auto.
    + right. right. upd_cases a0 a; [rewrite Hsnap; auto|auto].
  - upd_cases 0 a; [now rewrite Hpar|assumption].
  - intros c. rewrite Hp. apply J8.
  - intros d c Hpd. rewrite Hp in Hpd. apply Hc. eapply J9; eauto.
Qed.

(* the same for an update that may also shrink kids and replace snap *)
Lemma jinv_upd s a x' tr' tm :
  jinv s ->
  par x' = par (acts s a) -> StopModel.ph x' = StopModel.ph (acts s a) -> started x' = started (acts s a) ->
  reg x' = reg (acts s a) ->
  (forall c, In c (kids x') -> In c (kids (acts s a))) ->
  (forall c, In c (snap x') -> In c (snap (acts s a)) \/ In c (kids (acts s a))) ->
  ((exists c, StopModel.ph (acts s c) <> None /\ par (acts s c) = Some a) -> running x' = true /\ (sp x' = SIdle \/ sp x' = SLocked)) ->
  (running x' = true -> running (acts s a) = true) ->
  (forall b, done_ tr' b -> done_ (trace s) b \/ (b = a /\ forall c, par (acts s c) = Some a -> complete (acts s c) -> c <> a -> running (acts s c) = false)) ->
  (forall b, done_ (trace s) b -> par (acts s a) = Some b -> complete (acts s a) -> running x' = false) ->
  (forall c, par (acts s c) = Some a -> complete (acts s c) -> c <> a ->
     running (acts s c) = false \/
     (In c (kids (acts s a)) /\ reg (acts s c) = true /\ (sp (acts s a) = SIdle \/ sp (acts s a) = SLocked) /\ running (acts s a) = true) \/
     (In c (snap (acts s a)) /\ busy (sp (acts s a))) ->
     running (acts s c) = false \/
     (In c (kids x') /\ reg (acts s c) = true /\ (sp x' = SIdle \/ sp x' = SLocked) /\ running x' = true) \/
     (In c (snap x') /\ busy (sp x'))) ->
  (* a as a child of its own parent: still registered / still running where needed *)
  (running x' = false \/ running x' = running (acts s a)) ->
  jinv (St (upd (acts s) a x') tr' tm).
Proof.
  intros [J1 J2 J3 J4 J5 J6 J7 J8 J9] Hpar Hph Hst Hreg Hkids Hsnap Hfl Hrun Hdone Hdc Hchild Hself.
  assert (Hc : forall i, complete (upd (acts s) a x' i) <-> complete (acts s i)).
  { intros i. unfold complete. upd_cases i a; [rewrite Hst, Hph|]; tauto. }
  assert (Hp : forall i, par (upd (acts s) a x' i) = par (acts s i)).
  { intros i. upd_cases i a; auto. }
  split; simpl.
  - intros a0 c Hin. rewrite Hp, Hc. apply (J1 a0). upd_cases a0 a; [now apply Hkids|assumption].
  - intros a0 c Hin. rewrite Hp, Hc. upd_cases a0 a; [|apply (J2 a0); assumption].
    destruct (Hsnap c Hin); [apply (J2 a); assumption|apply (J1 a); assumption].
  - intros c p Hn Hpp. rewrite Hp in Hpp.
    assert (Hn' : StopModel.ph (acts s c) <> None) by (upd_cases c a; [now rewrite Hph in Hn|assumption]).
    destruct (J3 c p Hn' Hpp) as (R1 & R2 & R3 & R4). rewrite Hc.
    upd_cases p a; [|auto]. destruct (Hfl (ex_intro _ c (conj Hn' Hpp))) as [H1 H2]. rewrite Hreg. auto.
  - intros a0 Hr Hco. apply Hc in Hco. upd_cases a0 a; [rewrite Hreg; apply J4; auto|apply J4; auto].
  - intros a0 c Hd Hpp Hco. rewrite Hp in Hpp. apply Hc in Hco.
    destruct (Hdone a0 Hd) as [Hd'|[-> Hall]].
    + upd_cases c a; [eapply Hdc; eauto|eapply J5; eauto].
    + assert (c <> a) by (intros ->; apply (J8 a); assumption).
      rewrite upd_other by assumption. apply Hall; assumption.
  - intros a0 c Hpp Hco. rewrite Hp in Hpp. apply Hc in Hco.
    assert (Hne : a0 <> c) by (intros ->; apply (J8 c); assumption).
    pose proof (J6 a0 c Hpp Hco) as D.
    upd_cases a0 a.
    + (* children of a *)
      rewrite upd_other by auto. destruct (Hchild c Hpp Hco (not_eq_sym Hne) D) as [E1|[E2|E3]]; auto.
    + upd_cases c a.
      * (* a as a child of a0 *)
        destruct D as [D1|[(D1 & D2 & D3 & D4)|(D1 & D2)]].
        -- left. destruct Hself as [H|H]; [assumption|congruence].
        -- destruct Hself as [H|H]; [left; assumption|]. right. left. rewrite Hreg. auto.
        -- right. right. auto.
      * assumption.
  - upd_cases 0 a; [now rewrite Hpar|assumption].
  - intros c. rewrite Hp. apply J8.
  - intros d c Hpd. rewrite Hp in Hpd. apply Hc. eapply J9; eauto.
Qed.

Section AllSteps.
Variable ws : bool.

Lemma all_StopBegin s a s' : jinv s -> step ws s (LStopBegin a) = Some s' -> jinv s'.
Proof.
  intros J. unfold step. destruct (sp (acts s a)) eqn:Esp; try discriminate.
  destruct (running (acts s a)) eqn:Er; [|discriminate]. intros [= <-].
  apply jinv_control; simpl; auto.
  - intros b Hd Hp Hc. pose proof (j_done _ J _ a Hd Hp Hc). congruence.
  - discriminate.
  - intros [H _]. congruence.
Qed.

Lemma all_DisownDone s a c s' : jinv s -> step ws s (LDisownDone a c) = Some s' -> jinv s'.
Proof.
  intros J. unfold step. destruct (sp (acts s a)) as [| |p|] eqn:Esp; try discriminate.
  destruct (pend_get c p) as [[|]|]; try discriminate.
  destruct (sp (acts s c)); try discriminate. destruct (running (acts s c)); [discriminate|]. intros [= <-].
  apply jinv_control; simpl; auto.
  - intros (c0 & Hn & Hp). destruct (j_flight _ J c0 a Hn Hp) as (_ & [H|H] & _); congruence.
  - intros b Hd Hp Hc. eapply j_done; eauto.
  - intros [[H|H] _]; congruence.
  - intros _. apply busy_kids.
Qed.

Lemma all_PostBegin s a s' : jinv s -> step ws s (LPostBegin a) = Some s' -> jinv s'.
Proof.
  intros J. unfold step. destruct (sp (acts s a)) as [| |[|]|] eqn:Esp; try discriminate. intros [= <-].
  apply jinv_control; simpl; auto.
  - intros (c0 & Hn & Hp). destruct (j_flight _ J c0 a Hn Hp) as (_ & [H|H] & _); congruence.
  - intros b [H|H]; [discriminate|exact H].
  - intros b Hd Hp Hc. eapply j_done; eauto.
  - intros [[H|H] _]; congruence.
  - intros _. apply busy_post.
Qed.

Lemma all_Snapshot s a s' : jinv s -> snap_ok s a -> step ws s (LSnapshot a) = Some s' -> jinv s'.
Proof.
  intros J Ok. unfold step. destruct (sp (acts s a)) eqn:Esp; try discriminate. intros [= <-].
  apply jinv_upd; simpl; auto.
  - intros c Hin. right. unfold children in Hin. apply filter_In in Hin. tauto.
  - intros (c0 & Hn & Hp). elim Hn. apply Ok. assumption.
  - intros b Hd Hp Hc. eapply j_done; eauto.
  - intros c Hp Hc Hne [D|[(D1 & D2 & D3 & D4)|(D1 & [D2 D3])]]; [auto| |congruence].
    right. right. split; [|apply busy_kids]. unfold children. apply filter_In. auto.
Qed.

Lemma all_DisownTest s a c s' : jinv s -> step ws s (LDisownTest a c) = Some s' -> jinv s'.
Proof.
  intros J. unfold step. destruct (sp (acts s a)) as [| |p|] eqn:Esp; try discriminate.
  destruct (pend_get c p) as [[|]|]; try discriminate. intros [= <-].
  apply jinv_upd; simpl; auto.
  - intros c0 Hin. unfold remove_nat in Hin. apply filter_In in Hin. tauto.
  - intros (c0 & Hn & Hp). destruct (j_flight _ J c0 a Hn Hp) as (_ & [H|H] & _); congruence.
  - intros b Hd Hp Hc. eapply j_done; eauto.
  - intros c0 Hp Hc Hne [D|[(D1 & D2 & [D3|D3] & D4)|(D1 & D2)]]; try congruence; [auto|].
    right. right. split; [assumption|apply busy_kids].
Qed.

Lemma all_PostEnd s a s' : inv s -> inv_g s -> jinv s -> step ws s (LPostEnd a) = Some s' -> jinv s'.
Proof.
  intros I G J. unfold step. destruct (sp (acts s a)) eqn:Esp; try discriminate. intros [= <-].
  assert (Hkids : forall c, par (acts s c) = Some a -> complete (acts s c) -> c <> a -> running (acts s c) = false).
  { intros c Hp Hc Hne. destruct (j_child _ J a c Hp Hc) as [D|[(D1 & D2 & [D3|D3] & D4)|(D1 & D2)]]; try congruence.
    pose proof (pg_b _ _ _ (G a) c Esp D1) as Hd. apply (pa_n _ _ _ (inv_pa _ I c) Hd). }
  apply jinv_upd; simpl; auto.
  - intros (c0 & Hn & Hp). destruct (j_flight _ J c0 a Hn Hp) as (_ & [H|H] & _); congruence.
  - discriminate.
  - intros b [H|H]; [injection H as <-; right; auto|left; exact H].
Qed.

Lemma all_SpawnCheck s p c s' : inv s -> jinv s -> step ws s (LSpawnCheck p c) = Some s' -> jinv s'.
Proof.
  intros I J. unfold step. destruct (par (acts s c)) eqn:Epar; try discriminate.
  destruct (StopModel.ph (acts s c)) eqn:Eph; try discriminate.
  match goal with |- (if ?b then _ else _) = _ -> _ => destruct b eqn:E; [|discriminate] end.
  intros [= <-].
  apply andb_true_iff in E as [E Ephp]. apply andb_true_iff in E as [E Ecp]. apply andb_true_iff in E as [E Ec0].
  apply andb_true_iff in E as [Erp Est]. apply negb_true_iff in Est. apply negb_true_iff, Nat.eqb_neq in Ecp, Ec0.
  destruct (StopModel.ph (acts s p)) eqn:Ephp'; [discriminate|].
  unfold is_running in Erp. apply andb_true_iff in Erp as [Erun Estop]. apply negb_true_iff in Estop.
  destruct J as [J1 J2 J3 J4 J5 J6 J7 J8 J9].
  pose proof (inv_pa _ I p) as Pp.
  assert (Hspp : sp (acts s p) = SIdle).
  { destruct (sp_idle_dec (acts s p)) as [|Hn]; [assumption|]. rewrite (pa_stop1 _ _ _ Pp Hn) in Estop. discriminate. }
  assert (Hcp : complete (acts s p)) by (split; [apply (pa_run_started _ _ _ Pp Erun)|assumption]).
  assert (Hnochild : forall d, par (acts s d) <> Some c).
  { intros d Hd. destruct (J9 d c Hd) as [Hs _]. congruence. }
  set (xc := Actor false false false SIdle (Some p) (Some Checked) [] false [] []).
  set (xp := set_spawning (acts s p) (c :: spawning (acts s p))).
  set (A' := upd (upd (acts s) c xc) p xp).
  assert (HA : forall i, i <> c -> par (A' i) = par (acts s i) /\ StopModel.ph (A' i) = StopModel.ph (acts s i) /\
             started (A' i) = started (acts s i) /\ running (A' i) = running (acts s i) /\ sp (A' i) = sp (acts s i) /\
             reg (A' i) = reg (acts s i) /\ kids (A' i) = kids (acts s i) /\ snap (A' i) = snap (acts s i)).
  { intros i Hi. unfold A'. upd_cases i p; [unfold xp; simpl; repeat split; reflexivity|].
    rewrite upd_other by assumption. repeat split; reflexivity. }
  assert (HAc : A' c = xc) by (unfold A'; rewrite upd_other, upd_same by auto; reflexivity).
  assert (Hcomp : forall i, i <> c -> (complete (A' i) <-> complete (acts s i))).
  { intros i Hi. destruct (HA i Hi) as (_ & H2 & H3 & _). unfold complete. rewrite H2, H3. tauto. }
  assert (Hncc : ~ complete (A' c)) by (rewrite HAc; intros [H _]; discriminate).
  split; simpl; fold A'.
  - intros a0 c0 Hin. destruct (Nat.eq_dec a0 c) as [->|Ha0]; [rewrite HAc in Hin; contradiction|].
    destruct (HA a0 Ha0) as (_&_&_&_&_&_&Hk&_). rewrite Hk in Hin. destruct (J1 a0 c0 Hin) as [Hp Hc].
    assert (c0 <> c) by (intros ->; congruence).
    destruct (HA c0 H) as (-> & _). split; [assumption|apply Hcomp; assumption].
  - intros a0 c0 Hin. destruct (Nat.eq_dec a0 c) as [->|Ha0]; [rewrite HAc in Hin; contradiction|].
    destruct (HA a0 Ha0) as (_&_&_&_&_&_&_&Hk). rewrite Hk in Hin. destruct (J2 a0 c0 Hin) as [Hp Hc].
    assert (c0 <> c) by (intros ->; congruence).
    destruct (HA c0 H) as (-> & _). split; [assumption|apply Hcomp; assumption].
  - intros c0 p0 Hn Hp0. destruct (Nat.eq_dec c0 c) as [->|Hc0].
    + rewrite HAc in Hp0. simpl in Hp0. injection Hp0 as <-.
      destruct (HA p (not_eq_sym Ecp)) as (_&_&_&Hr&Hs&Hg&_). rewrite Hr, Hs, Hg.
      split; [assumption|]. split; [left; assumption|]. split; [apply Hcomp; auto|apply J4; auto].
    + destruct (HA c0 Hc0) as (Hp' & Hh & _). rewrite Hp' in Hp0. rewrite Hh in Hn.
      assert (p0 <> c) by (intros ->; apply (Hnochild c0); assumption).
      destruct (J3 c0 p0 Hn Hp0) as (R1 & R2 & R3 & R4).
      destruct (HA p0 H) as (_&_&_&Hr&Hs&Hg&_). rewrite Hr, Hs, Hg. split; [assumption|]. split; [assumption|]. split; [apply Hcomp; auto|assumption].
  - intros a0 Hr Hco. destruct (Nat.eq_dec a0 c) as [->|Ha0]; [contradiction|].
    destruct (HA a0 Ha0) as (_&_&_&Hr'&_&Hg&_). rewrite Hg. rewrite Hr' in Hr. apply J4; [assumption|apply Hcomp; assumption].
  - intros a0 c0 Hd Hp0 Hco. destruct (Nat.eq_dec c0 c) as [->|Hc0]; [contradiction|].
    destruct (HA c0 Hc0) as (Hp' & _ & _ & Hr & _). rewrite Hr. rewrite Hp' in Hp0. eapply J5; eauto. apply Hcomp; assumption.
  - intros a0 c0 Hp0 Hco. destruct (Nat.eq_dec c0 c) as [->|Hc0]; [contradiction|].
    destruct (HA c0 Hc0) as (Hp' & _ & _ & Hr & _ & Hg & _). rewrite Hp' in Hp0. apply Hcomp in Hco; [|assumption].
    assert (a0 <> c) by (intros ->; apply (Hnochild c0); assumption).
    destruct (HA a0 H) as (_&_&_&Hra&Hsa&_&Hka&Hna). rewrite Hr, Hg, Hra, Hsa, Hka, Hna. apply J6; assumption.
  - destruct (HA 0 (not_eq_sym Ec0)) as (-> & _). assumption.
  - intros c0. destruct (Nat.eq_dec c0 c) as [->|Hc0]; [rewrite HAc; simpl; congruence|].
    destruct (HA c0 Hc0) as (-> & _). apply J8.
  - intros d c0 Hd. destruct (Nat.eq_dec d c) as [->|Hdc].
    + rewrite HAc in Hd. simpl in Hd. injection Hd as <-. apply Hcomp; auto.
    + destruct (HA d Hdc) as (Hp' & _). rewrite Hp' in Hd.
      assert (c0 <> c) by (intros ->; apply (Hnochild d); assumption).
      apply Hcomp; [assumption|]. eapply J9; eauto.
Qed.

End AllSteps.

(* update of an actor whose SpawnChild is still in flight (before and after) *)
Lemma jinv_inflight s c x' tr' tm :
  jinv s -> StopModel.ph (acts s c) <> None -> StopModel.ph x' <> None -> par x' = par (acts s c) ->
  kids x' = [] -> snap x' = [] -> (forall b, done_ tr' b <-> done_ (trace s) b) ->
  jinv (St (upd (acts s) c x') tr' tm).
Proof.
  intros [J1 J2 J3 J4 J5 J6 J7 J8 J9] Hold Hnew Hpar Hk Hsn Hd.
  assert (Hnochild : forall d, par (acts s d) <> Some c).
  { intros d Hpd. destruct (J9 d c Hpd) as [_ H]. contradiction. }
  assert (Hp : forall i, par (upd (acts s) c x' i) = par (acts s i)) by (intros i; upd_cases i c; auto).
  assert (Hcomp : forall i, i <> c -> (complete (upd (acts s) c x' i) <-> complete (acts s i))).
  { intros i Hi. rewrite upd_other by assumption. tauto. }
  assert (Hnc : ~ complete (upd (acts s) c x' c)) by (rewrite upd_same; intros [_ H]; contradiction).
  assert (Hnc0 : ~ complete (acts s c)) by (intros [_ H]; contradiction).
  split; simpl.
  - intros a0 c0 Hin. upd_cases a0 c; [rewrite Hk in Hin; contradiction|].
    destruct (J1 a0 c0 Hin) as [H1 H2]. assert (c0 <> c) by (intros ->; contradiction).
    rewrite Hp. split; [assumption|apply Hcomp; assumption].
  - intros a0 c0 Hin. upd_cases a0 c; [rewrite Hsn in Hin; contradiction|].
    destruct (J2 a0 c0 Hin) as [H1 H2]. assert (c0 <> c) by (intros ->; contradiction).
    rewrite Hp. split; [assumption|apply Hcomp; assumption].
  - intros c0 p0 Hn Hp0. rewrite Hp in Hp0.
    assert (p0 <> c) by (intros ->; apply (Hnochild c0); assumption).
    assert (Hn0 : StopModel.ph (acts s c0) <> None) by (upd_cases c0 c; assumption).
    destruct (J3 c0 p0 Hn0 Hp0) as (R1 & R2 & R3 & R4). rewrite upd_other by assumption. auto.
  - intros a0 Hr Hco. upd_cases a0 c; [contradiction|]. apply J4; assumption.
  - intros a0 c0 Hdn Hp0 Hco. rewrite Hp in Hp0. apply Hd in Hdn. upd_cases c0 c; [contradiction|]. eapply J5; eauto.
  - intros a0 c0 Hp0 Hco. rewrite Hp in Hp0. upd_cases c0 c; [contradiction|].
    assert (a0 <> c) by (intros ->; apply (Hnochild c0); assumption).
    rewrite upd_other by assumption. apply J6; assumption.
  - upd_cases 0 c; [congruence|assumption].
  - intros c0. rewrite Hp. apply J8.
  - intros d c0 Hpd. rewrite Hp in Hpd. assert (c0 <> c) by (intros ->; apply (Hnochild d); assumption).
    apply Hcomp; [assumption|]. eapply J9; eauto.
Qed.

Section AllSteps2.
Variable ws : bool.

Lemma all_SpawnInit s c s' : jinv s -> step ws s (LSpawnInit c) = Some s' -> jinv s'.
Proof.
  intros J. unfold step. destruct (StopModel.ph (acts s c)) as [[|]|] eqn:Eph; try discriminate. intros [= <-].
  apply jinv_inflight; simpl; auto; try congruence; try discriminate.
  intros b. unfold done_. simpl. split; [intros [H|H]; [discriminate|exact H]|auto].
Qed.

Lemma all_SpawnAdd s c s' : inv s -> jinv s -> step ws s (LSpawnAdd c) = Some s' -> jinv s'.
Proof.
  intros I J. unfold step. destruct (StopModel.ph (acts s c)) as [[|]|] eqn:Eph; try discriminate.
  destruct (par (acts s c)) as [p|] eqn:Epar; try discriminate. intros [= <-].
  destruct J as [J1 J2 J3 J4 J5 J6 J7 J8 J9].
  assert (Hn : StopModel.ph (acts s c) <> None) by congruence.
  destruct (J3 c p Hn Epar) as (Rrun & Rsp & Rcomp & Rreg).
  assert (Hpc : p <> c) by (intros ->; apply (J8 c); assumption).
  assert (Hst : started (acts s c) = true) by (apply (pa_ini _ _ _ (inv_pa _ I c)); assumption).
  assert (Hnochild : forall d, par (acts s d) <> Some c).
  { intros d Hpd. destruct (J9 d c Hpd) as [_ H]. congruence. }
  assert (Hnd : ~ done_ (trace s) p).
  { intros Hd. destruct (pa_n _ _ _ (inv_pa _ I p) Hd). congruence. }
  cbv zeta. rewrite Rreg. rewrite (upd_other _ c _ p Hpc). rewrite Rreg.
  set (xc := Actor (running (acts s c)) (stopping (acts s c)) (started (acts s c)) (sp (acts s c)) (Some p) None
                   (spawning (acts s c)) true (kids (acts s c)) (snap (acts s c))).
  set (xp := Actor (running (acts s p)) _ _ _ _ _ _ _ _ _).
  set (A' := upd (upd (acts s) c xc) p xp).
  assert (HAo : forall i, i <> c -> i <> p -> A' i = acts s i).
  { intros i H1 H2. unfold A'. rewrite upd_other, upd_other by assumption. reflexivity. }
  assert (HAc : A' c = xc) by (unfold A'; rewrite upd_other, upd_same by auto; reflexivity).
  assert (HAp : A' p = xp) by (unfold A'; apply upd_same).
  assert (Hpar : forall i, par (A' i) = par (acts s i)).
  { intros i. destruct (Nat.eq_dec i c) as [->|H1]; [rewrite HAc; simpl; congruence|].
    destruct (Nat.eq_dec i p) as [->|H2]; [rewrite HAp; reflexivity|rewrite HAo; auto]. }
  assert (Hcore : forall i, started (A' i) = started (acts s i) /\ running (A' i) = running (acts s i) /\
                            sp (A' i) = sp (acts s i) /\ snap (A' i) = snap (acts s i)).
  { intros i. destruct (Nat.eq_dec i c) as [->|H1]; [rewrite HAc; simpl; auto|].
    destruct (Nat.eq_dec i p) as [->|H2]; [rewrite HAp; simpl; auto|rewrite HAo; auto]. }
  assert (Hph : forall i, i <> c -> StopModel.ph (A' i) = StopModel.ph (acts s i)).
  { intros i H1. destruct (Nat.eq_dec i p) as [->|H2]; [rewrite HAp; reflexivity|rewrite HAo; auto]. }
  assert (Hcomp : forall i, i <> c -> (complete (A' i) <-> complete (acts s i))).
  { intros i Hi. unfold complete. destruct (Hcore i) as (-> & _). rewrite (Hph i Hi). tauto. }
  assert (Hcc : complete (A' c)) by (rewrite HAc; split; [exact Hst|reflexivity]).
  assert (Hreg : forall i, i <> c -> reg (A' i) = reg (acts s i)).
  { intros i H1. destruct (Nat.eq_dec i p) as [->|H2]; [rewrite HAp; simpl; congruence|rewrite HAo; auto]. }
  assert (Hkids : forall i, i <> p -> kids (A' i) = kids (acts s i)).
  { intros i H1. destruct (Nat.eq_dec i c) as [->|H2]; [rewrite HAc; reflexivity|rewrite HAo; auto]. }
  assert (Hkp : kids (A' p) = kids (acts s p) ++ [c]) by (rewrite HAp; reflexivity).
  split; simpl; fold A'.
  - intros a0 c0 Hin. rewrite Hpar.
    destruct (Nat.eq_dec a0 p) as [->|Ha0].
    + rewrite Hkp in Hin. apply in_app_or in Hin as [Hin|[<-|[]]].
      * destruct (J1 p c0 Hin) as [H1 H2]. split; [assumption|].
        destruct (Nat.eq_dec c0 c) as [->|Hc0]; [assumption|apply Hcomp; assumption].
      * split; assumption.
    + rewrite (Hkids a0 Ha0) in Hin. destruct (J1 a0 c0 Hin) as [H1 H2]. split; [assumption|].
      destruct (Nat.eq_dec c0 c) as [->|Hc0]; [assumption|apply Hcomp; assumption].
  - intros a0 c0 Hin. rewrite Hpar. destruct (Hcore a0) as (_&_&_&Hs). rewrite Hs in Hin.
    destruct (J2 a0 c0 Hin) as [H1 H2]. split; [assumption|].
    destruct (Nat.eq_dec c0 c) as [->|Hc0]; [assumption|apply Hcomp; assumption].
  - intros c0 p0 Hn0 Hp0. rewrite Hpar in Hp0.
    destruct (Nat.eq_dec c0 c) as [->|Hc0]; [rewrite HAc in Hn0; simpl in Hn0; congruence|].
    rewrite (Hph c0 Hc0) in Hn0.
    assert (p0 <> c) by (intros ->; apply (Hnochild c0); assumption).
    destruct (J3 c0 p0 Hn0 Hp0) as (R1 & R2 & R3 & R4).
    destruct (Hcore p0) as (_ & -> & -> & _). rewrite (Hreg p0 H). split; [assumption|]. split; [assumption|].
    split; [apply Hcomp; assumption|assumption].
  - intros a0 Hr Hco. destruct (Nat.eq_dec a0 c) as [->|Ha0]; [rewrite HAc; reflexivity|].
    rewrite (Hreg a0 Ha0). destruct (Hcore a0) as (_ & Hr' & _). rewrite Hr' in Hr. apply J4; [assumption|apply Hcomp; assumption].
  - intros a0 c0 Hd Hp0 Hco. rewrite Hpar in Hp0. destruct (Hcore c0) as (_ & -> & _).
    destruct (Nat.eq_dec c0 c) as [->|Hc0].
    + exfalso. rewrite Epar in Hp0. injection Hp0 as <-. contradiction.
    + eapply J5; eauto. apply Hcomp; assumption.
  - intros a0 c0 Hp0 Hco. rewrite Hpar in Hp0.
    destruct (Nat.eq_dec c0 c) as [->|Hc0].
    + rewrite Epar in Hp0. injection Hp0 as <-. right. left.
      destruct (Hcore p) as (_ & -> & -> & _). rewrite Hkp, HAc. simpl.
      split; [apply in_or_app; right; left; reflexivity|]. auto.
    + assert (a0 <> c) by (intros ->; apply (Hnochild c0); assumption).
      apply Hcomp in Hco; [|assumption].
      destruct (Hcore c0) as (_ & -> & _). destruct (Hcore a0) as (_ & -> & -> & ->). rewrite (Hreg c0 Hc0).
      destruct (J6 a0 c0 Hp0 Hco) as [D|[(D1 & D2)|D]]; auto.
      right. left. split; [|assumption].
      destruct (Nat.eq_dec a0 p) as [->|Ha0]; [rewrite Hkp; apply in_or_app; auto|rewrite Hkids; auto].
  - rewrite Hpar. assumption.
  - intros c0. rewrite Hpar. apply J8.
  - intros d c0 Hpd. rewrite Hpar in Hpd.
    destruct (Nat.eq_dec c0 c) as [->|Hc0]; [assumption|apply Hcomp; [assumption|eapply J9; eauto]].
Qed.
End AllSteps2.

(* ---------------------------------------------------------------- the death watch *)
Lemma unreg_all_other l : forall f i, ~ In i l -> unreg_all f l i = f i.
Proof.
  induction l as [|a l IH]; intros f i Hn; simpl; [reflexivity|].
  rewrite IH by (intros H; apply Hn; right; assumption).
  rewrite upd_other; [reflexivity|]. intros ->. apply Hn. left. reflexivity.
Qed.

Lemma unreg_all_fields l : forall f i,
  running (unreg_all f l i) = running (f i) /\ started (unreg_all f l i) = started (f i) /\
  sp (unreg_all f l i) = sp (f i) /\ StopModel.ph (unreg_all f l i) = StopModel.ph (f i) /\
  snap (unreg_all f l i) = snap (f i) /\ par (unreg_all f l i) = par (f i) /\
  (reg (unreg_all f l i) = true -> reg (f i) = true /\ ~ In i l) /\
  (forall c, In c (kids (unreg_all f l i)) -> In c (kids (f i))).
Proof.
  induction l as [|a l IH]; intros f i; simpl.
  - repeat split; auto.
  - destruct (IH (upd f a (unreg (f a))) i) as (H1 & H2 & H3 & H4 & H5 & H6 & H7 & H8).
    rewrite H1, H2, H3, H4, H5, H6.
    destruct (Nat.eq_dec i a) as [->|Hne].
    + rewrite upd_same in *. simpl in *.
      split; [reflexivity|]. split; [reflexivity|]. split; [reflexivity|]. split; [reflexivity|].
      split; [reflexivity|]. split; [reflexivity|]. split.
      * intros Hr. destruct (H7 Hr) as [Hf _]. discriminate.
      * intros c Hin. apply H8 in Hin. contradiction.
    + rewrite upd_other in * by assumption.
      split; [reflexivity|]. split; [reflexivity|]. split; [reflexivity|]. split; [reflexivity|].
      split; [reflexivity|]. split; [reflexivity|]. split.
      * intros Hr. destruct (H7 Hr) as [Hf Hn]. split; [assumption|]. intros [->|Hin]; [congruence|contradiction].
      * assumption.
Qed.

Lemma subtree_stopped s fuel : inv s -> jinv s -> forall y, done_ (trace s) y ->
  forall m, In m (subtree fuel (acts s) y) -> running (acts s m) = false.
Proof.
  intros I J. induction fuel as [|f IH]; intros y Hd m Hin; simpl in Hin.
  - destruct Hin as [<-|[]]. apply (pa_n _ _ _ (inv_pa _ I y) Hd).
  - destruct Hin as [<-|Hin]; [apply (pa_n _ _ _ (inv_pa _ I y) Hd)|].
    apply in_flat_map in Hin as (k & Hk & Hm). apply filter_In in Hk as [Hk _].
    destruct (j_kids _ J y k Hk) as [Hp Hc].
    pose proof (j_done _ J y k Hd Hp Hc) as Hr.
    apply (IH k); [|assumption]. apply (pa_k _ _ _ (inv_pa _ I k)); [apply Hc|assumption].
Qed.

Lemma term_done ws s : reach ws s -> forall a, In a (term s) -> done_ (trace s) a.
Proof.
  induction 1 as [|s l s' R IH Hs]; [intros a []|]. intros a Hin.
  destruct l; unfold step in Hs; simpl in Hs;
    repeat match type of Hs with
    | (if ?c then _ else _) = Some _ => destruct c eqn:?; try discriminate
    | match ?x with _ => _ end = Some _ => destruct x eqn:?; try discriminate
    end; injection Hs as <-; simpl in *; try (apply IH; assumption);
    try (right; apply IH; assumption).
  - (* PostEnd *) apply in_app_or in Hin as [Hin|[<-|[]]]; [right; apply IH; assumption|left; reflexivity].
  - (* Reap *) apply IH. right. assumption.
Qed.

Lemma all_Reap ws s a s' : inv s -> jinv s -> (forall x, In x (term s) -> done_ (trace s) x) ->
  step ws s (LReap a) = Some s' -> jinv s'.
Proof.
  intros I J Ht. unfold step. destruct (term s) as [|a' rest] eqn:Et; [discriminate|].
  destruct (Nat.eqb_spec a a') as [<-|]; [|discriminate]. intros [= <-].
  assert (Hda : done_ (trace s) a) by (apply Ht; left; reflexivity).
  destruct (reg (acts s a)) eqn:Ereg.
  2:{ destruct J; split; simpl; auto. }
  set (l := subtree (length (kids (acts s a)) + 64) (acts s) a).
  set (A1 := unreg_all (acts s) l).
  assert (Hstop : forall m, In m l -> running (acts s m) = false) by (apply subtree_stopped; assumption).
  set (A' := match par (acts s a) with Some p => upd A1 p (set_kids (A1 p) (remove_nat a (kids (A1 p)))) | None => A1 end).
  assert (HF : forall i, running (A' i) = running (acts s i) /\ started (A' i) = started (acts s i) /\
             sp (A' i) = sp (acts s i) /\ StopModel.ph (A' i) = StopModel.ph (acts s i) /\
             snap (A' i) = snap (acts s i) /\ par (A' i) = par (acts s i) /\
             (reg (A' i) = true -> reg (acts s i) = true /\ ~ In i l) /\
             (forall c, In c (kids (A' i)) -> In c (kids (acts s i)) /\ c <> a \/ (In c (kids (acts s i)) /\ par (acts s a) <> Some i))).
  { intros i. destruct (unreg_all_fields l (acts s) i) as (H1 & H2 & H3 & H4 & H5 & H6 & H7 & H8). fold A1 in H1, H2, H3, H4, H5, H6, H7, H8.
    unfold A'. destruct (par (acts s a)) as [p|] eqn:Ep.
    - destruct (Nat.eq_dec i p) as [->|Hne].
      + rewrite upd_same. simpl. repeat split; auto; try (apply H7; assumption).
        intros c Hin. unfold remove_nat in Hin. apply filter_In in Hin as [Hin Hne]. left. split; [apply H8; assumption|].
        destruct (Nat.eqb_spec c a); [discriminate|assumption].
      + rewrite upd_other by assumption. repeat split; auto; try (apply H7; assumption).
        intros c Hin. right. split; [apply H8; assumption|congruence].
    - repeat split; auto; try (apply H7; assumption). intros c Hin. right. split; [apply H8; assumption|discriminate]. }
  assert (Hcomp : forall i, complete (A' i) <-> complete (acts s i)).
  { intros i. destruct (HF i) as (_ & H2 & _ & H4 & _). unfold complete. rewrite H2, H4. tauto. }
  assert (Hkeep : forall i, running (acts s i) = true -> reg (acts s i) = true -> reg (A' i) = true).
  { intros i Hr Hg. assert (Hn : ~ In i l) by (intros Hin; rewrite (Hstop i Hin) in Hr; discriminate).
    unfold A'. destruct (par (acts s a)) as [p|].
    - destruct (Nat.eq_dec i p) as [->|Hne]; [rewrite upd_same; simpl|rewrite upd_other by assumption];
        unfold A1; rewrite unreg_all_other by assumption; assumption.
    - unfold A1. rewrite unreg_all_other by assumption. assumption. }
  assert (Hkk : forall i c, running (acts s i) = true -> In c (kids (acts s i)) -> c <> a -> In c (kids (A' i))).
  { intros i c Hr Hin Hne. assert (Hn : ~ In i l) by (intros Hi; rewrite (Hstop i Hi) in Hr; discriminate).
    unfold A'. destruct (par (acts s a)) as [p|].
    - destruct (Nat.eq_dec i p) as [->|Hnp].
      + rewrite upd_same. simpl. unfold remove_nat. apply filter_In. split.
        * unfold A1. rewrite unreg_all_other by assumption. assumption.
        * destruct (Nat.eqb_spec c a); [contradiction|reflexivity].
      + rewrite upd_other by assumption. unfold A1. rewrite unreg_all_other by assumption. assumption.
    - unfold A1. rewrite unreg_all_other by assumption. assumption. }
  destruct J as [J1 J2 J3 J4 J5 J6 J7 J8 J9].
  fold l. fold A1. fold A'.
  split; simpl.
  - intros a0 c Hin. destruct (HF a0) as (_&_&_&_&_&_&_&Hk). destruct (HF c) as (_&_&_&_&_&Hp&_).
    rewrite Hp, Hcomp. destruct (Hk c Hin) as [[H _]|[H _]]; apply (J1 a0); assumption.
  - intros a0 c Hin. destruct (HF a0) as (_&_&_&_&Hs&_). destruct (HF c) as (_&_&_&_&_&Hp&_).
    rewrite Hp, Hcomp. rewrite Hs in Hin. apply (J2 a0); assumption.
  - intros c p Hn Hp. destruct (HF c) as (_&_&_&Hh&_&Hpp&_). rewrite Hh in Hn. rewrite Hpp in Hp.
    destruct (J3 c p Hn Hp) as (R1 & R2 & R3 & R4).
    destruct (HF p) as (Hr&_&Hs&_). rewrite Hr, Hs, Hcomp. split; [assumption|]. split; [assumption|]. split; [assumption|apply Hkeep; assumption].
  - intros a0 Hr Hco. destruct (HF a0) as (Hr'&_). rewrite Hr' in Hr. apply Hcomp in Hco. apply Hkeep; auto.
  - intros a0 c Hd Hp Hco. destruct (HF c) as (Hr&_&_&_&_&Hpp&_). rewrite Hr. rewrite Hpp in Hp. apply Hcomp in Hco. eapply J5; eauto.
  - intros a0 c Hp Hco. destruct (HF c) as (Hr&_&_&_&_&Hpp&_). rewrite Hpp in Hp. apply Hcomp in Hco.
    destruct (HF a0) as (Hra&_&Hsa&_&Hna&_). rewrite Hr, Hra, Hsa, Hna.
    destruct (J6 a0 c Hp Hco) as [D|[(D1 & D2 & D3 & D4)|D]]; auto.
    destruct (running (acts s c)) eqn:Erc; [|auto]. right. left.
    assert (c <> a) by (intros ->; destruct (pa_n _ _ _ (inv_pa _ I a) Hda); congruence).
    repeat split; auto.
  - destruct (HF 0) as (_&_&_&_&_&->&_). assumption.
  - intros c. destruct (HF c) as (_&_&_&_&_&->&_). apply J8.
  - intros d c Hp. destruct (HF d) as (_&_&_&_&_&Hpp&_). rewrite Hpp in Hp. apply Hcomp. eapply J9; eauto.
Qed.

(* ---------------------------------------------------------------- assembling *)
Lemma jinv_step ws s l s' : inv s -> inv_g s -> jinv s -> (forall x, In x (term s) -> done_ (trace s) x) ->
  step_ok2 ws s l -> step ws s l = Some s' -> jinv s'.
Proof.
  intros I G J Ht Ok Hs. destruct l; simpl in Ok.
  - eapply all_StopBegin; eauto.
  - unfold step in Hs. destruct (sp (acts s a)); try discriminate. destruct (running (acts s a)); [discriminate|]. now injection Hs as <-.
  - eapply all_Snapshot; eauto.
  - eapply all_DisownTest; eauto.
  - eapply all_DisownDone; eauto.
  - eapply all_PostBegin; eauto.
  - eapply all_PostEnd; eauto.
  - eapply all_SpawnCheck; eauto.
  - eapply all_SpawnInit; eauto.
  - eapply all_SpawnAdd; eauto.
  - eapply all_Reap; eauto.
Qed.

Lemma reach_s_reach ws s : reach_s ws s -> reach ws s.
Proof. induction 1; [constructor|econstructor; eauto]. Qed.

Lemma reach_s_jinv ws s : reach_s ws s -> jinv s.
Proof.
  induction 1 as [|s l s' R IH Ok Hs]; [apply jinv_init|].
  destruct (reach_g_inv _ _ (reach_s_g _ _ R)) as [I G].
  apply (jinv_step ws s l s' I G IH); [|exact Ok|exact Hs]. apply (term_done ws), reach_s_reach, R.
Qed.

(* descendants by the spawn relation *)
Inductive desc (s : st) : nat -> nat -> Prop :=
| desc_one a c : par (acts s c) = Some a -> desc s a c
| desc_more a c d : par (acts s c) = Some a -> desc s c d -> desc s a d.

(* Stopping an actor stops EVERY descendant whose SpawnChild has returned: once PostStop of [a]
   has completed, each of them has completed its own PostStop and is not running. *)
Theorem all_descendants_stopped ws s a : reach_s ws s -> In (EPostE a) (trace s) ->
  forall d, desc s a d -> complete (acts s d) -> running (acts s d) = false /\ In (EPostE d) (trace s).
Proof.
  intros R Hd d Hdesc. pose proof (reach_s_jinv _ _ R) as J.
  destruct (reach_g_inv _ _ (reach_s_g _ _ R)) as [I G].
  revert Hd. induction Hdesc as [a c Hp|a c d Hp Hdesc IH]; intros Hd Hc.
  - pose proof (j_done _ J a c Hd Hp Hc) as Hr. split; [assumption|].
    apply (pa_k _ _ _ (inv_pa _ I c)); [apply Hc|assumption].
  - assert (Hcc : complete (acts s c)).
    { destruct Hdesc as [c d Hp'|c e d Hp' _]; eapply (j_parent _ J); eauto. }
    pose proof (j_done _ J a c Hd Hp Hcc) as Hr.
    apply IH; [|assumption]. apply (pa_k _ _ _ (inv_pa _ I c)); [apply Hcc|assumption].
Qed.

(* in particular at the moment Shutdown(a) returns *)
Theorem stopped_on_return_all ws s a s' : reach_s ws s -> step ws s (LPostEnd a) = Some s' ->
  forall d, desc s' a d -> complete (acts s' d) -> running (acts s' d) = false /\ In (EPostE d) (trace s').
Proof.
  intros R Hs. assert (R' : reach_s ws s') by (apply (reach_s_step ws s (LPostEnd a) s' R); [exact I|exact Hs]).
  apply (all_descendants_stopped ws); [assumption|].
  unfold step in Hs. destruct (sp (acts s a)); try discriminate. injection Hs as <-. left. reflexivity.
Qed.

(* ---------------------------------------------------------------- the boolean guard implies the logical one *)
Record sinv (s : st) : Prop := {
  s_inflight : forall c p, StopModel.ph (acts s c) <> None -> par (acts s c) = Some p -> In c (spawning (acts s p));
  s_parent_started : forall d c, par (acts s d) = Some c -> started (acts s c) = true;
  s_par_ne : forall c, par (acts s c) <> Some c;
}.

Lemma unreg_all_spawning l : forall f i, spawning (unreg_all f l i) = spawning (f i).
Proof.
  induction l as [|a l IH]; intros f i; simpl; [reflexivity|]. rewrite IH.
  unfold upd. destruct (Nat.eqb i a) eqn:E; [apply Nat.eqb_eq in E; subst; reflexivity|reflexivity].
Qed.

Lemma sinv_step ws s l s' : inv s -> sinv s -> step ws s l = Some s' -> sinv s'.
Proof.
  intros I [S1 S2 S3] Hs.
  assert (Hframe : forall a x', par x' = par (acts s a) -> StopModel.ph x' = StopModel.ph (acts s a) ->
            started x' = started (acts s a) -> spawning x' = spawning (acts s a) ->
            forall tr tm, sinv (St (upd (acts s) a x') tr tm)).
  { intros a x' H1 H2 H3 H4 tr tm. split; simpl.
    - intros c p Hn Hp.
      assert (Hn' : StopModel.ph (acts s c) <> None) by (upd_cases c a; [now rewrite H2 in Hn|assumption]).
      assert (Hp' : par (acts s c) = Some p) by (upd_cases c a; [now rewrite H1 in Hp|assumption]).
      upd_cases p a; [rewrite H4|]; auto.
    - intros d c Hp. assert (Hp' : par (acts s d) = Some c) by (upd_cases d a; [now rewrite H1 in Hp|assumption]).
      upd_cases c a; [rewrite H3|]; eauto.
    - intros c. upd_cases c a; [rewrite H1|]; apply S3. }
  destruct l; unfold step in Hs; simpl in Hs.
  - destruct (sp (acts s a)); try discriminate. destruct (running (acts s a)); [|discriminate]. injection Hs as <-. apply Hframe; reflexivity.
  - destruct (sp (acts s a)); try discriminate. destruct (running (acts s a)); [discriminate|]. injection Hs as <-. split; assumption.
  - destruct (sp (acts s a)); try discriminate. injection Hs as <-. apply Hframe; reflexivity.
  - destruct (sp (acts s a)); try discriminate. destruct (pend_get c p) as [[|]|]; try discriminate. injection Hs as <-. apply Hframe; reflexivity.
  - destruct (sp (acts s a)); try discriminate. destruct (pend_get c p) as [[|]|]; try discriminate.
    destruct (sp (acts s c)); try discriminate. destruct (running (acts s c)); [discriminate|]. injection Hs as <-. apply Hframe; reflexivity.
  - destruct (sp (acts s a)) as [| |[|]|]; try discriminate. injection Hs as <-. apply Hframe; reflexivity.
  - destruct (sp (acts s a)); try discriminate. injection Hs as <-. apply Hframe; reflexivity.
  - (* SpawnCheck *)
    destruct (par (acts s c)) eqn:Epar; try discriminate. destruct (StopModel.ph (acts s c)) eqn:Eph; try discriminate.
    match type of Hs with (if ?b then _ else _) = _ => destruct b eqn:E; [|discriminate] end. injection Hs as <-.
    apply andb_true_iff in E as [E _]. apply andb_true_iff in E as [E Ecp]. apply andb_true_iff in E as [E _].
    apply andb_true_iff in E as [Erp Est]. apply negb_true_iff in Est. apply negb_true_iff, Nat.eqb_neq in Ecp.
    unfold is_running in Erp. apply andb_true_iff in Erp as [Erun _].
    assert (Hsp : started (acts s p) = true) by (apply (pa_run_started _ _ _ (inv_pa _ I p)); assumption).
    assert (Hnoc : forall d, par (acts s d) <> Some c) by (intros d Hd; rewrite (S2 d c Hd) in Est; discriminate).
    set (xc := Actor false false false SIdle (Some p) (Some Checked) [] false [] []).
    set (A' := upd (upd (acts s) c xc) p (set_spawning (acts s p) (c :: spawning (acts s p)))).
    assert (HAc : A' c = xc) by (unfold A'; rewrite upd_other, upd_same by auto; reflexivity).
    assert (HA : forall i, i <> c -> par (A' i) = par (acts s i) /\ StopModel.ph (A' i) = StopModel.ph (acts s i) /\
               started (A' i) = started (acts s i) /\ (forall x, In x (spawning (acts s i)) -> In x (spawning (A' i)))).
    { intros i Hi. unfold A'. destruct (Nat.eq_dec i p) as [->|Hne].
      - rewrite upd_same. simpl. repeat split; auto.
      - rewrite upd_other, upd_other by assumption. repeat split; auto. }
    split; simpl; fold A'.
    + intros c0 p0 Hn Hp. destruct (Nat.eq_dec c0 c) as [->|Hc0].
      * rewrite HAc in Hp. simpl in Hp. injection Hp as <-. unfold A'. rewrite upd_same. simpl. left. reflexivity.
      * destruct (HA c0 Hc0) as (H1 & H2 & _). rewrite H1 in Hp. rewrite H2 in Hn.
        assert (p0 <> c) by (intros ->; apply (Hnoc c0); assumption).
        destruct (HA p0 H) as (_ & _ & _ & H4). apply H4. apply S1; assumption.
    + intros d c0 Hp. destruct (Nat.eq_dec d c) as [->|Hd].
      * rewrite HAc in Hp. simpl in Hp. injection Hp as <-. destruct (HA p (not_eq_sym Ecp)) as (_ & _ & -> & _). assumption.
      * destruct (HA d Hd) as (H1 & _). rewrite H1 in Hp.
        assert (c0 <> c) by (intros ->; apply (Hnoc d); assumption).
        destruct (HA c0 H) as (_ & _ & -> & _). eauto.
    + intros c0. destruct (Nat.eq_dec c0 c) as [->|Hc0]; [rewrite HAc; simpl; congruence|].
      destruct (HA c0 Hc0) as (-> & _). apply S3.
  - (* SpawnInit *)
    destruct (StopModel.ph (acts s c)) as [[|]|] eqn:Eph; try discriminate. injection Hs as <-.
    assert (Est : started (acts s c) = false) by (apply (pa_chk _ _ _ (inv_pa _ I c)); assumption).
    assert (Hnoc : forall d, par (acts s d) <> Some c) by (intros d Hd; rewrite (S2 d c Hd) in Est; discriminate).
    split; simpl.
    + intros c0 p0 Hn Hp. assert (Hp' : par (acts s c0) = Some p0) by (upd_cases c0 c; assumption).
      assert (p0 <> c) by (intros ->; apply (Hnoc c0); assumption). rewrite upd_other by assumption.
      apply S1; [|assumption]. upd_cases c0 c; [congruence|assumption].
    + intros d c0 Hp. assert (Hp' : par (acts s d) = Some c0) by (upd_cases d c; assumption).
      upd_cases c0 c; [reflexivity|eauto].
    + intros c0. upd_cases c0 c; [simpl|]; apply S3.
  - (* SpawnAdd *)
    destruct (StopModel.ph (acts s c)) as [[|]|] eqn:Eph; try discriminate.
    destruct (par (acts s c)) as [p|] eqn:Epar; try discriminate. injection Hs as <-.
    assert (Hpc : p <> c) by (intros ->; apply (S3 c); assumption).
    cbv zeta. rewrite (upd_other _ c _ p Hpc).
    match goal with |- sinv (St ?A _ _) => set (A' := A) end.
    assert (HAc : par (A' c) = Some p /\ StopModel.ph (A' c) = None /\ started (A' c) = started (acts s c) /\ spawning (A' c) = spawning (acts s c)).
    { unfold A'. rewrite upd_other, upd_same by auto. simpl. auto. }
    assert (HAp : par (A' p) = par (acts s p) /\ StopModel.ph (A' p) = StopModel.ph (acts s p) /\ started (A' p) = started (acts s p) /\
                  spawning (A' p) = remove_nat c (spawning (acts s p))).
    { unfold A'. rewrite upd_same. simpl. auto. }
    assert (HAo : forall i, i <> c -> i <> p -> A' i = acts s i).
    { intros i H1 H2. unfold A'. rewrite upd_other, upd_other by assumption. reflexivity. }
    assert (Hpar : forall i, par (A' i) = par (acts s i)).
    { intros i. destruct (Nat.eq_dec i c) as [->|H1]; [destruct HAc as (-> & _); auto|].
      destruct (Nat.eq_dec i p) as [->|H2]; [destruct HAp as (-> & _); auto|rewrite HAo; auto]. }
    assert (Hst : forall i, started (A' i) = started (acts s i)).
    { intros i. destruct (Nat.eq_dec i c) as [->|H1]; [destruct HAc as (_ & _ & -> & _); auto|].
      destruct (Nat.eq_dec i p) as [->|H2]; [destruct HAp as (_ & _ & -> & _); auto|rewrite HAo; auto]. }
    split; simpl; fold A'.
    + intros c0 p0 Hn Hp. rewrite Hpar in Hp.
      destruct (Nat.eq_dec c0 c) as [->|Hc0]; [destruct HAc as (_ & H & _); congruence|].
      assert (Hn' : StopModel.ph (acts s c0) <> None).
      { destruct (Nat.eq_dec c0 p) as [->|H2]; [destruct HAp as (_ & H & _); rewrite H in Hn; assumption|rewrite HAo in Hn; auto]. }
      pose proof (S1 c0 p0 Hn' Hp) as Hin.
      destruct (Nat.eq_dec p0 p) as [->|Hp0].
      * destruct HAp as (_ & _ & _ & ->). unfold remove_nat. apply filter_In. split; [assumption|].
        destruct (Nat.eqb_spec c0 c); [contradiction|reflexivity].
      * destruct (Nat.eq_dec p0 c) as [->|Hp0c]; [destruct HAc as (_ & _ & _ & ->); assumption|rewrite HAo; auto].
    + intros d c0 Hp. rewrite Hpar in Hp. rewrite Hst. eauto.
    + intros c0. rewrite Hpar. apply S3.
  - (* Reap *)
    destruct (term s) as [|a' rest]; [discriminate|]. destruct (a =? a'); [|discriminate]. injection Hs as <-.
    destruct (reg (acts s a)); [|split; assumption].
    set (l := subtree _ _ _). set (A1 := unreg_all (acts s) l).
    assert (HF : forall i, par (A1 i) = par (acts s i) /\ StopModel.ph (A1 i) = StopModel.ph (acts s i) /\
                           started (A1 i) = started (acts s i) /\ spawning (A1 i) = spawning (acts s i)).
    { intros i. destruct (unreg_all_fields l (acts s) i) as (_ & H2 & _ & H4 & _ & H6 & _).
      repeat split; auto. apply unreg_all_spawning. }
    assert (HS : sinv (St A1 (trace s) rest)).
    { split; simpl.
      - intros c p Hn Hp. destruct (HF c) as (Hc1 & Hc2 & _). destruct (HF p) as (_ & _ & _ & Hp4).
        rewrite Hc1 in Hp. rewrite Hc2 in Hn. rewrite Hp4. auto.
      - intros d c Hp. destruct (HF d) as (Hd1 & _). destruct (HF c) as (_ & _ & Hc3 & _). rewrite Hd1 in Hp. rewrite Hc3. eauto.
      - intros c. destruct (HF c) as (-> & _). apply S3. }
    destruct (par (acts s a)) as [p|]; [|exact HS].
    destruct HS as [T1 T2 T3]. simpl in T1, T2, T3. split; simpl.
    + intros c p0 Hn Hp. assert (Hn' : StopModel.ph (A1 c) <> None) by (upd_cases c p; [simpl in Hn|]; assumption).
      assert (Hp' : par (A1 c) = Some p0) by (upd_cases c p; [simpl in Hp|]; assumption).
      upd_cases p0 p; [simpl|]; auto.
    + intros d c Hp. assert (Hp' : par (A1 d) = Some c) by (upd_cases d p; [simpl in Hp|]; assumption).
      upd_cases c p; [simpl|]; eauto.
    + intros c. upd_cases c p; [simpl|]; apply T3.
Qed.

Lemma sinv_init : sinv init.
Proof.
  split; simpl; intros.
  - destruct (c =? 0); simpl in *; congruence.
  - destruct (d =? 0); simpl in *; discriminate.
  - destruct (c =? 0); simpl; discriminate.
Qed.

Lemma reach_sinv ws s : reach ws s -> sinv s.
Proof.
  induction 1 as [|s l s' R IH Hs]; [apply sinv_init|].
  eapply sinv_step; eauto. apply (reach_inv ws), R.
Qed.

(* the executable race-freedom guard of C09_partial implies the logical one *)
Theorem reach_rf_s ws s : reach_rf ws s -> reach_s ws s.
Proof.
  induction 1 as [|s l s' R IH Ok Hs]; [constructor|].
  apply (reach_s_step ws s l s' IH); [|exact Hs].
  destruct l; simpl in *; auto.
  - intros c Hp. destruct (StopModel.ph (acts s c)) eqn:E; [|reflexivity]. exfalso.
    assert (Hr : reach ws s) by (clear -R; induction R; [constructor|econstructor; eauto]).
    assert (Hin : In c (spawning (acts s a))) by (apply (s_inflight _ (reach_sinv _ _ Hr)); [congruence|assumption]).
    destruct (spawning (acts s a)); [contradiction|discriminate].
  - right. destruct (sp (acts s c)); [reflexivity|discriminate..].
Qed.

(* EXAMPLE: the guarded theorems are not vacuous — in the race-free run [example_run] (tree
   0 - 1 - {2, 3 - 4}, Shutdown(1) driven to completion) actor 4 is a descendant of 1 by the spawn
   relation and has completed PostStop *)
Example example_all_ok : exists s, run_ok false init (example_run ++ [LPostBegin 1; LPostEnd 1]) = Some s /\
  reach_s false s /\ desc s 1 4 /\ complete (acts s 4) /\ In (EPostE 1) (trace s).
Proof.
  destruct (run_ok false init (example_run ++ [LPostBegin 1; LPostEnd 1])) as [s|] eqn:E; [|vm_compute in E; discriminate].
  exists s. split; [reflexivity|]. split; [apply reach_rf_s; eapply run_ok_reach_rf; [constructor|exact E]|].
  vm_compute in E. injection E as <-. split; [|split; [split; reflexivity|simpl; auto]].
  apply desc_more with (c := 3); [reflexivity|]. apply desc_one. reflexivity.
Qed.

(* only the snapshot guard (for the repaired freeChildren the disown guard is not needed) *)
Definition snap_ok_b (s : st) (l : label) : bool :=
  match l with LSnapshot a => match spawning (acts s a) with [] => true | _ => false end | _ => true end.

Inductive reach_ns (ws : bool) : st -> Prop :=
| reach_ns_init : reach_ns ws init
| reach_ns_step s l s' : reach_ns ws s -> snap_ok_b s l = true -> step ws s l = Some s' -> reach_ns ws s'.

Theorem reach_ns_s : forall s, reach_ns true s -> reach_s true s.
Proof.
  induction 1 as [|s l s' R IH Ok Hs]; [constructor|].
  apply (reach_s_step true s l s' IH); [|exact Hs].
  destruct l; simpl in *; auto.
  intros c Hp. destruct (StopModel.ph (acts s c)) eqn:E; [|reflexivity]. exfalso.
  assert (Hr : reach true s) by (clear -R; induction R; [constructor|econstructor; eauto]).
  assert (Hin : In c (spawning (acts s a))) by (apply (s_inflight _ (reach_sinv _ _ Hr)); [congruence|assumption]).
  destruct (spawning (acts s a)); [contradiction|discriminate].
Qed.
