(* C09 — executable model of actor/pid_tree.go (M-TREE).  No proofs in this file.

   The Go tree is a pointer structure: [pids : id -> *pidNode], [names : name -> *pidNode], every
   node carries [parentNode *pidNode], [descendants : id -> *pidNode], [watchers/watchees : id -> *PID].
   Node objects are never revived: [deleteNode] clears [pid] and a later [addNode] with the same id
   allocates a fresh object.  We therefore name a node object by (id, generation); a reference
   [(i,g)] "resolves" iff [pids !! i] is a node of generation [g] (this is [n.pid.Load() != nil]
   for the object the pointer designates).  Everything the Go accessors can observe is a function
   of this state (see the [obs_*] functions, mirrored one by one from the Go accessors). *)
From stdpp Require Import gmap list.
From Coq Require Import ZArith.

Notation id := nat (only parsing).

Record node := Node {
  n_gen      : nat;                (* identity of the node object *)
  n_name     : nat;                (* cached pid.Name() *)
  n_parent   : option (id * nat);  (* parentNode pointer *)
  n_watchers : list id;            (* keys of watchers map *)
  n_watchees : list id;            (* keys of watchees map *)
  n_desc     : list (id * nat);    (* descendants map: child id -> node object *)
}.

Inductive rootst := RootFresh | RootSet (i : id) | RootDead.

Record tree := Tree {
  t_pids  : gmap id node;
  t_names : gmap nat (id * nat);
  t_next  : nat;        (* allocation counter (ghost: Go allocates objects) *)
  t_count : Z;          (* tree.counter *)
  t_root  : rootst;     (* what tree.rootNode currently is *)
}.

Definition empty_tree : tree := Tree ∅ ∅ 0 0 RootFresh.

(* ---- small set/map-on-list helpers (Go maps keyed by id) *)
Definition ladd (x : id) (l : list id) : list id := if decide (x ∈ l) then l else l ++ [x].
Definition ldel (x : id) (l : list id) : list id := filter (λ y, y ≠ x) l.
Definition ddel (c : id) (l : list (id * nat)) : list (id * nat) := filter (λ e, e.1 ≠ c) l.
Definition dset (c : id) (g : nat) (l : list (id * nat)) : list (id * nat) := ddel c l ++ [(c, g)].

Definition with_watchers (f : list id → list id) (n : node) : node :=
  Node (n_gen n) (n_name n) (n_parent n) (f (n_watchers n)) (n_watchees n) (n_desc n).
Definition with_watchees (f : list id → list id) (n : node) : node :=
  Node (n_gen n) (n_name n) (n_parent n) (n_watchers n) (f (n_watchees n)) (n_desc n).
Definition with_desc (f : list (id * nat) → list (id * nat)) (n : node) : node :=
  Node (n_gen n) (n_name n) (n_parent n) (n_watchers n) (n_watchees n) (f (n_desc n)).
Definition with_parent (p : option (id * nat)) (n : node) : node :=
  Node (n_gen n) (n_name n) p (n_watchers n) (n_watchees n) (n_desc n).

(* a node reference resolves: the object is still registered (its pid is non-nil) *)
Definition live_in (m : gmap id node) (r : id * nat) : bool :=
  match m !! r.1 with Some n => bool_decide (n_gen n = r.2) | None => false end.
Definition live (t : tree) (r : id * nat) : bool := live_in (t_pids t) r.

Definition children_in (m : gmap id node) (i : id) : list id :=
  match m !! i with
  | Some n => (filter (λ r, live_in m r = true) (n_desc n)).*1
  | None => []
  end.

(* the nodes deleteNode collects in [post] (pre-order, through live nodes only) *)
Fixpoint subtree_in (fuel : nat) (m : gmap id node) (i : id) : list id :=
  match fuel with
  | O => [i]
  | S f => i :: flat_map (subtree_in f m) (children_in m i)
  end.

Inductive res := ROk | RErrExists | RErrNoParent | RErrNoChild | RUnsupported.

(* ---- operations *)

Definition add_root (t : tree) (i : id) (nm : nat) : tree * res :=
  match t_root t with
  | RootFresh =>
    match t_pids t !! i with
    | Some _ => (t, RErrExists)
    | None =>
      let n := Node (t_next t) nm None [] [] [] in
      (Tree (<[i := n]> (t_pids t)) (<[nm := (i, t_next t)]> (t_names t)) (S (t_next t)) (t_count t + 1) (RootSet i), ROk)
    end
  | _ => (t, RUnsupported)   (* Go would reuse a node object whose maps were set to nil: not driven *)
  end.

Definition add_node (t : tree) (p c : id) (nm : nat) : tree * res :=
  match t_pids t !! c with
  | Some _ => (t, RErrExists)
  | None =>
    match t_pids t !! p with
    | None => (t, RErrNoParent)
    | Some np =>
      let g := t_next t in
      let nc := Node g nm (Some (p, n_gen np)) [p] [] [] in
      let np' := with_watchees (ladd c) (with_desc (dset c g) np) in
      (Tree (<[c := nc]> (<[p := np']> (t_pids t))) (<[nm := (c, g)]> (t_names t)) (S g) (t_count t + 1) (t_root t), ROk)
    end
  end.

(* attachNodeLocked; [acyclic] guard: Go's deleteNode would not terminate on a cycle of live
   descendants, and no caller creates one (restartSubtree re-attaches under the same parent). *)
Definition attach_node (t : tree) (p c : id) : tree * res :=
  match t_pids t !! p with
  | None => (t, RErrNoParent)
  | Some np =>
    match t_pids t !! c with
    | None => (t, RErrNoChild)
    | Some nc =>
      if decide (p ∈ subtree_in (size (t_pids t)) (t_pids t) c) then (t, RUnsupported) else
      let nc' := with_watchers (ladd p) (with_parent (Some (p, n_gen np)) nc) in
      let np' := with_watchees (ladd c) (with_desc (dset c (n_gen nc)) np) in
      (Tree (<[p := np']> (<[c := nc']> (t_pids t))) (t_names t) (t_next t) (t_count t) (t_root t), ROk)
    end
  end.

Definition add_or_attach (t : tree) (p c : id) (nm : nat) : tree * res :=
  match t_pids t !! c with
  | Some _ => attach_node t p c
  | None => add_node t p c nm
  end.

Definition remove_watcher (t : tree) (watchee watcher : id) : tree :=
  let m1 := alter (with_watchees (ldel watchee)) watcher (t_pids t) in
  let m2 := alter (with_watchers (ldel watcher)) watchee m1 in
  Tree m2 (t_names t) (t_next t) (t_count t) (t_root t).

Definition remove_descendant (t : tree) (p c : id) : tree :=
  Tree (alter (with_desc (ddel c)) p (t_pids t)) (t_names t) (t_next t) (t_count t) (t_root t).

Definition add_watcher (t : tree) (a w : id) : tree :=
  match t_pids t !! a, t_pids t !! w with
  | Some _, Some _ =>
    let m1 := alter (with_watchers (ladd w)) a (t_pids t) in
    let m2 := alter (with_watchees (ladd a)) w m1 in
    Tree m2 (t_names t) (t_next t) (t_count t) (t_root t)
  | _, _ => t
  end.

(* the body of deleteNode's second loop for one collected node *)
Definition delete_one (t : tree) (i : id) : tree :=
  match t_pids t !! i with
  | None => t
  | Some n =>
    let m1 := foldr (λ w m, alter (with_watchees (ldel i)) w m) (t_pids t) (n_watchers n) in
    let m2 := foldr (λ e m, alter (with_watchers (ldel i)) e m) m1 (n_watchees n) in
    let m3 := match n_parent n with
              | Some (p, g) =>
                if live_in m2 (p, g) then alter (λ np, with_watchees (ldel i) (with_desc (ddel i) np)) p m2 else m2
              | None => m2
              end in
    let m4 := delete i m3 in
    let nm := match t_names t !! n_name n with
              | Some (i', g') => if decide (i' = i ∧ g' = n_gen n) then delete (n_name n) (t_names t) else t_names t
              | None => t_names t
              end in
    let r := match t_root t with RootSet r => if decide (r = i) then RootDead else RootSet r | x => x end in
    Tree m4 nm (t_next t) (t_count t - 1) r
  end.

Definition delete_node (t : tree) (i : id) : tree :=
  match t_pids t !! i with
  | None => t
  | Some _ => foldl delete_one t (rev (subtree_in (size (t_pids t)) (t_pids t) i))
  end.

Definition reset_tree (t : tree) : tree := Tree ∅ ∅ (t_next t) 0 RootFresh.

Inductive op :=
| OAddRoot (i : id) (nm : nat)
| OAddNode (p c : id) (nm : nat)
| OAddOrAttach (p c : id) (nm : nat)
| ORemoveWatcher (watchee watcher : id)
| ORemoveDescendant (p c : id)
| OAddWatcher (a w : id)
| ODelete (i : id)
| OReset.

Definition step (t : tree) (o : op) : tree * res :=
  match o with
  | OAddRoot i nm => add_root t i nm
  | OAddNode p c nm => add_node t p c nm
  | OAddOrAttach p c nm => add_or_attach t p c nm
  | ORemoveWatcher a w => (remove_watcher t a w, ROk)
  | ORemoveDescendant p c => (remove_descendant t p c, ROk)
  | OAddWatcher a w => (add_watcher t a w, ROk)
  | ODelete i => (delete_node t i, ROk)
  | OReset => (reset_tree t, ROk)
  end.

Definition run (ops : list op) (t : tree) : tree := foldl (λ t o, (step t o).1) t ops.

(* ---- observations: one function per Go accessor *)
Definition obs_registered (t : tree) (i : id) : bool := bool_decide (is_Some (t_pids t !! i)).
Definition obs_count (t : tree) : Z := t_count t.
Definition obs_parent (t : tree) (i : id) : option id :=
  n ← t_pids t !! i; r ← n_parent n; if live t r then Some r.1 else None.
Definition obs_children (t : tree) (i : id) : list id := children_in (t_pids t) i.
Definition obs_descendants (t : tree) (i : id) : list id :=
  match t_pids t !! i with
  | Some _ => flat_map (subtree_in (size (t_pids t)) (t_pids t)) (children_in (t_pids t) i)
  | None => []
  end.
Definition obs_watchers (t : tree) (i : id) : list id :=
  match t_pids t !! i with Some n => n_watchers n | None => [] end.
Definition obs_watchees (t : tree) (i : id) : list id :=
  match t_pids t !! i with Some n => n_watchees n | None => [] end.
Definition obs_siblings (t : tree) (i : id) : list id :=
  match t_pids t !! i with
  | Some n =>
    match n_parent n with
    | Some r =>
      if live t r then
        match t_pids t !! r.1 with
        | Some np => if decide (length (n_desc np) ≤ 1) then [] else filter (λ c, c ≠ i) (children_in (t_pids t) r.1)
        | None => []
        end
      else []
    | None => []
    end
  | None => []
  end.
Definition obs_by_name (t : tree) (nm : nat) : option id :=
  r ← t_names t !! nm; if live t r then Some r.1 else None.
Definition obs_root (t : tree) : option id :=
  match t_root t with RootSet r => Some r | _ => None end.

(* ---- canonical comparison used by the tie (cases.v): sorted lists of nat *)
Fixpoint insert_sorted (x : nat) (l : list nat) : list nat :=
  match l with
  | [] => [x]
  | y :: l' => if Nat.leb x y then x :: l else y :: insert_sorted x l'
  end.
Definition sort_nat (l : list nat) : list nat := foldr insert_sorted [] l.

Definition optnat (o : option id) : nat := match o with Some i => S i | None => 0 end.

(* observable state for ids 0..k-1 and names 0..k-1: count, root, then per id
   [registered; parent+1; children; descendants; watchers; watchees; siblings], then names *)
Definition obs_id (t : tree) (i : id) : list (list nat) :=
  [ [if obs_registered t i then 1 else 0; optnat (obs_parent t i)];
    sort_nat (obs_children t i); sort_nat (obs_descendants t i);
    sort_nat (obs_watchers t i); sort_nat (obs_watchees t i); sort_nat (obs_siblings t i) ].
Definition obs_all (k : nat) (t : tree) : list (list nat) :=
  [ [Z.to_nat (obs_count t); optnat (obs_root t)] ] ++ flat_map (obs_id t) (seq 0 k)
  ++ [ map (λ nm, optnat (obs_by_name t nm)) (seq 0 k) ].

Definition res_code (r : res) : nat :=
  match r with ROk => 0 | RErrExists => 1 | RErrNoParent => 2 | RErrNoChild => 3 | RUnsupported => 9 end.

(* run a case, returning after every op (result code, observation) *)
Fixpoint run_obs (k : nat) (t : tree) (ops : list op) : list (nat * list (list nat)) :=
  match ops with
  | [] => []
  | o :: ops' => let '(t', r) := step t o in (res_code r, obs_all k t') :: run_obs k t' ops'
  end.

(* ---- comparison helpers for the tie: the implementation's observation after every op is
   compared through a 61-bit polynomial digest (keeps cases.v small); on a mismatch the check
   asks for the model's full observation of that step. *)
Definition hmod : N := 2305843009213693951%N.
Definition hstep (h : N) (x : nat) : N := ((h * 1000003 + N.of_nat x + 1) mod hmod)%N.
Definition hash_list (h : N) (l : list nat) : N := foldl hstep (hstep h (length l)) l.
Definition hash_obs (r : nat) (o : list (list nat)) : N :=
  foldl hash_list (hstep (hstep 7%N r) (length o)) o.
Fixpoint run_hash (k : nat) (t : tree) (ops : list op) : list N :=
  match ops with
  | [] => []
  | o :: ops' => let '(t', r) := step t o in hash_obs (res_code r) (obs_all k t') :: run_hash k t' ops'
  end.
Fixpoint first_diff (i : nat) (xs ys : list N) : option nat :=
  match xs, ys with
  | [], [] => None
  | x :: xs', y :: ys' => if N.eqb x y then first_diff (S i) xs' ys' else Some i
  | _, _ => Some i
  end.
(* a case: universe size, ops, digest of what the implementation showed after every op *)
Definition case_diff (c : nat * list op * list N) : option nat :=
  let '(k, ops, expected) := c in first_diff 0 (run_hash k empty_tree ops) expected.
