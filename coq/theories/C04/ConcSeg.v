(* C04/ConcSeg.v — UnboundedSegmentedMailbox at atomic-step granularity WITH the global segment pool
   (segmentPool is shared by every segmented mailbox of the process).

   producer Enqueue(m) on mailbox b            consumer Dequeue on mailbox b (one step; it is the only
     L  tail := b.tail.Load()                   reader of deqIdx/head and recycles drained segments:
     F  idx := tail.writeIdx.Add(1) - 1           head := next; seg.next := nil; segmentPool.Put(seg))
     idx < K :  S  tail.data[idx].Store(m)
                C  b.length++ ; return          NewMailbox: newSegment() = segmentPool.Get() (a pooled
     idx >= K:  N  next := tail.next.Load()       segment if there is one) reset to empty
                G  newSegment()   (next = nil)
                X  tail.next.CAS(nil, new) ; T  b.tail.CAS(tail, new | next) ; retry from L

   [aba_schedule] is the schedule found on the real code (checks/C04.py scenario
   segmented/stale-tail-pooled-segment) with segment size K = 2: a message accepted by mailbox 0 is
   delivered by mailbox 1. *)
From Coq Require Import ZArith List Bool Arith Lia.
Import ListNotations.
From GV Require Import C04.Model.
Open Scope nat_scope.

Record sseg := mkSS { ssw : nat; ssd : nat; ssdata : list (option msg); ssnext : option nat }.
Record sbx := mkSB { sbhead : nat; sbtail : nat; sblen : Z }.

Inductive spc :=
| SIdle
| SLoaded (b : nat) (m : msg) (t : nat)             (* after L *)
| SReserved (b : nat) (m : msg) (t : nat) (i : nat) (* after F, idx < K *)
| SStored (b : nat) (m : msg)                       (* after S *)
| SFull (b : nat) (m : msg) (t : nat)               (* after F, idx >= K *)
| SNoNext (b : nat) (m : msg) (t : nat)             (* after N, next = nil *)
| SGot (b : nat) (m : msg) (t : nat) (n : nat)      (* after G *)
| SLinked (b : nat) (m : msg) (t : nat) (n : nat).  (* after a successful X, or N with next = n *)

Inductive sop := SEnq (b : nat) (m : msg) | SDeq (b : nat) | SNew (b : nat).

Record sst := mkSS_ {
  sheap : list sseg;               (* segments by address *)
  spool : list nat;                (* segmentPool: free segment addresses *)
  sboxes : list sbx;               (* mailboxes by index *)
  sthreads : list (spc * list sop);
  sdeliv : list (nat * Z)          (* (mailbox index, message id) returned by Dequeue, in order *)
}.

Section K.
  Variable K : nat.

  Definition fresh : sseg := mkSS 0 0 (repeat None K) None.

  Definition seg_at (s : sst) (a : nat) : sseg := nth a (sheap s) fresh.
  Definition box_at (s : sst) (b : nat) : sbx := nth b (sboxes s) (mkSB 0 0 0%Z).

  (* newSegment: pool hit re-issues a pooled segment, reset in place *)
  Definition new_segment (s : sst) : list sseg * list nat * nat :=
    match spool s with
    | a :: rest => (upd (sheap s) a fresh, rest, a)
    | [] => (sheap s ++ [fresh], [], length (sheap s))
    end.

  Definition set_thread (s : sst) (i : nat) (t : spc * list sop) := upd (sthreads s) i t.

  Fixpoint deq_loop (fuel : nat) (heap : list sseg) (pool : list nat) (seg : nat)
    : list sseg * list nat * nat * option msg :=
    match fuel with
    | O => (heap, pool, seg, None)
    | S f =>
        let sg := nth seg heap fresh in
        if ssd sg <? Nat.min (ssw sg) K then
          match nth (ssd sg) (ssdata sg) None with
          | None => (heap, pool, seg, None)
          | Some m => (upd heap seg (mkSS (ssw sg) (S (ssd sg)) (upd (ssdata sg) (ssd sg) None) (ssnext sg)), pool, seg, Some m)
          end
        else match ssnext sg with
             | None => (heap, pool, seg, None)
             | Some nx => deq_loop f (upd heap seg (mkSS (ssw sg) (ssd sg) (ssdata sg) None)) (seg :: pool) nx
             end
    end.

  Definition sstep (s : sst) (i : nat) : sst :=
    match nth_error (sthreads s) i with
    | None => s
    | Some (pc, ops) =>
        match pc with
        | SIdle =>
            match ops with
            | [] => s
            | SEnq b m :: r =>
                mkSS_ (sheap s) (spool s) (sboxes s) (set_thread s i (SLoaded b m (sbtail (box_at s b)), r)) (sdeliv s)
            | SDeq b :: r =>
                let bx := box_at s b in
                let '(heap, pool, hd, res) := deq_loop (S (length (sheap s))) (sheap s) (spool s) (sbhead bx) in
                mkSS_ heap pool
                      (upd (sboxes s) b (mkSB hd (sbtail bx) (match res with Some _ => (sblen bx - 1)%Z | None => sblen bx end)))
                      (set_thread s i (SIdle, r))
                      (match res with Some m => sdeliv s ++ [(b, mid m)] | None => sdeliv s end)
            | SNew b :: r =>
                let '(heap, pool, a) := new_segment s in
                mkSS_ heap pool (upd (sboxes s ++ [mkSB 0 0 0%Z]) b (mkSB a a 0%Z)) (set_thread s i (SIdle, r)) (sdeliv s)
            end
        | SLoaded b m t =>
            let sg := seg_at s t in
            let idx := ssw sg in
            mkSS_ (upd (sheap s) t (mkSS (S idx) (ssd sg) (ssdata sg) (ssnext sg))) (spool s) (sboxes s)
                  (set_thread s i (if idx <? K then (SReserved b m t idx, ops) else (SFull b m t, ops))) (sdeliv s)
        | SReserved b m t idx =>
            let sg := seg_at s t in
            mkSS_ (upd (sheap s) t (mkSS (ssw sg) (ssd sg) (upd (ssdata sg) idx (Some m)) (ssnext sg))) (spool s) (sboxes s)
                  (set_thread s i (SStored b m, ops)) (sdeliv s)
        | SStored b m =>
            let bx := box_at s b in
            mkSS_ (sheap s) (spool s) (upd (sboxes s) b (mkSB (sbhead bx) (sbtail bx) (sblen bx + 1)%Z))
                  (set_thread s i (SIdle, ops)) (sdeliv s)
        | SFull b m t =>
            match ssnext (seg_at s t) with
            | None => mkSS_ (sheap s) (spool s) (sboxes s) (set_thread s i (SNoNext b m t, ops)) (sdeliv s)
            | Some n => mkSS_ (sheap s) (spool s) (sboxes s) (set_thread s i (SLinked b m t n, ops)) (sdeliv s)
            end
        | SNoNext b m t =>
            let '(heap, pool, a) := new_segment s in
            mkSS_ heap pool (sboxes s) (set_thread s i (SGot b m t a, ops)) (sdeliv s)
        | SGot b m t n =>
            let sg := seg_at s t in
            match ssnext sg with
            | None => mkSS_ (upd (sheap s) t (mkSS (ssw sg) (ssd sg) (ssdata sg) (Some n))) (spool s) (sboxes s)
                            (set_thread s i (SLinked b m t n, ops)) (sdeliv s)
            | Some _ => mkSS_ (sheap s) (spool s) (sboxes s) (set_thread s i (SIdle, SEnq b m :: ops)) (sdeliv s)
            end
        | SLinked b m t n =>
            let bx := box_at s b in
            mkSS_ (sheap s) (spool s)
                  (if sbtail bx =? t then upd (sboxes s) b (mkSB (sbhead bx) n (sblen bx)) else sboxes s)
                  (set_thread s i (SIdle, SEnq b m :: ops)) (sdeliv s)
        end
    end.

  Definition srun (sched : list nat) (s : sst) : sst := fold_left sstep sched s.

  Definition sinit (progs : list (list sop)) : sst :=
    mkSS_ [fresh] [] [mkSB 0 0 0%Z] (map (fun p => (SIdle, p)) progs) [].
End K.

(* segment size 2: mailbox 0 holds x1, x2 (first segment full). *)
Definition mx1 := mkMsg 101 0 0.
Definition mx2 := mkMsg 102 0 0.
Definition ma := mkMsg 1 1 0.
Definition mb := mkMsg 2 2 0.
Definition mc := mkMsg 3 3 0.

Definition aba_programs : list (list sop) :=
  [ [SEnq 0 mx1; SEnq 0 mx2];                  (* thread 0: prefill *)
    [SEnq 0 ma];                                (* thread 1: the producer that will hold a stale tail *)
    [SEnq 0 mb];                                (* thread 2 *)
    [SDeq 0; SDeq 0; SDeq 0];                   (* thread 3: consumer of mailbox 0 *)
    [SNew 1; SEnq 1 mc; SDeq 1; SDeq 1; SDeq 1] (* thread 4: a second mailbox, its producer and consumer *)
  ].

Definition aba_schedule : list nat :=
  [0;0;0;0; 0;0;0;0]            (* prefill: two complete enqueues fill segment #0 *)
  ++ [1]                        (* thread 1: L — holds tail = segment #0 *)
  ++ [2;2;2;2;2;2; 2;2;2;2]     (* thread 2: finds #0 full, links segment #1, stores mb there *)
  ++ [3;3;3]                    (* consumer: x1, x2, then recycles #0 into the pool and returns mb *)
  ++ [4]                        (* NewMailbox 1: newSegment() re-issues #0 *)
  ++ [1;1;1]                    (* thread 1: writeIdx.Add on #0 -> idx 0 < K: stores ma INTO MAILBOX 1; length++ on mailbox 0 *)
  ++ [4;4;4;4; 4;4;4].          (* mailbox 1: enqueue mc, then three Dequeues *)

Definition aba_final : sst := srun 2 aba_schedule (sinit 2 aba_programs).

(* ma was accepted by mailbox 0 (its Enqueue returned nil: thread 1 is idle with an empty program),
   mailbox 0 never delivers it, mailbox 1 does; mailbox 0 keeps Len = 1 forever. *)
Theorem segmented_pool_aba :
  sdeliv aba_final = [(0, 101%Z); (0, 102%Z); (0, 2%Z); (1, 1%Z); (1, 3%Z)] /\
  nth_error (sthreads aba_final) 1 = Some (SIdle, []) /\
  sblen (box_at aba_final 0) = 1%Z /\
  In (1, mid ma) (sdeliv aba_final) /\ ~ In (0, mid ma) (sdeliv aba_final).
Proof.
  vm_compute. repeat split; auto.
  intros H. repeat (destruct H as [H|H]; [discriminate|]). exact H.
Qed.

(* the same programs without the preemption of thread 1: everything is delivered by its own mailbox *)
Example segmented_without_preemption :
  sdeliv (srun 2 ([0;0;0;0; 0;0;0;0] ++ [1;1;1;1;1;1; 1;1;1;1] ++ [2;2;2;2] ++ [3;3;3] ++ [4; 4;4;4;4; 4;4;4])
               (sinit 2 aba_programs))
  = [(0, 101%Z); (0, 102%Z); (0, 1%Z); (1, 3%Z)].
Proof. vm_compute. reflexivity. Qed.
