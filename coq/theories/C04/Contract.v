(* C04/Contract.v — the per-mailbox VISIBILITY CONTRACT exported to the dispatch model (C01/C02/C05).

   A mailbox is seen by the dispatch protocol through four kinds of atomic steps:

     producer   reserve m   the linearisation point of Enqueue (tail swap of the Vyukov list, slot
                            FAA of the segmented mailbox, ticket CAS of the ring, counter admission
                            of the bounded priority mailboxes).  May be refused (ErrMailboxFull).
     producer   publish m   the store that completes the Enqueue (link / slot store / seq store /
                            Treiber push).  Enqueue returns after it; only then does the producer
                            go on to TrySchedule.
     consumer   deq         one Dequeue call: Some m or None
     consumer   isEmpty     one IsEmpty call

   Ghost view [m_held]: the accepted, not yet dequeued messages in reservation order, each with a
   flag "its Enqueue has completed".

   What the dispatch model may rely on (record [visibility_contract], proved per mailbox in
   C04/Conc*.v and re-exported in Properties/C04.v):

     - ghost exactness: reserve appends (m,false) / is refused without effect, publish flips the
       flag of m, deq Some m removes a COMPLETED entry, deq None / isEmpty change nothing;
     - vc_deq_none / vc_isEmpty_true ("emptiness contract"): the mailbox reports empty only if
       nothing is held OR some reserved enqueue has not completed yet — so a producer that is
       still going to call TrySchedule exists;
     - vc_progress: when every held enqueue has completed and something is held, deq returns a
       message and isEmpty is false.

   The literal statement "never reports empty while a COMPLETED enqueue is outstanding" is false for
   the reservation-style queues (a producer stalled between reserve and publish hides later
   completed enqueues): see [rq_hidden_completed].  The contract above is the strongest true form
   and is what the no-lost-wakeup argument needs.

   [rq cap] (reservation queue) is the reference instance: UnboundedMailbox, the segmented mailbox
   (under its no-segment-reuse guard), the Vyukov ring and the Workiva ring are proved to behave as
   [rq]; so the dispatch model can simply instantiate its mailbox with [rq None] / [rq (Some c)].
   The UnboundedFairMailbox of the current tree does NOT satisfy vc_progress (permanent stall, see
   C04/ConcFair.v); the repaired version does.                                                    *)
From Coq Require Import List Bool Arith Lia.
Import ListNotations.

Set Implicit Arguments.

Section Contract.
  Variable Msg : Type.
  Variable Msg_eq_dec : forall a b : Msg, {a = b} + {a <> b}.

  Record mbox := {
    mst : Type;
    m_init : mst;
    m_reserve : mst -> Msg -> option mst;      (* None: refused (full) *)
    m_publish : mst -> Msg -> mst;
    m_deq : mst -> option Msg * mst;
    m_isEmpty : mst -> bool;
    m_held : mst -> list (Msg * bool)          (* ghost: reservation order, completed flag *)
  }.

  Inductive mlabel :=
  | LReserve (m : Msg) (ok : bool)
  | LPublish (m : Msg)
  | LDeq (r : option Msg)
  | LIsEmpty (b : bool).

  (* flip the completed flag of the (unique) entry for m *)
  Fixpoint complete (m : Msg) (l : list (Msg * bool)) : list (Msg * bool) :=
    match l with
    | [] => []
    | (x, c) :: r => if Msg_eq_dec x m then (x, true) :: r else (x, c) :: complete m r
    end.

  Fixpoint drop_msg (m : Msg) (l : list (Msg * bool)) : list (Msg * bool) :=
    match l with
    | [] => []
    | (x, c) :: r => if Msg_eq_dec x m then r else (x, c) :: drop_msg m r
    end.

  Definition all_complete (l : list (Msg * bool)) : bool := forallb snd l.

  Section Steps.
    Variable M : mbox.

    (* Well-formed use: a message is reserved only while it is not held (messages carry unique
       identities: (sender, seq)); publish only by the producer that reserved. *)
    Inductive mstep : mst M -> mlabel -> mst M -> Prop :=
    | st_reserve_ok s m s' :
        ~ In m (map fst (m_held M s)) -> m_reserve M s m = Some s' -> mstep s (LReserve m true) s'
    | st_reserve_full s m :
        ~ In m (map fst (m_held M s)) -> m_reserve M s m = None -> mstep s (LReserve m false) s
    | st_publish s m :
        In (m, false) (m_held M s) -> mstep s (LPublish m) (m_publish M s m)
    | st_deq s :
        mstep s (LDeq (fst (m_deq M s))) (snd (m_deq M s))
    | st_isEmpty s :
        mstep s (LIsEmpty (m_isEmpty M s)) s.

    Inductive mreach : mst M -> Prop :=
    | mr_init : mreach (m_init M)
    | mr_step s l s' : mreach s -> mstep s l s' -> mreach s'.

    Record visibility_contract := {
      vc_init : m_held M (m_init M) = [];
      vc_nodup : forall s, mreach s -> NoDup (map fst (m_held M s));
      vc_reserve_ok : forall s m s', mreach s -> ~ In m (map fst (m_held M s)) ->
          m_reserve M s m = Some s' -> m_held M s' = m_held M s ++ [(m, false)];
      vc_publish : forall s m, mreach s -> In (m, false) (m_held M s) ->
          m_held M (m_publish M s m) = complete m (m_held M s);
      vc_deq_some : forall s m, mreach s -> fst (m_deq M s) = Some m ->
          In (m, true) (m_held M s) /\ m_held M (snd (m_deq M s)) = drop_msg m (m_held M s);
      vc_deq_none : forall s, mreach s -> fst (m_deq M s) = None ->
          m_held M (snd (m_deq M s)) = m_held M s /\
          (m_held M s = [] \/ exists m, In (m, false) (m_held M s));
      vc_isEmpty_true : forall s, mreach s -> m_isEmpty M s = true ->
          m_held M s = [] \/ exists m, In (m, false) (m_held M s);
      vc_progress : forall s, mreach s -> m_held M s <> [] -> all_complete (m_held M s) = true ->
          m_isEmpty M s = false /\ exists m, fst (m_deq M s) = Some m
    }.

    (* FIFO mailboxes additionally: *)
    Record fifo_contract := {
      fc_deq_head : forall s m, mreach s -> fst (m_deq M s) = Some m ->
          exists r, m_held M s = (m, true) :: r;
      fc_deq_none_head : forall s, mreach s -> fst (m_deq M s) = None ->
          m_held M s = [] \/ exists m r, m_held M s = (m, false) :: r
    }.

    (* Bounded mailboxes additionally (cap = effective capacity): *)
    Record bounded_contract (cap : nat) := {
      bc_capacity : forall s, mreach s -> length (m_held M s) <= cap;
      bc_reject_full : forall s m, mreach s -> m_reserve M s m = None -> length (m_held M s) = cap
    }.
  End Steps.

  (* ------------------------------------------------------------------------------------------
     The reference instance: reservation queue, optional capacity. *)
  Definition rq_state := list (Msg * bool).

  Definition rq_reserve (cap : option nat) (s : rq_state) (m : Msg) : option rq_state :=
    match cap with
    | Some c => if length s <? c then Some (s ++ [(m, false)]) else None
    | None => Some (s ++ [(m, false)])
    end.

  Definition rq_deq (s : rq_state) : option Msg * rq_state :=
    match s with
    | (m, true) :: r => (Some m, r)
    | _ => (None, s)
    end.

  (* IsEmpty of the Vyukov list looks at the same link Dequeue looks at. *)
  Definition rq_isEmpty (s : rq_state) : bool :=
    match s with
    | (_, true) :: _ => false
    | _ => true
    end.

  Definition rq (cap : option nat) : mbox :=
    {| mst := rq_state; m_init := []; m_reserve := rq_reserve cap; m_publish := fun s m => complete m s;
       m_deq := rq_deq; m_isEmpty := rq_isEmpty; m_held := fun s => s |}.

  Lemma complete_fst m l : map fst (complete m l) = map fst l.
  Proof.
    induction l as [|[x c] r IH]; simpl; [reflexivity|].
    destruct (Msg_eq_dec x m); simpl; [reflexivity | now rewrite IH].
  Qed.

  Lemma drop_msg_incl m l x : In x (map fst (drop_msg m l)) -> In x (map fst l).
  Proof.
    induction l as [|[y c] r IH]; simpl; [tauto|].
    destruct (Msg_eq_dec y m); simpl; [tauto|]. intros [H|H]; [now left | right; auto].
  Qed.

  Lemma drop_msg_nodup m l : NoDup (map fst l) -> NoDup (map fst (drop_msg m l)).
  Proof.
    induction l as [|[y c] r IH]; simpl; intros H; [constructor|].
    inversion H; subst. destruct (Msg_eq_dec y m); simpl; [assumption|].
    constructor; [|auto]. intros Hin. apply drop_msg_incl in Hin. contradiction.
  Qed.

  Lemma NoDup_snoc (A : Type) (l : list A) (x : A) : NoDup l -> ~ In x l -> NoDup (l ++ [x]).
  Proof.
    induction l as [|y r IH]; simpl; intros Hnd Hx; [constructor; [tauto|constructor]|].
    inversion Hnd; subst. constructor.
    - rewrite in_app_iff; simpl. intros [H|[H|[]]]; [contradiction | subst; tauto].
    - apply IH; tauto.
  Qed.

  Lemma rq_nodup cap s : mreach (rq cap) s -> NoDup (map fst s).
  Proof.
    induction 1 as [|s l s' Hr IH Hs]; [constructor|].
    inversion Hs; subst; simpl in *; try assumption.
    - assert (s' = s ++ [(m, false)]) as ->.
      { unfold rq_reserve in *. destruct cap as [c|]; [destruct (length s <? c)|]; congruence. }
      rewrite map_app; simpl. apply NoDup_snoc; assumption.
    - rewrite complete_fst. assumption.
    - destruct s as [|[m [|]] r]; simpl; try assumption. inversion IH; assumption.
  Qed.

  Lemma all_complete_no_false l m : all_complete l = true -> ~ In (m, false) l.
  Proof.
    unfold all_complete. rewrite forallb_forall. intros H Hin. specialize (H _ Hin). discriminate.
  Qed.

  Lemma rq_contract cap : visibility_contract (rq cap).
  Proof.
    constructor; simpl.
    - reflexivity.
    - apply rq_nodup.
    - intros s m s' _ _ H. unfold rq_reserve in H.
      destruct cap as [c|]; [destruct (length s <? c)|]; congruence.
    - reflexivity.
    - intros s m _ H. destruct s as [|[x [|]] r]; simpl in *; try discriminate.
      inversion H; subst. split; [now left|]. destruct (Msg_eq_dec m m); [reflexivity|congruence].
    - intros s _ H. split.
      + destruct s as [|[x [|]] r]; simpl in *; try reflexivity. discriminate.
      + destruct s as [|[x [|]] r]; simpl in *; [now left | discriminate | right; exists x; now left].
    - intros s _ H. destruct s as [|[x [|]] r]; simpl in *; [now left | discriminate | right; exists x; now left].
    - intros s _ Hne Hall. destruct s as [|[x c] r]; [congruence|].
      simpl in Hall. destruct c; simpl in *; [|discriminate]. split; [reflexivity | now exists x].
  Qed.

  Lemma rq_fifo cap : fifo_contract (rq cap).
  Proof.
    constructor; simpl.
    - intros s m _ H. destruct s as [|[x [|]] r]; simpl in *; try discriminate.
      inversion H; subst. now exists r.
    - intros s _ H. destruct s as [|[x [|]] r]; simpl in *; [now left | discriminate | right; now exists x, r].
  Qed.

  Lemma complete_length m l : length (complete m l) = length l.
  Proof.
    induction l as [|[x b] r IHr]; simpl; [reflexivity|]. destruct (Msg_eq_dec x m); simpl; congruence.
  Qed.

  Lemma rq_len_le c s : mreach (rq (Some c)) s -> length s <= c.
  Proof.
    induction 1 as [|s l s' Hr IH Hs]; simpl; [lia|].
    inversion Hs; subst; simpl in *; try assumption.
    - unfold rq_reserve in *. destruct (Nat.ltb_spec (length s) c); [|discriminate].
      match goal with H : Some _ = Some _ |- _ => inversion H; subst end.
      rewrite app_length; simpl; lia.
    - rewrite complete_length. assumption.
    - destruct s as [|[x [|]] r]; simpl in *; lia.
  Qed.

  Lemma rq_bounded c : bounded_contract (rq (Some c)) c.
  Proof.
    constructor; simpl.
    - apply rq_len_le.
    - intros s m Hr H. pose proof (rq_len_le Hr). unfold rq_reserve in H.
      destruct (Nat.ltb_spec (length s) c); [discriminate | lia].
  Qed.

  (* The literal "never reports empty while a completed enqueue is outstanding" fails: *)
  Lemma rq_hidden_completed (a b : Msg) : a <> b ->
    exists s, mreach (rq None) s /\ In (b, true) s /\ rq_isEmpty s = true /\ fst (rq_deq s) = None.
  Proof.
    intros Hab. exists [(a, false); (b, true)].
    split; [|simpl; auto].
    assert (R1 : mreach (rq None) [(a, false)]).
    { eapply mr_step with (s := []) (l := LReserve a true); [constructor|].
      apply st_reserve_ok; simpl; auto. }
    assert (R2 : mreach (rq None) [(a, false); (b, false)]).
    { eapply mr_step with (l := LReserve b true); [exact R1|].
      apply st_reserve_ok; simpl; [intros [H|[]]; congruence | reflexivity]. }
    eapply mr_step with (l := LPublish b); [exact R2|].
    replace [(a, false); (b, true)] with (m_publish (rq None) [(a, false); (b, false)] b).
    - apply st_publish. simpl; auto.
    - simpl. destruct (Msg_eq_dec a b); [congruence|]. destruct (Msg_eq_dec b b); [reflexivity|congruence].
  Qed.

  (* Consequences every client can use without unfolding an instance. *)
  Section Consequences.
    Variable M : mbox.
    Hypothesis VC : visibility_contract M.

    (* A message returned by deq was reserved and completed, and is no longer held afterwards. *)
    Lemma deq_some_not_held_after s m : mreach M s -> fst (m_deq M s) = Some m ->
      ~ In m (map fst (m_held M (snd (m_deq M s)))).
    Proof.
      intros Hr Hd. destruct (vc_deq_some VC Hr Hd) as [Hin Heq]. rewrite Heq.
      pose proof (vc_nodup VC Hr) as Hnd. clear - Hnd Hin Msg_eq_dec.
      induction (m_held M s) as [|[x c] r IH]; simpl in *; [tauto|].
      inversion Hnd; subst. destruct (Msg_eq_dec x m).
      - subst. assumption.
      - simpl. intros [H|H]; [congruence|]. destruct Hin as [Hin|Hin]; [congruence|]. now apply IH.
    Qed.

    (* The shape used by the wake-up argument: an empty report with every enqueue completed means
       nothing is held. *)
    Lemma empty_report_all_complete s : mreach M s ->
      (m_isEmpty M s = true \/ fst (m_deq M s) = None) ->
      all_complete (m_held M s) = true -> m_held M s = [].
    Proof.
      intros Hr [H|H] Hall.
      - destruct (vc_isEmpty_true VC Hr H) as [E|[m Hin]]; [exact E|].
        exfalso. exact (all_complete_no_false _ _ Hall Hin).
      - destruct (vc_deq_none VC Hr H) as [_ [E|[m Hin]]]; [exact E|].
        exfalso. exact (all_complete_no_false _ _ Hall Hin).
    Qed.
  End Consequences.
End Contract.
