(* C04/Ring.v — the Vyukov ring of NonBlockingBoundedMailbox (cells with sequence numbers, positions
   masked into the ring) refines a FIFO queue of capacity = ring size, for EVERY ring size 2^k (k >= 1)
   and every operation sequence: outputs, Len and IsEmpty after every operation. *)
From Coq Require Import ZArith List Bool Arith Lia.
Import ListNotations.
From GV Require Import C04.Model C04.Heap C04.Seq C04.Pow2.
Open Scope Z_scope.

Section Ring.
  Variable k : Z.
  Hypothesis Hk : 1 <= k.
  Let size := 2 ^ k.

  Lemma size_ge2 : 2 <= size.
  Proof.
    unfold size. replace 2 with (2 ^ 1) at 1 by reflexivity. apply Z.pow_le_mono_r; lia.
  Qed.

  Lemma land_mask p : 0 <= p -> Z.land p (size - 1) = p mod size.
  Proof.
    intros Hp. unfold size. replace (2 ^ k - 1) with (Z.ones k) by (rewrite Z.ones_equiv; lia).
    apply Z.land_ones. lia.
  Qed.

  Definition idx (p : Z) : nat := Z.to_nat (p mod size).

  Lemma idx_lt p : (idx p < Z.to_nat size)%nat.
  Proof.
    pose proof size_ge2. unfold idx. apply Z2Nat.inj_lt; [| lia |]; apply Z.mod_pos_bound; lia.
  Qed.

  Lemma idx_shift p : idx (p + size) = idx p.
  Proof.
    pose proof size_ge2. unfold idx. f_equal.
    replace (p + size) with (p + 1 * size) by lia. apply Z_mod_plus_full.
  Qed.

  Lemma idx_inj p1 p2 : p1 <= p2 < p1 + size -> idx p1 = idx p2 -> p1 = p2.
  Proof.
    pose proof size_ge2 as Hs. intros Hr He. unfold idx in He.
    apply Z2Nat.inj in He; try (apply Z.mod_pos_bound; lia).
    assert (Hd : (p2 - p1) mod size = 0).
    { rewrite Zminus_mod, He, Z.sub_diag. apply Z.mod_0_l. lia. }
    rewrite Z.mod_small in Hd by lia. lia.
  Qed.

  Definition dflt := mkCell (-1) None.
  Definition dmsg := mkMsg 0 0 0.

  (* model state s represents the FIFO content q *)
  Definition rinv (s : ringst) (q : list msg) : Prop :=
    rmask s = size - 1 /\ length (rcells s) = Z.to_nat size /\
    0 <= rdeq s <= renq s /\ renq s <= rdeq s + size /\ Z.of_nat (length q) = renq s - rdeq s /\
    (forall p, rdeq s <= p < renq s ->
       nth (idx p) (rcells s) dflt = mkCell (p + 1) (Some (nth (Z.to_nat (p - rdeq s)) q dmsg))) /\
    (forall p, renq s <= p < rdeq s + size -> nth (idx p) (rcells s) dflt = mkCell p None).

  Lemma nth_upd_same {A} (l : list A) i x d : (i < length l)%nat -> nth i (upd l i x) d = x.
  Proof.
    intros H. apply nth_error_nth. rewrite nth_error_upd. rewrite Nat.eqb_refl.
    apply Nat.ltb_lt in H. rewrite H. reflexivity.
  Qed.

  Lemma nth_upd_other {A} (l : list A) i j x d : i <> j -> nth j (upd l i x) d = nth j l d.
  Proof.
    intros H. revert i j H. induction l as [|y r IH]; intros i j H; [destruct i; reflexivity|].
    destruct i as [|i], j as [|j]; simpl; try reflexivity; try congruence. apply IH. congruence.
  Qed.

  Lemma cell_at_idx s p : rmask s = size - 1 -> 0 <= p -> cell_at s p = nth (idx p) (rcells s) dflt.
  Proof. intros Hm Hp. unfold cell_at, idx. rewrite Hm, land_mask by exact Hp. reflexivity. Qed.

  Lemma set_cell_idx s p c : rmask s = size - 1 -> 0 <= p -> set_cell s p c = upd (rcells s) (idx p) c.
  Proof. intros Hm Hp. unfold set_cell, idx. rewrite Hm, land_mask by exact Hp. reflexivity. Qed.

  Lemma rinv_put s q m : rinv s q ->
    snd (ring_put s m) = snd (menq (fifo_spec (Some size) false) (mkFifo q None) m) /\
    rinv (fst (ring_put s m)) (fq (fst (menq (fifo_spec (Some size) false) (mkFifo q None) m))).
  Proof.
    pose proof size_ge2 as Hs2.
    intros [Hm [Hl [Hd [He [Hq [Hfull Hfree]]]]]].
    unfold ring_put. rewrite (cell_at_idx s (renq s) Hm ltac:(lia)).
    cbn [menq fifo_spec fq fpend]. rewrite Hq.
    destruct (Z.ltb_spec (renq s - rdeq s) size) as [Hlt|Hge].
    - (* room: the cell at the enqueue position is free *)
      rewrite (Hfree (renq s) ltac:(lia)). cbn [cseq]. rewrite Z.sub_diag. cbn [Z.eqb fst snd].
      split; [reflexivity|]. cbn [fq].
      rewrite (set_cell_idx s (renq s) _ Hm ltac:(lia)).
      unfold rinv. cbn [rcells rmask renq rdeq rpend]. rewrite upd_length.
      repeat split; try assumption; try lia.
      + rewrite app_length. simpl. lia.
      + intros p Hpr. destruct (Z.eq_dec p (renq s)) as [->|Hne].
        * rewrite nth_upd_same by (rewrite Hl; apply idx_lt). f_equal. f_equal.
          rewrite app_nth2 by lia. replace (Z.to_nat (renq s - rdeq s) - length q)%nat with 0%nat by lia. reflexivity.
        * rewrite nth_upd_other.
          -- rewrite (Hfull p ltac:(lia)). f_equal. f_equal. rewrite app_nth1 by lia. reflexivity.
          -- intros E. apply Hne. apply (idx_inj p (renq s)); [lia | symmetry; exact E].
      + intros p Hpr. rewrite nth_upd_other; [apply Hfree; lia|].
        intros E. assert (renq s = p) by (apply idx_inj; [lia | exact E]). lia.
    - (* full: the cell still holds the message of position rdeq *)
      assert (Ee : renq s = rdeq s + size) by lia.
      rewrite Ee, idx_shift. rewrite (Hfull (rdeq s) ltac:(lia)). cbn [cseq].
      destruct (Z.eqb_spec (rdeq s + 1 - (rdeq s + size)) 0); [lia|]. cbn [fst snd].
      split; [reflexivity|]. unfold rinv. repeat split; try assumption; lia.
  Qed.

  Lemma rinv_get s q : rinv s q ->
    snd (ring_get s) = snd (mdeq (fifo_spec (Some size) false) (mkFifo q None)) /\
    rinv (fst (ring_get s)) (fq (fst (mdeq (fifo_spec (Some size) false) (mkFifo q None)))).
  Proof.
    pose proof size_ge2 as Hs2.
    intros [Hm [Hl [Hd [He [Hq [Hfull Hfree]]]]]].
    unfold ring_get. rewrite (cell_at_idx s (rdeq s) Hm ltac:(lia)).
    cbn [mdeq fifo_spec fq fpend].
    destruct q as [|x r].
    - (* empty *)
      simpl in Hq. assert (Ee : renq s = rdeq s) by lia.
      rewrite (Hfree (rdeq s) ltac:(lia)). cbn [cseq].
      destruct (Z.eqb_spec (rdeq s - (rdeq s + 1)) 0); [lia|]. cbn [fst snd].
      split; [reflexivity|]. unfold rinv. repeat split; try assumption; simpl; lia.
    - assert (Hlt : rdeq s < renq s) by (simpl in Hq; lia).
      rewrite (Hfull (rdeq s) ltac:(lia)). cbn [cseq cctx]. rewrite Z.sub_diag. cbn [Z.eqb fst snd].
      replace (Z.to_nat (rdeq s - rdeq s)) with 0%nat by lia. cbn [nth].
      split; [reflexivity|]. cbn [fq].
      rewrite (set_cell_idx s (rdeq s) _ Hm ltac:(lia)).
      unfold rinv. cbn [rcells rmask renq rdeq rpend]. rewrite upd_length.
      repeat split; try assumption; try lia.
      + simpl in Hq. lia.
      + intros p Hpr. rewrite nth_upd_other.
        * rewrite (Hfull p ltac:(lia)). f_equal. f_equal.
          replace (Z.to_nat (p - rdeq s)) with (S (Z.to_nat (p - (rdeq s + 1)))) by lia. reflexivity.
        * intros E. assert (rdeq s = p) by (apply idx_inj; [lia | exact E]). lia.
      + intros p Hpr. destruct (Z.eq_dec p (rdeq s + size)) as [->|Hne].
        * rewrite idx_shift. rewrite nth_upd_same by (rewrite Hl; apply idx_lt).
          f_equal. rewrite Hm. lia.
        * rewrite nth_upd_other; [apply Hfree; lia|].
          intros E. assert (rdeq s = p) by (apply idx_inj; [lia | exact E]). lia.
  Qed.

  Lemma rinv_obs s q : rinv s q ->
    ring_len s = Z.of_nat (length q) /\ (ring_len s =? 0) = match q with [] => true | _ => false end.
  Proof.
    intros [_ [_ [Hd [He [Hq _]]]]]. unfold ring_len.
    destruct (Z.leb_spec (renq s) (rdeq s)).
    - assert (length q = 0%nat) by lia. destruct q; [split; reflexivity | discriminate].
    - split; [lia|]. destruct q; [simpl in Hq; lia|]. apply Z.eqb_neq. lia.
  Qed.

  Lemma nth_map_seq {A} (f : nat -> A) n i d : (i < n)%nat -> nth i (map f (seq 0 n)) d = f i.
  Proof.
    intros H. rewrite nth_indep with (d' := f 0%nat) by (rewrite map_length, seq_length; lia).
    rewrite map_nth. rewrite seq_nth by lia. reflexivity.
  Qed.

  Lemma rinv_init : rinv (ring_init size) [].
  Proof.
    pose proof size_ge2 as Hs2. unfold ring_init, rinv. cbn [rcells rmask renq rdeq rpend].
    rewrite map_length, seq_length.
    split; [reflexivity|]. split; [reflexivity|].
    split; [lia|]. split; [lia|]. split; [reflexivity|]. split.
    - intros p Hp. lia.
    - intros p Hp. rewrite Z.add_0_l in Hp.
      assert (Hi : idx p = Z.to_nat p) by (unfold idx; rewrite Z.mod_small by lia; reflexivity).
      rewrite Hi. rewrite nth_map_seq by lia. f_equal. lia.
  Qed.

  (* NonBlockingBoundedMailbox with a ring of 2^k cells = FIFO queue of capacity 2^k *)
  Theorem ring_refines_fifo : forall ops,
    mrun (ring_model size) (minit (ring_model size)) ops
    = mrun (fifo_spec (Some size) false) (minit (fifo_spec (Some size) false)) ops.
  Proof.
    intros ops.
    apply (sim_run (ring_model size)
                   (fifo_spec (Some size) false)
                   (fun s t => fpend t = None /\ rinv s (fq t))).
    - intros s [q p] m [Hp HR]. simpl in Hp. subst p. simpl in HR.
      destruct (rinv_put s q m HR) as [A B]. cbn [menq]. split; [exact A|]. split; [|exact B].
      cbn [menq fifo_spec fq fpend]. destruct (Z.of_nat (length q) <? size); reflexivity.
    - intros s [q p] [Hp HR]. simpl in Hp. subst p. simpl in HR.
      destruct (rinv_get s q HR) as [A B]. cbn [mdeq]. split; [exact A|]. split; [|exact B].
      cbn [mdeq fifo_spec fq fpend]. destruct q; reflexivity.
    - intros s [q p] [Hp HR]. simpl in HR. destruct (rinv_obs s q HR) as [A B]. cbn [mlen mempty fifo_spec fq]. split; assumption.
    - split; [reflexivity | apply rinv_init].
  Qed.
  (* ---- BoundedMailbox: the same ring, a Put on a full ring blocks until the next Get ---- *)
  Definition with_pend (s : ringst) (p : option msg) : ringst :=
    mkRing (rcells s) (rmask s) (renq s) (rdeq s) p.

  Lemma rinv_pend s q p : rinv s q -> rinv (with_pend s p) q.
  Proof. intros H. exact H. Qed.

  Lemma put_pend s m : rpend (fst (ring_put s m)) = rpend s.
  Proof. unfold ring_put. destruct (_ =? 0); reflexivity. Qed.

  Lemma get_pend s : rpend (fst (ring_get s)) = rpend s.
  Proof. unfold ring_get. destruct (_ =? 0); reflexivity. Qed.

  Definition wrel (s : ringst) (t : fifost) : Prop := rinv s (fq t) /\ rpend s = fpend t.

  Lemma wrel_enq s t m : wrel s t ->
    snd (wb_enq s m) = snd (menq (fifo_spec (Some size) true) t m) /\
    wrel (fst (wb_enq s m)) (fst (menq (fifo_spec (Some size) true) t m)).
  Proof.
    intros [HR Hp]. destruct t as [q pd]. cbn [fq fpend] in *.
    destruct (rinv_put s q m HR) as [A B]. unfold wb_enq.
    destruct (ring_put s m) as [s' r] eqn:E. cbn [fst snd] in A, B.
    cbn [menq fifo_spec fq fpend] in *.
    destruct (Z.of_nat (length q) <? size) eqn:Hl; cbn [fst snd] in *.
    - subst r. cbn [Z.eqb Pos.eqb fst snd]. split; [reflexivity|]. split; [exact B|].
      cbn [fpend]. rewrite <- Hp. replace s' with (fst (ring_put s m)) by (rewrite E; reflexivity). apply put_pend.
    - subst r. cbn [Z.eqb fst snd]. split; [reflexivity|]. split; [exact HR | reflexivity].
  Qed.

  Lemma wrel_deq s t : wrel s t ->
    snd (wb_deq s) = snd (mdeq (fifo_spec (Some size) true) t) /\
    wrel (fst (wb_deq s)) (fst (mdeq (fifo_spec (Some size) true) t)).
  Proof.
    pose proof size_ge2 as Hs2.
    intros [HR Hp]. destruct t as [q pd]. cbn [fq fpend] in *.
    destruct (rinv_obs s q HR) as [Hlen Hemp]. unfold wb_deq.
    cbn [mdeq fifo_spec fq fpend].
    destruct q as [|x r].
    - rewrite Hlen. cbn [length Z.of_nat Z.gtb Z.compare fst snd]. split; [reflexivity|]. split; [exact HR | exact Hp].
    - assert (Hg : (ring_len s >? 0) = true) by (apply Z.gtb_lt; rewrite Hlen; cbn [length]; lia).
      rewrite Hg. destruct (rinv_get s (x :: r) HR) as [A B].
      cbn [mdeq fifo_spec fq fpend fst snd] in A, B.
      pose proof (get_pend s) as Hgp.
      destruct (ring_get s) as [s' res] eqn:E. cbn [fst snd] in *. subst res.
      rewrite Hgp, Hp. destruct pd as [p|].
      + (* the blocked Put goes in now: there is room *)
        cbn [fst snd]. split; [reflexivity|].
        destruct (rinv_put (with_pend s' None) r p (rinv_pend s' r None B)) as [C D].
        cbn [menq fifo_spec fq fpend] in C, D.
        assert (Hroom : (Z.of_nat (length r) <? size) = true).
        { apply Z.ltb_lt. destruct HR as [_ [_ [Hd [He [Hq _]]]]]. cbn [length] in Hq. lia. }
        rewrite Hroom in C, D. cbn [fst snd] in C, D.
        split; [exact D|]. cbn [fpend]. rewrite put_pend. reflexivity.
      + cbn [fst snd]. split; [reflexivity|]. split; [exact B|]. cbn [fpend]. rewrite Hgp. exact Hp.
  Qed.

  Theorem wb_ring_refines_fifo : forall ops,
    mrun (wb_ring_model size) (minit (wb_ring_model size)) ops
    = mrun (fifo_spec (Some size) true) (minit (fifo_spec (Some size) true)) ops.
  Proof.
    intros ops. apply (sim_run (wb_ring_model size) (fifo_spec (Some size) true) wrel).
    - intros s t m HR. exact (wrel_enq s t m HR).
    - intros s t HR. exact (wrel_deq s t HR).
    - intros s t [HR _]. destruct (rinv_obs s (fq t) HR) as [A B]. cbn [mlen mempty fifo_spec wb_ring_model]. split; assumption.
    - split; [apply rinv_init | reflexivity].
  Qed.
End Ring.

(* the mailbox as constructed: capacity rounded by nextPowerOfTwo *)
Theorem nbb_refines_fifo : forall cap k, 1 <= k -> nextPowerOfTwo cap = 2 ^ k -> forall ops,
  mrun (nbb_model cap) (minit (nbb_model cap)) ops =
  mrun (fifo_spec (Some (2 ^ k)) false) (minit (fifo_spec (Some (2 ^ k)) false)) ops.
Proof.
  intros cap k Hk Hp ops. unfold nbb_model. rewrite Hp. apply (ring_refines_fifo k Hk).
Qed.

(* for every requested capacity (up to 2^62): the mailbox is the FIFO queue whose capacity is the least
   power of two >= max(capacity, 2) *)
Theorem nbb_refines_fifo_all : forall cap, cap <= 2 ^ 62 -> forall ops,
  mrun (nbb_model cap) (minit (nbb_model cap)) ops =
  mrun (fifo_spec (Some (2 ^ Z.log2_up (Z.max cap 2))) false)
       (minit (fifo_spec (Some (2 ^ Z.log2_up (Z.max cap 2))) false)) ops.
Proof.
  intros cap Hc ops. apply nbb_refines_fifo.
  - apply (nextPowerOfTwo_bounds cap Hc).
  - apply nextPowerOfTwo_spec. exact Hc.
Qed.

(* BoundedMailbox (Workiva ring, at least two cells): blocking FIFO queue of that capacity *)
Theorem wb_refines_fifo_all : forall cap, cap <= 2 ^ 62 -> forall ops,
  mrun (wb_model cap) (minit (wb_model cap)) ops =
  mrun (fifo_spec (Some (2 ^ Z.log2_up (Z.max cap 2))) true)
       (minit (fifo_spec (Some (2 ^ Z.log2_up (Z.max cap 2))) true)) ops.
Proof.
  intros cap Hc ops. unfold wb_model. rewrite (nextPowerOfTwo_spec cap Hc).
  apply wb_ring_refines_fifo. apply (nextPowerOfTwo_bounds cap Hc).
Qed.

(* Non-vacuity: capacity 3 is rounded to 4 cells (k = 2); the fifth Enqueue is refused, positions wrap
   around the ring, order is kept. *)
Example ring_capacity_three :
  nextPowerOfTwo 3 = 2 ^ 2 /\
  mrun (nbb_model 3) (minit (nbb_model 3))
       [Enq (mkMsg 1 0 0); Enq (mkMsg 2 0 0); Enq (mkMsg 3 0 0); Enq (mkMsg 4 0 0); Enq (mkMsg 5 0 0);
        Deq; Deq; Enq (mkMsg 6 0 0); Enq (mkMsg 7 0 0); Enq (mkMsg 8 0 0); Deq; Deq; Deq; Deq; Deq]
  = [(1,1,0); (1,2,0); (1,3,0); (1,4,0); (0,4,0); (1,3,0); (2,2,0); (1,3,0); (1,4,0); (0,4,0);
     (3,3,0); (4,2,0); (6,1,0); (7,0,1); (-1,0,1)].
Proof. split; vm_compute; reflexivity. Qed.
