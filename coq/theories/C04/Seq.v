(* C04/Seq.v — sequential refinement: for ALL operation sequences the models of the mailboxes as coded
   produce exactly the outputs (and Len / IsEmpty after every operation) of their documented queue. *)
From Coq Require Import ZArith List Bool Arith Lia.
Import ListNotations.
From GV Require Import C04.Model.
Open Scope Z_scope.

(* simulation => equal runs *)
Section Sim.
  Variables M S : mbmodel.
  Variable R : mstate M -> mstate S -> Prop.
  Hypothesis Henq : forall s t m, R s t ->
    snd (menq M s m) = snd (menq S t m) /\ R (fst (menq M s m)) (fst (menq S t m)).
  Hypothesis Hdeq : forall s t, R s t ->
    snd (mdeq M s) = snd (mdeq S t) /\ R (fst (mdeq M s)) (fst (mdeq S t)).
  Hypothesis Hobs : forall s t, R s t -> mlen M s = mlen S t /\ mempty M s = mempty S t.

  Lemma sim_run : forall ops s t, R s t -> mrun M s ops = mrun S t ops.
  Proof.
    induction ops as [|o r IH]; intros s t HR; [reflexivity|].
    simpl. destruct o as [m|m| | |]; simpl.
    - destruct (Henq s t m HR) as [E1 E2]. destruct (menq M s m) as [s1 o1], (menq S t m) as [t1 o2]. simpl in *.
      subst o2. destruct (Hobs _ _ E2) as [-> ->]. f_equal. apply IH; exact E2.
    - destruct (Henq s t m HR) as [E1 E2]. destruct (menq M s m) as [s1 o1], (menq S t m) as [t1 o2]. simpl in *.
      subst o2. destruct (Hobs _ _ E2) as [-> ->]. f_equal. apply IH; exact E2.
    - destruct (Hdeq s t HR) as [E1 E2]. destruct (mdeq M s) as [s1 o1], (mdeq S t) as [t1 o2]. simpl in *.
      subst o2. destruct (Hobs _ _ E2) as [-> ->]. f_equal. apply IH; exact E2.
    - destruct (Hobs _ _ HR) as [-> ->]. f_equal. apply IH; exact HR.
    - destruct (Hobs _ _ HR) as [-> ->]. f_equal. apply IH; exact HR.
  Qed.
End Sim.

(* ------------------------------------------------------------------------------------------ *)
(* UnboundedMailbox = FIFO list *)
Definition linked (q : list msg) : chain := map (fun m => (m, true)) q.

Lemma ch_link_linked q m : ch_link (linked q ++ [(m, false)]) m = linked (q ++ [m]).
Proof.
  induction q as [|x r IH]; simpl.
  - rewrite Z.eqb_refl. reflexivity.
  - rewrite andb_false_r. f_equal. exact IH.
Qed.

Lemma ch_len_linked q : ch_len (linked q) = Z.of_nat (length q).
Proof. induction q as [|x r IH]; [reflexivity|]. cbn [linked map ch_len length]. fold (linked r). rewrite IH. lia. Qed.

Theorem unb_refines_fifo : forall ops,
  mrun unb_model (minit unb_model) ops = mrun (fifo_spec None false) (minit (fifo_spec None false)) ops.
Proof.
  intros ops.
  apply (sim_run unb_model (fifo_spec None false) (fun c t => fpend t = None /\ c = linked (fq t))).
  - intros s [q p] m [Hp ->]. simpl in *. split; [reflexivity|]. split; [exact Hp|].
    unfold ch_swap. apply ch_link_linked.
  - intros s [q p] [Hp ->]. simpl in *. subst p. destruct q as [|x r]; simpl; repeat split; reflexivity.
  - intros s [q p] [Hp ->]. simpl in *. split; [apply ch_len_linked|]. destruct q; reflexivity.
  - simpl. split; reflexivity.
Qed.
