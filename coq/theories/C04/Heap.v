(* C04/Heap.v — the binary heap of Model.v (container/heap up/down = stableHeap.up/down) keeps the
   heap order for every strict weak order [less]; pop returns a minimum and the rest is a heap;
   push/pop preserve the multiset.  All lists, all sizes. *)
From Coq Require Import List Arith Bool Lia Permutation ZArith Zify ZifyNat.
Import ListNotations.
From GV Require Import C04.Model.

Ltac Zify.zify_post_hook ::= Z.to_euclidean_division_equations.
Local Open Scope nat_scope.

Section ListLemmas.
  Context {A : Type}.

  Lemma upd_length (l : list A) i x : length (upd l i x) = length l.
  Proof. revert i; induction l as [|y r IH]; intros [|i]; simpl; auto. Qed.

  Lemma nth_error_upd (l : list A) i x k :
    nth_error (upd l i x) k = if (k =? i) && (i <? length l) then Some x else nth_error l k.
  Proof.
    revert i k; induction l as [|y r IH]; intros i k.
    - destruct i, k; simpl; rewrite ?andb_false_r; reflexivity.
    - destruct i as [|i], k as [|k]; simpl; try reflexivity.
      rewrite IH. reflexivity.
  Qed.

  Lemma upd_perm_swap (l : list A) i j a b :
    nth_error l i = Some a -> nth_error l j = Some b ->
    Permutation (upd (upd l i b) j a) l.
  Proof.
    revert i j; induction l as [|y r IH]; intros i j Hi Hj.
    - destruct i; discriminate.
    - destruct i as [|i], j as [|j]; simpl in *.
      + inversion Hi; inversion Hj; subst. reflexivity.
      + inversion Hi; subst.
        (* b :: upd r j a  ~  a :: r  where r[j] = b *)
        clear IH. revert j Hj. induction r as [|z s IHs]; intros j Hj; [destruct j; discriminate|].
        destruct j as [|j]; simpl in *.
        * inversion Hj; subst. apply perm_swap.
        * etransitivity; [apply perm_swap|]. etransitivity; [|apply perm_swap].
          apply perm_skip. apply IHs. exact Hj.
      + inversion Hj; subst.
        clear IH. revert i Hi. induction r as [|z s IHs]; intros i Hi; [destruct i; discriminate|].
        destruct i as [|i]; simpl in *.
        * inversion Hi; subst. apply perm_swap.
        * etransitivity; [apply perm_swap|]. etransitivity; [|apply perm_swap].
          apply perm_skip. apply IHs. exact Hi.
      + apply perm_skip. apply IH; assumption.
  Qed.

  Lemma nth_error_firstn' (l : list A) n k :
    nth_error (firstn n l) k = if k <? n then nth_error l k else None.
  Proof.
    revert n k; induction l as [|y r IH]; intros n k.
    - rewrite firstn_nil. destruct k; simpl; destruct (_ <? n); reflexivity.
    - destruct n as [|n]; [destruct k; reflexivity|].
      destruct k as [|k]; simpl; [reflexivity|]. rewrite IH. reflexivity.
  Qed.
End ListLemmas.

Section HeapProofs.
  Context {A : Type}.
  Variable less : A -> A -> bool.
  Hypothesis asym : forall a b, less a b = true -> less b a = false.
  Hypothesis negtrans : forall a b c, less a b = false -> less b c = false -> less a c = false.

  Lemma less_irrefl a : less a a = false.
  Proof. destruct (less a a) eqn:E; [|reflexivity]. pose proof (asym _ _ E). congruence. Qed.

  Lemma less_trans a b c : less a b = true -> less b c = true -> less a c = true.
  Proof.
    intros Hab Hbc. destruct (less a c) eqn:E; [reflexivity|].
    pose proof (asym _ _ Hbc) as Hcb. pose proof (negtrans _ _ _ E Hcb). congruence.
  Qed.

  Definition isChild (c p : nat) : Prop := c = 2 * p + 1 \/ c = 2 * p + 2.

  Lemma parent_child j : 0 < j -> isChild j ((j - 1) / 2).
  Proof. intros H. unfold isChild. lia. Qed.

  Lemma parent_lt j : 0 < j -> (j - 1) / 2 < j.
  Proof. intros; lia. Qed.

  Lemma parent_unique c p q : isChild c p -> isChild c q -> p = q.
  Proof. unfold isChild; lia. Qed.

  Lemma child_gt c p : isChild c p -> p < c.
  Proof. unfold isChild; lia. Qed.

  (* every child/parent edge among the first n positions is in order *)
  Definition heap_n (l : list A) (n : nat) : Prop :=
    forall p c, isChild c p -> c < n -> lessAt less l c p = false.
  Definition heap_ok (l : list A) : Prop := heap_n l (length l).

  Lemma lessAt_in l i j a b :
    nth_error l i = Some a -> nth_error l j = Some b -> lessAt less l i j = less a b.
  Proof. intros Hi Hj. unfold lessAt. rewrite Hi, Hj. reflexivity. Qed.

  Lemma nth_error_swap (l : list A) i j a b k :
    nth_error l i = Some a -> nth_error l j = Some b ->
    nth_error (swap l i j) k = if k =? j then Some a else if k =? i then Some b else nth_error l k.
  Proof.
    intros Hi Hj. unfold swap. rewrite Hi, Hj. rewrite !nth_error_upd, upd_length.
    assert (Li : i < length l) by (apply nth_error_Some; congruence).
    assert (Lj : j < length l) by (apply nth_error_Some; congruence).
    apply Nat.ltb_lt in Li. apply Nat.ltb_lt in Lj. rewrite Li, Lj, !andb_true_r. reflexivity.
  Qed.

  Lemma swap_length (l : list A) i j : length (swap l i j) = length l.
  Proof.
    unfold swap. destruct (nth_error l i), (nth_error l j); try reflexivity.
    now rewrite !upd_length.
  Qed.

  Lemma swap_perm (l : list A) i j : Permutation (swap l i j) l.
  Proof.
    unfold swap. destruct (nth_error l i) eqn:Hi, (nth_error l j) eqn:Hj; try reflexivity.
    eapply upd_perm_swap; eassumption.
  Qed.

  Lemma in_range (l : list A) i : i < length l -> exists a, nth_error l i = Some a.
  Proof.
    intros H. destruct (nth_error l i) eqn:E; [eauto|]. apply nth_error_None in E. lia.
  Qed.

  (* -------------------------------------------------------------------------------- up *)
  (* all edges in order except possibly (j, parent j); children of j are in order w.r.t. parent j *)
  Definition up_pre (l : list A) (j : nat) : Prop :=
    (forall p c, isChild c p -> c < length l -> c <> j -> lessAt less l c p = false) /\
    (forall p c, isChild j p -> isChild c j -> c < length l -> lessAt less l c p = false).

  Lemma up_unfold f (l : list A) j : up less (S f) l j =
    if ((j - 1) / 2 =? j) || negb (lessAt less l j ((j - 1) / 2)) then l
    else up less f (swap l ((j - 1) / 2) j) ((j - 1) / 2).
  Proof. reflexivity. Qed.

  Lemma down_unfold f (l : list A) i n : down less (S f) l i n =
    if n <=? 2 * i + 1 then l
    else if negb (lessAt less l (if (2 * i + 1 + 1 <? n) && lessAt less l (2 * i + 1 + 1) (2 * i + 1) then 2 * i + 1 + 1 else 2 * i + 1) i) then l
    else down less f (swap l i (if (2 * i + 1 + 1 <? n) && lessAt less l (2 * i + 1 + 1) (2 * i + 1) then 2 * i + 1 + 1 else 2 * i + 1))
                     (if (2 * i + 1 + 1 <? n) && lessAt less l (2 * i + 1 + 1) (2 * i + 1) then 2 * i + 1 + 1 else 2 * i + 1) n.
  Proof. reflexivity. Qed.

  Lemma up_correct fuel : forall l j, j < length l -> j < fuel -> up_pre l j ->
    heap_ok (up less fuel l j) /\ length (up less fuel l j) = length l /\ Permutation (up less fuel l j) l.
  Proof.
    induction fuel as [|f IH]; intros l j Hj Hf [P1 P2]; [lia|].
    rewrite up_unfold. set (i := (j - 1) / 2).
    destruct (Nat.eqb_spec i j) as [Eij|Nij]; cbn [orb].
    - (* j = 0 *)
      assert (j = 0) by (unfold i in *; lia). unfold i in *. clear i. subst j.
      split; [|split; reflexivity]. intros p c Hc Hlt. apply P1; auto. pose proof (child_gt _ _ Hc); lia.
    - assert (Hj0 : 0 < j) by (unfold i in *; lia).
      pose proof (parent_child j Hj0) as Hch. fold i in Hch.
      pose proof (parent_lt j Hj0) as Hlt. fold i in Hlt.
      destruct (lessAt less l j i) eqn:Hl; cbn [negb].
      + (* swap and continue at i *)
        destruct (in_range l j Hj) as [b Hb]. destruct (in_range l i ltac:(lia)) as [a Ha].
        rewrite (lessAt_in _ _ _ _ _ Hb Ha) in Hl.
        assert (Hpre : up_pre (swap l i j) i).
        { split.
          - intros p c Hc Hclt Hci. rewrite swap_length in Hclt.
            pose proof (child_gt _ _ Hc) as Hpc.
            destruct (in_range l c Hclt) as [xc Hxc]. destruct (in_range l p ltac:(lia)) as [xp Hxp].
            unfold lessAt. rewrite !(nth_error_swap l i j a b _ Ha Hb).
            destruct (Nat.eqb_spec c j) as [Ecj|Ncj].
            + subst c. assert (p = i) by (eapply parent_unique; eauto). subst p.
              destruct (Nat.eqb_spec i j); [lia|]. rewrite Nat.eqb_refl. apply asym; exact Hl.
            + destruct (Nat.eqb_spec c i); [contradiction|]. rewrite Hxc.
              destruct (Nat.eqb_spec p j) as [Epj|Npj].
              * subst p. (* c child of j: compare with a *)
                specialize (P2 i c Hch Hc Hclt). rewrite (lessAt_in _ _ _ _ _ Hxc Ha) in P2. exact P2.
              * destruct (Nat.eqb_spec p i) as [Epi|Npi].
                -- subst p. (* sibling of j *)
                   specialize (P1 i c Hc Hclt Ncj). rewrite (lessAt_in _ _ _ _ _ Hxc Ha) in P1.
                   destruct (less xc b) eqn:E; [|reflexivity].
                   pose proof (less_trans _ _ _ E Hl). congruence.
                -- rewrite Hxp. specialize (P1 p c Hc Hclt Ncj).
                   rewrite (lessAt_in _ _ _ _ _ Hxc Hxp) in P1. exact P1.
          - intros p c Hip Hc Hclt. rewrite swap_length in Hclt.
            pose proof (child_gt _ _ Hip) as Hpi. pose proof (child_gt _ _ Hc) as Hic.
            destruct (in_range l c Hclt) as [xc Hxc]. destruct (in_range l p ltac:(lia)) as [xp Hxp].
            unfold lessAt. rewrite !(nth_error_swap l i j a b _ Ha Hb).
            destruct (Nat.eqb_spec p j); [lia|]. destruct (Nat.eqb_spec p i); [lia|]. rewrite Hxp.
            assert (Eip : less a xp = false).
            { specialize (P1 p i Hip ltac:(lia) ltac:(lia)). rewrite (lessAt_in _ _ _ _ _ Ha Hxp) in P1. exact P1. }
            destruct (Nat.eqb_spec c j) as [Ecj|Ncj]; [exact Eip|].
            destruct (Nat.eqb_spec c i); [lia|]. rewrite Hxc.
            specialize (P1 i c Hc Hclt Ncj). rewrite (lessAt_in _ _ _ _ _ Hxc Ha) in P1.
            eapply negtrans; eassumption. }
        destruct (IH (swap l i j) i) as [H1 [H2 H3]]; [rewrite swap_length; lia | lia | exact Hpre |].
        rewrite swap_length in H2. split; [exact H1|]. split; [exact H2|].
        etransitivity; [exact H3 | apply swap_perm].
      + split; [|split; reflexivity]. intros p c Hc Hclt.
        destruct (Nat.eq_dec c j) as [->|Ncj]; [|apply P1; auto].
        assert (p = i) by (eapply parent_unique; eauto). subst p. exact Hl.
  Qed.

  Lemma hpush_correct l x : heap_ok l ->
    heap_ok (hpush less l x) /\ Permutation (hpush less l x) (x :: l).
  Proof.
    intros H. unfold hpush. rewrite app_length; simpl.
    replace (length l + 1 - 1) with (length l) by lia.
    destruct (up_correct (length l + 1) (l ++ [x]) (length l)) as [H1 [_ H3]].
    - rewrite app_length; simpl; lia.
    - lia.
    - split.
      + intros p c Hc Hclt Hne. rewrite app_length in Hclt; simpl in Hclt.
        assert (c < length l) by lia. pose proof (child_gt _ _ Hc).
        specialize (H p c Hc H0). unfold lessAt in *.
        rewrite !nth_error_app1 by lia. exact H.
      + intros p c _ Hc Hclt. rewrite app_length in Hclt; simpl in Hclt.
        pose proof (child_gt _ _ Hc). lia.
    - split; [exact H1|]. etransitivity; [exact H3|]. symmetry. apply Permutation_cons_append.
  Qed.

  (* ------------------------------------------------------------------------------ down *)
  (* within the first n positions: all edges in order except those into i from its children;
     children of i are in order w.r.t. the parent of i *)
  Definition down_pre (l : list A) (i n : nat) : Prop :=
    (forall p c, isChild c p -> c < n -> p <> i -> lessAt less l c p = false) /\
    (forall p c, isChild i p -> isChild c i -> c < n -> lessAt less l c p = false).

  Lemma down_correct fuel : forall l i n, n <= length l -> n <= i + fuel -> down_pre l i n ->
    heap_n (down less fuel l i n) n /\ length (down less fuel l i n) = length l /\
    Permutation (down less fuel l i n) l /\
    (forall k, n <= k -> nth_error (down less fuel l i n) k = nth_error l k).
  Proof.
    induction fuel as [|f IH]; intros l i n Hn Hf [P1 P2].
    - simpl. split; [|auto]. intros p c Hc Hclt. pose proof (child_gt _ _ Hc).
      apply P1; auto. unfold isChild in Hc. lia.
    - rewrite down_unfold. destruct (Nat.leb_spec n (2 * i + 1)) as [Hle|Hgt].
      + split; [|auto]. intros p c Hc Hclt. apply P1; auto. unfold isChild in Hc. lia.
      + set (left := 2 * i + 1) in *.
        set (child := if (left + 1 <? n) && lessAt less l (left + 1) left then left + 1 else left).
        assert (Hchild : isChild child i /\ child < n).
        { subst child. destruct (Nat.ltb_spec (left + 1) n); simpl; [destruct (lessAt less l (left + 1) left)|];
            unfold isChild; subst left; lia. }
        destruct Hchild as [Hci Hcn].
        (* the other child (if any) is not smaller than the chosen one *)
        assert (Hother : forall o, isChild o i -> o < n -> o <> child -> lessAt less l o child = false).
        { intros o Ho Hon Hne. subst child.
          destruct (Nat.ltb_spec (left + 1) n) as [Hr|Hr]; simpl in *.
          - destruct (lessAt less l (left + 1) left) eqn:E.
            + assert (o = left) by (unfold isChild in Ho; subst left; lia). subst o.
              destruct (in_range l left ltac:(lia)) as [xl Hxl]. destruct (in_range l (left + 1) ltac:(lia)) as [xr Hxr].
              rewrite (lessAt_in _ _ _ _ _ Hxr Hxl) in E. rewrite (lessAt_in _ _ _ _ _ Hxl Hxr). apply asym; exact E.
            + assert (o = left + 1) by (unfold isChild in Ho; subst left; lia). subst o. exact E.
          - unfold isChild in Ho; subst left; lia. }
        destruct (lessAt less l child i) eqn:Hl; cbn [negb].
        * destruct (in_range l child ltac:(lia)) as [b Hb]. destruct (in_range l i ltac:(unfold isChild in Hci; lia)) as [a Ha].
          rewrite (lessAt_in _ _ _ _ _ Hb Ha) in Hl.
          pose proof (child_gt _ _ Hci) as Hic.
          assert (Hpre : down_pre (swap l i child) child n).
          { split.
            - intros p c Hc Hclt Hpc. pose proof (child_gt _ _ Hc) as Hpc'.
              destruct (in_range l c ltac:(lia)) as [xc Hxc]. destruct (in_range l p ltac:(lia)) as [xp Hxp].
              unfold lessAt. rewrite !(nth_error_swap l i child a b _ Ha Hb).
              destruct (Nat.eqb_spec p child); [contradiction|].
              destruct (Nat.eqb_spec p i) as [Epi|Npi].
              + subst p. (* edges into i: new value b *)
                destruct (Nat.eqb_spec c child) as [Ecc|Ncc].
                * apply asym; exact Hl.
                * destruct (Nat.eqb_spec c i); [lia|]. rewrite Hxc.
                  specialize (Hother c Hc Hclt Ncc). rewrite (lessAt_in _ _ _ _ _ Hxc Hb) in Hother. exact Hother.
              + rewrite Hxp.
                destruct (Nat.eqb_spec c child) as [Ecc|Ncc].
                * subst c. assert (p = i) by (eapply parent_unique; eauto). contradiction.
                * destruct (Nat.eqb_spec c i) as [Eci|Nci].
                  -- subst c. (* edge (i -> p): new value b; b is a child of i, use P2 *)
                     specialize (P2 p child Hc Hci Hcn). rewrite (lessAt_in _ _ _ _ _ Hb Hxp) in P2. exact P2.
                  -- rewrite Hxc. specialize (P1 p c Hc Hclt Npi).
                     rewrite (lessAt_in _ _ _ _ _ Hxc Hxp) in P1. exact P1.
            - intros p c Hcp Hc Hclt. assert (p = i) by (eapply parent_unique; eauto). subst p.
              pose proof (child_gt _ _ Hc) as Hcc.
              destruct (in_range l c ltac:(lia)) as [xc Hxc].
              unfold lessAt. rewrite !(nth_error_swap l i child a b _ Ha Hb).
              destruct (Nat.eqb_spec i child); [lia|]. rewrite Nat.eqb_refl.
              destruct (Nat.eqb_spec c child); [lia|]. destruct (Nat.eqb_spec c i); [lia|]. rewrite Hxc.
              assert (child <> i) by lia.
              specialize (P1 child c Hc Hclt H). rewrite (lessAt_in _ _ _ _ _ Hxc Hb) in P1. exact P1. }
          destruct (IH (swap l i child) child n) as [H1 [H2 [H3 H4]]];
            [rewrite swap_length; lia | unfold isChild in Hci; lia | exact Hpre |].
          rewrite swap_length in H2. split; [exact H1|]. split; [exact H2|].
          split; [etransitivity; [exact H3 | apply swap_perm]|].
          intros k Hk. rewrite H4 by exact Hk. rewrite (nth_error_swap l i child a b _ Ha Hb).
          destruct (Nat.eqb_spec k child); [lia|]. destruct (Nat.eqb_spec k i); [lia|]. reflexivity.
        * split; [|auto]. intros p c Hc Hclt.
          destruct (Nat.eq_dec p i) as [->|Npi]; [|apply P1; auto].
          destruct (Nat.eq_dec c child) as [->|Ncc]; [exact Hl|].
          (* the other child: not below the chosen child, which is not below i *)
          specialize (Hother c Hc Hclt Ncc).
          destruct (in_range l c ltac:(lia)) as [xc Hxc]. destruct (in_range l child ltac:(lia)) as [b Hb].
          destruct (in_range l i ltac:(unfold isChild in Hci; lia)) as [a Ha].
          rewrite (lessAt_in _ _ _ _ _ Hxc Hb) in Hother. rewrite (lessAt_in _ _ _ _ _ Hb Ha) in Hl.
          rewrite (lessAt_in _ _ _ _ _ Hxc Ha). eapply negtrans; eassumption.
  Qed.

  (* the root of a heap is a minimum *)
  Lemma heap_root_min l : heap_ok l -> forall k x r, nth_error l k = Some x -> nth_error l 0 = Some r ->
    less x r = false.
  Proof.
    intros H k. induction k as [k IHk] using lt_wf_ind. intros x r Hx Hr.
    destruct k as [|k']; [assert (x = r) by congruence; subst; apply less_irrefl|].
    set (k := S k') in *. assert (Hk : 0 < k) by (subst k; lia).
    assert (Hlen : k < length l) by (apply nth_error_Some; congruence).
    pose proof (parent_child k Hk) as Hc. pose proof (parent_lt k Hk) as Hp.
    destruct (in_range l ((k - 1) / 2) ltac:(lia)) as [y Hy].
    specialize (H _ _ Hc Hlen). rewrite (lessAt_in _ _ _ _ _ Hx Hy) in H.
    eapply negtrans; [exact H|]. eapply IHk; eauto.
  Qed.

  Lemma heap_n_firstn l n : n <= length l -> heap_n l n -> heap_ok (firstn n l).
  Proof.
    intros Hn H p c Hc Hclt. rewrite firstn_length_le in Hclt by exact Hn.
    pose proof (child_gt _ _ Hc). specialize (H p c Hc Hclt). unfold lessAt in *.
    rewrite !nth_error_firstn'. destruct (Nat.ltb_spec c n), (Nat.ltb_spec p n); try lia. exact H.
  Qed.

  Lemma firstn_snoc_nth (l : list A) n x : nth_error l n = Some x -> S n = length l -> l = firstn n l ++ [x].
  Proof.
    revert n; induction l as [|y r IH]; intros n Hx Hl; [destruct n; discriminate|].
    destruct n as [|n]; simpl in *.
    - inversion Hx; subst. destruct r; [reflexivity|discriminate].
    - f_equal. apply IH; [exact Hx | lia].
  Qed.

  (* pop: returns a minimum of the heap; what remains is a heap with the same elements minus it *)
  Lemma hpop_correct l x h : heap_ok l -> hpop less l = Some (x, h) ->
    heap_ok h /\ Permutation (x :: h) l /\ (forall y, In y l -> less y x = false) /\ nth_error l 0 = Some x.
  Proof.
    intros H Hp. unfold hpop in Hp. destruct l as [|a0 r0] eqn:El; [discriminate|]. rewrite <- El in *.
    assert (Hlen : 0 < length l) by (subst l; simpl; lia).
    set (n := length l - 1) in *.
    destruct (in_range l 0 Hlen) as [a Ha]. destruct (in_range l n ltac:(lia)) as [b Hb].
    assert (Hpre : down_pre (swap l 0 n) 0 n).
    { split.
      - intros p c Hc Hclt Hp0. pose proof (child_gt _ _ Hc) as Hpc.
        destruct (in_range l c ltac:(lia)) as [xc Hxc]. destruct (in_range l p ltac:(lia)) as [xp Hxp].
        unfold lessAt. rewrite !(nth_error_swap l 0 n a b _ Ha Hb).
        destruct (Nat.eqb_spec c n); [lia|]. destruct (Nat.eqb_spec c 0); [lia|].
        destruct (Nat.eqb_spec p n); [lia|]. destruct (Nat.eqb_spec p 0); [lia|].
        rewrite Hxc, Hxp. specialize (H p c Hc ltac:(lia)). rewrite (lessAt_in _ _ _ _ _ Hxc Hxp) in H. exact H.
      - intros p c Hc0 _ _. pose proof (child_gt _ _ Hc0). lia. }
    destruct (down_correct (length l) (swap l 0 n) 0 n) as [H1 [H2 [H3 H4]]];
      [rewrite swap_length; lia | lia | exact Hpre |].
    rewrite swap_length in H2.
    set (l2 := down less (length l) (swap l 0 n) 0 n) in *.
    assert (Hx : nth_error l2 n = Some a).
    { rewrite H4 by lia. rewrite (nth_error_swap l 0 n a b _ Ha Hb). rewrite Nat.eqb_refl. reflexivity. }
    rewrite Hx in Hp. inversion Hp; subst x h. clear Hp.
    split; [apply heap_n_firstn; [lia | exact H1]|].
    split.
    { assert (E : l2 = firstn n l2 ++ [a]) by (apply firstn_snoc_nth; [exact Hx | lia]).
      etransitivity; [apply Permutation_cons_append|]. rewrite <- E.
      etransitivity; [exact H3 | apply swap_perm]. }
    split; [|exact Ha].
    intros y Hy. apply In_nth_error in Hy. destruct Hy as [k Hk].
    eapply heap_root_min; eauto.
  Qed.

  Lemma down_length fuel : forall (l : list A) i n, length (down less fuel l i n) = length l.
  Proof.
    induction fuel as [|f IH]; intros l i n; [reflexivity|].
    rewrite down_unfold. destruct (n <=? 2 * i + 1); [reflexivity|].
    match goal with |- context [negb ?c] => destruct (negb c) end; [reflexivity|].
    rewrite IH. apply swap_length.
  Qed.

  Lemma hpop_none l : hpop less l = None -> l = [].
  Proof.
    unfold hpop. destruct l as [|a0 r0] eqn:El; [reflexivity|]. rewrite <- El.
    assert (Hlen : 0 < length l) by (subst l; simpl; lia).
    set (n := length l - 1). intros Hp. exfalso.
    destruct (nth_error (down less (length l) (swap l 0 n) 0 n) n) eqn:E; [discriminate|].
    apply nth_error_None in E. rewrite down_length, swap_length in E. lia.
  Qed.
End HeapProofs.

(* The stable comparison: priority first, insertion sequence second.  For a strict weak order
   [pl] it is again a strict weak order, and total on items with distinct sequence numbers. *)
Section Stable.
  Context {A : Type}.
  Variable pl : A -> A -> bool.
  Hypothesis asym : forall a b, pl a b = true -> pl b a = false.
  Hypothesis negtrans : forall a b c, pl a b = false -> pl b c = false -> pl a c = false.

  Definition stl (a b : A * Z) : bool :=
    if pl (fst a) (fst b) then true else if pl (fst b) (fst a) then false else Z.ltb (snd a) (snd b).

  Lemma pl_trans a b c : pl a b = true -> pl b c = true -> pl a c = true.
  Proof. apply less_trans; assumption. Qed.

  Lemma stl_asym a b : stl a b = true -> stl b a = false.
  Proof.
    unfold stl. destruct (pl (fst a) (fst b)) eqn:E1.
    - intros _. rewrite (asym _ _ E1). reflexivity.
    - destruct (pl (fst b) (fst a)) eqn:E2; [discriminate|].
      intros H. apply Z.ltb_lt in H. apply Z.ltb_ge. lia.
  Qed.

  Lemma stl_negtrans a b c : stl a b = false -> stl b c = false -> stl a c = false.
  Proof.
    unfold stl. intros H1 H2.
    destruct (pl (fst a) (fst b)) eqn:Eab; [discriminate|].
    destruct (pl (fst b) (fst c)) eqn:Ebc; [discriminate|].
    pose proof (negtrans _ _ _ Eab Ebc) as Eac. rewrite Eac.
    destruct (pl (fst b) (fst a)) eqn:Eba.
    - (* b < a *)
      destruct (pl (fst c) (fst a)) eqn:Eca; [reflexivity|].
      (* c !< a and b < a; with b !< c ... then c !< b or c<b; need contradiction or ltb *)
      destruct (pl (fst c) (fst b)) eqn:Ecb.
      + pose proof (pl_trans _ _ _ Ecb Eba). congruence.
      + (* b ~ c, b < a, c !< a: negtrans c b? we have pl b a = true; from Eca (c !< a) and ... *)
        (* pl b a = true; suppose c !< a; negtrans b c a: pl b c = false -> pl c a = false -> pl b a = false *)
        pose proof (negtrans _ _ _ Ebc Eca). congruence.
    - destruct (pl (fst c) (fst b)) eqn:Ecb.
      + (* c < b, a ~ b => c < a *)
        destruct (pl (fst c) (fst a)) eqn:Eca; [reflexivity|].
        pose proof (negtrans _ _ _ Eca Eab). congruence.
      + destruct (pl (fst c) (fst a)) eqn:Eca; [reflexivity|].
        apply Z.ltb_ge in H1. apply Z.ltb_ge in H2. apply Z.ltb_ge. lia.
  Qed.
End Stable.

(* Non-vacuity: a concrete strict weak order (compare the first component) and a heap built by
   pushes; pop returns a minimum. *)
Example heap_example :
  let less := fun a b : nat * nat => Nat.ltb (fst a) (fst b) in
  let h := hpush less (hpush less (hpush less (hpush less [] (5, 0)) (2, 1)) (7, 2)) (2, 3) in
  heap_ok less h /\ exists x r, hpop less h = Some (x, r) /\ fst x = 2 /\ length r = 3.
Proof.
  cbv zeta. set (less := fun a b : nat * nat => Nat.ltb (fst a) (fst b)).
  assert (Ha : forall a b, less a b = true -> less b a = false).
  { intros a b H. unfold less in *. apply Nat.ltb_lt in H. apply Nat.ltb_ge. lia. }
  assert (Hn : forall a b c, less a b = false -> less b c = false -> less a c = false).
  { intros a b c H1 H2. unfold less in *. apply Nat.ltb_ge in H1. apply Nat.ltb_ge in H2. apply Nat.ltb_ge. lia. }
  split.
  - repeat (apply hpush_correct; [exact Ha | exact Hn |]).
    intros p c _ Hc. simpl in Hc. lia.
  - vm_compute. eexists. eexists. repeat split.
Qed.
