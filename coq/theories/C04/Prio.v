(* C04/Prio.v — the four priority mailboxes, sequentially, for ALL operation sequences, all
   capacities and every strict-weak-order priority function:
     * stable variants (intake + stableHeap + seq): exactly the stable priority queue
       (take the first minimal message in arrival order);
     * unstable variants (container/heap): every Dequeue returns a minimum of what is held,
       nothing is lost, invented or duplicated; Len/IsEmpty/ErrMailboxFull are exact. *)
From Coq Require Import ZArith List Bool Arith Lia Permutation Sorted.
Import ListNotations.
From GV Require Import C04.Model C04.Heap C04.Seq.
Open Scope Z_scope.

Section Order.
  Variable less : msg -> msg -> bool.
  Hypothesis asym : forall a b, less a b = true -> less b a = false.
  Hypothesis negtrans : forall a b c, less a b = false -> less b c = false -> less a c = false.

  Let ltrans := less_trans less asym negtrans.

  (* what extract_min returns: the first minimal element, the others in order *)
  Lemma extract_min_spec r : forall x b rest, extract_min less x r = (b, rest) ->
    exists l1 l2, x :: r = l1 ++ b :: l2 /\ rest = l1 ++ l2 /\
      (forall y, In y l1 -> less b y = true) /\ (forall y, In y l2 -> less y b = false).
  Proof.
    induction r as [|y r' IH]; intros x b rest H; simpl in H.
    - inversion H; subst. exists [], []. repeat split; simpl; tauto.
    - destruct (extract_min less y r') as [b' rest'] eqn:E.
      destruct (IH _ _ _ E) as [l1 [l2 [E1 [E2 [A1 A2]]]]].
      destruct (less b' x) eqn:Hl; inversion H; subst; clear H.
      + exists (x :: l1), l2. repeat split.
        * simpl. now rewrite E1.
        * intros z [<-|Hz]; [exact Hl | apply A1; exact Hz].
        * exact A2.
      + exists [], (y :: r'). repeat split; [intros z []|].
        intros z Hz. rewrite E1 in Hz. apply in_app_or in Hz. destruct Hz as [Hz|[<-|Hz]].
        * destruct (less z b) eqn:Ez; [|reflexivity].
          pose proof (ltrans _ _ _ (A1 _ Hz) Ez). congruence.
        * exact Hl.
        * eapply negtrans; [apply A2; exact Hz | exact Hl].
  Qed.
End Order.

Lemma pless_asym pf a b : pless pf a b = true -> pless pf b a = false.
Proof. unfold pless. intros H. apply Z.ltb_lt in H. apply Z.ltb_ge. lia. Qed.
Lemma pless_negtrans pf a b c : pless pf a b = false -> pless pf b c = false -> pless pf a c = false.
Proof. unfold pless. intros H1 H2. apply Z.ltb_ge in H1. apply Z.ltb_ge in H2. apply Z.ltb_ge. lia. Qed.

Lemma sless_is_stl pf : sless pf = stl (pless pf).
Proof. reflexivity. Qed.

Lemma map_eq_app_inv {A B} (f : A -> B) l : forall l1 l2, map f l = l1 ++ l2 ->
  exists a b, l = a ++ b /\ map f a = l1 /\ map f b = l2.
Proof.
  induction l as [|x r IH]; intros l1 l2 H.
  - destruct l1; [|discriminate]. destruct l2; [|discriminate]. exists [], []. auto.
  - destruct l1 as [|y l1]; simpl in H.
    + exists [], (x :: r). auto.
    + inversion H; subst. destruct (IH _ _ H2) as [a [b [E1 [E2 E3]]]].
      exists (x :: a), b. subst. auto.
Qed.

Definition seq_lt (a b : msg * Z) : Prop := snd a < snd b.

Lemma sorted_app_inv {A} (R : A -> A -> Prop) l1 x l2 :
  StronglySorted R (l1 ++ x :: l2) ->
  StronglySorted R (l1 ++ l2) /\ Forall (fun y => R y x) l1 /\ Forall (fun y => R x y) l2.
Proof.
  induction l1 as [|a r IH]; simpl; intros H.
  - inversion H; subst. auto.
  - inversion H; subst. destruct (IH H2) as [S1 [F1 F2]].
    apply Forall_app in H3. destruct H3 as [Fa Fb]. inversion Fb; subst.
    split; [constructor; [exact S1 | apply Forall_app; auto]|]. split; [constructor; assumption | exact F2].
Qed.

Lemma sorted_snoc_lt l x : StronglySorted seq_lt l -> Forall (fun y => snd y < snd x) l ->
  StronglySorted seq_lt (l ++ [x]).
Proof.
  induction l as [|a r IH]; simpl; intros Hs Hf; [repeat constructor|].
  inversion Hs; subst. inversion Hf; subst. constructor; [apply IH; assumption|].
  apply Forall_app; split; [assumption | repeat constructor; assumption].
Qed.

(* ------------------------------------------------------------------------------------------ *)
Section StableRefinement.
  Variable pf : Z.
  Let less := pless pf.
  Let sl := sless pf.

  Lemma sl_asym a b : sl a b = true -> sl b a = false.
  Proof. apply (stl_asym (pless pf)); apply pless_asym. Qed.
  Lemma sl_negtrans a b c : sl a b = false -> sl b c = false -> sl a c = false.
  Proof. apply (stl_negtrans (pless pf)); [apply pless_asym | apply pless_negtrans]. Qed.

  (* model state vs spec state (held messages in arrival order) *)
  Definition rel (st : ipst (msg * Z)) (s : list msg) : Prop :=
    exists tagged,
      Permutation (iheap st) tagged /\ heap_ok sl (iheap st) /\
      StronglySorted seq_lt tagged /\ Forall (fun a => snd a < iseq st) tagged /\
      s = map fst tagged ++ rev (iintake st) /\ ilen st = Z.of_nat (length s).

  Lemma drain_rel ms : forall h sq tagged,
    Permutation h tagged -> heap_ok sl h -> StronglySorted seq_lt tagged -> Forall (fun a => snd a < sq) tagged ->
    exists tagged', let '(h', sq') := drain_stable pf ms h sq in
      Permutation h' tagged' /\ heap_ok sl h' /\ StronglySorted seq_lt tagged' /\
      Forall (fun a => snd a < sq') tagged' /\ map fst tagged' = map fst tagged ++ ms.
  Proof.
    induction ms as [|m r IH]; intros h sq tagged Hp Hh Hs Hf; simpl.
    - exists tagged. rewrite app_nil_r. auto.
    - destruct (hpush_correct sl sl_asym sl_negtrans h (m, sq) Hh) as [Hh' Hp'].
      destruct (IH (hpush sl h (m, sq)) (sq + 1) (tagged ++ [(m, sq)])) as [t' Ht'].
      + etransitivity; [exact Hp'|]. etransitivity; [apply perm_skip; exact Hp|]. apply Permutation_cons_append.
      + exact Hh'.
      + apply sorted_snoc_lt; [exact Hs|]. simpl. exact Hf.
      + apply Forall_app; split; [eapply Forall_impl; [|exact Hf]; simpl; intros; lia | repeat constructor; simpl; lia].
      + exists t'. fold sl. destruct (drain_stable pf r (hpush sl h (m, sq)) (sq + 1)) as [h' sq'].
        destruct Ht' as [A [B [C [D E]]]]. repeat split; try assumption.
        rewrite E, map_app. simpl. now rewrite <- app_assoc.
  Qed.

  Lemma rel_enq cap st s m : rel st s ->
    snd (ip_enq cap st m) = snd (menq (pq_spec cap pf) s m) /\
    rel (fst (ip_enq cap st m)) (fst (menq (pq_spec cap pf) s m)).
  Proof.
    intros [tg [Hp [Hh [Hs [Hf [Es El]]]]]].
    assert (Acc : rel (mkIp (in_push (iintake st) m) (iheap st) (iseq st) (ilen st + 1)) (s ++ [m])).
    { exists tg. simpl. repeat split; try assumption.
      - rewrite Es, <- app_assoc. reflexivity.
      - rewrite app_length. simpl. lia. }
    unfold ip_enq. simpl. destruct cap as [c|]; [|split; [reflexivity | exact Acc]].
    destruct (Z.gtb_spec (ilen st + 1) c) as [G|G], (Z.ltb_spec (Z.of_nat (length s)) c) as [L|L];
      try (rewrite El in G; lia); simpl.
    - split; [reflexivity|]. exists tg. auto 10.
    - split; [reflexivity | exact Acc].
  Qed.

  Lemma rel_deq st s : rel st s ->
    snd (st_deq pf st) = snd (mdeq (pq_spec None pf) s) /\
    rel (fst (st_deq pf st)) (fst (mdeq (pq_spec None pf) s)).
  Proof.
    intros HR. pose proof HR as [tg [Hp [Hh [Hs [Hf [Es El]]]]]].
    unfold st_deq. destruct (Z.eqb_spec (ilen st) 0) as [E0|N0].
    - assert (Hs0 : s = []) by (destruct s; [reflexivity | simpl in El; lia]).
      rewrite Hs0. simpl. split; [reflexivity | rewrite <- Hs0; exact HR].
    - destruct (drain_rel (in_drain (iintake st)) (iheap st) (iseq st) tg Hp Hh Hs Hf) as [tg' Hd].
      destruct (drain_stable pf (in_drain (iintake st)) (iheap st) (iseq st)) as [h sq] eqn:Ed.
      destruct Hd as [Hp' [Hh' [Hs' [Hf' Em]]]].
      assert (Es' : s = map fst tg') by (rewrite Em; exact Es).
      destruct s as [|x0 r0]; [simpl in El; lia|].
      fold sl. destruct (hpop sl h) as [[x h']|] eqn:Epop.
      + destruct (hpop_correct sl sl_asym sl_negtrans h x h' Hh' Epop) as [Hh2 [Hp2 [Hmin _]]].
        simpl. destruct (extract_min (pless pf) x0 r0) as [b rest] eqn:Eex. simpl.
        destruct (extract_min_spec less (pless_asym pf) (pless_negtrans pf) r0 x0 b rest Eex) as [l1 [l2 [E1 [E2 [A1 A2]]]]].
        rewrite Es' in E1. symmetry in E1. destruct (map_eq_app_inv fst tg' l1 (b :: l2) (eq_sym E1)) as [t1 [t2' [Et [M1 M2]]]].
        destruct t2' as [|e t2]; [discriminate|]. simpl in M2. inversion M2 as [[Eb M2']]. subst tg'.
        (* the popped element is e *)
        assert (Hin : In x (t1 ++ e :: t2)).
        { eapply Permutation_in; [exact Hp'|]. eapply Permutation_in; [exact Hp2|]. now left. }
        assert (Hine : In e h).
        { eapply Permutation_in; [symmetry; exact Hp'|]. apply in_or_app. right. now left. }
        pose proof (Hmin e Hine) as Hex.
        destruct (sorted_app_inv seq_lt t1 e t2 Hs') as [Hs2 [Fl Fr]].
        assert (x = e).
        { apply in_app_or in Hin. destruct Hin as [Hin|[Hin|Hin]]; [|auto|]; exfalso.
          - assert (Hl : less (fst e) (fst x) = true).
            { rewrite Eb. apply A1. rewrite <- M1. apply in_map. exact Hin. }
            unfold sl, sless in Hex. fold less in Hex. rewrite Hl in Hex. discriminate.
          - assert (Hl : less (fst x) (fst e) = false).
            { rewrite Eb. apply A2. rewrite <- M2'. apply in_map. exact Hin. }
            rewrite Forall_forall in Fr. specialize (Fr _ Hin). unfold seq_lt in Fr.
            unfold sl, sless in Hex. fold less in Hex. rewrite Hl in Hex.
            destruct (less (fst e) (fst x)); [discriminate|]. apply Z.ltb_ge in Hex. lia. }
        subst x. split; [now rewrite Eb|].
        exists (t1 ++ t2). simpl. repeat split.
        * eapply Permutation_cons_app_inv. etransitivity; [exact Hp2 | exact Hp'].
        * exact Hh2.
        * exact Hs2.
        * apply Forall_app in Hf'. destruct Hf' as [F1 F2]. inversion F2; subst. apply Forall_app; auto.
        * rewrite app_nil_r, map_app, M1, M2'. exact E2.
        * rewrite E2. rewrite El. assert (length (x0 :: r0) = length (l1 ++ fst e :: l2)) by (rewrite Es'; rewrite map_app; simpl; rewrite M1, M2', Eb; reflexivity).
          rewrite H. rewrite !app_length. simpl. lia.
      + (* a non-empty heap always pops *)
        apply (hpop_none sl sl_asym sl_negtrans) in Epop. subst h. apply Permutation_nil in Hp'. subst tg'. discriminate.
  Qed.
End StableRefinement.

(* UnboundedStablePriorityMailbox and BoundedStablePriorityMailbox = the stable priority queue,
   for all operation sequences, all capacities, every priority function of the family. *)
Theorem stable_refines_pq : forall cap pf ops,
  mrun (stable_model cap pf) (minit (stable_model cap pf)) ops =
  mrun (pq_spec cap pf) (minit (pq_spec cap pf)) ops.
Proof.
  intros cap pf ops.
  apply (sim_run (stable_model cap pf) (pq_spec cap pf) (rel pf)).
  - intros s t m HR. apply rel_enq. exact HR.
  - intros s t HR. exact (rel_deq pf s t HR).
  - intros s t [tg [_ [_ [_ [_ [Es El]]]]]]. simpl. split; [exact El|].
    rewrite El. destruct t; simpl; [reflexivity|]. destruct (Z.eqb_spec (Z.pos (Pos.of_succ_nat (length t))) 0); [lia | reflexivity].
  - exists []. simpl. repeat split; try constructor. intros p c _ Hc. simpl in Hc. lia.
Qed.

(* ------------------------------------------------------------------------------------------ *)
(* Unstable priority mailboxes: behaviours of the nondeterministic priority queue.  [held] is the
   multiset of accepted, not yet delivered messages. *)
Inductive pq_ok (pf : Z) (cap : option Z) : list msg -> list op -> list (Z * Z * Z) -> Prop :=
| ok_nil held : pq_ok pf cap held [] []
| ok_enq_accept held m o ops outs :
    (o = Enq m \/ o = EnqB m) ->
    match cap with Some c => Z.of_nat (length held) < c | None => True end ->
    pq_ok pf cap (m :: held) ops outs ->
    pq_ok pf cap held (o :: ops) ((1, Z.of_nat (S (length held)), 0) :: outs)
| ok_enq_full held m o ops outs c :
    (o = Enq m \/ o = EnqB m) -> cap = Some c -> c <= Z.of_nat (length held) ->
    pq_ok pf cap held ops outs ->
    pq_ok pf cap held (o :: ops) ((0, Z.of_nat (length held), b2z (Nat.eqb (length held) 0)) :: outs)
| ok_deq_none ops outs :
    pq_ok pf cap [] ops outs -> pq_ok pf cap [] (Deq :: ops) ((-1, 0, 1) :: outs)
| ok_deq_min held x held' ops outs :
    Permutation (x :: held') held -> (forall y, In y held -> pless pf y x = false) ->
    pq_ok pf cap held' ops outs ->
    pq_ok pf cap held (Deq :: ops) ((mid x, Z.of_nat (length held'), b2z (Nat.eqb (length held') 0)) :: outs)
| ok_len held ops outs :
    pq_ok pf cap held ops outs ->
    pq_ok pf cap held (Len :: ops) ((Z.of_nat (length held), Z.of_nat (length held), b2z (Nat.eqb (length held) 0)) :: outs)
| ok_isempty held ops outs :
    pq_ok pf cap held ops outs ->
    pq_ok pf cap held (IsEmpty :: ops) ((b2z (Nat.eqb (length held) 0), Z.of_nat (length held), b2z (Nat.eqb (length held) 0)) :: outs).

Lemma zeqb_len n : (Z.of_nat n =? 0) = Nat.eqb n 0.
Proof. destruct n; [reflexivity|]. simpl. reflexivity. Qed.

Section Unstable.
  Variable pf : Z.
  Let less := pless pf.

  Lemma drain_plain_ok ms : forall h, heap_ok less h ->
    heap_ok less (drain_plain pf ms h) /\ Permutation (drain_plain pf ms h) (h ++ ms).
  Proof.
    induction ms as [|m r IH]; intros h Hh; simpl; [rewrite app_nil_r; auto|].
    destruct (hpush_correct less (pless_asym pf) (pless_negtrans pf) h m Hh) as [Hh' Hp'].
    destruct (IH _ Hh') as [A B]. split; [exact A|].
    etransitivity; [exact B|]. etransitivity; [apply Permutation_app_tail; exact Hp'|].
    simpl. etransitivity; [apply Permutation_middle|]. reflexivity.
  Qed.

  (* BoundedPriorityMailbox *)
  Definition brel (st : ipst msg) (held : list msg) : Prop :=
    heap_ok less (iheap st) /\ Permutation (iheap st ++ iintake st) held /\ ilen st = Z.of_nat (length held).

  Lemma bprio_ok cap : forall ops st held, brel st held ->
    pq_ok pf (Some cap) held ops (mrun (bprio_model cap pf) st ops).
  Proof.
    induction ops as [|o ops IH]; intros st held HR; [constructor|].
    pose proof HR as [Hh [Hp El]].
    assert (Hempty : (ilen st =? 0) = Nat.eqb (length held) 0) by (rewrite El; apply zeqb_len).
    assert (Henq : forall m, o = Enq m \/ o = EnqB m ->
      pq_ok pf (Some cap) held (o :: ops) (mrun (bprio_model cap pf) st (o :: ops))).
    { intros m Ho. assert (Es : mstep (bprio_model cap pf) st o = ip_enq (Some cap) st m) by (destruct Ho; subst; reflexivity).
      cbn [mrun]. rewrite Es. unfold ip_enq. destruct (Z.gtb_spec (ilen st + 1) cap) as [Hfull|Hok]; [pose proof Hfull as Hfull'; rewrite El in Hfull' | pose proof Hok as Hok'; rewrite El in Hok'].
      - cbn [mlen mempty bprio_model]. rewrite Hempty, El.
        eapply ok_enq_full; [exact Ho | reflexivity | lia | apply IH; exact HR].
      - cbn [mlen mempty bprio_model ilen]. rewrite El.
        replace (Z.of_nat (length held) + 1) with (Z.of_nat (S (length held))) by lia.
        replace (Z.of_nat (S (length held)) =? 0) with false by (symmetry; apply Z.eqb_neq; lia).
        eapply ok_enq_accept; [exact Ho | lia |]. apply IH. split; [exact Hh|]. split.
        + simpl. etransitivity; [symmetry; apply Permutation_middle|]. apply perm_skip. exact Hp.
        + simpl. lia. }
    destruct o as [m|m| | |]; try (apply (Henq m); auto; fail).
    - (* Deq *)
      cbn [mrun mstep]. change (mdeq (bprio_model cap pf) st) with (bp_deq pf st). unfold bp_deq.
      destruct (Z.eqb_spec (ilen st) 0) as [E0|N0].
      + assert (held = []) by (destruct held; [reflexivity | simpl in El; lia]). subst held.
        cbn [mlen mempty bprio_model]. rewrite E0. simpl. apply ok_deq_none. apply IH. exact HR.
      + destruct (drain_plain_ok (in_drain (iintake st)) (iheap st) Hh) as [Hh' Hp'].
        set (h := drain_plain pf (in_drain (iintake st)) (iheap st)) in *.
        assert (Hph : Permutation h held).
        { etransitivity; [exact Hp'|]. etransitivity; [|exact Hp]. apply Permutation_app_head.
          unfold in_drain. symmetry. apply Permutation_rev. }
        fold less. destruct (hpop less h) as [[x h']|] eqn:Epop.
        * destruct (hpop_correct less (pless_asym pf) (pless_negtrans pf) h x h' Hh' Epop) as [Hh2 [Hp2 [Hmin _]]].
          cbn [mlen mempty bprio_model ilen].
          assert (Hl : ilen st - 1 = Z.of_nat (length h')).
          { rewrite El. rewrite <- (Permutation_length Hph), <- (Permutation_length Hp2). cbn [length]. lia. }
          rewrite Hl, zeqb_len.
          eapply ok_deq_min with (held' := h').
          -- etransitivity; [exact Hp2 | exact Hph].
          -- intros y Hy. apply Hmin. eapply Permutation_in; [symmetry; exact Hph | exact Hy].
          -- apply IH. split; [exact Hh2|]. split; [simpl; rewrite app_nil_r; reflexivity | simpl; first [exact Hl | reflexivity]].
        * apply (hpop_none less (pless_asym pf) (pless_negtrans pf)) in Epop. rewrite Epop in Hph. apply Permutation_nil in Hph. subst held. simpl in El. lia.
    - cbn [mrun mstep mlen mempty bprio_model]. rewrite Hempty, El. apply ok_len. apply IH. exact HR.
    - cbn [mrun mstep mlen mempty bprio_model]. rewrite Hempty, El. apply ok_isempty. apply IH. exact HR.
  Qed.

  (* UnboundedPriorityMailBox *)
  Definition urel (st : upst) (held : list msg) : Prop :=
    heap_ok less (uheap st) /\ Permutation (uheap st) held /\ ulen st = Z.of_nat (length held).

  Lemma uprio_ok : forall ops st held, urel st held ->
    pq_ok pf None held ops (mrun (uprio_model pf) st ops).
  Proof.
    induction ops as [|o ops IH]; intros st held HR; [constructor|].
    pose proof HR as [Hh [Hp El]].
    assert (Hempty : (ulen st =? 0) = Nat.eqb (length held) 0) by (rewrite El; apply zeqb_len).
    assert (Henq : forall m, o = Enq m \/ o = EnqB m ->
      pq_ok pf None held (o :: ops) (mrun (uprio_model pf) st (o :: ops))).
    { intros m Ho. assert (Es : mstep (uprio_model pf) st o = up_enq pf st m) by (destruct Ho; subst; reflexivity).
      cbn [mrun]. rewrite Es. unfold up_enq. cbn [mlen mempty uprio_model ulen]. rewrite El.
      replace (Z.of_nat (length held) + 1) with (Z.of_nat (S (length held))) by lia.
      replace (Z.of_nat (S (length held)) =? 0) with false by (symmetry; apply Z.eqb_neq; lia).
      eapply ok_enq_accept; [exact Ho | exact I |]. apply IH.
      destruct (hpush_correct less (pless_asym pf) (pless_negtrans pf) (uheap st) m Hh) as [Hh' Hp'].
      split; [exact Hh'|]. split; [etransitivity; [exact Hp' | apply perm_skip; exact Hp] | simpl; lia]. }
    destruct o as [m|m| | |]; try (apply (Henq m); auto; fail).
    - cbn [mrun mstep]. change (mdeq (uprio_model pf) st) with (up_deq pf st). unfold up_deq.
      destruct (Z.eqb_spec (ulen st) 0) as [E0|N0].
      + assert (held = []) by (destruct held; [reflexivity | simpl in El; lia]). subst held.
        cbn [mlen mempty uprio_model]. rewrite E0. simpl. apply ok_deq_none. apply IH. exact HR.
      + fold less. destruct (hpop less (uheap st)) as [[x h']|] eqn:Epop.
        * destruct (hpop_correct less (pless_asym pf) (pless_negtrans pf) _ x h' Hh Epop) as [Hh2 [Hp2 [Hmin _]]].
          cbn [mlen mempty uprio_model ulen].
          assert (Hl : ulen st - 1 = Z.of_nat (length h')).
          { rewrite El. rewrite <- (Permutation_length Hp), <- (Permutation_length Hp2). cbn [length]. lia. }
          rewrite Hl, zeqb_len.
          eapply ok_deq_min with (held' := h').
          -- etransitivity; [exact Hp2 | exact Hp].
          -- intros y Hy. apply Hmin. eapply Permutation_in; [symmetry; exact Hp | exact Hy].
          -- apply IH. split; [exact Hh2|]. split; [reflexivity | simpl; first [exact Hl | reflexivity]].
        * apply (hpop_none less (pless_asym pf) (pless_negtrans pf)) in Epop. rewrite Epop in Hp. apply Permutation_nil in Hp. subst held. simpl in El. lia.
    - cbn [mrun mstep mlen mempty uprio_model]. rewrite Hempty, El. apply ok_len. apply IH. exact HR.
    - cbn [mrun mstep mlen mempty uprio_model]. rewrite Hempty, El. apply ok_isempty. apply IH. exact HR.
  Qed.
End Unstable.

Lemma heap_ok_nil {A} (less : A -> A -> bool) : heap_ok less [].
Proof. intros p c _ Hc. simpl in Hc. lia. Qed.

Theorem bprio_behaves_as_priority_queue : forall cap pf ops,
  pq_ok pf (Some cap) [] ops (mrun (bprio_model cap pf) (minit (bprio_model cap pf)) ops).
Proof.
  intros. apply bprio_ok. split; [apply heap_ok_nil|]. split; [reflexivity | reflexivity].
Qed.

Theorem uprio_behaves_as_priority_queue : forall pf ops,
  pq_ok pf None [] ops (mrun (uprio_model pf) (minit (uprio_model pf)) ops).
Proof.
  intros. apply uprio_ok. split; [apply heap_ok_nil|]. split; [reflexivity | reflexivity].
Qed.

(* Non-vacuity: equal priorities come out in arrival order from the stable mailbox, and the
   bounded one refuses exactly at capacity. *)
Example stable_keeps_arrival_order :
  mrun (stable_model (Some 3) 2) (minit (stable_model (Some 3) 2))
       [Enq (mkMsg 1 0 4); Enq (mkMsg 2 0 1); Enq (mkMsg 3 0 7); Enq (mkMsg 4 0 0); Deq; Deq; Deq; Deq]
  = [(1,1,0); (1,2,0); (1,3,0); (0,3,0); (1,2,0); (2,1,0); (3,0,1); (-1,0,1)].
Proof. vm_compute. reflexivity. Qed.
