(* C04/Pow2.v — nextPowerOfTwo (the bit-smearing of actor/non_blocking_bounded_mailbox.go) returns the
   least power of two >= max(n, 2), for EVERY n up to 2^62 (beyond that the uint64 result would not fit
   a slice length anyway). *)
From Coq Require Import ZArith Bool Lia.
From GV Require Import C04.Model.
Open Scope Z_scope.

Lemma orshift_bits x s i : 0 <= i -> 0 <= s ->
  Z.testbit (Z.lor x (Z.shiftr x s)) i = Z.testbit x i || Z.testbit x (i + s).
Proof. intros Hi Hs. rewrite Z.lor_spec, Z.shiftr_spec by lia. reflexivity. Qed.

(* no bit above L; the w bits from L downwards are all set *)
Definition topset (L w x : Z) : Prop :=
  (forall i, L < i -> Z.testbit x i = false) /\
  (forall i, 0 <= i -> L - w < i <= L -> Z.testbit x i = true).

Lemma topset_step L w s x : 0 <= L -> 0 <= s <= w -> topset L w x ->
  topset L (w + s) (Z.lor x (Z.shiftr x s)).
Proof.
  intros HL Hs [Hhi Hlo]. split.
  - intros i Hi. rewrite orshift_bits by lia. rewrite (Hhi i Hi), (Hhi (i + s)) by lia. reflexivity.
  - intros i Hi0 Hi. rewrite orshift_bits by lia.
    destruct (Z_lt_le_dec (L - w) i) as [H|H].
    + rewrite (Hlo i Hi0) by lia. reflexivity.
    + rewrite (Hlo (i + s)) by lia. apply orb_true_r.
Qed.

Lemma smear_ones v : 0 < v < 2 ^ 63 -> smear v = Z.ones (Z.log2 v + 1).
Proof.
  intros Hv. set (L := Z.log2 v).
  assert (HL : 0 <= L < 63).
  { split; [apply Z.log2_nonneg|]. apply Z.log2_lt_pow2; lia. }
  assert (T1 : topset L 1 v).
  { split.
    - intros i Hi. apply Z.bits_above_log2; lia.
    - intros i _ Hi. assert (i = L) by lia. subst i. apply Z.bit_log2. lia. }
  pose proof (topset_step L 1 1 _ ltac:(lia) ltac:(lia) T1) as T2.
  pose proof (topset_step L 2 2 _ ltac:(lia) ltac:(lia) T2) as T4.
  pose proof (topset_step L 4 4 _ ltac:(lia) ltac:(lia) T4) as T8.
  pose proof (topset_step L 8 8 _ ltac:(lia) ltac:(lia) T8) as T16.
  pose proof (topset_step L 16 16 _ ltac:(lia) ltac:(lia) T16) as T32.
  pose proof (topset_step L 32 32 _ ltac:(lia) ltac:(lia) T32) as T64.
  change (1 + 1) with 2 in *. change (2 + 2) with 4 in *. change (4 + 4) with 8 in *.
  change (8 + 8) with 16 in *. change (16 + 16) with 32 in *. change (32 + 32) with 64 in *.
  unfold smear. destruct T64 as [Hhi Hlo].
  apply Z.bits_inj'. intros i Hi.
  destruct (Z_lt_le_dec L i) as [H|H].
  - rewrite (Hhi i H). symmetry. apply Z.ones_spec_high. lia.
  - rewrite (Hlo i Hi) by lia. symmetry. apply Z.ones_spec_low. lia.
Qed.

Theorem nextPowerOfTwo_spec n : n <= 2 ^ 62 ->
  nextPowerOfTwo n = 2 ^ Z.log2_up (Z.max n 2).
Proof.
  intros Hn. unfold nextPowerOfTwo. destruct (Z.leb_spec n 2) as [H2|H2].
  - rewrite Z.max_r by lia. reflexivity.
  - rewrite Z.max_l by lia. rewrite smear_ones by lia.
    rewrite Z.ones_equiv. rewrite Z.log2_up_eqn by lia.
    replace (Z.pred n) with (n - 1) by lia. lia.
Qed.

(* hence: a power of two, at least max(n,2), less than twice that *)
Theorem nextPowerOfTwo_bounds n : n <= 2 ^ 62 ->
  Z.max n 2 <= nextPowerOfTwo n < 2 * Z.max n 2 /\ 1 <= Z.log2_up (Z.max n 2).
Proof.
  intros Hn. rewrite nextPowerOfTwo_spec by exact Hn. set (m := Z.max n 2).
  assert (Hm : 2 <= m) by (unfold m; lia).
  pose proof (Z.log2_up_spec m ltac:(lia)) as [Hlo Hhi].
  assert (1 <= Z.log2_up m).
  { destruct (Z_lt_le_dec (Z.log2_up m) 1) as [H|H]; [|exact H].
    assert (Z.log2_up m <= 0) by lia. pose proof (Z.log2_up_nonneg m).
    assert (Z.log2_up m = 0) by lia. rewrite H2 in Hhi. simpl in Hhi. lia. }
  split; [|exact H]. split; [exact Hhi|].
  replace (2 ^ Z.log2_up m) with (2 * 2 ^ Z.pred (Z.log2_up m)).
  - lia.
  - rewrite <- Z.pow_succ_r by lia. f_equal. lia.
Qed.
