(* C04/Fair.v — UnboundedFairMailbox, sequentially: the sender map with pending/active flags and the
   active-senders queue behave, for ALL operation sequences and any number of sender keys, exactly
   like "per-sender FIFO queues served round-robin in activation order" (rr_spec). *)
From Coq Require Import ZArith List Bool Arith Lia.
Import ListNotations.
From GV Require Import C04.Model C04.Seq.
Open Scope Z_scope.

Lemma get_set_same l k b : box_get (box_set l k b) k = Some b.
Proof.
  induction l as [|[k' b'] r IH]; simpl; [now rewrite Z.eqb_refl|].
  destruct (Z.eqb_spec k' k) as [->|Hne]; simpl; [now rewrite Z.eqb_refl|].
  destruct (Z.eqb_spec k' k); [contradiction | exact IH].
Qed.

Lemma get_set_other l k k' b : k' <> k -> box_get (box_set l k b) k' = box_get l k'.
Proof.
  intros Hne. induction l as [|[k0 b0] r IH]; simpl.
  - destruct (Z.eqb_spec k k'); [congruence | reflexivity].
  - destruct (Z.eqb_spec k0 k) as [->|H0]; simpl.
    + destruct (Z.eqb_spec k k'); [congruence | reflexivity].
    + destruct (Z.eqb_spec k0 k'); [reflexivity | exact IH].
Qed.

Definition rr_total (t : rrst) : Z := fold_right (fun kq acc => Z.of_nat (length (snd kq)) + acc) 0 t.

Lemma rr_total_app a b : rr_total (a ++ b) = rr_total a + rr_total b.
Proof. induction a as [|x r IH]; simpl; [reflexivity|]. unfold rr_total in *. simpl. rewrite IH. lia. Qed.

Definition boxed (q : list msg) : sbox := mkBox (linked q) true (Z.of_nat (length q)).

Definition frel (s : fairst) (t : rrst) : Prop :=
  factive s = map fst t /\ NoDup (map fst t) /\
  (forall k q, In (k, q) t -> q <> [] /\ box_get (fboxes s) k = Some (boxed q)) /\
  (forall k, ~ In k (map fst t) -> box_get (fboxes s) k = None \/ box_get (fboxes s) k = Some (mkBox [] false 0)) /\
  flen s = rr_total t.

Lemma rr_add_absent t k m : ~ In k (map fst t) -> rr_add t k m = t ++ [(k, [m])].
Proof.
  induction t as [|[k' q] r IH]; simpl; intros H; [reflexivity|].
  destruct (Z.eqb_spec k' k) as [->|Hne]; [tauto|]. f_equal. apply IH. tauto.
Qed.

Lemma rr_add_present t k m q : NoDup (map fst t) -> In (k, q) t ->
  exists t1 t2, t = t1 ++ (k, q) :: t2 /\ rr_add t k m = t1 ++ (k, q ++ [m]) :: t2 /\ ~ In k (map fst t1) /\ ~ In k (map fst t2).
Proof.
  induction t as [|[k' q'] r IH]; simpl; intros Hnd Hin; [tauto|].
  inversion Hnd; subst. destruct Hin as [Heq|Hin].
  - inversion Heq; subst. rewrite Z.eqb_refl. exists [], r. simpl. auto.
  - assert (k' <> k). { intros ->. apply H1. apply in_map_iff. exists (k, q). auto. }
    destruct (Z.eqb_spec k' k); [contradiction|].
    destruct (IH H2 Hin) as [t1 [t2 [E1 [E2 [N1 N2]]]]]. exists ((k', q') :: t1), t2. simpl.
    rewrite E1 at 1. rewrite E2. repeat split; auto. intros [F|F]; [congruence | tauto].
Qed.

Lemma frel_enq s t m : frel s t ->
  snd (fair_enq s m) = snd (menq rr_spec t m) /\ frel (fst (fair_enq s m)) (fst (menq rr_spec t m)).
Proof.
  intros [Ha [Hnd [Hin [Hout Hlen]]]]. cbn [menq rr_spec fst snd]. unfold fair_enq.
  set (k := msender m).
  destruct (in_dec Z.eq_dec k (map fst t)) as [Hk|Hk].
  - (* the sender already has pending messages *)
    apply in_map_iff in Hk. destruct Hk as [[k0 q] [Ek Hkq]]. simpl in Ek. subst k0.
    destruct (Hin k q Hkq) as [Hq Hb]. rewrite Hb. cbn [bq bactive bpending boxed].
    assert (Hp : (Z.of_nat (length q) + 1 =? 1) = false) by (apply Z.eqb_neq; destruct q; [congruence | cbn [length]; lia]).
    rewrite Hp. cbn [andb fst snd]. split; [reflexivity|].
    destruct (rr_add_present t k m q Hnd Hkq) as [t1 [t2 [E1 [E2 [N1 N2]]]]]. rewrite E2.
    assert (Hkeys : map fst (t1 ++ (k, q ++ [m]) :: t2) = map fst t) by (rewrite E1, !map_app; reflexivity).
    unfold frel. cbn [factive fboxes flen]. rewrite Hkeys.
    split; [exact Ha|]. split; [exact Hnd|]. split; [|split].
    + intros k' q' Hin'. apply in_app_or in Hin'. destruct Hin' as [Hin'|[Hin'|Hin']].
      * assert (k' <> k) by (intros ->; apply N1; apply in_map_iff; exists (k, q'); auto).
        rewrite get_set_other by exact H. apply Hin. rewrite E1. apply in_or_app. now left.
      * inversion Hin'; subst. split; [destruct q; discriminate|]. rewrite get_set_same.
        unfold boxed. unfold ch_swap. rewrite ch_link_linked. rewrite app_length. cbn [length].
        do 2 f_equal. lia.
      * assert (k' <> k) by (intros ->; apply N2; apply in_map_iff; exists (k, q'); auto).
        rewrite get_set_other by exact H. apply Hin. rewrite E1. apply in_or_app. right. now right.
    + intros k' Hk'. assert (k' <> k).
      { intros ->. apply Hk'. apply in_map_iff. exists (k, q). auto. }
      rewrite get_set_other by exact H. apply Hout. exact Hk'.
    + rewrite Hlen, E1, !rr_total_app. unfold rr_total. cbn [fold_right snd]. rewrite app_length. cbn [length]. lia.
  - (* first message of an idle sender: activate it *)
    assert (Hb : match box_get (fboxes s) k with Some b => b | None => mkBox [] false 0 end = mkBox [] false 0).
    { destruct (Hout k Hk) as [E|E]; rewrite E; reflexivity. }
    rewrite Hb. cbn [bq bactive bpending]. cbn [Z.add Z.eqb negb andb fst snd Pos.eqb]. split; [reflexivity|].
    rewrite (rr_add_absent t k m Hk).
    unfold frel. cbn [factive fboxes flen]. rewrite map_app. simpl.
    split; [now rewrite Ha|]. split.
    + clear - Hnd Hk. induction (map fst t) as [|a l IH]; simpl; [constructor; [tauto|constructor]|].
      inversion Hnd; subst. constructor; [rewrite in_app_iff; simpl; intros [F|[F|[]]]; [tauto | subst; apply Hk; now left] | apply IH; [assumption | intros F; apply Hk; now right]].
    + split; [|split].
      * intros k' q' Hin'. apply in_app_or in Hin'. destruct Hin' as [Hin'|[Hin'|[]]].
        -- assert (k' <> k) by (intros ->; apply Hk; apply in_map_iff; exists (k, q'); auto).
           rewrite get_set_other by exact H. apply Hin. exact Hin'.
        -- inversion Hin'; subst. split; [discriminate|]. rewrite get_set_same. simpl. rewrite Z.eqb_refl. reflexivity.
      * intros k' Hk'. rewrite in_app_iff in Hk'. simpl in Hk'.
        assert (k' <> k) by (intros ->; tauto).
        rewrite get_set_other by exact H. apply Hout. tauto.
      * rewrite Hlen, rr_total_app. unfold rr_total. cbn [fold_right snd length]. lia.
Qed.

Lemma nodup_snoc (l : list Z) k : NoDup l -> ~ In k l -> NoDup (l ++ [k]).
Proof.
  induction l as [|a r IH]; simpl; intros Hnd Hk; [constructor; [tauto|constructor]|].
  inversion Hnd; subst. constructor; [rewrite in_app_iff; simpl; intros [F|[F|[]]]; [tauto | subst; tauto] | apply IH; tauto].
Qed.

Lemma frel_deq s t : frel s t ->
  snd (fair_deq s) = snd (mdeq rr_spec t) /\ frel (fst (fair_deq s)) (fst (mdeq rr_spec t)).
Proof.
  intros HR. pose proof HR as [Ha [Hnd [Hin [Hout Hlen]]]]. unfold fair_deq. cbn [mdeq rr_spec].
  destruct t as [|[k q] r].
  - simpl in Ha. rewrite Ha. cbn [fst snd]. split; [reflexivity | exact HR].
  - simpl in Ha. rewrite Ha. destruct (Hin k q (or_introl eq_refl)) as [Hq Hb]. rewrite Hb.
    destruct q as [|m q']; [congruence|]. cbn [boxed bq linked map ch_deq bpending].
    fold (linked q'). unfold fair_finalize.
    simpl in Hnd. inversion Hnd as [|? ? Hkr Hndr]; subst.
    assert (Hother : forall k' q0, In (k', q0) r -> k' <> k).
    { intros k' q0 H0 ->. apply Hkr. apply in_map_iff. exists (k, q0). auto. }
    destruct q' as [|m2 q2].
    + (* the sender's last message: it goes inactive *)
      cbn [length Z.of_nat Pos.of_succ_nat linked map].
      repeat first [ progress (change (1 - 1) with 0) | progress (change (0 <? 0) with false) | progress (change (0 >? 0) with false) | progress (cbv iota) ].
      cbn [fst snd].
      split; [reflexivity|].
      unfold frel. cbn [factive fboxes flen].
      split; [reflexivity|]. split; [exact Hndr|]. split; [|split].
      * intros k' q0 H0. rewrite get_set_other by (eapply Hother; eauto). apply Hin. now right.
      * intros k' Hk'. destruct (Z.eq_dec k' k) as [->|Hne].
        -- rewrite get_set_same. now right.
        -- rewrite get_set_other by exact Hne. apply Hout. simpl. intros [F|F]; [congruence | tauto].
      * rewrite Hlen. unfold rr_total. cbn [fold_right snd length]. lia.
    + (* more to come: back to the tail of the active queue *)
      assert (Hg : (Z.of_nat (length (m :: m2 :: q2)) - 1 >? 0) = true) by (apply Z.gtb_lt; cbn [length]; lia).
      rewrite Hg. cbn [fst snd]. split; [reflexivity|].
      unfold frel. cbn [factive fboxes flen]. rewrite map_app. cbn [map fst].
      split; [reflexivity|]. split; [apply nodup_snoc; assumption|]. split; [|split].
      * intros k' q0 H0. apply in_app_or in H0. destruct H0 as [H0|[H0|[]]].
        -- rewrite get_set_other by (eapply Hother; eauto). apply Hin. now right.
        -- inversion H0; subst. split; [discriminate|]. rewrite get_set_same. unfold boxed. do 2 f_equal.
           cbn [length]. lia.
      * intros k' Hk'. rewrite in_app_iff in Hk'. simpl in Hk'.
        assert (k' <> k) by (intros ->; tauto).
        rewrite get_set_other by exact H. apply Hout. simpl. intros [F|F]; [congruence | tauto].
      * rewrite Hlen, rr_total_app. unfold rr_total. cbn [fold_right snd length]. lia.
Qed.

Lemma frel_obs s t : frel s t ->
  flen s = mlen rr_spec t /\ (flen s =? 0) = mempty rr_spec t.
Proof.
  intros [Ha [Hnd [Hin [Hout Hlen]]]]. cbn [mlen mempty rr_spec]. split; [exact Hlen|].
  rewrite Hlen. destruct t as [|[k q] r]; [reflexivity|].
  destruct (Hin k q (or_introl eq_refl)) as [Hq _]. destruct q; [congruence|].
  apply Z.eqb_neq. unfold rr_total. cbn [fold_right snd length].
  assert (0 <= fold_right (fun kq acc => Z.of_nat (length (snd kq)) + acc) 0 r).
  { clear. induction r as [|x r IH]; simpl; lia. }
  lia.
Qed.

(* UnboundedFairMailbox = round-robin over per-sender FIFO queues, all operation sequences *)
Theorem fair_refines_rr : forall ops,
  mrun fair_model (minit fair_model) ops = mrun rr_spec (minit rr_spec) ops.
Proof.
  intros ops. apply (sim_run fair_model rr_spec frel).
  - intros s t m HR. exact (frel_enq s t m HR).
  - intros s t HR. exact (frel_deq s t HR).
  - intros s t HR. exact (frel_obs s t HR).
  - unfold frel. simpl. repeat split; try constructor; try tauto.
Qed.
