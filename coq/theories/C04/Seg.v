(* C04/Seg.v — UnboundedSegmentedMailbox, sequentially: the list of fixed-size segments with write and
   dequeue indices refines a FIFO list, for EVERY segment size K >= 1 and every operation sequence
   (segment roll-over when a segment fills, dropping of drained head segments). *)
From Coq Require Import ZArith List Bool Arith Lia.
Import ListNotations.
From GV Require Import C04.Model C04.Heap C04.Seq.

Section Seg.
  Variable K : nat.
  Hypothesis HK : (1 <= K)%nat.

  Definition dm := mkMsg 0 0 0.

  (* segment g holds exactly the messages l in its live slots [sd, min sw K) *)
  Definition seg_rep (g : seg) (l : list msg) : Prop :=
    (sd g + length l = Nat.min (sw g) K)%nat /\ length (sdata g) = K /\
    forall j, (j < length l)%nat -> nth (sd g + j) (sdata g) None = Some (nth j l dm).

  (* head segment, middle segments (full, untouched by the consumer, non-empty), queue content *)
  Inductive tail_rep : list seg -> list msg -> Prop :=
  | tr_last g l : seg_rep g l -> (sw g <= K)%nat -> l <> [] -> sd g = O -> tail_rep [g] l
  | tr_cons g l rest q : seg_rep g l -> (K <= sw g)%nat -> l <> [] -> sd g = O -> tail_rep rest q ->
      tail_rep (g :: rest) (l ++ q).

  Inductive segs_rep : list seg -> list msg -> Prop :=
  | sr_one g l : seg_rep g l -> (sw g <= K)%nat -> segs_rep [g] l
  | sr_more g l rest q : seg_rep g l -> (K <= sw g)%nat -> tail_rep rest q -> segs_rep (g :: rest) (l ++ q).

  Lemma nth_upd_same' {A} (l : list A) i x d : (i < length l)%nat -> nth i (upd l i x) d = x.
  Proof.
    intros H. apply nth_error_nth. rewrite nth_error_upd. rewrite Nat.eqb_refl.
    apply Nat.ltb_lt in H. rewrite H. reflexivity.
  Qed.
  Lemma nth_upd_other' {A} (l : list A) i j x d : i <> j -> nth j (upd l i x) d = nth j l d.
  Proof.
    intros H. revert i j H. induction l as [|y r IH]; intros i j H; [destruct i; reflexivity|].
    destruct i as [|i], j as [|j]; simpl; try reflexivity; try congruence. apply IH. congruence.
  Qed.

  (* storing into the next free slot of a segment that is not full *)
  Lemma seg_try_room g l m : seg_rep g l -> (sw g < K)%nat ->
    seg_try K g m = (mkSeg (S (sw g)) (sd g) (upd (sdata g) (sw g) (Some m)), true) /\
    seg_rep (mkSeg (S (sw g)) (sd g) (upd (sdata g) (sw g) (Some m))) (l ++ [m]).
  Proof.
    intros [H1 [H2 H3]] Hlt. unfold seg_try. apply Nat.ltb_lt in Hlt as Hb. rewrite Hb. split; [reflexivity|].
    unfold seg_rep. cbn [sw sd sdata]. rewrite upd_length, app_length. cbn [length].
    split; [lia|]. split; [exact H2|].
    intros j Hj. destruct (Nat.eq_dec j (length l)) as [->|Hne].
    - replace (sd g + length l)%nat with (sw g) by lia. rewrite nth_upd_same' by lia.
      rewrite app_nth2 by lia. rewrite Nat.sub_diag. reflexivity.
    - rewrite nth_upd_other' by lia. rewrite app_nth1 by lia. apply H3. lia.
  Qed.

  Lemma seg_try_full g l m : seg_rep g l -> (K <= sw g)%nat ->
    seg_try K g m = (mkSeg (S (sw g)) (sd g) (sdata g), false) /\ seg_rep (mkSeg (S (sw g)) (sd g) (sdata g)) l.
  Proof.
    intros [H1 [H2 H3]] Hge. unfold seg_try. assert (Hb : (sw g <? K)%nat = false) by (apply Nat.ltb_ge; lia).
    rewrite Hb. split; [reflexivity|]. unfold seg_rep. cbn [sw sd sdata]. split; [lia|]. split; assumption.
  Qed.

  Lemma fresh_rep : seg_rep (new_seg K) [] /\ sw (new_seg K) = O /\ sd (new_seg K) = O.
  Proof.
    unfold new_seg, seg_rep. cbn [sw sd sdata length]. rewrite repeat_length.
    split; [|split; reflexivity]. split; [lia|]. split; [reflexivity|]. intros j Hj. lia.
  Qed.

  (* ---------------------------------------------------------------- enqueue at the tail *)
  Lemma tail_enq sg q m : tail_rep sg q ->
    exists segs', fst (seg_enq K (mkSegSt sg 0) m) = mkSegSt segs' 1 /\ tail_rep segs' (q ++ [m]) /\
                  forall pre z, fst (seg_enq K (mkSegSt (pre ++ sg) z) m) = mkSegSt (pre ++ segs') (z + 1).
  Proof.
    induction 1 as [g l Hr Hw Hne Hd | g l rest q Hr Hw Hne Hd Ht IH].
    - (* the tail segment *)
      destruct (Nat.lt_ge_cases (sw g) K) as [Hlt|Hge].
      + destruct (seg_try_room g l m Hr Hlt) as [E R].
        exists [mkSeg (S (sw g)) (sd g) (upd (sdata g) (sw g) (Some m))].
        split; [unfold seg_enq; cbn [segs rev app slen]; rewrite E; reflexivity|].
        split; [constructor; [exact R | cbn [sw]; lia | destruct l; discriminate | exact Hd]|].
        intros pre z. unfold seg_enq. cbn [segs slen]. rewrite rev_app_distr. cbn [rev app].
        rewrite E. cbn [rev]. rewrite rev_involutive. reflexivity.
      + destruct (seg_try_full g l m Hr Hge) as [E R].
        destruct fresh_rep as [Rf [Wf Df]].
        destruct (seg_try_room (new_seg K) [] m Rf ltac:(lia)) as [E2 R2].
        exists [mkSeg (S (sw g)) (sd g) (sdata g); mkSeg (S (sw (new_seg K))) (sd (new_seg K)) (upd (sdata (new_seg K)) (sw (new_seg K)) (Some m))].
        split; [unfold seg_enq; cbn [segs rev app slen]; rewrite E, E2; reflexivity|].
        split.
        * apply tr_cons; [exact R | cbn [sw]; lia | exact Hne | exact Hd |].
          constructor; [exact R2 | cbn [sw]; rewrite Wf; lia | discriminate | exact Df].
        * intros pre z. unfold seg_enq. cbn [segs slen]. rewrite rev_app_distr. cbn [rev app].
          rewrite E, E2. cbn [rev]. rewrite rev_involutive. rewrite <- !app_assoc. reflexivity.
    - destruct IH as [segs' [E [T P]]].
      exists (g :: segs'). split; [|split].
      + change (g :: rest) with ([g] ++ rest). rewrite (P [g] 0%Z). reflexivity.
      + rewrite <- app_assoc. apply tr_cons; assumption.
      + intros pre z. replace (pre ++ g :: rest) with ((pre ++ [g]) ++ rest) by (rewrite <- app_assoc; reflexivity).
        rewrite P. rewrite <- app_assoc. reflexivity.
  Qed.

  Lemma segs_enq sg q m z : segs_rep sg q ->
    exists segs', seg_enq K (mkSegSt sg z) m = (mkSegSt segs' (z + 1), 1%Z) /\ segs_rep segs' (q ++ [m]).
  Proof.
    assert (Hsnd : forall s, snd (seg_enq K s m) = 1%Z).
    { intros s. unfold seg_enq. destruct (rev (segs s)); [reflexivity|].
      destruct (seg_try K s0 m) as [t1 [|]]; [reflexivity|]. destruct (seg_try K (new_seg K) m). reflexivity. }
    intros H. inversion H as [g l Hr Hw | g l rest q' Hr Hw Ht]; subst.
    - destruct (Nat.lt_ge_cases (sw g) K) as [Hlt|Hge].
      + destruct (seg_try_room g q m Hr Hlt) as [E R].
        exists [mkSeg (S (sw g)) (sd g) (upd (sdata g) (sw g) (Some m))].
        split; [unfold seg_enq; cbn [segs rev app slen]; rewrite E; reflexivity|].
        constructor; [exact R | cbn [sw]; lia].
      + destruct (seg_try_full g q m Hr Hge) as [E R].
        destruct fresh_rep as [Rf [Wf Df]].
        destruct (seg_try_room (new_seg K) [] m Rf ltac:(lia)) as [E2 R2].
        eexists. split; [unfold seg_enq; cbn [segs rev app slen]; rewrite E, E2; reflexivity|].
        apply sr_more; [exact R | cbn [sw]; lia|].
        constructor; [exact R2 | cbn [sw]; rewrite Wf; lia | discriminate | exact Df].
    - destruct (tail_enq rest q' m Ht) as [segs' [_ [T P]]].
      exists (g :: segs'). split.
      + specialize (P [g] z). pose proof (Hsnd (mkSegSt ([g] ++ rest) z)) as S1.
        change (g :: rest) with ([g] ++ rest).
        destruct (seg_enq K (mkSegSt ([g] ++ rest) z) m) as [s1 o1]. cbn [fst snd] in *. subst. reflexivity.
      + rewrite <- app_assoc. apply sr_more; assumption.
  Qed.

  (* ---------------------------------------------------------------- dequeue at the head *)
  Lemma seg_rep_head g x l : seg_rep g (x :: l) ->
    (sd g < Nat.min (sw g) K)%nat /\ nth (sd g) (sdata g) None = Some x /\
    seg_rep (mkSeg (sw g) (S (sd g)) (upd (sdata g) (sd g) None)) l.
  Proof.
    intros [H1 [H2 H3]]. cbn [length] in H1. split; [lia|]. split.
    - specialize (H3 O ltac:(cbn [length]; lia)). rewrite Nat.add_0_r in H3. exact H3.
    - unfold seg_rep. cbn [sw sd sdata]. rewrite upd_length. split; [lia|]. split; [exact H2|].
      intros j Hj. rewrite nth_upd_other' by lia.
      specialize (H3 (S j) ltac:(cbn [length]; lia)). cbn [nth] in H3.
      replace (S (sd g) + j)%nat with (sd g + S j)%nat by lia. exact H3.
  Qed.

  Lemma seg_rep_empty g : seg_rep g [] -> (sd g <? Nat.min (sw g) K)%nat = false.
  Proof. intros [H1 _]. cbn [length] in H1. apply Nat.ltb_ge. lia. Qed.

  Lemma tail_nonempty sg q : tail_rep sg q -> q <> [] /\ sg <> [].
  Proof. induction 1; split; try discriminate; try assumption. destruct l; [congruence | discriminate]. Qed.

  Lemma tail_is_segs sg q : tail_rep sg q -> segs_rep sg q.
  Proof. induction 1; [apply sr_one; assumption | apply sr_more; assumption]. Qed.

  Lemma segs_deq fuel : forall sg q, segs_rep sg q -> (length sg <= fuel)%nat ->
    match q with
    | [] => exists segs', seg_deq_loop K fuel sg = (segs', None) /\ segs_rep segs' []
    | x :: r => exists segs', seg_deq_loop K fuel sg = (segs', Some x) /\ segs_rep segs' r
    end.
  Proof.
    induction fuel as [|f IH]; intros sg q H Hf.
    - inversion H; subst; simpl in Hf; lia.
    - inversion H as [g l Hr Hw | g l rest q' Hr Hw Ht]; subst.
      + (* a single segment *)
        destruct q as [|x r].
        * exists [g]. cbn [seg_deq_loop]. rewrite (seg_rep_empty g Hr). split; [reflexivity | exact H].
        * destruct (seg_rep_head g x r Hr) as [A [B C]]. cbn [seg_deq_loop].
          apply Nat.ltb_lt in A. rewrite A, B. eexists. split; [reflexivity|]. apply sr_one; [exact C | exact Hw].
      + destruct l as [|x l'].
        * (* drained head: recycle it and go on *)
          cbn [seg_deq_loop app]. rewrite (seg_rep_empty g Hr).
          destruct (tail_nonempty rest q' Ht) as [Hq Hrest]. destruct rest as [|r0 rr]; [congruence|].
          simpl in Hf. apply IH; [apply tail_is_segs; exact Ht | simpl; lia].
        * destruct (seg_rep_head g x l' Hr) as [A [B C]]. cbn [seg_deq_loop app].
          apply Nat.ltb_lt in A. rewrite A, B. eexists. split; [reflexivity|].
          apply sr_more; [exact C | cbn [sw]; exact Hw | exact Ht].
  Qed.

  Definition srel (s : segst) (t : fifost) : Prop :=
    fpend t = None /\ segs_rep (segs s) (fq t) /\ slen s = Z.of_nat (length (fq t)).

  Lemma segs_empty sg q z : segs_rep sg q ->
    seg_empty K (mkSegSt sg z) = match q with [] => true | _ => false end.
  Proof.
    intros H. unfold seg_empty. cbn [segs]. inversion H as [g l Hr Hw | g l rest q' Hr Hw Ht]; subst.
    - destruct q as [|x r]; [rewrite (seg_rep_empty g Hr); reflexivity|].
      destruct (seg_rep_head g x r Hr) as [A _]. apply Nat.ltb_lt in A. rewrite A. reflexivity.
    - destruct (tail_nonempty rest q' Ht) as [Hq Hrest].
      destruct l as [|x l'].
      + rewrite (seg_rep_empty g Hr). destruct rest; [congruence|]. cbn [app].
        destruct q'; [congruence | reflexivity].
      + destruct (seg_rep_head g x l' Hr) as [A _]. apply Nat.ltb_lt in A. rewrite A. reflexivity.
  Qed.

  Lemma srel_empty s t : srel s t -> seg_empty K s = match fq t with [] => true | _ => false end.
  Proof. intros [_ [H _]]. destruct s as [sg z]. cbn [segs] in H. apply segs_empty. exact H. Qed.

  Theorem seg_refines_fifo : forall ops,
    mrun (seg_model K) (minit (seg_model K)) ops = mrun (fifo_spec None false) (minit (fifo_spec None false)) ops.
  Proof.
    intros ops. apply (sim_run (seg_model K) (fifo_spec None false) srel).
    - intros [sg z] [q p] m [Hp [HR Hl]]. cbn [fpend fq segs slen] in *. subst p.
      destruct (segs_enq sg q m z HR) as [segs' [E R]].
      cbn [menq seg_model fifo_spec fq fpend]. rewrite E. cbn [fst snd]. split; [reflexivity|].
      split; [reflexivity|]. cbn [segs slen fq]. split; [exact R|]. rewrite app_length. cbn [length]. lia.
    - intros [sg z] [q p] [Hp [HR Hl]]. cbn [fpend fq segs slen] in *. subst p.
      cbn [mdeq seg_model fifo_spec fq fpend]. unfold seg_deq. cbn [segs slen].
      pose proof (segs_deq (S (length sg)) sg q HR ltac:(lia)) as Hd.
      destruct q as [|x r].
      + destruct Hd as [segs' [E R]]. rewrite E. cbn [fst snd]. split; [reflexivity|].
        split; [reflexivity|]. split; [exact R | exact Hl].
      + destruct Hd as [segs' [E R]]. rewrite E. cbn [fst snd]. split; [reflexivity|].
        split; [reflexivity|]. cbn [segs slen fq]. split; [exact R|]. cbn [length] in Hl. lia.
    - intros s t HR. pose proof (srel_empty s t HR) as He. destruct HR as [_ [_ Hl]].
      cbn [mlen mempty seg_model fifo_spec]. split; [exact Hl | exact He].
    - split; [reflexivity|]. split; [|reflexivity]. cbn [minit seg_model seg_init segs fifo_spec fq].
      destruct fresh_rep as [Rf [Wf _]]. apply sr_one; [exact Rf | rewrite Wf; lia].
  Qed.
End Seg.

(* as built: segments of 256 slots *)
Theorem segmented_refines_fifo : forall ops,
  mrun (seg_model segmentSize) (minit (seg_model segmentSize)) ops =
  mrun (fifo_spec None false) (minit (fifo_spec None false)) ops.
Proof. intros ops. apply seg_refines_fifo. unfold segmentSize. lia. Qed.
