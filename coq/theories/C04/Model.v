(* C04/Model.v — executable Gallina models of the nine mailbox implementations, as coded
   (ring indices and sequence numbers, power-of-two rounding, segment write/dequeue indices,
   per-sender boxes with pending/active, Treiber intake, binary heap up/down on a slice, stable
   sequence numbers).  No proofs here: the file must compile even when a proof breaks.
   checks/C04.py evaluates [run_kind] by vm_compute on the op sequences the real mailboxes ran. *)
From Coq Require Import ZArith List Bool Arith.
Import ListNotations.
Open Scope Z_scope.

Record msg := mkMsg { mid : Z; msender : Z; mprio : Z }.

Inductive op := Enq (m : msg) | EnqB (m : msg) | Deq | Len | IsEmpty.

(* the generated priority family (mirrors c04Key in the Go harness): less a b = key a < key b *)
Definition pkey (pf p : Z) : Z :=
  if pf =? 1 then - p
  else if pf =? 2 then p mod 3
  else if pf =? 3 then 0
  else if pf =? 4 then Z.abs (p - 5)
  else p.
Definition pless (pf : Z) (a b : msg) : bool := pkey pf (mprio a) <? pkey pf (mprio b).

(* A mailbox model: Enqueue result 1 = accepted, 0 = ErrMailboxFull, 2 = the call blocks. *)
Record mbmodel := {
  mstate : Type;
  minit : mstate;
  menq : mstate -> msg -> mstate * Z;
  mdeq : mstate -> mstate * option msg;
  mlen : mstate -> Z;
  mempty : mstate -> bool
}.

Definition b2z (b : bool) : Z := if b then 1 else 0.

Definition mstep (M : mbmodel) (s : mstate M) (o : op) : mstate M * Z :=
  match o with
  | Enq m | EnqB m => menq M s m
  | Deq => let '(s', r) := mdeq M s in (s', match r with Some m => mid m | None => -1 end)
  | Len => (s, mlen M s)
  | IsEmpty => (s, b2z (mempty M s))
  end.

(* per op: (output, Len after, IsEmpty after) — what the Go harness records *)
Fixpoint mrun (M : mbmodel) (s : mstate M) (ops : list op) : list (Z * Z * Z) :=
  match ops with
  | [] => []
  | o :: r => let '(s', out) := mstep M s o in (out, mlen M s', b2z (mempty M s')) :: mrun M s' r
  end.

(* ------------------------------------------------------------------------------------------ *)
(* list helpers *)
Fixpoint upd {A} (l : list A) (i : nat) (x : A) : list A :=
  match l, i with
  | [], _ => []
  | _ :: r, O => x :: r
  | y :: r, S i' => y :: upd r i' x
  end.

(* ------------------------------------------------------------------------------------------ *)
(* UnboundedMailbox: Vyukov intrusive MPSC list.
   Node k's predecessor is the node whose tail swap came immediately before k's, so the structure
   is the sequence of nodes after the sentinel in tail-swap order, each with a flag
   "prev.next has been stored" (linked).  Enqueue = swap (append, unlinked) ; link.
   Dequeue looks at head.next only: it sees the first node iff it is linked.              *)
Definition chain := list (msg * bool).

Definition ch_swap (c : chain) (m : msg) : chain := c ++ [(m, false)].
Fixpoint ch_link (c : chain) (m : msg) : chain :=
  match c with
  | [] => []
  | (x, l) :: r => if (mid x =? mid m) && negb l then (x, true) :: r else (x, l) :: ch_link r m
  end.
Definition ch_deq (c : chain) : chain * option msg :=
  match c with
  | (m, true) :: r => (r, Some m)
  | _ => (c, None)
  end.
(* Len walks the links from head.next *)
Fixpoint ch_len (c : chain) : Z :=
  match c with
  | (_, true) :: r => 1 + ch_len r
  | _ => 0
  end.
Definition ch_empty (c : chain) : bool := match c with (_, true) :: _ => false | _ => true end.

Definition unb_model : mbmodel :=
  {| mstate := chain; minit := [];
     menq := fun c m => (ch_link (ch_swap c m) m, 1);
     mdeq := ch_deq; mlen := ch_len; mempty := ch_empty |}.

(* ------------------------------------------------------------------------------------------ *)
(* UnboundedSegmentedMailbox: list of fixed-size segments (head first, tail last), each with a
   write index (FAA, keeps growing past the segment size on a full segment), a dequeue index and
   its slots.  K is the segment size (256 in the code). *)
Record seg := mkSeg { sw : nat; sd : nat; sdata : list (option msg) }.
Record segst := mkSegSt { segs : list seg; slen : Z }.

Definition new_seg (K : nat) : seg := mkSeg 0 0 (repeat None K).

Definition seg_init (K : nat) : segst := mkSegSt [new_seg K] 0.

(* one pass of the Enqueue loop on the tail segment *)
Definition seg_try (K : nat) (t : seg) (m : msg) : seg * bool :=
  let idx := sw t in
  if (idx <? K)%nat then (mkSeg (S idx) (sd t) (upd (sdata t) idx (Some m)), true)
  else (mkSeg (S idx) (sd t) (sdata t), false).

Definition seg_enq (K : nat) (s : segst) (m : msg) : segst * Z :=
  match rev (segs s) with
  | [] => (s, 1)
  | t :: before =>
      let '(t1, ok) := seg_try K t m in
      if ok then (mkSegSt (rev (t1 :: before)) (slen s + 1), 1)
      else (* full: link a fresh segment, advance the tail, retry *)
        let '(n1, _) := seg_try K (new_seg K) m in
        (mkSegSt (rev (n1 :: t1 :: before)) (slen s + 1), 1)
  end.

Fixpoint seg_deq_loop (K : nat) (fuel : nat) (l : list seg) : list seg * option msg :=
  match fuel, l with
  | S f, h :: rest =>
      let enq := Nat.min (sw h) K in
      if (sd h <? enq)%nat then
        match nth (sd h) (sdata h) None with
        | None => (l, None)                       (* reserved, not yet published *)
        | Some m => (mkSeg (sw h) (S (sd h)) (upd (sdata h) (sd h) None) :: rest, Some m)
        end
      else match rest with
           | [] => (l, None)
           | _ => seg_deq_loop K f rest          (* drained: recycle the head, move on *)
           end
  | _, _ => (l, None)
  end.

Definition seg_deq (K : nat) (s : segst) : segst * option msg :=
  let '(l, r) := seg_deq_loop K (S (length (segs s))) (segs s) in
  match r with
  | Some m => (mkSegSt l (slen s - 1), Some m)
  | None => (mkSegSt l (slen s), None)
  end.

Definition seg_empty (K : nat) (s : segst) : bool :=
  match segs s with
  | [] => true
  | h :: rest => if (sd h <? Nat.min (sw h) K)%nat then false else match rest with [] => true | _ => false end
  end.

Definition seg_model (K : nat) : mbmodel :=
  {| mstate := segst; minit := seg_init K; menq := seg_enq K; mdeq := seg_deq K;
     mlen := slen; mempty := seg_empty K |}.

(* ------------------------------------------------------------------------------------------ *)
(* UnboundedFairMailbox, as coded (the sub-queue-looks-empty branch of Dequeue does not re-arm):
   sender key -> box (sub-queue, active flag, pending counter); queue of active sender keys. *)
Record sbox := mkBox { bq : chain; bactive : bool; bpending : Z }.
Record fairst := mkFair { fboxes : list (Z * sbox); factive : list Z; flen : Z }.

Fixpoint box_get (l : list (Z * sbox)) (k : Z) : option sbox :=
  match l with
  | [] => None
  | (k', b) :: r => if k' =? k then Some b else box_get r k
  end.
Fixpoint box_set (l : list (Z * sbox)) (k : Z) (b : sbox) : list (Z * sbox) :=
  match l with
  | [] => [(k, b)]
  | (k', b') :: r => if k' =? k then (k, b) :: r else (k', b') :: box_set r k b
  end.

Definition fair_init : fairst := mkFair [] [] 0.

Definition fair_enq (s : fairst) (m : msg) : fairst * Z :=
  let k := msender m in
  let b := match box_get (fboxes s) k with Some b => b | None => mkBox [] false 0 end in
  let q := ch_link (ch_swap (bq b) m) m in
  let pending := bpending b + 1 in
  if (pending =? 1) && negb (bactive b)
  then (mkFair (box_set (fboxes s) k (mkBox q true pending)) (factive s ++ [k]) (flen s + 1), 1)
  else (mkFair (box_set (fboxes s) k (mkBox q (bactive b) pending)) (factive s) (flen s + 1), 1).

(* finalizeSender *)
Definition fair_finalize (boxes : list (Z * sbox)) (act : list Z) (k : Z) (q : chain) (remaining : Z)
  : list (Z * sbox) * list Z :=
  if remaining >? 0 then (box_set boxes k (mkBox q true remaining), act ++ [k])
  else
    let pending := if remaining <? 0 then 0 else remaining in
    (* active.Store(false); if pending > 0 && CAS(false,true) then re-enqueue *)
    if pending >? 0 then (box_set boxes k (mkBox q true pending), act ++ [k])
    else (box_set boxes k (mkBox q false pending), act).

Definition fair_deq (s : fairst) : fairst * option msg :=
  match factive s with
  | [] => (s, None)
  | k :: act =>
      match box_get (fboxes s) k with
      | None => (mkFair (fboxes s) act (flen s), None)
      | Some b =>
          match ch_deq (bq b) with
          | (_, None) =>
              (* "per-sender queue was drained concurrently; mark inactive" — no re-check of pending *)
              (mkFair (box_set (fboxes s) k (mkBox (bq b) false (bpending b))) act (flen s), None)
          | (q, Some m) =>
              let '(boxes, act') := fair_finalize (fboxes s) act k q (bpending b - 1) in
              (mkFair boxes act' (flen s - 1), Some m)
          end
      end
  end.

Definition fair_model : mbmodel :=
  {| mstate := fairst; minit := fair_init; menq := fair_enq; mdeq := fair_deq;
     mlen := flen; mempty := fun s => flen s =? 0 |}.

(* ------------------------------------------------------------------------------------------ *)
(* Vyukov bounded ring (NonBlockingBoundedMailbox; the Workiva ring of BoundedMailbox has the same
   cells and only differs in what a full ring does to the caller). *)
Definition smear (v : Z) : Z :=
  let v := Z.lor v (Z.shiftr v 1) in
  let v := Z.lor v (Z.shiftr v 2) in
  let v := Z.lor v (Z.shiftr v 4) in
  let v := Z.lor v (Z.shiftr v 8) in
  let v := Z.lor v (Z.shiftr v 16) in
  Z.lor v (Z.shiftr v 32).

(* actor/non_blocking_bounded_mailbox.go nextPowerOfTwo *)
Definition nextPowerOfTwo (n : Z) : Z := if n <=? 2 then 2 else smear (n - 1) + 1.

Record cell := mkCell { cseq : Z; cctx : option msg }.
Record ringst := mkRing { rcells : list cell; rmask : Z; renq : Z; rdeq : Z; rpend : option msg }.

Definition ring_init (size : Z) : ringst :=
  mkRing (map (fun i => mkCell (Z.of_nat i) None) (seq 0 (Z.to_nat size))) (size - 1) 0 0 None.

Definition cell_at (s : ringst) (pos : Z) : cell :=
  nth (Z.to_nat (Z.land pos (rmask s))) (rcells s) (mkCell (-1) None).
Definition set_cell (s : ringst) (pos : Z) (c : cell) : list cell :=
  upd (rcells s) (Z.to_nat (Z.land pos (rmask s))) c.

(* code: 1 stored, 0 full *)
Definition ring_put (s : ringst) (m : msg) : ringst * Z :=
  let pos := renq s in
  let c := cell_at s pos in
  let dif := cseq c - pos in
  if dif =? 0 then (mkRing (set_cell s pos (mkCell (pos + 1) (Some m))) (rmask s) (pos + 1) (rdeq s) (rpend s), 1)
  else (s, 0).

Definition ring_get (s : ringst) : ringst * option msg :=
  let pos := rdeq s in
  let c := cell_at s pos in
  let dif := cseq c - (pos + 1) in
  if dif =? 0 then (mkRing (set_cell s pos (mkCell (pos + rmask s + 1) None)) (rmask s) (renq s) (pos + 1) (rpend s), cctx c)
  else (s, None).

Definition ring_len (s : ringst) : Z := if renq s <=? rdeq s then 0 else renq s - rdeq s.

Definition ring_model (size : Z) : mbmodel :=
  {| mstate := ringst; minit := ring_init size; menq := ring_put; mdeq := ring_get;
     mlen := ring_len; mempty := fun s => ring_len s =? 0 |}.
Definition nbb_model (cap : Z) : mbmodel := ring_model (nextPowerOfTwo cap).

(* BoundedMailbox over the Workiva ring (with the repair of fixes/C04-bounded-capacity-one.diff:
   at least two cells).  Put on a full ring blocks (result 2, the message waits in [rpend]);
   the next successful Dequeue lets it in. *)
Definition wb_enq (s : ringst) (m : msg) : ringst * Z :=
  let '(s', r) := ring_put s m in
  if r =? 1 then (s', 1)
  else (mkRing (rcells s) (rmask s) (renq s) (rdeq s) (Some m), 2).

Definition wb_deq (s : ringst) : ringst * option msg :=
  if ring_len s >? 0 then
    let '(s', r) := ring_get s in
    match r, rpend s' with
    | Some _, Some p => (fst (ring_put (mkRing (rcells s') (rmask s') (renq s') (rdeq s') None) p), r)
    | _, _ => (s', r)
    end
  else (s, None).

Definition wb_ring_model (size : Z) : mbmodel :=
  {| mstate := ringst; minit := ring_init size; menq := wb_enq; mdeq := wb_deq;
     mlen := ring_len; mempty := fun s => ring_len s =? 0 |}.
Definition wb_model (cap : Z) : mbmodel := wb_ring_model (nextPowerOfTwo cap).

(* ------------------------------------------------------------------------------------------ *)
(* binary heap on a slice: container/heap up/down and stableHeap.up/down are the same loops *)
Section Heap.
  Context {A : Type}.
  Variable less : A -> A -> bool.

  Definition lessAt (l : list A) (i j : nat) : bool :=
    match nth_error l i, nth_error l j with
    | Some a, Some b => less a b
    | _, _ => false
    end.

  Definition swap (l : list A) (i j : nat) : list A :=
    match nth_error l i, nth_error l j with
    | Some a, Some b => upd (upd l i b) j a
    | _, _ => l
    end.

  Fixpoint up (fuel : nat) (l : list A) (j : nat) : list A :=
    match fuel with
    | O => l
    | S f =>
        let i := ((j - 1) / 2)%nat in
        if (i =? j)%nat || negb (lessAt l j i) then l else up f (swap l i j) i
    end.

  Fixpoint down (fuel : nat) (l : list A) (i n : nat) : list A :=
    match fuel with
    | O => l
    | S f =>
        let left := (2 * i + 1)%nat in
        if (n <=? left)%nat then l
        else
          let child := if (left + 1 <? n)%nat && lessAt l (left + 1) left then (left + 1)%nat else left in
          if negb (lessAt l child i) then l else down f (swap l i child) child n
    end.

  Definition hpush (l : list A) (x : A) : list A :=
    let l' := l ++ [x] in up (length l') l' (length l' - 1).

  Definition hpop (l : list A) : option (A * list A) :=
    match l with
    | [] => None
    | _ =>
        let n := (length l - 1)%nat in
        let l2 := down (length l) (swap l 0 n) 0 n in
        match nth_error l2 n with
        | Some x => Some (x, firstn n l2)
        | None => None
        end
    end.
End Heap.

(* UnboundedPriorityMailBox: heap under a lock, separate length counter *)
Record upst := mkUp { uheap : list msg; ulen : Z }.
Definition up_enq (pf : Z) (s : upst) (m : msg) : upst * Z :=
  (mkUp (hpush (pless pf) (uheap s) m) (ulen s + 1), 1).
Definition up_deq (pf : Z) (s : upst) : upst * option msg :=
  if ulen s =? 0 then (s, None)
  else match hpop (pless pf) (uheap s) with
       | Some (m, h) => (mkUp h (ulen s - 1), Some m)
       | None => (s, None)
       end.
Definition uprio_model (pf : Z) : mbmodel :=
  {| mstate := upst; minit := mkUp [] 0; menq := up_enq pf; mdeq := up_deq pf;
     mlen := ulen; mempty := fun s => ulen s =? 0 |}.

(* Treiber intake: push conses, drain reverses to arrival order *)
Definition intake := list msg.
Definition in_push (i : intake) (m : msg) : intake := m :: i.
Definition in_drain (i : intake) : list msg := rev i.

(* intake-based priority mailboxes; cap = None for the unbounded one *)
Record ipst (E : Type) := mkIp { iintake : intake; iheap : list E; iseq : Z; ilen : Z }.
Arguments mkIp {E}. Arguments iintake {E}. Arguments iheap {E}. Arguments iseq {E}. Arguments ilen {E}.

Definition ip_enq {E} (cap : option Z) (s : ipst E) (m : msg) : ipst E * Z :=
  match cap with
  | Some c =>
      if ilen s + 1 >? c then (s, 0)     (* Add(+1) > capacity: Add(-1), ErrMailboxFull *)
      else (mkIp (in_push (iintake s) m) (iheap s) (iseq s) (ilen s + 1), 1)
  | None => (mkIp (in_push (iintake s) m) (iheap s) (iseq s) (ilen s + 1), 1)
  end.

(* stable: elements carry the sequence assigned when drained *)
Definition sless (pf : Z) (a b : msg * Z) : bool :=
  if pless pf (fst a) (fst b) then true
  else if pless pf (fst b) (fst a) then false
  else snd a <? snd b.

Fixpoint drain_stable (pf : Z) (ms : list msg) (h : list (msg * Z)) (sq : Z) : list (msg * Z) * Z :=
  match ms with
  | [] => (h, sq)
  | m :: r => drain_stable pf r (hpush (sless pf) h (m, sq)) (sq + 1)
  end.

Definition st_deq (pf : Z) (s : ipst (msg * Z)) : ipst (msg * Z) * option msg :=
  if ilen s =? 0 then (s, None)
  else
    let '(h, sq) := drain_stable pf (in_drain (iintake s)) (iheap s) (iseq s) in
    match hpop (sless pf) h with
    | Some (x, h') => (mkIp [] h' sq (ilen s - 1), Some (fst x))
    | None => (mkIp [] h sq (ilen s), None)
    end.

Definition stable_model (cap : option Z) (pf : Z) : mbmodel :=
  {| mstate := ipst (msg * Z); minit := mkIp [] [] 0 0; menq := ip_enq cap; mdeq := st_deq pf;
     mlen := ilen; mempty := fun s => ilen s =? 0 |}.

Fixpoint drain_plain (pf : Z) (ms : list msg) (h : list msg) : list msg :=
  match ms with
  | [] => h
  | m :: r => drain_plain pf r (hpush (pless pf) h m)
  end.

Definition bp_deq (pf : Z) (s : ipst msg) : ipst msg * option msg :=
  if ilen s =? 0 then (s, None)
  else
    let h := drain_plain pf (in_drain (iintake s)) (iheap s) in
    match hpop (pless pf) h with
    | Some (x, h') => (mkIp [] h' (iseq s) (ilen s - 1), Some x)
    | None => (mkIp [] h (iseq s) (ilen s), None)
    end.

Definition bprio_model (cap pf : Z) : mbmodel :=
  {| mstate := ipst msg; minit := mkIp [] [] 0 0; menq := ip_enq (Some cap); mdeq := bp_deq pf;
     mlen := ilen; mempty := fun s => ilen s =? 0 |}.

(* ------------------------------------------------------------------------------------------ *)
(* kinds as the harness numbers them *)
Definition segmentSize : nat := 256.

Definition run_kind (kind cap pf : Z) (ops : list op) : list (Z * Z * Z) :=
  match kind with
  | 0 => mrun unb_model (minit unb_model) ops
  | 1 => mrun (seg_model segmentSize) (minit (seg_model segmentSize)) ops
  | 2 => mrun fair_model (minit fair_model) ops
  | 3 => mrun (wb_model cap) (minit (wb_model cap)) ops
  | 4 => mrun (nbb_model cap) (minit (nbb_model cap)) ops
  | 5 => mrun (uprio_model pf) (minit (uprio_model pf)) ops
  | 6 => mrun (stable_model None pf) (minit (stable_model None pf)) ops
  | 7 => mrun (bprio_model cap pf) (minit (bprio_model cap pf)) ops
  | _ => mrun (stable_model (Some cap) pf) (minit (stable_model (Some cap) pf)) ops
  end.

(* ------------------------------------------------------------------------------------------ *)
(* Sequential specifications (what the documentation promises) *)

(* FIFO queue, optional capacity; a blocking put parks one message until the next take *)
Record fifost := mkFifo { fq : list msg; fpend : option msg }.
Definition fifo_spec (cap : option Z) (blocking : bool) : mbmodel :=
  {| mstate := fifost; minit := mkFifo [] None;
     menq := fun s m =>
       match cap with
       | Some c => if Z.of_nat (length (fq s)) <? c then (mkFifo (fq s ++ [m]) (fpend s), 1)
                   else if blocking then (mkFifo (fq s) (Some m), 2) else (s, 0)
       | None => (mkFifo (fq s ++ [m]) (fpend s), 1)
       end;
     mdeq := fun s =>
       match fq s with
       | [] => (s, None)
       | m :: r => match fpend s with
                   | Some p => (mkFifo (r ++ [p]) None, Some m)
                   | None => (mkFifo r None, Some m)
                   end
       end;
     mlen := fun s => Z.of_nat (length (fq s));
     mempty := fun s => match fq s with [] => true | _ => false end |}.

(* fair: per-sender FIFO queues served round-robin in activation order *)
Definition rrst := list (Z * list msg).   (* active senders in service order, queues non-empty *)
Fixpoint rr_add (s : rrst) (k : Z) (m : msg) : rrst :=
  match s with
  | [] => [(k, [m])]
  | (k', q) :: r => if k' =? k then (k', q ++ [m]) :: r else (k', q) :: rr_add r k m
  end.
Definition rr_spec : mbmodel :=
  {| mstate := rrst; minit := [];
     menq := fun s m => (rr_add s (msender m) m, 1);
     mdeq := fun s =>
       match s with
       | [] => (s, None)
       | (k, []) :: r => (r, None)
       | (k, [m]) :: r => (r, Some m)
       | (k, m :: q) :: r => (r ++ [(k, q)], Some m)
       end;
     mlen := fun s => fold_right (fun kq acc => Z.of_nat (length (snd kq)) + acc) 0 s;
     mempty := fun s => match s with [] => true | _ => false end |}.

(* stable priority queue: held messages in arrival order; take the FIRST minimal one *)
Fixpoint extract_min (less : msg -> msg -> bool) (x : msg) (r : list msg) : msg * list msg :=
  match r with
  | [] => (x, [])
  | y :: r' => let '(b, rest) := extract_min less y r' in
               if less b x then (b, x :: rest) else (x, r)
  end.
Definition pq_spec (cap : option Z) (pf : Z) : mbmodel :=
  {| mstate := list msg; minit := [];
     menq := fun s m =>
       match cap with
       | Some c => if Z.of_nat (length s) <? c then (s ++ [m], 1) else (s, 0)
       | None => (s ++ [m], 1)
       end;
     mdeq := fun s =>
       match s with
       | [] => (s, None)
       | x :: r => let '(b, rest) := extract_min (pless pf) x r in (rest, Some b)
       end;
     mlen := fun s => Z.of_nat (length s);
     mempty := fun s => match s with [] => true | _ => false end |}.
