(* C04/ConcFair.v — UnboundedFairMailbox at atomic-step granularity, as coded (no repair).

   producer (Enqueue m, key k = sender of m)          consumer (Dequeue)
     p1  sub-queue tail swap            (k's box)        c1  activeSenders.dequeue: head linked? pop key
     p2  sub-queue link                                  c2  sub-queue Dequeue: head linked? pop message
     p3  length.Add(+1)                                  c3n active.Store(false); return nil      <- no re-check of pending
     p4  v := pending.Add(+1); v == 1 ?                  c3  length.Add(-1)
     p5  active.CAS(false,true)                          c4  remaining := pending.Add(-1)
     p6  activeSenders tail swap                         c5  remaining > 0: activeSenders swap ; c6 link
     p7  activeSenders link                              c7  active.Store(false) ; c8 pending > 0 && CAS: swap; link

   A schedule is the list of thread ids that take the next step.  [fair_stall] runs the two-producer
   schedule found on the real code (checks/C04.py, scenario fair/samekey-2p) and ends in a quiescent
   state in which two accepted messages can never be dequeued. *)
From Coq Require Import ZArith List Bool Arith Lia.
Import ListNotations.
From GV Require Import C04.Model.
Open Scope Z_scope.

Record cbox := mkCB { cchain : chain; cact : bool; cpend : Z }.

Inductive ppc :=
| PIdle | PSwapped (m : msg) | PLinked (m : msg) | PCounted (m : msg) | PCas (m : msg)
| PASwap (m : msg) | PALink (m : msg).

Inductive cpc :=
| CIdle | CSub (k : Z) | CNil (k : Z) | CLen (k : Z) (m : msg) | CPend (k : Z) (m : msg)
| CReSwap (k : Z) (m : msg) | CReLink (k : Z) (m : msg) | CFalse (k : Z) (m : msg) | CRecheck (k : Z) (m : msg).

Record cst := mkC {
  cboxes : list (Z * cbox);
  caq : list (Z * bool);              (* activeSenders: keys in tail-swap order, linked flag *)
  clength : Z;
  cprods : list (ppc * list msg);     (* per producer: pc, messages still to send *)
  ccons : cpc * nat;                  (* consumer pc, Dequeue calls still to make *)
  couts : list (option Z);            (* results of the completed Dequeue calls *)
  cdone : list Z                      (* ghost: ids whose Enqueue has returned *)
}.

Fixpoint cb_get (l : list (Z * cbox)) (k : Z) : cbox :=
  match l with
  | [] => mkCB [] false 0
  | (k', b) :: r => if k' =? k then b else cb_get r k
  end.
Fixpoint cb_set (l : list (Z * cbox)) (k : Z) (b : cbox) : list (Z * cbox) :=
  match l with
  | [] => [(k, b)]
  | (k', b') :: r => if k' =? k then (k, b) :: r else (k', b') :: cb_set r k b
  end.

Fixpoint aq_link (q : list (Z * bool)) (k : Z) : list (Z * bool) :=
  match q with
  | [] => []
  | (x, l) :: r => if (x =? k) && negb l then (x, true) :: r else (x, l) :: aq_link r k
  end.

Definition set_prod (s : cst) (i : nat) (p : ppc * list msg) : list (ppc * list msg) := upd (cprods s) i p.

Definition with_box (s : cst) (k : Z) (f : cbox -> cbox) : list (Z * cbox) :=
  cb_set (cboxes s) k (f (cb_get (cboxes s) k)).

(* one step of producer i *)
Definition pstep (s : cst) (i : nat) : cst :=
  match nth_error (cprods s) i with
  | None => s
  | Some (pc, rest) =>
      match pc with
      | PIdle =>
          match rest with
          | [] => s
          | m :: r =>
              mkC (with_box s (msender m) (fun b => mkCB (ch_swap (cchain b) m) (cact b) (cpend b)))
                  (caq s) (clength s) (set_prod s i (PSwapped m, r)) (ccons s) (couts s) (cdone s)
          end
      | PSwapped m =>
          mkC (with_box s (msender m) (fun b => mkCB (ch_link (cchain b) m) (cact b) (cpend b)))
              (caq s) (clength s) (set_prod s i (PLinked m, rest)) (ccons s) (couts s) (cdone s)
      | PLinked m =>
          mkC (cboxes s) (caq s) (clength s + 1) (set_prod s i (PCounted m, rest)) (ccons s) (couts s) (cdone s)
      | PCounted m =>
          let b := cb_get (cboxes s) (msender m) in
          let v := cpend b + 1 in
          mkC (cb_set (cboxes s) (msender m) (mkCB (cchain b) (cact b) v)) (caq s) (clength s)
              (set_prod s i (if v =? 1 then (PCas m, rest) else (PIdle, rest))) (ccons s) (couts s)
              (if v =? 1 then cdone s else mid m :: cdone s)
      | PCas m =>
          let b := cb_get (cboxes s) (msender m) in
          if cact b then
            mkC (cboxes s) (caq s) (clength s) (set_prod s i (PIdle, rest)) (ccons s) (couts s) (mid m :: cdone s)
          else
            mkC (cb_set (cboxes s) (msender m) (mkCB (cchain b) true (cpend b))) (caq s) (clength s)
                (set_prod s i (PASwap m, rest)) (ccons s) (couts s) (cdone s)
      | PASwap m =>
          mkC (cboxes s) (caq s ++ [(msender m, false)]) (clength s) (set_prod s i (PALink m, rest)) (ccons s) (couts s) (cdone s)
      | PALink m =>
          mkC (cboxes s) (aq_link (caq s) (msender m)) (clength s) (set_prod s i (PIdle, rest)) (ccons s) (couts s) (mid m :: cdone s)
      end
  end.

(* one step of the consumer *)
Definition cstep (s : cst) : cst :=
  let '(pc, n) := ccons s in
  let ret (r : option Z) (boxes : list (Z * cbox)) (aq : list (Z * bool)) (len : Z) :=
      mkC boxes aq len (cprods s) (CIdle, n) (couts s ++ [r]) (cdone s) in
  match pc with
  | CIdle =>
      match n with
      | O => s
      | S n' =>
          match caq s with
          | (k, true) :: r => mkC (cboxes s) r (clength s) (cprods s) (CSub k, n') (couts s) (cdone s)
          | _ => mkC (cboxes s) (caq s) (clength s) (cprods s) (CIdle, n') (couts s ++ [None]) (cdone s)
          end
      end
  | CSub k =>
      let b := cb_get (cboxes s) k in
      match ch_deq (cchain b) with
      | (q, Some m) => mkC (cb_set (cboxes s) k (mkCB q (cact b) (cpend b))) (caq s) (clength s) (cprods s) (CLen k m, n) (couts s) (cdone s)
      | (_, None) => mkC (cboxes s) (caq s) (clength s) (cprods s) (CNil k, n) (couts s) (cdone s)
      end
  | CNil k =>
      let b := cb_get (cboxes s) k in
      ret None (cb_set (cboxes s) k (mkCB (cchain b) false (cpend b))) (caq s) (clength s)
  | CLen k m =>
      mkC (cboxes s) (caq s) (clength s - 1) (cprods s) (CPend k m, n) (couts s) (cdone s)
  | CPend k m =>
      let b := cb_get (cboxes s) k in
      let rem := cpend b - 1 in
      if rem >? 0 then
        mkC (cb_set (cboxes s) k (mkCB (cchain b) (cact b) rem)) (caq s) (clength s) (cprods s) (CReSwap k m, n) (couts s) (cdone s)
      else
        mkC (cb_set (cboxes s) k (mkCB (cchain b) (cact b) (if rem <? 0 then 0 else rem))) (caq s) (clength s)
            (cprods s) (CFalse k m, n) (couts s) (cdone s)
  | CReSwap k m =>
      mkC (cboxes s) (caq s ++ [(k, false)]) (clength s) (cprods s) (CReLink k m, n) (couts s) (cdone s)
  | CReLink k m =>
      ret (Some (mid m)) (cboxes s) (aq_link (caq s) k) (clength s)
  | CFalse k m =>
      let b := cb_get (cboxes s) k in
      mkC (cb_set (cboxes s) k (mkCB (cchain b) false (cpend b))) (caq s) (clength s) (cprods s) (CRecheck k m, n) (couts s) (cdone s)
  | CRecheck k m =>
      let b := cb_get (cboxes s) k in
      if (cpend b >? 0) && negb (cact b) then
        mkC (cb_set (cboxes s) k (mkCB (cchain b) true (cpend b))) (caq s) (clength s) (cprods s) (CReSwap k m, n) (couts s) (cdone s)
      else ret (Some (mid m)) (cboxes s) (caq s) (clength s)
  end.

(* thread ids: 0 .. (number of producers - 1) are producers, anything else is the consumer *)
Definition fstep (s : cst) (t : nat) : cst :=
  if (t <? length (cprods s))%nat then pstep s t else cstep s.

Definition frun (sched : list nat) (s : cst) : cst := fold_left fstep sched s.

Definition finit (progs : list (list msg)) (deqs : nat) : cst :=
  mkC [] [] 0 (map (fun p => (PIdle, p)) progs) (CIdle, deqs) [] [].

(* every producer has returned from all its Enqueue calls and the consumer is between calls *)
Definition quiescent (s : cst) : bool :=
  forallb (fun p => match p with (PIdle, []) => true | _ => false end) (cprods s) &&
  match fst (ccons s) with CIdle => true | _ => false end.

(* ------------------------------------------------------------------------------------------ *)
(* The stall.  Producers 0 and 1 use the same sender key 7. *)
Definition m1 := mkMsg 1 7 0.
Definition m2 := mkMsg 2 7 0.
Definition stall_schedule : list nat :=
  ([0]                         (* P0: sub-queue tail swap, not yet linked *)
  ++ [1; 1; 1; 1; 1; 1; 1]     (* P1: whole Enqueue: pending 0 -> 1, activates the sender *)
  ++ [2; 2; 2]                 (* consumer: pops the sender, sub-queue head unlinked -> nil, active := false *)
  ++ [0; 0; 0]                 (* P0: link, length++, pending 1 -> 2 (not 1: no activation); returns *)
  ++ [2; 2])%nat.              (* consumer: nothing active: nil, nil *)

Definition stalled : cst := frun stall_schedule (finit [[m1]; [m2]] 3).

Lemma stalled_facts :
  quiescent stalled = true /\ clength stalled = 2 /\ caq stalled = [] /\
  couts stalled = [None; None; None] /\ cdone stalled = [1; 2] /\
  cchain (cb_get (cboxes stalled) 7) = [(m1, true); (m2, true)] /\
  cact (cb_get (cboxes stalled) 7) = false /\ cpend (cb_get (cboxes stalled) 7) = 2.
Proof. vm_compute. repeat split; reflexivity. Qed.

(* Once the active-senders queue is empty and nobody is running, every further Dequeue returns
   nil and changes nothing: the accepted messages stay in their sub-queue forever. *)
Lemma idle_consumer_stays_stuck s n :
  caq s = [] -> ccons s = (CIdle, n) ->
  let s' := frun (repeat (length (cprods s)) n) s in
  caq s' = [] /\ clength s' = clength s /\ cboxes s' = cboxes s /\ cprods s' = cprods s /\
  couts s' = couts s ++ repeat None n /\ ccons s' = (CIdle, O).
Proof.
  revert s. induction n as [|n IH]; intros s Haq Hc.
  - simpl. rewrite app_nil_r. repeat split; auto.
  - set (s1 := mkC (cboxes s) [] (clength s) (cprods s) (CIdle, n) (couts s ++ [None]) (cdone s)).
    assert (E1 : fstep s (length (cprods s)) = s1).
    { unfold fstep. rewrite Nat.ltb_irrefl. unfold cstep. rewrite Hc, Haq. reflexivity. }
    change (frun (repeat (length (cprods s)) (S n)) s)
      with (frun (repeat (length (cprods s)) n) (fstep s (length (cprods s)))).
    rewrite E1. specialize (IH s1 eq_refl eq_refl). cbv zeta in IH.
    change (cprods s1) with (cprods s) in IH. destruct IH as [A [B [C [D [E F]]]]].
    cbv zeta. repeat split; try assumption.
    rewrite E. change (couts s1) with (couts s ++ [None]). rewrite <- app_assoc. reflexivity.
Qed.

(* No matter how many more times the consumer calls Dequeue, it gets nil, while Len stays 2. *)
Theorem fair_stall_is_permanent n :
  let s := frun (repeat 2%nat n) (mkC (cboxes stalled) (caq stalled) (clength stalled) (cprods stalled) (CIdle, n) [] (cdone stalled)) in
  couts s = repeat None n /\ clength s = 2.
Proof.
  set (s0 := mkC (cboxes stalled) (caq stalled) (clength stalled) (cprods stalled) (CIdle, n) [] (cdone stalled)).
  assert (Hl : length (cprods s0) = 2%nat) by (vm_compute; reflexivity).
  destruct (idle_consumer_stays_stuck s0 n) as [_ [B [_ [_ [E _]]]]].
  - vm_compute. reflexivity.
  - reflexivity.
  - rewrite Hl in *. simpl. split; [exact E | rewrite B; vm_compute; reflexivity].
Qed.

(* Sanity: without the preemption (P0 runs to completion first) everything is delivered. *)
Example fair_no_preemption_delivers :
  couts (frun ([0;0;0;0;0;0;0] ++ [1;1;1;1] ++ [2;2;2;2;2;2;2;2;2;2;2;2;2;2;2;2;2;2])%nat (finit [[m1]; [m2]] 3))
  = [Some 1; Some 2; None].
Proof. vm_compute. reflexivity. Qed.
