(* C04/ConcPrio.v — the priority mailboxes under concurrency: any number of producers, one consumer,
   every interleaving of their atomic steps.

   Intake-based mailboxes (UnboundedStablePriority, BoundedPriority, BoundedStablePriority):
     producer   admit   v := length.Add(+1); bounded: v > capacity => the call is going to be refused
                undo    length.Add(-1); return ErrMailboxFull
                push    Treiber push (one successful CAS): the message is now reachable; return nil
     consumer   take    length.Load()==0 => nil; SwapPointer(intake) + heap push + pop => nil or a message
                dec     length.Add(-1)
   [held] abstracts intake + heap as a multiset (WHICH message pop returns is the sequential
   theorem of Prio.v; here only counting, conservation and emptiness matter).

   UnboundedPriorityMailBox (heap under a mutex, counter bumped AFTER the push):
     producer   lpush   Lock; heap.Push; Unlock            linc   length.Add(+1); return nil
     consumer   ltake   length.Load()==0 => nil; Lock; Pop; Unlock        ldec   length.Add(-1)   *)
From Coq Require Import ZArith List Bool Arith Lia Permutation.
Import ListNotations.
From GV Require Import C04.Model.
Open Scope Z_scope.

(* ------------------------------------------------------------------------------------------ *)
Section Intake.
  Variable cap : option Z.

  Record ist := mkI {
    ilenc : Z;                 (* the atomic length counter *)
    iheld : list msg;          (* pushed, not yet taken *)
    iadm : list msg;           (* admitted producers that have not pushed yet *)
    irej : nat;                (* producers that saw v > capacity and have not undone it yet *)
    icp : bool;                (* consumer between take and dec *)
    ipushed : list msg;        (* ghost: every message whose Enqueue returned nil *)
    iout : list msg            (* ghost: everything Dequeue returned *)
  }.

  Definition i0 : ist := mkI 0 [] [] 0 false [] [].

  Definition over (v : Z) : bool := match cap with Some c => v >? c | None => false end.

  Inductive ilabel :=
  | IAdmit (m : msg) (refused : bool)
  | IUndo
  | IPush (m : msg)
  | ITake (r : option msg)
  | IDec
  | IIsEmpty (b : bool).

  Inductive istep : ist -> ilabel -> ist -> Prop :=
  | is_admit_ok s m : over (ilenc s + 1) = false ->
      istep s (IAdmit m false) (mkI (ilenc s + 1) (iheld s) (iadm s ++ [m]) (irej s) (icp s) (ipushed s) (iout s))
  | is_admit_over s m : over (ilenc s + 1) = true ->
      istep s (IAdmit m true) (mkI (ilenc s + 1) (iheld s) (iadm s) (S (irej s)) (icp s) (ipushed s) (iout s))
  | is_undo s r : irej s = S r ->
      istep s IUndo (mkI (ilenc s - 1) (iheld s) (iadm s) r (icp s) (ipushed s) (iout s))
  | is_push s m a1 a2 : iadm s = a1 ++ m :: a2 ->
      istep s (IPush m) (mkI (ilenc s) (m :: iheld s) (a1 ++ a2) (irej s) (icp s) (m :: ipushed s) (iout s))
  | is_take_zero s : icp s = false -> ilenc s = 0 ->
      istep s (ITake None) s
  | is_take_none s : icp s = false -> ilenc s <> 0 -> iheld s = [] ->
      istep s (ITake None) s
  | is_take_some s x h1 h2 : icp s = false -> ilenc s <> 0 -> iheld s = h1 ++ x :: h2 ->
      istep s (ITake (Some x)) (mkI (ilenc s) (h1 ++ h2) (iadm s) (irej s) true (ipushed s) (x :: iout s))
  | is_dec s : icp s = true ->
      istep s IDec (mkI (ilenc s - 1) (iheld s) (iadm s) (irej s) false (ipushed s) (iout s))
  | is_isempty s :
      istep s (IIsEmpty (ilenc s =? 0)) s.

  Inductive ireach : ist -> Prop :=
  | ir0 : ireach i0
  | irs s l s' : ireach s -> istep s l s' -> ireach s'.

  Definition zlen {A} (l : list A) : Z := Z.of_nat (length l).

  (* the counter counts: held + admitted-not-pushed + about-to-be-refused + taken-not-decremented *)
  Definition iinv (s : ist) : Prop :=
    ilenc s = zlen (iheld s) + zlen (iadm s) + Z.of_nat (irej s) + b2z (icp s) /\
    match cap with Some c => 0 <= c -> zlen (iheld s) + zlen (iadm s) + b2z (icp s) <= c | None => True end /\
    Permutation (iheld s ++ iout s) (ipushed s).

  Ltac norm := unfold zlen in *; cbn [ilenc iheld iadm irej icp ipushed iout] in *;
               rewrite ?app_length in *; cbn [length b2z] in *.

  Lemma iinv_step s l s' : iinv s -> istep s l s' -> iinv s'.
  Proof.
    unfold iinv. intros [I1 [I2 I3]] Hs.
    assert (Cap : forall a b : Z, a <= b ->
              match cap with Some c => 0 <= c -> b <= c | None => True end ->
              match cap with Some c => 0 <= c -> a <= c | None => True end).
    { intros a b Hab Hb. destruct cap as [c|]; [|exact I]. intros Hc. specialize (Hb Hc). lia. }
    inversion Hs; subst.
    - (* admit, accepted *)
      split; [norm; lia|]. split; [|exact I3].
      match goal with H : over _ = false |- _ => unfold over in H end.
      destruct cap as [c|]; [|exact I]. intros Hc. specialize (I2 Hc). norm.
      match goal with H : (_ >? c) = false |- _ => apply Z.gtb_ltb in H || idtac end.
      destruct (Z.gtb_spec (ilenc s + 1) c); [discriminate|]. lia.
    - (* admit, over capacity *)
      split; [norm; lia|]. split; [exact I2 | exact I3].
    - (* undo *)
      match goal with H : irej s = S _ |- _ => rewrite H in I1 end.
      split; [norm; lia|]. split; [exact I2 | exact I3].
    - (* push *)
      match goal with H : iadm s = _ |- _ => rewrite H in I1, I2 end.
      split; [norm; lia|]. split.
      + eapply Cap; [|exact I2]. norm. lia.
      + cbn [iheld iout ipushed]. simpl. apply perm_skip. exact I3.
    - auto.
    - auto.
    - (* take *)
      match goal with H : iheld s = _ |- _ => rewrite H in I1, I2, I3 end.
      match goal with H : icp s = false |- _ => rewrite H in I1, I2 end.
      split; [norm; lia|]. split.
      + eapply Cap; [|exact I2]. norm. lia.
      + cbn [iheld iout ipushed]. etransitivity; [|exact I3].
        rewrite <- !app_assoc. apply Permutation_app_head. simpl. symmetry. apply Permutation_middle.
    - (* dec *)
      match goal with H : icp s = true |- _ => rewrite H in I1, I2 end.
      split; [norm; lia|]. split; [|exact I3].
      eapply Cap; [|exact I2]. norm. lia.
    - auto.
  Qed.

  Lemma ireach_inv s : ireach s -> iinv s.
  Proof.
    induction 1; [|eapply iinv_step; eauto].
    unfold iinv, zlen; simpl. split; [reflexivity|]. split; [destruct cap; [lia|exact I] | reflexivity].
  Qed.

  (* capacity: never more than capacity messages are held — also counting admitted producers *)
  Theorem intake_capacity c s : cap = Some c -> 0 <= c -> ireach s -> zlen (iheld s) + zlen (iadm s) <= c.
  Proof.
    intros Hc H0 Hr. destruct (ireach_inv s Hr) as [_ [H2 _]]. rewrite Hc in H2. specialize (H2 H0).
    destruct (icp s); simpl in *; lia.
  Qed.

  (* conservation: what Dequeue returned plus what is held is exactly what was accepted *)
  Theorem intake_conservation s : ireach s -> Permutation (iheld s ++ iout s) (ipushed s).
  Proof. intros Hr. destruct (ireach_inv s Hr) as [_ [_ H3]]. exact H3. Qed.

  (* reject only when full — in the form that holds: a refusal means the counter was at capacity,
     i.e. capacity is reached when the in-flight operations are counted, INCLUDING producers that
     are themselves about to be refused and a consumer that has taken but not yet decremented *)
  Theorem intake_reject_partial c s m s' : cap = Some c -> ireach s -> istep s (IAdmit m true) s' ->
    c <= zlen (iheld s) + zlen (iadm s) + Z.of_nat (irej s) + b2z (icp s).
  Proof.
    intros Hc Hr Hs. destruct (ireach_inv s Hr) as [I1 _]. inversion Hs; subst.
    match goal with H : over _ = true |- _ => unfold over in H; rewrite Hc in H;
      destruct (Z.gtb_spec (ilenc s + 1) c); [|discriminate] end. lia.
  Qed.

  (* emptiness: these mailboxes report empty only when no completed enqueue is outstanding *)
  Theorem intake_deq_nil_means_empty s s' : ireach s -> istep s (ITake None) s' -> iheld s = [].
  Proof.
    intros Hr Hs. inversion Hs; subst; [|assumption].
    destruct (ireach_inv s' Hr) as [I1 _]. unfold zlen in I1.
    match goal with H : icp s' = false |- _ => rewrite H in I1 end.
    destruct (iheld s'); [reflexivity|]. cbn [length b2z] in I1. lia.
  Qed.

  Theorem intake_isempty_means_empty s s' : ireach s -> istep s (IIsEmpty true) s' -> iheld s = [].
  Proof.
    intros Hr Hs. destruct (ireach_inv s Hr) as [I1 _].
    assert (Hz : ilenc s = 0 /\ s' = s).
    { remember (IIsEmpty true) as l eqn:El. destruct Hs; inversion El. split; [apply Z.eqb_eq; assumption | reflexivity]. }
    destruct Hz as [Hz ->].
    unfold zlen in I1. destruct (iheld s); [reflexivity|]. cbn [length] in I1. destruct (icp s); cbn [b2z] in I1; lia.
  Qed.
End Intake.

(* The literal "reject only when full" is false: with capacity 1, a producer that is about to be
   refused keeps the counter at 2 while the consumer empties the mailbox; a second producer is then
   refused although NOTHING is held and no accepted enqueue is in flight. *)
Definition mx := mkMsg 9 0 0.
Theorem intake_reject_refuted :
  exists s m s', ireach (Some 1) s /\ istep (Some 1) s (IAdmit m true) s' /\
                 iheld s = [] /\ iadm s = [] /\ icp s = false.
Proof.
  set (s1 := mkI 1 [] [mx] 0 false [] []).
  set (s2 := mkI 1 [mx] [] 0 false [mx] []).
  set (s3 := mkI 2 [mx] [] 1 false [mx] []).        (* producer A: Add(+1) = 2 > 1, not yet undone *)
  set (s4 := mkI 2 [] [] 1 true [mx] [mx]).           (* consumer took the message *)
  set (s5 := mkI 1 [] [] 1 false [mx] [mx]).          (* ... and decremented: empty mailbox, counter 1 *)
  exists s5, (mkMsg 2 0 0), (mkI 2 [] [] 2 false [mx] [mx]).
  assert (R1 : ireach (Some 1) s1) by (eapply irs; [apply ir0 | apply (is_admit_ok (Some 1) (i0) mx); reflexivity]).
  assert (R2 : ireach (Some 1) s2) by (eapply irs; [exact R1 | apply (is_push (Some 1) s1 mx [] []); reflexivity]).
  assert (R3 : ireach (Some 1) s3) by (eapply irs; [exact R2 | apply (is_admit_over (Some 1) s2 (mkMsg 1 0 0)); reflexivity]).
  assert (R4 : ireach (Some 1) s4) by (eapply irs; [exact R3 | apply (is_take_some (Some 1) s3 mx [] []); [reflexivity | discriminate | reflexivity]]).
  assert (R5 : ireach (Some 1) s5) by (eapply irs; [exact R4 | apply (is_dec (Some 1) s4); reflexivity]).
  split; [exact R5|]. split; [apply (is_admit_over (Some 1) s5); reflexivity|]. repeat split.
Qed.

(* ------------------------------------------------------------------------------------------ *)
(* UnboundedPriorityMailBox: push under the lock, counter afterwards *)
Record lst := mkL {
  llen : Z; lheap : list msg;
  lpend : list msg;         (* pushed, length.Add(+1) not yet done: the Enqueue has NOT returned *)
  lcp : bool;
  ldone : list msg          (* ghost: pushed AND counted: the Enqueue returned *)
}.
Definition l0 : lst := mkL 0 [] [] false [].

Inductive llabel := LPush (m : msg) | LInc (m : msg) | LTake (r : option msg) | LDec | LIsEmpty (b : bool).

Inductive lstep : lst -> llabel -> lst -> Prop :=
| ls_push s m : lstep s (LPush m) (mkL (llen s) (m :: lheap s) (m :: lpend s) (lcp s) (ldone s))
| ls_inc s m p1 p2 : lpend s = p1 ++ m :: p2 ->
    lstep s (LInc m) (mkL (llen s + 1) (lheap s) (p1 ++ p2) (lcp s) (m :: ldone s))
| ls_take_zero s : lcp s = false -> llen s = 0 -> lstep s (LTake None) s
| ls_take_some s x h1 h2 : lcp s = false -> llen s <> 0 -> lheap s = h1 ++ x :: h2 ->
    lstep s (LTake (Some x)) (mkL (llen s) (h1 ++ h2) (lpend s) true (ldone s))
| ls_dec s : lcp s = true -> lstep s LDec (mkL (llen s - 1) (lheap s) (lpend s) false (ldone s))
| ls_isempty s : lstep s (LIsEmpty (llen s =? 0)) s.

Inductive lreach : lst -> Prop :=
| lr0 : lreach l0
| lrs s l s' : lreach s -> lstep s l s' -> lreach s'.

Definition linv (s : lst) : Prop :=
  llen s + Z.of_nat (length (lpend s)) = Z.of_nat (length (lheap s)) + b2z (lcp s).

Lemma lreach_inv s : lreach s -> linv s.
Proof.
  induction 1 as [|s l s' Hr IH Hs]; [reflexivity|]. unfold linv in *.
  inversion Hs; subst; cbn [llen lheap lpend lcp ldone] in *.
  - cbn [length]. lia.
  - match goal with H : lpend s = _ |- _ => rewrite H in IH end.
    rewrite !app_length in *. cbn [length] in *. lia.
  - exact IH.
  - match goal with H : lheap s = _ |- _ => rewrite H in IH end.
    match goal with H : lcp s = false |- _ => rewrite H in IH end.
    rewrite !app_length in *. cbn [length b2z] in *. lia.
  - match goal with H : lcp s = true |- _ => rewrite H in IH end. cbn [b2z] in *. lia.
  - exact IH.
Qed.

(* an empty report means: nothing is in the heap, or some Enqueue has pushed but not returned yet *)
Theorem uprio_empty_report_partial s l s' : lreach s -> lstep s l s' ->
  (l = LTake None \/ l = LIsEmpty true) -> lcp s = false -> lheap s = [] \/ lpend s <> [].
Proof.
  intros Hr Hs Hl Hc. pose proof (lreach_inv s Hr) as HI. unfold linv in HI. rewrite Hc in HI. simpl in HI.
  assert (Hz : llen s = 0).
  { destruct Hs; destruct Hl as [Hl|Hl]; try discriminate; try assumption.
    inversion Hl as [E]. apply Z.eqb_eq in E. exact E. }
  destruct (lheap s); [now left|]. right. intros E. rewrite E in HI. simpl in HI. lia.
Qed.

(* The literal clause is false: m2's Enqueue has RETURNED and m2 is still in the heap, yet the
   mailbox reports empty, because the consumer popped m1 whose producer has not counted it yet. *)
Theorem uprio_empty_report_refuted :
  exists s m2, lreach s /\ In m2 (ldone s) /\ In m2 (lheap s) /\ lcp s = false /\
               lstep s (LTake None) s /\ lstep s (LIsEmpty true) s.
Proof.
  set (m1 := mkMsg 1 0 0). set (m2 := mkMsg 2 0 5).
  set (s1 := mkL 0 [m1] [m1] false []).
  set (s2 := mkL 0 [m2; m1] [m2; m1] false []).
  set (s3 := mkL 1 [m2; m1] [m1] false [m2]).       (* m2's Enqueue returned *)
  set (s4 := mkL 1 [m2] [m1] true [m2]).             (* consumer popped m1 (higher priority) *)
  set (s5 := mkL 0 [m2] [m1] false [m2]).
  exists s5, m2.
  assert (R1 : lreach s1) by (eapply lrs; [apply lr0 | apply (ls_push l0 m1)]).
  assert (R2 : lreach s2) by (eapply lrs; [exact R1 | apply (ls_push s1 m2)]).
  assert (R3 : lreach s3) by (eapply lrs; [exact R2 | apply (ls_inc s2 m2 [] [m1]); reflexivity]).
  assert (R4 : lreach s4) by (eapply lrs; [exact R3 | apply (ls_take_some s3 m1 [m2] []); [reflexivity | discriminate | reflexivity]]).
  assert (R5 : lreach s5) by (eapply lrs; [exact R4 | apply (ls_dec s4); reflexivity]).
  split; [exact R5|]. simpl. repeat split; auto.
  - apply ls_take_zero; reflexivity.
  - apply (ls_isempty s5).
Qed.
