(* C19 — the cluster tick claim: for any number of nodes racing, in any interleaving, on the
   put-if-absent registry, at most one wins each (reference, run time) — and exactly one if any
   attempted — as long as every put happens while a winner's entry cannot have expired. *)
From Coq Require Import ZArith List Bool Arith Lia.
From GV Require Import C19.Model.
Import ListNotations.
Open Scope Z_scope.
Arguments winners : simpl never.
Arguments deliveries : simpl never.

Lemma key_eqb_refl k : key_eqb k k = true.
Proof. unfold key_eqb. rewrite Nat.eqb_refl, Z.eqb_refl. reflexivity. Qed.

Lemma key_eqb_eq a b : key_eqb a b = true <-> a = b.
Proof.
  unfold key_eqb. destruct a as [a1 a2], b as [b1 b2]. cbn. rewrite andb_true_iff, Nat.eqb_eq, Z.eqb_eq.
  split; [intros [-> ->]; reflexivity|intros H; inversion H; auto].
Qed.

Lemma key_eqb_sym a b : key_eqb a b = key_eqb b a.
Proof.
  destruct (key_eqb a b) eqn:E.
  - apply key_eqb_eq in E. subst. symmetry. apply key_eqb_refl.
  - destruct (key_eqb b a) eqn:E'; [|reflexivity]. apply key_eqb_eq in E'. subst. rewrite key_eqb_refl in E. discriminate.
Qed.

Definition b2n (b : bool) : nat := if b then 1%nat else 0%nat.

Lemma count_upd (P : node -> bool) l i f n :
  nth_error l i = Some n ->
  (length (filter P (upd_node l i f)) + b2n (P n) = length (filter P l) + b2n (P (f n)))%nat.
Proof.
  revert i. induction l as [|x t IH]; intros [|i] H; simpl in *; try discriminate.
  - inversion H; subst. destruct (P n), (P (f n)); simpl; lia.
  - specialize (IH _ H). destruct (P x); simpl; lia.
Qed.

Lemma nth_error_upd_node_same l i f : nth_error (upd_node l i f) i = option_map f (nth_error l i).
Proof. revert i; induction l; destruct i; simpl; auto. Qed.

Lemma in_upd_node l i f x : In x (upd_node l i f) -> In x l \/ exists n, nth_error l i = Some n /\ x = f n.
Proof.
  revert i. induction l as [|a t IH]; intros [|i] H; simpl in *; try tauto.
  - destruct H as [H|H]; [right; exists a; auto|tauto].
  - destruct H as [H|H]; [tauto|]. destruct (IH _ H) as [H1|H1]; tauto.
Qed.

Lemma filter_length_le {A} (P Q : A -> bool) l :
  (forall x, In x l -> P x = true -> Q x = true) -> (length (filter P l) <= length (filter Q l))%nat.
Proof.
  induction l as [|a t IH]; intros H; simpl; [lia|].
  assert (IH' := IH (fun x Hx => H x (or_intror Hx))).
  destruct (P a) eqn:Ep.
  - rewrite (H a (or_introl eq_refl) Ep). simpl. lia.
  - destruct (Q a); simpl; lia.
Qed.

Definition has_key (reg : list (key * Z)) (k : key) : bool := existsb (fun e => key_eqb (fst e) k) reg.
Arguments has_key : simpl never.

Lemma has_key_filter_other reg k k' :
  k <> k' -> has_key (filter (fun e => negb (key_eqb (fst e) k)) reg) k' = has_key reg k'.
Proof.
  intros Hne. unfold has_key. induction reg as [|e t IH]; simpl; [reflexivity|].
  destruct (key_eqb (fst e) k) eqn:E; simpl.
  - apply key_eqb_eq in E. rewrite IH. destruct (key_eqb (fst e) k') eqn:E'; [apply key_eqb_eq in E'; congruence|reflexivity].
  - rewrite IH. reflexivity.
Qed.

Section Claim.
  (* every node derives the same TTL for a tick (cronClaimTTL of the same cron expression) *)
  Variable ttl_of : key -> Z.

  (* The environment: a claimer uses the tick's TTL; a put happens no earlier than the tick's run
     time and strictly before run time + TTL, i.e. while the entry written by a winner (expiry >=
     run time + TTL) cannot have expired. *)
  Definition valid_label (c : cstate) (l : clabel) : Prop :=
    match l with
    | LArrive k t => t = ttl_of k
    | LPut i now =>
        match nth_error (c_nodes c) i with
        | Some n => snd (n_key n) <= now < snd (n_key n) + n_ttl n
        | None => True
        end
    | _ => True
    end.

  Inductive creach : cstate -> Prop :=
  | creach_init : creach c0
  | creach_step c l : creach c -> valid_label c l -> creach (cstep c l).

  Record cinv (c : cstate) : Prop := mkCinv {
    ci_ttl : forall n, In n (c_nodes c) -> n_ttl n = ttl_of (n_key n);
    ci_exp : forall k e, In (k, e) (c_reg c) -> snd k + ttl_of k <= e;
    ci_win : forall k, winners c k = b2n (has_key (c_reg c) k);
    ci_lost : forall n, In n (c_nodes c) -> n_pc n = PLost -> has_key (c_reg c) (n_key n) = true
  }.

  Lemma winners_app c k n :
    winners (mkC (c_reg c) (c_nodes c ++ [n])) k = (winners c k + b2n (key_eqb (n_key n) k && n_won n))%nat.
  Proof. unfold winners. cbn. rewrite filter_app, app_length. simpl. destruct (key_eqb (n_key n) k && n_won n); reflexivity. Qed.

  Lemma winners_upd c reg' i f n k :
    nth_error (c_nodes c) i = Some n -> n_key (f n) = n_key n ->
    (winners (mkC reg' (upd_node (c_nodes c) i f)) k + b2n (key_eqb (n_key n) k && n_won n) =
     winners c k + b2n (key_eqb (n_key n) k && n_won (f n)))%nat.
  Proof.
    intros Hn Hk. unfold winners. cbn.
    pose proof (count_upd (fun x => key_eqb (n_key x) k && n_won x) (c_nodes c) i f n Hn) as H.
    cbn in H. rewrite Hk in H. exact H.
  Qed.

  Lemma cstep_inv c l : cinv c -> valid_label c l -> cinv (cstep c l).
  Proof.
    intros [Ht He Hw Hl] Hv. destruct l as [k t|i now|i now|i]; cbn [cstep].
    - (* arrive *)
      cbn in Hv. subst t. constructor; cbn.
      + intros n Hin. apply in_app_or in Hin. destruct Hin as [Hin|[<-|[]]]; [apply Ht; assumption|reflexivity].
      + assumption.
      + intros k'. rewrite winners_app. cbn. rewrite andb_false_r. rewrite Hw. cbn. lia.
      + intros n Hin Hp. apply in_app_or in Hin. destruct Hin as [Hin|[<-|[]]]; [apply Hl; assumption|discriminate].
    - (* check *)
      destruct (nth_error (c_nodes c) i) as [n|] eqn:En; [|constructor; assumption].
      destruct (n_pc n) eqn:Ep; try (constructor; assumption; fail).
      set (p := if n_ttl n <? now - snd (n_key n) then PSkipped else PChecked).
      assert (Hnw : n_won n = false) by (unfold n_won; rewrite Ep; reflexivity).
      assert (Hnw' : n_won (set_pc p n) = false) by (unfold n_won, set_pc, p; cbn; destruct (_ <? _); reflexivity).
      constructor; cbn.
      + intros x Hin. destruct (in_upd_node _ _ _ _ Hin) as [H|[n' [H1 ->]]]; [apply Ht; assumption|].
        rewrite En in H1. inversion H1; subst n'. cbn. apply Ht. eapply nth_error_In; eassumption.
      + assumption.
      + intros k'. pose proof (winners_upd c (c_reg c) i (set_pc p) n k' En eq_refl) as H.
        rewrite Hnw, Hnw' in H. rewrite !andb_false_r in H. cbn in H. rewrite <- Hw. lia.
      + intros x Hin Hp. destruct (in_upd_node _ _ _ _ Hin) as [H|[n' [H1 ->]]]; [apply Hl; assumption|].
        unfold set_pc, p in Hp. cbn in Hp. destruct (_ <? _); discriminate.
    - (* put *)
      destruct (nth_error (c_nodes c) i) as [n|] eqn:En; [|constructor; assumption].
      cbn in Hv. rewrite En in Hv.
      destruct (n_pc n) eqn:Ep; try (constructor; assumption; fail).
      assert (Hin_n : In n (c_nodes c)) by (eapply nth_error_In; eassumption).
      assert (Hnw : n_won n = false) by (unfold n_won; rewrite Ep; reflexivity).
      assert (Hhas : reg_has (c_reg c) (n_key n) now = has_key (c_reg c) (n_key n)).
      { unfold reg_has, has_key. clear - He Hv Ht Hin_n. rewrite (Ht _ Hin_n) in Hv.
        induction (c_reg c) as [|[k e] r IH]; simpl; [reflexivity|].
        rewrite IH by (intros k0 e0 H0; apply He; right; assumption). f_equal.
        destruct (key_eqb k (n_key n)) eqn:E; [|reflexivity]. apply key_eqb_eq in E. subst k.
        unfold alive. cbn. specialize (He _ _ (or_introl eq_refl)). cbn in He.
        destruct (now <? e) eqn:El; [reflexivity|]. apply Z.ltb_ge in El. lia. }
      rewrite Hhas. destruct (has_key (c_reg c) (n_key n)) eqn:Ehk.
      + (* lost *)
        constructor; cbn.
        * intros x Hin. destruct (in_upd_node _ _ _ _ Hin) as [H|[n' [H1 ->]]]; [apply Ht; assumption|].
          rewrite En in H1. inversion H1; subst n'. cbn. apply Ht. assumption.
        * assumption.
        * intros k'. pose proof (winners_upd c (c_reg c) i (set_pc PLost) n k' En eq_refl) as H.
          rewrite Hnw in H. unfold n_won in H. cbn in H. rewrite !andb_false_r in H. cbn in H. rewrite <- Hw. lia.
        * intros x Hin Hp. destruct (in_upd_node _ _ _ _ Hin) as [H|[n' [H1 ->]]]; [apply Hl; assumption|].
          rewrite En in H1. inversion H1; subst n'. cbn. assumption.
      + (* won *)
        constructor; cbn.
        * intros x Hin. destruct (in_upd_node _ _ _ _ Hin) as [H|[n' [H1 ->]]]; [apply Ht; assumption|].
          rewrite En in H1. inversion H1; subst n'. cbn. apply Ht. assumption.
        * intros k e [H|H].
          { inversion H; subst. rewrite (Ht _ Hin_n). cbn. lia. }
          { apply filter_In in H. apply He. tauto. }
        * intros k'. pose proof (winners_upd c ((n_key n, now + n_ttl n) :: filter (fun e => negb (key_eqb (fst e) (n_key n))) (c_reg c))
                                              i (set_pc PWon) n k' En eq_refl) as H.
          rewrite Hnw in H. unfold n_won in H. cbn [set_pc n_pc] in H. rewrite andb_false_r, andb_true_r in H. cbn [b2n] in H.
          unfold has_key. cbn [existsb fst]. fold (has_key (filter (fun e => negb (key_eqb (fst e) (n_key n))) (c_reg c)) k').
          destruct (key_eqb (n_key n) k') eqn:Ek.
          { apply key_eqb_eq in Ek. subst k'. cbn. specialize (Hw (n_key n)). rewrite Ehk in Hw. cbn in Hw. cbn in H. lia. }
          { cbn. cbn in H. rewrite has_key_filter_other by (intro; subst; rewrite key_eqb_refl in Ek; discriminate).
            rewrite <- Hw. lia. }
        * intros x Hin Hp. unfold has_key. cbn [existsb fst].
          destruct (key_eqb (n_key n) (n_key x)) eqn:Ek; [reflexivity|]. cbn.
          fold (has_key (filter (fun e => negb (key_eqb (fst e) (n_key n))) (c_reg c)) (n_key x)).
          rewrite has_key_filter_other by (intro Hx; rewrite Hx, key_eqb_refl in Ek; discriminate).
          destruct (in_upd_node _ _ _ _ Hin) as [H|[n' [H1 ->]]]; [apply Hl; assumption|].
          cbn in Hp. discriminate.
    - (* deliver *)
      destruct (nth_error (c_nodes c) i) as [n|] eqn:En; [|constructor; assumption].
      destruct (n_pc n) eqn:Ep; try (constructor; assumption; fail).
      assert (Hnw : n_won n = true) by (unfold n_won; rewrite Ep; reflexivity).
      constructor; cbn.
      + intros x Hin. destruct (in_upd_node _ _ _ _ Hin) as [H|[n' [H1 ->]]]; [apply Ht; assumption|].
        rewrite En in H1. inversion H1; subst n'. cbn. apply Ht. eapply nth_error_In; eassumption.
      + assumption.
      + intros k'. pose proof (winners_upd c (c_reg c) i (set_pc PDelivered) n k' En eq_refl) as H.
        rewrite Hnw in H. unfold n_won in H. cbn in H. rewrite <- Hw. lia.
      + intros x Hin Hp. destruct (in_upd_node _ _ _ _ Hin) as [H|[n' [H1 ->]]]; [apply Hl; assumption|]. discriminate.
  Qed.

  Lemma cinv_init : cinv c0.
  Proof. constructor; cbn; try tauto; try (intros k; reflexivity). Qed.

  Lemma creach_inv c : creach c -> cinv c.
  Proof. induction 1; [apply cinv_init|apply cstep_inv; assumption]. Qed.

  (* at most one winner and at most one delivery per tick, for every interleaving of any number of nodes *)
  Lemma claim_unique c k : creach c -> (winners c k <= 1)%nat /\ (deliveries c k <= winners c k)%nat.
  Proof.
    intros Hr. apply creach_inv in Hr. split.
    - rewrite (ci_win _ Hr). destruct (has_key _ _); cbn; lia.
    - unfold deliveries, winners. apply filter_length_le. intros x _ H.
      apply andb_true_iff in H. destruct H as [H1 H2]. rewrite H1. cbn.
      unfold n_delivered in H2. unfold n_won. destruct (n_pc x); try discriminate; reflexivity.
  Qed.

  (* exactly one winner as soon as some node has attempted the claim *)
  Lemma claim_some_winner c k n :
    creach c -> In n (c_nodes c) -> n_key n = k -> n_attempted n = true -> winners c k = 1%nat.
  Proof.
    intros Hr Hin Hk Ha. apply creach_inv in Hr.
    unfold n_attempted in Ha. destruct (n_pc n) eqn:Ep; try discriminate.
    - (* this node won *)
      assert (Hge : (1 <= winners c k)%nat).
      { unfold winners. clear - Hin Hk Ep. induction (c_nodes c) as [|a t IH]; [destruct Hin|].
        simpl. destruct Hin as [->|Hin].
        - rewrite Hk, key_eqb_refl. unfold n_won. rewrite Ep. simpl. lia.
        - specialize (IH Hin). destruct (_ && _); simpl; lia. }
      rewrite (ci_win _ Hr) in *. destruct (has_key _ _); cbn in *; lia.
    - rewrite (ci_win _ Hr). rewrite <- Hk. rewrite (ci_lost _ Hr n Hin Ep). reflexivity.
    - assert (Hge : (1 <= winners c k)%nat).
      { unfold winners. clear - Hin Hk Ep. induction (c_nodes c) as [|a t IH]; [destruct Hin|].
        simpl. destruct Hin as [->|Hin].
        - rewrite Hk, key_eqb_refl. unfold n_won. rewrite Ep. simpl. lia.
        - specialize (IH Hin). destruct (_ && _); simpl; lia. }
      rewrite (ci_win _ Hr) in *. destruct (has_key _ _); cbn in *; lia.
  Qed.
End Claim.

(* Without the guard: a node that passes the staleness test at the last admissible instant and is
   then stalled past the winner's expiry wins the same tick again — two deliveries. *)
Definition stall_labels : list clabel :=
  let k : key := (0%nat, 1000) in
  [LArrive k 60; LArrive k 60; LCheck 0 1000; LPut 0 1000; LDeliver 0; LCheck 1 1060; LPut 1 1061; LDeliver 1].

Lemma stall_witness :
  deliveries (crun c0 stall_labels) (0%nat, 1000) = 2%nat /\
  (* only the last put violates the guard *)
  ~ (1000 <= 1061 < 1000 + 60).
Proof. split; [vm_compute; reflexivity|lia]. Qed.

(* claimClusterFire as a single call = staleness test and put at one clock reading *)
Lemma claim_once_is_check_put c k ttl now :
  let i := length (c_nodes c) in
  let c' := crun c [LArrive k ttl; LCheck i now; LPut i now] in
  c_reg c' = fst (claim_once (c_reg c) k ttl now) /\
  option_map n_pc (nth_error (c_nodes c') i) =
    Some (match snd (claim_once (c_reg c) k ttl now) with 0 => PSkipped | 1 => PWon | _ => PLost end).
Proof.
  assert (Hn : forall (l : list node) x, nth_error (l ++ [x]) (length l) = Some x).
  { induction l; simpl; auto. }
  assert (Hu : forall (l : list node) x f, upd_node (l ++ [x]) (length l) f = l ++ [f x]).
  { induction l; simpl; intros; [reflexivity|]. rewrite IHl. reflexivity. }
  intros i c'. subst i c'. unfold crun. cbn [fold_left].
  set (n0 := mkNode PStart k ttl). set (l := c_nodes c). set (reg := c_reg c).
  assert (E1 : cstep c (LArrive k ttl) = mkC reg (l ++ [n0])) by reflexivity. rewrite E1.
  assert (E2 : cstep (mkC reg (l ++ [n0])) (LCheck (length l) now) =
               mkC reg (l ++ [set_pc (if ttl <? now - snd k then PSkipped else PChecked) n0])).
  { unfold cstep. cbn [c_nodes c_reg]. rewrite Hn. cbn [n_pc n0 n_ttl n_key]. rewrite Hu. reflexivity. }
  rewrite E2. unfold claim_once. destruct (ttl <? now - snd k) eqn:Est.
  - assert (E3 : cstep (mkC reg (l ++ [set_pc PSkipped n0])) (LPut (length l) now) = mkC reg (l ++ [set_pc PSkipped n0])).
    { unfold cstep. cbn [c_nodes c_reg]. rewrite Hn. reflexivity. }
    rewrite E3. cbn [c_reg c_nodes fst snd]. rewrite Hn. split; reflexivity.
  - unfold cstep. cbn [c_nodes c_reg]. rewrite Hn. cbn [set_pc n_pc n_key n_ttl n0].
    destruct (reg_has reg k now); cbn [c_reg c_nodes fst snd]; rewrite Hu, Hn; split; reflexivity.
Qed.
