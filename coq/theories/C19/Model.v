(* C19 — scheduler: executable model of
     actor/scheduler.go  (scheduledKeys bookkeeping by reference; ScheduleOnce / Schedule /
                          CancelSchedule / PauseSchedule / ResumeSchedule / ListSchedules; makeJobFn;
                          claimClusterFire)
   over the contract of go-quartz v0.15.2 that the file relies on (job queue keyed by reference,
   RunOnceTrigger expiring on its first NextFireTime, SimpleTrigger, PauseJob/ResumeJob/DeleteJob,
   the execution loop firing the due head job in its own goroutine), and
     internal/cluster/cluster.go ClaimScheduleFire = put-if-absent with expiry on a shared registry.
   Time is a logical clock supplied with each operation.  Definitions only. *)
From Coq Require Import ZArith List Bool Arith.
Import ListNotations.
Open Scope Z_scope.

Definition ref := nat.

Inductive trig :=
| TOnce (delay : Z)        (* quartz.NewRunOnceTrigger(delay): expires on its first NextFireTime *)
| TEvery (interval : Z).   (* quartz.NewSimpleTrigger(interval) *)

Record job := mkJob {
  j_trig : trig;
  j_next : Z;          (* scheduledJob.priority = next run time *)
  j_susp : bool;       (* JobDetail.opts.Suspended (priority MaxInt64 while suspended) *)
  j_sched : Z          (* ghost: when this run time was computed from (schedule or resume time / previous run) *)
}.

Inductive err :=
| EOk
| ENotFound       (* errors.ErrScheduledReferenceNotFound *)
| EExists         (* quartz: job already exists *)
| EJobNotFound    (* quartz: job not found *)
| ESuspended      (* quartz: job is suspended *)
| EActive         (* quartz: job is active *)
| EExpired.       (* quartz: trigger has expired *)

(* a firing of the execution loop: the job function runs in its own goroutine *)
Record fire := mkFire {
  f_ref : ref;
  f_run : Z;      (* JobMetadata.RunTime *)
  f_at : Z;       (* clock when the loop popped the job *)
  f_trig : trig;
  f_sched : Z     (* ghost: j_sched of the job *)
}.
Definition f_once (f : fire) : bool := match f_trig f with TOnce _ => true | TEvery _ => false end.

Record sstate := mkS {
  s_keys : list ref;              (* scheduledKeys / scheduledMeta *)
  s_jobs : list (ref * job);      (* the quartz job queue *)
  s_inflight : list fire;         (* fired, Tell not yet performed *)
  s_delivered : list fire;        (* Tell performed, oldest first *)
  s_fired : list fire             (* ghost: every firing, oldest first *)
}.

Definition s0 : sstate := mkS [] [] [] [] [].

Fixpoint mem (r : ref) (l : list ref) : bool :=
  match l with [] => false | x :: t => Nat.eqb x r || mem r t end.
Definition add_key (r : ref) (l : list ref) : list ref := if mem r l then l else l ++ [r].
Definition del_key (r : ref) (l : list ref) : list ref := filter (fun x => negb (Nat.eqb x r)) l.

Fixpoint jget (r : ref) (l : list (ref * job)) : option job :=
  match l with [] => None | (k, j) :: t => if Nat.eqb k r then Some j else jget r t end.
Definition jdel (r : ref) (l : list (ref * job)) : list (ref * job) :=
  filter (fun kj => negb (Nat.eqb (fst kj) r)) l.
Definition jput (r : ref) (j : job) (l : list (ref * job)) : list (ref * job) := jdel r l ++ [(r, j)].

Inductive op :=
| OScheduleOnce (r : ref) (delay now : Z)
| OSchedule (r : ref) (interval now : Z)
| OCancel (r : ref)
| OPause (r : ref)
| OResume (r : ref) (now : Z)
| OTick (now : Z)          (* one iteration of the quartz execution loop *)
| OComplete (k : nat).     (* the k-th in-flight job function performs its Tell *)

(* the due head of the queue: the non-suspended job with the smallest run time, if it is due *)
Fixpoint head_due (l : list (ref * job)) : option (ref * job) :=
  match l with
  | [] => None
  | (r, j) :: t =>
      if j_susp j then head_due t
      else match head_due t with
           | Some (r', j') => if j_next j' <? j_next j then Some (r', j') else Some (r, j)
           | None => Some (r, j)
           end
  end.

Fixpoint remove_nth {A} (l : list A) (k : nat) : list A :=
  match l, k with
  | [], _ => []
  | _ :: t, O => t
  | x :: t, S k' => x :: remove_nth t k'
  end.

Definition push_new (s : sstate) (r : ref) (t : trig) (first now : Z) : sstate * err :=
  let keys := add_key r (s_keys s) in
  match jget r (s_jobs s) with
  | Some _ => (mkS keys (s_jobs s) (s_inflight s) (s_delivered s) (s_fired s), EExists)
  | None => (mkS keys (s_jobs s ++ [(r, mkJob t first false now)]) (s_inflight s) (s_delivered s) (s_fired s), EOk)
  end.

Definition step (s : sstate) (o : op) : sstate * err :=
  match o with
  | OScheduleOnce r d now => push_new s r (TOnce d) (now + d) now
  | OSchedule r iv now => push_new s r (TEvery iv) (now + iv) now
  | OCancel r =>
      if negb (mem r (s_keys s)) then (s, ENotFound)
      else
        let keys := del_key r (s_keys s) in
        match jget r (s_jobs s) with
        | Some _ => (mkS keys (jdel r (s_jobs s)) (s_inflight s) (s_delivered s) (s_fired s), EOk)
        | None => (mkS keys (s_jobs s) (s_inflight s) (s_delivered s) (s_fired s), EJobNotFound)
        end
  | OPause r =>
      if negb (mem r (s_keys s)) then (s, ENotFound)
      else match jget r (s_jobs s) with
           | None => (s, EJobNotFound)
           | Some j =>
               if j_susp j then (s, ESuspended)
               else (mkS (s_keys s) (jput r (mkJob (j_trig j) (j_next j) true (j_sched j)) (s_jobs s)) (s_inflight s) (s_delivered s) (s_fired s), EOk)
           end
  | OResume r now =>
      if negb (mem r (s_keys s)) then (s, ENotFound)
      else match jget r (s_jobs s) with
           | None => (s, EJobNotFound)
           | Some j =>
               if negb (j_susp j) then (s, EActive)
               else match j_trig j with
                    | TOnce _ =>
                        (* ResumeJob removes the job, then the expired run-once trigger refuses a next fire time *)
                        (mkS (s_keys s) (jdel r (s_jobs s)) (s_inflight s) (s_delivered s) (s_fired s), EExpired)
                    | TEvery iv =>
                        (mkS (s_keys s) (jput r (mkJob (TEvery iv) (now + iv) false now) (s_jobs s)) (s_inflight s) (s_delivered s) (s_fired s), EOk)
                    end
           end
  | OTick now =>
      match head_due (s_jobs s) with
      | Some (r, j) =>
          if now <? j_next j then (s, EOk)
          else
            let f := mkFire r (j_next j) now (j_trig j) (j_sched j) in
            let jobs' := match j_trig j with
                         | TOnce _ => jdel r (s_jobs s)
                         | TEvery iv => jput r (mkJob (TEvery iv) (j_next j + iv) false (j_next j)) (s_jobs s)
                         end in
            (mkS (s_keys s) jobs' (s_inflight s ++ [f]) (s_delivered s) (s_fired s ++ [f]), EOk)
      | None => (s, EOk)
      end
  | OComplete k =>
      match nth_error (s_inflight s) k with
      | Some f => (mkS (s_keys s) (s_jobs s) (remove_nth (s_inflight s) k) (s_delivered s ++ [f]) (s_fired s), EOk)
      | None => (s, EOk)
      end
  end.

Definition exec (s : sstate) (ops : list op) : sstate := fold_left (fun a o => fst (step a o)) ops s.

Fixpoint trace (s : sstate) (ops : list op) : list (sstate * err) :=
  match ops with
  | [] => []
  | o :: r => let '(s', e) := step s o in (s', e) :: trace s' r
  end.

(* the loop iterates until nothing is due; then every job function completes *)
Fixpoint tick_all (s : sstate) (now : Z) (fuel : nat) : sstate :=
  match fuel with
  | O => s
  | S fu => match head_due (s_jobs s) with
            | Some (_, j) => if now <? j_next j then s else tick_all (fst (step s (OTick now))) now fu
            | None => s
            end
  end.

Definition complete_all (s : sstate) : sstate :=
  mkS (s_keys s) (s_jobs s) [] (s_delivered s ++ s_inflight s) (s_fired s).

(* ListSchedules: references whose job is still in the queue (suspended ones included) *)
Definition listed (s : sstate) : list ref :=
  filter (fun r => match jget r (s_jobs s) with Some _ => true | None => false end) (s_keys s).

Definition count_ref (r : ref) (l : list fire) : nat := length (filter (fun f => Nat.eqb (f_ref f) r) l).

(* ------------------------------------------------------------------ cluster tick claim *)

(* the shared registry: key (reference, run time) -> expiry; putIfAbsent is one atomic step *)
Definition key := (ref * Z)%type.
Definition key_eqb (a b : key) : bool := Nat.eqb (fst a) (fst b) && (snd a =? snd b).

(* where a claimer is in makeJobFn / claimClusterFire *)
Inductive pc :=
| PStart        (* the job function has been called for the tick *)
| PChecked      (* the tick is not stale: about to call ClaimScheduleFire *)
| PSkipped      (* stale tick: no claim, no delivery *)
| PWon          (* the put-if-absent succeeded: about to Tell *)
| PLost         (* ErrScheduleFireClaimed: no delivery *)
| PDelivered.   (* Tell performed *)

Record node := mkNode { n_pc : pc; n_key : key; n_ttl : Z }.

Definition n_won (n : node) : bool := match n_pc n with PWon | PDelivered => true | _ => false end.
Definition n_delivered (n : node) : bool := match n_pc n with PDelivered => true | _ => false end.
Definition n_attempted (n : node) : bool := match n_pc n with PWon | PLost | PDelivered => true | _ => false end.

Record cstate := mkC { c_reg : list (key * Z); c_nodes : list node }.

Inductive clabel :=
| LArrive (k : key) (ttl : Z)        (* a node's quartz fires the cron tick k: a new claimer appears *)
| LCheck (i : nat) (now : Z)         (* claimClusterFire: the staleness test *)
| LPut (i : nat) (now : Z)           (* ClaimScheduleFire: put-if-absent with expiry now + ttl *)
| LDeliver (i : nat).                (* makeJobFn: Tell, only after a won claim *)

Definition alive (now : Z) (e : key * Z) : bool := now <? snd e.

Definition reg_has (reg : list (key * Z)) (k : key) (now : Z) : bool :=
  existsb (fun e => key_eqb (fst e) k && alive now e) reg.

Fixpoint upd_node (l : list node) (i : nat) (f : node -> node) : list node :=
  match l, i with
  | [], _ => []
  | x :: t, O => f x :: t
  | x :: t, S j => x :: upd_node t j f
  end.

Definition set_pc (p : pc) (n : node) : node := mkNode p (n_key n) (n_ttl n).

Definition cstep (c : cstate) (l : clabel) : cstate :=
  match l with
  | LArrive k ttl => mkC (c_reg c) (c_nodes c ++ [mkNode PStart k ttl])
  | LCheck i now =>
      match nth_error (c_nodes c) i with
      | Some n =>
          match n_pc n with
          | PStart =>
              let stale := n_ttl n <? now - snd (n_key n) in
              mkC (c_reg c) (upd_node (c_nodes c) i (set_pc (if stale then PSkipped else PChecked)))
          | _ => c
          end
      | None => c
      end
  | LPut i now =>
      match nth_error (c_nodes c) i with
      | Some n =>
          match n_pc n with
          | PChecked =>
              if reg_has (c_reg c) (n_key n) now
              then mkC (c_reg c) (upd_node (c_nodes c) i (set_pc PLost))
              else mkC ((n_key n, now + n_ttl n) :: filter (fun e => negb (key_eqb (fst e) (n_key n))) (c_reg c))
                       (upd_node (c_nodes c) i (set_pc PWon))
          | _ => c
          end
      | None => c
      end
  | LDeliver i =>
      match nth_error (c_nodes c) i with
      | Some n =>
          match n_pc n with
          | PWon => mkC (c_reg c) (upd_node (c_nodes c) i (set_pc PDelivered))
          | _ => c
          end
      | None => c
      end
  end.

Definition c0 : cstate := mkC [] [].
Definition crun (c : cstate) (ls : list clabel) : cstate := fold_left cstep ls c.

Definition winners (c : cstate) (k : key) : nat :=
  length (filter (fun n => key_eqb (n_key n) k && n_won n) (c_nodes c)).
Definition deliveries (c : cstate) (k : key) : nat :=
  length (filter (fun n => key_eqb (n_key n) k && n_delivered n) (c_nodes c)).

(* claimClusterFire as one call (staleness test and put at the same clock reading):
   0 = skipped as stale, 1 = won, 2 = lost *)
Definition claim_once (reg : list (key * Z)) (k : key) (ttl now : Z) : list (key * Z) * Z :=
  if ttl <? now - snd k then (reg, 0)
  else if reg_has reg k now then (reg, 2)
  else ((k, now + ttl) :: filter (fun e => negb (key_eqb (fst e) k)) reg, 1).
