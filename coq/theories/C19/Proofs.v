(* C19 — proofs about the scheduler model (C19/Model.v). *)
From Coq Require Import ZArith List Bool Arith Lia.
From GV Require Import C19.Model.
Import ListNotations.
Open Scope Z_scope.
Arguments count_ref : simpl never.

(* ------------------------------------------------------------------ keys and queue *)

Lemma mem_del_key r l : mem r (del_key r l) = false.
Proof.
  induction l as [|x t IH]; simpl; [reflexivity|].
  destruct (Nat.eqb x r) eqn:E; simpl; [assumption|]. rewrite E. assumption.
Qed.

Lemma mem_del_key_other r r' l : r <> r' -> mem r' (del_key r l) = mem r' l.
Proof.
  intros Hne. induction l as [|x t IH]; simpl; [reflexivity|].
  destruct (Nat.eqb x r) eqn:E; simpl.
  - apply Nat.eqb_eq in E; subst. destruct (Nat.eqb r r') eqn:E'; [apply Nat.eqb_eq in E'; congruence|assumption].
  - rewrite IH. reflexivity.
Qed.

Lemma mem_app r l l' : mem r (l ++ l') = mem r l || mem r l'.
Proof. induction l; simpl; [reflexivity|]. rewrite IHl. apply orb_assoc. Qed.

Lemma mem_add_key r l : mem r (add_key r l) = true.
Proof.
  unfold add_key. destruct (mem r l) eqn:E; [assumption|].
  rewrite mem_app. simpl. rewrite Nat.eqb_refl. apply orb_true_r.
Qed.

Lemma mem_add_key_other r r' l : r <> r' -> mem r' (add_key r l) = mem r' l.
Proof.
  intros Hne. unfold add_key. destruct (mem r l); [reflexivity|].
  rewrite mem_app. simpl. destruct (Nat.eqb r r') eqn:E; [apply Nat.eqb_eq in E; congruence|].
  rewrite !orb_false_r. reflexivity.
Qed.

Lemma jget_jdel r l : jget r (jdel r l) = None.
Proof.
  induction l as [|[k j] t IH]; simpl; [reflexivity|].
  destruct (Nat.eqb k r) eqn:E; simpl; [assumption|]. rewrite E. assumption.
Qed.

Lemma jget_jdel_other r r' l : r <> r' -> jget r' (jdel r l) = jget r' l.
Proof.
  intros Hne. induction l as [|[k j] t IH]; simpl; [reflexivity|].
  destruct (Nat.eqb k r) eqn:E; simpl.
  - apply Nat.eqb_eq in E; subst. destruct (Nat.eqb r r') eqn:E'; [apply Nat.eqb_eq in E'; congruence|assumption].
  - rewrite IH. reflexivity.
Qed.

Lemma jget_app r l l' : jget r (l ++ l') = match jget r l with Some j => Some j | None => jget r l' end.
Proof. induction l as [|[k j] t IH]; simpl; [reflexivity|]. destruct (Nat.eqb k r); auto. Qed.

Lemma jget_jput_same r j l : jget r (jput r j l) = Some j.
Proof. unfold jput. rewrite jget_app, jget_jdel. simpl. rewrite Nat.eqb_refl. reflexivity. Qed.

Lemma jget_jput_other r r' j l : r <> r' -> jget r' (jput r j l) = jget r' l.
Proof.
  intros Hne. unfold jput. rewrite jget_app, jget_jdel_other by assumption.
  destruct (jget r' l); [reflexivity|]. simpl.
  destruct (Nat.eqb r r') eqn:E; [apply Nat.eqb_eq in E; congruence|reflexivity].
Qed.

Lemma head_due_in l r j : head_due l = Some (r, j) -> In (r, j) l /\ j_susp j = false.
Proof.
  revert r j. induction l as [|[k v] t IH]; simpl; intros r j H; [discriminate|].
  destruct (j_susp v) eqn:Es.
  - destruct (IH _ _ H). split; [right|]; assumption.
  - destruct (head_due t) as [[k' v']|] eqn:Et.
    + destruct (j_next v' <? j_next v).
      * inversion H; subst. destruct (IH _ _ eq_refl). split; [right|]; assumption.
      * inversion H; subst. split; [left; reflexivity|assumption].
    + inversion H; subst. split; [left; reflexivity|assumption].
Qed.

Definition keys_unique (l : list (ref * job)) : Prop := NoDup (map fst l).

Lemma in_jget r j l : keys_unique l -> In (r, j) l -> jget r l = Some j.
Proof.
  unfold keys_unique. induction l as [|[k v] t IH]; simpl; intros Hnd Hin; [tauto|].
  inversion Hnd; subst. destruct Hin as [Hin|Hin].
  - inversion Hin; subst. rewrite Nat.eqb_refl. reflexivity.
  - destruct (Nat.eqb k r) eqn:E.
    + apply Nat.eqb_eq in E; subst. exfalso. apply H1. apply (in_map fst) in Hin. exact Hin.
    + apply IH; assumption.
Qed.

Lemma jdel_keys r l : forall x, In x (map fst (jdel r l)) <-> In x (map fst l) /\ x <> r.
Proof.
  induction l as [|[k v] t IH]; simpl; intros x; [tauto|].
  destruct (Nat.eqb k r) eqn:E; simpl.
  - apply Nat.eqb_eq in E; subst. rewrite IH. split; [tauto|]. intros [[H|H] Hn]; [congruence|tauto].
  - apply Nat.eqb_neq in E. rewrite IH. split; [intros [H|H]; [subst; tauto|tauto]|tauto].
Qed.

Lemma unique_jdel r l : keys_unique l -> keys_unique (jdel r l).
Proof.
  unfold keys_unique. induction l as [|[k v] t IH]; simpl; intros H; [constructor|].
  inversion H; subst. destruct (Nat.eqb k r); simpl; [apply IH; assumption|].
  constructor; [|apply IH; assumption]. rewrite jdel_keys. tauto.
Qed.

Lemma jget_none_notin r l : jget r l = None -> ~ In r (map fst l).
Proof.
  induction l as [|[k v] t IH]; simpl; [tauto|].
  destruct (Nat.eqb k r) eqn:E; [discriminate|]. apply Nat.eqb_neq in E.
  intros H [H1|H1]; [congruence|]. apply IH; assumption.
Qed.

Lemma unique_app_new r j l : keys_unique l -> jget r l = None -> keys_unique (l ++ [(r, j)]).
Proof.
  unfold keys_unique. intros Hu Hn. rewrite map_app. simpl.
  pose proof (jget_none_notin _ _ Hn) as Hni. clear Hn.
  induction (map fst l) as [|a t IH]; simpl.
  - constructor; [tauto|constructor].
  - inversion Hu; subst. constructor.
    + rewrite in_app_iff. simpl. intros [H|[H|[]]]; [tauto|subst; apply Hni; left; reflexivity].
    + apply IH; [assumption|]. intro H. apply Hni. right. assumption.
Qed.

Lemma unique_jput r j l : keys_unique l -> keys_unique (jput r j l).
Proof. intros H. unfold jput. apply unique_app_new; [apply unique_jdel; assumption|apply jget_jdel]. Qed.

(* ------------------------------------------------------------------ reachable states *)

Definition op_now (o : op) : option Z :=
  match o with
  | OScheduleOnce _ _ n | OSchedule _ _ n | OResume _ n | OTick n => Some n
  | _ => None
  end.
Definition next_clock (c : Z) (o : op) : Z := match op_now o with Some n => n | None => c end.

(* the clock never goes back; delays and intervals are not negative *)
Definition valid_op (c : Z) (o : op) : Prop :=
  match o with
  | OScheduleOnce _ d n => c <= n /\ 0 <= d
  | OSchedule _ iv n => c <= n /\ 0 <= iv
  | OResume _ n | OTick n => c <= n
  | _ => True
  end.

Inductive reach : Z -> sstate -> Prop :=
| reach_init : reach 0 s0
| reach_step c s o : reach c s -> valid_op c o -> reach (next_clock c o) (fst (step s o)).

Definition wf_job (c : Z) (j : job) : Prop :=
  j_sched j <= c /\
  match j_trig j with
  | TOnce d => 0 <= d /\ j_next j = j_sched j + d
  | TEvery iv => 0 <= iv /\ j_next j = j_sched j + iv
  end.

Definition wf_fire (f : fire) : Prop :=
  f_run f <= f_at f /\
  match f_trig f with
  | TOnce d => 0 <= d /\ f_run f = f_sched f + d
  | TEvery iv => 0 <= iv /\ f_run f = f_sched f + iv
  end.

Record inv (c : Z) (s : sstate) : Prop := mkInv {
  inv_unique : keys_unique (s_jobs s);
  inv_sub : forall r j, jget r (s_jobs s) = Some j -> mem r (s_keys s) = true;
  inv_jobs : forall r j, jget r (s_jobs s) = Some j -> wf_job c j;
  inv_fired : Forall wf_fire (s_fired s);
  inv_flight : forall f, In f (s_inflight s) -> In f (s_fired s);
  inv_deliv : forall f, In f (s_delivered s) -> In f (s_fired s)
}.

Lemma wf_job_mono c c' j : c <= c' -> wf_job c j -> wf_job c' j.
Proof. unfold wf_job. intros H [H1 H2]. split; [lia|assumption]. Qed.

Lemma in_remove_nth {A} (l : list A) k x : In x (remove_nth l k) -> In x l.
Proof.
  revert k; induction l as [|a t IH]; intros [|k] H; simpl in *; auto.
  destruct H; auto. right. eapply IH; eauto.
Qed.

Lemma step_inv c s o : inv c s -> valid_op c o -> inv (next_clock c o) (fst (step s o)).
Proof.
  intros [Hu Hs Hj Hf Hfl Hd] Hv.
  assert (Hpush : forall r t first now, c <= now -> wf_job now (mkJob t first false now) ->
            inv now (fst (push_new s r t first now))).
  { intros r t first now Hcn Hwf. unfold push_new. destruct (jget r (s_jobs s)) eqn:Eg; cbn [fst].
    - constructor; cbn; auto.
      + intros r' j' H. destruct (Nat.eq_dec r r') as [->|Hne]; [apply mem_add_key|].
        rewrite mem_add_key_other by assumption. eapply Hs; eassumption.
      + intros r' j' H. apply (wf_job_mono c); [assumption|]. eapply Hj; eassumption.
    - constructor; cbn; auto.
      + apply unique_app_new; assumption.
      + intros r' j' H. rewrite jget_app in H. destruct (Nat.eq_dec r r') as [->|Hne]; [apply mem_add_key|].
        rewrite mem_add_key_other by assumption. destruct (jget r' (s_jobs s)) eqn:E'; [eapply Hs; eassumption|].
        simpl in H. destruct (Nat.eqb r r') eqn:E; [apply Nat.eqb_eq in E; congruence|discriminate].
      + intros r' j' H. rewrite jget_app in H. destruct (jget r' (s_jobs s)) eqn:E'.
        * inversion H; subst. apply (wf_job_mono c); [assumption|]. eapply Hj; eassumption.
        * simpl in H. destruct (Nat.eqb r r'); [inversion H; subst; assumption|discriminate]. }
  destruct o as [r d now|r iv now|r|r|r now|now|k]; unfold next_clock; cbn [op_now step].
  - destruct Hv as [Hcn Hd0]. apply Hpush; [assumption|]. unfold wf_job. cbn. lia.
  - destruct Hv as [Hcn Hd0]. apply Hpush; [assumption|]. unfold wf_job. cbn. lia.
  - (* cancel *)
    destruct (negb (mem r (s_keys s))); cbn [fst]; [constructor; assumption|].
    destruct (jget r (s_jobs s)) eqn:Eg; cbn [fst].
    + constructor; cbn; auto.
      * apply unique_jdel; assumption.
      * intros r' j' H. destruct (Nat.eq_dec r r') as [->|Hne]; [rewrite jget_jdel in H; discriminate|].
        rewrite jget_jdel_other in H by assumption. rewrite mem_del_key_other by assumption. eapply Hs; eassumption.
      * intros r' j' H. destruct (Nat.eq_dec r r') as [->|Hne]; [rewrite jget_jdel in H; discriminate|].
        rewrite jget_jdel_other in H by assumption. eapply Hj; eassumption.
    + constructor; cbn; auto.
      intros r' j' H. destruct (Nat.eq_dec r r') as [->|Hne]; [congruence|].
      rewrite mem_del_key_other by assumption. eapply Hs; eassumption.
  - (* pause *)
    destruct (negb (mem r (s_keys s))); cbn [fst]; [constructor; assumption|].
    destruct (jget r (s_jobs s)) as [j|] eqn:Eg; cbn [fst]; [|constructor; assumption].
    destruct (j_susp j); cbn [fst]; [constructor; assumption|].
    constructor; cbn; auto.
    + apply unique_jput; assumption.
    + intros r' j' H. destruct (Nat.eq_dec r r') as [->|Hne]; [eapply Hs; eassumption|].
      rewrite jget_jput_other in H by assumption. eapply Hs; eassumption.
    + intros r' j' H. destruct (Nat.eq_dec r r') as [->|Hne].
      * rewrite jget_jput_same in H. inversion H; subst. apply (Hj _ _ Eg).
      * rewrite jget_jput_other in H by assumption. eapply Hj; eassumption.
  - (* resume *)
    cbn in Hv.
    destruct (negb (mem r (s_keys s))) eqn:Em; cbn [fst].
    { constructor; auto. intros r' j' H. apply (wf_job_mono c); [assumption|]. eapply Hj; eassumption. }
    destruct (jget r (s_jobs s)) as [j|] eqn:Eg; cbn [fst].
    2:{ constructor; auto. intros r' j' H. apply (wf_job_mono c); [assumption|]. eapply Hj; eassumption. }
    destruct (negb (j_susp j)); cbn [fst].
    { constructor; auto. intros r' j' H. apply (wf_job_mono c); [assumption|]. eapply Hj; eassumption. }
    pose proof (Hj _ _ Eg) as [_ Hwt].
    destruct (j_trig j) as [d|iv] eqn:Et; cbn [fst].
    + constructor; cbn; auto.
      * apply unique_jdel; assumption.
      * intros r' j' H. destruct (Nat.eq_dec r r') as [->|Hne]; [rewrite jget_jdel in H; discriminate|].
        rewrite jget_jdel_other in H by assumption. eapply Hs; eassumption.
      * intros r' j' H. destruct (Nat.eq_dec r r') as [->|Hne]; [rewrite jget_jdel in H; discriminate|].
        rewrite jget_jdel_other in H by assumption. apply (wf_job_mono c); [assumption|]. eapply Hj; eassumption.
    + constructor; cbn; auto.
      * apply unique_jput; assumption.
      * intros r' j' H. destruct (Nat.eq_dec r r') as [->|Hne]; [eapply Hs; eassumption|].
        rewrite jget_jput_other in H by assumption. eapply Hs; eassumption.
      * intros r' j' H. destruct (Nat.eq_dec r r') as [->|Hne].
        { rewrite jget_jput_same in H. inversion H; subst. unfold wf_job. cbn. lia. }
        { rewrite jget_jput_other in H by assumption. apply (wf_job_mono c); [assumption|]. eapply Hj; eassumption. }
  - (* tick *)
    cbn in Hv.
    assert (Hmono : inv now s).
    { constructor; auto. intros r' j' H. apply (wf_job_mono c); [assumption|]. eapply Hj; eassumption. }
    destruct (head_due (s_jobs s)) as [[r j]|] eqn:Eh; cbn [fst]; [|exact Hmono].
    destruct (now <? j_next j) eqn:El; cbn [fst]; [exact Hmono|]. apply Z.ltb_ge in El.
    destruct (head_due_in _ _ _ Eh) as [Hin Hns].
    pose proof (in_jget _ _ _ Hu Hin) as Eg.
    pose proof (Hj _ _ Eg) as [Hsc Hwt].
    set (f := mkFire r (j_next j) now (j_trig j) (j_sched j)).
    assert (Hwf : wf_fire f).
    { unfold wf_fire, f. cbn. split; [assumption|]. destruct (j_trig j); assumption. }
    constructor; cbn.
    + destruct (j_trig j); [apply unique_jdel|apply unique_jput]; assumption.
    + intros r' j' H. destruct (j_trig j).
      * destruct (Nat.eq_dec r r') as [->|Hne]; [rewrite jget_jdel in H; discriminate|].
        rewrite jget_jdel_other in H by assumption. eapply Hs; eassumption.
      * destruct (Nat.eq_dec r r') as [->|Hne]; [eapply Hs; eassumption|].
        rewrite jget_jput_other in H by assumption. eapply Hs; eassumption.
    + intros r' j' H. destruct (j_trig j) as [d|iv] eqn:Et.
      * destruct (Nat.eq_dec r r') as [->|Hne]; [rewrite jget_jdel in H; discriminate|].
        rewrite jget_jdel_other in H by assumption. apply (wf_job_mono c); [assumption|]. eapply Hj; eassumption.
      * destruct (Nat.eq_dec r r') as [->|Hne].
        { rewrite jget_jput_same in H. inversion H; subst. unfold wf_job. cbn. lia. }
        { rewrite jget_jput_other in H by assumption. apply (wf_job_mono c); [assumption|]. eapply Hj; eassumption. }
    + apply Forall_app. split; [assumption|constructor; [assumption|constructor]].
    + intros f' H. apply in_app_or in H. apply in_or_app. destruct H as [H|H]; [left; apply Hfl; assumption|right; assumption].
    + intros f' H. apply in_or_app. left. apply Hd. assumption.
  - (* complete *)
    destruct (nth_error (s_inflight s) k) as [f|] eqn:En; cbn [fst]; [|constructor; assumption].
    constructor; cbn; auto.
    + intros f' H. apply Hfl. eapply in_remove_nth. eassumption.
    + intros f' H. apply in_app_or in H. destruct H as [H|[H|[]]]; [apply Hd; assumption|].
      subst. apply Hfl. eapply nth_error_In. eassumption.
Qed.

Lemma inv_init : inv 0 s0.
Proof. constructor; cbn; try constructor; try discriminate; tauto. Qed.

Lemma reach_inv c s : reach c s -> inv c s.
Proof. induction 1; [apply inv_init|apply step_inv; assumption]. Qed.

(* ------------------------------------------------------------------ delivered as scheduled *)

(* every delivery comes from a firing; a firing never happens before its run time; the run time of
   a one-shot is schedule time + delay; the run time of an interval schedule is interval after the
   previous run (or after the schedule / resume time) *)
Lemma deliveries_as_scheduled c s f :
  reach c s -> In f (s_delivered s) ->
  In f (s_fired s) /\ f_run f <= f_at f /\
  match f_trig f with
  | TOnce d => f_run f = f_sched f + d /\ f_sched f + d <= f_at f
  | TEvery iv => f_run f = f_sched f + iv
  end.
Proof.
  intros Hr Hin. apply reach_inv in Hr. pose proof (inv_deliv _ _ Hr _ Hin) as Hf.
  pose proof (inv_fired _ _ Hr) as Hall. rewrite Forall_forall in Hall. destruct (Hall _ Hf) as [H1 H2].
  split; [assumption|]. split; [assumption|]. destruct (f_trig f); [lia|tauto].
Qed.

(* ------------------------------------------------------------------ no firing without a job *)

Definition mentions (r : ref) (o : op) : bool :=
  match o with
  | OScheduleOnce r' _ _ | OSchedule r' _ _ => Nat.eqb r' r
  | _ => false
  end.

Lemma count_ref_app r l l' : count_ref r (l ++ l') = (count_ref r l + count_ref r l')%nat.
Proof. unfold count_ref. rewrite filter_app, app_length. reflexivity. Qed.

(* one step from a state where r has no job and the step does not schedule r: still no job, no new firing of r *)
Lemma absent_step c s r o :
  inv c s -> jget r (s_jobs s) = None -> mentions r o = false ->
  jget r (s_jobs (fst (step s o))) = None /\
  count_ref r (s_fired (fst (step s o))) = count_ref r (s_fired s) /\
  (count_ref r (s_inflight (fst (step s o))) + count_ref r (s_delivered (fst (step s o))) =
   count_ref r (s_inflight s) + count_ref r (s_delivered s))%nat.
Proof.
  intros Hi Hn Hm. destruct o as [r' d now|r' iv now|r'|r'|r' now|now|k]; cbn [step mentions] in *.
  - apply Nat.eqb_neq in Hm. unfold push_new. destruct (jget r' (s_jobs s)); cbn; repeat split; auto.
    rewrite jget_app, Hn. simpl. destruct (Nat.eqb r' r) eqn:E; [apply Nat.eqb_eq in E; congruence|reflexivity].
  - apply Nat.eqb_neq in Hm. unfold push_new. destruct (jget r' (s_jobs s)); cbn; repeat split; auto.
    rewrite jget_app, Hn. simpl. destruct (Nat.eqb r' r) eqn:E; [apply Nat.eqb_eq in E; congruence|reflexivity].
  - destruct (negb (mem r' (s_keys s))); cbn; [auto|]. destruct (jget r' (s_jobs s)); cbn; repeat split; auto.
    destruct (Nat.eq_dec r' r) as [->|Hne]; [apply jget_jdel|rewrite jget_jdel_other by assumption; assumption].
  - destruct (negb (mem r' (s_keys s))); cbn; [auto|]. destruct (jget r' (s_jobs s)) as [j|] eqn:Eg; cbn; [|auto].
    destruct (j_susp j); cbn; repeat split; auto.
    destruct (Nat.eq_dec r' r) as [->|Hne]; [congruence|rewrite jget_jput_other by assumption; assumption].
  - destruct (negb (mem r' (s_keys s))); cbn; [auto|]. destruct (jget r' (s_jobs s)) as [j|] eqn:Eg; cbn; [|auto].
    destruct (negb (j_susp j)); cbn; [auto|]. destruct (j_trig j); cbn; repeat split; auto.
    + destruct (Nat.eq_dec r' r) as [->|Hne]; [apply jget_jdel|rewrite jget_jdel_other by assumption; assumption].
    + destruct (Nat.eq_dec r' r) as [->|Hne]; [congruence|rewrite jget_jput_other by assumption; assumption].
  - destruct (head_due (s_jobs s)) as [[r' j]|] eqn:Eh; cbn; [|auto].
    destruct (now <? j_next j); cbn; [auto|].
    destruct (head_due_in _ _ _ Eh) as [Hin _]. pose proof (in_jget _ _ _ (inv_unique _ _ Hi) Hin) as Eg.
    assert (Hne : r' <> r) by (intro; subst; congruence).
    assert (Hc : count_ref r [mkFire r' (j_next j) now (j_trig j) (j_sched j)] = 0%nat).
    { unfold count_ref. simpl. destruct (Nat.eqb r' r) eqn:E; [apply Nat.eqb_eq in E; congruence|reflexivity]. }
    repeat split.
    + destruct (j_trig j); [rewrite jget_jdel_other by assumption|rewrite jget_jput_other by assumption]; assumption.
    + rewrite count_ref_app, Hc. lia.
    + rewrite count_ref_app, Hc. lia.
  - destruct (nth_error (s_inflight s) k) as [f|] eqn:En; cbn; [|auto]. repeat split; auto.
    rewrite count_ref_app.
    assert (Hsplit : (count_ref r (s_inflight s) = count_ref r (remove_nth (s_inflight s) k) + count_ref r [f])%nat).
    { clear - En. revert k En. induction (s_inflight s) as [|a t IH]; intros [|k] En; cbn [nth_error remove_nth] in *; try discriminate.
      - inversion En; subst. change (f :: t) with ([f] ++ t). rewrite count_ref_app. lia.
      - specialize (IH _ En). change (a :: t) with ([a] ++ t). change (a :: remove_nth t k) with ([a] ++ remove_nth t k).
        rewrite !count_ref_app. lia. }
    lia.
Qed.

Fixpoint valid_run (c : Z) (ops : list op) : Prop :=
  match ops with
  | [] => True
  | o :: r => valid_op c o /\ valid_run (next_clock c o) r
  end.

Lemma valid_run_reach c s ops : reach c s -> valid_run c ops -> reach (fold_left next_clock ops c) (exec s ops).
Proof.
  revert c s; induction ops as [|o r IH]; intros c s Hr Hv; [exact Hr|].
  destruct Hv as [Hv1 Hv2]. cbn [fold_left exec]. unfold exec in *. cbn [fold_left]. apply IH; [constructor; assumption|assumption].
Qed.

(* ... and any number of such steps *)
Lemma absent_run ops : forall c s r,
  reach c s -> valid_run c ops -> jget r (s_jobs s) = None -> forallb (fun o => negb (mentions r o)) ops = true ->
  jget r (s_jobs (exec s ops)) = None /\
  count_ref r (s_fired (exec s ops)) = count_ref r (s_fired s) /\
  (count_ref r (s_inflight (exec s ops)) + count_ref r (s_delivered (exec s ops)) =
   count_ref r (s_inflight s) + count_ref r (s_delivered s))%nat.
Proof.
  induction ops as [|o t IH]; intros c s r Hr Hv Hn Hm; [cbn; auto|].
  destruct Hv as [Hv1 Hv2]. cbn [forallb] in Hm. apply andb_true_iff in Hm. destruct Hm as [Hm1 Hm2].
  apply negb_true_iff in Hm1.
  destruct (absent_step c s r o (reach_inv _ _ Hr) Hn Hm1) as [H1 [H2 H3]].
  unfold exec. cbn [fold_left]. fold (exec (fst (step s o)) t).
  destruct (IH (next_clock c o) (fst (step s o)) r (reach_step _ _ _ Hr Hv1) Hv2 H1 Hm2) as [K1 [K2 K3]].
  repeat split; [assumption|congruence|lia].
Qed.

(* CancelSchedule: whatever it returns, the reference and its job are gone *)
Lemma cancel_removes c s r :
  reach c s ->
  let s' := fst (step s (OCancel r)) in
  mem r (s_keys s') = false /\ jget r (s_jobs s') = None /\
  s_fired s' = s_fired s /\ s_inflight s' = s_inflight s /\ s_delivered s' = s_delivered s.
Proof.
  intros Hr. apply reach_inv in Hr. cbn [step].
  destruct (negb (mem r (s_keys s))) eqn:Em; cbn [fst].
  - apply negb_true_iff in Em. repeat split; auto.
    destruct (jget r (s_jobs s)) eqn:Eg; [|reflexivity]. rewrite (inv_sub _ _ Hr _ _ Eg) in Em. discriminate.
  - destruct (jget r (s_jobs s)) eqn:Eg; cbn; repeat split; auto using mem_del_key, jget_jdel.
Qed.

(* After CancelSchedule has returned, the schedule never fires again (until the reference is
   scheduled anew), and what is delivered for it afterwards was already in flight. *)
Lemma cancel_stops c s r ops :
  reach c s -> valid_run c (OCancel r :: ops) ->
  forallb (fun o => negb (mentions r o)) ops = true ->
  let s1 := fst (step s (OCancel r)) in
  let s2 := exec s1 ops in
  count_ref r (s_fired s2) = count_ref r (s_fired s) /\
  (count_ref r (s_delivered s2) <= count_ref r (s_delivered s) + count_ref r (s_inflight s))%nat.
Proof.
  intros Hr [Hv1 Hv2] Hm s1 s2.
  destruct (cancel_removes c s r Hr) as [_ [Hn [Hf [Hfl Hd]]]]. fold s1 in Hn, Hf, Hfl, Hd.
  assert (Hr1 : reach (next_clock c (OCancel r)) s1) by (constructor; assumption).
  destruct (absent_run ops _ s1 r Hr1 Hv2 Hn Hm) as [_ [K2 K3]]. fold s2 in K2, K3.
  rewrite Hf in K2. rewrite Hfl, Hd in K3. split; [assumption|lia].
Qed.

(* unknown or cancelled references *)
Lemma unknown_reference s r :
  mem r (s_keys s) = false ->
  step s (OCancel r) = (s, ENotFound) /\ step s (OPause r) = (s, ENotFound) /\
  forall now, step s (OResume r now) = (s, ENotFound).
Proof. intros H. cbn [step]. rewrite H. cbn. auto. Qed.

Lemma cancelled_reference c s r :
  reach c s ->
  let s' := fst (step s (OCancel r)) in
  snd (step s' (OCancel r)) = ENotFound /\ snd (step s' (OPause r)) = ENotFound /\
  forall now, snd (step s' (OResume r now)) = ENotFound.
Proof.
  intros Hr s'. destruct (cancel_removes c s r Hr) as [Hm _]. fold s' in Hm.
  destruct (unknown_reference s' r Hm) as [H1 [H2 H3]]. rewrite H1, H2. repeat split; auto.
  intros now. rewrite H3. reflexivity.
Qed.

(* ------------------------------------------------------------------ a one-shot fires at most once *)

Definition is_once (j : job) : bool := match j_trig j with TOnce _ => true | TEvery _ => false end.

Lemma once_step c s r j o :
  inv c s -> jget r (s_jobs s) = Some j -> is_once j = true -> mentions r o = false ->
  let s' := fst (step s o) in
  (jget r (s_jobs s') = Some j \/ (exists j', jget r (s_jobs s') = Some j' /\ is_once j' = true /\ j_next j' = j_next j /\ j_sched j' = j_sched j) ) /\
    count_ref r (s_fired s') = count_ref r (s_fired s)
  \/
  jget r (s_jobs s') = None /\ (count_ref r (s_fired s') <= count_ref r (s_fired s) + 1)%nat.
Proof.
  intros Hi Hg Ho Hm s'. subst s'.
  destruct o as [r' d now|r' iv now|r'|r'|r' now|now|k]; cbn [step mentions] in *.
  - apply Nat.eqb_neq in Hm. left. unfold push_new. destruct (jget r' (s_jobs s)); cbn; split; auto.
    left. rewrite jget_app, Hg. reflexivity.
  - apply Nat.eqb_neq in Hm. left. unfold push_new. destruct (jget r' (s_jobs s)); cbn; split; auto.
    left. rewrite jget_app, Hg. reflexivity.
  - destruct (negb (mem r' (s_keys s))); cbn; [left; auto|]. destruct (jget r' (s_jobs s)) eqn:Eg; cbn; [|left; auto].
    destruct (Nat.eq_dec r' r) as [->|Hne].
    + right. rewrite jget_jdel. split; [reflexivity|lia].
    + left. rewrite jget_jdel_other by assumption. auto.
  - destruct (negb (mem r' (s_keys s))); cbn; [left; auto|]. destruct (jget r' (s_jobs s)) as [j0|] eqn:Eg; cbn; [|left; auto].
    destruct (j_susp j0) eqn:Es; cbn; [left; auto|]. left. split; [|reflexivity].
    destruct (Nat.eq_dec r' r) as [->|Hne].
    + rewrite Hg in Eg. inversion Eg; subst j0. right. eexists. rewrite jget_jput_same. split; [reflexivity|].
      unfold is_once in *. cbn. auto.
    + left. rewrite jget_jput_other by assumption. assumption.
  - destruct (negb (mem r' (s_keys s))); cbn; [left; auto|]. destruct (jget r' (s_jobs s)) as [j0|] eqn:Eg; cbn; [|left; auto].
    destruct (negb (j_susp j0)); cbn; [left; auto|].
    destruct (Nat.eq_dec r' r) as [->|Hne].
    + rewrite Hg in Eg. inversion Eg; subst j0. unfold is_once in Ho. destruct (j_trig j); [|discriminate]. cbn.
      right. rewrite jget_jdel. split; [reflexivity|lia].
    + left. destruct (j_trig j0); cbn; split; auto; left;
        [rewrite jget_jdel_other by assumption|rewrite jget_jput_other by assumption]; assumption.
  - destruct (head_due (s_jobs s)) as [[r' j0]|] eqn:Eh; cbn; [|left; auto].
    destruct (now <? j_next j0); cbn; [left; auto|].
    destruct (head_due_in _ _ _ Eh) as [Hin _]. pose proof (in_jget _ _ _ (inv_unique _ _ Hi) Hin) as Eg.
    destruct (Nat.eq_dec r' r) as [->|Hne].
    + rewrite Hg in Eg. inversion Eg; subst j0. unfold is_once in Ho. destruct (j_trig j); [|discriminate].
      right. rewrite jget_jdel. split; [reflexivity|]. rewrite count_ref_app. unfold count_ref at 2. simpl. rewrite Nat.eqb_refl. simpl. lia.
    + left. split.
      * left. destruct (j_trig j0); [rewrite jget_jdel_other by assumption|rewrite jget_jput_other by assumption]; assumption.
      * rewrite count_ref_app. unfold count_ref at 2. simpl.
        destruct (Nat.eqb r' r) eqn:E; [apply Nat.eqb_eq in E; congruence|]. simpl. lia.
  - destruct (nth_error (s_inflight s) k); cbn; left; auto.
Qed.

Lemma once_at_most_once ops : forall c s r j,
  reach c s -> valid_run c ops -> jget r (s_jobs s) = Some j -> is_once j = true ->
  forallb (fun o => negb (mentions r o)) ops = true ->
  (count_ref r (s_fired (exec s ops)) <= count_ref r (s_fired s) + 1)%nat.
Proof.
  induction ops as [|o t IH]; intros c s r j Hr Hv Hg Ho Hm; [cbn; lia|].
  destruct Hv as [Hv1 Hv2]. cbn [forallb] in Hm. apply andb_true_iff in Hm. destruct Hm as [Hm1 Hm2].
  apply negb_true_iff in Hm1.
  unfold exec. cbn [fold_left]. fold (exec (fst (step s o)) t).
  assert (Hr1 := reach_step _ _ _ Hr Hv1).
  destruct (once_step c s r j o (reach_inv _ _ Hr) Hg Ho Hm1) as [[Hj Hc]|[Hn Hc]].
  - destruct Hj as [Hj|[j' [Hj [Ho' _]]]].
    + specialize (IH _ _ r j Hr1 Hv2 Hj Ho Hm2). lia.
    + specialize (IH _ _ r j' Hr1 Hv2 Hj Ho' Hm2). lia.
  - destruct (absent_run t _ _ r Hr1 Hv2 Hn Hm2) as [_ [K _]]. lia.
Qed.

(* when the one-shot is the due head of the queue, the loop fires it *)
Lemma once_fires_when_due s r j now :
  head_due (s_jobs s) = Some (r, j) -> j_next j <= now ->
  let s' := fst (step s (OTick now)) in
  s_fired s' = s_fired s ++ [mkFire r (j_next j) now (j_trig j) (j_sched j)] /\
  s_inflight s' = s_inflight s ++ [mkFire r (j_next j) now (j_trig j) (j_sched j)].
Proof.
  intros Hh Hle. cbn [step]. rewrite Hh. destruct (now <? j_next j) eqn:E; [apply Z.ltb_lt in E; lia|]. cbn. auto.
Qed.

(* paused: no firing of that reference *)
Lemma paused_step c s r j o :
  inv c s -> jget r (s_jobs s) = Some j -> j_susp j = true ->
  mentions r o = false -> (forall n, o <> OResume r n) -> o <> OCancel r ->
  jget r (s_jobs (fst (step s o))) = Some j /\ count_ref r (s_fired (fst (step s o))) = count_ref r (s_fired s).
Proof.
  intros Hi Hg Hs Hm Hnr Hnc.
  destruct o as [r' d now|r' iv now|r'|r'|r' now|now|k]; cbn [step mentions] in *.
  - apply Nat.eqb_neq in Hm. unfold push_new. destruct (jget r' (s_jobs s)); cbn; split; auto. rewrite jget_app, Hg. reflexivity.
  - apply Nat.eqb_neq in Hm. unfold push_new. destruct (jget r' (s_jobs s)); cbn; split; auto. rewrite jget_app, Hg. reflexivity.
  - assert (r' <> r) by (intro; subst; congruence).
    destruct (negb (mem r' (s_keys s))); cbn; [auto|]. destruct (jget r' (s_jobs s)); cbn; split; auto.
    rewrite jget_jdel_other by assumption. assumption.
  - destruct (negb (mem r' (s_keys s))); cbn; [auto|]. destruct (jget r' (s_jobs s)) as [j0|] eqn:Eg; cbn; [|auto].
    destruct (j_susp j0) eqn:Es; cbn; [auto|]. split; [|reflexivity].
    destruct (Nat.eq_dec r' r) as [->|Hne]; [congruence|rewrite jget_jput_other by assumption; assumption].
  - assert (r' <> r) by (intro; subst; eapply Hnr; reflexivity).
    destruct (negb (mem r' (s_keys s))); cbn; [auto|]. destruct (jget r' (s_jobs s)) as [j0|] eqn:Eg; cbn; [|auto].
    destruct (negb (j_susp j0)); cbn; [auto|]. destruct (j_trig j0); cbn; split; auto;
      [rewrite jget_jdel_other by assumption|rewrite jget_jput_other by assumption]; assumption.
  - destruct (head_due (s_jobs s)) as [[r' j0]|] eqn:Eh; cbn; [|auto].
    destruct (now <? j_next j0); cbn; [auto|].
    destruct (head_due_in _ _ _ Eh) as [Hin Hns]. pose proof (in_jget _ _ _ (inv_unique _ _ Hi) Hin) as Eg.
    assert (Hne : r' <> r) by (intro; subst; congruence).
    split.
    + destruct (j_trig j0); [rewrite jget_jdel_other by assumption|rewrite jget_jput_other by assumption]; assumption.
    + rewrite count_ref_app. unfold count_ref at 2. simpl.
      destruct (Nat.eqb r' r) eqn:E; [apply Nat.eqb_eq in E; congruence|]. simpl. lia.
  - destruct (nth_error (s_inflight s) k); cbn; auto.
Qed.

Definition touches (r : ref) (o : op) : bool :=
  match o with
  | OScheduleOnce r' _ _ | OSchedule r' _ _ | OCancel r' | OResume r' _ => Nat.eqb r' r
  | _ => false
  end.

Lemma paused_run ops : forall c s r j,
  reach c s -> valid_run c ops -> jget r (s_jobs s) = Some j -> j_susp j = true ->
  forallb (fun o => negb (touches r o)) ops = true ->
  count_ref r (s_fired (exec s ops)) = count_ref r (s_fired s).
Proof.
  induction ops as [|o t IH]; intros c s r j Hr Hv Hg Hs Hm; [reflexivity|].
  destruct Hv as [Hv1 Hv2]. cbn [forallb] in Hm. apply andb_true_iff in Hm. destruct Hm as [Hm1 Hm2].
  apply negb_true_iff in Hm1.
  unfold exec. cbn [fold_left]. fold (exec (fst (step s o)) t).
  assert (Hr1 := reach_step _ _ _ Hr Hv1).
  destruct (paused_step c s r j o (reach_inv _ _ Hr) Hg Hs) as [K1 K2].
  - destruct o; cbn in *; auto.
  - intros n ->. cbn in Hm1. rewrite Nat.eqb_refl in Hm1. discriminate.
  - intros ->. cbn in Hm1. rewrite Nat.eqb_refl in Hm1. discriminate.
  - rewrite (IH _ _ r j Hr1 Hv2 K1 Hs Hm2). assumption.
Qed.


(* a second registration under a reference whose schedule is still queued is refused and changes
   nothing that the live schedule depends on: it stays queued, known, cancellable *)
Lemma duplicate_registration_keeps_live c s r j t first now :
  reach c s -> jget r (s_jobs s) = Some j ->
  let s' := fst (push_new s r t first now) in
  snd (push_new s r t first now) = EExists /\
  s_jobs s' = s_jobs s /\ mem r (s_keys s') = true /\
  snd (step s' (OCancel r)) = EOk /\ jget r (s_jobs (fst (step s' (OCancel r)))) = None.
Proof.
  intros Hr Hg. unfold push_new. rewrite Hg. cbn [fst snd s_jobs s_keys].
  split; [reflexivity|]. split; [reflexivity|]. split; [apply mem_add_key|].
  cbn [step s_keys s_jobs]. rewrite mem_add_key. cbn [negb]. rewrite Hg. cbn. split; [reflexivity|apply jget_jdel].
Qed.

(* ------------------------------------------------------------------ pausing a one-shot loses it *)

Definition lost_once_ops : list op := [OScheduleOnce 0%nat 200 10; OPause 0%nat; OResume 0%nat 20].

Lemma lost_once_witness :
  valid_run 0 lost_once_ops /\
  map snd (trace s0 lost_once_ops) = [EOk; EOk; EExpired] /\
  s_jobs (exec s0 lost_once_ops) = [] /\ s_fired (exec s0 lost_once_ops) = [] /\
  (* nothing is ever delivered afterwards, whatever else happens to other references and however long one waits *)
  forall ops, valid_run 20 ops -> forallb (fun o => negb (mentions 0%nat o)) ops = true ->
    count_ref 0%nat (s_delivered (exec (exec s0 lost_once_ops) ops)) = 0%nat.
Proof.
  split; [cbn; lia|]. split; [vm_compute; reflexivity|]. split; [vm_compute; reflexivity|]. split; [vm_compute; reflexivity|].
  intros ops Hv Hm.
  assert (Hr : reach 20 (exec s0 lost_once_ops)).
  { change 20 with (fold_left next_clock lost_once_ops 0). apply valid_run_reach; [constructor|cbn; lia]. }
  destruct (absent_run ops _ _ 0%nat Hr Hv) as [_ [_ K]]; [vm_compute; reflexivity|assumption|].
  change (count_ref 0%nat (s_inflight (exec s0 lost_once_ops))) with 0%nat in K.
  change (count_ref 0%nat (s_delivered (exec s0 lost_once_ops))) with 0%nat in K. lia.
Qed.

Example ex_schedule_runs :
  let ops := [OScheduleOnce 0%nat 100 10; OSchedule 1%nat 50 10; OTick 60; OTick 110; OComplete 0%nat; OTick 115; OPause 1%nat; OTick 300;
              OResume 1%nat 400; OTick 450; OCancel 1%nat; OTick 600; OCancel 1%nat; OCancel 0%nat] in
  valid_run 0 ops /\
  map snd (trace s0 ops) = [EOk; EOk; EOk; EOk; EOk; EOk; EOk; EOk; EOk; EOk; EOk; EOk; ENotFound; EJobNotFound] /\
  map (fun f => (f_ref f, f_run f)) (s_fired (exec s0 ops)) = [(1%nat, 60); (0%nat, 110); (1%nat, 110); (1%nat, 450)].
Proof. split; [cbn; lia|]. split; vm_compute; reflexivity. Qed.
