(* C27 — proofs over the coalescer transition system of C27/Model.v.
   Every statement is for ALL label sequences: any number of callers, any interleaving of their submit
   steps with the writer's steps and with close, any verdict of the transport on any batch. *)
From Coq Require Import List Arith Bool Lia Sorted Permutation.
From GV Require Import C27.Model.
Import ListNotations.

(* ------------------------------------------------------------------ order-preserving subsequences *)
Inductive subseq {A} : list A -> list A -> Prop :=
| ss_nil : subseq [] []
| ss_skip x l1 l2 : subseq l1 l2 -> subseq l1 (x :: l2)
| ss_take x l1 l2 : subseq l1 l2 -> subseq (x :: l1) (x :: l2).

Lemma subseq_nil_l {A} (l : list A) : subseq [] l.
Proof. induction l; constructor; auto. Qed.

Lemma subseq_refl {A} (l : list A) : subseq l l.
Proof. induction l; [constructor | apply ss_take; auto]. Qed.

Lemma subseq_app {A} (a b c d : list A) : subseq a b -> subseq c d -> subseq (a ++ c) (b ++ d).
Proof. induction 1; intros; simpl; [assumption | apply ss_skip; auto | apply ss_take; auto]. Qed.

Lemma subseq_app_l {A} (a b : list A) : subseq a (a ++ b).
Proof. rewrite <- (app_nil_r a) at 1. apply subseq_app; [apply subseq_refl | apply subseq_nil_l]. Qed.

Lemma subseq_trans {A} (a b c : list A) : subseq a b -> subseq b c -> subseq a c.
Proof.
  intros Hab Hbc. revert a Hab. induction Hbc; intros a Hab.
  - exact Hab.
  - constructor. auto.
  - inversion Hab; subst.
    + constructor. auto.
    + apply ss_take. auto.
Qed.

Lemma subseq_filter {A} (f : A -> bool) (l : list A) : subseq (filter f l) l.
Proof. induction l; simpl; [constructor|]. destruct (f a); [apply ss_take | apply ss_skip]; auto. Qed.

Lemma subseq_filter_mono {A} (f : A -> bool) (a b : list A) : subseq a b -> subseq (filter f a) (filter f b).
Proof. induction 1; simpl; [constructor | destruct (f x); [apply ss_skip|]; auto | destruct (f x); [apply ss_take|]; auto]. Qed.

Lemma subseq_map {A B} (f : A -> B) (a b : list A) : subseq a b -> subseq (map f a) (map f b).
Proof. induction 1; simpl; [constructor | apply ss_skip; auto | apply ss_take; auto]. Qed.

Lemma subseq_In {A} (a b : list A) x : subseq a b -> In x a -> In x b.
Proof. induction 1; simpl; intros; auto. destruct H0; auto. Qed.

Lemma subseq_sorted {A} (R : A -> A -> Prop) (a b : list A) :
  subseq a b -> StronglySorted R b -> StronglySorted R a.
Proof.
  induction 1; intros Hs; auto.
  - inversion Hs; subst. auto.
  - inversion Hs; subst. constructor; auto.
    rewrite Forall_forall in *. intros y Hy. apply H3. eapply subseq_In; eauto.
Qed.

Lemma subseq_NoDup {A} (a b : list A) : subseq a b -> NoDup b -> NoDup a.
Proof.
  induction 1; intros Hn; auto.
  - inversion Hn; subst; auto.
  - inversion Hn; subst. constructor; auto. intro Hi. apply H2. eapply subseq_In; eauto.
Qed.

Lemma subseq_concat_filter {A} (f : (bool * list A) -> bool) (fl : list (bool * list A)) :
  subseq (concat (map snd (filter f fl))) (concat (map snd fl)).
Proof.
  induction fl as [|[o b] fl IH]; simpl; [constructor|].
  destruct (f (o, b)); simpl.
  - apply subseq_app; [apply subseq_refl | exact IH].
  - rewrite <- (app_nil_l (concat (map snd (filter f fl)))). apply subseq_app; [apply subseq_nil_l | exact IH].
Qed.

(* ------------------------------------------------------------------ reachability and the invariant rule *)
Definition reach (c : cfg) (s : state) : Prop := exists ls, run c init ls = Some s.

Lemma run_invariant (c : cfg) (P : state -> Prop) :
  (forall s l s', P s -> step c s l = Some s' -> P s') ->
  forall ls s0 s, P s0 -> run c s0 ls = Some s -> P s.
Proof.
  intros Hstep. induction ls as [|l ls IH]; simpl; intros s0 s H0 Hr.
  - inversion Hr; subst; auto.
  - destruct (step c s0 l) eqn:E; [|discriminate]. eapply IH; [|exact Hr]. eapply Hstep; eauto.
Qed.

Lemma reach_invariant (c : cfg) (P : state -> Prop) :
  P init -> (forall s l s', P s -> step c s l = Some s' -> P s') -> forall s, reach c s -> P s.
Proof. intros H0 Hs s [ls Hr]. eapply run_invariant; eauto. Qed.

Ltac destr_step H :=
  unfold step in H;
  repeat match type of H with
         | context [match ?x with _ => _ end] =>
             let T := type of x in
             lazymatch T with state => fail | _ => destruct x eqn:?; try discriminate end
         end;
  inversion H; subst; clear H.

(* ------------------------------------------------------------------ 1. conservation *)
Definition cons_inv (s : state) : Prop :=
  handled s ++ batch s ++ chan s = enq s /\
  (wr s = WSelect \/ wr s = WBarrier \/ wr s = WExited -> batch s = []).

Lemma handled_snoc (fl : list (bool * list msg)) ok (b : list msg) :
  concat (map snd (fl ++ [(ok, b)])) = concat (map snd fl) ++ b.
Proof. rewrite map_app, concat_app. simpl. rewrite app_nil_r. reflexivity. Qed.

Lemma cons_step c s l s' : cons_inv s -> step c s l = Some s' -> cons_inv s'.
Proof.
  intros [Hc Hb] H. unfold handled in *.
  destr_step H; unfold cons_inv, handled, ret, set_thread, enqueue, with_wr; cbn [chan done wr batch threads enq flushed];
    try (split; [assumption | assumption]).
  all: try rewrite handled_snoc.
  all: try (split; [ | intros [E|[E|E]]; try discriminate E; auto ]).
  all: try solve [ rewrite <- Hc; rewrite ?app_assoc; reflexivity ].
  all: try solve [ rewrite <- Hc; repeat rewrite <- app_assoc; simpl;
                   repeat match goal with E : chan s = _ |- _ => rewrite E end;
                   repeat rewrite <- app_assoc; simpl; reflexivity ].
  all: try solve [ rewrite <- Hc;
                   repeat match goal with E : chan s = _ |- _ => rewrite E end;
                   repeat match goal with E : batch s = _ |- _ => rewrite E end;
                   rewrite ?Hb by auto; simpl; repeat rewrite <- app_assoc; simpl; reflexivity ].
  all: try solve [ repeat match goal with E : batch s = _ |- _ => rewrite E in * end;
                   simpl in *; rewrite ?app_nil_r in *; assumption ].
Qed.

Lemma cons_init : cons_inv init.
Proof. split; [reflexivity | intros _; reflexivity]. Qed.

Lemma conservation c s : reach c s -> handled s ++ batch s ++ chan s = enq s.
Proof. intros H. apply (reach_invariant c cons_inv cons_init (cons_step c) s H). Qed.
