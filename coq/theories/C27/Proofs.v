(* C27 — proofs over the coalescer transition system of C27/Model.v.
   Every statement is for ALL label sequences: any number of callers, any interleaving of their submit
   steps with the writer's steps and with close, any verdict of the transport on any batch. *)
From Coq Require Import List Arith Bool Lia Sorted Permutation.
From GV Require Import C27.Model.
Import ListNotations.

(* ------------------------------------------------------------------ order-preserving subsequences *)
Inductive subseq {A} : list A -> list A -> Prop :=
| ss_nil : subseq [] []
| ss_skip x l1 l2 : subseq l1 l2 -> subseq l1 (x :: l2)
| ss_take x l1 l2 : subseq l1 l2 -> subseq (x :: l1) (x :: l2).

Lemma subseq_nil_l {A} (l : list A) : subseq [] l.
Proof. induction l; constructor; auto. Qed.

Lemma subseq_refl {A} (l : list A) : subseq l l.
Proof. induction l; [constructor | apply ss_take; auto]. Qed.

Lemma subseq_app {A} (a b c d : list A) : subseq a b -> subseq c d -> subseq (a ++ c) (b ++ d).
Proof. induction 1; intros; simpl; [assumption | apply ss_skip; auto | apply ss_take; auto]. Qed.

Lemma subseq_app_l {A} (a b : list A) : subseq a (a ++ b).
Proof. rewrite <- (app_nil_r a) at 1. apply subseq_app; [apply subseq_refl | apply subseq_nil_l]. Qed.

Lemma subseq_trans {A} (a b c : list A) : subseq a b -> subseq b c -> subseq a c.
Proof.
  intros Hab Hbc. revert a Hab. induction Hbc; intros a Hab.
  - exact Hab.
  - constructor. auto.
  - inversion Hab; subst.
    + constructor. auto.
    + apply ss_take. auto.
Qed.

Lemma subseq_filter {A} (f : A -> bool) (l : list A) : subseq (filter f l) l.
Proof. induction l; simpl; [constructor|]. destruct (f a); [apply ss_take | apply ss_skip]; auto. Qed.

Lemma subseq_filter_mono {A} (f : A -> bool) (a b : list A) : subseq a b -> subseq (filter f a) (filter f b).
Proof. induction 1; simpl; [constructor | destruct (f x); [apply ss_skip|]; auto | destruct (f x); [apply ss_take|]; auto]. Qed.

Lemma subseq_map {A B} (f : A -> B) (a b : list A) : subseq a b -> subseq (map f a) (map f b).
Proof. induction 1; simpl; [constructor | apply ss_skip; auto | apply ss_take; auto]. Qed.

Lemma subseq_In {A} (a b : list A) x : subseq a b -> In x a -> In x b.
Proof. induction 1; simpl; intros; auto. destruct H0; auto. Qed.

Lemma subseq_sorted {A} (R : A -> A -> Prop) (a b : list A) :
  subseq a b -> StronglySorted R b -> StronglySorted R a.
Proof.
  induction 1; intros Hs; auto.
  - inversion Hs; subst. auto.
  - inversion Hs; subst. constructor; auto.
    rewrite Forall_forall in *. intros y Hy. apply H3. eapply subseq_In; eauto.
Qed.

Lemma subseq_NoDup {A} (a b : list A) : subseq a b -> NoDup b -> NoDup a.
Proof.
  induction 1; intros Hn; auto.
  - inversion Hn; subst; auto.
  - inversion Hn; subst. constructor; auto. intro Hi. apply H2. eapply subseq_In; eauto.
Qed.

Lemma subseq_concat_filter {A} (f : (bool * list A) -> bool) (fl : list (bool * list A)) :
  subseq (concat (map snd (filter f fl))) (concat (map snd fl)).
Proof.
  induction fl as [|[o b] fl IH]; simpl; [constructor|].
  destruct (f (o, b)); simpl.
  - apply subseq_app; [apply subseq_refl | exact IH].
  - rewrite <- (app_nil_l (concat (map snd (filter f fl)))). apply subseq_app; [apply subseq_nil_l | exact IH].
Qed.

(* ------------------------------------------------------------------ reachability and the invariant rule *)
Definition reach (c : cfg) (s : state) : Prop := exists ls, run c init ls = Some s.

Lemma run_invariant (c : cfg) (P : state -> Prop) :
  (forall s l s', P s -> step c s l = Some s' -> P s') ->
  forall ls s0 s, P s0 -> run c s0 ls = Some s -> P s.
Proof.
  intros Hstep. induction ls as [|l ls IH]; simpl; intros s0 s H0 Hr.
  - inversion Hr; subst; auto.
  - destruct (step c s0 l) eqn:E; [|discriminate]. eapply IH; [|exact Hr]. eapply Hstep; eauto.
Qed.

Lemma reach_invariant (c : cfg) (P : state -> Prop) :
  P init -> (forall s l s', P s -> step c s l = Some s' -> P s') -> forall s, reach c s -> P s.
Proof. intros H0 Hs s [ls Hr]. eapply run_invariant; eauto. Qed.

Ltac destr_step H :=
  unfold step in H;
  repeat match type of H with
         | context [match ?x with _ => _ end] =>
             let T := type of x in
             lazymatch T with state => fail | _ => destruct x eqn:?; try discriminate end
         end;
  inversion H; subst; clear H.

(* ------------------------------------------------------------------ 1. conservation *)
Definition cons_inv (s : state) : Prop :=
  handled s ++ batch s ++ chan s = enq s /\
  (wr s = WSelect \/ wr s = WBarrier \/ wr s = WExited -> batch s = []).

Lemma handled_snoc (fl : list (bool * list msg)) ok (b : list msg) :
  concat (map snd (fl ++ [(ok, b)])) = concat (map snd fl) ++ b.
Proof. rewrite map_app, concat_app. simpl. rewrite app_nil_r. reflexivity. Qed.

Lemma cons_step c s l s' : cons_inv s -> step c s l = Some s' -> cons_inv s'.
Proof.
  intros [Hc Hb] H. unfold handled in *.
  destr_step H; unfold cons_inv, handled, ret, set_thread, enqueue, with_wr; cbn [chan done wr batch threads enq flushed];
    try (split; [assumption | assumption]).
  all: try rewrite handled_snoc.
  all: repeat match goal with
              | E : chan _ = _ |- _ => rewrite E in *; clear E
              | E : batch _ = _ |- _ => rewrite E in *; clear E
              end.
  all: split; [ | intros [E|[E|E]]; try discriminate E; auto ].
  all: try (rewrite <- Hc; repeat rewrite <- app_assoc; simpl; rewrite ?app_nil_r; reflexivity).
  rewrite Hb in Hc by auto. exact Hc.
Qed.

Lemma cons_init : cons_inv init.
Proof. split; [reflexivity | intros _; reflexivity]. Qed.

Lemma cons_reach c s : reach c s -> cons_inv s.
Proof. apply (reach_invariant c cons_inv cons_init (cons_step c)). Qed.

Lemma conservation c s : reach c s -> handled s ++ batch s ++ chan s = enq s.
Proof. intros H. apply (cons_reach c s H). Qed.

(* ------------------------------------------------------------------ 2. message identities, order *)
Definition next_of (ts : list thread) (t : nat) : nat :=
  match get ts t with Some th => next th | None => 0 end.

Lemma get_set_same {A} (l : list A) t x y : nth_error l t = Some y -> nth_error (set_nth l t x) t = Some x.
Proof. revert t. induction l; intros [|t]; simpl; intros; try discriminate; auto. Qed.

Lemma get_set_other {A} (l : list A) t t' x : t <> t' -> nth_error (set_nth l t x) t' = nth_error l t'.
Proof. revert t t'. induction l; intros [|t] [|t']; simpl; intros; try congruence; auto. Qed.

Lemma next_of_set ts t th x t' :
  get ts t = Some th -> next th <= next x -> next_of ts t' <= next_of (set_nth ts t x) t'.
Proof.
  intros Hg Hle. unfold next_of, get in *. destruct (Nat.eq_dec t t') as [<-|Hne].
  - rewrite (get_set_same _ _ _ _ Hg), Hg. exact Hle.
  - rewrite get_set_other by exact Hne. apply Nat.le_refl.
Qed.

Lemma next_of_app ts x t' : next_of ts t' <= next_of (ts ++ [x]) t'.
Proof.
  unfold next_of, get. destruct (nth_error ts t') eqn:E.
  - rewrite nth_error_app1 by (apply nth_error_Some; congruence). rewrite E. apply Nat.le_refl.
  - apply Nat.le_0_l.
Qed.

Definition ids_inv (s : state) : Prop :=
  NoDup (enq s) /\
  (forall m, In m (enq s) -> snd m < next_of (threads s) (fst m)) /\
  (forall t, StronglySorted lt (map snd (of_caller t (enq s)))).

Lemma sorted_snoc l n : StronglySorted lt l -> Forall (fun x => x < n) l -> StronglySorted lt (l ++ [n]).
Proof.
  induction 1; simpl; intros Hf.
  - constructor; constructor.
  - inversion Hf; subst. constructor; auto. apply Forall_app. split; auto.
Qed.

Lemma of_caller_snoc t l m : of_caller t (l ++ [m]) = of_caller t l ++ (if Nat.eqb (fst m) t then [m] else []).
Proof. unfold of_caller. rewrite filter_app. simpl. destruct (fst m =? t); reflexivity. Qed.

(* the effect of one step on [enq] and on the callers' sequence numbers *)
Lemma step_enq c s l s' : step c s l = Some s' ->
  (forall t', next_of (threads s) t' <= next_of (threads s') t') /\
  (enq s' = enq s \/
   exists t th, get (threads s) t = Some th /\ enq s' = enq s ++ [(t, next th)] /\
                next_of (threads s') t = S (next th)).
Proof.
  intros H. destr_step H; unfold ret, set_thread, enqueue, with_wr; cbn [chan done wr batch threads enq flushed].
  all: split; [ intros t'; try apply Nat.le_refl; try apply next_of_app;
                try (eapply next_of_set; [eassumption | simpl; auto]) | ].
  all: try (left; reflexivity).
  all: right; eexists; eexists; split; [eassumption | split; [reflexivity|] ];
       unfold next_of, get in *; erewrite get_set_same by eassumption; reflexivity.
Qed.

Lemma ids_step c s l s' : ids_inv s -> step c s l = Some s' -> ids_inv s'.
Proof.
  intros (Hnd & Hb & Hs) H. destruct (step_enq _ _ _ _ H) as [Hmono [He | (t & th & Hg & He & Hn)]].
  - unfold ids_inv. rewrite He. split; [exact Hnd|]. split; [|exact Hs].
    intros m Hm. eapply Nat.lt_le_trans; [apply Hb; exact Hm | apply Hmono].
  - assert (Hlt : forall m, In m (enq s) -> fst m = t -> snd m < next th).
    { intros m Hm <-. specialize (Hb m Hm). unfold next_of in Hb. rewrite Hg in Hb. exact Hb. }
    unfold ids_inv. rewrite He. split; [|split].
    + eapply Permutation_NoDup; [apply Permutation_cons_append|]. constructor; [|exact Hnd].
      intros Hm. specialize (Hlt _ Hm eq_refl). simpl in Hlt. lia.
    + intros m Hm. apply in_app_or in Hm. destruct Hm as [Hm | [<-|[]]].
      * eapply Nat.lt_le_trans; [apply Hb; exact Hm | apply Hmono].
      * simpl. rewrite Hn. lia.
    + intros t'. rewrite of_caller_snoc. simpl. destruct (Nat.eqb_spec t t') as [<-|Hne].
      * rewrite map_app. simpl. apply sorted_snoc; [apply Hs|].
        rewrite Forall_forall. intros x Hx. apply in_map_iff in Hx. destruct Hx as (m & <- & Hm).
        unfold of_caller in Hm. apply filter_In in Hm. destruct Hm as [Hm Ht].
        apply Nat.eqb_eq in Ht. apply Hlt; auto.
      * rewrite app_nil_r. apply Hs.
Qed.

Lemma ids_init : ids_inv init.
Proof. split; [constructor|]. split; [intros m []|]. intros t. simpl. constructor. Qed.

Lemma ids_reach c s : reach c s -> ids_inv s.
Proof. apply (reach_invariant c ids_inv ids_init (ids_step c)). Qed.

(* per caller, the accepted messages are exactly its sequence numbers in increasing order *)
Lemma enq_sorted c s t : reach c s -> StronglySorted lt (map snd (of_caller t (enq s))).
Proof. intros H. apply (ids_reach c s H). Qed.

Lemma handled_subseq_enq c s : reach c s -> subseq (handled s) (enq s).
Proof. intros H. rewrite <- (conservation c s H). apply subseq_app_l. Qed.

Lemma delivered_subseq_handled s : subseq (delivered s) (handled s).
Proof. apply subseq_concat_filter. Qed.

Lemma errored_subseq_handled s : subseq (errored s) (handled s).
Proof. apply subseq_concat_filter. Qed.

(* FIFO: what the transport delivered, restricted to one caller, is in that caller's send order *)
Lemma fifo c s t : reach c s -> StronglySorted lt (map snd (of_caller t (delivered s))).
Proof.
  intros H. eapply subseq_sorted; [|apply (enq_sorted c s t H)].
  apply subseq_map. apply subseq_filter_mono.
  eapply subseq_trans; [apply delivered_subseq_handled | apply (handled_subseq_enq c s H)].
Qed.

(* the same for the order in which messages leave the coalescer at all (delivered or dead-lettered) *)
Lemma fifo_handled c s t : reach c s -> StronglySorted lt (map snd (of_caller t (handled s))).
Proof.
  intros H. eapply subseq_sorted; [|apply (enq_sorted c s t H)].
  apply subseq_map. apply subseq_filter_mono. apply (handled_subseq_enq c s H).
Qed.

Lemma split_perm (fl : list (bool * list msg)) :
  Permutation (concat (map snd (filter fst fl)) ++ concat (map snd (filter (fun p => negb (fst p)) fl)))
              (concat (map snd fl)).
Proof.
  induction fl as [|[o b] fl IH]; simpl; [constructor|]. destruct o; simpl.
  - rewrite <- app_assoc. apply Permutation_app_head. exact IH.
  - etransitivity; [apply Permutation_app_swap_app|]. apply Permutation_app_head. exact IH.
Qed.

(* at most once: no message is delivered twice, dead-lettered twice, or both *)
Lemma at_most_once c s : reach c s -> NoDup (delivered s ++ errored s).
Proof.
  intros H. eapply Permutation_NoDup; [symmetry; apply split_perm|].
  eapply subseq_NoDup; [apply (handled_subseq_enq c s H) | apply (ids_reach c s H)].
Qed.

(* only accepted messages are ever delivered or dead-lettered *)
Lemma handled_accepted c s m : reach c s -> In m (handled s) -> In m (enq s).
Proof. intros H. apply subseq_In. apply (handled_subseq_enq c s H). Qed.

(* nothing vanishes while the writer runs: an accepted message is delivered, dead-lettered, in the
   writer's current batch, or still queued *)
Lemma accepted_somewhere c s m : reach c s -> In m (enq s) ->
  In m (delivered s) \/ In m (errored s) \/ In m (batch s) \/ In m (chan s).
Proof.
  intros H Hm. rewrite <- (conservation c s H) in Hm.
  apply in_app_or in Hm. destruct Hm as [Hm|Hm].
  - eapply Permutation_in in Hm; [|symmetry; apply split_perm]. apply in_app_or in Hm. tauto.
  - apply in_app_or in Hm. tauto.
Qed.

(* ------------------------------------------------------------------ 3. accounted (repaired shutdown) *)
Definition closing_w (w : wstate) : bool :=
  match w with WDrain true | WFlush true | WExited => true | _ => false end.
Definition quiet (th : thread) : bool := match tpc th with Idle | Locked => true | _ => false end.

Lemma forallb_set_nth {A} (f : A -> bool) l t x :
  forallb f l = true -> f x = true -> forallb f (set_nth l t x) = true.
Proof.
  revert t. induction l; intros [|t]; simpl; intros H Hx; auto.
  - apply andb_true_iff in H. destruct H as [_ H]. rewrite Hx, H. reflexivity.
  - apply andb_true_iff in H. destruct H as [Ha H]. rewrite Ha. simpl. apply IHl; auto.
Qed.

Lemma forallb_get {A} (f : A -> bool) l t x : forallb f l = true -> nth_error l t = Some x -> f x = true.
Proof. intros H Hg. rewrite forallb_forall in H. apply H. eapply nth_error_In; eauto. Qed.

Lemma idle_quiet ts : forallb is_idle ts = true -> forallb quiet ts = true.
Proof.
  rewrite !forallb_forall. intros H x Hx. specialize (H x Hx). unfold is_idle, quiet in *.
  destruct (tpc x); auto; discriminate.
Qed.

Section Repaired.
  Variable c : cfg.
  Hypothesis Hbar : barrier c = true.
  Hypothesis Hall : drain_all c = true.
  Hypothesis Hmb : 1 <= maxBatch c.

  Definition acc_inv (s : state) : Prop :=
    (wr s = WBarrier \/ closing_w (wr s) = true -> done s = true) /\
    (closing_w (wr s) = true -> forallb quiet (threads s) = true) /\
    (wr s = WFlush true -> batch s = [] -> chan s = []) /\
    (wr s = WExited -> chan s = []).

  Lemma acc_init : acc_inv init.
  Proof. repeat split; simpl; intros; try discriminate; destruct H; discriminate. Qed.

  (* a caller step: writer control, batch and [done] unchanged *)
  Lemma acc_caller s ch' ts' e' :
    acc_inv s ->
    (closing_w (wr s) = true -> forallb quiet ts' = true /\ ch' = chan s) ->
    acc_inv (mkState ch' (done s) (wr s) (batch s) ts' e' (flushed s)).
  Proof.
    intros (Hd & Hq & Hf & He) Hc. unfold acc_inv; cbn [chan done wr batch threads enq flushed].
    repeat split; auto.
    - intros Hw. apply Hc. exact Hw.
    - intros Hw Hb. destruct Hc as [_ ->]; [rewrite Hw; reflexivity|]. auto.
    - intros Hw. destruct Hc as [_ ->]; [rewrite Hw; reflexivity|]. auto.
  Qed.

  Lemma acc_step s l s' : acc_inv s -> step c s l = Some s' -> acc_inv s'.
  Proof.
    intros Hinv H. pose proof Hinv as (Hd & Hq & Hf & He).
    assert (Hqt : forall t th, get (threads s) t = Some th -> closing_w (wr s) = true -> quiet th = true).
    { intros t th Hg Hcw. eapply forallb_get; [apply Hq; exact Hcw | exact Hg]. }
    destruct l; simpl in H.
    - (* LSpawn *) inversion H; subst; clear H. apply acc_caller; [exact Hinv|]. intros Hcw. split; [|reflexivity].
      rewrite forallb_app, (Hq Hcw). reflexivity.
    - (* LSubLock *) destruct (get (threads s) t) as [th|] eqn:Hg; [|discriminate].
      destruct (tpc th) eqn:Hp; try discriminate. inversion H; subst; clear H.
      apply acc_caller; [exact Hinv|]. intros Hcw. split; [|reflexivity].
      apply forallb_set_nth; [auto | reflexivity].
    - (* LSubCheck *) destruct (get (threads s) t) as [th|] eqn:Hg; [|discriminate].
      destruct (tpc th) eqn:Hp; try discriminate.
      destruct (eqb closed (done s)) eqn:Hcl; [|discriminate]. apply eqb_prop in Hcl.
      destruct closed; inversion H; subst; clear H.
      + apply acc_caller; [exact Hinv|]. intros Hcw. split; [|reflexivity].
        apply forallb_set_nth; [auto | reflexivity].
      + apply acc_caller; [exact Hinv|]. intros Hcw. rewrite Hd in Hcl by auto. discriminate.
    - (* LSubFast *) destruct (get (threads s) t) as [th|] eqn:Hg; [|discriminate].
      destruct (tpc th) eqn:Hp; try discriminate.
      destruct (eqb ok (length (chan s) <? capacity c)); [|discriminate].
      inversion H; subst; clear H.
      destruct ok; apply acc_caller; try exact Hinv; intros Hcw;
        specialize (Hqt _ _ Hg Hcw); unfold quiet in Hqt; rewrite Hp in Hqt; discriminate.
    - (* LSubSlowSend *) destruct (get (threads s) t) as [th|] eqn:Hg; [|discriminate].
      destruct (tpc th) eqn:Hp; try discriminate.
      destruct (length (chan s) <? capacity c); [|discriminate]. inversion H; subst; clear H.
      apply acc_caller; [exact Hinv|]. intros Hcw.
      specialize (Hqt _ _ Hg Hcw); unfold quiet in Hqt; rewrite Hp in Hqt; discriminate.
    - (* LSubSlowCtx *) destruct (get (threads s) t) as [th|] eqn:Hg; [|discriminate].
      destruct (tpc th) eqn:Hp; try discriminate. inversion H; subst; clear H.
      apply acc_caller; [exact Hinv|]. intros Hcw. split; [|reflexivity].
      apply forallb_set_nth; [auto | reflexivity].
    - (* LSubSlowDone *) destruct (get (threads s) t) as [th|] eqn:Hg; [|discriminate].
      destruct (tpc th) eqn:Hp; try discriminate. destruct (done s); [|discriminate].
      inversion H; subst; clear H.
      apply acc_caller; [exact Hinv|]. intros Hcw. split; [|reflexivity].
      apply forallb_set_nth; [auto | reflexivity].
    - (* LClose *) inversion H; subst; clear H. unfold acc_inv; cbn [chan done wr batch threads enq flushed].
      repeat split; auto.
    - (* LWRecv *) destruct (wr s) eqn:Hw; try discriminate. destruct (chan s) eqn:Hch; [discriminate|].
      inversion H; subst; clear H. unfold acc_inv, with_wr; cbn [chan done wr batch threads enq flushed].
      repeat split; simpl; intros; try discriminate. destruct H; discriminate.
    - (* LWDone *) destruct (wr s) eqn:Hw; try discriminate. destruct (done s) eqn:Hdn; [|discriminate].
      inversion H; subst; clear H. unfold acc_inv, with_wr; cbn [chan done wr batch threads enq flushed].
      repeat split; simpl; intros; try discriminate; auto.
    - (* LWBarrier *) destruct (wr s) eqn:Hw; try discriminate.
      rewrite Hbar in H. simpl in H. destruct (forallb is_idle (threads s)) eqn:Hidle; [|discriminate].
      inversion H; subst; clear H. unfold acc_inv, with_wr; cbn [chan done wr batch threads enq flushed].
      repeat split; simpl; intros; try discriminate; auto. apply idle_quiet. exact Hidle.
    - (* LWDrainOne *) destruct (wr s) eqn:Hw; try discriminate. destruct (chan s) eqn:Hch; [discriminate|].
      destruct (length (batch s) <? maxBatch c); [|discriminate].
      inversion H; subst; clear H. unfold acc_inv, with_wr; cbn [chan done wr batch threads enq flushed].
      repeat split; simpl; intros; try discriminate; auto.
      all: try (destruct H as [H|H]; [discriminate|]; apply Hd; right; exact H).
    - (* LWDrainStop *) destruct (wr s) eqn:Hw; try discriminate.
      destruct (negb (length (batch s) <? maxBatch c) || match chan s with [] => true | _ :: _ => false end) eqn:Hg;
        [|discriminate].
      inversion H; subst; clear H. unfold acc_inv, with_wr; cbn [chan done wr batch threads enq flushed].
      repeat split; simpl; intros; try discriminate; auto.
      all: try (destruct H as [H|H]; [discriminate|]; apply Hd; right; exact H).
      all: try (rewrite H0 in Hg; simpl in Hg;
                destruct (Nat.ltb_spec 0 (maxBatch c)); [|lia]; simpl in Hg; destruct (chan s); [reflexivity|discriminate]).
    - (* LWFlush *) destruct (wr s) eqn:Hw; try discriminate.
      destruct (msgs_eqb b (batch s)); [|discriminate].
      destruct (batch s) eqn:Hb.
      + inversion H; subst; clear H. unfold acc_inv, with_wr; cbn [chan done wr batch threads enq flushed].
        destruct closing; repeat split; simpl; intros; try discriminate; auto.
        all: try (destruct H; discriminate).
      + inversion H; subst; clear H. unfold acc_inv; cbn [chan done wr batch threads enq flushed].
        rewrite Hall. destruct closing; repeat split; simpl; intros; try discriminate; auto.
        all: try (destruct H; discriminate).
  Qed.

  Lemma acc_reach s : reach c s -> acc_inv s.
  Proof. apply (reach_invariant c acc_inv acc_init acc_step). Qed.

  (* once the writer has exited, every accepted message has been delivered or dead-lettered *)
  Lemma accounted s : reach c s -> wr s = WExited ->
    forall m, In m (enq s) -> In m (delivered s) \/ In m (errored s).
  Proof.
    intros H Hw m Hm. destruct (acc_reach s H) as (_ & _ & _ & He).
    destruct (cons_reach c s H) as [_ Hb].
    destruct (accepted_somewhere c s m H Hm) as [|[|[Hx|Hx]]]; auto.
    - rewrite Hb in Hx by auto. destruct Hx.
    - rewrite He in Hx by auto. destruct Hx.
  Qed.

End Repaired.

(* ------------------------------------------------------------------ 4. the shutdown code before the repair *)
(* (a) one drainReady on shutdown: with maxBatch = 1 (capacity 4) the caller queues three messages behind a
       batch that is in flight, close() is called, the writer flushes ONE more batch and exits. *)
Definition witness_one_drain : list label :=
  [ LSpawn;
    LSubLock 0; LSubCheck 0 false; LSubFast 0 true;        (* (0,0) accepted *)
    LWRecv; LWDrainStop;                                     (* writer holds batch [(0,0)], blocked in flush *)
    LSubLock 0; LSubCheck 0 false; LSubFast 0 true;        (* (0,1) *)
    LSubLock 0; LSubCheck 0 false; LSubFast 0 true;        (* (0,2) *)
    LSubLock 0; LSubCheck 0 false; LSubFast 0 true;        (* (0,3) *)
    LClose;
    LWFlush true [(0,0)];
    LWDone; LWBarrier; LWDrainOne; LWDrainStop; LWFlush true [(0,1)] ].

(* (b) a submit that passed the shutdown pre-check enqueues after the writer has exited; this one survives
       draining until empty and needs the lock. *)
Definition witness_late_submit : list label :=
  [ LSpawn;
    LSubLock 0; LSubCheck 0 false;                          (* pre-check passed *)
    LClose; LWDone; LWBarrier; LWDrainStop; LWFlush true []; (* close(): writer drains nothing and exits *)
    LSubFast 0 true ].                                       (* ... and now the send succeeds *)

Definition lost (s : state) (m : msg) : Prop :=
  wr s = WExited /\ In m (enq s) /\ ~ In m (delivered s) /\ ~ In m (errored s).

Lemma legacy_refuted_one_drain :
  exists s m, run (legacy 1) init witness_one_drain = Some s /\ lost s m.
Proof.
  eexists; exists (0, 2). split; [vm_compute; reflexivity|].
  unfold lost; vm_compute. repeat split; auto; intros H; repeat (destruct H as [H|H]; [discriminate|]); exact H.
Qed.

Lemma late_submit_refuted :
  exists s m, run (drainall_only 1) init witness_late_submit = Some s /\ lost s m.
Proof.
  eexists; exists (0, 0). split; [vm_compute; reflexivity|].
  unfold lost; vm_compute. repeat split; auto; intros H; repeat (destruct H as [H|H]; [discriminate|]); exact H.
Qed.

(* the same label sequences are NOT executions of the repaired coalescer: the lock stops (b) ... *)
Lemma late_submit_blocked : run (repaired 1) init witness_late_submit = None.
Proof. vm_compute. reflexivity. Qed.

(* ... and after (a)'s prefix the repaired writer keeps draining: the run of the same callers ends with
   everything flushed. *)
Definition witness_one_drain_repaired : list label :=
  witness_one_drain ++ [ LWDrainOne; LWDrainStop; LWFlush true [(0,2)];
                         LWDrainOne; LWDrainStop; LWFlush false [(0,3)];
                         LWDrainStop; LWFlush true [] ].

Example repaired_run_nontrivial :
  exists s, run (repaired 1) init witness_one_drain_repaired = Some s /\ wr s = WExited /\
            delivered s = [(0,0); (0,1); (0,2)] /\ errored s = [(0,3)] /\ chan s = [].
Proof. eexists. split; [vm_compute; reflexivity|]. vm_compute. repeat split. Qed.
