(* C27 — the per-destination send coalescer of internal/remoteclient/coalescer.go as a labelled
   transition system. Executable model only (no proofs here).

   One state of the system =
     the bounded channel [c.in] (FIFO list, capacity [cap] = 4*maxBatch),
     the [done] channel (closed or not),
     the writer goroutine [run] (its control point and its local [batch]),
     any number of caller goroutines, each running [submit] for its next message,
     and ghost history: what was enqueued (= every submit that returned nil, in channel order) and
     what was flushed (every batch handed to the transport, in flush order, with the transport's verdict:
     true = delivered, false = handed to the error handler).

   Every line of submit/run between two channel operations is one step, so an execution is an arbitrary
   interleaving of these steps. A message is (caller, sequence number); a caller's sequence number
   advances when its submit returns, so message identities are unique by construction.

   Two switches describe the shutdown code:
     drain_all = false : on [done] the writer runs ONE drainReady (<= maxBatch), flushes, exits  (code before the repair)
     drain_all = true  : on [done] it drains and flushes until the channel is empty
     barrier   = false : submit holds nothing between its shutdown pre-check and its send
     barrier   = true  : submit holds a read lock over pre-check and send; the writer takes the write lock
                         once before its final drain (so it proceeds only when no submit is in flight). *)
From Coq Require Import List Arith Bool.
Import ListNotations.

Record cfg := mkCfg { maxBatch : nat; capacity : nat; drain_all : bool; barrier : bool }.

Definition msg := (nat * nat)%type.  (* caller id, per-caller sequence number *)

(* control point of a caller inside submit *)
Inductive pc := Idle      (* not inside submit *)
              | Locked    (* entered submit (holds the read lock when cfg.barrier) *)
              | Passed    (* shutdown pre-check saw done open *)
              | Slow.     (* non-blocking send found the channel full: blocked in the 3-way select *)

Record thread := mkThread { next : nat; tpc : pc }.

Inductive wstate := WSelect                 (* at the select { <-done ; m := <-in } *)
                  | WDrain (closing : bool) (* inside drainReady *)
                  | WFlush (closing : bool) (* about to flush [batch] *)
                  | WBarrier                (* chose <-done; about to take the write lock *)
                  | WExited.

Record state := mkState {
  chan    : list msg;
  done    : bool;
  wr      : wstate;
  batch   : list msg;
  threads : list thread;
  enq     : list msg;                  (* ghost: accepted messages in channel order *)
  flushed : list (bool * list msg)     (* ghost: batches given to the transport, oldest first *)
}.

Definition init : state := mkState [] false WSelect [] [] [] [].

Inductive label :=
  | LSpawn                              (* a new caller goroutine appears *)
  | LSubLock (t : nat)                  (* caller t enters submit for message (t, next t) *)
  | LSubCheck (t : nat) (closed : bool) (* pre-check: observed done closed? closed => returns errCoalescerClosed *)
  | LSubFast (t : nat) (ok : bool)      (* non-blocking send: ok => enqueued, returns nil; else goes to the slow path *)
  | LSubSlowSend (t : nat)              (* slow path: space became available, enqueued, returns nil *)
  | LSubSlowCtx (t : nat)               (* slow path: caller's context fired, returns ctx.Err() *)
  | LSubSlowDone (t : nat)              (* slow path: done closed, returns errCoalescerClosed *)
  | LClose                              (* close(): closes done (the wait for the writer is not a step) *)
  | LWRecv                              (* writer select picks m := <-in *)
  | LWDone                              (* writer select picks <-done *)
  | LWBarrier                           (* writer takes (and releases after the first drain) the write lock *)
  | LWDrainOne                          (* drainReady receives one more message *)
  | LWDrainStop                         (* drainReady ends: batch full or channel empty *)
  | LWFlush (ok : bool) (b : list msg). (* flush of batch b; ok = the transport delivered it, else error handler *)

Definition get (ts : list thread) (t : nat) : option thread := nth_error ts t.

Fixpoint set_nth {A} (l : list A) (n : nat) (x : A) : list A :=
  match l, n with
  | [], _ => []
  | _ :: r, O => x :: r
  | a :: r, S k => a :: set_nth r k x
  end.

Definition is_idle (th : thread) : bool := match tpc th with Idle => true | _ => false end.

Definition msg_eqb (a b : msg) : bool := Nat.eqb (fst a) (fst b) && Nat.eqb (snd a) (snd b).
Fixpoint msgs_eqb (a b : list msg) : bool :=
  match a, b with
  | [], [] => true
  | x :: a', y :: b' => msg_eqb x y && msgs_eqb a' b'
  | _, _ => false
  end.

Definition set_thread (s : state) (t : nat) (th : thread) : state :=
  mkState (chan s) (done s) (wr s) (batch s) (set_nth (threads s) t th) (enq s) (flushed s).

(* caller t's submit returns: its sequence number advances *)
Definition ret (s : state) (t : nat) (th : thread) : state := set_thread s t (mkThread (S (next th)) Idle).

Definition enqueue (s : state) (t : nat) (th : thread) : state :=
  let m := (t, next th) in
  mkState (chan s ++ [m]) (done s) (wr s) (batch s) (set_nth (threads s) t (mkThread (S (next th)) Idle))
          (enq s ++ [m]) (flushed s).

Definition with_wr (s : state) (w : wstate) (ch b : list msg) : state :=
  mkState ch (done s) w b (threads s) (enq s) (flushed s).

Definition step (c : cfg) (s : state) (l : label) : option state :=
  match l with
  | LSpawn => Some (mkState (chan s) (done s) (wr s) (batch s) (threads s ++ [mkThread 0 Idle]) (enq s) (flushed s))
  | LSubLock t =>
      match get (threads s) t with
      | Some th => match tpc th with
                   | Idle => (* with the barrier: cannot enter while the writer holds the write lock, which it
                                does only inside the atomic LWBarrier step, so always enabled *)
                             Some (set_thread s t (mkThread (next th) Locked))
                   | _ => None end
      | None => None end
  | LSubCheck t closed =>
      match get (threads s) t with
      | Some th => match tpc th with
                   | Locked => if Bool.eqb closed (done s)
                               then Some (if closed then ret s t th else set_thread s t (mkThread (next th) Passed))
                               else None
                   | _ => None end
      | None => None end
  | LSubFast t ok =>
      match get (threads s) t with
      | Some th => match tpc th with
                   | Passed => let room := Nat.ltb (length (chan s)) (capacity c) in
                               if Bool.eqb ok room
                               then Some (if ok then enqueue s t th else set_thread s t (mkThread (next th) Slow))
                               else None
                   | _ => None end
      | None => None end
  | LSubSlowSend t =>
      match get (threads s) t with
      | Some th => match tpc th with
                   | Slow => if Nat.ltb (length (chan s)) (capacity c) then Some (enqueue s t th) else None
                   | _ => None end
      | None => None end
  | LSubSlowCtx t =>
      match get (threads s) t with
      | Some th => match tpc th with Slow => Some (ret s t th) | _ => None end
      | None => None end
  | LSubSlowDone t =>
      match get (threads s) t with
      | Some th => match tpc th with Slow => if done s then Some (ret s t th) else None | _ => None end
      | None => None end
  | LClose => Some (mkState (chan s) true (wr s) (batch s) (threads s) (enq s) (flushed s))
  | LWRecv =>
      match wr s, chan s with
      | WSelect, m :: rest => Some (with_wr s (WDrain false) rest [m])
      | _, _ => None end
  | LWDone =>
      match wr s with
      | WSelect => if done s then Some (with_wr s WBarrier (chan s) (batch s)) else None
      | _ => None end
  | LWBarrier =>
      match wr s with
      | WBarrier => if negb (barrier c) || forallb is_idle (threads s)
                    then Some (with_wr s (WDrain true) (chan s) (batch s)) else None
      | _ => None end
  | LWDrainOne =>
      match wr s, chan s with
      | WDrain cl, m :: rest => if Nat.ltb (length (batch s)) (maxBatch c)
                                then Some (with_wr s (WDrain cl) rest (batch s ++ [m])) else None
      | _, _ => None end
  | LWDrainStop =>
      match wr s with
      | WDrain cl => if negb (Nat.ltb (length (batch s)) (maxBatch c)) || match chan s with [] => true | _ => false end
                     then Some (with_wr s (WFlush cl) (chan s) (batch s)) else None
      | _ => None end
  | LWFlush ok b =>
      match wr s with
      | WFlush cl =>
          if msgs_eqb b (batch s) then
            match batch s with
            | [] => (* flush() returns at once on an empty batch *)
                    Some (with_wr s (if cl then WExited else WSelect) (chan s) [])
            | _ => let s' := mkState (chan s) (done s)
                                     (if cl then (if drain_all c then WDrain true else WExited) else WSelect)
                                     [] (threads s) (enq s) (flushed s ++ [(ok, batch s)]) in
                   Some s'
            end
          else None
      | _ => None end
  end.

Fixpoint run (c : cfg) (s : state) (ls : list label) : option state :=
  match ls with
  | [] => Some s
  | l :: r => match step c s l with Some s' => run c s' r | None => None end
  end.

(* like [run] but reports the index of the first label that is not enabled (for the trace replay) *)
Fixpoint run_idx (c : cfg) (s : state) (ls : list label) (i : nat) : state * option nat :=
  match ls with
  | [] => (s, None)
  | l :: r => match step c s l with Some s' => run_idx c s' r (S i) | None => (s, Some i) end
  end.

(* observations *)
Definition delivered (s : state) : list msg := concat (map snd (filter fst (flushed s))).
Definition errored (s : state) : list msg := concat (map snd (filter (fun p => negb (fst p)) (flushed s))).
Definition handled (s : state) : list msg := concat (map snd (flushed s)).
Definition of_caller (t : nat) (l : list msg) : list msg := filter (fun m => Nat.eqb (fst m) t) l.

(* the coalescer as configured by newCoalescer: capacity = 4*maxBatch, maxBatch >= 1 *)
Definition legacy (mb : nat) : cfg := mkCfg mb (4 * mb) false false.
Definition drainall_only (mb : nat) : cfg := mkCfg mb (4 * mb) true false.
Definition repaired (mb : nat) : cfg := mkCfg mb (4 * mb) true true.
