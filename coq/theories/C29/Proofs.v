(* C29 — proofs over C29/Model.v: for all header maps, all iteration orders of the receiver's map and all
   batchings. *)
From Coq Require Import List String Ascii Arith Bool Permutation.
From GV Require Import C29.Model.
Import ListNotations.

Lemma lookup_filter_other k k' (m : md) : k' <> k ->
  lookup k' (filter (fun p => negb (String.eqb (fst p) k)) m) = lookup k' m.
Proof.
  intros Hne. induction m as [|[a v] m IH]; simpl; [reflexivity|].
  destruct (String.eqb_spec a k) as [->|Hak]; simpl.
  - destruct (String.eqb_spec k k'); [congruence | exact IH].
  - destruct (String.eqb_spec a k'); [reflexivity | exact IH].
Qed.

Lemma lookup_set_same m k v : lookup k (set m k v) = Some v.
Proof. unfold set. simpl. rewrite String.eqb_refl. reflexivity. Qed.

Lemma lookup_set_other m k v k' : k' <> k -> lookup k' (set m k v) = lookup k' m.
Proof.
  intros Hne. unfold set. simpl. destruct (String.eqb_spec k k'); [congruence|]. apply lookup_filter_other. exact Hne.
Qed.

(* what Header.Set in iteration order leaves under canonical key K: the value of the LAST visited entry
   whose key canonicalises to K *)
Definition pick (K : string) (o : option string) (p : string * string) : option string :=
  if String.eqb (canon (fst p)) K then Some (snd p) else o.

Lemma restore_lookup_gen order acc K :
  lookup K (fold_left (fun acc p => set acc (canon (fst p)) (snd p)) order acc) =
  fold_left (pick K) order (lookup K acc).
Proof.
  revert acc. induction order as [|p order IH]; simpl; intros acc; [reflexivity|].
  rewrite IH. f_equal. unfold pick. destruct (String.eqb_spec (canon (fst p)) K) as [<-|Hne].
  - apply lookup_set_same.
  - apply lookup_set_other. congruence.
Qed.

Lemma restore_lookup order K : lookup K (restore order) = fold_left (pick K) order None.
Proof. unfold restore. rewrite restore_lookup_gen. reflexivity. Qed.

Lemma pick_some_in K order o v : fold_left (pick K) order o = Some v ->
  o = Some v \/ exists k, In (k, v) order /\ canon k = K.
Proof.
  revert o. induction order as [|[k w] order IH]; simpl; intros o H; [left; exact H|].
  destruct (IH _ H) as [Hp | (k' & Hin & Hc)].
  - unfold pick in Hp. simpl in Hp. destruct (String.eqb_spec (canon k) K).
    + inversion Hp; subst. right. exists k. split; [left; reflexivity | reflexivity].
    + left. exact Hp.
  - right. exists k'. split; [right; exact Hin | exact Hc].
Qed.

Lemma pick_no_match K order o :
  (forall p, In p order -> canon (fst p) <> K) -> fold_left (pick K) order o = o.
Proof.
  revert o. induction order as [|p order IH]; simpl; intros o H; [reflexivity|].
  rewrite IH by (intros q Hq; apply H; right; exact Hq).
  unfold pick. destruct (String.eqb_spec (canon (fst p)) K) as [E|]; [|reflexivity].
  exfalso. apply (H p); [left; reflexivity | exact E].
Qed.

Lemma pick_unique K order o k v :
  NoDup (map (fun p => canon (fst p)) order) -> In (k, v) order -> canon k = K ->
  fold_left (pick K) order o = Some v.
Proof.
  revert o. induction order as [|p order IH]; simpl; intros o Hnd Hin Hc; [contradiction|].
  inversion Hnd as [|x l Hnotin Hnd']; subst.
  destruct Hin as [->|Hin].
  - unfold pick at 2. simpl. rewrite String.eqb_refl.
    apply pick_no_match. intros q Hq Hcq. apply Hnotin. simpl. rewrite <- Hcq. apply in_map_iff. exists q. split; auto.
  - apply IH; auto.
Qed.

(* T1: keys whose canonical forms are pairwise distinct: the header set handed to Extract is exactly
   canon(first values), whatever order the receiver's map iteration takes *)
Lemma restore_exact (m order : md) :
  Permutation order m -> NoDup (map (fun p => canon (fst p)) m) ->
  forall K v, lookup K (restore order) = Some v <-> exists k, In (k, v) m /\ canon k = K.
Proof.
  intros Hp Hnd K v. rewrite restore_lookup. split.
  - intros H. destruct (pick_some_in _ _ _ _ H) as [Hx | (k & Hin & Hc)]; [discriminate|].
    exists k. split; [eapply Permutation_in; eauto | exact Hc].
  - intros (k & Hin & Hc). eapply pick_unique; eauto.
    + eapply Permutation_NoDup; [|exact Hnd]. apply Permutation_map. symmetry. exact Hp.
    + eapply Permutation_in; [symmetry; exact Hp | exact Hin].
Qed.

(* without that hypothesis one direction still holds: everything restored was injected *)
Lemma restore_sound (m order : md) : Permutation order m ->
  forall K v, lookup K (restore order) = Some v -> exists k, In (k, v) m /\ canon k = K.
Proof.
  intros Hp K v H. rewrite restore_lookup in H.
  destruct (pick_some_in _ _ _ _ H) as [Hx | (k & Hin & Hc)]; [discriminate|].
  exists k. split; [eapply Permutation_in; eauto | exact Hc].
Qed.

(* and nothing injected disappears: every injected key is present (under its canonical form) with the value
   of SOME injected key of that canonical form *)
Lemma restore_complete (m order : md) k v : Permutation order m -> In (k, v) m ->
  exists v', lookup (canon k) (restore order) = Some v'.
Proof.
  intros Hp Hin. rewrite restore_lookup.
  assert (Hin' : In (k, v) order) by (eapply Permutation_in; [symmetry; exact Hp | exact Hin]).
  clear Hp Hin. generalize (@None string). induction order as [|p order IH]; simpl; intros o; [contradiction|].
  destruct Hin' as [->|Hin'].
  - unfold pick at 2. simpl. rewrite String.eqb_refl.
    destruct (fold_left (pick (canon k)) order (Some v)) eqn:E; [eexists; reflexivity|].
    exfalso. clear IH. revert E. generalize v. induction order as [|q order IH2]; simpl; intros w E; [discriminate|].
    unfold pick at 2 in E. destruct (String.eqb (canon (fst q)) (canon k)); eapply IH2; eauto.
  - apply IH. exact Hin'.
Qed.

Lemma first_values_in (h : hdr) k v : In (k, v) (first_values h) <-> exists rest, In (k, v :: rest) h.
Proof.
  unfold first_values. rewrite in_flat_map. split.
  - intros ([k' vs] & Hin & Hx). simpl in Hx. destruct vs as [|w rest]; [contradiction|].
    destruct Hx as [Hx|[]]. inversion Hx; subst. exists rest. exact Hin.
  - intros (rest & Hin). exists (k, v :: rest). split; [exact Hin | left; reflexivity].
Qed.

Lemma first_values_keys (h : hdr) : (forall p, In p h -> exists v, snd p = [v]) ->
  map fst (first_values h) = map fst h.
Proof.
  induction h as [|[k vs] h IH]; simpl; intros H; [reflexivity|].
  destruct (H (k, vs) (or_introl eq_refl)) as [v Hv]. simpl in Hv. subst vs. simpl. f_equal.
  apply IH. intros p Hp. apply H. right. exact Hp.
Qed.

(* T2: one value per key and canonical keys (what Header.Set / the usual propagators produce): the header
   set handed to Extract IS the injected header set *)
Lemma restore_full (h : hdr) (order : md) :
  NoDup (map fst h) ->
  (forall p, In p h -> (exists v, snd p = [v]) /\ canon (fst p) = fst p) ->
  Permutation order (first_values h) ->
  forall K v, lookup K (restore order) = Some v <-> In (K, [v]) h.
Proof.
  intros Hnd Hok Hp K v.
  assert (Hkeys : map (fun p => canon (fst p)) (first_values h) = map fst h).
  { rewrite <- (first_values_keys h) by (intros p Hp'; apply (Hok p Hp')).
    apply map_ext_in. intros [k w] Hin. simpl. apply first_values_in in Hin. destruct Hin as (rest & Hin).
    apply (Hok _ Hin). }
  rewrite (restore_exact (first_values h) order Hp) by (rewrite Hkeys; exact Hnd).
  split.
  - intros (k & Hin & Hc). apply first_values_in in Hin. destruct Hin as (rest & Hin).
    destruct (Hok _ Hin) as [(w & Hw) Hcan]. simpl in Hw, Hcan. inversion Hw; subst. rewrite Hcan. exact Hin.
  - intros Hin. exists K. split; [apply first_values_in; exists []; exact Hin | apply (Hok _ Hin)].
Qed.

(* T3: batching is invisible: each message's receiver context is a function of that message alone *)
Lemma tell_loop_map ord req batch : tell_loop ord req batch = map (deliver ord req) batch.
Proof. induction batch; simpl; [reflexivity | f_equal; assumption]. Qed.

Lemma handle_all_map ord req batches :
  handle_all ord req batches = map (deliver ord req) (List.concat batches).
Proof.
  unfold handle_all. induction batches as [|b bs IH]; simpl; [reflexivity|].
  rewrite map_app, tell_loop_map, IH. reflexivity.
Qed.

Lemma batching_irrelevant ord req b1 b2 : List.concat b1 = List.concat b2 -> handle_all ord req b1 = handle_all ord req b2.
Proof. intros H. rewrite !handle_all_map, H. reflexivity. Qed.

Lemma message_context ord req batches i c :
  In (i, c) (handle_all ord req batches) ->
  exists m, In m (List.concat batches) /\ mid m = i /\
            c = match mmd m with [] => req | _ => (req ++ [restore (ord m)])%list end.
Proof.
  rewrite handle_all_map. intros H. apply in_map_iff in H. destruct H as (m & He & Hin).
  unfold deliver in He. inversion He; subst. exists m. repeat split; auto.
Qed.

(* T4: what a context already carries is irrelevant; a relayed send restores what was injected at ITS send *)
Lemma enrich_ignores_attached a h : enrich a h = first_values h.
Proof. reflexivity. Qed.

Lemma relay_second_hop ord req inbound id h2 :
  relay_hop ord req inbound id h2 = deliver ord req (send id h2).
Proof. reflexivity. Qed.

Lemma relay_full ord req inbound id (h2 : hdr) :
  NoDup (map fst h2) ->
  (forall p, In p h2 -> (exists v, snd p = [v]) /\ canon (fst p) = fst p) ->
  Permutation (ord (send id h2)) (first_values h2) -> first_values h2 <> [] ->
  exists got, relay_hop ord req inbound id h2 = (id, (req ++ [got])%list) /\
              forall K v, lookup K got = Some v <-> In (K, [v]) h2.
Proof.
  intros Hnd Hok Hp Hne. exists (restore (ord (send id h2))). split.
  - unfold relay_hop, deliver, enrich, send. simpl. destruct (first_values h2) eqn:E; [congruence | reflexivity].
  - apply restore_full; assumption.
Qed.

(* ------------------------------------------------------------------ the limits of the wire format *)
Open Scope string_scope.

(* a key with two values: only the first reaches the receiver *)
Example multivalue_loses_values :
  let h := [("Baggage", ["a=1"; "b=2"])] in
  restore (first_values h) = [("Baggage", "a=1")].
Proof. vm_compute. reflexivity. Qed.

(* a non-canonical key is restored under its canonical spelling *)
Example noncanonical_key_respelt :
  restore (first_values [("x-trace-id", ["7"])]) = [("X-Trace-Id", "7")].
Proof. vm_compute. reflexivity. Qed.

(* two injected keys with the same canonical form: the survivor depends on the map iteration order *)
Example collision_order_dependent :
  let e1 := ("x-a", "1") in let e2 := ("X-A", "2") in
  lookup "X-A" (restore [e1; e2]) = Some "2" /\ lookup "X-A" (restore [e2; e1]) = Some "1".
Proof. vm_compute. split; reflexivity. Qed.

(* a key with an invalid header byte is left as it is *)
Example invalid_key_unchanged : canon "x trace" = "x trace" /\ canon "x-b3-traceid" = "X-B3-Traceid".
Proof. vm_compute. split; reflexivity. Qed.

(* non-vacuity of T2 and T3 together: three callers' messages, one without headers, in two different batchings *)
Example full_example :
  let h1 := [("Traceparent", ["00-aa-01"]); ("X-Tenant", ["t1"])] in
  let h3 := [("Traceparent", ["00-cc-03"])] in
  let ms := [send 1 h1; send 2 []; send 3 h3] in
  handle_all mmd [] [ms] = handle_all mmd [] [[send 1 h1]; [send 2 []; send 3 h3]] /\
  map snd (handle_all mmd [] [ms]) =
    [ [[("X-Tenant", "t1"); ("Traceparent", "00-aa-01")]]; []; [[("Traceparent", "00-cc-03")]] ].
Proof. vm_compute. split; reflexivity. Qed.
