(* C29 — per-message context metadata: what the sender keeps of the headers a ContextPropagator injected,
   and what the receiver hands to Extract. Executable model only.

   Sender (internal/remoteclient/client.go): the propagator writes an http.Header (map key -> list of values);
   injectMessageMetadata (coalesced tell: RemoteMessage.Metadata) and enrichContext (direct tell / ask: frame
   metadata) both keep, for every key with at least one value, the FIRST value, in a map[string]string.
   Receiver (actor/remote_server.go): messageMetadata / extractContextWithPropagator iterate that map (Go map
   order: any permutation — an explicit argument here) and rebuild an http.Header with Header.Set, i.e. every
   key is re-canonicalised (textproto.CanonicalMIMEHeaderKey) and a later Set replaces an earlier one; an
   empty map means Extract is not called at all. remoteTellHandler does that per message of the batch, each
   time starting from the same request-level context. *)
From Coq Require Import List String Ascii Arith Bool.
Import ListNotations.
Open Scope string_scope.

Definition hdr := list (string * list string).   (* an http.Header: distinct keys *)
Definition md := list (string * string).         (* map[string]string: distinct keys *)

(* ---- textproto.CanonicalMIMEHeaderKey *)
Definition is_upper (n : nat) : bool := Nat.leb 65 n && Nat.leb n 90.
Definition is_lower (n : nat) : bool := Nat.leb 97 n && Nat.leb n 122.
Definition is_digit (n : nat) : bool := Nat.leb 48 n && Nat.leb n 57.
(* net/textproto isTokenTable: ! # $ % & ' * + - . 0-9 A-Z ^ _ ` a-z | ~ *)
Definition valid_field_byte (n : nat) : bool :=
  is_upper n || is_lower n || is_digit n ||
  existsb (Nat.eqb n) [33; 35; 36; 37; 38; 39; 42; 43; 45; 46; 94; 95; 96; 124; 126].

Fixpoint bytes (s : string) : list nat :=
  match s with EmptyString => [] | String c r => nat_of_ascii c :: bytes r end.
Fixpoint of_bytes (l : list nat) : string :=
  match l with [] => EmptyString | n :: r => String (ascii_of_nat n) (of_bytes r) end.

Fixpoint canon_bytes (upper : bool) (l : list nat) : list nat :=
  match l with
  | [] => []
  | c :: r =>
      let c' := if upper && is_lower c then c - 32
                else if negb upper && is_upper c then c + 32 else c in
      c' :: canon_bytes (Nat.eqb c' 45) r
  end.

Definition canon (k : string) : string :=
  let b := bytes k in
  if forallb valid_field_byte b then of_bytes (canon_bytes true b) else k.

(* ---- sender: first value of every key that has one *)
Definition first_values (h : hdr) : md :=
  flat_map (fun p => match snd p with v :: _ => [(fst p, v)] | [] => [] end) h.

(* enrichContext / injectMessageMetadata build the outbound metadata from the propagator's header alone:
   wire metadata the caller's context already carries — the inbound frame's, when an actor relays while
   it handles a remote message, or anything pre-attached by the caller — is replaced, never forwarded. *)
Definition enrich (attached : option md) (h : hdr) : md := first_values h.

(* ---- receiver: Header.Set in iteration order *)
Definition set (m : md) (k v : string) : md :=
  (k, v) :: filter (fun p => negb (String.eqb (fst p) k)) m.

Definition restore (order : md) : md :=
  fold_left (fun acc p => set acc (canon (fst p)) (snd p)) order [].

Fixpoint lookup (k : string) (m : md) : option string :=
  match m with
  | [] => None
  | (k', v) :: r => if String.eqb k' k then Some v else lookup k r
  end.

(* ---- a message and its delivery *)
Record msg := mkMsg { mid : nat; mmd : md }.

Definition send (id : nat) (h : hdr) : msg := mkMsg id (first_values h).

(* the context seen by the receiving actor, as the chain of header sets Extract was called with *)
Definition rctx := list md.

(* ord m = the order in which the receiver's map iteration visits m's entries *)
Definition deliver (ord : msg -> md) (req : rctx) (m : msg) : nat * rctx :=
  (mid m, match mmd m with [] => req | _ => (req ++ [restore (ord m)])%list end).

(* second hop of client -> relay actor -> leaf: the relay handles a message that arrived with [inbound]
   metadata, derives its outbound context from it and sends with the propagator injecting h2 *)
Definition relay_hop (ord : msg -> md) (req : rctx) (inbound : md) (id : nat) (h2 : hdr) : nat * rctx :=
  deliver ord req (mkMsg id (enrich (Some inbound) h2)).

Fixpoint tell_loop (ord : msg -> md) (req : rctx) (batch : list msg) : list (nat * rctx) :=
  match batch with
  | [] => []
  | m :: r => deliver ord req m :: tell_loop ord req r
  end.

Definition handle_all (ord : msg -> md) (req : rctx) (batches : list (list msg)) : list (nat * rctx) :=
  flat_map (tell_loop ord req) batches.

(* map equality of two association lists with distinct keys, for the executable comparison *)
Fixpoint md_subset (a b : md) : bool :=
  match a with
  | [] => true
  | (k, v) :: r => match lookup k b with Some v' => String.eqb v v' | None => false end && md_subset r b
  end.
Definition md_eqb (a b : md) : bool := Nat.eqb (List.length a) (List.length b) && md_subset a b && md_subset b a.

Fixpoint insert_all {A} (x : A) (l : list A) : list (list A) :=
  match l with
  | [] => [[x]]
  | y :: r => (x :: l) :: map (cons y) (insert_all x r)
  end.
Fixpoint perms {A} (l : list A) : list (list A) :=
  match l with
  | [] => [[]]
  | x :: r => flat_map (insert_all x) (perms r)
  end.
