(* C32 — reassignByRole / leastLoadedEligibleSurvivor: redistribution after a survivor drops out. *)
From Coq Require Import List ZArith Bool Arith Lia Permutation.
From GV Require Import C32.Model C32.Proofs.
Import ListNotations.
Open Scope Z_scope.

Section Reassign.
  Variables (sroles : list (list nat)) (leaderRoles : list nat).
  Let n := length sroles.

  Definition rcontent (st : rstate) : list wactor :=
    concat (rs_shares st) ++ rs_leader st ++ rs_failed st.

  Definition no_survivor (a : wactor) : Prop :=
    forall i, (i < n)%nat -> elig_at sroles (arole a) i = false.

  Definition share_load (st : rstate) (i : nat) : Z := Z.of_nat (length (nth i (rs_shares st) [])).

  Record RInv (st : rstate) : Prop := {
    rinv_len : length (rs_shares st) = n;
    rinv_shares : forall i a, In a (nth i (rs_shares st) []) -> elig_at sroles (arole a) i = true;
    rinv_leader : Forall (fun a => no_survivor a /\ eligibleForRole leaderRoles (arole a) = true) (rs_leader st);
    rinv_failed : Forall (fun a => no_survivor a /\ eligibleForRole leaderRoles (arole a) = false) (rs_failed st)
  }.

  Definition rinit : rstate := mkRState (repeat [] n) [] [].

  Lemma RInv_init : RInv rinit.
  Proof.
    constructor; simpl.
    - apply repeat_length.
    - intros i a H. rewrite nth_repeat_nil in H. destruct H.
    - constructor.
    - constructor.
  Qed.

  Lemma RInv_step st a : RInv st -> RInv (reassign_step sroles leaderRoles st a).
  Proof.
    intros I. unfold reassign_step, leastLoadedEligibleSurvivor. fold n.
    pose proof (pick_spec (elig_at sroles (arole a)) (fun i => Z.of_nat (length (nth i (rs_shares st) []))) n) as Hs.
    destruct (pick _ _ n) as [b|] eqn:Ep; simpl in Hs.
    - destruct Hs as (Hb & Eb & _). constructor; simpl; try apply I.
      + rewrite upd_length. apply I.
      + intros i x Hx. destruct (Nat.eq_dec b i) as [->|Hne].
        * rewrite upd_nth_same in Hx by (rewrite (rinv_len st I); exact Hb).
          apply in_app_or in Hx. destruct Hx as [Hx|[<-|[]]]; auto. apply (rinv_shares st I i x Hx).
        * rewrite upd_nth_other in Hx by assumption. apply (rinv_shares st I i x Hx).
    - destruct (eligibleForRole leaderRoles (arole a)) eqn:El; constructor; simpl; try apply I.
      + apply Forall_app. split; [apply I|]. constructor; auto.
      + apply Forall_app. split; [apply I|]. constructor; auto.
  Qed.

  Lemma rcontent_step st a : RInv st ->
    Permutation (rcontent (reassign_step sroles leaderRoles st a)) (rcontent st ++ [a]).
  Proof.
    intros I. unfold reassign_step, leastLoadedEligibleSurvivor, rcontent. fold n.
    pose proof (pick_spec (elig_at sroles (arole a)) (fun i => Z.of_nat (length (nth i (rs_shares st) []))) n) as Hs.
    destruct (pick _ _ n) as [b|] eqn:Ep; simpl in *.
    - destruct Hs as (Hb & _).
      rewrite upd_concat_perm by (rewrite (rinv_len st I); exact Hb).
      rewrite <- !app_assoc. apply Permutation_app_head.
      transitivity ((rs_leader st ++ rs_failed st) ++ [a]).
      + apply Permutation_app_comm.
      + rewrite <- app_assoc. reflexivity.
    - destruct (eligibleForRole leaderRoles (arole a)); simpl; rewrite <- !app_assoc.
      + apply Permutation_app_head, Permutation_app_head. apply Permutation_app_comm.
      + reflexivity.
  Qed.

  Lemma rrun_from : forall l st, RInv st ->
    RInv (fold_left (reassign_step sroles leaderRoles) l st) /\
    Permutation (rcontent (fold_left (reassign_step sroles leaderRoles) l st)) (rcontent st ++ l).
  Proof.
    induction l as [|a l IH]; intros st I; simpl.
    - split; auto. now rewrite app_nil_r.
    - destruct (IH _ (RInv_step st a I)) as (I' & P'). split; auto.
      rewrite P', rcontent_step by exact I. rewrite <- app_assoc. reflexivity.
  Qed.

  Lemma rrun_Inv l : RInv (reassign_run sroles leaderRoles l).
  Proof. apply rrun_from, RInv_init. Qed.

  Lemma rrun_content l : Permutation (rcontent (reassign_run sroles leaderRoles l)) l.
  Proof.
    unfold reassign_run. fold n. fold rinit.
    destruct (rrun_from l rinit RInv_init) as (_ & P). rewrite P.
    unfold rcontent, rinit. simpl. rewrite concat_repeat_nil. reflexivity.
  Qed.

  Lemma rstep_mono st a i x : In x (nth i (rs_shares st) []) ->
    In x (nth i (rs_shares (reassign_step sroles leaderRoles st a)) []).
  Proof.
    intros H. unfold reassign_step. destruct (leastLoadedEligibleSurvivor _ _ _); simpl.
    - apply upd_In_mono, H.
    - destruct (eligibleForRole _ _); simpl; auto.
  Qed.

  Lemma rrun_mono : forall l st i x, In x (nth i (rs_shares st) []) ->
    In x (nth i (rs_shares (fold_left (reassign_step sroles leaderRoles) l st)) []).
  Proof. induction l; intros; simpl; auto. apply IHl, rstep_mono. assumption. Qed.

  (* the step that handles `a`: least-loaded eligible survivor w.r.t. the shares built so far *)
  Lemma rrun_least_loaded p a s :
    let st := reassign_run sroles leaderRoles p in
    let fin := reassign_run sroles leaderRoles (p ++ a :: s) in
    forall b, argmin_spec (elig_at sroles (arole a)) (share_load st) n (Some b) ->
              In a (nth b (rs_shares fin) []).
  Proof.
    intros st fin b Hb. subst fin. unfold reassign_run. rewrite fold_left_app. simpl.
    fold (reassign_run sroles leaderRoles p). fold st.
    apply rrun_mono. unfold reassign_step, leastLoadedEligibleSurvivor. fold n.
    pose proof (pick_spec (elig_at sroles (arole a)) (share_load st) n) as Hs.
    unfold share_load in *.
    destruct (pick _ _ n) as [b'|] eqn:Ep.
    - assert (b' = b) by (eapply argmin_unique; eauto). subst b'. simpl.
      destruct Hb as (Hlt & _).
      rewrite upd_nth_same by (rewrite (rinv_len st (rrun_Inv p)); exact Hlt).
      apply in_or_app. right. now left.
    - simpl in Hs. destruct Hb as (Hlt & Eb & _). rewrite Hs in Eb by exact Hlt. discriminate.
  Qed.
End Reassign.

Section ReassignTheorems.
  Variables (requests : list request) (sroles : list (list nat)) (leaderRoles : list nat).
  Let res := reassignByRole requests sroles leaderRoles.
  Let shares := fst (fst (fst res)).
  Let leader := snd (fst (fst res)).
  Let grains := snd (fst res).
  Let failed := snd res.
  Let actors := concat (map rq_actors requests).
  Let st := reassign_run sroles leaderRoles actors.

  Lemma reassign_shares_length : length shares = length sroles.
  Proof. apply (rinv_len _ _ _ (rrun_Inv sroles leaderRoles actors)). Qed.

  Lemma reassign_partition : Permutation (concat shares ++ leader ++ failed) actors.
  Proof. exact (rrun_content sroles leaderRoles actors). Qed.

  Lemma reassign_grains : grains = concat (map rq_grains requests).
  Proof. reflexivity. Qed.

  Lemma reassign_share_roles i a : In a (nth i shares []) ->
    eligibleForRole (nth i sroles []) (arole a) = true.
  Proof. apply (rinv_shares _ _ _ (rrun_Inv sroles leaderRoles actors)). Qed.

  Definition nobody (a : wactor) : Prop :=
    forall i, (i < length sroles)%nat -> eligibleForRole (nth i sroles []) (arole a) = false.

  Lemma reassign_where a : In a actors ->
    (exists i, In a (nth i shares [])) \/ In a leader \/ In a failed.
  Proof.
    intros Hin. apply (Permutation_in _ (Permutation_sym reassign_partition)) in Hin.
    rewrite !in_app_iff in Hin. destruct Hin as [Hin|[Hin|Hin]]; auto.
    left. apply in_concat in Hin. destruct Hin as (sh & Hsh & Ha).
    apply In_nth with (d := []) in Hsh. destruct Hsh as (i & _ & <-). eauto.
  Qed.

  Lemma reassign_leader_iff a : In a leader <->
    In a actors /\ nobody a /\ eligibleForRole leaderRoles (arole a) = true.
  Proof.
    pose proof (rrun_Inv sroles leaderRoles actors) as I. fold st in I.
    split.
    - intros H. pose proof (rinv_leader _ _ _ I) as Hl. rewrite Forall_forall in Hl.
      destruct (Hl a H) as (Hn & He). repeat split; auto.
      apply (Permutation_in _ reassign_partition). rewrite !in_app_iff. auto.
    - intros (Hin & Hn & He). destruct (reassign_where a Hin) as [(i & Hi)|[H|H]]; auto.
      + pose proof Hi as Hi'. apply reassign_share_roles in Hi.
        destruct (Nat.lt_ge_cases i (length sroles)) as [Hlt|Hge].
        * rewrite Hn in Hi by exact Hlt. discriminate.
        * unfold shares in Hi'. rewrite nth_overflow in Hi'; [destruct Hi'|].
          fold shares. rewrite reassign_shares_length. exact Hge.
      + pose proof (rinv_failed _ _ _ I) as Hf. rewrite Forall_forall in Hf.
        destruct (Hf a H) as (_ & Hx). congruence.
  Qed.

  Lemma reassign_failed_iff a : In a failed <->
    In a actors /\ nobody a /\ eligibleForRole leaderRoles (arole a) = false.
  Proof.
    pose proof (rrun_Inv sroles leaderRoles actors) as I. fold st in I.
    split.
    - intros H. pose proof (rinv_failed _ _ _ I) as Hl. rewrite Forall_forall in Hl.
      destruct (Hl a H) as (Hn & He). repeat split; auto.
      apply (Permutation_in _ reassign_partition). rewrite !in_app_iff. auto.
    - intros (Hin & Hn & He). destruct (reassign_where a Hin) as [(i & Hi)|[H|H]]; auto.
      + pose proof Hi as Hi'. apply reassign_share_roles in Hi.
        destruct (Nat.lt_ge_cases i (length sroles)) as [Hlt|Hge].
        * rewrite Hn in Hi by exact Hlt. discriminate.
        * unfold shares in Hi'. rewrite nth_overflow in Hi'; [destruct Hi'|].
          fold shares. rewrite reassign_shares_length. exact Hge.
      + pose proof (rinv_leader _ _ _ I) as Hf. rewrite Forall_forall in Hf.
        destruct (Hf a H) as (_ & Hx). congruence.
  Qed.
End ReassignTheorems.

Lemma reassign_least_loaded requests sroles leaderRoles p a s :
  concat (map rq_actors requests) = p ++ a :: s ->
  let shares := fst (fst (fst (reassignByRole requests sroles leaderRoles))) in
  let before := rs_shares (reassign_run sroles leaderRoles p) in
  forall b, argmin_spec (fun i => eligibleForRole (nth i sroles []) (arole a))
                        (fun i => Z.of_nat (length (nth i before []))) (length sroles) (Some b) ->
            In a (nth b shares []).
Proof.
  intros E shares before b Hb. subst shares. unfold reassignByRole. simpl. rewrite E.
  exact (rrun_least_loaded sroles leaderRoles p a s b Hb).
Qed.

(* ------------------------------------------------------------------ survivingPeersExcept *)
Lemma survivors_spec peers target x :
  In x (survivingPeersExcept peers target) <-> In x peers /\ x <> target.
Proof.
  unfold survivingPeersExcept. rewrite filter_In. rewrite negb_true_iff, N.eqb_neq. tauto.
Qed.

(* removing one failed target and then another does not depend on the order: the second redistribution
   sees exactly the peers other than its own target *)
Lemma survivors_commute peers t1 t2 :
  survivingPeersExcept (survivingPeersExcept peers t1) t2 = survivingPeersExcept (survivingPeersExcept peers t2) t1.
Proof.
  unfold survivingPeersExcept. induction peers as [|p r IH]; simpl; auto.
  destruct (N.eqb p t1) eqn:E1, (N.eqb p t2) eqn:E2; simpl; rewrite ?E1, ?E2; simpl; congruence.
Qed.

Lemma survivors_NoDup_length peers target : NoDup peers -> In target peers ->
  S (length (survivingPeersExcept peers target)) = length peers.
Proof.
  unfold survivingPeersExcept. induction peers as [|p r IH]; simpl; intros Hn Hin; [tauto|].
  inversion Hn; subst. destruct (N.eqb_spec p target) as [->|Hne]; simpl.
  - f_equal. clear IH Hin Hn H2. induction r as [|q r IH]; simpl; auto.
    destruct (N.eqb_spec q target) as [->|]; simpl; [exfalso; apply H1; simpl; auto|].
    f_equal. apply IH. intros H. apply H1. simpl. auto.
  - f_equal. apply IH; auto. destruct Hin; [congruence|assumption].
Qed.
