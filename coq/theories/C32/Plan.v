(* C32 — the whole plan computed by relocationWorker.relocate: leader share, per-peer batched
   requests (share i -> peers[i-1]) and unplaceable actors account for every relocatable item once. *)
From Coq Require Import List ZArith Bool Arith Lia Permutation.
From GV Require Import C32.Model C32.Proofs C32.Grains.
Import ListNotations.
Open Scope Z_scope.

Lemma concat_nth_seq {A} : forall (l : list (list A)) k, (length l <= k)%nat ->
  concat (map (fun i => nth i l []) (seq 0 k)) = concat l.
Proof.
  induction l as [|x r IH]; intros k Hk.
  - clear Hk. generalize (seq 0 k). intros s. induction s as [|i s IHs]; simpl; auto.
    destruct i; simpl; auto.
  - destruct k as [|k]; [simpl in Hk; lia|].
    simpl. f_equal. rewrite <- seq_shift, map_map. simpl. apply IH. simpl in Hk. lia.
Qed.

Lemma concat_nth_seq_tl {A} (l : list (list A)) k : (length l <= S k)%nat ->
  concat (map (fun i => nth i l []) (seq 1 k)) = concat (tl l).
Proof.
  intros Hk. rewrite <- seq_shift, map_map.
  rewrite <- (concat_nth_seq (tl l) k).
  - f_equal. apply map_ext. intros i. destruct l; simpl; auto. destruct i; reflexivity.
  - destruct l; simpl in *; lia.
Qed.

Definition peer_actors (pr : nat * list request) : list wactor := concat (map rq_actors (snd pr)).
Definition peer_grains (pr : nat * list request) : list wgrain := concat (map rq_grains (snd pr)).

Lemma fanout_actors pa pg :
  concat (map peer_actors (fanout pa pg)) = concat (tl pa).
Proof.
  unfold fanout. rewrite map_map. unfold peer_actors. simpl.
  erewrite map_ext by (intros; apply buildRequests_actors).
  apply concat_nth_seq_tl. lia.
Qed.

Lemma fanout_grains pa pg :
  concat (map peer_grains (fanout pa pg)) = concat (tl pg).
Proof.
  unfold fanout. rewrite map_map. unfold peer_grains. simpl.
  erewrite map_ext by (intros; apply buildRequests_grains).
  apply concat_nth_seq_tl. lia.
Qed.

Lemma fanout_indices pa pg :
  map fst (fanout pa pg) = seq 0 (Nat.max (length pa) (length pg) - 1).
Proof.
  unfold fanout. rewrite map_map. simpl. rewrite <- seq_shift, map_map.
  erewrite map_ext; [apply map_id|]. intros. simpl. lia.
Qed.

Lemma fanout_entry pa pg pi reqs : In (pi, reqs) (fanout pa pg) ->
  reqs = buildRequests (nth (S pi) pa []) (nth (S pi) pg []).
Proof.
  unfold fanout. rewrite in_map_iff. intros (i & E & Hi). apply in_seq in Hi.
  inversion E; subst. replace (S (i - 1)) with i by lia. reflexivity.
Qed.

Section PlanTheorems.
  Variables (leaderRoles : list nat) (peersRoles : list (list nat))
            (actors : list wactor) (grainsInOrder : list wgrain) (base : list Z).
  Let pl := relocationPlan leaderRoles peersRoles actors grainsInOrder base.
  Let np := length peersRoles.

  Lemma plan_unfold :
    pl = let '(la, pa, un) := allocateActors leaderRoles peersRoles actors base in
         let '(lg, pg) := allocateGrains (Z.of_nat np + 1) (relocatableGrains grainsInOrder) in
         mkPlan la lg (fanout pa pg) un.
  Proof. reflexivity. Qed.

  (* every actor of the departed node exactly once: leader ⊎ peers ⊎ unplaceable *)
  Lemma plan_actors :
    Permutation (pl_leaderActors pl ++ concat (map peer_actors (pl_peers pl)) ++ pl_unplaceable pl) actors.
  Proof.
    rewrite plan_unfold.
    pose proof (alloc_partition leaderRoles peersRoles actors base) as Hp.
    destruct (allocateActors leaderRoles peersRoles actors base) as [[la pa] un] eqn:Ea.
    destruct (allocateGrains _ _) as [lg pg]. simpl in *.
    rewrite fanout_actors. exact Hp.
  Qed.

  (* every relocatable grain exactly once, none of the disabled ones *)
  Lemma plan_grains :
    pl_leaderGrains pl ++ concat (map peer_grains (pl_peers pl)) = relocatableGrains grainsInOrder.
  Proof.
    rewrite plan_unfold.
    destruct (allocateActors leaderRoles peersRoles actors base) as [[la pa] un].
    pose proof (allocateGrains_exact (Z.of_nat np + 1) (relocatableGrains grainsInOrder) ltac:(lia)) as Hg.
    destruct (allocateGrains _ _) as [lg pg]. simpl in *.
    rewrite fanout_grains. exact Hg.
  Qed.

  (* the fan-out addresses existing peers only, each at most once (peer := peers[i-1] never out of range) *)
  Lemma plan_peer_indices :
    NoDup (map fst (pl_peers pl)) /\ Forall (fun pi => (pi < np)%nat) (map fst (pl_peers pl)).
  Proof.
    rewrite plan_unfold.
    pose proof (alloc_shares_length leaderRoles peersRoles actors base) as Hl.
    destruct (allocateActors leaderRoles peersRoles actors base) as [[la pa] un].
    pose proof (allocateGrains_count (Z.of_nat np + 1) (relocatableGrains grainsInOrder) ltac:(lia)) as Hc.
    destruct (allocateGrains _ _) as [lg pg]. simpl in *.
    rewrite fanout_indices. split; [apply seq_NoDup|].
    apply Forall_forall. intros i Hi. apply in_seq in Hi. fold np in Hl.
    destruct (_ =? 0) in Hc; lia.
  Qed.

  (* an actor handed to peer pi is one that peer's roles allow, and is never a singleton *)
  Lemma plan_peer_roles pi reqs a : In (pi, reqs) (pl_peers pl) -> In a (concat (map rq_actors reqs)) ->
    asingle a = false /\ eligibleForRole (nth pi peersRoles []) (arole a) = true.
  Proof.
    rewrite plan_unfold.
    pose proof (alloc_share_roles leaderRoles peersRoles actors base (S pi) a) as Hr.
    destruct (allocateActors leaderRoles peersRoles actors base) as [[la pa] un].
    destruct (allocateGrains _ _) as [lg pg]. simpl in *.
    intros Hin Ha. apply fanout_entry in Hin. subst reqs.
    rewrite buildRequests_actors in Ha. auto.
  Qed.

  Lemma plan_unplaceable_iff a : In a (pl_unplaceable pl) <->
    In a actors /\ asingle a = false /\
    forall i, (i < S np)%nat -> eligibleForRole (nth i (leaderRoles :: peersRoles) []) (arole a) = false.
  Proof.
    rewrite plan_unfold.
    pose proof (alloc_unplaceable_iff leaderRoles peersRoles actors base a) as Hu.
    destruct (allocateActors leaderRoles peersRoles actors base) as [[la pa] un].
    destruct (allocateGrains _ _) as [lg pg]. simpl in *. exact Hu.
  Qed.

  Lemma plan_singletons a : In a actors -> asingle a = true -> In a (pl_leaderActors pl).
  Proof.
    rewrite plan_unfold. intros Hin Hs.
    pose proof (alloc_singletons_to_leader leaderRoles peersRoles actors base a Hin Hs) as (Hl & _).
    destruct (allocateActors leaderRoles peersRoles actors base) as [[la pa] un].
    destruct (allocateGrains _ _) as [lg pg]. simpl in *. exact Hl.
  Qed.

  Lemma plan_batches_bounded pi reqs : In (pi, reqs) (pl_peers pl) ->
    Forall (fun rq => 1 <= Z.of_nat (length (rq_actors rq) + length (rq_grains rq)) <= batchSize) reqs.
  Proof.
    rewrite plan_unfold.
    destruct (allocateActors leaderRoles peersRoles actors base) as [[la pa] un].
    destruct (allocateGrains _ _) as [lg pg]. simpl.
    intros Hin. apply fanout_entry in Hin. subst reqs. apply buildRequests_bounded.
  Qed.
End PlanTheorems.
