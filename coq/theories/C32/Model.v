(* C32 — executable model of the relocation planning functions.
   Mirrors actor/relocation_worker.go (eligibleForRole, allocateActors, relocatableGrains,
   allocateGrains, leastLoadedEligibleSurvivor, reassignByRole, buildRelocateBatchRequests, the
   round-robin grain spread and the share fan-out of relocate/relocateShare) and
   internal/chunk/chunk.go (Chunkify).

   Conventions: a role is a nat, 0 is the empty role "" (role-less); an actor/grain is identified by
   a nat id.  Go map iteration order (PeerState.Actors / PeerState.Grains are maps) is environment
   nondeterminism: the functions take the iteration ORDER as their list argument and every theorem
   quantifies over all lists, i.e. over every order.  Loads are Go ints modelled as unbounded Z
   (assumption recorded in the check: base occupancies + number of departed actors < 2^63). *)
From Coq Require Import List ZArith Bool Arith.
Import ListNotations.
Open Scope Z_scope.

Record wactor := mkActor { aid : N; arole : nat; asingle : bool }.
Record wgrain := mkGrain { gid : N; gdisabled : bool; geager : bool }.

(* eligibleForRole: role == "" || slices.Contains(targetRoles, role) *)
Definition eligibleForRole (targetRoles : list nat) (role : nat) : bool :=
  (role =? 0)%nat || existsb (Nat.eqb role) targetRoles.

(* The selection loop shared by allocateActors (`for idx := range targetRoles`) and
   leastLoadedEligibleSurvivor (`for i, survivor := range survivors`):
     if !eligible(idx) { continue }; if best == -1 || load(idx) < load(best) { best = idx } *)
Definition pick_step (el : nat -> bool) (ld : nat -> Z) (best : option nat) (idx : nat) : option nat :=
  if el idx then
    match best with
    | None => Some idx
    | Some b => if ld idx <? ld b then Some idx else best
    end
  else best.

Definition pick (el : nat -> bool) (ld : nat -> Z) (n : nat) : option nat :=
  fold_left (pick_step el ld) (seq 0 n) None.

Fixpoint upd {A} (i : nat) (f : A -> A) (l : list A) : list A :=
  match l with
  | [] => []
  | x :: r => match i with O => f x :: r | S j => x :: upd j f r end
  end.

Definition elig_at (troles : list (list nat)) (role : nat) (i : nat) : bool :=
  eligibleForRole (nth i troles []) role.

(* ---------------------------------------------------------------- allocateActors *)
Record astate := mkAState {
  st_single : list wactor;          (* leaderShares before the final append of peersShares[0] *)
  st_shares : list (list wactor);   (* peersShares *)
  st_loads  : list Z;               (* loads *)
  st_unpl   : list wactor           (* unplaceable *)
}.

Definition place (troles : list (list nat)) (st : astate) (a : wactor) : astate :=
  if asingle a then
    mkAState (st_single st ++ [a]) (st_shares st) (st_loads st) (st_unpl st)
  else
    match pick (elig_at troles (arole a)) (fun i => nth i (st_loads st) 0) (length troles) with
    | None => mkAState (st_single st) (st_shares st) (st_loads st) (st_unpl st ++ [a])
    | Some b => mkAState (st_single st)
                         (upd b (fun s => s ++ [a]) (st_shares st))
                         (upd b (fun x => x + 1) (st_loads st))
                         (st_unpl st)
    end.

Definition init_loads (n : nat) (baseLoads : list Z) : list Z :=
  if (length baseLoads =? n)%nat then baseLoads else repeat 0 n.

Definition alloc_init (n : nat) (baseLoads : list Z) : astate :=
  mkAState [] (repeat [] n) (init_loads n baseLoads) [].

Definition alloc_run (troles : list (list nat)) (baseLoads : list Z) (actors : list wactor) : astate :=
  fold_left (place troles) actors (alloc_init (length troles) baseLoads).

(* returns (leaderShares, peersShares, unplaceable) *)
Definition allocateActors (leaderRoles : list nat) (peersRoles : list (list nat))
           (actors : list wactor) (baseLoads : list Z)
  : list wactor * list (list wactor) * list wactor :=
  let troles := leaderRoles :: peersRoles in
  let st := alloc_run troles baseLoads actors in
  (st_single st ++ nth 0 (st_shares st) [], st_shares st, st_unpl st).

(* ---------------------------------------------------------------- grains *)
(* relocatableGrains: the argument is the map in iteration order *)
Definition relocatableGrains (grains : list wgrain) : list wgrain :=
  filter (fun g => negb (gdisabled g)) grains.

(* chunk.Chunkify.  The Go loop does not terminate for chunkSize = 0 on a non-empty slice and
   panics for a negative one; the model is fuel-bounded by the slice length, which the proofs show
   to be enough whenever chunkSize >= 1 (the only way the anchored code calls it with a
   non-empty slice). *)
Fixpoint chunkify_f {A} (fuel : nat) (l : list A) (size : Z) : list (list A) :=
  match fuel with
  | O => []
  | S f =>
    match l with
    | [] => []
    | _ :: _ =>
      let size' := if Z.of_nat (length l) <? size then Z.of_nat (length l) else size in
      firstn (Z.to_nat size') l :: chunkify_f f (skipn (Z.to_nat size') l) size'
    end
  end.

Definition chunkify {A} (l : list A) (size : Z) : list (list A) := chunkify_f (length l) l size.

(* quotient := grainCount / totalPeers ; remainder := grainCount % totalPeers  (Go int division) *)
Definition ag_quotient (grainCount totalPeers : Z) : Z := Z.quot grainCount totalPeers.
Definition ag_remainder (grainCount totalPeers : Z) : Z := Z.rem grainCount totalPeers.

(* returns (leaderShares, peersShares) *)
Definition allocateGrains {A} (totalPeers : Z) (grains : list A) : list A * list (list A) :=
  let n := Z.of_nat (length grains) in
  let q := ag_quotient n totalPeers in
  let r := Z.to_nat (ag_remainder n totalPeers) in
  let shares := chunkify (skipn r grains) q in
  (firstn r grains ++ hd [] shares, shares).

(* ---------------------------------------------------------------- batches *)
Record request := mkReq { rq_actors : list wactor; rq_grains : list wgrain }.

Definition batchSize : Z := 500.

Definition buildRequests (actors : list wactor) (grains : list wgrain) : list request :=
  map (fun b => mkReq b []) (chunkify actors batchSize) ++
  map (fun b => mkReq [] b) (chunkify grains batchSize).

(* ---------------------------------------------------------------- reassignByRole *)
Record rstate := mkRState {
  rs_shares : list (list wactor);   (* actorShares, aligned to survivors *)
  rs_leader : list wactor;          (* leaderActors *)
  rs_failed : list wactor           (* failures.record calls, in order *)
}.

Definition leastLoadedEligibleSurvivor (sroles : list (list nat)) (shares : list (list wactor)) (role : nat) : option nat :=
  pick (elig_at sroles role) (fun i => Z.of_nat (length (nth i shares []))) (length sroles).

Definition reassign_step (sroles : list (list nat)) (leaderRoles : list nat) (st : rstate) (a : wactor) : rstate :=
  match leastLoadedEligibleSurvivor sroles (rs_shares st) (arole a) with
  | Some idx => mkRState (upd idx (fun s => s ++ [a]) (rs_shares st)) (rs_leader st) (rs_failed st)
  | None =>
    if eligibleForRole leaderRoles (arole a)
    then mkRState (rs_shares st) (rs_leader st ++ [a]) (rs_failed st)
    else mkRState (rs_shares st) (rs_leader st) (rs_failed st ++ [a])
  end.

Definition reassign_run (sroles : list (list nat)) (leaderRoles : list nat) (actors : list wactor) : rstate :=
  fold_left (reassign_step sroles leaderRoles) actors (mkRState (repeat [] (length sroles)) [] []).

(* returns (actorShares, leaderActors, grains, newly recorded failures) *)
Definition reassignByRole (requests : list request) (sroles : list (list nat)) (leaderRoles : list nat)
  : list (list wactor) * list wactor * list wgrain * list wactor :=
  let st := reassign_run sroles leaderRoles (concat (map rq_actors requests)) in
  (rs_shares st, rs_leader st, concat (map rq_grains requests), rs_failed st).

(* relocateShare: grainShares[i%len(survivors)] = append(grainShares[i%len(survivors)], grain) *)
Definition spread {A} (k : nat) (grains : list A) : list (list A) :=
  snd (fold_left (fun (st : nat * list (list A)) g =>
                    (S (fst st), upd (fst st mod k)%nat (fun s => s ++ [g]) (snd st)))
                 grains (O, repeat [] k)).

(* survivingPeersExcept: every peer other than the target (matched on its endpoint), order kept,
   in a FRESH slice: the caller's list is the value it was (relocate shares it between goroutines) *)
Definition survivingPeersExcept (peers : list N) (target : N) : list N :=
  filter (fun p => negb (N.eqb p target)) peers.

(* ---------------------------------------------------------------- the fan-out of relocate *)
(* shares := max(len(peerActors), len(peerGrains)); for i := 1; i < shares; i++ {
     peer := peers[i-1]; requests := buildRelocateBatchRequests(peerActors[i], peerGrains[i]) }
   returns the (peer index i-1, requests) pairs in loop order. *)
Definition fanout (peerActors : list (list wactor)) (peerGrains : list (list wgrain)) : list (nat * list request) :=
  map (fun i => ((i - 1)%nat, buildRequests (nth i peerActors []) (nth i peerGrains [])))
      (seq 1 (Nat.max (length peerActors) (length peerGrains) - 1)).

Record plan := mkPlan {
  pl_leaderActors : list wactor;
  pl_leaderGrains : list wgrain;
  pl_peers        : list (nat * list request);
  pl_unplaceable  : list wactor
}.

(* the planning part of relocationWorker.relocate; `grainsInOrder` is PeerState.Grains in
   iteration order, `actors` PeerState.Actors in iteration order *)
Definition relocationPlan (leaderRoles : list nat) (peersRoles : list (list nat))
           (actors : list wactor) (grainsInOrder : list wgrain) (baseLoads : list Z) : plan :=
  let grains := relocatableGrains grainsInOrder in
  let '(la, pa, un) := allocateActors leaderRoles peersRoles actors baseLoads in
  let '(lg, pg) := allocateGrains (Z.of_nat (length peersRoles) + 1) grains in
  mkPlan la lg (fanout pa pg) un.
