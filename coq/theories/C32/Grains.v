(* C32 — grains: relocatableGrains, Chunkify, allocateGrains, buildRelocateBatchRequests, spread. *)
From Coq Require Import List ZArith Bool Arith Lia Permutation.
From GV Require Import C32.Model C32.Proofs.
Import ListNotations.
Open Scope Z_scope.

(* ------------------------------------------------------------------ relocatableGrains *)
Lemma relocatable_iff l g : In g (relocatableGrains l) <-> In g l /\ gdisabled g = false.
Proof.
  unfold relocatableGrains. rewrite filter_In. split; intros (H1 & H2); split; auto.
  - now apply negb_true_iff in H2.
  - now apply negb_true_iff.
Qed.

Lemma relocatable_NoDup l : NoDup l -> NoDup (relocatableGrains l).
Proof. apply NoDup_filter. Qed.

(* two iteration orders of the same map give permutations of each other *)
Lemma relocatable_perm l1 l2 : Permutation l1 l2 -> Permutation (relocatableGrains l1) (relocatableGrains l2).
Proof.
  unfold relocatableGrains. induction 1; simpl.
  - constructor.
  - destruct (negb (gdisabled x)); auto.
  - destruct (negb (gdisabled x)), (negb (gdisabled y)); auto. constructor.
  - etransitivity; eauto.
Qed.

(* ------------------------------------------------------------------ Chunkify *)
Section Chunk.
  Context {A : Type}.

  Lemma chunkify_f_nil fuel size : chunkify_f fuel (@nil A) size = [].
  Proof. destruct fuel; reflexivity. Qed.

  Lemma chunkify_f_concat : forall fuel (l : list A) size,
    1 <= size -> (length l <= fuel)%nat -> concat (chunkify_f fuel l size) = l.
  Proof.
    induction fuel as [|f IH]; intros l size Hs Hf.
    - destruct l; simpl in *; [reflexivity|lia].
    - destruct l as [|x r]; [reflexivity|].
      cbn [chunkify_f]. set (l := x :: r) in *.
      set (size' := if Z.of_nat (length l) <? size then Z.of_nat (length l) else size).
      assert (H1 : 1 <= size').
      { subst size'. destruct (Z.ltb_spec (Z.of_nat (length l)) size); [subst l; simpl length; lia|lia]. }
      cbn [concat]. rewrite IH.
      + apply firstn_skipn.
      + exact H1.
      + rewrite skipn_length. subst l. simpl length in *. lia.
  Qed.

  Lemma chunkify_concat (l : list A) size : 1 <= size -> concat (chunkify l size) = l.
  Proof. intros. apply chunkify_f_concat; auto. Qed.

  Lemma chunkify_f_sizes : forall fuel (l : list A) size,
    1 <= size -> Forall (fun c => 1 <= Z.of_nat (length c) <= size) (chunkify_f fuel l size).
  Proof.
    induction fuel as [|f IH]; intros l size Hs; [constructor|].
    destruct l as [|x r]; [constructor|].
    cbn [chunkify_f]. set (l := x :: r) in *.
    set (size' := if Z.of_nat (length l) <? size then Z.of_nat (length l) else size).
    assert (H1 : 1 <= size' /\ size' <= size /\ size' <= Z.of_nat (length l)).
    { subst size'. destruct (Z.ltb_spec (Z.of_nat (length l)) size); subst l; simpl length in *; lia. }
    constructor.
    - rewrite firstn_length. lia.
    - eapply Forall_impl; [|apply IH; lia]. simpl. intros c Hc. lia.
  Qed.

  Lemma chunkify_sizes (l : list A) size : 1 <= size ->
    Forall (fun c => 1 <= Z.of_nat (length c) <= size) (chunkify l size).
  Proof. apply chunkify_f_sizes. Qed.

  (* a slice of exactly k*s elements is cut into exactly k chunks *)
  Lemma chunkify_f_count : forall k fuel (l : list A) s,
    (1 <= s)%nat -> length l = (k * s)%nat -> (length l <= fuel)%nat ->
    length (chunkify_f fuel l (Z.of_nat s)) = k.
  Proof.
    induction k as [|k IH]; intros fuel l s Hs Hl Hf.
    - simpl in Hl. destruct l; [|discriminate]. now rewrite chunkify_f_nil.
    - assert (Hge : (s <= length l)%nat) by (rewrite Hl; simpl; lia).
      assert (Hrest : (length l - s = k * s)%nat) by (rewrite Hl; simpl; lia).
      destruct fuel as [|f]; [lia|].
      destruct l as [|x r]; [simpl in Hge; lia|].
      cbn [chunkify_f].
      destruct (Z.ltb_spec (Z.of_nat (length (x :: r))) (Z.of_nat s)) as [Hlt|_]; [lia|].
      cbn [length]. f_equal. rewrite Nat2Z.id. apply IH; auto.
      + rewrite skipn_length. exact Hrest.
      + rewrite skipn_length. simpl length in *. lia.
  Qed.
End Chunk.

(* ------------------------------------------------------------------ allocateGrains *)
Section AllocGrains.
  Context {A : Type}.
  Variables (totalPeers : Z) (grains : list A).
  Hypothesis Ht : 1 <= totalPeers.
  Let n := Z.of_nat (length grains).
  Let q := ag_quotient n totalPeers.
  Let r := ag_remainder n totalPeers.

  Lemma ag_qr : 0 <= q /\ 0 <= r < totalPeers /\ n = totalPeers * q + r.
  Proof.
    unfold q, r, ag_quotient, ag_remainder.
    assert (Hn : 0 <= n) by (unfold n; lia).
    rewrite Z.quot_div_nonneg, Z.rem_mod_nonneg by lia.
    pose proof (Z.div_mod n totalPeers ltac:(lia)).
    pose proof (Z.mod_pos_bound n totalPeers ltac:(lia)).
    pose proof (Z.div_pos n totalPeers Hn ltac:(lia)). lia.
  Qed.

  Lemma skip_len : length (skipn (Z.to_nat r) grains) = (Z.to_nat totalPeers * Z.to_nat q)%nat.
  Proof.
    destruct ag_qr as (Hq & Hr & Hn). rewrite skipn_length. unfold n in Hn.
    apply Nat2Z.inj. rewrite Nat2Z.inj_sub by lia. rewrite Nat2Z.inj_mul, !Z2Nat.id by lia. lia.
  Qed.

  (* every grain exactly once, in order: leader share followed by the peer shares 1.. *)
  Lemma allocateGrains_exact :
    let '(leader, shares) := allocateGrains totalPeers grains in
    leader ++ concat (tl shares) = grains.
  Proof.
    unfold allocateGrains. fold n. fold q. fold r.
    destruct ag_qr as (Hq & Hr & Hn).
    destruct (Z.eq_dec q 0) as [E0|Hq1].
    - (* fewer grains than targets: everything stays with the leader *)
      assert (Hs : skipn (Z.to_nat r) grains = []).
      { apply length_zero_iff_nil. rewrite skip_len, E0. simpl. lia. }
      rewrite Hs. unfold chunkify. simpl. rewrite !app_nil_r.
      rewrite firstn_all2; auto. unfold n in Hn. lia.
    - pose proof (chunkify_concat (skipn (Z.to_nat r) grains) q ltac:(lia)) as Hc.
      destruct (chunkify (skipn (Z.to_nat r) grains) q) as [|c cs]; simpl in *.
      + rewrite app_nil_r. rewrite <- (firstn_skipn (Z.to_nat r) grains) at 2.
        rewrite <- Hc. now rewrite app_nil_r.
      + rewrite <- app_assoc, Hc. apply firstn_skipn.
  Qed.

  (* never more shares than targets (share i goes to peers[i-1]) *)
  Lemma allocateGrains_count :
    length (snd (allocateGrains totalPeers grains)) = if q =? 0 then O else Z.to_nat totalPeers.
  Proof.
    unfold allocateGrains. fold n. fold q. fold r. cbn [snd].
    destruct ag_qr as (Hq & Hr & Hn).
    destruct (Z.eqb_spec q 0) as [E0|Hq1].
    - assert (Hs : skipn (Z.to_nat r) grains = []).
      { apply length_zero_iff_nil. rewrite skip_len, E0. simpl. lia. }
      rewrite Hs. reflexivity.
    - unfold chunkify. rewrite <- (Z2Nat.id q) at 1 by lia.
      apply chunkify_f_count; try lia. apply skip_len.
  Qed.
End AllocGrains.

(* ------------------------------------------------------------------ buildRelocateBatchRequests *)
Lemma concat_map_nil {A B} (l : list A) : concat (map (fun _ => @nil B) l) = [].
Proof. induction l; simpl; auto. Qed.

Lemma buildRequests_actors actors grains :
  concat (map rq_actors (buildRequests actors grains)) = actors.
Proof.
  unfold buildRequests. rewrite map_app, !map_map, concat_app. simpl.
  rewrite concat_map_nil, app_nil_r, map_id. apply chunkify_concat. unfold batchSize. lia.
Qed.

Lemma buildRequests_grains actors grains :
  concat (map rq_grains (buildRequests actors grains)) = grains.
Proof.
  unfold buildRequests. rewrite map_app, !map_map, concat_app. simpl.
  rewrite concat_map_nil, map_id. apply chunkify_concat. unfold batchSize. lia.
Qed.

Lemma buildRequests_bounded actors grains :
  Forall (fun rq => 1 <= Z.of_nat (length (rq_actors rq) + length (rq_grains rq)) <= batchSize)
         (buildRequests actors grains).
Proof.
  unfold buildRequests. apply Forall_app. split; apply Forall_map.
  - eapply Forall_impl; [|apply (chunkify_sizes actors batchSize); unfold batchSize; lia].
    simpl. intros c Hc. lia.
  - eapply Forall_impl; [|apply (chunkify_sizes grains batchSize); unfold batchSize; lia].
    simpl. intros c Hc. lia.
Qed.

(* ------------------------------------------------------------------ round-robin spread *)
Section Spread.
  Context {A : Type}.

  Lemma spread_from : forall (grains : list A) k i (acc : list (list A)),
    (0 < k)%nat -> length acc = k ->
    let res := snd (fold_left (fun (st : nat * list (list A)) g =>
                      (S (fst st), upd (fst st mod k)%nat (fun s => s ++ [g]) (snd st))) grains (i, acc)) in
    length res = k /\ Permutation (concat res) (concat acc ++ grains).
  Proof.
    induction grains as [|g gs IH]; intros k i acc Hk Hl; simpl.
    - split; auto. now rewrite app_nil_r.
    - destruct (IH k (S i) (upd (i mod k)%nat (fun s => s ++ [g]) acc) Hk) as (H1 & H2).
      + now rewrite upd_length.
      + split; auto. etransitivity; [exact H2|].
        rewrite upd_concat_perm by (rewrite Hl; apply Nat.mod_upper_bound; lia).
        rewrite <- app_assoc. reflexivity.
  Qed.

  Lemma spread_perm k (grains : list A) : (0 < k)%nat ->
    length (spread k grains) = k /\ Permutation (concat (spread k grains)) grains.
  Proof.
    intros Hk. unfold spread.
    destruct (spread_from grains k O (repeat [] k) Hk (repeat_length _ _)) as (H1 & H2).
    split; auto. rewrite concat_repeat_nil in H2. exact H2.
  Qed.
End Spread.
