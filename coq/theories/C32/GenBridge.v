(* C32 — the quotient/remainder arithmetic of allocateGrains as goq translates it from the current
   actor/relocation_worker.go (Gen/C32.v, regenerated on every run) is the arithmetic of the model. *)
From Coq Require Import ZArith Lia.
From GV Require Import Lib.GoInt Gen.C32 C32.Model.
Open Scope Z_scope.

Lemma quot_in_range n t : 0 <= n <= max_i64 -> 1 <= t -> in_i64 (Z.quot n t).
Proof.
  intros Hn Ht. unfold in_i64, min_i64, max_i64 in *.
  rewrite Z.quot_div_nonneg by lia.
  pose proof (Z.div_pos n t ltac:(lia) ltac:(lia)).
  assert (n / t <= n) by (apply Z.div_le_upper_bound; nia).
  lia.
Qed.

Lemma rem_in_range n t : 0 <= n <= max_i64 -> 1 <= t -> in_i64 (Z.rem n t).
Proof.
  intros Hn Ht. unfold in_i64, min_i64, max_i64 in *.
  rewrite Z.rem_mod_nonneg by lia.
  pose proof (Z.mod_pos_bound n t ltac:(lia)).
  assert (n mod t <= n) by (apply Z.mod_le; lia).
  lia.
Qed.

Theorem generated_quotient_is_model n t : 0 <= n <= max_i64 -> 1 <= t ->
  allocateGrains_quotient n t = ag_quotient n t.
Proof.
  intros Hn Ht. unfold allocateGrains_quotient, ag_quotient, go_quot.
  apply i64_id. apply quot_in_range; assumption.
Qed.

Theorem generated_remainder_is_model n t : 0 <= n <= max_i64 -> 1 <= t ->
  allocateGrains_remainder n t = ag_remainder n t.
Proof.
  intros Hn Ht. unfold allocateGrains_remainder, ag_remainder, go_rem.
  apply i64_id. apply rem_in_range; assumption.
Qed.
