(* C32 — proofs about the relocation planning model (C32/Model.v). *)
From Coq Require Import List ZArith Bool Arith Lia Permutation.
From GV Require Import C32.Model.
Import ListNotations.
Open Scope Z_scope.

(* ------------------------------------------------------------------ upd *)
Lemma upd_length {A} (f : A -> A) : forall l i, length (upd i f l) = length l.
Proof. induction l as [|x r IH]; intros [|i]; simpl; auto. Qed.

Lemma upd_nth_same {A} (f : A -> A) d : forall l i, (i < length l)%nat -> nth i (upd i f l) d = f (nth i l d).
Proof. induction l as [|x r IH]; intros [|i] H; simpl in *; try lia; auto. apply IH. lia. Qed.

Lemma upd_nth_other {A} (f : A -> A) d : forall l i j, i <> j -> nth j (upd i f l) d = nth j l d.
Proof.
  induction l as [|x r IH]; intros [|i] [|j] H; simpl; auto; try congruence.
Qed.

Lemma upd_concat_perm {A} (a : A) : forall l i, (i < length l)%nat ->
  Permutation (concat (upd i (fun s => s ++ [a]) l)) (concat l ++ [a]).
Proof.
  induction l as [|x r IH]; intros [|i] H; simpl in *; try lia.
  - rewrite <- !app_assoc. apply Permutation_app_head.
    apply Permutation_app_comm.
  - rewrite <- !app_assoc. apply Permutation_app_head. apply IH. lia.
Qed.

Lemma upd_In_mono {A} (a b : A) : forall l i j, In b (nth j l []) -> In b (nth j (upd i (fun s => s ++ [a]) l) []).
Proof.
  intros l i j H. destruct (Nat.eq_dec i j) as [->|Hne].
  - destruct (Nat.lt_ge_cases j (length l)) as [Hlt|Hge].
    + rewrite upd_nth_same by assumption. apply in_or_app. now left.
    + rewrite nth_overflow in H by assumption. destruct H.
  - rewrite upd_nth_other by assumption. exact H.
Qed.

(* ------------------------------------------------------------------ pick *)
Definition argmin_spec (el : nat -> bool) (ld : nat -> Z) (n : nat) (r : option nat) : Prop :=
  match r with
  | None => forall j, (j < n)%nat -> el j = false
  | Some b => (b < n)%nat /\ el b = true /\
              (forall j, (j < n)%nat -> el j = true -> ld b <= ld j) /\
              (forall j, (j < b)%nat -> el j = true -> ld b < ld j)
  end.

Lemma pick_S el ld n : pick el ld (S n) = pick_step el ld (pick el ld n) n.
Proof. unfold pick. rewrite seq_S, fold_left_app. reflexivity. Qed.

Lemma pick_spec el ld : forall n, argmin_spec el ld n (pick el ld n).
Proof.
  induction n as [|n IH].
  - simpl. intros j H. lia.
  - rewrite pick_S. unfold pick_step. destruct (el n) eqn:En.
    + destruct (pick el ld n) as [b|] eqn:Ep; simpl in IH.
      * destruct IH as (Hb & Eb & Hmin & Hlow).
        destruct (Z.ltb_spec (ld n) (ld b)) as [Hlt|Hge]; simpl.
        -- repeat split; auto.
           ++ intros j Hj Ej. destruct (Nat.eq_dec j n) as [->|Hne]; [lia|].
              specialize (Hmin j ltac:(lia) Ej). lia.
           ++ intros j Hj Ej. specialize (Hmin j Hj Ej). lia.
        -- repeat split; auto; try lia.
           intros j Hj Ej. destruct (Nat.eq_dec j n) as [->|Hne]; [lia|].
           apply Hmin; auto. lia.
      * simpl. repeat split; auto; try lia.
        -- intros j Hj Ej. destruct (Nat.eq_dec j n) as [->|Hne]; [lia|].
           rewrite IH in Ej by lia. discriminate.
        -- intros j Hj Ej. rewrite IH in Ej by lia. discriminate.
    + destruct (pick el ld n) as [b|] eqn:Ep; simpl in *.
      * destruct IH as (Hb & Eb & Hmin & Hlow). repeat split; auto.
        intros j Hj Ej. destruct (Nat.eq_dec j n) as [->|Hne]; [congruence|].
        apply Hmin; auto. lia.
      * intros j Hj. destruct (Nat.eq_dec j n) as [->|Hne]; auto. apply IH. lia.
Qed.

Lemma pick_ext el1 el2 ld1 ld2 : forall n,
  (forall i, (i < n)%nat -> el1 i = el2 i) -> (forall i, (i < n)%nat -> ld1 i = ld2 i) ->
  pick el1 ld1 n = pick el2 ld2 n.
Proof.
  induction n as [|n IH]; intros He Hl; [reflexivity|].
  rewrite !pick_S, IH by (intros; (apply He || apply Hl); lia).
  unfold pick_step. rewrite He by lia.
  destruct (el2 n); auto. destruct (pick el2 ld2 n) as [b|] eqn:Ep; auto.
  pose proof (pick_spec el2 ld2 n) as Hs. rewrite Ep in Hs. destruct Hs as (Hb & _).
  rewrite (Hl n), (Hl b) by lia. reflexivity.
Qed.

(* an argmin (ties to the lowest index) is unique *)
Lemma argmin_unique el ld n b1 b2 :
  argmin_spec el ld n (Some b1) -> argmin_spec el ld n (Some b2) -> b1 = b2.
Proof.
  intros (H1 & E1 & M1 & L1) (H2 & E2 & M2 & L2).
  destruct (Nat.lt_trichotomy b1 b2) as [H|[H|H]]; auto.
  - specialize (L2 b1 H E1). specialize (M1 b2 H2 E2). lia.
  - specialize (L1 b2 H E2). specialize (M2 b1 H1 E1). lia.
Qed.

(* ------------------------------------------------------------------ allocateActors *)
Section Alloc.
  Variable troles : list (list nat).
  Variable base : list Z.
  Let n := length troles.

  Definition content (st : astate) : list wactor :=
    st_single st ++ concat (st_shares st) ++ st_unpl st.

  Definition running (st : astate) (i : nat) : Z :=
    nth i (init_loads n base) 0 + Z.of_nat (length (nth i (st_shares st) [])).

  Record Inv (st : astate) : Prop := {
    inv_len_shares : length (st_shares st) = n;
    inv_len_loads : length (st_loads st) = n;
    inv_single : Forall (fun a => asingle a = true) (st_single st);
    inv_shares : forall i a, In a (nth i (st_shares st) []) ->
                             asingle a = false /\ elig_at troles (arole a) i = true;
    inv_unpl : Forall (fun a => asingle a = false /\
                                forall i, (i < n)%nat -> elig_at troles (arole a) i = false) (st_unpl st);
    inv_loads : forall i, (i < n)%nat -> nth i (st_loads st) 0 = running st i
  }.

  Lemma init_loads_length : length (init_loads n base) = n.
  Proof.
    unfold init_loads. destruct (Nat.eqb_spec (length base) n); auto. apply repeat_length.
  Qed.

  Lemma nth_repeat_nil {A} k i : nth i (repeat (@nil A) k) [] = [].
  Proof. revert i. induction k; intros [|i]; simpl; auto. Qed.

  Lemma concat_repeat_nil {A} k : concat (repeat (@nil A) k) = [].
  Proof. induction k; simpl; auto. Qed.

  Lemma Inv_init : Inv (alloc_init n base).
  Proof.
    constructor; simpl.
    - apply repeat_length.
    - apply init_loads_length.
    - constructor.
    - intros i a H. rewrite nth_repeat_nil in H. destruct H.
    - constructor.
    - intros i Hi. unfold running. simpl. rewrite nth_repeat_nil. simpl. lia.
  Qed.

  Lemma place_pick_eq st a : Inv st ->
    pick (elig_at troles (arole a)) (fun i => nth i (st_loads st) 0) n =
    pick (elig_at troles (arole a)) (running st) n.
  Proof. intros I. apply pick_ext; auto. intros i Hi. apply (inv_loads st I i Hi). Qed.

  Lemma Inv_place st a : Inv st -> Inv (place troles st a).
  Proof.
    intros I. unfold place. destruct (asingle a) eqn:Es.
    - constructor; simpl; try apply I.
      apply Forall_app. split; [apply I|]. constructor; auto.
    - fold n.
      pose proof (pick_spec (elig_at troles (arole a)) (fun i => nth i (st_loads st) 0) n) as Hs.
      destruct (pick _ _ n) as [b|] eqn:Ep; simpl in Hs.
      + destruct Hs as (Hb & Eb & _).
        constructor; simpl.
        * rewrite upd_length. apply I.
        * rewrite upd_length. apply I.
        * apply I.
        * intros i x Hx. destruct (Nat.eq_dec b i) as [->|Hne].
          -- rewrite upd_nth_same in Hx by (rewrite (inv_len_shares st I); exact Hb).
             apply in_app_or in Hx. destruct Hx as [Hx|[<-|[]]].
             ++ apply (inv_shares st I i x Hx).
             ++ split; auto.
          -- rewrite upd_nth_other in Hx by assumption. apply (inv_shares st I i x Hx).
        * apply I.
        * intros i Hi. unfold running. simpl. destruct (Nat.eq_dec b i) as [->|Hne].
          -- rewrite !upd_nth_same by (rewrite ?(inv_len_shares st I), ?(inv_len_loads st I); exact Hb).
             rewrite (inv_loads st I i Hi). unfold running. rewrite app_length. simpl. lia.
          -- rewrite !upd_nth_other by assumption. apply (inv_loads st I i Hi).
      + constructor; simpl; try apply I.
        apply Forall_app. split; [apply I|]. constructor; auto.
  Qed.

  Lemma content_place st a : Inv st -> Permutation (content (place troles st a)) (content st ++ [a]).
  Proof.
    intros I. unfold place, content. destruct (asingle a) eqn:Es; simpl.
    - rewrite <- !app_assoc. apply Permutation_app_head.
      transitivity ((concat (st_shares st) ++ st_unpl st) ++ [a]).
      + apply Permutation_app_comm.
      + rewrite <- app_assoc. reflexivity.
    - fold n.
      pose proof (pick_spec (elig_at troles (arole a)) (fun i => nth i (st_loads st) 0) n) as Hs.
      destruct (pick _ _ n) as [b|] eqn:Ep; simpl in *.
      + destruct Hs as (Hb & _). rewrite <- !app_assoc. apply Permutation_app_head.
        transitivity ((concat (st_shares st) ++ [a]) ++ st_unpl st).
        * apply Permutation_app_tail. apply upd_concat_perm. rewrite (inv_len_shares st I). exact Hb.
        * rewrite <- app_assoc. apply Permutation_app_head. apply Permutation_app_comm.
      + rewrite <- !app_assoc. reflexivity.
  Qed.

  Lemma run_from_Inv : forall l st, Inv st -> Inv (fold_left (place troles) l st).
  Proof. induction l as [|a l IH]; intros st I; simpl; auto. apply IH, Inv_place, I. Qed.

  Lemma run_from_content : forall l st, Inv st ->
    Permutation (content (fold_left (place troles) l st)) (content st ++ l).
  Proof.
    induction l as [|a l IH]; intros st I; simpl.
    - rewrite app_nil_r. reflexivity.
    - rewrite IH by (apply Inv_place, I). rewrite content_place by exact I.
      rewrite <- app_assoc. reflexivity.
  Qed.

  Lemma run_Inv l : Inv (alloc_run troles base l).
  Proof. apply run_from_Inv, Inv_init. Qed.

  Lemma run_content l : Permutation (content (alloc_run troles base l)) l.
  Proof.
    unfold alloc_run. fold n. rewrite run_from_content by apply Inv_init.
    unfold content, alloc_init. simpl. rewrite concat_repeat_nil. reflexivity.
  Qed.

  (* growth: what has been placed stays placed *)
  Lemma place_mono_share st a i x : In x (nth i (st_shares st) []) -> In x (nth i (st_shares (place troles st a)) []).
  Proof.
    intros H. unfold place. destruct (asingle a); simpl; auto.
    destruct (pick _ _ _); simpl; auto. apply upd_In_mono, H.
  Qed.

  Lemma place_mono_unpl st a x : In x (st_unpl st) -> In x (st_unpl (place troles st a)).
  Proof.
    intros H. unfold place. destruct (asingle a); simpl; auto.
    destruct (pick _ _ _); simpl; auto. apply in_or_app. now left.
  Qed.

  Lemma run_mono_share : forall l st i x, In x (nth i (st_shares st) []) ->
    In x (nth i (st_shares (fold_left (place troles) l st)) []).
  Proof. induction l as [|a l IH]; intros; simpl; auto. apply IH, place_mono_share. assumption. Qed.

  Lemma run_mono_unpl : forall l st x, In x (st_unpl st) -> In x (st_unpl (fold_left (place troles) l st)).
  Proof. induction l as [|a l IH]; intros; simpl; auto. apply IH, place_mono_unpl. assumption. Qed.

  (* the step at which `a` is handled: least-loaded eligible target w.r.t. the running loads *)
  Lemma run_least_loaded p a s : asingle a = false ->
    let st := alloc_run troles base p in
    let fin := alloc_run troles base (p ++ a :: s) in
    (exists b, In a (nth b (st_shares fin) []) /\
               argmin_spec (elig_at troles (arole a)) (running st) n (Some b)) \/
    (In a (st_unpl fin) /\ forall j, (j < n)%nat -> elig_at troles (arole a) j = false).
  Proof.
    intros Es st fin. subst fin. unfold alloc_run. rewrite fold_left_app. simpl.
    fold (alloc_run troles base p). fold st.
    pose proof (run_Inv p) as I. fold st in I.
    pose proof (pick_spec (elig_at troles (arole a)) (running st) n) as Hs.
    assert (Hp : place troles st a =
                 match pick (elig_at troles (arole a)) (running st) n with
                 | None => mkAState (st_single st) (st_shares st) (st_loads st) (st_unpl st ++ [a])
                 | Some b => mkAState (st_single st) (upd b (fun s => s ++ [a]) (st_shares st))
                                      (upd b (fun x => x + 1) (st_loads st)) (st_unpl st)
                 end).
    { unfold place. rewrite Es. fold n. rewrite place_pick_eq by exact I. reflexivity. }
    destruct (pick (elig_at troles (arole a)) (running st) n) as [b|] eqn:Ep.
    - left. exists b. split; [|exact Hs].
      apply run_mono_share. rewrite Hp. simpl.
      destruct Hs as (Hb & _). rewrite upd_nth_same by (rewrite (inv_len_shares st I); exact Hb).
      apply in_or_app. right. now left.
    - right. split; [|exact Hs]. apply run_mono_unpl. rewrite Hp. simpl.
      apply in_or_app. right. now left.
  Qed.
End Alloc.

(* nth 0 / tl decomposition of a non-empty share table *)
Lemma concat_hd_tl {A} (l : list (list A)) : (0 < length l)%nat -> concat l = nth 0 l [] ++ concat (tl l).
Proof. destruct l; simpl; intros; [lia|reflexivity]. Qed.

Section AllocTheorems.
  Variables (leaderRoles : list nat) (peersRoles : list (list nat)) (actors : list wactor) (base : list Z).
  Let troles := leaderRoles :: peersRoles.
  Let res := allocateActors leaderRoles peersRoles actors base.
  Let leader := fst (fst res).
  Let shares := snd (fst res).
  Let unpl := snd res.
  Let st := alloc_run troles base actors.

  Lemma alloc_shares_length : length shares = S (length peersRoles).
  Proof. unfold shares, res, allocateActors. simpl. apply (inv_len_shares _ _ _ (run_Inv troles base actors)). Qed.

  (* leader share ⊎ peer shares (1..n) ⊎ unplaceable is a permutation of the input *)
  Lemma alloc_partition : Permutation (leader ++ concat (tl shares) ++ unpl) actors.
  Proof.
    pose proof (run_content troles base actors) as Hc. fold st in Hc.
    pose proof (run_Inv troles base actors) as I. fold st in I.
    unfold leader, shares, unpl, res, allocateActors. simpl. fold troles. fold st.
    unfold content in Hc. rewrite (concat_hd_tl (st_shares st)) in Hc.
    - rewrite <- !app_assoc in *. exact Hc.
    - rewrite (inv_len_shares _ _ _ I). simpl. lia.
  Qed.

  Lemma alloc_share_roles i a : In a (nth i shares []) ->
    asingle a = false /\ eligibleForRole (nth i troles []) (arole a) = true.
  Proof. intros H. apply (inv_shares _ _ _ (run_Inv troles base actors) i a H). Qed.

  Lemma alloc_leader_split a : In a leader <->
    (In a actors /\ asingle a = true) \/ In a (nth 0 shares []).
  Proof.
    pose proof (run_content troles base actors) as Hc. fold st in Hc.
    pose proof (run_Inv troles base actors) as I. fold st in I.
    unfold leader, shares, res, allocateActors. simpl. fold troles. fold st.
    rewrite in_app_iff. split; intros [H|H]; auto.
    - left. split.
      + apply (Permutation_in _ Hc). unfold content. apply in_or_app. now left.
      + pose proof (inv_single _ _ _ I) as Hs. rewrite Forall_forall in Hs. auto.
    - destruct H as (Hin & Hs). apply (Permutation_in _ (Permutation_sym Hc)) in Hin.
      unfold content in Hin. rewrite !in_app_iff in Hin. destruct Hin as [Hin|[Hin|Hin]]; auto.
      + apply in_concat in Hin. destruct Hin as (sh & Hsh & Ha).
        apply In_nth with (d := []) in Hsh. destruct Hsh as (i & _ & <-).
        apply (inv_shares _ _ _ I) in Ha. destruct Ha. congruence.
      + pose proof (inv_unpl _ _ _ I) as Hu. rewrite Forall_forall in Hu. apply Hu in Hin.
        destruct Hin. congruence.
  Qed.

  Lemma alloc_unplaceable_iff a : In a unpl <->
    In a actors /\ asingle a = false /\
    forall i, (i < length troles)%nat -> eligibleForRole (nth i troles []) (arole a) = false.
  Proof.
    pose proof (run_content troles base actors) as Hc. fold st in Hc.
    pose proof (run_Inv troles base actors) as I. fold st in I.
    unfold unpl, res, allocateActors. simpl snd. fold troles. fold st.
    split.
    - intros H. pose proof (inv_unpl _ _ _ I) as Hu. rewrite Forall_forall in Hu.
      destruct (Hu a H) as (Hs & He). repeat split; auto.
      apply (Permutation_in _ Hc). unfold content. rewrite !in_app_iff. auto.
    - intros (Hin & Hs & He). apply (Permutation_in _ (Permutation_sym Hc)) in Hin.
      unfold content in Hin. rewrite !in_app_iff in Hin. destruct Hin as [Hin|[Hin|Hin]]; auto.
      + pose proof (inv_single _ _ _ I) as Hsg. rewrite Forall_forall in Hsg. apply Hsg in Hin. congruence.
      + apply in_concat in Hin. destruct Hin as (sh & Hsh & Ha).
        apply In_nth with (d := []) in Hsh. destruct Hsh as (i & Hi & <-).
        rewrite (inv_len_shares _ _ _ I) in Hi.
        apply (inv_shares _ _ _ I) in Ha. destruct Ha as (_ & Ha).
        unfold elig_at in Ha. rewrite He in Ha by exact Hi. discriminate.
  Qed.

  Lemma alloc_singletons_to_leader a : In a actors -> asingle a = true ->
    In a leader /\ ~ In a (concat shares) /\ ~ In a unpl.
  Proof.
    intros Hin Hs. repeat split.
    - apply alloc_leader_split. left. auto.
    - intros H. apply in_concat in H. destruct H as (sh & Hsh & Ha).
      apply In_nth with (d := []) in Hsh. destruct Hsh as (i & _ & <-).
      apply alloc_share_roles in Ha. destruct Ha. congruence.
    - intros H. apply alloc_unplaceable_iff in H. destruct H as (_ & H & _). congruence.
  Qed.
End AllocTheorems.

Lemma alloc_least_loaded leaderRoles peersRoles base p a s : asingle a = false ->
  let troles := leaderRoles :: peersRoles in
  let '(_, shares, unpl) := allocateActors leaderRoles peersRoles (p ++ a :: s) base in
  let before := snd (fst (allocateActors leaderRoles peersRoles p base)) in
  let load i := nth i (init_loads (length troles) base) 0 + Z.of_nat (length (nth i before [])) in
  (exists b, In a (nth b shares []) /\
             argmin_spec (fun i => eligibleForRole (nth i troles []) (arole a)) load (length troles) (Some b)) \/
  (In a unpl /\ forall j, (j < length troles)%nat -> eligibleForRole (nth j troles []) (arole a) = false).
Proof.
  intros Es troles. unfold allocateActors. simpl. fold troles.
  exact (run_least_loaded troles base p a s Es).
Qed.
