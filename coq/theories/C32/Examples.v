(* C32 — concrete non-trivial instances showing the hypotheses of the theorems are satisfiable,
   and regression witnesses evaluated on the model. *)
From Coq Require Import List ZArith Bool Arith Lia Permutation.
From GV Require Import C32.Model C32.Proofs C32.Grains C32.Reassign C32.Plan.
Import ListNotations.
Open Scope Z_scope.

Definition ex_actors : list wactor :=
  [mkActor 1 0 false; mkActor 2 1 false; mkActor 3 2 false; mkActor 4 0 true;
   mkActor 5 9 false; mkActor 6 0 false; mkActor 7 1 true; mkActor 8 0 false].
Definition ex_grains : list wgrain :=
  [mkGrain 1 false false; mkGrain 2 true false; mkGrain 3 false true; mkGrain 4 false false;
   mkGrain 5 false false; mkGrain 6 false true; mkGrain 7 true true].

(* leader advertises role 1, peer 0 role 2, peer 1 nothing; leader already hosts 2 actors *)
Example ex_alloc :
  allocateActors [1%nat] [[2%nat]; []] ex_actors [2; 0; 0] =
  ([mkActor 4 0 true; mkActor 7 1 true; mkActor 2 1 false],
   [[mkActor 2 1 false]; [mkActor 1 0 false; mkActor 3 2 false]; [mkActor 6 0 false; mkActor 8 0 false]],
   [mkActor 5 9 false]).
Proof. vm_compute. reflexivity. Qed.

(* the hypothesis of the least-loaded theorem is met: actor 6 is non-singleton and role-less *)
Example ex_least_loaded_hyp : exists p s, ex_actors = p ++ mkActor 6 0 false :: s /\ asingle (mkActor 6 0 false) = false.
Proof. exists (firstn 5 ex_actors), (skipn 6 ex_actors). split; reflexivity. Qed.

(* fewer grains than targets: all stay with the leader, no peer share *)
Example ex_grains_few : allocateGrains 5 [1%nat; 2%nat; 3%nat] = ([1%nat; 2%nat; 3%nat], []).
Proof. vm_compute. reflexivity. Qed.

Example ex_grains_split : allocateGrains 3 [1;2;3;4;5;6;7;8]%nat = ([1;2;3;4]%nat, [[3;4];[5;6];[7;8]]%nat).
Proof. vm_compute. reflexivity. Qed.

Example ex_chunkify : chunkify [1;2;3;4;5;6;7]%nat 3 = [[1;2;3];[4;5;6];[7]]%nat.
Proof. vm_compute. reflexivity. Qed.

Example ex_plan :
  let pl := relocationPlan [1%nat] [[2%nat]; []] ex_actors ex_grains [2; 0; 0] in
  map fst (pl_peers pl) = [0%nat; 1%nat] /\
  map gid (pl_leaderGrains pl) = [1; 3; 4]%N /\
  map (fun pr => map gid (peer_grains pr)) (pl_peers pl) = [[5]; [6]]%N /\
  map (fun pr => map aid (peer_actors pr)) (pl_peers pl) = [[1; 3]; [6; 8]]%N /\
  map aid (pl_leaderActors pl) = [4; 7; 2]%N /\ map aid (pl_unplaceable pl) = [5]%N.
Proof. vm_compute. repeat split; reflexivity. Qed.

Example ex_reassign :
  reassignByRole [mkReq [mkActor 1 0 false; mkActor 2 1 false; mkActor 3 7 false] [mkGrain 1 false false];
                  mkReq [mkActor 4 0 false; mkActor 5 3 false] [mkGrain 2 false true]]
                 [[1%nat]; []] [3%nat] =
  ([[mkActor 1 0 false; mkActor 2 1 false]; [mkActor 4 0 false]], [mkActor 5 3 false],
   [mkGrain 1 false false; mkGrain 2 false true], [mkActor 3 7 false]).
Proof. vm_compute. reflexivity. Qed.

Example ex_spread : spread 3 [1;2;3;4;5;6;7]%nat = [[1;4;7];[2;5];[3;6]]%nat.
Proof. vm_compute. reflexivity. Qed.
