(* C20 — executable model of internal/queue/queue.go at atomic-step granularity.

   One model, two shapes selected by [rc]:
     rc = true   the code as it exists: Michael–Scott queue whose nodes come from / go back to a
                 sync.Pool (getItem / releaseItem; releaseItem resets v and next before Put);
     rc = false  the repaired code (fixes/C20-queue-no-node-recycling.diff): nodes are never recycled
                 and never reset; the dequeuer that won the head CAS clears the value it took.

   Every statement of Enqueue / Dequeue / Length that performs an atomic operation, a pool operation
   or a plain access to an item field is ONE step of the executing thread; [step] returns the kind of
   the statement executed — the same kinds tools/vinstr derives from the Go source, so a run of the
   real code under the controlled scheduler can be replayed step by step (checks/C20.py).

   Environment nondeterminism: the schedule (which thread moves) and sync.Pool.Get's answer
   ([None] = a fresh node, [Some k] = the k-th pooled node) are arguments of [step].
   Ghost components ([chain], [enq_log], [deq_log], the [k] carried by dequeue phases) never
   influence the computation; the proofs use them to state linearizability. *)
From Coq Require Import List Arith Bool ZArith.
Import ListNotations.

Definition V := nat.

Record node := mkNode { nnext : option nat; nval : option V }.

Inductive qop := OEnq (v : V) | ODeq | OLen.

Inductive res := RNone | RVal (k : nat) (v : V) | RNil (k : nat) | RLen (z : Z).

Inductive label := LCall | LGet | LField | LLoad | LCas | LAdd | LPut | LStuck.

Inductive pc :=
| PIdle
| PEnqGet (v : V)
| PEnqSetV (n : nat) (v : V)
| PEnqLoadTail (n : nat)
| PEnqLoadNext (n t : nat)
| PEnqHelp (n t nx : nat)
| PEnqLink (n t : nat)
| PEnqSwing (n t : nat)
| PEnqAdd
| PDeqLoadHead
| PDeqLoadNext (h : nat)
| PDeqCas (h nx : nat)
| PDeqReadV (h nx k : nat)
| PDeqClrV (x k : nat) (r : option V)
| PDeqClrN (x k : nat) (r : option V)
| PDeqPut (x k : nat) (r : option V)
| PDeqAdd (k : nat) (r : option V)
| PLen.

Record thread := mkThread { prog : list qop; tpc : pc; results : list res }.

(* ghost state: nodes in the order they were linked (starting with the initial sentinel), the values
   and the linking threads in link order, the values taken by successful head CASes in CAS order *)
Record ghost := mkGhost {
  g_chain : list nat;
  g_enq : list V;
  g_tids : list nat;
  g_deq : list (option V)
}.

Record state := mkState {
  nodes : nat -> node;
  nalloc : nat;
  qhead : nat;
  qtail : nat;
  qlen : Z;
  pool : list nat;
  released : list nat;
  hazard : bool;
  threads : nat -> thread;
  gh : ghost
}.

Notation chain s := (g_chain (gh s)).
Notation enq_log s := (g_enq (gh s)).
Notation enq_tids s := (g_tids (gh s)).
Notation deq_log s := (g_deq (gh s)).

Definition upd {A} (f : nat -> A) (k : nat) (a : A) : nat -> A :=
  fun x => if Nat.eqb x k then a else f x.

Definition dnode := mkNode None None.

Definition init (progs : list (list qop)) : state :=
  mkState (fun _ => dnode) 1 0 0 0%Z [] [] false
          (fun i => mkThread (nth i progs []) PIdle []) (mkGhost [0] [] [] []).

Definition set_thread (s : state) (tid : nat) (th : thread) : state :=
  mkState (nodes s) (nalloc s) (qhead s) (qtail s) (qlen s) (pool s) (released s) (hazard s)
          (upd (threads s) tid th) (gh s).

Definition set_pc (s : state) (tid : nat) (p : pc) : state :=
  let th := threads s tid in set_thread s tid (mkThread (prog th) p (results th)).

Definition finish (s : state) (tid : nat) (r : res) : state :=
  let th := threads s tid in set_thread s tid (mkThread (prog th) PIdle (r :: results th)).

Definition set_nodes (s : state) (f : nat -> node) : state :=
  mkState f (nalloc s) (qhead s) (qtail s) (qlen s) (pool s) (released s) (hazard s)
          (threads s) (gh s).

Definition set_next (s : state) (x : nat) (nx : option nat) : state :=
  set_nodes s (upd (nodes s) x (mkNode nx (nval (nodes s x)))).

Definition set_val (s : state) (x : nat) (v : option V) : state :=
  set_nodes s (upd (nodes s) x (mkNode (nnext (nodes s x)) v)).

Definition alloc (s : state) (nd : node) : state :=
  mkState (upd (nodes s) (nalloc s) nd) (S (nalloc s)) (qhead s) (qtail s) (qlen s) (pool s)
          (released s) (hazard s) (threads s) (gh s).

Definition set_head (s : state) (h : nat) : state :=
  mkState (nodes s) (nalloc s) h (qtail s) (qlen s) (pool s) (released s) (hazard s)
          (threads s) (gh s).

Definition set_tail (s : state) (t : nat) : state :=
  mkState (nodes s) (nalloc s) (qhead s) t (qlen s) (pool s) (released s) (hazard s)
          (threads s) (gh s).

Definition add_len (s : state) (d : Z) : state :=
  mkState (nodes s) (nalloc s) (qhead s) (qtail s) (qlen s + d)%Z (pool s) (released s) (hazard s)
          (threads s) (gh s).

Definition set_pool (s : state) (p rel : list nat) : state :=
  mkState (nodes s) (nalloc s) (qhead s) (qtail s) (qlen s) p rel (hazard s)
          (threads s) (gh s).

Definition set_gh (s : state) (g : ghost) : state :=
  mkState (nodes s) (nalloc s) (qhead s) (qtail s) (qlen s) (pool s) (released s) (hazard s)
          (threads s) g.

(* ghost: thread tid's link CAS succeeded *)
Definition log_enq (s : state) (tid n : nat) : state :=
  set_gh s (mkGhost (chain s ++ [n])
                    (enq_log s ++ [match nval (nodes s n) with Some v => v | None => 0 end])
                    (enq_tids s ++ [tid]) (deq_log s)).

(* ghost: the head CAS succeeded *)
Definition log_deq (s : state) (nx : nat) : state :=
  set_gh s (mkGhost (chain s) (enq_log s) (enq_tids s) (deq_log s ++ [nval (nodes s nx)])).

Definition memb (x : nat) (l : list nat) : bool := existsb (Nat.eqb x) l.

(* a thread uses a node pointer it holds: if the release of that node has begun (releaseItem has
   started to reset its fields; [released] is extended at its first write), what the real code
   sees from then on depends on whether and to whom the pool re-issues the node *)
Definition touch (s : state) (x : nat) : state :=
  mkState (nodes s) (nalloc s) (qhead s) (qtail s) (qlen s) (pool s) (released s)
          (hazard s || memb x (released s)) (threads s) (gh s).

Fixpoint remove_nth {A} (k : nat) (l : list A) : list A :=
  match l, k with
  | [], _ => []
  | _ :: t, O => t
  | x :: t, S k' => x :: remove_nth k' t
  end.

Definition res_of (k : nat) (r : option V) : res :=
  match r with Some v => RVal k v | None => RNil k end.

Definition step (rc : bool) (s : state) (tid : nat) (o : option nat) : state * label :=
  let th := threads s tid in
  match tpc th with
  | PIdle =>
      match prog th with
      | [] => (s, LStuck)
      | OEnq v :: p =>
          if rc then (set_thread s tid (mkThread p (PEnqGet v) (results th)), LCall)
          else (set_thread (alloc s (mkNode None (Some v))) tid
                           (mkThread p (PEnqLoadTail (nalloc s)) (results th)), LCall)
      | ODeq :: p => (set_thread s tid (mkThread p PDeqLoadHead (results th)), LCall)
      | OLen :: p => (set_thread s tid (mkThread p PLen (results th)), LCall)
      end
  | PEnqGet v =>
      match o with
      | Some k =>
          match nth_error (pool s) k with
          | Some n => (set_pc (set_pool s (remove_nth k (pool s)) (released s)) tid (PEnqSetV n v), LGet)
          | None => (set_pc (alloc s dnode) tid (PEnqSetV (nalloc s) v), LGet)
          end
      | None => (set_pc (alloc s dnode) tid (PEnqSetV (nalloc s) v), LGet)
      end
  | PEnqSetV n v => (set_pc (set_val s n (Some v)) tid (PEnqLoadTail n), LField)
  | PEnqLoadTail n => (set_pc s tid (PEnqLoadNext n (qtail s)), LLoad)
  | PEnqLoadNext n t =>
      let s := touch s t in
      match nnext (nodes s t) with
      | Some nx => (set_pc s tid (PEnqHelp n t nx), LLoad)
      | None => (set_pc s tid (PEnqLink n t), LLoad)
      end
  | PEnqHelp n t nx =>
      let s := touch s t in
      (set_pc (if Nat.eqb (qtail s) t then set_tail s nx else s) tid (PEnqLoadTail n), LCas)
  | PEnqLink n t =>
      let s := touch s t in
      match nnext (nodes s t) with
      | None => (set_pc (log_enq (set_next s t (Some n)) tid n) tid (PEnqSwing n t), LCas)
      | Some _ => (set_pc s tid (PEnqLoadTail n), LCas)
      end
  | PEnqSwing n t =>
      let s := touch s t in
      (set_pc (if Nat.eqb (qtail s) t then set_tail s n else s) tid PEnqAdd, LCas)
  | PEnqAdd => (set_pc (add_len s 1) tid PIdle, LAdd)
  | PDeqLoadHead => (set_pc s tid (PDeqLoadNext (qhead s)), LLoad)
  | PDeqLoadNext h =>
      let s := touch s h in
      match nnext (nodes s h) with
      | None => (finish s tid RNone, LLoad)
      | Some nx => (set_pc s tid (PDeqCas h nx), LLoad)
      end
  | PDeqCas h nx =>
      let s := touch s h in
      if Nat.eqb (qhead s) h
      then (set_pc (log_deq (set_head s nx) nx) tid (PDeqReadV h nx (S (length (deq_log s)))), LCas)
      else (set_pc s tid PDeqLoadHead, LCas)
  | PDeqReadV h nx k =>
      let s := touch s nx in
      (set_pc s tid (PDeqClrV (if rc then h else nx) k (nval (nodes s nx))), LField)
  | PDeqClrV x k r =>
      if rc then (set_pc (set_pool (set_val s x None) (pool s) (x :: released s)) tid (PDeqClrN x k r), LField)
      else (set_pc (set_val s x None) tid (PDeqAdd k r), LField)
  | PDeqClrN x k r => (set_pc (set_next s x None) tid (PDeqPut x k r), LField)
  | PDeqPut x k r => (set_pc (set_pool s (x :: pool s) (released s)) tid (PDeqAdd k r), LPut)
  | PDeqAdd k r => (finish (add_len s (-1)) tid (res_of k r), LAdd)
  | PLen => (finish s tid (RLen (if rc then qlen s else Z.max 0 (qlen s))), LLoad)
  end.

(* a schedule entry: the thread that moves and the pool's answer should it be asked *)
Definition sched := list (nat * option nat).

Definition run (rc : bool) (s : state) (sc : sched) : state :=
  fold_left (fun s e => fst (step rc s (fst e) (snd e))) sc s.

(* ---------------------------------------------------------------- observations (for the tie) *)

(* values reachable from the head sentinel, following next pointers (bounded by fuel) *)
Fixpoint walk (fuel : nat) (f : nat -> node) (x : nat) : list (option V) :=
  match fuel with
  | O => []
  | S fu => match nnext (f x) with
            | None => []
            | Some y => nval (f y) :: walk fu f y
            end
  end.

Definition contents (s : state) : list (option V) := walk (S (nalloc s)) (nodes s) (qhead s).

Record obs := mkObs { o_label : label; o_contents : list (option V); o_len : Z; o_hazard : bool }.

Fixpoint run_obs (rc : bool) (s : state) (sc : sched) : list obs * state :=
  match sc with
  | [] => ([], s)
  | (tid, o) :: rest =>
      let '(s', l) := step rc s tid o in
      let '(os, sf) := run_obs rc s' rest in
      (mkObs l (contents s') (qlen s') (hazard s') :: os, sf)
  end.

Definition thread_results (s : state) (n : nat) : list (list res) :=
  map (fun i => rev (results (threads s i))) (seq 0 n).

(* ------------------------------------------------------------ sequential specification *)

Fixpoint spec (q : list V) (ops : list qop) : list res :=
  match ops with
  | [] => []
  | OEnq v :: r => spec (q ++ [v]) r
  | ODeq :: r => match q with
                 | [] => RNone :: spec [] r
                 | v :: q' => RVal 0 v :: spec q' r
                 end
  | OLen :: r => RLen (Z.of_nat (length q)) :: spec q r
  end.

(* run one thread alone until its program is finished (fuel = steps) *)
Fixpoint run_solo (rc : bool) (fuel : nat) (s : state) (tid : nat) (os : list (option nat)) : state :=
  match fuel with
  | O => s
  | S fu =>
      match tpc (threads s tid), prog (threads s tid) with
      | PIdle, [] => s
      | _, _ => run_solo rc fu (fst (step rc s tid (hd None os))) tid (tl os)
      end
  end.

Definition erase_k (r : res) : res :=
  match r with RVal _ v => RVal 0 v | RNil _ => RNil 0 | x => x end.
