(* C20 — comparison functions used by the generated cases file of checks/C20.py: the real code's
   recorded run (kinds, contents, length counter after every scheduler step; per-thread results;
   per-operation observations of the event stream) against the model's run on the same schedule. *)
From Coq Require Import List Arith Bool ZArith.
Import ListNotations.
From GV Require Import C20.Model C20.Stream.

Definition label_eqb (a b : label) : bool :=
  match a, b with
  | LCall, LCall | LGet, LGet | LField, LField | LLoad, LLoad | LCas, LCas | LAdd, LAdd
  | LPut, LPut | LStuck, LStuck => true
  | _, _ => false
  end.

Definition optnat_eqb (a b : option nat) : bool :=
  match a, b with
  | None, None => true
  | Some x, Some y => Nat.eqb x y
  | _, _ => false
  end.

Fixpoint list_eqb {A} (eqb : A -> A -> bool) (a b : list A) : bool :=
  match a, b with
  | [], [] => true
  | x :: a', y :: b' => eqb x y && list_eqb eqb a' b'
  | _, _ => false
  end.

(* one observation packed into a number (the generated cases file is then quick to typecheck):
   kind + 8 * ((length counter + 8) + 64 * c) where c lists the contents in base 64 after a leading 1 *)
Definition label_idx (l : label) : Z :=
  match l with LCall => 0 | LGet => 1 | LField => 2 | LLoad => 3 | LCas => 4 | LAdd => 5 | LPut => 6 | LStuck => 7 end%Z.

Definition enc_contents (c : list (option V)) : Z :=
  fold_left (fun a v => a * 64 + match v with None => 0 | Some x => Z.of_nat x + 1 end)%Z c 1%Z.

Definition enc_obs (o : obs) : Z :=
  (label_idx (o_label o) + 8 * ((o_len o + 8) + 64 * enc_contents (o_contents o)))%Z.

Definition eobs := Z.

(* index of the first step at which model and implementation differ; comparison stops (agreeing)
   at the first step where a thread has used a node that was handed to the pool: from there on the
   real run depends on sync.Pool's answers *)
Fixpoint cmp (i : nat) (ms : list obs) (es : list eobs) : option nat :=
  match ms, es with
  | [], [] => None
  | m :: ms', e :: es' =>
      if o_hazard m then None
      else if Z.eqb (enc_obs m) e then cmp (S i) ms' es' else Some i
  | _, _ => Some i
  end.

Definition norm_res (r : res) : res :=
  match r with RNone => RNil 0 | RVal _ v => RVal 0 v | RNil _ => RNil 0 | RLen z => RLen z end.

Definition res_eqb (a b : res) : bool :=
  match a, b with
  | RNone, RNone => true
  | RVal k v, RVal k' v' => Nat.eqb k k' && Nat.eqb v v'
  | RNil k, RNil k' => Nat.eqb k k'
  | RLen z, RLen z' => Z.eqb z z'
  | _, _ => false
  end.

(* (first differing step, did a hazard occur, do the per-thread results agree or is that moot) *)
Definition check_case (rc : bool) (progs : list (list qop)) (sc : list nat) (es : list eobs)
           (eres : list (list res)) : option nat * bool * bool :=
  let '(ms, sf) := run_obs rc (init progs) (map (fun t => (t, None)) sc) in
  (cmp 0 ms es, hazard sf,
   hazard sf || list_eqb (list_eqb res_eqb) (map (map norm_res) (thread_results sf (length progs))) eres).

Definition qcase := (nat * list (list qop) * list nat * list eobs * list (list res))%type.

Definition check_cases (rc : bool) (cs : list qcase)
  : nat * list (nat * nat) * list nat * list nat :=
  fold_left (fun acc c =>
    let '(n, bad, haz, rbad) := acc in
    let '(id, progs, sc, es, eres) := c in
    let '(m, h, rok) := check_case rc progs sc es eres in
    (S n, match m with Some i => bad ++ [(id, i)] | None => bad end,
     if h then haz ++ [id] else haz, if rok then rbad else rbad ++ [id])) cs (0, [], [], []).

(* ---------------------------------------------------------------- event stream, sequential *)

Definition msg_eqb (a b : nat * nat) : bool := Nat.eqb (fst a) (fst b) && Nat.eqb (snd a) (snd b).

Definition sobs_eqb (a b : sobs) : bool :=
  list_eqb msg_eqb (so_result a) (so_result b) && list_eqb Bool.eqb (so_active a) (so_active b)
  && list_eqb (list_eqb Nat.eqb) (so_topics a) (so_topics b) && list_eqb Nat.eqb (so_counts a) (so_counts b).

Fixpoint scmp (i : nat) (ms es : list sobs) : option nat :=
  match ms, es with
  | [], [] => None
  | m :: ms', e :: es' => if sobs_eqb m e then scmp (S i) ms' es' else Some i
  | _, _ => Some i
  end.

Definition scase := (nat * nat * list sop * list sobs)%type.

Definition check_scases (cs : list scase) : nat * list (nat * nat) :=
  fold_left (fun acc c =>
    let '(n, bad) := acc in
    let '(id, nt, ops, es) := c in
    (S n, match scmp 0 (exec_all sinit nt ops) es with Some i => bad ++ [(id, i)] | None => bad end))
    cs (0, []).
