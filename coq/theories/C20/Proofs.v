(* C20 — proofs about the queue model (C20/Model.v). *)
From Coq Require Import List Arith Bool ZArith Lia.
Import ListNotations.
From GV Require Import C20.Model.

(* ------------------------------------------------------------------ refutation witnesses (rc = true) *)

Definition none_sched (l : list nat) : sched := map (fun t => (t, None)) l.

(* W1: thread 0 links its node and is preempted before swinging the tail; thread 1 dequeues that
   node and releases the old sentinel (its next pointer is reset to nil) while the tail still
   designates it; thread 2's Enqueue then links onto the released sentinel. *)
Definition w1_progs : list (list qop) := [[OEnq 1]; [ODeq]; [OEnq 2]; [ODeq]].
Definition w1_sched : sched :=
  none_sched (repeat 0 6 ++ repeat 1 9 ++ repeat 2 8 ++ repeat 0 2 ++ repeat 3 3).

Definition all_done (s : state) (n : nat) : bool :=
  forallb (fun i => match tpc (threads s i), prog (threads s i) with PIdle, [] => true | _, _ => false end) (seq 0 n).

Lemma pool_aba_witness :
  let s := run true (init w1_progs) w1_sched in
  all_done s 4 = true /\
  enq_log s = [1; 2] /\                                  (* both Enqueue calls linked their node and returned *)
  thread_results s 4 = [[]; [RVal 1 1]; []; [RNone]] /\  (* the last Dequeue, begun after everything else had returned, finds the queue empty *)
  contents s = [] /\ qlen s = 1%Z.                       (* value 2 is unreachable; the counter says one element *)
Proof. vm_compute. repeat split; reflexivity. Qed.

(* W2: dequeuer 1 wins the head CAS and is preempted before reading the value; dequeuer 2 removes
   the following element and releases dequeuer 1's node, clearing its value. *)
Definition w2_progs : list (list qop) := [[OEnq 1; OEnq 2]; [ODeq]; [ODeq]].
Definition w2_sched : sched := none_sched (repeat 0 16 ++ repeat 1 4 ++ repeat 2 9 ++ repeat 1 5).

Lemma pool_value_cleared_witness :
  let s := run true (init w2_progs) w2_sched in
  all_done s 3 = true /\ enq_log s = [1; 2] /\
  thread_results s 3 = [[]; [RNil 1]; [RVal 2 2]] /\ contents s = [].
Proof. vm_compute. repeat split; reflexivity. Qed.
