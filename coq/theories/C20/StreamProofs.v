(* C20 — the event stream layer (C20/Stream.v) under EVERY interleaving of its atomic actions, with any
   number of publishers, subscribers and topics. *)
From Coq Require Import List Arith Bool Lia Sorted.
Import ListNotations.
From GV Require Import C20.Stream.

(* everything ever enqueued for subscriber s, in enqueue order (drained part, then buffered part) *)
Definition have (st : sstate) (s : nat) : list msg := sdl (ssubs st s) ++ sq (ssubs st s).

Definition by_pub (p : nat) (l : list msg) : list msg := filter (fun m => Nat.eqb (mpub m) p) l.
Definition seqs_of (p : nat) (l : list msg) : list nat := map mseq (by_pub p l).

Inductive sreach : sstate -> Prop :=
| sreach_init : sreach sinit
| sreach_step st l : sreach st -> sreach (sstep st l).

Lemma updf_eq A (f : nat -> A) k a : updf f k a k = a.
Proof. unfold updf. now rewrite Nat.eqb_refl. Qed.

Lemma updf_neq A (f : nat -> A) k a x : x <> k -> updf f k a x = f x.
Proof. unfold updf. intros H. apply Nat.eqb_neq in H. now rewrite H. Qed.

Lemma inb_In x l : inb x l = true <-> In x l.
Proof.
  unfold inb. rewrite existsb_exists. split.
  - intros (y & H & E). apply Nat.eqb_eq in E. now subst.
  - intros H. exists x. split; auto. apply Nat.eqb_refl.
Qed.

Lemma addset_NoDup x l : NoDup l -> NoDup (addset x l).
Proof.
  unfold addset. intros H. destruct (inb x l) eqn:E; auto.
  assert (~ In x l) by (rewrite <- inb_In; congruence).
  clear E. induction l as [|a l IH]; cbn.
  - constructor; [intros []|constructor].
  - inversion H; subst. constructor.
    + rewrite in_app_iff. cbn. intros [A|[A|[]]]; [auto|subst; apply H0; now left].
    + apply IH; auto. intros A; apply H0; now right.
Qed.

Lemma addset_In x l y : In y (addset x l) -> y = x \/ In y l.
Proof.
  unfold addset. destruct (inb x l); auto. rewrite in_app_iff. cbn. intuition.
Qed.

Lemma delset_NoDup x l : NoDup l -> NoDup (delset x l).
Proof. apply NoDup_filter. Qed.

Lemma delset_In x l y : In y (delset x l) -> In y l /\ y <> x.
Proof.
  unfold delset. rewrite filter_In. intros (A & B). split; auto.
  intros ->. now rewrite Nat.eqb_refl in B.
Qed.

Lemma delset_not_In x l : ~ In x (delset x l).
Proof. intros H. apply delset_In in H. now destruct H. Qed.

(* ------------------------------------------------------------------ the invariant *)

Record SInv (st : sstate) : Prop := mkSInv {
  j_log : forall m snap, In (m, snap) (snaplog st) -> mseq m < pseq st (mpub m);
  j_pend : forall p pd, ppend st p = Some pd ->
             mpub (pmsg pd) = p /\ S (mseq (pmsg pd)) = pseq st p /\ NoDup (prest pd) /\ prest pd <> [] /\
             exists snap, In (pmsg pd, snap) (snaplog st) /\ incl (prest pd) snap;
  j_sorted : forall s p, StronglySorted lt (seqs_of p (have st s));
  j_have : forall s m, In m (have st s) ->
             mseq m < pseq st (mpub m) /\ exists snap, In (m, snap) (snaplog st) /\ In s snap;
  j_before : forall s p pd, ppend st p = Some pd -> In s (prest pd) ->
             forall m, In m (have st s) -> mpub m = p -> mseq m < mseq (pmsg pd);
  j_tmap : forall t, NoDup (tmap st t);
  j_dom : forall t s, In s (tmap st t) -> s < nsubs st;
  j_snapdom : forall m snap s, In (m, snap) (snaplog st) -> In s snap -> s < nsubs st;
  j_done : forall m snap s, In (m, snap) (snaplog st) -> In s snap ->
             In m (have st s) \/ sa (ssubs st s) = false \/
             exists pd, ppend st (mpub m) = Some pd /\ pmsg pd = m /\ In s (prest pd)
}.

Lemma sinv_init : SInv sinit.
Proof.
  constructor; cbn; intros; try contradiction; try discriminate.
  - constructor.
  - constructor.
Qed.

(* steps that touch neither the publishes in progress nor what subscribers have received *)
Lemma sinv_frame st st' :
  SInv st ->
  ppend st' = ppend st -> pseq st' = pseq st -> snaplog st' = snaplog st ->
  (forall s, have st' s = have st s \/ have st' s = []) ->
  (forall s, s < nsubs st -> have st' s = have st s) ->
  (forall t, NoDup (tmap st' t)) -> (forall t s, In s (tmap st' t) -> s < nsubs st') ->
  nsubs st <= nsubs st' ->
  (forall s, s < nsubs st -> sa (ssubs st' s) = true -> sa (ssubs st s) = true) ->
  SInv st'.
Proof.
  intros I Hp Hq Hl Hh Hh' Ht Hd Hn Ha.
  constructor; rewrite ?Hp, ?Hq, ?Hl.
  - apply I.
  - apply I.
  - intros s p. destruct (Hh s) as [->| ->]; [apply I|constructor].
  - intros s m. destruct (Hh s) as [->| ->]; [apply I|intros []].
  - intros s p pd A B m. destruct (Hh s) as [->| ->]; [now apply (j_before _ I s p pd)|intros []].
  - exact Ht.
  - exact Hd.
  - intros m snap s A B. pose proof (j_snapdom _ I _ _ _ A B). lia.
  - intros m snap s A B. pose proof (j_snapdom _ I _ _ _ A B) as Hs.
    rewrite (Hh' s Hs). destruct (j_done _ I _ _ _ A B) as [H|[H|H]]; auto.
    right; left. destruct (sa (ssubs st' s)) eqn:E; auto. apply Ha in E; auto. congruence.
Qed.

Lemma have_set_sub st s b x :
  have (set_sub st s b) x = if Nat.eqb x s then sdl b ++ sq b else have st x.
Proof. unfold have, set_sub, updf. cbn. destruct (Nat.eqb x s); reflexivity. Qed.

Lemma seqs_of_app p l l' : seqs_of p (l ++ l') = seqs_of p l ++ seqs_of p l'.
Proof. unfold seqs_of, by_pub. now rewrite filter_app, map_app. Qed.

Lemma sorted_snoc l x : StronglySorted lt l -> (forall y, In y l -> y < x) -> StronglySorted lt (l ++ [x]).
Proof.
  induction l as [|a l IH]; intros Hs Hx; cbn.
  - constructor; constructor.
  - inversion Hs; subst. constructor.
    + apply IH; auto. intros; apply Hx; now right.
    + rewrite Forall_forall in *. intros y Hy. apply in_app_or in Hy. destruct Hy as [Hy|[<-|[]]]; auto.
      apply Hx. now left.
Qed.

Lemma next_pend_some m r pd : next_pend m r = Some pd -> pd = mkPend m r false /\ r <> [].
Proof. destruct r; cbn; intros H; inversion H; split; auto; discriminate. Qed.

Ltac sframe I st :=
  apply sinv_frame with (st := st);
  [exact I|reflexivity|reflexivity|reflexivity| | | | | | ]; cbn.

Lemma have_same_sub st s b x :
  sq b = sq (ssubs st s) -> sdl b = sdl (ssubs st s) -> have (set_sub st s b) x = have st x.
Proof.
  intros A B. rewrite have_set_sub. destruct (Nat.eqb x s) eqn:E; auto.
  apply Nat.eqb_eq in E. subst. unfold have. now rewrite A, B.
Qed.

Lemma sinv_step st l : SInv st -> SInv (sstep st l).
Proof.
  intros I. destruct l; cbn [sstep].
  - (* SNew *)
    sframe I st.
    + intros s. unfold have. cbn. unfold updf. destruct (Nat.eqb s (nsubs st)); auto.
    + intros s Hs. unfold have. cbn. rewrite updf_neq by lia. reflexivity.
    + apply I.
    + intros t s H. apply (j_dom _ I) in H. lia.
    + lia.
    + intros s Hs. now rewrite updf_neq by lia.
  - (* SSubSelf *)
    destruct (Nat.ltb s (nsubs st)); [|exact I].
    sframe I st.
    + intros x. left. now apply have_same_sub.
    + intros x _. now apply have_same_sub.
    + apply I.
    + apply I.
    + lia.
    + intros x _. unfold updf. destruct (Nat.eqb x s) eqn:E; auto. apply Nat.eqb_eq in E. now subst.
  - (* SMapAdd *)
    destruct (Nat.ltb s (nsubs st)) eqn:Hlt; [|exact I]. apply Nat.ltb_lt in Hlt.
    sframe I st; auto.
    + intros t0. unfold updf. destruct (Nat.eqb t0 t); [apply addset_NoDup|]; apply I.
    + intros t0 x. unfold updf. destruct (Nat.eqb t0 t).
      * intros H. apply addset_In in H. destruct H as [->|H]; auto. now apply (j_dom _ I) in H.
      * apply I.
  - (* SUnsubSelf *)
    destruct (Nat.ltb s (nsubs st)); [|exact I].
    sframe I st.
    + intros x. left. now apply have_same_sub.
    + intros x _. now apply have_same_sub.
    + apply I.
    + apply I.
    + lia.
    + intros x _. unfold updf. destruct (Nat.eqb x s) eqn:E; auto. apply Nat.eqb_eq in E. now subst.
  - (* SMapDel *)
    sframe I st; auto.
    + intros t0. unfold updf. destruct (Nat.eqb t0 t); [apply delset_NoDup|]; apply I.
    + intros t0 x. unfold updf. destruct (Nat.eqb t0 t).
      * intros H. apply delset_In in H. destruct H as [H _]. now apply (j_dom _ I) in H.
      * apply I.
  - (* SInact *)
    destruct (Nat.ltb s (nsubs st)); [|exact I].
    sframe I st.
    + intros x. left. now apply have_same_sub.
    + intros x _. now apply have_same_sub.
    + apply I.
    + apply I.
    + lia.
    + intros x _. unfold updf. destruct (Nat.eqb x s) eqn:E; cbn; auto. discriminate.
  - (* SUnreg *)
    sframe I st; auto; apply I.
  - (* SPubSnap *)
    destruct (ppend st p) eqn:Hp; [exact I|].
    set (m := mkMsg t x p (pseq st p)).
    constructor; cbn.
    + intros m0 snap H. apply in_app_or in H. destruct H as [H|[H|[]]].
      * apply (j_log _ I) in H. unfold updf. destruct (Nat.eqb (mpub m0) p) eqn:E; auto.
        apply Nat.eqb_eq in E. rewrite E in H. lia.
      * inversion H; subst m0. cbn. rewrite updf_eq. lia.
    + intros p0 pd. unfold updf. destruct (Nat.eqb p0 p) eqn:E.
      * apply Nat.eqb_eq in E. subst p0. intros H. apply next_pend_some in H. destruct H as (-> & Hne). cbn.
        repeat split; auto; [apply I|]. exists (tmap st t). split; [apply in_or_app; right; now left|apply incl_refl].
      * intros H. destruct (j_pend _ I _ _ H) as (A & B & C & D & snap & F & G).
        repeat split; auto. exists snap. split; auto. apply in_or_app; now left.
    + apply I.
    + intros s m0 H. destruct (j_have _ I _ _ H) as (A & snap & B & C). split.
      * unfold updf. destruct (Nat.eqb (mpub m0) p) eqn:E; auto. apply Nat.eqb_eq in E. rewrite E in A. lia.
      * exists snap. split; auto. apply in_or_app; now left.
    + intros s p0 pd. unfold updf. destruct (Nat.eqb p0 p) eqn:E.
      * apply Nat.eqb_eq in E. subst p0. intros H. apply next_pend_some in H. destruct H as (-> & Hne). cbn.
        intros _ m0 Hm Hpub. destruct (j_have _ I _ _ Hm) as (A & _). now rewrite Hpub in A.
      * apply (j_before _ I).
    + apply I.
    + apply I.
    + intros m0 snap s H Hs. apply in_app_or in H. destruct H as [H|[H|[]]].
      * eapply (j_snapdom _ I); eauto.
      * inversion H; subst. eapply (j_dom _ I); eauto.
    + intros m0 snap s H Hs. apply in_app_or in H. destruct H as [H|[H|[]]].
      * destruct (j_done _ I _ _ _ H Hs) as [A|[A|(pd & A & B & C)]]; auto.
        right; right. exists pd. repeat split; auto. rewrite updf_neq; auto.
        intros E. rewrite E in A. congruence.
      * inversion H; subst m0 snap. right; right. cbn. rewrite updf_eq.
        destruct (tmap st t) eqn:Et; [destruct Hs|]. eexists. cbn. repeat split; eauto.
  - (* SPubChk *)
    destruct (ppend st p) as [[m [|s r] [|]]|] eqn:Hp; try exact I.
    destruct (sa (ssubs st s)) eqn:Ha; [|exact I].
    destruct (j_pend _ I _ _ Hp) as (A & B & C & D & E). cbn in *.
    constructor; cbn; try apply I.
    + intros p0 pd. unfold updf. destruct (Nat.eqb p0 p) eqn:Ep.
      * apply Nat.eqb_eq in Ep. subst p0. intros H. inversion H; subst pd. cbn. auto.
      * apply (j_pend _ I).
    + intros s0 p0 pd. unfold updf. destruct (Nat.eqb p0 p) eqn:Ep.
      * apply Nat.eqb_eq in Ep. subst p0. intros H. inversion H; subst pd. cbn. apply (j_before _ I _ _ _ Hp).
      * apply (j_before _ I).
    + intros m0 snap s0 H Hs. destruct (j_done _ I _ _ _ H Hs) as [X|[X|(pd & X & Y & Z)]]; auto.
      right; right. unfold updf. destruct (Nat.eqb (mpub m0) p) eqn:Ep.
      * apply Nat.eqb_eq in Ep. rewrite Ep, Hp in X. inversion X; subst pd. cbn in *. eexists. cbn. eauto.
      * exists pd. auto.
  - (* SPubEnq *)
    destruct (ppend st p) as [[m [|s r] [|]]|] eqn:Hp; try exact I.
    destruct (j_pend _ I _ _ Hp) as (A & B & C & D & snap & F & G). cbn in *.
    set (st' := set_pend _ _ _).
    assert (Hhave : forall x, have st' x = if Nat.eqb x s then have st s ++ [m] else have st x).
    { intros x. unfold have, st'. cbn. unfold updf. destruct (Nat.eqb x s) eqn:E; cbn; [|reflexivity].
      now rewrite app_assoc. }
    assert (Hpe : ppend st' = updf (ppend st) p (next_pend m r)) by reflexivity.
    assert (Hps : pseq st' = pseq st) by reflexivity.
    assert (Hlg : snaplog st' = snaplog st) by reflexivity.
    assert (Htm : tmap st' = tmap st) by reflexivity.
    assert (Hns : nsubs st' = nsubs st) by reflexivity.
    assert (Hsa : forall x, sa (ssubs st' x) = sa (ssubs st x)).
    { intros x. unfold st'. cbn. unfold updf. destruct (Nat.eqb x s) eqn:E; auto. apply Nat.eqb_eq in E. now subst. }
    clearbody st'.
    apply NoDup_cons_iff in C. destruct C as (Hnotin & Hnd).
    constructor; rewrite ?Hpe, ?Hps, ?Hlg, ?Htm, ?Hns.
    + apply I.
    + intros p0 pd. unfold updf. destruct (Nat.eqb p0 p) eqn:Ep.
      * apply Nat.eqb_eq in Ep. subst p0. intros H. apply next_pend_some in H. destruct H as (-> & Hne). cbn.
        repeat split; auto. exists snap. split; auto. intros y Hy. apply G. now right.
      * apply (j_pend _ I).
    + intros s0 p0. rewrite Hhave. destruct (Nat.eqb s0 s) eqn:E; [|apply I].
      rewrite seqs_of_app. unfold seqs_of at 2, by_pub. cbn.
      destruct (Nat.eqb (mpub m) p0) eqn:Ep; cbn; [|rewrite app_nil_r; apply I].
      apply Nat.eqb_eq in Ep. apply sorted_snoc; [apply I|].
      intros y Hy. unfold seqs_of, by_pub in Hy. apply in_map_iff in Hy. destruct Hy as (m0 & <- & Hm0).
      apply filter_In in Hm0. destruct Hm0 as (Hm0 & Epub). apply Nat.eqb_eq in Epub.
      eapply (j_before _ I s p _ Hp); [now left|exact Hm0|congruence].
    + intros s0 m0. rewrite Hhave. destruct (Nat.eqb s0 s) eqn:E; [|apply I]. apply Nat.eqb_eq in E. subst s0.
      intros H. apply in_app_or in H. destruct H as [H|[<-|[]]]; [now apply (j_have _ I)|].
      split; [rewrite A; lia|]. exists snap. split; auto. apply G. now left.
    + intros s0 p0 pd. rewrite Hhave. unfold updf. destruct (Nat.eqb p0 p) eqn:Ep.
      * apply Nat.eqb_eq in Ep. subst p0. intros H. apply next_pend_some in H. destruct H as (-> & Hne). cbn.
        intros Hin m0. destruct (Nat.eqb s0 s) eqn:E.
        -- apply Nat.eqb_eq in E. subst s0. contradiction.
        -- intros Hm0. apply (j_before _ I s0 p _ Hp); auto. now right.
      * intros Hpd Hin m0. destruct (Nat.eqb s0 s) eqn:E; [|now apply (j_before _ I s0 p0 pd)].
        apply Nat.eqb_eq in E. subst s0. intros Hm0 Hpub. apply in_app_or in Hm0.
        destruct Hm0 as [Hm0|[<-|[]]]; [now apply (j_before _ I s p0 pd)|].
        apply Nat.eqb_neq in Ep. congruence.
    + apply I.
    + apply I.
    + apply I.
    + intros m0 snap0 s0 Hlog Hs. rewrite Hhave, Hsa.
      destruct (j_done _ I _ _ _ Hlog Hs) as [X|[X|(pd & X & Y & Z)]].
      * left. destruct (Nat.eqb s0 s) eqn:E; auto. apply Nat.eqb_eq in E. subst. apply in_or_app; now left.
      * right; left. exact X.
      * unfold updf. destruct (Nat.eqb (mpub m0) p) eqn:Ep.
        -- apply Nat.eqb_eq in Ep. rewrite Ep, Hp in X. inversion X; subst pd. cbn in *. subst m0.
           destruct Z as [<-|Z].
           ++ left. rewrite Nat.eqb_refl. apply in_or_app; right; now left.
           ++ right; right. destruct r as [|a r']; [destruct Z|]. eexists. cbn. eauto.
        -- right; right. exists pd. auto.
  - (* SPubSkip *)
    destruct (ppend st p) as [[m [|s r] [|]]|] eqn:Hp; try exact I.
    destruct (sa (ssubs st s)) eqn:Ha; [exact I|].
    destruct (j_pend _ I _ _ Hp) as (A & B & C & D & snap & F & G). cbn in *.
    apply NoDup_cons_iff in C. destruct C as (Hnotin & Hnd).
    constructor; cbn; try apply I.
    + intros p0 pd. unfold updf. destruct (Nat.eqb p0 p) eqn:Ep.
      * apply Nat.eqb_eq in Ep. subst p0. intros H. apply next_pend_some in H. destruct H as (-> & Hne). cbn.
        repeat split; auto. exists snap. split; auto. intros y Hy. apply G. now right.
      * apply (j_pend _ I).
    + intros s0 p0 pd. unfold updf. destruct (Nat.eqb p0 p) eqn:Ep.
      * apply Nat.eqb_eq in Ep. subst p0. intros H. apply next_pend_some in H. destruct H as (-> & Hne). cbn.
        intros Hin. apply (j_before _ I s0 p _ Hp). now right.
      * apply (j_before _ I).
    + intros m0 snap0 s0 H Hs. destruct (j_done _ I _ _ _ H Hs) as [X|[X|(pd & X & Y & Z)]]; auto.
      unfold updf. destruct (Nat.eqb (mpub m0) p) eqn:Ep.
      * apply Nat.eqb_eq in Ep. rewrite Ep, Hp in X. inversion X; subst pd. cbn in *. subst m0.
        destruct Z as [<-|Z]; auto.
        right; right. destruct r as [|a r']; [destruct Z|]. eexists. cbn. eauto.
      * right; right. exists pd. auto.
  - (* SDrain *)
    assert (Hh : forall x, have (set_sub st s (mkSub (sa (ssubs st s)) (stop (ssubs st s))
                  (skipn n (sq (ssubs st s))) (sdl (ssubs st s) ++ firstn n (sq (ssubs st s))))) x = have st x).
    { intros x. rewrite have_set_sub. destruct (Nat.eqb x s) eqn:E; auto. apply Nat.eqb_eq in E. subst x.
      cbn. unfold have. now rewrite <- app_assoc, firstn_skipn. }
    sframe I st; auto; try apply I.
    intros x _. unfold updf. destruct (Nat.eqb x s) eqn:E; auto. apply Nat.eqb_eq in E. now subst.
  - (* SCloseSubs *)
    sframe I st; auto; try apply I.
    + intros x. left. unfold have. cbn. destruct (inb x (sreg st)); reflexivity.
    + intros x _. unfold have. cbn. destruct (inb x (sreg st)); reflexivity.
    + intros x _. destruct (inb x (sreg st)); cbn; auto. discriminate.
  - (* SCloseTopics *)
    sframe I st; auto; try apply I.
    + intros; constructor.
    + intros t s [].
Qed.

Lemma sreach_inv st : sreach st -> SInv st.
Proof. induction 1; [apply sinv_init|now apply sinv_step]. Qed.

(* ------------------------------------------------------------------ consequences *)

(* per publisher, the events a subscriber has received carry strictly increasing sequence numbers:
   publish order is kept and nothing is received twice *)
Lemma stream_in_order st s p : sreach st -> StronglySorted lt (seqs_of p (have st s)).
Proof. intros H. apply (j_sorted _ (sreach_inv _ H)). Qed.

Lemma sorted_all_nodup (l : list msg) :
  (forall p, StronglySorted lt (seqs_of p l)) -> NoDup l.
Proof.
  induction l as [|a l IH]; intros H; constructor.
  - intros Hin. specialize (H (mpub a)). unfold seqs_of, by_pub in H. cbn in H.
    rewrite Nat.eqb_refl in H. cbn in H. inversion H as [|? ? _ Hall]; subst.
    rewrite Forall_forall in Hall. assert (mseq a < mseq a); [|lia].
    apply Hall. apply in_map. apply filter_In. split; auto. apply Nat.eqb_refl.
  - apply IH. intros p. specialize (H p). unfold seqs_of, by_pub in *. cbn in H.
    destruct (Nat.eqb (mpub a) p); cbn in H; auto. now inversion H.
Qed.

Lemma stream_at_most_once st s : sreach st -> NoDup (have st s).
Proof. intros H. apply sorted_all_nodup. intros p. now apply stream_in_order. Qed.

(* whatever a subscriber receives was published with a snapshot that contained it *)
Lemma stream_only_snapshot st s m :
  sreach st -> In m (have st s) -> exists snap, In (m, snap) (snaplog st) /\ In s snap.
Proof. intros H Hin. apply (j_have _ (sreach_inv _ H) _ _ Hin). Qed.

(* once Publish has returned, every subscriber of its snapshot that is still active has the event *)
Lemma stream_complete st m snap s :
  sreach st -> In (m, snap) (snaplog st) -> In s snap ->
  ppend st (mpub m) = None -> sa (ssubs st s) = true -> In m (have st s).
Proof.
  intros H Hl Hs Hp Ha. destruct (j_done _ (sreach_inv _ H) _ _ _ Hl Hs) as [X|[X|(pd & X & _)]]; auto; congruence.
Qed.

Lemma snaplog_step st l :
  snaplog (sstep st l) = snaplog st \/
  exists p t x, l = SPubSnap p t x /\ ppend st p = None /\
                snaplog (sstep st l) = snaplog st ++ [(mkMsg t x p (pseq st p), tmap st t)].
Proof.
  destruct l; cbn;
    repeat match goal with
           | |- context [match ?e with _ => _ end] => destruct e eqn:?
           | |- context [if ?e then _ else _] => destruct e eqn:?
           end; cbn; auto.
  right. exists p, t, x. auto.
Qed.

(* the snapshot of a publish is the set of subscribers of the topic at one instant of the run *)
Lemma stream_snapshot_instant st m snap :
  sreach st -> In (m, snap) (snaplog st) ->
  exists st0, sreach st0 /\ ppend st0 (mpub m) = None /\ snap = tmap st0 (mtopic m) /\ mseq m = pseq st0 (mpub m).
Proof.
  induction 1 as [|st l H IH]; [intros []|].
  intros Hin. destruct (snaplog_step st l) as [E|(p & t & x & -> & Hp & E)]; rewrite E in Hin.
  - auto.
  - apply in_app_or in Hin. destruct Hin as [Hin|[Hin|[]]]; auto.
    inversion Hin; subst. exists st. cbn. auto.
Qed.

(* a subscriber that is not in a topic's set stays out until Subscribe's map update for that very
   (subscriber, topic) — in particular after Unsubscribe's update *)
Lemma tmap_step_out st l s t :
  ~ In s (tmap st t) -> l <> SMapAdd s t -> ~ In s (tmap (sstep st l) t).
Proof.
  intros Hout Hne. destruct l; cbn;
    repeat match goal with
           | |- context [match ?e with _ => _ end] => destruct e eqn:?
           | |- context [if ?e then _ else _] => destruct e eqn:?
           end; cbn; auto.
  - unfold updf. destruct (Nat.eqb t t0) eqn:E; auto. apply Nat.eqb_eq in E. subst t0.
    intros H. apply addset_In in H. destruct H as [->|H]; auto.
  - unfold updf. destruct (Nat.eqb t t0) eqn:E; auto. apply Nat.eqb_eq in E. subst t0.
    intros H. apply delset_In in H. tauto.
Qed.

Lemma stream_stays_out st ls s t :
  ~ In s (tmap st t) -> ~ In (SMapAdd s t) ls -> ~ In s (tmap (srun st ls) t).
Proof.
  revert st. induction ls as [|l ls IH]; intros st Hout Hno; cbn; auto.
  apply IH.
  - apply tmap_step_out; auto. intros ->. apply Hno. now left.
  - intros H. apply Hno. now right.
Qed.

Lemma stream_unsubscribed st s t : ~ In s (tmap (sstep st (SMapDel s t)) t).
Proof. cbn. rewrite updf_eq. apply delset_not_In. Qed.

Lemma sreach_run st ls : sreach st -> sreach (srun st ls).
Proof. revert st. induction ls as [|l ls IH]; intros st H; cbn; auto. apply IH. now constructor. Qed.

(* ------------------------------------------------------------------ the hypotheses are satisfiable *)

(* two subscribers of topic 0; publisher 7 takes its snapshot, subscriber 0 unsubscribes, the
   publish completes (subscriber 0 still gets that event), a second publish reaches only subscriber 1 *)
Definition ex_labels : list slabel :=
  [SNew; SNew; SSubSelf 0 0; SMapAdd 0 0; SSubSelf 1 0; SMapAdd 1 0;
   SPubSnap 7 0 100; SUnsubSelf 0 0; SMapDel 0 0; SPubChk 7; SPubEnq 7; SPubChk 7; SPubEnq 7;
   SPubSnap 7 0 101; SPubChk 7; SPubEnq 7; SDrain 1 1].

Example ex_sreach :
  let st := srun sinit ex_labels in
  sreach st /\ have st 0 = [mkMsg 0 100 7 0] /\ have st 1 = [mkMsg 0 100 7 0; mkMsg 0 101 7 1] /\
  ppend st 7 = None /\ sa (ssubs st 1) = true /\
  snaplog st = [(mkMsg 0 100 7 0, [0; 1]); (mkMsg 0 101 7 1, [1])].
Proof. split; [apply sreach_run; constructor|]. vm_compute. repeat split; reflexivity. Qed.
