(* C20 — executable model of eventstream/eventstream.go + subscriber.go.

   State: the subscribers (active flag, the subscriber's own topic set, its buffered messages), the
   registry of subscribers, the topic map, and for every publisher thread the publish in progress
   (the snapshot of subscribers still to be signalled).

   [sstep] is ONE atomic action of the real code:
     SNew          AddSubscriber (under subsMu)
     SSubSelf s t  subscriber.subscribe (under the subscriber's topicsMu)
     SMapAdd s t   Subscribe's update of the topic map (under topicsMu)
     SUnsubSelf/SMapDel   the two halves of Unsubscribe
     SInact s      subscriber.Shutdown (atomic store)
     SUnreg s      RemoveSubscriber's delete (under subsMu)
     SPubSnap p t x   publishToTopic: snapshot of topics[t] taken under the read lock (payload x)
     SPubChk p     the active checks for the next subscriber of the snapshot succeeded
     SPubEnq p     the message is linked into that subscriber's queue
     SPubSkip p    the next subscriber of the snapshot was found inactive
     SDrain s n    n messages dequeued from subscriber s
     SCloseSubs / SCloseTopics   the two critical sections of Close
   Actions on a subscriber handle that has not been created are no-ops (handles only come from
   AddSubscriber). The subscriber's queue is a list here: that abstraction is what C20/Conc.v
   establishes for internal/queue (for the non-recycling queue under every interleaving).

   Ghost: every publish gets the identity (publisher, per-publisher sequence number); [snaplog]
   records the snapshot taken for it.

   The sequential API operations are the compositions [exec] of these steps; the harness compares
   them with the real EventsStream after every operation. *)
From Coq Require Import List Arith Bool.
Import ListNotations.

Record msg := mkMsg { mtopic : nat; mpay : nat; mpub : nat; mseq : nat }.

Record ssub := mkSub { sa : bool; stop : list nat; sq : list msg; sdl : list msg }.
Record pend := mkPend { pmsg : msg; prest : list nat; pchk : bool }.

Record sstate := mkS {
  ssubs : nat -> ssub;
  nsubs : nat;
  sreg : list nat;
  tmap : nat -> list nat;
  ppend : nat -> option pend;
  pseq : nat -> nat;
  snaplog : list (msg * list nat)
}.

Inductive slabel :=
| SNew
| SSubSelf (s t : nat) | SMapAdd (s t : nat)
| SUnsubSelf (s t : nat) | SMapDel (s t : nat)
| SInact (s : nat) | SUnreg (s : nat)
| SPubSnap (p t x : nat)
| SPubChk (p : nat) | SPubEnq (p : nat) | SPubSkip (p : nat)
| SDrain (s n : nat)
| SCloseSubs | SCloseTopics.

Definition updf {A} (f : nat -> A) (k : nat) (a : A) : nat -> A :=
  fun x => if Nat.eqb x k then a else f x.

Definition sinit : sstate :=
  mkS (fun _ => mkSub false [] [] []) 0 [] (fun _ => []) (fun _ => None) (fun _ => 0) [].

Definition inb (x : nat) (l : list nat) : bool := existsb (Nat.eqb x) l.
Definition addset (x : nat) (l : list nat) : list nat := if inb x l then l else l ++ [x].
Definition delset (x : nat) (l : list nat) : list nat := filter (fun y => negb (Nat.eqb y x)) l.

Definition set_sub (st : sstate) (s : nat) (b : ssub) : sstate :=
  mkS (updf (ssubs st) s b) (nsubs st) (sreg st) (tmap st) (ppend st) (pseq st) (snaplog st).
Definition set_tmap (st : sstate) (m : nat -> list nat) : sstate :=
  mkS (ssubs st) (nsubs st) (sreg st) m (ppend st) (pseq st) (snaplog st).
Definition set_pend (st : sstate) (p : nat) (x : option pend) : sstate :=
  mkS (ssubs st) (nsubs st) (sreg st) (tmap st) (updf (ppend st) p x) (pseq st) (snaplog st).

Definition next_pend (m : msg) (r : list nat) : option pend :=
  match r with [] => None | _ => Some (mkPend m r false) end.

(* a step that is not enabled leaves the state unchanged *)
Definition sstep (st : sstate) (l : slabel) : sstate :=
  match l with
  | SNew =>
      mkS (updf (ssubs st) (nsubs st) (mkSub true [] [] [])) (S (nsubs st)) (sreg st ++ [nsubs st])
          (tmap st) (ppend st) (pseq st) (snaplog st)
  | SSubSelf s t =>
      if Nat.ltb s (nsubs st) then
        let b := ssubs st s in set_sub st s (mkSub (sa b) (addset t (stop b)) (sq b) (sdl b))
      else st
  | SMapAdd s t =>
      if Nat.ltb s (nsubs st) then set_tmap st (updf (tmap st) t (addset s (tmap st t))) else st
  | SUnsubSelf s t =>
      if Nat.ltb s (nsubs st) then
        let b := ssubs st s in set_sub st s (mkSub (sa b) (delset t (stop b)) (sq b) (sdl b))
      else st
  | SMapDel s t => set_tmap st (updf (tmap st) t (delset s (tmap st t)))
  | SInact s =>
      if Nat.ltb s (nsubs st) then
        let b := ssubs st s in set_sub st s (mkSub false (stop b) (sq b) (sdl b))
      else st
  | SUnreg s => mkS (ssubs st) (nsubs st) (delset s (sreg st)) (tmap st) (ppend st) (pseq st) (snaplog st)
  | SPubSnap p t x =>
      match ppend st p with
      | Some _ => st
      | None =>
          let m := mkMsg t x p (pseq st p) in
          mkS (ssubs st) (nsubs st) (sreg st) (tmap st)
              (updf (ppend st) p (next_pend m (tmap st t)))
              (updf (pseq st) p (S (pseq st p)))
              (snaplog st ++ [(m, tmap st t)])
      end
  | SPubChk p =>
      match ppend st p with
      | Some (mkPend m (s :: r) false) =>
          if sa (ssubs st s) then set_pend st p (Some (mkPend m (s :: r) true)) else st
      | _ => st
      end
  | SPubEnq p =>
      match ppend st p with
      | Some (mkPend m (s :: r) true) =>
          let b := ssubs st s in
          set_pend (set_sub st s (mkSub (sa b) (stop b) (sq b ++ [m]) (sdl b))) p (next_pend m r)
      | _ => st
      end
  | SPubSkip p =>
      match ppend st p with
      | Some (mkPend m (s :: r) false) =>
          if sa (ssubs st s) then st else set_pend st p (next_pend m r)
      | _ => st
      end
  | SDrain s n =>
      let b := ssubs st s in
      set_sub st s (mkSub (sa b) (stop b) (skipn n (sq b)) (sdl b ++ firstn n (sq b)))
  | SCloseSubs =>
      mkS (fun x => let b := ssubs st x in
                    if inb x (sreg st) then mkSub false (stop b) (sq b) (sdl b) else b)
          (nsubs st) [] (tmap st) (ppend st) (pseq st) (snaplog st)
  | SCloseTopics => set_tmap st (fun _ => [])
  end.

Definition srun (st : sstate) (ls : list slabel) : sstate := fold_left sstep ls st.

(* ------------------------------------------------------------------ the sequential API *)

Inductive sop :=
| OAdd | OSub (s t : nat) | OUnsub (s t : nat) | OPub (t x : nat) | OBcast (x : nat) (ts : list nat)
| ORemove (s : nat) | OShutdown (s : nat) | OIter (s : nat) | OClose | OCount (t : nat).

(* the steps one publisher performs for one snapshot, run to completion *)
Fixpoint deliver (fuel : nat) (st : sstate) (p : nat) : sstate :=
  match fuel with
  | O => st
  | S f =>
      match ppend st p with
      | None => st
      | Some (mkPend _ [] _) => st
      | Some (mkPend _ (s :: _) _) =>
          if sa (ssubs st s)
          then deliver f (sstep (sstep st (SPubChk p)) (SPubEnq p)) p
          else deliver f (sstep st (SPubSkip p)) p
      end
  end.

Definition publish (st : sstate) (t x : nat) : sstate :=
  let st1 := sstep st (SPubSnap 0 t x) in
  deliver (S (length (tmap st t))) st1 0.

Definition exec (st : sstate) (o : sop) : sstate * list (nat * nat) :=
  match o with
  | OAdd => (sstep st SNew, [])
  | OSub s t =>
      if Nat.ltb s (nsubs st) && sa (ssubs st s)
      then (sstep (sstep st (SSubSelf s t)) (SMapAdd s t), []) else (st, [])
  | OUnsub s t =>
      if Nat.ltb s (nsubs st) then (sstep (sstep st (SUnsubSelf s t)) (SMapDel s t), []) else (st, [])
  | OPub t x => (publish st t x, [])
  | OBcast x ts => (fold_left (fun a t => publish a t x) ts st, [])
  | ORemove s =>
      if Nat.ltb s (nsubs st)
      then
        let st1 := fold_left (fun a t => sstep (sstep a (SUnsubSelf s t)) (SMapDel s t))
                             (stop (ssubs st s)) st in
        (sstep (sstep st1 (SUnreg s)) (SInact s), [])
      else (st, [])
  | OShutdown s => if Nat.ltb s (nsubs st) then (sstep st (SInact s), []) else (st, [])
  | OIter s =>
      if Nat.ltb s (nsubs st)
      then (sstep st (SDrain s (length (sq (ssubs st s)))),
            map (fun m => (mtopic m, mpay m)) (sq (ssubs st s)))
      else (st, [])
  | OClose => (sstep (sstep st SCloseSubs) SCloseTopics, [])
  | OCount t => (st, [(length (tmap st t), 0)])
  end.

Fixpoint sorted_insert (x : nat) (l : list nat) : list nat :=
  match l with
  | [] => [x]
  | y :: r => if Nat.leb x y then x :: l else y :: sorted_insert x r
  end.
Definition sort_nat (l : list nat) : list nat := fold_right sorted_insert [] l.

(* what the harness observes after every operation *)
Record sobs := mkSObs {
  so_result : list (nat * nat);
  so_active : list bool;
  so_topics : list (list nat);
  so_counts : list nat
}.

Definition observe (st : sstate) (ntopics : nat) (r : list (nat * nat)) : sobs :=
  mkSObs r (map (fun i => sa (ssubs st i)) (seq 0 (nsubs st)))
         (map (fun i => sort_nat (stop (ssubs st i))) (seq 0 (nsubs st)))
         (map (fun t => length (tmap st t)) (seq 0 ntopics)).

Fixpoint exec_all (st : sstate) (ntopics : nat) (os : list sop) : list sobs :=
  match os with
  | [] => []
  | o :: r => let '(st', res) := exec st o in observe st' ntopics res :: exec_all st' ntopics r
  end.
