(* C20 — exactly-once for the non-recycling queue: the successful dequeues (returned or still in
   flight) of the first N threads are in bijection with the head-CAS linearization points, and at
   quiescence the values returned are a permutation of the values taken. *)
From Coq Require Import List Arith Bool ZArith Lia Permutation.
Import ListNotations.
From GV Require Import C20.Model C20.Conc.

Definition k_inflight (p : pc) : list nat :=
  match p with
  | PDeqReadV _ _ k | PDeqClrV _ k _ | PDeqClrN _ k _ | PDeqPut _ k _ | PDeqAdd k _ => [k]
  | _ => []
  end.

Definition k_res (r : res) : list nat :=
  match r with RVal k _ | RNil k => [k] | _ => [] end.

Definition ks_of (th : thread) : list nat := k_inflight (tpc th) ++ flat_map k_res (results th).

Definition k_all (s : state) (n : nat) : list nat := flat_map (fun tid => ks_of (threads s tid)) (seq 0 n).

Lemma step_other rc s tid o x : x <> tid -> threads (fst (step rc s tid o)) x = threads s x.
Proof.
  intros Hne. unfold step.
  destruct (tpc (threads s tid));
    repeat match goal with
           | |- context [match ?e with _ => _ end] => destruct e
           | |- context [if ?e then _ else _] => destruct e
           end; cbn; rewrite ?upd_neq; auto.
Qed.

Lemma step_idle_empty rc s tid o :
  tpc (threads s tid) = PIdle -> prog (threads s tid) = [] -> fst (step rc s tid o) = s.
Proof. intros A B. unfold step. now rewrite A, B. Qed.

(* a step leaves the stepping thread's claims unchanged, except the successful head CAS which
   claims the next linearization point *)
Lemma step_ks s tid o :
  let s' := fst (step false s tid o) in
  (hpos s' = hpos s /\ ks_of (threads s' tid) = ks_of (threads s tid)) \/
  (hpos s' = S (hpos s) /\ ks_of (threads s' tid) = S (hpos s) :: ks_of (threads s tid)).
Proof.
  unfold step, ks_of, hpos.
  destruct (tpc (threads s tid)) eqn:Hpc;
    repeat match goal with
           | |- context [match ?e with _ => _ end] => destruct e eqn:?
           | |- context [if ?e then _ else _] => destruct e eqn:?
           end; cbn; rewrite ?upd_eq; cbn; rewrite ?Hpc; cbn; auto.
  - right. rewrite app_length. cbn. split; [lia|reflexivity].
  - left. split; auto. destruct r; reflexivity.
Qed.

Lemma flat_map_ext_notin A B (f g : A -> list B) l :
  (forall x, In x l -> f x = g x) -> flat_map f l = flat_map g l.
Proof.
  induction l as [|a l IH]; intros H; cbn; [reflexivity|].
  rewrite H by now left. f_equal. apply IH. intros; apply H; now right.
Qed.

Lemma flat_map_one (f g : nat -> list nat) l tid k :
  NoDup l -> In tid l -> (forall x, x <> tid -> g x = f x) -> g tid = k :: f tid ->
  Permutation (flat_map g l) (k :: flat_map f l).
Proof.
  induction l as [|a l IH]; intros Hnd Hin Hother Hk; [destruct Hin|].
  inversion Hnd; subst. cbn. destruct (Nat.eq_dec a tid) as [->|Hne].
  - rewrite Hk. cbn. constructor. apply Permutation_app_head.
    rewrite (flat_map_ext_notin _ _ g f); [reflexivity|]. intros x Hx. apply Hother. intros ->. contradiction.
  - destruct Hin as [->|Hin]; [congruence|]. rewrite Hother by auto.
    rewrite (IH H2 Hin Hother Hk). symmetry. apply Permutation_middle.
Qed.

Definition KInv (n : nat) (s : state) : Prop :=
  Permutation (k_all s n) (seq 1 (hpos s)) /\
  forall tid, n <= tid -> tpc (threads s tid) = PIdle /\ prog (threads s tid) = [].

Lemma kinv_init progs : KInv (length progs) (init progs).
Proof.
  split.
  - unfold k_all, hpos. cbn. induction (seq 0 (length progs)); cbn; auto.
  - intros tid H. cbn. split; auto. apply nth_overflow. exact H.
Qed.

Lemma kinv_step n s tid o : KInv n s -> KInv n (fst (step false s tid o)).
Proof.
  intros (HP & HI).
  destruct (Nat.lt_ge_cases tid n) as [Hlt|Hge].
  - split.
    + pose proof (step_ks s tid o) as K. cbv zeta in K.
      assert (Hin : In tid (seq 0 n)) by (apply in_seq; lia).
      destruct K as [(Hh & Hk)|(Hh & Hk)]; rewrite Hh; unfold k_all.
      * rewrite (flat_map_ext_notin _ _ (fun x => ks_of (threads (fst (step false s tid o)) x))
                                    (fun x => ks_of (threads s x))); [exact HP|].
        intros x _. destruct (Nat.eq_dec x tid) as [->|Hne]; [exact Hk|now rewrite step_other].
      * rewrite (flat_map_one (fun x => ks_of (threads s x))
                              (fun x => ks_of (threads (fst (step false s tid o)) x))
                              (seq 0 n) tid (S (hpos s)) (seq_NoDup n 0) Hin); [| |exact Hk].
        -- rewrite seq_S. cbn [plus]. rewrite <- Permutation_cons_append. constructor. exact HP.
        -- intros x Hne. now rewrite step_other.
    + intros x Hx. rewrite step_other by lia. now apply HI.
  - destruct (HI tid Hge) as (A & B). rewrite (step_idle_empty false s tid o A B). split; assumption.
Qed.

Lemma reach_kinv progs s : reach progs s -> KInv (length progs) s.
Proof. induction 1; [apply kinv_init|now apply kinv_step]. Qed.

(* ------------------------------------------------------------------ the values returned *)

Definition v_res (r : res) : list V := match r with RVal _ v => [v] | _ => [] end.

Definition quiescent (s : state) (n : nat) : Prop := forall tid, tid < n -> tpc (threads s tid) = PIdle.

Lemma map_seq_nth (l : list V) n :
  n <= length l -> map (fun k => nth (k - 1) l 0) (seq 1 n) = firstn n l.
Proof.
  revert n. induction l as [|a l IH]; intros n Hn; cbn in *.
  - assert (n = 0) by lia. subst. reflexivity.
  - destruct n; [reflexivity|]. cbn. f_equal.
    rewrite <- (IH n) by lia. rewrite <- seq_shift, map_map. apply map_ext_in.
    intros k Hk. apply in_seq in Hk. destruct k; [lia|]. cbn. now rewrite Nat.sub_0_r.
Qed.

Lemma map_flat_map A B C (f : B -> C) (g : A -> list B) l :
  map f (flat_map g l) = flat_map (fun x => map f (g x)) l.
Proof. induction l as [|a l IH]; cbn; [reflexivity|]. now rewrite map_app, IH. Qed.

Lemma returned_values progs s :
  reach progs s -> quiescent s (length progs) ->
  Permutation (flat_map (fun tid => flat_map v_res (results (threads s tid))) (seq 0 (length progs)))
              (firstn (length (deq_log s)) (enq_log s)).
Proof.
  intros H Hq. pose proof (reach_inv H) as I. destruct (reach_kinv _ _ H) as (HP & _).
  rewrite <- (map_seq_nth (enq_log s)) by apply (hpos_le_enq I).
  fold (hpos s). rewrite <- (Permutation_map _ HP). unfold k_all.
  rewrite map_flat_map.
  erewrite flat_map_ext_notin; [reflexivity|].
  intros tid Htid. apply in_seq in Htid. unfold ks_of. rewrite (Hq tid) by lia. cbn.
  pose proof (r_inv I tid) as R. induction (results (threads s tid)) as [|r rs IH]; [reflexivity|].
  cbn. rewrite map_app, <- IH by (intros; apply R; now right). f_equal.
  specialize (R r (or_introl eq_refl)). destruct r; cbn in *; auto; [|contradiction].
  destruct R as (_ & ->). reflexivity.
Qed.

(* ------------------------------------------------------------------ the hypotheses are satisfiable *)

Lemma reach_run progs sc : forall s, reach progs s -> reach progs (run false s sc).
Proof.
  induction sc as [|[tid o] sc IH]; intros s H; cbn; auto.
  apply IH. now constructor.
Qed.

(* two producers and a consumer, interleaved; the consumer's head CAS happens while producer 1 is
   between its link CAS and its tail swing *)
Definition ex_progs : list (list qop) := [[OEnq 1; OEnq 2]; [OEnq 3]; [ODeq; ODeq; ODeq; ODeq]].
Definition ex_sched : sched :=
  map (fun t => (t, None)) ([0;0;0;0; 1;1;1; 2;2;2;2;2;2; 0;0] ++ repeat 1 10 ++ repeat 0 10 ++ repeat 2 30).

Example ex_reachable :
  let s := run false (init ex_progs) ex_sched in
  reach ex_progs s /\ quiescent s 3 /\ enq_log s = [1; 3; 2] /\ deq_log s = [Some 1; Some 3; Some 2] /\
  results (threads s 2) = [RNone; RVal 3 2; RVal 2 3; RVal 1 1].
Proof.
  split; [apply reach_run; constructor|].
  vm_compute. repeat split; try reflexivity.
  intros tid H. do 3 (destruct tid as [|tid]; [reflexivity|]). exfalso. do 3 apply le_S_n in H. inversion H.
Qed.
