(* C20 — the non-recycling queue (rc = false, the repaired queue.go) under EVERY interleaving of any
   number of threads: an inductive invariant of the atomic-step model and, from it,
   linearizability with respect to a FIFO queue (link CAS / head CAS as linearization points). *)
From Coq Require Import List Arith Bool ZArith Lia.
Import ListNotations.
From GV Require Import C20.Model.

Set Implicit Arguments.

(* ------------------------------------------------------------------ small list facts *)

Lemma upd_eq A (f : nat -> A) k a : upd f k a k = a.
Proof. unfold upd. now rewrite Nat.eqb_refl. Qed.

Lemma upd_neq A (f : nat -> A) k a x : x <> k -> upd f k a x = f x.
Proof. unfold upd. intros H. apply Nat.eqb_neq in H. now rewrite H. Qed.

Lemma nth_error_app_l A (l l' : list A) i : i < length l -> nth_error (l ++ l') i = nth_error l i.
Proof. intros. now apply nth_error_app1. Qed.

Lemma nth_error_app_last A (l : list A) x : nth_error (l ++ [x]) (length l) = Some x.
Proof. rewrite nth_error_app2 by lia. now rewrite Nat.sub_diag. Qed.

Lemma nth_error_some_lt A (l : list A) i x : nth_error l i = Some x -> i < length l.
Proof. intros H. apply nth_error_Some. congruence. Qed.

Lemma NoDup_nth_inj A (l : list A) i j x :
  NoDup l -> nth_error l i = Some x -> nth_error l j = Some x -> i = j.
Proof.
  intros Hnd Hi Hj. rewrite NoDup_nth_error in Hnd. apply Hnd.
  - eapply nth_error_some_lt; eauto.
  - congruence.
Qed.

Lemma nth_app_l (l l' : list nat) i d : i < length l -> nth i (l ++ l') d = nth i l d.
Proof. intros. now apply app_nth1. Qed.

Lemma firstn_S_nth A (l : list A) n d : n < length l -> firstn (S n) l = firstn n l ++ [nth n l d].
Proof.
  revert n. induction l as [|a l IH]; intros n H; simpl in *; [lia|].
  destruct n; simpl; [reflexivity|]. f_equal. apply IH. lia.
Qed.

Lemma firstn_app_l A (l l' : list A) n : n <= length l -> firstn n (l ++ l') = firstn n l.
Proof. intros. rewrite firstn_app. replace (n - length l) with 0 by lia. simpl. now rewrite app_nil_r. Qed.

(* ------------------------------------------------------------------ the invariant *)

Definition hpos (s : state) : nat := length (deq_log s).

Definition fresh_of (p : pc) : option nat :=
  match p with
  | PEnqLoadTail n | PEnqLoadNext n _ | PEnqHelp n _ _ | PEnqLink n _ => Some n
  | _ => None
  end.

(* dequeue phases that still read or clear the value of the node they took *)
Definition kw_of (p : pc) : option nat :=
  match p with
  | PDeqReadV _ _ k | PDeqClrV _ k _ => Some k
  | _ => None
  end.

Definition val_of (s : state) (n : nat) : V := match nval (nodes s n) with Some v => v | None => 0 end.

Definition Fresh (s : state) (n : nat) : Prop :=
  ~ In n (chain s) /\ n < nalloc s /\ nval (nodes s n) <> None.

Definition Took (s : state) (k : nat) : Prop := 1 <= k /\ k <= hpos s.

Definition TI (s : state) (p : pc) : Prop :=
  match p with
  | PIdle | PEnqAdd | PDeqLoadHead | PLen => True
  | PEnqGet _ | PEnqSetV _ _ | PDeqClrN _ _ _ | PDeqPut _ _ _ => False
  | PEnqLoadTail n => Fresh s n
  | PEnqLoadNext n t => Fresh s n /\ In t (chain s)
  | PEnqHelp n t nx => Fresh s n /\ In nx (chain s)
  | PEnqLink n t => Fresh s n /\ In t (chain s)
  | PEnqSwing n t => In n (chain s)
  | PDeqLoadNext h => exists i, i <= hpos s /\ nth_error (chain s) i = Some h
  | PDeqCas h nx => exists i, nth_error (chain s) i = Some h /\ nth_error (chain s) (S i) = Some nx
  | PDeqReadV h nx k =>
      Took s k /\ nth_error (chain s) k = Some nx /\ nval (nodes s nx) = Some (nth (k - 1) (enq_log s) 0)
  | PDeqClrV x k r => Took s k /\ nth_error (chain s) k = Some x /\ r = Some (nth (k - 1) (enq_log s) 0)
  | PDeqAdd k r => Took s k /\ r = Some (nth (k - 1) (enq_log s) 0)
  end.

Definition RI (s : state) (r : res) : Prop :=
  match r with
  | RVal k v => Took s k /\ v = nth (k - 1) (enq_log s) 0
  | RNil _ => False
  | _ => True
  end.

Fixpoint enq_vals (p : list qop) : list V :=
  match p with
  | [] => []
  | OEnq v :: r => v :: enq_vals r
  | _ :: r => enq_vals r
  end.

Definition linked_by (s : state) (tid : nat) : list V :=
  map snd (filter (fun p => Nat.eqb (fst p) tid) (combine (enq_tids s) (enq_log s))).

Definition pending (s : state) (p : pc) : list V :=
  match fresh_of p with Some n => [val_of s n] | None => [] end.

Record Inv (progs : list (list qop)) (s : state) : Prop := mkInv {
  g_nodup : NoDup (chain s);
  g_alloc : forall x, In x (chain s) -> x < nalloc s;
  g_next : forall i a, nth_error (chain s) i = Some a -> nnext (nodes s a) = nth_error (chain s) (S i);
  g_unl : forall x, ~ In x (chain s) -> nnext (nodes s x) = None;
  g_head : nth_error (chain s) (hpos s) = Some (qhead s);
  g_tail : In (qtail s) (chain s);
  g_len : length (chain s) = S (length (enq_log s));
  g_vals : forall i x, hpos s < i -> nth_error (chain s) i = Some x ->
                       nval (nodes s x) = Some (nth (i - 1) (enq_log s) 0);
  g_fifo : deq_log s = map Some (firstn (hpos s) (enq_log s));
  g_tids_len : length (enq_tids s) = length (enq_log s);
  t_inv : forall tid, TI s (tpc (threads s tid));
  r_inv : forall tid r, In r (results (threads s tid)) -> RI s r;
  p_fresh : forall t1 t2 n, t1 <> t2 -> fresh_of (tpc (threads s t1)) = Some n ->
                            fresh_of (tpc (threads s t2)) = Some n -> False;
  p_kw : forall t1 t2 k, t1 <> t2 -> kw_of (tpc (threads s t1)) = Some k ->
                         kw_of (tpc (threads s t2)) = Some k -> False;
  b_order : forall tid, linked_by s tid ++ pending s (tpc (threads s tid)) ++ enq_vals (prog (threads s tid))
                        = enq_vals (nth tid progs [])
}.

Lemma hpos_lt_len progs s : Inv progs s -> hpos s < length (chain s).
Proof. intros I. eapply nth_error_some_lt. apply (g_head I). Qed.

Lemma hpos_le_enq progs s : Inv progs s -> hpos s <= length (enq_log s).
Proof. intros I. pose proof (hpos_lt_len I). rewrite (g_len I) in H. lia. Qed.

Lemma inv_init progs : Inv progs (init progs).
Proof.
  constructor; unfold hpos; cbn; intros.
  - constructor; [intros []|constructor].
  - destruct H as [<-|[]]. lia.
  - destruct i; cbn in H; [|destruct i; discriminate]. reflexivity.
  - reflexivity.
  - reflexivity.
  - now left.
  - reflexivity.
  - destruct i; [lia|]. destruct i; discriminate.
  - reflexivity.
  - reflexivity.
  - exact I.
  - destruct H.
  - discriminate.
  - discriminate.
  - unfold linked_by, pending. cbn. reflexivity.
Qed.

(* ------------------------------------------------------------------ frame: steps that only move a thread *)

Lemma TI_same s s' p :
  nodes s' = nodes s -> nalloc s' = nalloc s -> gh s' = gh s -> TI s p -> TI s' p.
Proof.
  intros Hn Ha Hg. unfold TI, Fresh, Took, hpos. rewrite Hn, Ha, Hg. exact (fun x => x).
Qed.

Lemma RI_same s s' r : gh s' = gh s -> RI s r -> RI s' r.
Proof. intros Hg. unfold RI, Took, hpos. rewrite Hg. exact (fun x => x). Qed.

Lemma inv_frame progs s s' tid th' :
  Inv progs s ->
  nodes s' = nodes s -> nalloc s' = nalloc s -> qhead s' = qhead s -> gh s' = gh s ->
  In (qtail s') (chain s) ->
  threads s' = upd (threads s) tid th' ->
  TI s (tpc th') ->
  (forall r, In r (results th') -> In r (results (threads s tid)) \/ RI s r) ->
  (forall n, fresh_of (tpc th') = Some n -> fresh_of (tpc (threads s tid)) = Some n) ->
  (forall k, kw_of (tpc th') = Some k -> kw_of (tpc (threads s tid)) = Some k) ->
  pending s (tpc th') ++ enq_vals (prog th') =
    pending s (tpc (threads s tid)) ++ enq_vals (prog (threads s tid)) ->
  Inv progs s'.
Proof.
  intros I Hn Ha Hh Hg Ht Hth HTI HR HF HK HB.
  assert (Hthr : forall x, threads s' x = if Nat.eq_dec x tid then th' else threads s x).
  { intros x. rewrite Hth. destruct (Nat.eq_dec x tid) as [->|Hne]; [apply upd_eq|now apply upd_neq]. }
  constructor; unfold hpos in *; rewrite ?Hg, ?Hn, ?Ha, ?Hh.
  - apply I.
  - apply I.
  - apply I.
  - apply I.
  - apply (g_head I).
  - exact Ht.
  - apply I.
  - apply (g_vals I).
  - apply (g_fifo I).
  - apply I.
  - intros x. rewrite Hthr. destruct (Nat.eq_dec x tid); eapply TI_same; eauto. apply I.
  - intros x r. rewrite Hthr. destruct (Nat.eq_dec x tid) as [->|Hne]; intros Hin.
    + destruct (HR _ Hin) as [H|H]; [eapply RI_same; [exact Hg|eapply (r_inv I); eauto]|eapply RI_same; eauto].
    + eapply RI_same; [exact Hg|eapply (r_inv I); eauto].
  - intros t1 t2 n Hne. rewrite !Hthr.
    destruct (Nat.eq_dec t1 tid) as [->|H1], (Nat.eq_dec t2 tid) as [->|H2]; try congruence; intros A B.
    + eapply (p_fresh I) with (t1 := tid) (t2 := t2); eauto.
    + eapply (p_fresh I) with (t1 := t1) (t2 := tid); eauto.
    + eapply (p_fresh I) with (t1 := t1) (t2 := t2); eauto.
  - intros t1 t2 k Hne. rewrite !Hthr.
    destruct (Nat.eq_dec t1 tid) as [->|H1], (Nat.eq_dec t2 tid) as [->|H2]; try congruence; intros A B.
    + eapply (p_kw I) with (t1 := tid) (t2 := t2); eauto.
    + eapply (p_kw I) with (t1 := t1) (t2 := tid); eauto.
    + eapply (p_kw I) with (t1 := t1) (t2 := t2); eauto.
  - intros x. rewrite Hthr.
    assert (Hl : linked_by s' x = linked_by s x) by (unfold linked_by; now rewrite Hg).
    assert (Hp : forall p, pending s' p = pending s p) by (intros p; unfold pending, val_of; now rewrite Hn).
    rewrite Hl, Hp. destruct (Nat.eq_dec x tid) as [->|Hne].
    + rewrite HB. apply (b_order I).
    + apply (b_order I).
Qed.

Lemma fresh_TI s p n : fresh_of p = Some n -> TI s p -> Fresh s n.
Proof. destruct p; cbn; intros H; inversion H; subst; tauto. Qed.

Lemma thr_upd (f : nat -> thread) tid th x :
  upd f tid th x = if Nat.eq_dec x tid then th else f x.
Proof. destruct (Nat.eq_dec x tid) as [->|Hne]; [apply upd_eq|now apply upd_neq]. Qed.

(* ------------------------------------------------------------------ Enqueue: node allocation *)

Lemma TI_alloc s s' nd p :
  (forall x, In x (chain s) -> x < nalloc s) ->
  nodes s' = upd (nodes s) (nalloc s) nd -> nalloc s' = S (nalloc s) -> gh s' = gh s ->
  TI s p -> TI s' p.
Proof.
  intros Hal Hn Ha Hg. unfold TI, Fresh, Took, hpos. rewrite Ha, Hg, Hn.
  destruct p; try exact (fun x => x).
  - intros (A & B & C). repeat split; auto. rewrite upd_neq by lia. exact C.
  - intros ((A & B & C) & D). repeat split; auto. rewrite upd_neq by lia. exact C.
  - intros ((A & B & C) & D). repeat split; auto. rewrite upd_neq by lia. exact C.
  - intros ((A & B & C) & D). repeat split; auto. rewrite upd_neq by lia. exact C.
  - intros (A & B & C). repeat split; auto; try apply A.
    rewrite upd_neq; [exact C|]. apply nth_error_In in B. apply Hal in B. lia.
Qed.

Lemma inv_alloc progs s tid v p' :
  Inv progs s -> tpc (threads s tid) = PIdle -> prog (threads s tid) = OEnq v :: p' ->
  forall s',
  nodes s' = upd (nodes s) (nalloc s) (mkNode None (Some v)) -> nalloc s' = S (nalloc s) ->
  gh s' = gh s -> qhead s' = qhead s -> qtail s' = qtail s ->
  threads s' = upd (threads s) tid (mkThread p' (PEnqLoadTail (nalloc s)) (results (threads s tid))) ->
  Inv progs s'.
Proof.
  intros I Hpc Hprog s' Hn Ha Hg Hh Ht Hth.
  assert (Hthr : forall x, threads s' x = if Nat.eq_dec x tid
            then mkThread p' (PEnqLoadTail (nalloc s)) (results (threads s tid)) else threads s x).
  { intros x. rewrite Hth. apply thr_upd. }
  assert (Hfr : forall x n, x <> tid -> fresh_of (tpc (threads s x)) = Some n -> n < nalloc s).
  { intros x n _ H. eapply fresh_TI in H; [|apply (t_inv I)]. apply H. }
  constructor; unfold hpos; rewrite ?Hg, ?Hn, ?Ha, ?Hh, ?Ht.
  - apply I.
  - intros x H. apply (g_alloc I) in H. lia.
  - intros i a H. rewrite upd_neq; [now apply (g_next I)|]. apply nth_error_In, (g_alloc I) in H. lia.
  - intros x H. destruct (Nat.eq_dec x (nalloc s)) as [->|Hne].
    + now rewrite upd_eq.
    + rewrite upd_neq by auto. now apply (g_unl I).
  - apply (g_head I).
  - apply (g_tail I).
  - apply I.
  - intros i x Hi H. rewrite upd_neq; [now apply (g_vals I)|]. apply nth_error_In, (g_alloc I) in H. lia.
  - apply (g_fifo I).
  - apply I.
  - intros x. rewrite Hthr. destruct (Nat.eq_dec x tid).
    + cbn. unfold Fresh. rewrite Hg, Hn, Ha, upd_eq. repeat split; [|lia|discriminate].
      intros H. apply (g_alloc I) in H. lia.
    + eapply TI_alloc; eauto; [apply I|apply I].
  - intros x r. rewrite Hthr. destruct (Nat.eq_dec x tid) as [->|Hne]; cbn; intros H;
      (eapply RI_same; [exact Hg|eapply (r_inv I); eauto]).
  - intros t1 t2 n Hne. rewrite !Hthr.
    destruct (Nat.eq_dec t1 tid) as [->|H1], (Nat.eq_dec t2 tid) as [->|H2]; try congruence; cbn; intros A B.
    + inversion A; subst. apply Hfr in B; auto. lia.
    + inversion B; subst. apply Hfr in A; auto. lia.
    + eapply (p_fresh I) with (t1 := t1) (t2 := t2); eauto.
  - intros t1 t2 k Hne. rewrite !Hthr.
    destruct (Nat.eq_dec t1 tid) as [->|H1], (Nat.eq_dec t2 tid) as [->|H2]; try congruence; cbn; intros A B;
      try discriminate.
    eapply (p_kw I) with (t1 := t1) (t2 := t2); eauto.
  - intros x. rewrite Hthr.
    assert (Hl : linked_by s' x = linked_by s x) by (unfold linked_by; now rewrite Hg).
    rewrite Hl. destruct (Nat.eq_dec x tid) as [->|Hne].
    + cbn. unfold pending, val_of. cbn. rewrite Hn, upd_eq. cbn.
      pose proof (b_order I tid) as B. rewrite Hpc, Hprog in B. cbn in B. exact B.
    + assert (Hp : pending s' (tpc (threads s x)) = pending s (tpc (threads s x))).
      { unfold pending, val_of. destruct (fresh_of (tpc (threads s x))) eqn:E; [|reflexivity].
        rewrite Hn, upd_neq; [reflexivity|]. apply Hfr in E; auto. lia. }
      rewrite Hp. apply (b_order I).
Qed.

(* ------------------------------------------------------------------ Enqueue: the link CAS succeeds *)

Lemma NoDup_snoc A (l : list A) x : NoDup l -> ~ In x l -> NoDup (l ++ [x]).
Proof.
  induction l as [|a l IH]; intros Hnd Hx; cbn.
  - constructor; [intros []|constructor].
  - inversion Hnd; subst. constructor.
    + rewrite in_app_iff. cbn. intros [H|[H|[]]]; [auto|subst; apply Hx; now left].
    + apply IH; auto. intros H; apply Hx; now right.
Qed.

Lemma combine_snoc A B (l : list A) (l' : list B) a b :
  length l = length l' -> combine (l ++ [a]) (l' ++ [b]) = combine l l' ++ [(a, b)].
Proof.
  revert l'. induction l as [|x l IH]; intros [|y l'] H; cbn in *; try discriminate; [reflexivity|].
  f_equal. apply IH. lia.
Qed.

Section Link.
  Variables (progs : list (list qop)) (s s' : state) (tid n t : nat).
  Hypothesis I : Inv progs s.
  Hypothesis Hpc : tpc (threads s tid) = PEnqLink n t.
  Hypothesis Hnone : nnext (nodes s t) = None.
  Hypothesis Hn : nodes s' = upd (nodes s) t (mkNode (Some n) (nval (nodes s t))).
  Hypothesis Ha : nalloc s' = nalloc s.
  Hypothesis Hh : qhead s' = qhead s.
  Hypothesis Ht : qtail s' = qtail s.
  Hypothesis Hc : chain s' = chain s ++ [n].
  Hypothesis He : enq_log s' = enq_log s ++ [val_of s' n].
  Hypothesis Htd : enq_tids s' = enq_tids s ++ [tid].
  Hypothesis Hd : deq_log s' = deq_log s.
  Hypothesis Hth : threads s' = upd (threads s) tid
                     (mkThread (prog (threads s tid)) (PEnqSwing n t) (results (threads s tid))).

  Let Hfresh : Fresh s n.
  Proof. pose proof (t_inv I tid) as H. rewrite Hpc in H. apply H. Qed.
  Let Hin : In t (chain s).
  Proof. pose proof (t_inv I tid) as H. rewrite Hpc in H. apply H. Qed.

  Lemma link_nval x : nval (nodes s' x) = nval (nodes s x).
  Proof.
    rewrite Hn. destruct (Nat.eq_dec x t) as [->|Hne]; [now rewrite upd_eq|now rewrite upd_neq].
  Qed.

  Lemma link_last : nth_error (chain s) (length (chain s) - 1) = Some t.
  Proof.
    destruct (In_nth_error _ _ Hin) as [i Hi].
    pose proof (g_next I _ Hi) as Hx. rewrite Hnone in Hx. symmetry in Hx.
    apply nth_error_None in Hx. pose proof (nth_error_some_lt _ _ Hi).
    replace (length (chain s) - 1) with i by lia. exact Hi.
  Qed.

  Lemma link_nt : n <> t.
  Proof. intros E. destruct Hfresh as (A & _). apply A. rewrite E. exact Hin. Qed.

  Lemma link_nth k d : k < length (enq_log s) -> nth k (enq_log s') d = nth k (enq_log s) d.
  Proof. intros. rewrite He. now apply app_nth1. Qed.

  Lemma link_nth_err i : i < length (chain s) -> nth_error (chain s') i = nth_error (chain s) i.
  Proof. intros. rewrite Hc. now apply nth_error_app1. Qed.

  Lemma link_hpos : hpos s' = hpos s.
  Proof. unfold hpos. now rewrite Hd. Qed.

  Lemma TI_link p : (forall n', fresh_of p = Some n' -> n' <> n) -> TI s p -> TI s' p.
  Proof.
    pose proof (hpos_le_enq I) as Hle. pose proof (g_len I) as Hlen.
    intros Hf. unfold TI, Fresh, Took. rewrite link_hpos, Ha, Hc.
    assert (Hfr : forall n', n' <> n -> ~ In n' (chain s) /\ n' < nalloc s /\ nval (nodes s n') <> None ->
                  ~ In n' (chain s ++ [n]) /\ n' < nalloc s /\ nval (nodes s' n') <> None).
    { intros n' Hne (A & B & C). rewrite link_nval. repeat split; auto.
      rewrite in_app_iff. cbn. intros [H|[H|[]]]; auto. }
    destruct p; try exact (fun x => x); cbn in Hf.
    - intros H. apply Hfr; auto.
    - intros (H & H'). split; [apply Hfr; auto|]. apply in_or_app; now left.
    - intros (H & H'). split; [apply Hfr; auto|]. apply in_or_app; now left.
    - intros (H & H'). split; [apply Hfr; auto|]. apply in_or_app; now left.
    - intros H. apply in_or_app; now left.
    - intros (i & A & B). exists i. split; auto. rewrite <- Hc, link_nth_err; auto.
      eapply nth_error_some_lt; eauto.
    - intros (i & A & B). exists i. rewrite <- Hc, !link_nth_err; auto;
        eapply nth_error_some_lt; eauto.
    - intros ((A1 & A2) & B & C). rewrite <- Hc, link_nth_err by (eapply nth_error_some_lt; eauto).
      rewrite link_nval, link_nth by lia. auto.
    - intros ((A1 & A2) & B & C). rewrite <- Hc, link_nth_err by (eapply nth_error_some_lt; eauto).
      rewrite link_nth by lia. auto.
    - intros ((A1 & A2) & C). rewrite link_nth by lia. auto.
  Qed.

  Lemma inv_link : Inv progs s'.
  Proof.
    pose proof (hpos_le_enq I) as Hle. pose proof (g_len I) as Hlen. pose proof (hpos_lt_len I) as Hlt.
    pose proof link_last as Hlast. pose proof link_nt as Hnt.
    assert (Hthr : forall x, threads s' x = if Nat.eq_dec x tid
       then mkThread (prog (threads s tid)) (PEnqSwing n t) (results (threads s tid)) else threads s x).
    { intros x. rewrite Hth. apply thr_upd. }
    assert (Hvn : val_of s' n = val_of s n) by (unfold val_of; now rewrite link_nval).
    constructor; rewrite ?link_hpos, ?Ha, ?Hh, ?Ht.
    - rewrite Hc. apply NoDup_snoc; [apply I|apply Hfresh].
    - rewrite Hc. intros x H. apply in_app_or in H. destruct H as [H|[<-|[]]]; [now apply (g_alloc I)|apply Hfresh].
    - intros i a H.
      destruct (Nat.lt_ge_cases i (length (chain s) - 1)) as [Hi|Hi].
      + rewrite !link_nth_err in * by lia.
        assert (a <> t). { intros ->. pose proof (@NoDup_nth_inj _ _ _ _ _ (g_nodup I) H Hlast). lia. }
        rewrite Hn, upd_neq by auto. now apply (g_next I).
      + destruct (Nat.eq_dec i (length (chain s) - 1)) as [->|Hne].
        * rewrite link_nth_err in H by lia. rewrite Hlast in H. inversion H; subst a.
          rewrite Hn, upd_eq, Hc. replace (S (length (chain s) - 1)) with (length (chain s)) by lia.
          rewrite nth_error_app_last. reflexivity.
        * assert (i = length (chain s)).
          { apply nth_error_some_lt in H. rewrite Hc, app_length in H. cbn in H. lia. }
          subst i. rewrite Hc, nth_error_app_last in H. inversion H; subst a.
          rewrite Hn, upd_neq by auto. rewrite (g_unl I) by apply Hfresh.
          symmetry. apply nth_error_None. rewrite Hc, app_length. cbn. lia.
    - rewrite Hc. intros x H. rewrite Hn, upd_neq.
      + apply (g_unl I). intros H'. apply H. apply in_or_app; now left.
      + intros ->. apply H. apply in_or_app; now left.
    - rewrite link_nth_err by lia. apply (g_head I).
    - rewrite Hc. apply in_or_app; left. apply (g_tail I).
    - rewrite Hc, He, !app_length. cbn. lia.
    - intros i x Hi H. rewrite link_nval.
      destruct (Nat.lt_ge_cases i (length (chain s))) as [Hlt'|Hge].
      + rewrite link_nth_err in H by lia. rewrite link_nth by lia. now apply (g_vals I).
      + assert (i = length (chain s)).
        { apply nth_error_some_lt in H. rewrite Hc, app_length in H. cbn in H. lia. }
        subst i. rewrite Hc, nth_error_app_last in H. inversion H; subst x.
        rewrite He. replace (length (chain s) - 1) with (length (enq_log s)) by lia.
        rewrite app_nth2 by lia. rewrite Nat.sub_diag. cbn. rewrite Hvn. unfold val_of.
        destruct (nval (nodes s n)) eqn:E; [reflexivity|]. exfalso. now apply Hfresh.
    - rewrite Hd, He. rewrite firstn_app_l by lia. apply (g_fifo I).
    - rewrite Htd, He, !app_length. cbn. pose proof (g_tids_len I). lia.
    - intros x. rewrite Hthr. destruct (Nat.eq_dec x tid) as [->|Hne].
      + cbn. rewrite Hc. apply in_or_app. right. now left.
      + apply TI_link; [|apply (t_inv I)]. intros n' Hf ->.
        eapply (p_fresh I) with (t1 := x) (t2 := tid); eauto. rewrite Hpc. reflexivity.
    - intros x r Hin'.
      assert (RI s r).
      { rewrite Hthr in Hin'. destruct (Nat.eq_dec x tid) as [->|Hne]; eapply (r_inv I); eauto. }
      destruct r; cbn in *; auto. unfold Took in *. rewrite link_hpos.
      destruct H as ((A1 & A2) & B). rewrite link_nth by lia. auto.
    - intros t1 t2 k Hne. rewrite !Hthr.
      destruct (Nat.eq_dec t1 tid) as [->|H1], (Nat.eq_dec t2 tid) as [->|H2]; try congruence; cbn;
        intros A B; try discriminate.
      eapply (p_fresh I) with (t1 := t1) (t2 := t2); eauto.
    - intros t1 t2 k Hne. rewrite !Hthr.
      destruct (Nat.eq_dec t1 tid) as [->|H1], (Nat.eq_dec t2 tid) as [->|H2]; try congruence; cbn;
        intros A B; try discriminate.
      eapply (p_kw I) with (t1 := t1) (t2 := t2); eauto.
    - intros x.
      assert (Hl : linked_by s' x = linked_by s x ++ (if Nat.eqb tid x then [val_of s n] else [])).
      { unfold linked_by. rewrite Htd, He, combine_snoc by apply (g_tids_len I).
        rewrite filter_app, map_app. cbn. rewrite Hvn. destruct (Nat.eqb tid x); reflexivity. }
      rewrite Hl, Hthr. destruct (Nat.eq_dec x tid) as [->|Hne].
      + rewrite Nat.eqb_refl. cbn. pose proof (b_order I tid) as B. rewrite Hpc in B.
        unfold pending in B. cbn in B. rewrite <- app_assoc. exact B.
      + assert (E : Nat.eqb tid x = false) by (apply Nat.eqb_neq; auto). rewrite E, app_nil_r.
        assert (Hp : pending s' (tpc (threads s x)) = pending s (tpc (threads s x))).
        { unfold pending, val_of. destruct (fresh_of (tpc (threads s x))); [|reflexivity]. now rewrite link_nval. }
        rewrite Hp. apply (b_order I).
  Qed.
End Link.

(* ------------------------------------------------------------------ Dequeue: the head CAS succeeds *)

Lemma TI_hmono s s' p :
  nodes s' = nodes s -> nalloc s' = nalloc s -> chain s' = chain s -> enq_log s' = enq_log s ->
  hpos s <= hpos s' -> TI s p -> TI s' p.
Proof.
  intros Hn Ha Hc He Hle. unfold TI, Fresh, Took. rewrite Hn, Ha, Hc, He.
  destruct p; try exact (fun x => x).
  - intros (i & A & B). exists i. split; [lia|auto].
  - intros ((A1 & A2) & B). split; [split; lia|auto].
  - intros ((A1 & A2) & B). split; [split; lia|auto].
  - intros ((A1 & A2) & B). split; [split; lia|auto].
Qed.

Lemma kw_TI s p k : kw_of p = Some k -> TI s p -> Took s k.
Proof. destruct p; cbn; intros H; inversion H; subst; tauto. Qed.

Section DeqCas.
  Variables (progs : list (list qop)) (s s' : state) (tid h nx : nat).
  Hypothesis I : Inv progs s.
  Hypothesis Hpc : tpc (threads s tid) = PDeqCas h nx.
  Hypothesis Hhd : qhead s = h.
  Hypothesis Hn : nodes s' = nodes s.
  Hypothesis Ha : nalloc s' = nalloc s.
  Hypothesis Hh : qhead s' = nx.
  Hypothesis Ht : qtail s' = qtail s.
  Hypothesis Hc : chain s' = chain s.
  Hypothesis He : enq_log s' = enq_log s.
  Hypothesis Htd : enq_tids s' = enq_tids s.
  Hypothesis Hd : deq_log s' = deq_log s ++ [nval (nodes s nx)].
  Hypothesis Hth : threads s' = upd (threads s) tid
                     (mkThread (prog (threads s tid)) (PDeqReadV h nx (S (hpos s))) (results (threads s tid))).

  Lemma deqcas_nx : nth_error (chain s) (S (hpos s)) = Some nx.
  Proof.
    pose proof (t_inv I tid) as H. rewrite Hpc in H. destruct H as (i & A & B).
    pose proof (g_head I) as G. rewrite Hhd in G.
    now rewrite (@NoDup_nth_inj _ _ _ _ _ (g_nodup I) G A).
  Qed.

  Lemma deqcas_hpos : hpos s' = S (hpos s).
  Proof. unfold hpos. rewrite Hd, app_length. cbn. lia. Qed.

  Lemma inv_deqcas : Inv progs s'.
  Proof.
    pose proof deqcas_nx as Hnx. pose proof (g_len I) as Hlen.
    pose proof (nth_error_some_lt _ _ Hnx) as Hlt.
    assert (Hv : nval (nodes s nx) = Some (nth (hpos s) (enq_log s) 0)).
    { rewrite (g_vals I (i := S (hpos s)) (x := nx)) by (auto; lia). now replace (S (hpos s) - 1) with (hpos s) by lia. }
    assert (Hthr : forall x, threads s' x = if Nat.eq_dec x tid
       then mkThread (prog (threads s tid)) (PDeqReadV h nx (S (hpos s))) (results (threads s tid)) else threads s x).
    { intros x. rewrite Hth. apply thr_upd. }
    constructor; rewrite ?deqcas_hpos, ?Hn, ?Ha, ?Hh, ?Ht, ?Hc, ?He, ?Htd.
    - apply I.
    - apply I.
    - apply I.
    - apply I.
    - exact Hnx.
    - apply I.
    - apply I.
    - intros i x Hi. apply (g_vals I). lia.
    - rewrite Hd, Hv, (@firstn_S_nth V (enq_log s) (hpos s) 0) by lia. rewrite map_app. cbn. now rewrite <- (g_fifo I).
    - apply I.
    - intros x. rewrite Hthr. destruct (Nat.eq_dec x tid) as [->|Hne].
      + cbn [tpc TI]. unfold Took. rewrite deqcas_hpos, Hc, Hn, He.
        replace (S (hpos s) - 1) with (hpos s) by lia. repeat split; try lia; auto.
      + apply TI_hmono with (s := s); auto; [rewrite deqcas_hpos; lia|apply (t_inv I)].
    - intros x r Hin.
      assert (RI s r).
      { rewrite Hthr in Hin. destruct (Nat.eq_dec x tid) as [->|Hne]; eapply (r_inv I); eauto. }
      destruct r; cbn in *; auto. unfold Took in *. rewrite deqcas_hpos, He. destruct H as ((A1 & A2) & B).
      repeat split; auto; lia.
    - intros t1 t2 k Hne. rewrite !Hthr.
      destruct (Nat.eq_dec t1 tid) as [->|H1], (Nat.eq_dec t2 tid) as [->|H2]; try congruence; cbn;
        intros A B; try discriminate.
      eapply (p_fresh I) with (t1 := t1) (t2 := t2); eauto.
    - intros t1 t2 k Hne. rewrite !Hthr.
      destruct (Nat.eq_dec t1 tid) as [->|H1], (Nat.eq_dec t2 tid) as [->|H2]; try congruence; cbn;
        intros A B.
      + inversion A; subst k. apply kw_TI with (s := s) in B; [|apply (t_inv I)]. unfold Took in B. lia.
      + inversion B; subst k. apply kw_TI with (s := s) in A; [|apply (t_inv I)]. unfold Took in A. lia.
      + eapply (p_kw I) with (t1 := t1) (t2 := t2); eauto.
    - intros x. rewrite Hthr.
      assert (Hl : linked_by s' x = linked_by s x) by (unfold linked_by; now rewrite Htd, He).
      assert (Hp : forall p, pending s' p = pending s p) by (intros p; unfold pending, val_of; now rewrite Hn).
      rewrite Hl, Hp. destruct (Nat.eq_dec x tid) as [->|Hne].
      + cbn. pose proof (b_order I tid) as B. rewrite Hpc in B. exact B.
      + apply (b_order I).
  Qed.
End DeqCas.

(* ------------------------------------------------------------------ Dequeue: the winner clears the value *)

Section ClrV.
  Variables (progs : list (list qop)) (s s' : state) (tid x k : nat) (r : option V).
  Hypothesis I : Inv progs s.
  Hypothesis Hpc : tpc (threads s tid) = PDeqClrV x k r.
  Hypothesis Hn : nodes s' = upd (nodes s) x (mkNode (nnext (nodes s x)) None).
  Hypothesis Ha : nalloc s' = nalloc s.
  Hypothesis Hh : qhead s' = qhead s.
  Hypothesis Ht : qtail s' = qtail s.
  Hypothesis Hg : gh s' = gh s.
  Hypothesis Hth : threads s' = upd (threads s) tid
                     (mkThread (prog (threads s tid)) (PDeqAdd k r) (results (threads s tid))).

  Let HT : Took s k /\ nth_error (chain s) k = Some x /\ r = Some (nth (k - 1) (enq_log s) 0).
  Proof. pose proof (t_inv I tid) as H. now rewrite Hpc in H. Qed.

  Lemma clrv_next a : nnext (nodes s' a) = nnext (nodes s a).
  Proof. rewrite Hn. destruct (Nat.eq_dec a x) as [->|Hne]; [now rewrite upd_eq|now rewrite upd_neq]. Qed.

  Lemma clrv_val a : a <> x -> nval (nodes s' a) = nval (nodes s a).
  Proof. intros. now rewrite Hn, upd_neq. Qed.

  Lemma TI_clrv p : (forall k', kw_of p = Some k' -> k' <> k) -> TI s p -> TI s' p.
  Proof.
    destruct HT as ((K1 & K2) & Hx & _).
    intros Hk. unfold TI, Fresh, Took, hpos. rewrite Ha, Hg.
    assert (Hfr : forall n, ~ In n (chain s) /\ n < nalloc s /\ nval (nodes s n) <> None ->
                  ~ In n (chain s) /\ n < nalloc s /\ nval (nodes s' n) <> None).
    { intros n (A & B & C). rewrite clrv_val; auto. intros ->. apply A. eapply nth_error_In; eauto. }
    destruct p; try exact (fun z => z); cbn in Hk.
    - apply Hfr.
    - intros (A & B). split; auto.
    - intros (A & B). split; auto.
    - intros (A & B). split; auto.
    - intros (A & B & C). repeat split; auto; try apply A. rewrite clrv_val; auto.
      intros ->. assert (k0 = k) by (eapply NoDup_nth_inj; eauto; apply I). subst. now apply (Hk k).
  Qed.

  Lemma inv_clrv : Inv progs s'.
  Proof.
    destruct HT as ((K1 & K2) & Hx & Hr).
    assert (Hthr : forall z, threads s' z = if Nat.eq_dec z tid
       then mkThread (prog (threads s tid)) (PDeqAdd k r) (results (threads s tid)) else threads s z).
    { intros z. rewrite Hth. apply thr_upd. }
    constructor; unfold hpos in *; rewrite ?Hg, ?Ha, ?Hh, ?Ht.
    - apply I.
    - apply I.
    - intros i a H. rewrite clrv_next. now apply (g_next I).
    - intros a H. rewrite clrv_next. now apply (g_unl I).
    - apply (g_head I).
    - apply I.
    - apply I.
    - intros i a Hi H. rewrite clrv_val; [now apply (g_vals I)|].
      intros ->. assert (i = k) by (eapply NoDup_nth_inj; eauto; apply I). unfold hpos in *. lia.
    - apply (g_fifo I).
    - apply I.
    - intros z. rewrite Hthr. destruct (Nat.eq_dec z tid) as [->|Hne].
      + cbn. unfold Took, hpos. rewrite Hg. auto.
      + apply TI_clrv; [|apply (t_inv I)]. intros k' Hk ->.
        eapply (p_kw I) with (t1 := z) (t2 := tid); eauto. rewrite Hpc. reflexivity.
    - intros z r0 Hin. eapply RI_same; [exact Hg|].
      rewrite Hthr in Hin. destruct (Nat.eq_dec z tid) as [->|Hne]; eapply (r_inv I); eauto.
    - intros t1 t2 n Hne. rewrite !Hthr.
      destruct (Nat.eq_dec t1 tid) as [->|H1], (Nat.eq_dec t2 tid) as [->|H2]; try congruence; cbn;
        intros A B; try discriminate.
      eapply (p_fresh I) with (t1 := t1) (t2 := t2); eauto.
    - intros t1 t2 n Hne. rewrite !Hthr.
      destruct (Nat.eq_dec t1 tid) as [->|H1], (Nat.eq_dec t2 tid) as [->|H2]; try congruence; cbn;
        intros A B; try discriminate.
      eapply (p_kw I) with (t1 := t1) (t2 := t2); eauto.
    - intros z. rewrite Hthr.
      assert (Hl : linked_by s' z = linked_by s z) by (unfold linked_by; now rewrite Hg).
      rewrite Hl. destruct (Nat.eq_dec z tid) as [->|Hne].
      + cbn. pose proof (b_order I tid) as B. rewrite Hpc in B. exact B.
      + assert (Hp : pending s' (tpc (threads s z)) = pending s (tpc (threads s z))).
        { unfold pending, val_of. destruct (fresh_of (tpc (threads s z))) eqn:E; [|reflexivity].
          rewrite clrv_val; [reflexivity|]. intros ->.
          eapply fresh_TI in E; [|apply (t_inv I)]. destruct E as (E1 & _). apply E1. eapply nth_error_In; eauto. }
        rewrite Hp. apply (b_order I).
  Qed.
End ClrV.

(* ------------------------------------------------------------------ every step preserves the invariant *)

Ltac frame I tid :=
  eapply (@inv_frame _ _ _ tid _ I);
  [reflexivity|reflexivity|reflexivity|reflexivity| |reflexivity| | | | |].

Lemma inv_step progs s tid o : Inv progs s -> Inv progs (fst (step false s tid o)).
Proof.
  intros I. unfold step.
  pose proof (t_inv I tid) as HT.
  destruct (tpc (threads s tid)) eqn:Hpc; cbn [TI] in HT; try contradiction.
  - (* PIdle *)
    destruct (prog (threads s tid)) as [|[v| |] p'] eqn:Hprog; cbn [fst].
    + exact I.
    + eapply inv_alloc; eauto; reflexivity.
    + frame I tid; cbn [tpc results prog fresh_of kw_of]; rewrite ?Hpc, ?Hprog; auto; try discriminate.
      apply (g_tail I).
    + frame I tid; cbn [tpc results prog fresh_of kw_of]; rewrite ?Hpc, ?Hprog; auto; try discriminate.
      apply (g_tail I).
  - (* PEnqLoadTail *)
    cbn [fst]. frame I tid; cbn [tpc results prog fresh_of kw_of TI]; rewrite ?Hpc; auto; try discriminate.
    + apply (g_tail I).
    + split; [exact HT|apply (g_tail I)].
  - (* PEnqLoadNext *)
    destruct HT as (HF & Hin).
    cbv zeta. change (nodes (touch s t)) with (nodes s).
    destruct (nnext (nodes s t)) as [nx|] eqn:Hnx; cbn [fst];
      frame I tid; cbn [tpc results prog fresh_of kw_of TI]; rewrite ?Hpc; auto; try discriminate;
      try apply (g_tail I).
    split; auto. destruct (In_nth_error _ _ Hin) as [i Hi].
    pose proof (g_next I _ Hi) as G. rewrite Hnx in G. symmetry in G. eapply nth_error_In; eauto.
  - (* PEnqHelp *)
    destruct HT as (HF & Hin). cbv zeta. change (qtail (touch s t)) with (qtail s).
    destruct (Nat.eqb (qtail s) t); cbn [fst];
      frame I tid; cbn [tpc results prog fresh_of kw_of TI]; rewrite ?Hpc; auto; try discriminate.
    apply (g_tail I).
  - (* PEnqLink *)
    cbv zeta. change (nodes (touch s t)) with (nodes s).
    destruct (nnext (nodes s t)) as [nx|] eqn:Hnx; cbn [fst].
    + frame I tid; cbn [tpc results prog fresh_of kw_of TI]; rewrite ?Hpc; auto; try discriminate.
      * apply (g_tail I).
      * apply HT.
    + eapply inv_link with (s := s) (tid := tid) (n := n) (t := t); eauto; reflexivity.
  - (* PEnqSwing *)
    cbv zeta. change (qtail (touch s t)) with (qtail s).
    destruct (Nat.eqb (qtail s) t); cbn [fst];
      frame I tid; cbn [tpc results prog fresh_of kw_of TI]; rewrite ?Hpc; auto; try discriminate.
    apply (g_tail I).
  - (* PEnqAdd *)
    cbn [fst]. frame I tid; cbn [tpc results prog fresh_of kw_of TI]; rewrite ?Hpc; auto; try discriminate.
    apply (g_tail I).
  - (* PDeqLoadHead *)
    cbn [fst]. frame I tid; cbn [tpc results prog fresh_of kw_of TI]; rewrite ?Hpc; auto; try discriminate.
    + apply (g_tail I).
    + exists (hpos s). split; [lia|apply (g_head I)].
  - (* PDeqLoadNext *)
    destruct HT as (i & Hle & Hi).
    cbv zeta. change (nodes (touch s h)) with (nodes s).
    destruct (nnext (nodes s h)) as [nx|] eqn:Hnx; cbn [fst].
    + frame I tid; cbn [tpc results prog fresh_of kw_of TI]; rewrite ?Hpc; auto; try discriminate.
      * apply (g_tail I).
      * exists i. split; auto. pose proof (g_next I _ Hi) as G. now rewrite Hnx in G.
    + frame I tid; cbn [tpc results prog fresh_of kw_of TI]; rewrite ?Hpc; auto; try discriminate.
      * apply (g_tail I).
      * intros r [<-|H]; [right; exact Logic.I|now left].
  - (* PDeqCas *)
    cbv zeta. change (qhead (touch s h)) with (qhead s).
    destruct (Nat.eqb (qhead s) h) eqn:E; cbn [fst].
    + apply Nat.eqb_eq in E.
      eapply inv_deqcas with (s := s) (tid := tid) (h := h) (nx := nx); eauto; reflexivity.
    + frame I tid; cbn [tpc results prog fresh_of kw_of TI]; rewrite ?Hpc; auto; try discriminate.
      apply (g_tail I).
  - (* PDeqReadV *)
    destruct HT as (HTk & Hk & Hv).
    cbv zeta. cbn [fst].
    frame I tid; cbn [tpc results prog fresh_of kw_of TI]; rewrite ?Hpc; auto; try discriminate.
    apply (g_tail I).
  - (* PDeqClrV *)
    cbn [fst]. eapply inv_clrv with (s := s) (tid := tid); eauto; reflexivity.
  - (* PDeqAdd *)
    destruct HT as (HTk & Hr).
    cbn [fst]. frame I tid; cbn [tpc results prog fresh_of kw_of TI]; rewrite ?Hpc; auto; try discriminate.
    + apply (g_tail I).
    + intros r0 [<-|H]; [right|now left]. rewrite Hr. cbn. auto.
  - (* PLen *)
    cbn [fst]. frame I tid; cbn [tpc results prog fresh_of kw_of TI]; rewrite ?Hpc; auto; try discriminate.
    + apply (g_tail I).
    + intros r0 [<-|H]; [right; exact Logic.I|now left].
Qed.

(* ------------------------------------------------------------------ reachable states, any number of threads *)

Inductive reach (progs : list (list qop)) : state -> Prop :=
| reach_init : reach progs (init progs)
| reach_step s tid o : reach progs s -> reach progs (fst (step false s tid o)).

Lemma reach_inv progs s : reach progs s -> Inv progs s.
Proof. induction 1; [apply inv_init|now apply inv_step]. Qed.

(* FIFO at the linearization points: the values taken by the successful head CASes, in CAS order, are
   exactly the first values linked, in link order (no loss, no duplication, no reordering). *)
Lemma conc_fifo progs s :
  reach progs s -> deq_log s = map Some (firstn (length (deq_log s)) (enq_log s)).
Proof. intros H. apply (g_fifo (reach_inv H)). Qed.

Lemma conc_deq_le_enq progs s : reach progs s -> length (deq_log s) <= length (enq_log s).
Proof. intros H. apply (hpos_le_enq (reach_inv H)). Qed.

(* What a Dequeue call returns is the value of its own linearization point. *)
Lemma conc_results progs s tid r :
  reach progs s -> In r (results (threads s tid)) ->
  match r with
  | RVal k v => 1 <= k <= length (deq_log s) /\ nth_error (enq_log s) (k - 1) = Some v
  | RNil _ => False
  | _ => True
  end.
Proof.
  intros H Hin. pose proof (reach_inv H) as I. pose proof (r_inv I _ _ Hin) as R.
  destruct r; cbn in R; auto. destruct R as ((A & B) & ->). unfold hpos in B. split; [lia|].
  apply nth_error_nth'. pose proof (hpos_le_enq I). unfold hpos in *. lia.
Qed.

(* A Dequeue reports "empty" only at an instant at which every linked value has been taken. *)
Lemma conc_empty progs s tid h :
  reach progs s -> tpc (threads s tid) = PDeqLoadNext h -> nnext (nodes s h) = None ->
  length (deq_log s) = length (enq_log s).
Proof.
  intros H Hpc Hn. pose proof (reach_inv H) as I. pose proof (t_inv I tid) as T. rewrite Hpc in T.
  destruct T as (i & Hle & Hi). pose proof (g_next I _ Hi) as G. rewrite Hn in G. symmetry in G.
  apply nth_error_None in G. pose proof (hpos_lt_len I). pose proof (g_len I). unfold hpos in *. lia.
Qed.

(* Per-producer order: the values a thread has linked so far (in link order), the value it is about
   to link, and the Enqueue calls still in its program are together its original sequence of
   Enqueue calls. *)
Lemma conc_program_order progs s tid :
  reach progs s ->
  linked_by s tid ++ pending s (tpc (threads s tid)) ++ enq_vals (prog (threads s tid))
  = enq_vals (nth tid progs []).
Proof. intros H. apply (b_order (reach_inv H)). Qed.
