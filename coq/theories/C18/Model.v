(** C18 — undeliverable messages surface as dead letters exactly once.

    Executable model of the code that exists (no proofs here):

      actor/pid.go            handleReceivedError / handleReceivedErrorWithMessage / toDeadletter
                              (drop sites: full non-blocking mailbox and system-stopping gate in doReceive,
                               ReceiveContext.Unhandled, Ask timeout, stash failure)
      actor/remote_server.go  deliverRemoteTellMessage (payload decode, metadata, tree lookup: missing /
                              removed / not running / dispatch failure, each preceded by address.Parse(receiver)),
                              newRemoteSenderPID, deadLetterRemoteMessage,
                              enqueueCoalescedFailure / drainCoalescedFailures (bounded fan-out channel)
      actor/dead_letter.go    the dead-letter actor's Receive: handleDeadletter (counter, publish, per-receiver
                              counters, last letter per receiver), handlePublishDeadletters, count

    Every op is one atomic step of some thread: a dropper enqueuing a SendDeadletter command into the
    dead-letter actor's (unbounded, FIFO) system mailbox, the coalescer's error handler doing its non-blocking
    channel send, the drain goroutine receiving a batch / handling one message of the batch in hand, the
    dead-letter actor handling one command.  A list of ops is therefore an arbitrary interleaving of any number
    of droppers with the drain goroutine and the dead-letter actor.  What the environment decides (is the
    dead-letter actor / system guardian running, is the system shutting down, does the fan-out queue exist,
    which branch the actor tree lookup takes, does address.Parse accept the wire string) is carried by the op.
*)
From Coq Require Import List Bool Arith PeanoNat.
Import ListNotations.

Definition addr := nat.
Definition nosender : addr := 0.

(** an address as it travels on the wire (a string).  [WGood n] / [WBad n] are both the canonical
    string [Address.String()] of address [n]; [WBad] is one that [address.Parse] rejects (a raw IPv6 host
    before repo commit d405ae0, see C26; the harness asks the real Parse which case applies; [WBad 0] also
    stands for a string that is no address at all).  [WEmpty] is the empty string (no sender). *)
Inductive waddr := WEmpty | WBad (n : addr) | WGood (n : addr).

Definition parse (w : waddr) : option addr :=
  match w with WGood n => Some n | _ => None end.
(** the address the string stands for *)
Definition meant (w : waddr) : addr :=
  match w with WGood n => n | WBad n => n | WEmpty => nosender end.
(** newRemoteSenderPID(...).getAddress(): empty or unparseable falls back to NoSender *)
Definition sender_remote (w : waddr) : addr :=
  match parse w with Some a => a | None => nosender end.

(** message classes.  handleReceivedErrorWithMessage's recursion guard excludes exactly PostStart, Terminated
    and SendDeadletter; every other message — a user message, the reentrancy envelopes AsyncRequest /
    AsyncResponse (system messages for the stopping gate, but queued in the USER mailbox, so a full bounded
    mailbox refuses them), and the remaining internal messages (PoisonPill, Panicking, Pause/ResumePassivation,
    PanicSignal) when they reach the function — is dead-lettered. *)
Inductive mkind := KUser | KAsyncRequest | KAsyncResponse | KInternal | KPostStart | KTerminated | KSendDL.
Definition excluded (k : mkind) : bool :=
  match k with KPostStart | KTerminated | KSendDL => true | _ => false end.

(** PID state bits read by IsRunning (actor/pid.go): running and none of stopping / suspended / passivating.
    A node found in the tree whose PID is not running in this sense takes deliverRemoteTellMessage's
    "not running" branch.  (Other bits — passivation paused, system, singleton … — do not matter.) *)
Record pstate := PS { ps_running : bool; ps_stopping : bool; ps_suspended : bool; ps_passivating : bool }.
Definition is_running (p : pstate) : bool :=
  ps_running p && negb (ps_stopping p) && negb (ps_suspended p) && negb (ps_passivating p).

(** a dead letter: (message id, sender, receiver) *)
Definition letter := (nat * addr * addr)%type.
Definition l_mid (l : letter) : nat := fst (fst l).
Definition l_from (l : letter) : addr := snd (fst l).
Definition l_to (l : letter) : addr := snd l.

(** internalpb.RemoteMessage as far as the code looks at it *)
Record wmsg := W { w_mid : nat; w_from : waddr; w_to : waddr;
                   w_payload : bool (* Deserialize succeeds *);
                   w_meta : bool (* messageMetadata succeeds *) }.

(** what the sender of a remote message meant: the letter the property demands when it is dropped *)
Definition intended (w : wmsg) : letter := (w_mid w, meant (w_from w), meant (w_to w)).

(** readings of the environment made by one op *)
Record env := E { e_dl : bool     (* dead-letter actor is running *);
                  e_guard : bool  (* system guardian is running *);
                  e_shut : bool   (* actorSystem.shuttingDown *);
                  e_qon : bool    (* coalescedFailureQueue != nil *) }.

(** senderPID argument of handleReceivedErrorWithMessage *)
Inductive lsender := SNone | SNoSender | SPid (a : addr).
Definition sender_of (s : lsender) : addr :=
  match s with SPid a => a | _ => nosender end.
Definition rcv_or (r : option addr) : addr := match r with Some a => a | None => nosender end.

(** outcome of the actor-tree part of deliverRemoteTellMessage *)
Inductive tree :=
| TMissing | TRemoved | TNotRunning | TDispFail
| TOk (accepted : bool) (* handleRemoteTell -> doReceive: target mailbox took the message? *).

(** the tree outcome for a node that holds a PID in state [p] *)
Definition tree_of_state (p : pstate) (accepted : bool) : tree :=
  if is_running p then TOk accepted else TNotRunning.

Inductive op :=
| OLocal (e : env) (stream : bool) (snd : lsender) (rcv : option addr) (k : mkind) (mid : nat)
    (* receiverPID.handleReceivedErrorWithMessage(senderPID, message, err) *)
| OToDL (e : env) (from to : addr) (mid : nat)            (* pid.toDeadletter(ctx, from, to, message, err) *)
| OAskSend (e : env) (accepted : bool) (snd : lsender) (to : addr) (mid : nat)
    (* Ask: to.doReceive(receiveContext); [accepted = false]: the enqueue fails (full bounded mailbox /
       system stopping) and doReceive itself dead-letters the message *)
| OAskTimeout (e : env) (accepted : bool) (snd : lsender) (to : addr) (mid : nat)
    (* Ask: the timer (or ctx) fires before a reply: handleReceivedErrorWithMessage(sender, message, timeout).
       [accepted] remembers what the matching OAskSend saw.  Modelled with the receiver repaired
       (fixes/C18-ask-timeout-receiver.diff): the dead letter names the asked actor. *)
| ORemote (e : env) (w : wmsg) (t : tree)                 (* deliverRemoteTellMessage *)
| OCoalesce (e : env) (b : list wmsg)                     (* enqueueCoalescedFailure *)
| ODrainTake                                              (* drain goroutine: receive next batch from the channel *)
| ODrainMsg (e : env)                                     (* drain goroutine: next message of the batch in hand *)
| ODLStep                                                 (* dead-letter actor handles one SendDeadletter *)
| OPublishAll                                             (* dead-letter actor handles PublishDeadletters *).

(** why a dropped message got no dead letter (branches visible in the code) *)
Inductive lclass := CNoStream | CNoAddr | CDLDown | CPayload | CRecvParse | CShut | CQueueFull.

Record st := St {
  mbox : list letter;              (* SendDeadletter commands in the dead-letter actor's system mailbox *)
  cur : list wmsg;                 (* rest of the batch the drain goroutine is working on *)
  fq : list (list wmsg);           (* the fan-out channel *)
  counter : nat;                   (* deadLetter.counter *)
  published : list letter;         (* eventsStream.Publish calls made by the dead-letter actor, in order *)
  percount : list (addr * nat);    (* deadLetter.counters *)
  lastl : list (addr * letter);    (* deadLetter.letters *)
  replays : list letter;           (* ghost: events published again by handlePublishDeadletters *)
  lost : list (lclass * letter);   (* ghost: dropped messages for which the code produced no dead letter *)
  dups : list letter               (* ghost: second dead letter sent for a message that already had one *)
}.

Definition init : st := St [] [] [] 0 [] [] [] [] [] [].

Definition set_mbox (s : st) v := St v (cur s) (fq s) (counter s) (published s) (percount s) (lastl s) (replays s) (lost s) (dups s).
Definition set_cur (s : st) v := St (mbox s) v (fq s) (counter s) (published s) (percount s) (lastl s) (replays s) (lost s) (dups s).
Definition set_fq (s : st) v := St (mbox s) (cur s) v (counter s) (published s) (percount s) (lastl s) (replays s) (lost s) (dups s).
Definition set_lost (s : st) v := St (mbox s) (cur s) (fq s) (counter s) (published s) (percount s) (lastl s) (replays s) v (dups s).
Definition set_dups (s : st) v := St (mbox s) (cur s) (fq s) (counter s) (published s) (percount s) (lastl s) (replays s) (lost s) v.

Definition lose (c : lclass) (l : letter) (s : st) : st := set_lost s (lost s ++ [(c, l)]).
Definition send_dl (l : letter) (s : st) : st := set_mbox s (mbox s ++ [l]).

(** pid.toDeadletter: pid.Tell(deadletter, SendDeadletter) — ErrDead (ignored) unless the dead-letter actor runs *)
Definition to_dl (e : env) (l want : letter) (s : st) : st :=
  if e_dl e then send_dl l s else lose CDLDown want s.
(** actorSystem.deadLetterRemoteMessage *)
Definition remote_dl (e : env) (l want : letter) (s : st) : st :=
  if e_dl e && e_guard e then send_dl l s else lose CDLDown want s.

Fixpoint bump (a : addr) (pc : list (addr * nat)) : list (addr * nat) :=
  match pc with
  | [] => [(a, 1)]
  | (b, n) :: r => if Nat.eqb a b then (b, S n) :: r else (b, n) :: bump a r
  end.
Fixpoint getc (a : addr) (pc : list (addr * nat)) : nat :=
  match pc with
  | [] => 0
  | (b, n) :: r => if Nat.eqb a b then n else getc a r
  end.
Fixpoint setl (a : addr) (l : letter) (m : list (addr * letter)) : list (addr * letter) :=
  match m with
  | [] => [(a, l)]
  | (b, x) :: r => if Nat.eqb a b then (b, l) :: r else (b, x) :: setl a l r
  end.

Definition is_ok_tree (t : tree) : bool := match t with TOk _ => true | _ => false end.
Definition delivered (w : wmsg) (t : tree) : bool :=
  w_payload w && w_meta w && match t with TOk true => true | _ => false end.

(** drainCoalescedFailures, body of the inner loop *)
Definition drain_msg (e : env) (w : wmsg) (s1 : st) : st :=
  match parse (w_to w) with
  | None => lose CRecvParse (intended w) s1
  | Some a =>
      if negb (w_payload w) then lose CPayload (intended w) s1
      else remote_dl e (w_mid w, sender_remote (w_from w), a) (intended w) s1
  end.

Definition step (cap : nat) (s : st) (o : op) : st :=
  match o with
  | OLocal e stream snd rcv k mid =>
      if excluded k then s
      else
        let want := (mid, sender_of snd, rcv_or rcv) in
        if negb stream then lose CNoStream want s
        else match rcv with
             | None => lose CNoAddr want s
             | Some r => to_dl e (mid, sender_of snd, r) want s
             end
  | OToDL e f t mid => to_dl e (mid, f, t) (mid, f, t) s
  | OAskSend e acc snd t mid =>
      if acc then s else to_dl e (mid, sender_of snd, t) (mid, sender_of snd, t) s
  | OAskTimeout e acc snd t mid =>
      let l := (mid, sender_of snd, t) in
      if acc then to_dl e l l s
      else if e_dl e then set_dups (send_dl l s) (dups s ++ [l]) else s
  | ORemote e w t =>
      if negb (w_payload w) then lose CPayload (intended w) s
      else if negb (w_meta w) || negb (is_ok_tree t) then
        match parse (w_to w) with
        | None => lose CRecvParse (intended w) s
        | Some r => remote_dl e (w_mid w, sender_remote (w_from w), r) (intended w) s
        end
      else match t with
           | TOk false => to_dl e (w_mid w, sender_remote (w_from w), meant (w_to w)) (intended w) s
           | _ => s
           end
  | OCoalesce e b =>
      if e_shut e || negb (e_qon e) then fold_left (fun s' w => lose CShut (intended w) s') b s
      else if cap <=? length (fq s) then fold_left (fun s' w => lose CQueueFull (intended w) s') b s
      else set_fq s (fq s ++ [b])
  | ODrainTake =>
      match cur s, fq s with
      | [], b :: r => set_fq (set_cur s b) r
      | _, _ => s
      end
  | ODrainMsg e =>
      match cur s with
      | [] => s
      | w :: r => drain_msg e w (set_cur s r)
      end
  | ODLStep =>
      match mbox s with
      | [] => s
      | l :: r =>
          St r (cur s) (fq s) (S (counter s)) (published s ++ [l])
            (bump (l_to l) (percount s)) (setl (l_to l) l (lastl s)) (replays s) (lost s) (dups s)
      end
  | OPublishAll =>
      St (mbox s) (cur s) (fq s) (counter s) (published s ++ map snd (lastl s))
        (percount s) (lastl s) (replays s ++ map snd (lastl s)) (lost s) (dups s)
  end.

Definition run (cap : nat) (ops : list op) (s : st) : st := fold_left (step cap) ops s.

(** what the property demands: one dead letter (message, sender, receiver) per accepted-then-dropped message *)
Definition spec_op (o : op) : list letter :=
  match o with
  | OLocal _ _ snd rcv k mid =>
      if excluded k then []    (* PostStart / Terminated / SendDeadletter: runtime-internal, excluded *)
      else [(mid, sender_of snd, rcv_or rcv)]
  | OToDL _ f t mid => [(mid, f, t)]
  | OAskSend _ acc snd t mid => if acc then [] else [(mid, sender_of snd, t)]
  | OAskTimeout _ acc snd t mid => if acc then [(mid, sender_of snd, t)] else []
  | ORemote _ w t => if delivered w t then [] else [intended w]
  | OCoalesce _ b => map intended b
  | _ => []
  end.
Definition spec_drops (ops : list op) : list letter := flat_map spec_op ops.

(** ------------------------------------------------------------------------------------------
    Harness-level steps (checks/C18.py): the sequential in-package harness lets the dead-letter actor handle
    everything in its mailbox after every op (it asks the actor for its count, which is ordered after the
    queued SendDeadletter commands), runs the real drain loop to completion as one op, and performs an Ask
    as send + timeout.  Each is BY CONSTRUCTION a run of the primitive ops above. *)
Definition dl_all_ops (s : st) : list op := repeat ODLStep (length (mbox s)).
Definition drain_all_ops (e : env) (s : st) : list op :=
  repeat (ODrainMsg e) (length (cur s))
  ++ flat_map (fun b => ODrainTake :: repeat (ODrainMsg e) (length b)) (fq s).

Inductive hop :=
| HOp (o : op)
| HAsk (e : env) (accepted : bool) (snd : lsender) (to : addr) (mid : nat)
| HDrain (e : env)
| HCount (a : addr)     (* DeadlettersCountRequest{Address: a}: no state change, reported in the trace *).

Definition hops (s : st) (h : hop) : list op :=
  match h with
  | HOp o => [o]
  | HAsk e acc snd t mid => [OAskSend e acc snd t mid; OAskTimeout e acc snd t mid]
  | HDrain e => drain_all_ops e s
  | HCount _ => []
  end.
Definition hstep (cap : nat) (s : st) (h : hop) : st :=
  let s1 := run cap (hops s h) s in run cap (dl_all_ops s1) s1.

(** per step: (counter, length of the fan-out queue, per-receiver count asked by HCount, letters published by this step) *)
Fixpoint htrace (cap : nat) (hs : list hop) (s : st) : list (nat * nat * nat * list letter) :=
  match hs with
  | [] => []
  | h :: r =>
      let s' := hstep cap s h in
      (counter s', length (fq s'), match h with HCount a => getc a (percount s') | _ => 0 end,
       skipn (length (published s)) (published s')) :: htrace cap r s'
  end.
